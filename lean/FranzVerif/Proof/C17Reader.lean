import FranzVerif.Model.C17
import FranzVerif.Spec.C17
import FranzVerif.Proof.C17
import FranzVerif.Proof.C17Dec
import FranzVerif.Proof.C17Zig
import FranzVerif.Proof.C17Fixed
/-! C17 — `kbin.Reader`: closed forms of the primitive reads (no panic, value = Spec value, the source
advances by exactly the encoding or the reader is invalidated). Kernel only. -/
namespace Proof.C17
open Model.C17
open Spec.C17 hiding Bytes

/-- `r` with its source replaced by the suffix after `n` bytes -/
def adv (r : Reader) (n : Nat) : Reader := { r with src := r.src.drop n }

theorem advance_eq (r : Reader) (n : Nat) (h : n ≤ r.src.length) : r.advance n = some (adv r n) := by
  simp [Reader.advance, from?, h, adv]

/-! ## fixed width -/
theorem bool_eq (r : Reader) : r.bool = some (match r.src with
    | [] => (false, Reader.invalid)
    | b :: _ => (b != 0#8, adv r 1)) := by
  rcases h : r.src with _ | ⟨b, rest⟩
  · simp [Reader.bool, h]
  · simp [Reader.bool, h, idx?, advance_eq r 1 (by simp [h])]

theorem int8_eq (r : Reader) : r.int8 = some (match r.src with
    | [] => (0#8, Reader.invalid)
    | b :: _ => (b, adv r 1)) := by
  rcases h : r.src with _ | ⟨b, rest⟩
  · simp [Reader.int8, h]
  · simp [Reader.int8, h, idx?, advance_eq r 1 (by simp [h])]

theorem uint16_eq (r : Reader) : r.uint16 = some (
    if r.src.length < 2 then (0#16, Reader.invalid) else (BitVec.ofNat 16 (unbe (r.src.take 2)), adv r 2)) := by
  rcases h : r.src with _ | ⟨b0, _ | ⟨b1, rest⟩⟩
  · simp [Reader.uint16, h]
  · simp [Reader.uint16, h]
  · have := advance_eq r 2 (by simp [h])
    simp only [Reader.uint16, h, beU16_cons, this]
    simp only [List.length_cons, List.take_succ_cons, List.take_zero, Option.bind_some, Option.map_some]
    split <;> rfl

theorem uint32_eq (r : Reader) : r.uint32 = some (
    if r.src.length < 4 then (0#32, Reader.invalid) else (BitVec.ofNat 32 (unbe (r.src.take 4)), adv r 4)) := by
  rcases h : r.src with _ | ⟨b0, _ | ⟨b1, _ | ⟨b2, _ | ⟨b3, rest⟩⟩⟩⟩
  · simp [Reader.uint32, h]
  · simp [Reader.uint32, h]
  · simp [Reader.uint32, h]
  · simp [Reader.uint32, h]
  · have := advance_eq r 4 (by simp [h])
    simp only [Reader.uint32, h, beU32_cons, this]
    simp only [List.length_cons, List.take_succ_cons, List.take_zero, Option.bind_some, Option.map_some]
    split <;> rfl

theorem readUint64_eq (r : Reader) : r.readUint64 = some (
    if r.src.length < 8 then (0#64, Reader.invalid) else (BitVec.ofNat 64 (unbe (r.src.take 8)), adv r 8)) := by
  by_cases hl : r.src.length < 8
  · simp [Reader.readUint64, hl]
  · rcases h : r.src with _ | ⟨b0, _ | ⟨b1, _ | ⟨b2, _ | ⟨b3, _ | ⟨b4, _ | ⟨b5, _ | ⟨b6, _ | ⟨b7, rest⟩⟩⟩⟩⟩⟩⟩⟩ <;>
      (try (rw [h] at hl; simp at hl; done))
    have := advance_eq r 8 (by simp [h])
    simp only [Reader.readUint64, h, beU64_cons, this]
    simp only [List.length_cons, List.take_succ_cons, List.take_zero, Option.bind_some, Option.map_some]
    split <;> rfl

/-! ## varints -/
theorem leb_bounds : ∀ (s : Bytes) (v n : Nat), leb s = some (v, n) → 1 ≤ n ∧ n ≤ s.length
  | [], v, n, h => by simp [leb] at h
  | b :: rest, v, n, h => by
    by_cases hb : b.toNat < 128
    · rw [leb_cons_lt b rest hb] at h
      simp at h; simp; omega
    · rw [leb_cons_ge b rest hb] at h
      rcases hl : leb rest with _ | ⟨v', n'⟩
      · rw [hl] at h; simp at h
      · rw [hl] at h
        have := leb_bounds rest v' n' hl
        simp at h; simp; omega

/-- a positive count returned by the decoder contract is at most the input length, and the value fits -/
theorem decU_bounds (bits maxB : Nat) (inp : Bytes) (h : 0 < (decU bits maxB inp).2) :
    ((decU bits maxB inp).2.toNat ≤ inp.length ∧ 1 ≤ (decU bits maxB inp).2.toNat) ∧ (decU bits maxB inp).1 < 2 ^ bits := by
  unfold decU at h ⊢
  rcases hl : leb (inp.take maxB) with _ | ⟨v, n⟩
  · rw [hl] at h; simp only at h
    split at h <;> (try simp only at h) <;> omega
  · rw [hl] at h; simp only at h ⊢
    have hb := leb_bounds _ v n hl
    have : (inp.take maxB).length ≤ inp.length := by simp [List.length_take]; omega
    by_cases hv : v < 2 ^ bits
    · rw [if_pos hv] at h ⊢
      refine ⟨?_, hv⟩
      simp only at h ⊢
      omega
    · rw [if_neg hv] at h
      simp only at h
      omega

theorem afterVar_eq {w : Nat} (r : Reader) (x : BitVec w) (n : Int) (hn : 0 < n → n.toNat ≤ r.src.length) :
    Reader.afterVar r (x, n) = some (if n ≤ 0 then (0#w, Reader.invalid) else (x, adv r n.toNat)) := by
  unfold Reader.afterVar
  by_cases h : n ≤ 0
  · simp [h]
  · simp only [h, if_false]
    rw [advance_eq r _ (hn (by omega))]; rfl

theorem uvarint_rd_eq (r : Reader) : r.uvarint = some (
    if (decU 32 5 r.src).2 ≤ 0 then (0#32, Reader.invalid)
    else (BitVec.ofNat 32 (decU 32 5 r.src).1, adv r (decU 32 5 r.src).2.toNat)) := by
  rw [Reader.uvarint, uvarint_exact, Option.bind_some,
    afterVar_eq r _ _ (fun h => (decU_bounds 32 5 r.src h).1.1)]

theorem varint_rd_eq (r : Reader) : r.varint = some (
    if (decU 32 5 r.src).2 ≤ 0 then (0#32, Reader.invalid)
    else (unzigzag32 (BitVec.ofNat 32 (decU 32 5 r.src).1), adv r (decU 32 5 r.src).2.toNat)) := by
  rw [Reader.varint, Model.C17.varint, uvarint_exact, Option.map_some, Option.bind_some,
    afterVar_eq r _ _ (fun h => (decU_bounds 32 5 r.src h).1.1)]

theorem varlong_rd_eq (r : Reader) : r.varlong = some (
    if (decU 64 10 r.src).2 ≤ 0 then (0#64, Reader.invalid)
    else (unzigzag64 (BitVec.ofNat 64 (decU 64 10 r.src).1), adv r (decU 64 10 r.src).2.toNat)) := by
  rw [Reader.varlong, Model.C17.varlong, uvarlong_exact, Option.map_some, Option.bind_some,
    afterVar_eq r _ _ (fun h => (decU_bounds 64 10 r.src h).1.1)]

/-! ## span -/
theorem span_eq (r : Reader) (l : Int) : r.span l = some (
    if (r.src.length : Int) < l ∨ l < 0 then (none, Reader.invalid)
    else (if r.srcNil then none else some (r.src.take l.toNat), adv r l.toNat)) := by
  unfold Reader.span
  by_cases h : (r.src.length : Int) < l ∨ l < 0
  · simp [h]
  · simp only [h, if_false]
    have hl : l.toNat ≤ r.src.length := by omega
    rw [advance_eq r _ hl]
    simp [upto?, hl]

end Proof.C17
