import FranzVerif.Proof.C16d
/-! Decoded values are in normal form: the mutual induction. -/
namespace Proof.C16
open Model.C15

theorem decList_len (c : Cfg) (flex : Bool) (t : Ty) : ∀ (n : Nat) (src : Bytes) (vs : Vals) (r : Bytes),
    decList c flex t n src = .ok vs r → vs.length = n := by
  intro n
  induction n with
  | zero => intro src vs r h; rw [decList] at h; cases h; rfl
  | succ n ih =>
    intro src vs r h
    rw [decList] at h
    obtain ⟨v, r0, _, h2⟩ := andThen_ok_inv h
    obtain ⟨vs', h3, rfl⟩ := map_ok_inv h2
    simp [Vals.length, ih r0 vs' r h3]

theorem canon_emptyArr (ver : Int) (k : AKind) (t : Ty) (l : Int) (hl : ¬ l > 0) :
    canon ver (.arr k t) (emptyArr ver k l) = emptyArr ver k l := by
  cases k with
  | normal => simp [emptyArr, canon, AKind.nullableAt]
  | varint => simp [emptyArr, canon, AKind.nullableAt]
  | nullable n =>
    by_cases hc : ver < n ∨ ver < 0 ∨ l = 0
    · simp [emptyArr, hc, canon, Vals.length]
    · have h1 : ver ≥ n := by omega
      simp [emptyArr, hc, canon, AKind.nullableAt, h1]

/-- what an array decode can produce -/
theorem dec_arr_shape (c : Cfg) (flex : Bool) (k : AKind) (t : Ty) (src : Bytes) (v : Val) (r : Bytes)
    (h : dec c flex (.arr k t) src = .ok v r) :
    (∃ l : Int, ¬ l > 0 ∧ v = emptyArr c.ver k l) ∨
    (∃ vs r0, vs.length > 0 ∧ v = .list vs ∧ decList c flex t vs.length r0 = .ok vs r) := by
  rw [dec] at h
  obtain ⟨l, r0, _, h2⟩ := andThen_ok_inv h
  split at h2
  · rename_i hpos
    obtain ⟨n, r1, h3, h4⟩ := andThen_ok_inv h2
    obtain ⟨vs, h5, rfl⟩ := map_ok_inv h4
    have hn : n = l.toNat := by
      simp only [goMake] at h3
      split at h3
      · cases h3
      · split at h3
        · cases h3
        · cases h3; rfl
    have hlen := decList_len c flex t n r0 vs r h5
    right
    refine ⟨vs, r0, by omega, rfl, ?_⟩
    rw [hlen]; exact h5
  · rename_i hnp
    cases h2
    left; exact ⟨l, hnp, rfl⟩

def CanonFix (t : Ty) : Prop :=
  ∀ (c : Cfg) (flex : Bool) (src : Bytes) (v : Val) (r : Bytes),
    tagsOK t = true → dec c flex t src = .ok v r → canon c.ver t v = v

def CanonFixF (fs : Fields) : Prop :=
  ∀ (c : Cfg) (flex : Bool), tagsOKF fs = true →
    (∀ (src : Bytes) (vals : Vals) (r : Bytes), decFields c flex fs src = .ok vals r → canonFields c.ver false fs vals = vals) ∧
    (∀ (raw : List (Nat × Bytes)) (vals vals' : Vals) (x : Bytes), canonFields c.ver false fs vals = vals →
      applyTags c flex fs raw vals = .ok vals' x → canonFields c.ver true fs vals' = vals')

theorem decList_canon (c : Cfg) (flex : Bool) (t : Ty) (ht : CanonFix t) (hok : tagsOK t = true) :
    ∀ (n : Nat) (src : Bytes) (vs : Vals) (r : Bytes), decList c flex t n src = .ok vs r → canonList c.ver t vs = vs := by
  intro n
  induction n with
  | zero => intro src vs r h; rw [decList] at h; cases h; simp [canonList]
  | succ n ih =>
    intro src vs r h
    rw [decList] at h
    obtain ⟨v, r0, h1, h2⟩ := andThen_ok_inv h
    obtain ⟨vs', h3, rfl⟩ := map_ok_inv h2
    simp [canonList, ht c flex src v r0 hok h1, ih r0 vs' r h3]

/-- a tagged field that was decoded and compares as "default" IS the default -/
theorem tagIsDefault_decoded (c : Cfg) (flex : Bool) (t : Ty) (d : Dflt) (p : Bytes) (v : Val) (r : Bytes)
    (hna : isNullableArr t = false) (h : dec c flex t p = .ok v r) (hd : tagIsDefault c.ver t d v = true) :
    v = dfltVal t d := by
  cases t with
  | prim pr => exact Val.beq_eq _ _ (by simpa [tagIsDefault] using hd)
  | str k => exact Val.beq_eq _ _ (by simpa [tagIsDefault] using hd)
  | struct n ff fs => exact Val.beq_eq _ _ (by simpa [tagIsDefault] using hd)
  | arr k t' =>
    cases k with
    | nullable n => simp [isNullableArr] at hna
    | normal =>
      rcases dec_arr_shape c flex _ t' p v r h with ⟨l, _, rfl⟩ | ⟨vs, r0, hpos, rfl, _⟩
      · simp [emptyArr, dfltVal]
      · simp [tagIsDefault] at hd; omega
    | varint =>
      rcases dec_arr_shape c flex _ t' p v r h with ⟨l, _, rfl⟩ | ⟨vs, r0, hpos, rfl, _⟩
      · simp [emptyArr, dfltVal]
      · simp [tagIsDefault] at hd; omega

theorem tagIsDefault_dflt (ver : Int) (t : Ty) (d : Dflt) : tagIsDefault ver t d (dfltVal t d) = true := by
  cases t with
  | prim pr => simp [tagIsDefault, Val.beq_refl]
  | str k => simp [tagIsDefault, Val.beq_refl]
  | struct n ff fs => simp [tagIsDefault, Val.beq_refl]
  | arr k t' => cases k <;> simp [tagIsDefault, dfltVal]

/-- the value a tagged field ends with is its previous value or the decode of one of the payloads -/
theorem decEach_result (c : Cfg) (flex : Bool) (t : Ty) : ∀ (ps : List Bytes) (v v' : Val) (x : Bytes),
    decEach c flex t ps v = .ok v' x → v' = v ∨ ∃ p r, dec c flex t p = .ok v' r := by
  intro ps
  induction ps with
  | nil => intro v v' x h; rw [decEach] at h; cases h; left; rfl
  | cons p ps ih =>
    intro v v' x h
    rw [decEach] at h
    cases hd : dec c flex t p with
    | ok v1 r1 =>
      rw [hd] at h
      rcases ih v1 v' x h with rfl | hh
      · right; exact ⟨p, r1, hd⟩
      · right; exact hh
    | err s => rw [hd] at h; cases h
    | panic m => rw [hd] at h; cases h

mutual
theorem canonFix : ∀ t : Ty, CanonFix t
  | .prim p => by intro c flex src v r _ _; simp [canon]
  | .str k => by
    intro c flex src v r _ h
    rw [dec] at h
    simpa [canon] using decStr_canon c.ver flex k src v r h
  | .arr k t => by
    intro c flex src v r hok h
    simp only [tagsOK] at hok
    rcases dec_arr_shape c flex k t src v r h with ⟨l, hl, rfl⟩ | ⟨vs, r0, hpos, rfl, hdl⟩
    · exact canon_emptyArr c.ver k t l hl
    · have hne : (vs.length == 0) = false := by simp; omega
      simp [canon, hne, decList_canon c flex t (canonFix t) hok vs.length r0 vs r hdl]
  | .struct nullable ff fs => by
    intro c flex src v r hok h
    simp only [tagsOK] at hok
    obtain ⟨F1, F2⟩ := canonFixF fs c (flexAt ff c.ver) hok
    rw [dec] at h
    obtain ⟨isP, r0, _, h2⟩ := andThen_ok_inv h
    split at h2
    · cases h2; simp [canon]
    · obtain ⟨vals, r1, h3, h4⟩ := andThen_ok_inv h2
      have hb := F1 r0 vals r1 h3
      split at h4
      · rename_i hfl
        obtain ⟨num, r2, _, h5⟩ := andThen_ok_inv h4
        obtain ⟨raw, r3, _, h6⟩ := andThen_ok_inv h5
        obtain ⟨vals', x, h7, h8⟩ := andThen_ok_inv h6
        cases h8
        simp [canon, hfl, F2 raw vals vals' x hb h7]
      · rename_i hfl
        cases h4
        have hfl' : flexAt ff c.ver = false := by simpa using hfl
        simp [canon, hfl', hb]
theorem canonFixF : ∀ fs : Fields, CanonFixF fs
  | .nil => by
    intro c flex _
    constructor
    · intro src vals r h; rw [decFields] at h; cases h; simp [canonFields]
    · intro raw vals vals' x _ h
      cases vals <;> simp [applyTags] at h <;> (obtain ⟨rfl, _⟩ := h; simp [canonFields])
  | .cons name minV maxV tag d t rest => by
    intro c flex hok
    simp only [tagsOKF, Bool.and_eq_true, Bool.or_eq_true] at hok
    obtain ⟨⟨hna, hokt⟩, hokr⟩ := hok
    have ht := canonFix t
    obtain ⟨R1, R2⟩ := canonFixF rest c flex hokr
    constructor
    · intro src vals r h
      rw [decFields] at h
      split at h
      · rename_i hc
        obtain ⟨vs, h2, rfl⟩ := map_ok_inv h
        have := R1 src vs r h2
        cases tag with
        | some k => simp [canonFields, this]
        | none =>
          have hp : present minV maxV c.ver = false := by simpa using hc
          simp [canonFields, hp, this]
      · rename_i hc
        obtain ⟨v, r0, h1, h2⟩ := andThen_ok_inv h
        obtain ⟨vs, h3, rfl⟩ := map_ok_inv h2
        have := R1 r0 vs r h3
        have hcc : tag = none ∧ present minV maxV c.ver = true := by
          cases tag <;> simp at hc ⊢
          exact hc
        simp [canonFields, hcc.1, hcc.2, this, ht c flex src v r0 hokt h1]
    · intro raw vals vals' x hb h
      cases vals with
      | nil =>
        simp [applyTags] at h
        obtain ⟨rfl, _⟩ := h
        simp [canonFields]
      | cons v r =>
        rw [applyTags] at h
        cases hr : applyTags c flex rest raw r with
        | ok vs y =>
          rw [hr] at h
          simp only [canonFields, Vals.cons.injEq] at hb
          obtain ⟨hbv, hbr⟩ := hb
          have htail := R2 raw r vs y hbr hr
          cases tag with
          | none =>
            simp only at h
            cases h
            simp only [canonFields, Vals.cons.injEq]
            exact ⟨by simpa using hbv, htail⟩
          | some k =>
            simp only at h
            have hvd : v = dfltVal t d := by simpa using hbv.symm
            cases he : decEach c flex t ((raw.filter fun e => e.1 == k).map Prod.snd) v with
            | ok v' z =>
              rw [he] at h
              cases h
              have hna' : isNullableArr t = false := by simpa using hna
              simp only [canonFields, Vals.cons.injEq, Bool.true_and]
              refine ⟨?_, htail⟩
              rcases decEach_result c flex t _ v v' z he with rfl | ⟨p, r', hp⟩
              · subst hvd
                have hdd := tagIsDefault_dflt c.ver t d
                simp [hdd]
              · by_cases hdef : tagIsDefault c.ver t d v' = true
                · have e := tagIsDefault_decoded c flex t d p v' r' hna' hp hdef
                  subst e
                  simp [hdef]
                · simp [hdef, ht c flex p v' r' hokt hp]
            | err s => rw [he] at h; cases h
            | panic m => rw [he] at h; cases h
        | err s => rw [hr] at h; cases h
        | panic m => rw [hr] at h; cases h
end

end Proof.C16
