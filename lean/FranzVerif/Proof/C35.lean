import FranzVerif.Model.C35
import FranzVerif.Spec.C35
/-! C35 — helper lemmas: association lists, the instruction interpreter, row laws, totals. -/
namespace Proof.C35
open Model.C35 Spec.C35

/-! ### association lists -/

theorem alook_ains {κ α : Type} [DecidableEq κ] (k k' : κ) (v : α) (m : List (κ × α)) :
    alook k' (ains k v m) = if k' = k then some v else alook k' m := by
  induction m with
  | nil => simp [ains, alook, eq_comm]
  | cons x m ih =>
    obtain ⟨k0, v0⟩ := x
    by_cases h : k0 = k
    · subst h
      by_cases h2 : k0 = k'
      · simp [ains, alook, h2]
      · have h3 : ¬ k' = k0 := fun e => h2 e.symm
        simp [ains, alook, h2, h3]
    · by_cases h2 : k0 = k'
      · subst h2; simp [ains, alook, h]
      · simp [ains, alook, h, h2, ih]

theorem mem_ains {κ α : Type} [DecidableEq κ] (k : κ) (v : α) (m : List (κ × α)) (x : κ × α)
    (h : x ∈ ains k v m) : x = (k, v) ∨ x ∈ m := by
  induction m with
  | nil => simp [ains] at h; exact Or.inl h
  | cons y m ih =>
    obtain ⟨k0, v0⟩ := y
    by_cases hk : k0 = k
    · simp [ains, hk] at h; rcases h with h | h
      · exact Or.inl h
      · exact Or.inr (by simp [h])
    · simp [ains, hk] at h; rcases h with h | h
      · exact Or.inr (by simp [h])
      · rcases ih h with h | h
        · exact Or.inl h
        · exact Or.inr (by simp [h])

theorem mem_keys_ains {κ α : Type} [DecidableEq κ] (k k' : κ) (v : α) (m : List (κ × α)) :
    k' ∈ keys (ains k v m) ↔ k' = k ∨ k' ∈ keys m := by
  induction m with
  | nil => simp [ains, keys]
  | cons y m ih =>
    obtain ⟨k0, v0⟩ := y
    by_cases hk : k0 = k
    · subst hk; simp [ains, keys]
    · simp only [keys] at ih
      simp [ains, keys, hk, ih]
      constructor
      · rintro (h | h | h) <;> simp [h]
      · rintro (h | h | h) <;> simp [h]

theorem nodup_keys_ains {κ α : Type} [DecidableEq κ] (k : κ) (v : α) (m : List (κ × α))
    (h : (keys m).Nodup) : (keys (ains k v m)).Nodup := by
  induction m with
  | nil => simp [ains, keys]
  | cons y m ih =>
    obtain ⟨k0, v0⟩ := y
    have h' : k0 ∉ keys m ∧ (keys m).Nodup := by simpa [keys] using h
    by_cases hk : k0 = k
    · subst hk; simpa [ains, keys] using h
    · have : k0 ∉ keys (ains k v m) := by
        rw [mem_keys_ains]; simp [hk, h'.1]
      have ih' := ih h'.2
      simp only [keys] at this ih'
      simp [ains, keys, hk, this, ih']

theorem mem_keys_of_alook {κ α : Type} [DecidableEq κ] (k : κ) (v : α) (m : List (κ × α))
    (h : alook k m = some v) : k ∈ keys m := by
  induction m with
  | nil => simp [alook] at h
  | cons y m ih =>
    obtain ⟨k0, v0⟩ := y
    by_cases hk : k0 = k
    · simp [keys, hk]
    · simp [alook, hk] at h; have := ih h; simp only [keys] at this; simp [keys, this]

theorem nodupB_iff {α : Type} [DecidableEq α] (l : List α) : nodupB l = true ↔ l.Nodup := by
  induction l with
  | nil => simp [nodupB]
  | cons x xs ih => simp [nodupB, ih]

/-! ### the result map and the interpreter -/

theorem prime_rows (l : LagMap) (t : Nat) : (prime l t).rows = l.rows := by
  unfold prime; split <;> rfl

theorem mem_prime_topics (l : LagMap) (t t' : Nat) : t' ∈ (prime l t).topics ↔ t' = t ∨ t' ∈ l.topics := by
  unfold prime; split
  · rename_i h; constructor
    · intro h'; exact Or.inr h'
    · rintro (h' | h'); subst h'; exact h; exact h'
  · simp [or_comm]

theorem prime_topics_nodup (l : LagMap) (t : Nat) (h : l.topics.Nodup) : (prime l t).topics.Nodup := by
  unfold prime; split
  · exact h
  · rename_i hn; simp [List.nodup_append, h]; intro a ha hat; subst hat; exact hn ha

/-- Representation invariant of the result: rows carry their key, keys are distinct (it is a map),
topic keys are distinct and every row's topic is a topic key. -/
structure Good (l : LagMap) : Prop where
  keyok : ∀ kr ∈ l.rows, kr.2.topic = kr.1.1 ∧ kr.2.part = kr.1.2
  nodup : (keys l.rows).Nodup
  tnodup : l.topics.Nodup
  tcover : ∀ kr ∈ l.rows, kr.1.1 ∈ l.topics

def Keyed : Ins → Prop
  | .prime _ => True
  | .put t p r => r.topic = t ∧ r.part = p
  | .putNew t p r => r.topic = t ∧ r.part = p

theorem good_empty : Good {} := ⟨by simp, by simp [keys], by simp, by simp⟩

theorem good_prime (l : LagMap) (t : Nat) (h : Good l) : Good (prime l t) := by
  refine ⟨?_, ?_, prime_topics_nodup l t h.tnodup, ?_⟩
  · rw [prime_rows]; exact h.keyok
  · rw [prime_rows]; exact h.nodup
  · rw [prime_rows]; intro kr hkr; rw [mem_prime_topics]; exact Or.inr (h.tcover kr hkr)

theorem good_put (l : LagMap) (t : Nat) (p : Int) (r : Row) (h : Good l) (hk : r.topic = t ∧ r.part = p) :
    Good (put l t p r) := by
  refine ⟨?_, nodup_keys_ains _ _ _ h.nodup, prime_topics_nodup l t h.tnodup, ?_⟩
  · intro kr hkr
    rcases mem_ains _ _ _ _ hkr with e | hm
    · subst e; exact hk
    · exact h.keyok kr hm
  · intro kr hkr
    show kr.1.1 ∈ (prime l t).topics
    rw [mem_prime_topics]
    rcases mem_ains _ _ _ _ hkr with e | hm
    · subst e; exact Or.inl rfl
    · exact Or.inr (h.tcover kr hm)

theorem good_step (l : LagMap) (i : Ins) (h : Good l) (hk : Keyed i) : Good (step l i) := by
  cases i with
  | prime t => exact good_prime l t h
  | put t p r => exact good_put l t p r h hk
  | putNew t p r =>
    simp only [step]; split
    · exact h
    · exact good_put l t p r h hk

theorem exec_inv (I : LagMap → Prop) (ins : List Ins) (l : LagMap) (h0 : I l)
    (hs : ∀ l i, I l → i ∈ ins → I (step l i)) : I (exec l ins) := by
  induction ins generalizing l with
  | nil => exact h0
  | cons i is ih =>
    simp only [exec]
    exact ih _ (hs l i h0 (by simp)) (fun l' i' hl hi => hs l' i' hl (by simp [hi]))

theorem has_put_self (l : LagMap) (t : Nat) (p : Int) (r : Row) : has (put l t p r) t p = true := by
  simp [has, put, alook_ains]

theorem has_put_mono (l : LagMap) (t t' : Nat) (p p' : Int) (r : Row) (h : has l t' p' = true) :
    has (put l t p r) t' p' = true := by
  simp only [has, put, alook_ains] at *
  split <;> simp [h]

theorem has_step_mono (l : LagMap) (i : Ins) (t : Nat) (p : Int) (h : has l t p = true) : has (step l i) t p = true := by
  cases i with
  | prime t' => simpa [step, has, prime_rows] using h
  | put t' p' r => exact has_put_mono l t' t p' p r h
  | putNew t' p' r =>
    simp only [step]; split
    · exact h
    · exact has_put_mono l t' t p' p r h

theorem has_exec_mono (ins : List Ins) (l : LagMap) (t : Nat) (p : Int) (h : has l t p = true) :
    has (exec l ins) t p = true :=
  exec_inv (fun l => has l t p = true) ins l h (fun l' i hl _ => has_step_mono l' i t p hl)

/-- A write instruction for `(t,p)` anywhere in the list leaves `(t,p)` present. -/
theorem has_exec_of_mem (ins : List Ins) (l : LagMap) (t : Nat) (p : Int) (r : Row)
    (h : Ins.put t p r ∈ ins ∨ Ins.putNew t p r ∈ ins) : has (exec l ins) t p = true := by
  induction ins generalizing l with
  | nil => simp at h
  | cons i is ih =>
    simp only [exec]
    by_cases hi : i = .put t p r ∨ i = .putNew t p r
    · apply has_exec_mono
      rcases hi with e | e
      · subst e; exact has_put_self l t p r
      · subst e; simp only [step]; split
        · assumption
        · exact has_put_self l t p r
    · apply ih
      rcases h with h | h
      · simp at h; rcases h with h | h
        · exact absurd (Or.inl h.symm) hi
        · exact Or.inl h
      · simp at h; rcases h with h | h
        · exact absurd (Or.inr h.symm) hi
        · exact Or.inr h

/-- Every row of the map satisfies `Q`. -/
def AllRows (Q : Row → Prop) (l : LagMap) : Prop := ∀ kr ∈ l.rows, Q kr.2

theorem allRows_put (Q : Row → Prop) (l : LagMap) (t : Nat) (p : Int) (r : Row) (h : AllRows Q l) (hr : Q r) :
    AllRows Q (put l t p r) := by
  intro kr hkr
  rcases mem_ains _ _ _ _ hkr with e | hm
  · subst e; exact hr
  · exact h kr hm

theorem allRows_prime (Q : Row → Prop) (l : LagMap) (t : Nat) (h : AllRows Q l) : AllRows Q (prime l t) := by
  intro kr hkr; rw [prime_rows] at hkr; exact h kr hkr

/-! ### the rows the passes write obey the lag sentences -/

theorem mkRow_keyed (inp : Input) (mem : Int) (t : Nat) (p : Int) (pc : Commit) :
    (mkRow inp mem t p pc).topic = t ∧ (mkRow inp mem t p pc).part = p := ⟨rfl, rfl⟩

theorem rowListed_keyed (inp : Input) (t : Nat) (p : Int) (pe : Listed) :
    (rowListed inp t p pe).topic = t ∧ (rowListed inp t p pe).part = p := ⟨rfl, rfl⟩

/-- Passes one and two: whatever commit the code has in hand (the entry of the commit map, or the
`At: -1` default when there is none), the row obeys sentences two and three. -/
theorem rowLaw_mkRow (inp : Input) (mem : Int) (t : Nat) (p : Int) (pc : Commit)
    (h : get2 inp.commit t p = some pc ∨ (get2 inp.commit t p = none ∧ pc = noCommit1)) :
    rowLaw inp (mkRow inp mem t p pc) = true := by
  unfold rowLaw bad expectLag mkRow
  simp only
  rcases h with hc | ⟨hc, hpc⟩
  · rw [hc]
    cases he : get2 inp.end_ t p with
    | none => simp [perrOf, calcLag, errMissing]
    | some e =>
      cases hs : get2 inp.start t p with
      | none =>
        by_cases h1 : e.err = 0 <;> by_cases h2 : pc.err = 0 <;> by_cases h3 : pc.at_ ≥ 0 <;>
          simp [perrOf, calcLag, missing, errMissing, h1, h2, h3] <;> omega
      | some st =>
        by_cases h1 : e.err = 0 <;> by_cases h2 : pc.err = 0 <;> by_cases h3 : pc.at_ ≥ 0 <;>
          by_cases h4 : st.err = 0 <;>
          simp [perrOf, calcLag, missing, errMissing, h1, h2, h3, h4] <;> omega
  · rw [hc]; subst hpc
    cases he : get2 inp.end_ t p with
    | none => simp [perrOf, calcLag, errMissing]
    | some e =>
      cases hs : get2 inp.start t p with
      | none =>
        by_cases h1 : e.err = 0 <;>
          simp [perrOf, calcLag, missing, errMissing, noCommit1, h1] <;> omega
      | some st =>
        by_cases h1 : e.err = 0 <;> by_cases h4 : st.err = 0 <;>
          simp [perrOf, calcLag, missing, errMissing, noCommit1, h1, h4] <;> omega

/-- Pass three: the row obeys the sentences provided the partition is not committed (the pass never
looks at commits), an error-free end offset is non-negative (the pass does not floor the bare end
offset), and it is not the case that the end offset is errored while a start offset is listed
without error. -/
theorem rowLaw_rowListed (inp : Input) (t : Nat) (p : Int) (pe : Listed)
    (he : get2 inp.end_ t p = some pe) (hc : get2 inp.commit t p = none)
    (hnn : pe.err = 0 → pe.off ≥ 0)
    (hx : ¬ (pe.err ≠ 0 ∧ ∃ s, get2 inp.start t p = some s ∧ s.err = 0)) :
    rowLaw inp (rowListed inp t p pe) = true := by
  unfold rowLaw bad expectLag rowListed
  simp only
  rw [hc, he]
  cases hs : get2 inp.start t p with
  | none =>
    by_cases h1 : pe.err = 0
    · have := hnn h1; simp [h1]; omega
    · simp [h1]
  | some st =>
    by_cases h1 : pe.err = 0
    · have := hnn h1
      by_cases h4 : st.err = 0 <;> simp [h1, h4] <;> omega
    · by_cases h4 : st.err = 0
      · exact absurd ⟨h1, st, hs, h4⟩ hx
      · simp [h1, h4]

/-! ### what the three passes emit -/

/-- A write whose row carries its key and obeys the lag sentences. -/
def Lawful (inp : Input) : Ins → Prop
  | .prime _ => True
  | .put t p r => (r.topic = t ∧ r.part = p) ∧ rowLaw inp r = true
  | .putNew t p r => (r.topic = t ∧ r.part = p) ∧ rowLaw inp r = true

theorem rowAssigned_law (inp : Input) (j : Nat) (t : Nat) (p : Int) : rowLaw inp (rowAssigned inp j t p) = true := by
  unfold rowAssigned
  apply rowLaw_mkRow
  cases h : get2 inp.commit t p with
  | none => exact Or.inr ⟨rfl, rfl⟩
  | some pc => exact Or.inl rfl

theorem insMember1_lawful (inp : Input) (j : Nat) (m : Member) (i : Ins) (h : i ∈ insMember1 inp j m) : Lawful inp i := by
  unfold insMember1 at h
  split at h
  · simp only [List.mem_append, List.mem_flatMap] at h
    rcases h with ⟨tp, _, h⟩ | h
    · simp only [insTopic1, List.mem_cons, List.mem_map] at h
      rcases h with h | ⟨p, _, h⟩
      · subst h; trivial
      · subst h; exact ⟨⟨rfl, rfl⟩, rowAssigned_law inp j tp.1 p⟩
    · split at h
      · simp only [List.mem_map] at h; obtain ⟨t, _, h⟩ := h; subst h; trivial
      · simp at h
  · simp at h

theorem ins1From_lawful (inp : Input) (ms : List Member) (j : Nat) (i : Ins) (h : i ∈ ins1From inp j ms) : Lawful inp i := by
  induction ms generalizing j with
  | nil => simp [ins1From] at h
  | cons m ms ih =>
    simp only [ins1From, List.mem_append] at h
    rcases h with h | h
    · exact insMember1_lawful inp j m i h
    · exact ih (j + 1) h

theorem ins2_lawful (inp : Input) (i : Ins) (h : i ∈ ins2 inp) : Lawful inp i := by
  simp only [ins2, List.mem_flatMap] at h
  obtain ⟨t, _, h⟩ := h
  simp only [insTopic2, List.mem_cons, List.mem_flatMap] at h
  rcases h with h | ⟨p, _, h⟩
  · subst h; trivial
  · split at h
    · rename_i pc hpc
      simp only [List.mem_singleton] at h; subst h
      exact ⟨⟨rfl, rfl⟩, rowLaw_mkRow inp (-1) t p pc (Or.inl hpc)⟩
    · simp at h

theorem ins3_shape (inp : Input) (ts : List Nat) (i : Ins) (h : i ∈ ins3 inp ts) :
    ∃ t p pe, i = .putNew t p (rowListed inp t p pe) ∧ get2 inp.end_ t p = some pe := by
  simp only [ins3, List.mem_flatMap] at h
  obtain ⟨t, _, h⟩ := h
  simp only [insTopic3, List.mem_flatMap] at h
  obtain ⟨p, _, h⟩ := h
  split at h
  · rename_i pe hpe
    simp only [List.mem_singleton] at h
    exact ⟨t, p, pe, h, hpe⟩
  · simp at h

theorem lawful_keyed (inp : Input) (i : Ins) (h : Lawful inp i) : Keyed i := by
  cases i with
  | prime t => trivial
  | put t p r => exact h.1
  | putNew t p r => exact h.1

/-- An assigned partition has a write in pass one. -/
theorem ins1From_has_put (inp : Input) (ms : List Member) (j : Nat) (m : Member) (hm : m ∈ ms)
    (hac : m.assignedConsumer = true) (tp : Nat × List Int) (htp : tp ∈ m.assigned) (p : Int) (hp : p ∈ tp.2) :
    ∃ r, Ins.put tp.1 p r ∈ ins1From inp j ms := by
  induction ms generalizing j with
  | nil => simp at hm
  | cons m' ms ih =>
    simp only [ins1From, List.mem_append]
    rcases List.mem_cons.1 hm with e | hm'
    · subst e
      refine ⟨rowAssigned inp j tp.1 p, Or.inl ?_⟩
      simp only [insMember1, hac, if_true, List.mem_append, List.mem_flatMap]
      refine Or.inl ⟨tp, htp, ?_⟩
      simp only [insTopic1, List.mem_cons, List.mem_map]
      exact Or.inr ⟨p, hp, rfl⟩
    · obtain ⟨r, hr⟩ := ih (j + 1) hm'
      exact ⟨r, Or.inr hr⟩

theorem ins1_has_put (inp : Input) (t : Nat) (p : Int) (h : assignedIn inp t p = true) :
    ∃ r, Ins.put t p r ∈ ins1 inp := by
  simp only [assignedIn, List.any_eq_true, Bool.and_eq_true, beq_iff_eq, List.contains_eq_mem,
    decide_eq_true_eq] at h
  obtain ⟨m, hm, hac, tp, htp, ht, hp⟩ := h
  subst ht
  exact ins1From_has_put inp inp.members 0 m hm hac tp htp p hp

/-- A committed partition has a guarded write in pass two. -/
theorem ins2_has_putNew (inp : Input) (t : Nat) (p : Int) (h : committedIn inp t p = true) :
    ∃ r, Ins.putNew t p r ∈ ins2 inp := by
  simp only [committedIn, Option.isSome_iff_exists] at h
  obtain ⟨pc, hpc⟩ := h
  have hpc' := hpc
  unfold get2 at hpc
  split at hpc
  · rename_i ps hps
    refine ⟨mkRow inp (-1) t p pc, ?_⟩
    simp only [ins2, List.mem_flatMap]
    refine ⟨t, mem_keys_of_alook t ps _ hps, ?_⟩
    simp only [insTopic2, List.mem_cons, List.mem_flatMap]
    refine Or.inr ⟨p, ?_, ?_⟩
    · simp only [partsOf, hps]; exact mem_keys_of_alook p pc ps hpc
    · rw [hpc']; simp
  · simp at hpc

/-! ### invariants of the whole computation -/

theorem mem_of_alook {κ α : Type} [DecidableEq κ] (k : κ) (v : α) (m : List (κ × α))
    (h : alook k m = some v) : (k, v) ∈ m := by
  induction m with
  | nil => simp [alook] at h
  | cons y m ih =>
    obtain ⟨k0, v0⟩ := y
    by_cases hk : k0 = k
    · simp [alook, hk] at h; simp [hk, h]
    · simp [alook, hk] at h; simp [ih h]

theorem allRows_mono (Q Q' : Row → Prop) (l : LagMap) (h : AllRows Q l) (hq : ∀ r, Q r → Q' r) : AllRows Q' l :=
  fun kr hkr => hq _ (h kr hkr)

theorem step_lawful (inp : Input) (l : LagMap) (i : Ins)
    (h : Good l ∧ AllRows (fun r => rowLaw inp r = true) l) (hi : Lawful inp i) :
    Good (step l i) ∧ AllRows (fun r => rowLaw inp r = true) (step l i) := by
  refine ⟨good_step l i h.1 (lawful_keyed inp i hi), ?_⟩
  cases i with
  | prime t => exact allRows_prime _ l t h.2
  | put t p r => exact allRows_put _ l t p r h.2 hi.2
  | putNew t p r =>
    simp only [step]; split
    · exact h.2
    · exact allRows_put _ l t p r h.2 hi.2

/-- the map after passes one and two -/
def l2 (inp : Input) : LagMap := exec (exec {} (ins1 inp)) (ins2 inp)

theorem run_eq (inp : Input) : run inp = exec (l2 inp) (ins3 inp (l2 inp).topics) := rfl

theorem l2_lawful (inp : Input) : Good (l2 inp) ∧ AllRows (fun r => rowLaw inp r = true) (l2 inp) := by
  unfold l2
  apply exec_inv (fun l => Good l ∧ AllRows (fun r => rowLaw inp r = true) l)
  · apply exec_inv (fun l => Good l ∧ AllRows (fun r => rowLaw inp r = true) l)
    · exact ⟨good_empty, by intro kr hkr; simp at hkr⟩
    · intro l i hl hi; exact step_lawful inp l i hl (ins1From_lawful inp inp.members 0 i hi)
  · intro l i hl hi; exact step_lawful inp l i hl (ins2_lawful inp i hi)

/-- Every assigned or committed partition is present. -/
def Cov (inp : Input) (l : LagMap) : Prop := ∀ t p, inScope inp t p = true → has l t p = true

theorem l2_cov (inp : Input) : Cov inp (l2 inp) := by
  intro t p h
  simp only [inScope, Bool.or_eq_true] at h
  unfold l2
  rcases h with h | h
  · obtain ⟨r, hr⟩ := ins1_has_put inp t p h
    exact has_exec_mono _ _ t p (has_exec_of_mem _ _ t p r (Or.inl hr))
  · obtain ⟨r, hr⟩ := ins2_has_putNew inp t p h
    exact has_exec_of_mem _ _ t p r (Or.inr hr)

/-- Pass three keeps every invariant, for any row predicate that its rows satisfy when the
partition is out of scope (in-scope partitions are present already, so their writes are skipped). -/
theorem pass3_inv (inp : Input) (Q : Row → Prop)
    (hQ : ∀ t p pe, get2 inp.end_ t p = some pe → inScope inp t p = false → Q (rowListed inp t p pe))
    (ts : List Nat) (l : LagMap) (h : Good l ∧ Cov inp l ∧ AllRows Q l) :
    Good (exec l (ins3 inp ts)) ∧ Cov inp (exec l (ins3 inp ts)) ∧ AllRows Q (exec l (ins3 inp ts)) := by
  apply exec_inv (fun l => Good l ∧ Cov inp l ∧ AllRows Q l) _ _ h
  intro l' i hl hi
  obtain ⟨t, p, pe, hi', hpe⟩ := ins3_shape inp ts i hi
  subst hi'
  simp only [step]
  split
  · exact hl
  · rename_i hhas
    refine ⟨good_put l' t p _ hl.1 (rowListed_keyed inp t p pe), ?_, ?_⟩
    · intro t' p' hs; exact has_put_mono l' t t' p p' _ (hl.2.1 t' p' hs)
    · apply allRows_put _ l' t p _ hl.2.2
      apply hQ t p pe hpe
      cases hs : inScope inp t p with
      | false => rfl
      | true => exact absurd (hl.2.1 t p hs) hhas

theorem run_good_cov (inp : Input) : Good (run inp) ∧ Cov inp (run inp) := by
  have h := pass3_inv inp (fun _ => True) (fun _ _ _ _ _ => trivial) (l2 inp).topics (l2 inp)
    ⟨(l2_lawful inp).1, l2_cov inp, fun _ _ => trivial⟩
  rw [run_eq]; exact ⟨h.1, h.2.1⟩

/-- Sentences two and three hold of every reported partition that is assigned or committed. -/
theorem run_law_scope (inp : Input) :
    AllRows (fun r => inScope inp r.topic r.part = true → rowLaw inp r = true) (run inp) := by
  rw [run_eq]
  refine (pass3_inv inp _ ?_ (l2 inp).topics (l2 inp) ⟨(l2_lawful inp).1, l2_cov inp, ?_⟩).2.2
  · intro t p pe _ hs hs'
    rw [(rowListed_keyed inp t p pe).1, (rowListed_keyed inp t p pe).2, hs] at hs'
    exact absurd hs' (by simp)
  · exact allRows_mono _ _ _ (l2_lawful inp).2 (fun r hr _ => hr)

theorem endsNonNeg_get (inp : Input) (h : endsNonNeg inp = true) (t : Nat) (p : Int) (pe : Listed)
    (hpe : get2 inp.end_ t p = some pe) (he : pe.err = 0) : pe.off ≥ 0 := by
  unfold get2 at hpe
  split at hpe
  · rename_i ps hps
    have h1 := mem_of_alook t ps _ hps
    have h2 := mem_of_alook p pe _ hpe
    simp only [endsNonNeg, List.all_eq_true, Bool.or_eq_true, bne_iff_ne, decide_eq_true_eq] at h
    rcases h (t, ps) h1 (p, pe) h2 with h | h
    · exact absurd he h
    · exact h
  · simp at hpe

/-- Sentences two and three hold of every reported partition outside the excluded class. -/
theorem run_law_all (inp : Input) (hnn : endsNonNeg inp = true) :
    AllRows (fun r => thirdPassErrStart inp r.topic r.part = false → rowLaw inp r = true) (run inp) := by
  rw [run_eq]
  refine (pass3_inv inp _ ?_ (l2 inp).topics (l2 inp) ⟨(l2_lawful inp).1, l2_cov inp, ?_⟩).2.2
  · intro t p pe hpe hs hx
    rw [(rowListed_keyed inp t p pe).1, (rowListed_keyed inp t p pe).2] at hx
    have hc : get2 inp.commit t p = none := by
      simp only [inScope, committedIn, Bool.or_eq_false_iff] at hs
      cases hcc : get2 inp.commit t p with
      | none => rfl
      | some c => rw [hcc] at hs; simp at hs
    apply rowLaw_rowListed inp t p pe hpe hc (endsNonNeg_get inp hnn t p pe hpe)
    rintro ⟨h1, st, hst, h4⟩
    simp [thirdPassErrStart, hs, hpe, hst, h1, h4] at hx
  · exact allRows_mono _ _ _ (l2_lawful inp).2 (fun r hr _ => hr)

/-! ### totals -/

theorem sumBy_add {α : Type} (f g : α → Int) (xs : List α) :
    sumBy (fun x => f x + g x) xs = sumBy f xs + sumBy g xs := by
  induction xs with
  | nil => simp [sumBy]
  | cons x xs ih => simp only [sumBy, ih]; omega

theorem sumBy_zero {α : Type} (xs : List α) : sumBy (fun _ => (0 : Int)) xs = 0 := by
  induction xs with
  | nil => simp [sumBy]
  | cons x xs ih => simp [sumBy, ih]

theorem sumBy_congr {α : Type} (f g : α → Int) (xs : List α) (h : ∀ x ∈ xs, f x = g x) : sumBy f xs = sumBy g xs := by
  induction xs with
  | nil => simp [sumBy]
  | cons x xs ih =>
    simp only [sumBy]
    rw [h x (by simp), ih (fun y hy => h y (by simp [hy]))]

theorem sumBy_map {α β : Type} (f : β → Int) (g : α → β) (xs : List α) : sumBy f (xs.map g) = sumBy (fun x => f (g x)) xs := by
  induction xs with
  | nil => simp [sumBy]
  | cons x xs ih => simp [sumBy, ih]

theorem sumBy_indicator (ts : List Nat) (a : Nat) (v : Int) (hn : ts.Nodup) (ha : a ∈ ts) :
    sumBy (fun t => if a = t then v else 0) ts = v := by
  induction ts with
  | nil => simp at ha
  | cons t ts ih =>
    have hn' : t ∉ ts ∧ ts.Nodup := by simpa using hn
    simp only [sumBy]
    by_cases hat : a = t
    · subst hat
      have : sumBy (fun t => if a = t then v else 0) ts = sumBy (fun _ => (0 : Int)) ts := by
        apply sumBy_congr; intro x hx
        have : a ≠ x := fun e => hn'.1 (e ▸ hx)
        simp [this]
      rw [this, sumBy_zero]; simp
    · have ha' : a ∈ ts := by
        rcases List.mem_cons.1 ha with e | e
        · exact absurd e hat
        · exact e
      rw [ih hn'.2 ha']; simp [hat]

/-- Summing the per-topic sums over the topic keys is the sum over all rows. -/
theorem sum_by_topic (ts : List Nat) (hn : ts.Nodup) (R : List ((Nat × Int) × Row)) (hc : ∀ kr ∈ R, kr.1.1 ∈ ts) :
    sumBy (fun t => sumBy (fun kr : (Nat × Int) × Row => if kr.1.1 = t ∧ kr.2.lag > 0 then kr.2.lag else 0) R) ts
      = sumBy (fun kr => nonneg kr.2) R := by
  induction R with
  | nil => simp [sumBy, sumBy_zero]
  | cons x R ih =>
    simp only [sumBy]
    rw [sumBy_add, ih (fun kr hkr => hc kr (by simp [hkr]))]
    have h1 : sumBy (fun t => if x.1.1 = t ∧ x.2.lag > 0 then x.2.lag else 0) ts
        = sumBy (fun t => if x.1.1 = t then nonneg x.2 else 0) ts := by
      apply sumBy_congr; intro t _
      unfold nonneg
      by_cases h : x.1.1 = t <;> by_cases h' : x.2.lag > 0 <;> simp [h, h'] <;> omega
    rw [h1, sumBy_indicator ts x.1.1 _ hn (hc x (by simp))]

theorem total_eq (l : LagMap) (h : Good l) : total l = sumBy nonneg (l.rows.map (·.2)) := by
  unfold total totalByTopic
  rw [sumBy_map, sumBy_map]
  exact sum_by_topic l.topics h.tnodup l.rows h.tcover

theorem topicLag_eq (l : LagMap) (h : Good l) (t : Nat) :
    topicLag l t = sumBy (fun r => if r.topic = t then nonneg r else 0) (l.rows.map (·.2)) := by
  unfold topicLag
  rw [sumBy_map]
  apply sumBy_congr
  intro kr hkr
  rw [(h.keyok kr hkr).1]
  unfold nonneg
  by_cases h1 : kr.1.1 = t <;> by_cases h' : kr.2.lag > 0 <;> simp [h1, h'] <;> omega

/-! ### from the map to the observed rows -/

theorem hasRow_of_has (inp : Input) (t : Nat) (p : Int) (h : has (run inp) t p = true) :
    hasRow (runOut inp) t p = true := by
  simp only [has, Option.isSome_iff_exists] at h
  obtain ⟨r, hr⟩ := h
  have hm := mem_of_alook _ _ _ hr
  have hk := (run_good_cov inp).1.keyok _ hm
  simp only [hasRow, runOut, List.any_eq_true, List.mem_map, Bool.and_eq_true, beq_iff_eq]
  exact ⟨r, ⟨((t, p), r), hm, rfl⟩, hk.1, hk.2⟩

theorem row_keys_eq (inp : Input) :
    (runOut inp).rows.map (fun r => (r.topic, r.part)) = keys (run inp).rows := by
  simp only [runOut, keys, List.map_map]
  apply List.map_congr_left
  intro kr hkr
  have hk := (run_good_cov inp).1.keyok kr hkr
  simp [hk.1, hk.2]

theorem mem_rows (inp : Input) (r : Row) (hr : r ∈ (runOut inp).rows) : ∃ kr ∈ (run inp).rows, kr.2 = r := by
  simpa [runOut] using hr

/-! ### out-of-scope rows come from pass three only; what pass three does in the excluded class -/

def Scoped (inp : Input) : Ins → Prop
  | .prime _ => True
  | .put t p _ => inScope inp t p = true
  | .putNew t p _ => inScope inp t p = true

def ScopedRows (inp : Input) (l : LagMap) : Prop := ∀ kr ∈ l.rows, inScope inp kr.1.1 kr.1.2 = true

theorem step_scoped (inp : Input) (l : LagMap) (i : Ins) (h : ScopedRows inp l) (hi : Scoped inp i) :
    ScopedRows inp (step l i) := by
  have hput : ∀ t p r, inScope inp t p = true → ScopedRows inp (put l t p r) := by
    intro t p r hs kr hkr
    rcases mem_ains _ _ _ _ hkr with e | hm
    · subst e; exact hs
    · exact h kr hm
  cases i with
  | prime t => intro kr hkr; rw [show (step l (.prime t)).rows = l.rows from prime_rows l t] at hkr; exact h kr hkr
  | put t p r => exact hput t p r hi
  | putNew t p r =>
    simp only [step]; split
    · exact h
    · exact hput t p r hi

theorem ins1From_scoped (inp : Input) (ms : List Member) (hms : ∀ m ∈ ms, m ∈ inp.members) (j : Nat) (i : Ins)
    (h : i ∈ ins1From inp j ms) : Scoped inp i := by
  induction ms generalizing j with
  | nil => simp [ins1From] at h
  | cons m ms ih =>
    simp only [ins1From, List.mem_append] at h
    rcases h with h | h
    · unfold insMember1 at h
      split at h
      · rename_i hac
        simp only [List.mem_append, List.mem_flatMap] at h
        rcases h with ⟨tp, htp, h⟩ | h
        · simp only [insTopic1, List.mem_cons, List.mem_map] at h
          rcases h with h | ⟨p, hp, h⟩
          · subst h; trivial
          · subst h
            show inScope inp tp.1 p = true
            simp only [inScope, Bool.or_eq_true]
            refine Or.inl ?_
            simp only [assignedIn, List.any_eq_true, Bool.and_eq_true, beq_iff_eq, List.contains_eq_mem, decide_eq_true_eq]
            exact ⟨m, hms m (by simp), hac, tp, htp, rfl, hp⟩
        · split at h
          · simp only [List.mem_map] at h; obtain ⟨t, _, h⟩ := h; subst h; trivial
          · simp at h
      · simp at h
    · exact ih (fun m' hm' => hms m' (by simp [hm'])) (j + 1) h

theorem ins2_scoped (inp : Input) (i : Ins) (h : i ∈ ins2 inp) : Scoped inp i := by
  simp only [ins2, List.mem_flatMap] at h
  obtain ⟨t, _, h⟩ := h
  simp only [insTopic2, List.mem_cons, List.mem_flatMap] at h
  rcases h with h | ⟨p, _, h⟩
  · subst h; trivial
  · split at h
    · rename_i pc hpc
      simp only [List.mem_singleton] at h; subst h
      show inScope inp t p = true
      simp [inScope, committedIn, hpc]
    · simp at h

theorem l2_scoped (inp : Input) : ScopedRows inp (l2 inp) := by
  unfold l2
  apply exec_inv (ScopedRows inp)
  · apply exec_inv (ScopedRows inp)
    · intro kr hkr; simp at hkr
    · intro l i hl hi; exact step_scoped inp l i hl (ins1From_scoped inp inp.members (fun _ h => h) 0 i hi)
  · intro l i hl hi; exact step_scoped inp l i hl (ins2_scoped inp i hi)

/-- In the excluded class the code always reports a non-negative lag together with the error. -/
theorem run_excluded_class (inp : Input) :
    AllRows (fun r => thirdPassErrStart inp r.topic r.part = true → r.err ≠ 0 ∧ 0 ≤ r.lag) (run inp) := by
  rw [run_eq]
  refine (pass3_inv inp _ ?_ (l2 inp).topics (l2 inp) ⟨(l2_lawful inp).1, l2_cov inp, ?_⟩).2.2
  · intro t p pe hpe hs hx
    rw [(rowListed_keyed inp t p pe).1, (rowListed_keyed inp t p pe).2] at hx
    simp only [thirdPassErrStart, hs, hpe, Bool.not_false, Bool.true_and, Bool.and_eq_true, bne_iff_ne] at hx
    obtain ⟨h1, h2⟩ := hx
    cases hst : get2 inp.start t p with
    | none => rw [hst] at h2; simp at h2
    | some st =>
      rw [hst] at h2
      have h4 : st.err = 0 := by simpa using h2
      unfold rowListed
      simp only [hst, h4, if_true]
      refine ⟨h1, ?_⟩
      split <;> omega
  · intro kr hkr hx
    have hk := (l2_lawful inp).1.keyok kr hkr
    have hs := l2_scoped inp kr hkr
    rw [hk.1, hk.2] at hx
    simp [thirdPassErrStart, hs] at hx

end Proof.C35
