import FranzVerif.Model.C32
/-! C32 — helper lemmas: the per-partition invariant and its preservation by every log operation. -/
namespace Proof.C32
open Model.C32

/-- adjacent batches touch and the last one ends at `e`. -/
def Contig : List Batch → Int → Prop
  | [], _ => True
  | [b], e => b.first + b.n = e
  | b :: c :: r, e => b.first + b.n = c.first ∧ Contig (c :: r) e

/-- the invariant of one partition. -/
structure PInv (pd : Part) : Prop where
  contig : Contig pd.batches pd.hwm
  lso : pd.lso = minUnc pd.hwm pd.unc
  unc_le : ∀ e ∈ pd.unc, e.2 ≤ pd.hwm

theorem minUnc_le (h : Int) (l : List (Int × Int)) : minUnc h l ≤ h := by
  induction l with
  | nil => simp [minUnc]
  | cons e r ih => obtain ⟨p, o⟩ := e; simp only [minUnc]; split <;> omega

theorem minUnc_le_mem (h : Int) (l : List (Int × Int)) : ∀ e ∈ l, minUnc h l ≤ e.2 := by
  induction l with
  | nil => simp
  | cons e r ih =>
    obtain ⟨p, o⟩ := e
    intro x hx
    simp only [minUnc]
    rcases List.mem_cons.1 hx with rfl | hx
    · split <;> simp <;> omega
    · have := ih x hx; split <;> omega

/-- with at least one entry below the high watermark the minimum is attained by an entry. -/
theorem minUnc_attained (h : Int) (l : List (Int × Int)) (hne : l ≠ []) (hle : ∀ e ∈ l, e.2 ≤ h) :
    ∃ e ∈ l, minUnc h l = e.2 := by
  induction l with
  | nil => exact absurd rfl hne
  | cons e r ih =>
    obtain ⟨p, o⟩ := e
    simp only [minUnc]
    by_cases hlt : o < minUnc h r
    · exact ⟨(p, o), by simp, by simp [hlt]⟩
    · simp only [hlt, if_false]
      cases r with
      | nil =>
        have : o ≤ h := hle (p, o) (by simp)
        simp [minUnc] at hlt ⊢
        omega
      | cons e2 r2 =>
        obtain ⟨x, hx, hm⟩ := ih (by simp) (fun y hy => hle y (by simp [hy]))
        exact ⟨x, by simp [hx], hm⟩

theorem minUnc_cons (h p o : Int) (r : List (Int × Int)) : minUnc h ((p, o) :: r) = min o (minUnc h r) := by
  by_cases hlt : o < minUnc h r <;> simp [minUnc, hlt, Int.min_def] <;> omega

/-- raising the high watermark does not move the minimum of a non-empty map whose entries are below it:
this is what makes `pushBatch` leaving the LSO alone correct while a transaction is open. -/
theorem minUnc_raise (h h' : Int) (l : List (Int × Int)) (hne : l ≠ []) (hle : ∀ e ∈ l, e.2 ≤ h) (hh : h ≤ h') :
    minUnc h' l = minUnc h l := by
  induction l with
  | nil => exact absurd rfl hne
  | cons e r ih =>
    obtain ⟨p, o⟩ := e
    rw [minUnc_cons, minUnc_cons]
    cases r with
    | nil =>
      have : o ≤ h := hle (p, o) (by simp)
      simp only [minUnc]
      omega
    | cons e2 r2 =>
      rw [ih (by simp) (fun y hy => hle y (by simp [hy]))]

theorem minUnc_append (h : Int) (l : List (Int × Int)) (p o : Int) :
    minUnc h (l ++ [(p, o)]) = minUnc (min o h) l := by
  induction l with
  | nil => rw [List.nil_append, minUnc_cons]; simp [minUnc]
  | cons e r ih => obtain ⟨q, x⟩ := e; rw [List.cons_append, minUnc_cons, minUnc_cons, ih]

theorem contig_append (bs : List Batch) (e : Int) (b : Batch) (h : Contig bs e) (hne : bs ≠ [] ∨ True) :
    Contig (bs ++ [{ b with first := e }]) (e + b.n) := by
  induction bs with
  | nil => simp [Contig]
  | cons a r ih =>
    cases r with
    | nil => simp [Contig] at h ⊢; exact h
    | cons c r2 =>
      simp only [Contig, List.cons_append] at h ⊢
      exact ⟨h.1, ih h.2 (Or.inr trivial)⟩

theorem contig_tail (a : Batch) (r : List Batch) (e : Int) (h : Contig (a :: r) e) : Contig r e := by
  cases r with
  | nil => trivial
  | cons c r2 => exact h.2

theorem contig_dropWhile (f : Batch → Bool) (bs : List Batch) (e : Int) (h : Contig bs e) : Contig (bs.dropWhile f) e := by
  induction bs with
  | nil => simpa using h
  | cons a r ih =>
    simp only [List.dropWhile]
    split
    · exact ih (contig_tail a r e h)
    · exact h

theorem lookup_mem (l : List (Int × Int)) (k v : Int) (h : l.lookup k = some v) : (k, v) ∈ l := by
  induction l with
  | nil => simp at h
  | cons e r ih =>
    obtain ⟨a, b⟩ := e
    simp only [List.lookup] at h
    split at h
    · rename_i heq; simp at heq h; subst heq; subst h; simp
    · simp [ih h]

theorem pinv_init : PInv ({} : Part) := ⟨trivial, by simp [minUnc], by simp⟩

/-- `pushBatch` keeps the invariant for any batch with a non-negative record count. -/
theorem pinv_push (pd : Part) (b : Batch) (inTx : Bool) (hn : 0 ≤ b.n) (h : PInv pd) : PInv (pushBatch pd b inTx) := by
  obtain ⟨hc, hl, hu⟩ := h
  refine ⟨contig_append _ _ _ hc (Or.inr trivial), ?_, ?_⟩
  · -- the LSO clause
    simp only [pushBatch]
    cases inTx with
    | false =>
      simp only [Bool.false_eq_true, if_false]
      cases hunc : pd.unc with
      | nil => simp [hunc, minUnc] at hl ⊢; omega
      | cons e r =>
        simp only [List.isEmpty_cons, Bool.false_eq_true, if_false]
        rw [hl, hunc]
        exact (minUnc_raise pd.hwm (pd.hwm + b.n) (e :: r) (by simp) (by rw [← hunc]; exact hu) (by omega)).symm
    | true =>
      simp only [if_true]
      unfold uncSet
      cases hlk : pd.unc.lookup b.pid with
      | some ex =>
        have hex : ex ≤ pd.hwm := hu (b.pid, ex) (lookup_mem _ _ _ hlk)
        have hnlt : ¬ pd.hwm < ex := by omega
        simp only [hnlt, if_false]
        have hne : pd.unc ≠ [] := by intro h0; simp [h0] at hlk
        have hie : pd.unc.isEmpty = false := by cases hh : pd.unc <;> simp_all
        simp only [hie, Bool.false_eq_true, if_false]
        rw [hl]
        exact (minUnc_raise pd.hwm (pd.hwm + b.n) pd.unc hne hu (by omega)).symm
      | none =>
        have hie : (pd.unc ++ [(b.pid, pd.hwm)]).isEmpty = false := by cases hh : pd.unc <;> simp
        simp only [hie, Bool.false_eq_true, if_false]
        rw [minUnc_append, hl]
        have hlt : min pd.hwm (pd.hwm + b.n) = pd.hwm := by omega
        rw [hlt]
  · intro e he
    simp only [pushBatch] at he ⊢
    cases inTx with
    | false => simp only [Bool.false_eq_true, if_false] at he; have := hu e he; omega
    | true =>
      simp only [if_true] at he
      unfold uncSet at he
      cases hlk : pd.unc.lookup b.pid with
      | some ex =>
        rw [hlk] at he
        simp only at he
        split at he
        · simp only [List.mem_map] at he
          obtain ⟨x, hx, rfl⟩ := he
          split
          · simp; omega
          · have := hu x hx; omega
        · have := hu e he; omega
      | none =>
        rw [hlk] at he
        simp only [List.mem_append, List.mem_singleton] at he
        rcases he with he | rfl
        · have := hu e he; omega
        · simp; omega

/-- `endTx` on one partition: the marker is appended at the high watermark and `recalculateLSO` re-establishes the LSO clause. -/
theorem pinv_endTx (pd : Part) (pid epoch : Int) (commit : Bool) (h : PInv pd) : PInv (endTxPart pd pid epoch commit) := by
  obtain ⟨hc, hl, hu⟩ := h
  have hhwm : (endTxPart pd pid epoch commit).hwm = pd.hwm + 1 := by
    unfold endTxPart recalcLSO pushBatch
    cases commit <;> cases pd.unc.lookup pid <;> simp
  have hunc : (endTxPart pd pid epoch commit).unc = pd.unc.filter (fun e => e.1 != pid) := by
    unfold endTxPart recalcLSO pushBatch
    cases commit <;> cases pd.unc.lookup pid <;> simp
  have hb : (endTxPart pd pid epoch commit).batches = pd.batches ++ [{ (⟨0, 1, pid, epoch, -1, true, true, commit, ctlBytes⟩ : Batch) with first := pd.hwm }] := by
    unfold endTxPart recalcLSO pushBatch
    cases commit <;> cases pd.unc.lookup pid <;> simp
  have hlso : (endTxPart pd pid epoch commit).lso =
      if (pd.unc.filter (fun e => e.1 != pid)).isEmpty then pd.hwm + 1 else minUnc (pd.hwm + 1) (pd.unc.filter (fun e => e.1 != pid)) := by
    unfold endTxPart recalcLSO pushBatch
    cases commit <;> cases pd.unc.lookup pid <;> simp
  refine ⟨?_, ?_, ?_⟩
  · rw [hb, hhwm]
    exact contig_append pd.batches pd.hwm ⟨0, 1, pid, epoch, -1, true, true, commit, ctlBytes⟩ hc (Or.inr trivial)
  · rw [hlso, hhwm, hunc]
    cases hf : pd.unc.filter (fun e => e.1 != pid) with
    | nil => simp [minUnc]
    | cons e r => simp
  · rw [hunc, hhwm]
    intro e he
    have := hu e (List.mem_filter.1 he).1
    omega

theorem pinv_delete (pd : Part) (off : Int) (h : PInv pd) : PInv (deleteRecords pd off).1 := by
  obtain ⟨hc, hl, hu⟩ := h
  by_cases hcond : (decide ((if off == -1 then pd.hwm else off) < pd.logStart) || decide ((if off == -1 then pd.hwm else off) > pd.hwm)) = true
  · have e : (deleteRecords pd off).1 = pd := by simp only [deleteRecords, hcond, if_true]
    rw [e]; exact ⟨hc, hl, hu⟩
  · have e : (deleteRecords pd off).1 = trimLeft { pd with logStart := if off == -1 then pd.hwm else off } := by
      simp only [deleteRecords, hcond, if_false]; rfl
    rw [e]; exact ⟨contig_dropWhile _ _ _ hc, hl, hu⟩

/-! ### fetch walk -/

theorem walk_prefix (rc : Bool) (lso mb pm : Int) (bs : List Batch) (pb nb : Int) (ad : Nat) :
    ∃ rest, bs = (walk rc lso mb pm bs pb nb ad).1 ++ rest := by
  induction bs generalizing pb nb ad with
  | nil => exact ⟨[], by simp [walk]⟩
  | cons m r ih =>
    simp only [walk]
    split
    · exact ⟨m :: r, by simp⟩
    · split
      · exact ⟨m :: r, by simp⟩
      · split
        · exact ⟨m :: r, by simp⟩
        · obtain ⟨rest, hr⟩ := ih (pb + m.nbytes) (nb + m.nbytes) (ad + 1)
          exact ⟨rest, by simp only [List.cons_append]; rw [← hr]⟩

theorem walk_below_lso (lso mb pm : Int) (bs : List Batch) (pb nb : Int) (ad : Nat) :
    ∀ m ∈ (walk true lso mb pm bs pb nb ad).1, m.first < lso := by
  induction bs generalizing pb nb ad with
  | nil => simp [walk]
  | cons m r ih =>
    simp only [walk]
    split
    · simp
    · rename_i h1
      split
      · simp
      · split
        · simp
        · intro x hx
          simp only [List.mem_cons] at hx
          rcases hx with rfl | hx
          · simp at h1; omega
          · exact ih _ _ _ x hx

/-- the first batch is always returned when nothing was added before (Kafka's progress guarantee). -/
theorem walk_first (rc : Bool) (lso mb pm : Int) (m : Batch) (r : List Batch) (nb : Int) (h : ¬ (rc = true ∧ m.first ≥ lso)) :
    ∃ t, (walk rc lso mb pm (m :: r) 0 nb 0).1 = m :: t := by
  simp only [walk]
  have h1 : ¬ ((rc && decide (m.first ≥ lso)) = true) := by simpa using h
  simp [h1]

theorem mem_takeWhile_imp2 (f : Batch → Bool) (l : List Batch) (m : Batch) (h : m ∈ l.takeWhile f) : f m = true := by
  induction l with
  | nil => simp at h
  | cons a r ih =>
    simp only [List.takeWhile] at h
    split at h
    · rename_i ha
      simp only [List.mem_cons] at h
      rcases h with rfl | h
      · exact ha
      · exact ih h
    · simp at h


/-! ### lifting the partition invariant to the broker state -/

/-- what the wire carries: record counts are positive, sequence numbers non-negative. -/
def Op.valid : Op → Prop
  | .prod _ _ _ seq n _ _ _ => 1 ≤ n ∧ 0 ≤ seq
  | _ => True

/-- what an invariant of one partition must be preserved by: the three log operations. -/
structure Pres (I : Part → Prop) : Prop where
  push : ∀ pd b t, 1 ≤ b.n → b.ctl = false → b.txn = t → I pd → I (pushBatch pd b t)
  endTx : ∀ pd k e c, I pd → I (endTxPart pd k e c)
  del : ∀ pd off, I pd → I (deleteRecords pd off).1

def AllI (I : Part → Prop) (s : State) : Prop := ∀ pd ∈ s.parts, I pd

theorem setProd_parts (s : State) (k : Int) (p : Prod) : (setProd s k p).parts = s.parts := by
  unfold setProd; split <;> rfl

theorem set_inv (I : Part → Prop) (ps : List Part) (p : Nat) (x : Part) (h : ∀ pd ∈ ps, I pd) (hx : I x) : ∀ pd ∈ ps.set p x, I pd := by
  intro pd hpd
  rcases List.mem_or_eq_of_mem_set hpd with h1 | h1
  · exact h pd h1
  · exact h1 ▸ hx

theorem endTx_inv (I : Part → Prop) (hp : Pres I) (s : State) (k : Int) (pr : Prod) (c : Bool) (h : AllI I s) : AllI I (endTx s k pr c) := by
  have h : ∀ pd ∈ s.parts, I pd := h
  unfold AllI endTx
  rw [setProd_parts]
  simp only
  generalize pr.txParts = l
  generalize s.parts = ps at h
  induction l generalizing ps with
  | nil => simpa using h
  | cons q r ih =>
    simp only [List.foldl_cons]
    apply ih
    split
    · rename_i pd hpd
      exact set_inv I ps q _ h (hp.endTx pd k pr.epoch c (h pd (List.mem_of_getElem? hpd)))
    · exact h

theorem expire_inv (I : Part → Prop) (hp : Pres I) (f : Nat) (s : State) (h : AllI I s) : AllI I (expire f s) := by
  induction f generalizing s with
  | zero => exact h
  | succ f ih =>
    simp only [expire]
    split
    · exact h
    · rename_i s' hs'
      apply ih
      unfold expireOne at hs'
      simp only at hs'
      split at hs'
      · simp at hs'
      · split at hs'
        · simp only [Option.some.injEq] at hs'
          rw [← hs']
          exact endTx_inv I hp _ _ _ _ h
        · simp only [Option.some.injEq] at hs'
          rw [← hs']
          exact endTx_inv I hp _ _ _ _ h

theorem expireOne_inv (I : Part → Prop) (hp : Pres I) (s s' : State) (h : AllI I s) (hs' : expireOne s = some s') : AllI I s' := by
  unfold expireOne at hs'
  simp only at hs'
  split at hs'
  · simp at hs'
  · split at hs'
    · simp only [Option.some.injEq] at hs'
      rw [← hs']
      exact endTx_inv I hp _ _ _ _ h
    · simp only [Option.some.injEq] at hs'
      rw [← hs']
      exact endTx_inv I hp _ _ _ _ h

theorem expireAll_inv (I : Part → Prop) (hp : Pres I) (s : State) (h : AllI I s) : AllI I (expireAll s) := expire_inv I hp _ s h

theorem pidsGet_parts (s : State) (v12 : Bool) (k : Int) (p : Nat) (tx : Bool) : (pidsGet s v12 k p tx).1.parts = s.parts := by
  unfold pidsGet
  split
  · rfl
  · split
    · split
      · simp [setProd_parts]
      · rfl
    · rfl

theorem getOrCreate_parts (s : State) (k e : Int) (tx : Bool) (f : Option Prod) : (getOrCreate s k e tx f).1.parts = s.parts := by
  unfold getOrCreate
  split
  · split
    · rfl
    · simp [setProd_parts]
  · rfl

/-- **Contiguous offsets.** A produce request either leaves every partition log untouched, or appends
exactly its batch to the addressed partition at the high watermark and answers that offset with error 0. -/
theorem produce_append_aux (s : State) (v12 : Bool) (k epoch seq n nbytes : Int) (p : Nat) (tx : Bool) :
    (produce s v12 k epoch seq n nbytes p tx).1.parts = s.parts ∨
    ∃ pd, s.parts[p]? = some pd ∧
      (produce s v12 k epoch seq n nbytes p tx).1.parts = s.parts.set p (pushBatch pd ⟨0, n, k, epoch, seq, tx, false, false, nbytes⟩ tx) ∧
      (produce s v12 k epoch seq n nbytes p tx).2.1 = 0 ∧ (produce s v12 k epoch seq n nbytes p tx).2.2.1 = pd.hwm := by
  unfold produce
  split
  · left; rfl
  · rename_i pd hpd
    split
    · left; rfl
    · split
      · left; rfl
      · split
        · right; exact ⟨pd, hpd, by simp [setPart], rfl, rfl⟩
        · simp only
          split
          · left; simp [getOrCreate_parts, pidsGet_parts]
          · split
            · left; simp [getOrCreate_parts, pidsGet_parts]
            · split
              · left; simp [getOrCreate_parts, pidsGet_parts]
              · split
                · left; simp [setProd_parts, getOrCreate_parts, pidsGet_parts]
                · left; simp [setProd_parts, getOrCreate_parts, pidsGet_parts]
                · right
                  exact ⟨pd, hpd, by cases tx <;> simp [setPart, setProd_parts, getOrCreate_parts, pidsGet_parts], rfl, rfl⟩

theorem pushBatch_hwm (pd : Part) (b : Batch) (t : Bool) : (pushBatch pd b t).hwm = pd.hwm + b.n := rfl

/-- the appended batch sits at the old high watermark and the new high watermark is its end. -/
theorem pushBatch_offsets (pd : Part) (b : Batch) (t : Bool) :
    (pushBatch pd b t).batches = pd.batches ++ [{ b with first := pd.hwm }] ∧ (pushBatch pd b t).hwm = pd.hwm + b.n := ⟨rfl, rfl⟩

theorem initx_inv (I : Part → Prop) (hp : Pres I) (s : State) (k t : Int) (h : AllI I s) : AllI I (initx s k t).1 := by
  unfold initx; split
  · exact h
  · split
    · unfold AllI; simp only [setProd_parts]
      split
      · exact endTx_inv I hp _ _ _ _ h
      · exact h
    · unfold AllI; simp only [setProd_parts]; exact h

theorem fetch_parts (s : State) (f : FetchOp) (ord : List Nat) : (Model.C32.fetch s f ord).1.parts = s.parts := by
  unfold Model.C32.fetch; simp only
  split
  · split <;> rfl
  · split
    · rfl
    · split
      · rfl
      · split <;> rfl

theorem waitLoop_inv (I : Part → Prop) (hp : Pres I) (n : Nat) (s : State) (rc : Bool) (w : Watch) (d : Int) (h : AllI I s) :
    AllI I (waitLoop n s rc w d) := by
  induction n generalizing s w with
  | zero => exact h
  | succ n ih =>
    simp only [waitLoop]
    split
    · exact h
    · rename_i s2 w2 fired hstep
      have hs2 : AllI I s2 := by
        unfold waitStep at hstep
        simp only at hstep
        split at hstep
        · simp at hstep
        · split at hstep
          · simp at hstep
          · rename_i s2' he
            simp only [Option.some.injEq, Prod.mk.injEq] at hstep
            rw [← hstep.1]
            refine expireOne_inv I hp _ _ ?_ he
            exact h
      split
      · exact hs2
      · exact ih s2 w2 hs2

theorem fetchW_inv (I : Part → Prop) (hp : Pres I) (s : State) (f : FetchOp) (ord : List Nat) (h : AllI I s) :
    AllI I (fetchW s f ord).1 := by
  unfold fetchW; simp only
  split
  · unfold AllI; rw [fetch_parts]; exact h
  · split
    · unfold AllI; rw [fetch_parts]; exact h
    · unfold AllI; rw [fetch_parts]
      apply waitLoop_inv I hp
      split
      · exact h
      · split <;> exact h

theorem step_inv (I : Part → Prop) (hp : Pres I) (s : State) (o : Op) (hv : Op.valid o) (h : AllI I s) : AllI I (step s o).1 := by
  cases o with
  | initx k t =>
    simp only [step]; apply expireAll_inv I hp
    exact initx_inv I hp s k t h
  | initr k e =>
    simp only [step]; apply expireAll_inv I hp
    unfold initr; split
    · exact initx_inv I hp s k 1000 h
    · split
      · exact h
      · split
        · exact h
        · unfold AllI; simp only [setProd_parts]
          split
          · exact endTx_inv I hp _ _ _ _ h
          · exact h
  | addp k e ps =>
    simp only [step]; apply expireAll_inv I hp
    unfold addParts; simp only; split
    · exact h
    · split
      · exact h
      · split
        · exact h
        · unfold AllI; simp only [setProd_parts]; exact h
  | prod v k e q n nb p tx =>
    simp only [step]; apply expireAll_inv I hp
    rcases produce_append_aux s v k e q n nb p tx with h1 | ⟨pd, hpd, h1, _, _⟩
    · unfold AllI; rw [h1]; exact h
    · unfold AllI; rw [h1]
      exact set_inv I _ _ _ h (hp.push pd _ tx (by have := hv.1; simp; omega) rfl rfl (h pd (List.mem_of_getElem? hpd)))
  | endt v k e c =>
    simp only [step]; apply expireAll_inv I hp
    unfold endTxn; split
    · exact h
    · split
      · split
        · split <;> exact h
        · exact h
      · split
        · split
          · unfold AllI; simp only [setProd_parts]; exact h
          · split <;> exact h
        · split
          · unfold AllI; simp only [setProd_parts]; exact endTx_inv I hp _ _ _ _ h
          · exact endTx_inv I hp _ _ _ _ h
  | del p off =>
    simp only [step]; split
    · exact h
    · rename_i pd hpd
      split
      · exact expireAll_inv I hp s h
      · apply expireAll_inv I hp
        unfold AllI setPart
        exact set_inv I _ _ _ h (hp.del pd off (h pd (List.mem_of_getElem? hpd)))
  | sleep ms =>
    simp only [step]; apply expireAll_inv I hp; exact h
  | fetch f ord =>
    simp only [step]; apply expireAll_inv I hp
    exact fetchW_inv I hp s f ord h
  | move p b =>
    simp only [step]; split <;> exact h
  | via b =>
    simp only [step]; split <;> exact h

theorem init_inv (I : Part → Prop) (h0 : I {}) (np : Nat) : AllI I (init np) := by
  intro pd hpd
  simp only [init, List.mem_replicate] at hpd
  exact hpd.2 ▸ h0


/-- every reachable state satisfies a preserved partition invariant. -/
theorem run_inv (I : Part → Prop) (hp : Pres I) (ops : List Op) (hv : ∀ o ∈ ops, Op.valid o) (s : State) (h : AllI I s) :
    AllI I (run s ops) := by
  induction ops generalizing s with
  | nil => exact h
  | cons o os ih =>
    simp only [run]
    exact ih (fun o' ho' => hv o' (by simp [ho'])) _ (step_inv I hp s o (hv o (by simp)) h)

theorem pres_pinv : Pres PInv :=
  ⟨fun pd b t hn _ _ h => pinv_push pd b t (by omega) h, pinv_endTx, pinv_delete⟩

end Proof.C32
