import FranzVerif.Model.C38
/-! Helper lemmas for C38 (core Lean only): the `prepareNext` index machine against the structural view. -/
namespace Proof.C38
open Model.C38

theorem drop_of_some {α : Type} (l : List α) (i : Nat) (x : α) (h : l[i]? = some x) :
    l.drop i = x :: l.drop (i + 1) := by
  induction l generalizing i with
  | nil => simp at h
  | cons a t ih =>
    cases i with
    | zero => simp at h; simp [h]
    | succ j => simp at h; simpa using ih j h

theorem drop_of_none {α : Type} (l : List α) (i : Nat) (h : l[i]? = none) : l.drop i = [] := by
  rw [List.getElem?_eq_none_iff] at h
  exact List.drop_eq_nil_of_le h

/-! #### what is left to visit, and the invariant that ties the indexes together -/

def remP (ps : List Part) (pi ri : Nat) : List Int :=
  match ps.drop pi with
  | [] => []
  | p :: ps' => p.recs.drop ri ++ ps'.flatMap precs

def remT (ts : List Topic) (ti pi ri : Nat) : List Int :=
  match ts.drop ti with
  | [] => []
  | t :: ts' => remP t.parts pi ri ++ ts'.flatMap trecs

/-- the records still to be visited from state `s` -/
def rem (s : It) : List Int :=
  match s.fetches with
  | [] => []
  | f0 :: rest => remT f0 s.ti s.pi s.ri ++ flatten rest

/-- indexes past a list's end are only reached with the inner indexes reset -/
def Inv (s : It) : Prop :=
  match s.fetches with
  | [] => True
  | f0 :: _ =>
    match f0[s.ti]? with
    | none => s.pi = 0 ∧ s.ri = 0
    | some t => t.parts[s.pi]? = none → s.ri = 0

theorem remP_zero (ps : List Part) (i : Nat) : remP ps i 0 = (ps.drop i).flatMap precs := by
  unfold remP
  cases h : ps.drop i with
  | nil => simp
  | cons p ps' => simp [precs]

theorem remT_zero (ts : List Topic) (i : Nat) : remT ts i 0 0 = (ts.drop i).flatMap trecs := by
  unfold remT
  cases h : ts.drop i with
  | nil => simp
  | cons t ts' => simp [remP_zero, trecs]

theorem rem_init (fs : Fetches) : rem ⟨fs, 0, 0, 0⟩ = flatten fs := by
  cases fs with
  | nil => simp [rem, flatten]
  | cons f rest => simp [rem, remT_zero, flatten, frecs]

theorem inv_init (fs : Fetches) : Inv ⟨fs, 0, 0, 0⟩ := by
  cases fs with
  | nil => simp [Inv]
  | cons f rest =>
    simp only [Inv]
    split <;> simp

theorem remT_some (f : List Topic) (i pi ri : Nat) (t : Topic) (h : f[i]? = some t) :
    remT f i pi ri = remP t.parts pi ri ++ (f.drop (i + 1)).flatMap trecs := by
  simp [remT, drop_of_some _ _ _ h]

theorem remT_none (f : List Topic) (i pi ri : Nat) (h : f[i]? = none) : remT f i pi ri = [] := by
  simp [remT, drop_of_none _ _ h]

theorem remP_some (ps : List Part) (i ri : Nat) (p : Part) (h : ps[i]? = some p) :
    remP ps i ri = p.recs.drop ri ++ (ps.drop (i + 1)).flatMap precs := by
  simp [remP, drop_of_some _ _ _ h]

theorem remP_none (ps : List Part) (i ri : Nat) (h : ps[i]? = none) : remP ps i ri = [] := by
  simp [remP, drop_of_none _ _ h]

theorem prepStep_rem (s s' : It) (h : prepStep s = some s') (hi : Inv s) : rem s' = rem s ∧ Inv s' := by
  unfold prepStep at h
  cases hf : s.fetches with
  | nil => simp [hf] at h
  | cons f0 rest =>
    simp only [hf] at h
    simp only [Inv, hf] at hi
    cases ht : f0[s.ti]? with
    | none =>
      simp only [ht] at h hi
      cases h
      obtain ⟨hp, hr⟩ := hi
      constructor
      · simp only [rem, hf, remT_none _ _ _ _ ht, List.nil_append]
        cases rest with
        | nil => simp [flatten]
        | cons f1 r' =>
          simp only [hp, hr, remT_zero]
          simp [flatten, frecs]
      · cases rest with
        | nil => simp [Inv]
        | cons f1 r' =>
          simp only [Inv, hp, hr]
          split <;> simp
    | some t =>
      simp only [ht] at h hi
      cases hp : t.parts[s.pi]? with
      | none =>
        simp only [hp] at h hi
        cases h
        have hr := hi trivial
        constructor
        · simp only [rem, hf, hr, remT_some _ _ _ _ _ ht, remP_none _ _ _ hp, List.nil_append, remT_zero]
        · simp only [Inv]
          split
          · first | exact ⟨rfl, hr⟩ | exact ⟨trivial, hr⟩
          · intro _; exact hr
      | some p =>
        simp only [hp] at h
        split at h
        · rename_i hge
          cases h
          constructor
          · simp only [rem, hf, remT_some _ _ _ _ _ ht, remP_some _ _ _ _ hp,
              List.drop_eq_nil_of_le hge, List.nil_append, remP_zero]
          · simp only [Inv, ht]
            intro _; trivial
        · simp at h

/-! #### the termination measure -/

def muT (t : Option Topic) (pi : Nat) : Nat :=
  match t with
  | none => 0
  | some t => 1 + (t.parts.length - pi)

/-- number of `goto`s `prepareNext` can still take from `s` (an upper bound) -/
def mu (s : It) : Nat :=
  match s.fetches with
  | [] => 0
  | f0 :: rest => 1 + sizeT (f0.drop (s.ti + 1)) + muT f0[s.ti]? s.pi + sizeFs rest

theorem sizeT_cons (t : Topic) (ts : List Topic) : sizeT (t :: ts) = 1 + t.parts.length + sizeT ts := by
  simp [sizeT]

theorem sizeFs_cons (f : Fetch) (fs : List Fetch) : sizeFs (f :: fs) = 1 + sizeT f + sizeFs fs := by
  simp [sizeFs]

theorem size_drop (f : List Topic) (i pi : Nat) :
    sizeT (f.drop (i + 1)) + muT f[i]? pi ≤ sizeT (f.drop i) := by
  induction f generalizing i with
  | nil => simp [sizeT, muT]
  | cons t f' ih =>
    cases i with
    | zero => simp [sizeT_cons, muT]; omega
    | succ j => simpa using ih j

theorem sizeT_drop_le (f : List Topic) (i : Nat) : sizeT (f.drop i) ≤ sizeT f := by
  induction f generalizing i with
  | nil => simp
  | cons t f' ih =>
    cases i with
    | zero => simp
    | succ j => simp only [List.drop_succ_cons, sizeT_cons]; have := ih j; omega

theorem mu_le (s : It) : mu s ≤ sizeFs s.fetches := by
  unfold mu
  cases hf : s.fetches with
  | nil => simp
  | cons f0 rest =>
    simp only [sizeFs_cons]
    have h1 := size_drop f0 s.ti s.pi
    have h2 := sizeT_drop_le f0 s.ti
    omega

theorem prepStep_mu (s s' : It) (h : prepStep s = some s') : mu s' < mu s := by
  unfold prepStep at h
  cases hf : s.fetches with
  | nil => simp [hf] at h
  | cons f0 rest =>
    simp only [hf] at h
    cases ht : f0[s.ti]? with
    | none =>
      simp only [ht] at h
      cases h
      have h1 := mu_le { fetches := rest, ti := 0, pi := s.pi, ri := s.ri }
      have h2 : mu s = 1 + sizeT (f0.drop (s.ti + 1)) + 0 + sizeFs rest := by simp [mu, hf, ht, muT]
      simp only at h1
      omega
    | some t =>
      simp only [ht] at h
      cases hp : t.parts[s.pi]? with
      | none =>
        simp only [hp] at h
        cases h
        have := size_drop f0 (s.ti + 1) 0
        simp only [muT] at this
        simp only [mu, hf, ht, muT]
        omega
      | some p =>
        simp only [hp] at h
        split at h
        · cases h
          have hlt : s.pi < t.parts.length := by
            have := List.getElem?_eq_some_iff.mp hp
            exact this.1
          simp only [mu, hf, ht, muT]
          omega
        · simp at h

/-- `prepareNext` never runs out of fuel above the measure, stops in a settled state, and (from a state
satisfying the invariant) keeps what is left to visit. -/
theorem prepareNext_spec (n : Nat) (s : It) (h : mu s < n) :
    ∃ s', prepareNext n s = some s' ∧ prepStep s' = none ∧ (Inv s → Inv s' ∧ rem s' = rem s) := by
  induction n generalizing s with
  | zero => omega
  | succ n ih =>
    simp only [prepareNext]
    cases hs : prepStep s with
    | none => exact ⟨s, rfl, hs, fun hi => ⟨hi, rfl⟩⟩
    | some s1 =>
      have hlt := prepStep_mu s s1 hs
      obtain ⟨s', h1, h2, h3⟩ := ih s1 (by omega)
      refine ⟨s', h1, h2, fun hi => ?_⟩
      obtain ⟨hr, hi1⟩ := prepStep_rem s s1 hs hi
      obtain ⟨hi', hr'⟩ := h3 hi1
      exact ⟨hi', by rw [hr', hr]⟩

theorem fuel_ok (s : It) : mu s < fuelOf s := by
  have := mu_le s
  simp only [fuelOf]; omega

/-- a settled state either has no fetch left or points at a record -/
theorem settled (s : It) (h : prepStep s = none) :
    s.fetches = [] ∨ ∃ f0 rest t p, s.fetches = f0 :: rest ∧ f0[s.ti]? = some t ∧ t.parts[s.pi]? = some p ∧
      s.ri < p.recs.length := by
  unfold prepStep at h
  cases hf : s.fetches with
  | nil => left; rfl
  | cons f0 rest =>
    right
    simp only [hf] at h
    cases ht : f0[s.ti]? with
    | none => simp [ht] at h
    | some t =>
      simp only [ht] at h
      cases hp : t.parts[s.pi]? with
      | none => simp [hp] at h
      | some p =>
        simp only [hp] at h
        split at h
        · simp at h
        · rename_i hlt
          exact ⟨f0, rest, t, p, rfl, ht, hp, by omega⟩

theorem rem_settled_nil (s : It) (hf : s.fetches = []) : rem s = [] := by simp [rem, hf]

/-- `Next` from a settled state with a fetch left: no panic, no fuel exhaustion; it returns the head of
what was left and settles on the tail. -/
theorem next_spec (s : It) (hs : prepStep s = none) (hne : s.fetches ≠ []) :
    ∃ r s'', next s = .ok (r, s'') ∧ rem s = r :: rem s'' ∧ prepStep s'' = none ∧ Inv s'' := by
  rcases settled s hs with h | ⟨f0, rest, t, p, hf, ht, hp, hr⟩
  · exact absurd h hne
  · obtain ⟨fetches, ti, pi, ri⟩ := s
    simp only at hf ht hp hr
    subst hf
    have hget : p.recs[ri]? = some p.recs[ri] := List.getElem?_eq_getElem hr
    have hi1 : Inv ⟨f0 :: rest, ti, pi, ri + 1⟩ := by
      simp only [Inv, ht, hp]; intro h; simp at h
    obtain ⟨s2, h1, h2, h3⟩ :=
      prepareNext_spec (fuelOf ⟨f0 :: rest, ti, pi, ri + 1⟩) ⟨f0 :: rest, ti, pi, ri + 1⟩ (fuel_ok _)
    obtain ⟨hi2, hr2⟩ := h3 hi1
    refine ⟨p.recs[ri], s2, ?_, ?_, h2, hi2⟩
    · simp only [next, ht, hp, hget, h1]
    · rw [hr2]
      simp only [rem, remT_some _ _ _ _ _ ht, remP_some _ _ _ _ hp, drop_of_some _ _ _ hget,
        List.cons_append]

/-- the consumer loop from a settled state collects exactly what is left (or its first `lim` records) -/
theorem drain_spec (n lim : Nat) (s : It) (hs : prepStep s = none) (hn : (rem s).length < n) :
    drain n lim s = .ok (if lim = 0 then rem s else (rem s).take lim) := by
  induction n generalizing lim s with
  | zero => omega
  | succ n ih =>
    simp only [drain]
    by_cases hd : s.fetches = []
    · simp [done, hd, rem_settled_nil s hd]
    · have : done s = false := by
        simp only [done]; cases hf : s.fetches with
        | nil => exact absurd hf hd
        | cons a b => rfl
      simp only [this, Bool.false_eq_true, if_false]
      obtain ⟨r, s2, h1, h2, h3, _⟩ := next_spec s hs hd
      rw [h1]
      simp only
      by_cases hl : lim = 1
      · simp [hl, h2]
      · simp only [hl, if_false]
        have hlen : (rem s2).length < n := by rw [h2] at hn; simpa using hn
        rw [ih (lim - 1) s2 h3 hlen]
        simp only
        by_cases h0 : lim = 0
        · simp [h0, h2]
        · have : lim - 1 ≠ 0 := by omega
          simp only [this, h0, if_false, h2]
          obtain ⟨k, rfl⟩ : ∃ k, lim = k + 1 := ⟨lim - 1, by omega⟩
          simp

theorem recordIter_spec (fs : Fetches) :
    ∃ s, recordIter fs = .ok s ∧ prepStep s = none ∧ rem s = flatten fs := by
  obtain ⟨s', h1, h2, h3⟩ := prepareNext_spec (fuelOf ⟨fs, 0, 0, 0⟩) ⟨fs, 0, 0, 0⟩ (fuel_ok _)
  obtain ⟨_, hr⟩ := h3 (inv_init fs)
  refine ⟨s', ?_, h2, by rw [hr, rem_init]⟩
  simp only [recordIter, h1]

theorem recordsAll_spec (fs : Fetches) (lim : Nat) :
    recordsAll fs lim = .ok (if lim = 0 then flatten fs else (flatten fs).take lim) := by
  obtain ⟨s, h1, h2, h3⟩ := recordIter_spec fs
  simp only [recordsAll, h1]
  rw [drain_spec _ lim s h2 (by rw [h3]; simp [loopFuel]), h3]

/-! #### partition-wise accessors -/

theorem eachPartition_cons (f : Fetch) (fs : Fetches) :
    eachPartition (f :: fs) = tparts f ++ eachPartition fs := by
  simp only [eachPartition, List.flatMap_cons]
  congr 1
  induction f with
  | nil => rfl
  | cons t ts ih => simp only [List.flatMap_cons, tparts, ih]

theorem eachPartition_eq (fs : Fetches) : eachPartition fs = inputParts fs := by
  induction fs with
  | nil => rfl
  | cons f fs ih => rw [eachPartition_cons, ih]; rfl

theorem foldl_len (l : List (String × Part)) (a : Nat) :
    l.foldl (fun n p => n + p.2.recs.length) a = a + (l.flatMap (·.2.recs)).length := by
  induction l generalizing a with
  | nil => simp
  | cons x xs ih => simp only [List.foldl_cons, ih, List.flatMap_cons, List.length_append]; omega

theorem foldl_app (l : List (String × Part)) (acc : List Int) :
    l.foldl (fun rs p => rs ++ p.2.recs) acc = acc ++ l.flatMap (·.2.recs) := by
  induction l generalizing acc with
  | nil => simp
  | cons x xs ih => simp only [List.foldl_cons, ih, List.flatMap_cons, List.append_assoc]

theorem tparts_recs (f : List Topic) : (tparts f).flatMap (·.2.recs) = frecs f := by
  induction f with
  | nil => rfl
  | cons t ts ih =>
    simp only [tparts, List.flatMap_append, ih, frecs, List.flatMap_cons, trecs]
    congr 1
    induction t.parts with
    | nil => rfl
    | cons p ps ih2 => simp only [List.map_cons, List.flatMap_cons, ih2, precs]

theorem inputParts_recs (fs : Fetches) : (inputParts fs).flatMap (·.2.recs) = flatten fs := by
  induction fs with
  | nil => rfl
  | cons f fs ih => simp only [inputParts, List.flatMap_append, ih, tparts_recs, flatten, List.flatMap_cons]

theorem records_eq (fs : Fetches) : records fs = flatten fs := by
  unfold records
  rw [foldl_app, eachPartition_eq, inputParts_recs, List.nil_append]

theorem numRecords_eq (fs : Fetches) : numRecords fs = (flatten fs).length := by
  simp [numRecords, foldl_len, eachPartition_eq, inputParts_recs]

theorem empty_iff (fs : Fetches) : empty fs = true ↔ flatten fs = [] := by
  simp only [empty, flatten, frecs, trecs, precs, List.all_eq_true, List.flatMap_eq_nil_iff,
    Bool.not_eq_true', decide_eq_false_iff_not, Nat.not_lt, Nat.le_zero, List.length_eq_zero_iff]

theorem empty_eq (fs : Fetches) : empty fs = (numRecords fs == 0) := by
  rw [numRecords_eq]
  have := empty_iff fs
  cases h : empty fs
  · have : ¬ flatten fs = [] := fun h2 => by rw [this.mpr h2] at h; cases h
    cases hf : flatten fs with
    | nil => exact absurd hf this
    | cons a b => simp
  · rw [this.mp h]; rfl

theorem eachError_eq (fs : Fetches) : eachError fs = errParts fs := by
  induction fs with
  | nil => rfl
  | cons f fs ih =>
    have ih' : (fs.flatMap fun f => f.flatMap fun t => t.parts.filterMap fun p =>
        if p.err ≠ 0 then some (t.name, p.num, p.err) else none) = errParts fs := ih
    simp only [eachError, errParts, inputParts, List.flatMap_cons, List.filterMap_append]
    rw [ih']
    simp only [errParts]
    congr 1
    induction f with
    | nil => rfl
    | cons t ts iht =>
      simp only [List.flatMap_cons, tparts, List.filterMap_append, iht]
      congr 1
      induction t.parts with
      | nil => rfl
      | cons p ps ihp =>
        simp only [List.filterMap_cons, List.map_cons, ihp]
        by_cases he : p.err = 0 <;> simp [he]

theorem foldl_snoc {α : Type} (l acc : List α) : l.foldl (fun a e => a ++ [e]) acc = acc ++ l := by
  induction l generalizing acc with
  | nil => simp
  | cons x xs ih => simp [ih]

theorem errors_eq (fs : Fetches) : errors fs = errParts fs := by
  unfold errors
  rw [foldl_snoc, eachError_eq, List.nil_append]

/-! #### EachTopic -/

def lookP (m : List (String × List Part)) (k : String) : Option (List Part) :=
  match m with
  | [] => none
  | (k', v) :: m' => if k' = k then some v else lookP m' k

theorem upsert_look (m : List (String × List Part)) (k : String) (ps : List Part) (n : String) :
    lookP (upsert m k ps) n = if n = k then some ((lookP m k).getD [] ++ ps) else lookP m n := by
  induction m with
  | nil =>
    by_cases h : n = k
    · subst h; simp [upsert, lookP]
    · have : ¬ k = n := fun e => h e.symm
      simp [upsert, lookP, h, this]
  | cons kv m' ih =>
    obtain ⟨k', v⟩ := kv
    by_cases hk : k' = k
    · subst hk
      by_cases h : n = k'
      · subst h; simp [upsert, lookP]
      · have : ¬ k' = n := fun e => h e.symm
        simp [upsert, lookP, h, this]
    · by_cases h : n = k
      · subst h
        simp [upsert, lookP, hk, ih]
      · simp only [upsert, hk, if_false, lookP, ih, h]

theorem look_isSome (m : List (String × List Part)) (n : String) :
    (lookP m n).isSome = true ↔ n ∈ m.map (·.1) := by
  induction m with
  | nil => simp [lookP]
  | cons kv m' ih =>
    obtain ⟨k', v⟩ := kv
    by_cases h : k' = n
    · simp [lookP, h]
    · have : ¬ n = k' := fun e => h e.symm
      simp [lookP, h, ih, this]

theorem partsOf_cons (n : String) (t : Topic) (ts : List Topic) :
    partsOf n (t :: ts) = if t.name = n then t.parts ++ partsOf n ts else partsOf n ts := by
  by_cases h : t.name = n <;> simp [partsOf, List.filter_cons, h]

theorem partsOf_absent (n : String) (ts : List Topic) (h : n ∉ ts.map (·.name)) : partsOf n ts = [] := by
  induction ts with
  | nil => rfl
  | cons t ts ih =>
    simp only [List.map_cons, List.mem_cons, not_or] at h
    have : ¬ t.name = n := fun e => h.1 e.symm
    rw [partsOf_cons, if_neg this]; exact ih h.2

theorem mergeParts_cons (t : Topic) (ts : List Topic) (m : List (String × List Part)) :
    mergeParts (t :: ts) m = mergeParts ts (upsert m t.name t.parts) := rfl

theorem mergeParts_look (ts : List Topic) (m : List (String × List Part)) (n : String) :
    lookP (mergeParts ts m) n =
      if n ∈ ts.map (·.name) then some ((lookP m n).getD [] ++ partsOf n ts) else lookP m n := by
  induction ts generalizing m with
  | nil => simp [mergeParts]
  | cons t ts ih =>
    rw [mergeParts_cons, ih, upsert_look, partsOf_cons]
    by_cases hn : n = t.name
    · subst hn
      by_cases hm : t.name ∈ ts.map (·.name)
      · simp [hm, List.append_assoc]
      · simp [hm, partsOf_absent _ _ hm]
    · have hn' : ¬ t.name = n := fun e => hn e.symm
      simp only [hn, if_false, hn', List.map_cons, List.mem_cons, false_or]

theorem upsert_keys (m : List (String × List Part)) (k : String) (ps : List Part) :
    (upsert m k ps).map (·.1) = if k ∈ m.map (·.1) then m.map (·.1) else m.map (·.1) ++ [k] := by
  induction m with
  | nil => simp [upsert]
  | cons kv m' ih =>
    obtain ⟨k', v⟩ := kv
    by_cases hk : k' = k
    · simp [upsert, hk]
    · have : ¬ k = k' := fun e => hk e.symm
      simp only [upsert, hk, if_false, List.map_cons, ih, List.mem_cons, this, false_or]
      split <;> simp

theorem upsert_nodup (m : List (String × List Part)) (k : String) (ps : List Part)
    (h : (m.map (·.1)).Nodup) : ((upsert m k ps).map (·.1)).Nodup := by
  rw [upsert_keys]
  split
  · exact h
  · rename_i hk
    rw [List.nodup_append]
    refine ⟨h, by simp, ?_⟩
    intro a ha b hb
    simp at hb; subst hb
    intro e; subst e; exact hk ha

theorem mergeParts_nodup (ts : List Topic) (m : List (String × List Part))
    (h : (m.map (·.1)).Nodup) : ((mergeParts ts m).map (·.1)).Nodup := by
  induction ts generalizing m with
  | nil => exact h
  | cons t ts ih => rw [mergeParts_cons]; exact ih _ (upsert_nodup m _ _ h)

/-- the `FetchTopic{topic, ids[topic], partitions}` literal -/
def mkT (g : String → Nat) (kv : String × List Part) : Topic := ⟨kv.1, g kv.1, kv.2⟩

theorem partsOf_map (g : String → Nat) (M : List (String × List Part)) (n : String)
    (hnd : (M.map (·.1)).Nodup) : partsOf n (M.map (mkT g)) = (lookP M n).getD [] := by
  induction M with
  | nil => rfl
  | cons kv M' ih =>
    obtain ⟨k, v⟩ := kv
    simp only [List.map_cons, List.nodup_cons] at hnd
    rw [List.map_cons, partsOf_cons]
    by_cases hk : k = n
    · subst hk
      have : partsOf k (M'.map (mkT g)) = [] := by
        apply partsOf_absent
        simpa [mkT] using hnd.1
      simp [mkT, lookP, this]
    · simp [mkT, lookP, hk, ih hnd.2]

theorem allTopics_cons (f : Fetch) (fs : Fetches) : allTopics (f :: fs) = f ++ allTopics fs := by
  simp [allTopics]

theorem eachTopic_multi (f1 f2 : Fetch) (rest : Fetches) :
    eachTopic (f1 :: f2 :: rest) =
      (mergeParts (allTopics (f1 :: f2 :: rest)) []).map
        (mkT (lookupId (mergeIds (allTopics (f1 :: f2 :: rest)) []))) := rfl

theorem eachTopic_names (f1 f2 : Fetch) (rest : Fetches) :
    (eachTopic (f1 :: f2 :: rest)).map (·.name) = (mergeParts (allTopics (f1 :: f2 :: rest)) []).map (·.1) := by
  rw [eachTopic_multi]; simp [mkT]

/-- under every topic name, `EachTopic` reports exactly the input's partitions of that name, in order -/
theorem eachTopic_parts (fs : Fetches) (n : String) :
    partsOf n (eachTopic fs) = partsOf n (allTopics fs) := by
  match fs with
  | [] => rfl
  | [f] => simp [eachTopic, allTopics]
  | f1 :: f2 :: rest =>
    rw [eachTopic_multi, partsOf_map _ _ _ (mergeParts_nodup _ [] (by simp)), mergeParts_look]
    split
    · simp [lookP]
    · rename_i h; simp [lookP, partsOf_absent _ _ h]

theorem name_mem_merge (ts : List Topic) (n : String) :
    n ∈ (mergeParts ts []).map (·.1) ↔ n ∈ ts.map (·.name) := by
  rw [← look_isSome, mergeParts_look]
  split
  · rename_i h; simp [h]
  · rename_i h; simp [lookP, h]

theorem setId_lookup (m : List (String × Nat)) (k : String) (id : Nat) (n : String) :
    lookupId (setId m k id) n = if n = k then id else lookupId m n := by
  induction m with
  | nil =>
    by_cases h : n = k
    · subst h; simp [setId, lookupId]
    · have : ¬ k = n := fun e => h e.symm
      simp [setId, lookupId, h, this]
  | cons kv m' ih =>
    obtain ⟨k', v⟩ := kv
    by_cases hk : k' = k
    · subst hk
      by_cases h : n = k'
      · subst h; simp [setId, lookupId]
      · have : ¬ k' = n := fun e => h e.symm
        simp [setId, lookupId, h, this]
    · by_cases h : n = k
      · subst h; simp [setId, lookupId, hk, ih]
      · simp only [setId, hk, if_false, lookupId, ih, h]

theorem cands_cons (t : Topic) (ts : List Topic) (n : String) :
    cands (t :: ts) n = (if t.name = n ∧ t.id ≠ 0 then [t.id] else []) ++ cands ts n := by
  by_cases h1 : t.name = n <;> by_cases h2 : t.id = 0 <;> simp [cands, List.filter_cons, h1, h2]

theorem mergeIds_cons (t : Topic) (ts : List Topic) (m : List (String × Nat)) :
    mergeIds (t :: ts) m = mergeIds ts (if t.id ≠ 0 then setId m t.name t.id else m) := rfl

theorem mergeIds_lookup (ts : List Topic) (m : List (String × Nat)) (n : String) :
    (cands ts n = [] → lookupId (mergeIds ts m) n = lookupId m n) ∧
    (cands ts n ≠ [] → lookupId (mergeIds ts m) n ∈ cands ts n) := by
  induction ts generalizing m with
  | nil => simp [mergeIds, cands]
  | cons t ts ih =>
    rw [mergeIds_cons, cands_cons]
    obtain ⟨ih1, ih2⟩ := ih (if t.id ≠ 0 then setId m t.name t.id else m)
    by_cases hc : t.name = n ∧ t.id ≠ 0
    · obtain ⟨hn, hid⟩ := hc
      simp only [hn, hid, ne_eq, not_false_eq_true, and_self, if_true, List.cons_append, List.nil_append,
        reduceCtorEq, false_implies, true_and, forall_const, List.mem_cons] at ih1 ih2 ⊢
      by_cases hcs : cands ts n = []
      · left; rw [ih1 hcs, ← hn, setId_lookup]; simp
      · right; exact ih2 hcs
    · simp only [hc, if_false, List.nil_append]
      have hsame : lookupId (if t.id ≠ 0 then setId m t.name t.id else m) n = lookupId m n := by
        by_cases hid : t.id = 0
        · simp [hid]
        · have hn : ¬ n = t.name := fun e => hc ⟨e.symm, hid⟩
          simp [hid, setId_lookup, hn]
      exact ⟨fun h => by rw [ih1 h, hsame], ih2⟩

theorem nodupB_iff (l : List String) : nodupB l = true ↔ l.Nodup := by
  induction l with
  | nil => simp [nodupB]
  | cons x xs ih => simp [nodupB, ih, List.nodup_cons]

theorem tparts_append (a b : List Topic) : tparts (a ++ b) = tparts a ++ tparts b := by
  induction a with
  | nil => rfl
  | cons t ts ih => simp [tparts, ih]

theorem count_tparts (n : String) (p : Part) (ts : List Topic) :
    (tparts ts).count (n, p) = (partsOf n ts).count p := by
  induction ts with
  | nil => rfl
  | cons t ts ih =>
    rw [tparts, List.count_append, ih, partsOf_cons]
    have hm : (t.parts.map fun q => (t.name, q)).count (n, p) = if t.name = n then t.parts.count p else 0 := by
      induction t.parts with
      | nil => simp
      | cons q qs ihq =>
        simp only [List.map_cons, List.count_cons, ihq]
        by_cases h : t.name = n
        · subst h; simp
        · simp [h]
    rw [hm]
    split
    · rw [List.count_append]
    · simp

end Proof.C38
