import FranzVerif.Proof.C31Gate
/-! C31 — the gate never deadlocks under the client contract (invariants `wf` and `J`). -/
namespace Model.C31.Gate

def hasA (p : List Op) : Bool := p.any (· == .A)

/-- A polling thread's program: only `P`, `Q`, `A`, and every `P` is followed later by an `A`. -/
def okP : List Op → Bool
  | [] => true
  | .P :: r => hasA r && okP r
  | .R :: _ => false
  | _ :: r => okP r

/-- A rebalancing thread's program: only `R`. -/
def allR (p : List Op) : Bool := p.all (· == .R)

/-- The client contract: every thread either polls/allows (and allows after its last kept poll) or rebalances. -/
def Contract (progs : List (List Op)) : Prop := ∀ p ∈ progs, okP p = true ∨ allR p = true

def wfT (t : Th) : Bool := match t.pc with
  | .pLock q | .pPark q | .pWait q | .pWake q | .pUnlock q => okP t.prog && (q || hasA t.prog)
  | .uLock _ | .uUnlock _ | .aLock | .aUnlock => okP t.prog
  | .rLock | .rPark _ | .rWait _ | .rWake _ | .rUnlock | .xLock | .xUnlock => allR t.prog
  | .done => true

def bad (t : Th) : Nat := if wfT t then 0 else 1

/-- not parked, and an `AllowRebalance` is still ahead of it -/
def witness (t : Th) : Nat := match t.pc with
  | .pLock _ | .pUnlock _ | .uLock _ | .uUnlock _ | .aUnlock => if hasA t.prog then 1 else 0
  | .aLock => 1
  | _ => 0

/-- in its fill: its own count is still to be released by its `unaddPoller` -/
def qcov (t : Th) : Nat := match t.pc with | .pUnlock true | .uLock _ => 1 | _ => 0

/-- neither finished nor parked un-notified -/
def other (t : Th) : Nat := match t.pc with | .done | .pWait _ | .rWait _ => 0 | _ => 1

structure DInv (s : St Sh Th) : Prop where
  wf : cnt bad s.ths = 0
  J : s.sh.pollers > 0 → cnt witness s.ths > 0 ∨ s.sh.pollers ≤ cnt qcov s.ths

theorem start_okP (p : List Op) (h : okP p = true) :
    wfT (start p) = true ∧ witness (start p) = (if hasA p then 1 else 0) ∧ qcov (start p) = 0 := by
  match p with
  | [] => simp [start, wfT, witness, qcov, hasA]
  | .P :: r => simp [okP] at h; simp [start, wfT, witness, qcov, hasA, h] at *; exact h
  | .Q :: r => simp [okP] at h; simp [start, wfT, witness, qcov, hasA, h]
  | .A :: r => simp [okP] at h; simp [start, wfT, witness, qcov, hasA, h]
  | .R :: r => simp [okP] at h

theorem start_allR (p : List Op) (h : allR p = true) :
    wfT (start p) = true ∧ witness (start p) = 0 ∧ qcov (start p) = 0 := by
  match p with
  | [] => simp [start, wfT, witness, qcov]
  | .R :: r => simp [allR] at h; simp [start, wfT, witness, qcov, allR]; exact h
  | .P :: r => simp [allR] at h
  | .Q :: r => simp [allR] at h
  | .A :: r => simp [allR] at h

theorem bad_wake (t : Th) : bad (wake t) = bad t := by
  obtain ⟨pc, p⟩ := t; cases pc <;> rfl
theorem witness_wake (t : Th) : witness (wake t) = witness t := by
  obtain ⟨pc, p⟩ := t; cases pc <;> rfl
theorem qcov_wake (t : Th) : qcov (wake t) = qcov t := by
  obtain ⟨pc, p⟩ := t; cases pc <;> rfl

theorem init_dinv (progs : List (List Op)) (hc : Contract progs) : DInv (init progs) := by
  constructor
  · simp only [init]; rw [cnt_map]
    induction progs with
    | nil => rfl
    | cons p l ih =>
      simp only [cnt]
      rw [ih (fun q hq => hc q (by simp [hq]))]
      rcases hc p (by simp) with h | h
      · simp [bad, (start_okP p h).1]
      · simp [bad, (start_allR p h).1]
  · intro h; simp [init] at h

theorem start_wf (p : List Op) (h : okP p = true ∨ allR p = true) :
    bad (start p) = 0 ∧ qcov (start p) = 0 ∧ (okP p = true → witness (start p) = (if hasA p then 1 else 0)) ∧
      (allR p = true → witness (start p) = 0) := by
  refine ⟨?_, ?_, fun h' => (start_okP p h').2.1, fun h' => (start_allR p h').2.1⟩
  · rcases h with h | h
    · simp [bad, (start_okP p h).1]
    · simp [bad, (start_allR p h).1]
  · rcases h with h | h
    · exact (start_okP p h).2.2
    · exact (start_allR p h).2.2

set_option maxHeartbeats 2000000 in
theorem dinv_step (sh : Sh) (pre post : List Th) (t : Th) (sh' : Sh) (t' : Th) (b : Bool) (ev : String)
    (hI : DInv ⟨sh, pre ++ t :: post⟩) (hs : stepT sh t = some (sh', t', b, ev)) :
    DInv ⟨sh', sys.wakeAll b pre ++ t' :: sys.wakeAll b post⟩ := by
  obtain ⟨h1, h2⟩ := hI
  simp only [cnt_append, cnt_cons] at h1 h2
  have eb := fun l => sys.cnt_wakeAll_eq (f := bad) (fun t => bad_wake t) b l
  have ew := fun l => sys.cnt_wakeAll_eq (f := witness) (fun t => witness_wake t) b l
  have eq := fun l => sys.cnt_wakeAll_eq (f := qcov) (fun t => qcov_wake t) b l
  obtain ⟨pc, prog⟩ := t
  have hwf : wfT ⟨pc, prog⟩ = true := by
    have : bad ⟨pc, prog⟩ = 0 := by omega
    simp only [bad] at this; split at this
    · assumption
    · omega
  obtain ⟨mu, pollers, rebal, corrupt, out, fill, viol, ep⟩ := sh
  cases hA : hasA prog <;> cases mu <;> cases pc <;> simp only [stepT, pollerEnter, pollerRewake, rebalLoop] at hs
  all_goals (repeat' (split at hs))
  all_goals (try (exact absurd trivial ‹¬True›))
  all_goals (try (simp at hs; done))
  all_goals (simp only [Option.some.injEq, Prod.mk.injEq] at hs; obtain ⟨rfl, rfl, hb, _⟩ := hs)
  all_goals (simp only [wfT, Bool.and_eq_true, Bool.or_eq_true, hA] at hwf)
  all_goals (have hor : okP prog = true ∨ allR prog = true := by first | exact Or.inl hwf.1 | exact Or.inl hwf | exact Or.inr hwf)
  all_goals (obtain ⟨s1, s2, s3, s4⟩ := start_wf prog hor)
  all_goals (first | (have s5 := s3 hwf.1) | (have s5 := s3 hwf) | (have s5 := s4 hwf))
  all_goals (constructor <;> simp only [cnt_append, cnt_cons, eb, ew, eq, s1, s2, s5])
  all_goals (simp [bad, wfT, witness, qcov, hA] at h1 h2 hwf ⊢)
  all_goals (try simp_all)
  all_goals (first | omega | skip)

theorem reach_dinv {progs : List (List Op)} (hc : Contract progs) {s : St Sh Th}
    (hr : sys.Reach (init progs) s) : DInv s :=
  Sys.inv_of_local sys (init_dinv progs hc) dinv_step hr

theorem witness_le_other (t : Th) : witness t ≤ other t := by
  obtain ⟨pc, p⟩ := t; cases pc <;> simp [witness, other] <;> split <;> omega
theorem qcov_le_other (t : Th) : qcov t ≤ other t := by
  obtain ⟨pc, p⟩ := t; cases pc <;> simp [qcov, other]
  rename_i q; cases q <;> simp
theorem rcount_le (t : Th) : rcount t ≤ rwp t + other t := by
  obtain ⟨pc, p⟩ := t; cases pc <;> simp [rcount, rwp, other]
theorem pwp_le (t : Th) : pwp t ≤ (if t.pc = .done then 0 else 1) := by
  obtain ⟨pc, p⟩ := t; cases pc <;> simp [pwp]

/-- Deadlock freedom under the contract: unless every thread has finished, some thread can act. -/
theorem deadlock_free {progs : List (List Op)} (hc : Contract progs) {s : St Sh Th}
    (hr : sys.Reach (init progs) s) (hnd : sys.allDone s = false) : ∃ i, (sys.step s i).isSome := by
  obtain ⟨gmu, greb, _, _, gpw, grw⟩ := reach_inv hr
  obtain ⟨_, dJ⟩ := reach_dinv hc hr
  by_cases hmu : s.sh.mu = true
  · -- the holder of the mutex is at an always-enabled action
    have : 0 < cnt hold s.ths := by simp [muN, hmu] at gmu; omega
    obtain ⟨t, hm, hh⟩ := cnt_pos this
    refine sys.step_of_mem hm ?_
    obtain ⟨pc, prog⟩ := t
    cases pc <;> simp [hold] at hh <;> simp [sys, stepT]
    rename_i q; cases q <;> simp
  · have hh0 : cnt hold s.ths = 0 := by simp [muN, hmu] at gmu; omega
    by_cases ho : 0 < cnt other s.ths
    · obtain ⟨t, hm, hh⟩ := cnt_pos ho
      have hnh : hold t = 0 := by
        rcases Nat.eq_zero_or_pos (hold t) with h | h
        · exact h
        · have := cnt_pos_of_mem hm h; omega
      refine sys.step_of_mem hm ?_
      obtain ⟨pc, prog⟩ := t
      cases pc <;> simp [other] at hh <;> simp [hold] at hnh <;> simp [sys, stepT, pollerEnter, pollerRewake, rebalLoop, hmu]
    · -- every unfinished thread is parked and un-notified: impossible
      exfalso
      have ho0 : cnt other s.ths = 0 := by omega
      have hw : cnt witness s.ths = 0 := by have := cnt_le witness_le_other s.ths; omega
      have hq : cnt qcov s.ths = 0 := by have := cnt_le qcov_le_other s.ths; omega
      have hrc : cnt rcount s.ths ≤ cnt rwp s.ths := by
        have := cnt_le rcount_le s.ths; rw [cnt_add] at this; omega
      simp only [Sys.allDone, List.all_eq_false] at hnd
      obtain ⟨t, hm, hnd⟩ := hnd
      have hpr : 0 < cnt pwp s.ths ∨ 0 < cnt rwp s.ths := by
        obtain ⟨pc, prog⟩ := t
        have hot : other ⟨pc, prog⟩ = 0 := by
          rcases Nat.eq_zero_or_pos (other ⟨pc, prog⟩) with h | h
          · exact h
          · have := cnt_pos_of_mem hm h; omega
        cases pc <;> simp [other] at hot <;> simp [sys] at hnd
        · left; exact cnt_pos_of_mem hm (by simp [pwp])
        · right; exact cnt_pos_of_mem hm (by simp [rwp])
      have hpol : s.sh.pollers > 0 := by
        rcases hpr with h | h
        · have := gpw h; exact grw (by omega)
        · exact grw h
      rcases dJ hpol with h | h <;> omega

end Model.C31.Gate
