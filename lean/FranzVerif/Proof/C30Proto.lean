import FranzVerif.Proof.C30Ring
namespace Proof.C30
open Model.C30

/-- `doPush(elem, wait)` from Lock or from the return of Wait: the three outcomes.
    Blocks exactly when `wait` and the loop condition (bounded, full, not dead) holds; a dead ring rejects and is
    unchanged; otherwise the element is appended and `first` is reported iff the queue was empty. Never panics. -/
theorem pushFrom_cases (r : Ring) (t e : Nat) (wait : Bool) (hwf : WF r) (hinit : r.maxLen > 0 → r.hasCond = true) :
    ((wait && r.needWait) = true ∧ r.dead = false ∧ (r.l : Int) ≥ r.maxLen ∧ r.hasCond = true ∧
        r.pushFrom t e wait = .ok ({ r with parked := r.parked ++ [t] }, .blocked)) ∨
    ((wait && r.needWait) = false ∧ r.dead = true ∧ r.pushFrom t e wait = .ok (r, .done false true)) ∨
    ((wait && r.needWait) = false ∧ r.dead = false ∧ ∃ r', r.pushFrom t e wait = .ok (r', .done (r.l == 0) false) ∧
        WF r' ∧ r'.abs = r.abs ++ [e] ∧ r'.l = r.l + 1 ∧ sameCtl r r') := by
  unfold Ring.pushFrom
  cases hw : (wait && r.needWait)
  · simp only [Bool.false_eq_true, if_false]
    cases hd : r.dead
    · right; right
      obtain ⟨r', h, hwf', ha, hl, hc⟩ := pushTail_spec r e hwf hd
      exact ⟨trivial, rfl, r', by rw [h]; rfl, hwf', ha, hl, hc⟩
    · right; left
      refine ⟨trivial, rfl, ?_⟩
      simp [Ring.pushTail, hd, Except.map]
  · left
    simp only [Bool.and_eq_true] at hw
    have hn := hw.2
    simp only [Ring.needWait, Bool.and_eq_true, decide_eq_true_eq, Bool.not_eq_true'] at hn
    have hc := hinit hn.1.1
    simp [hc, hn.2, hn.1.2]


/-- invariant of the blocking machinery -/
structure CondInv (r : Ring) : Prop where
  initOk : r.maxLen > 0 → r.hasCond = true
  noCond : r.hasCond = false → r.parked = []
  deadWakes : r.dead = true → r.parked = []
  noLost : r.parked ≠ [] → (r.l : Int) + r.woken.length ≥ r.maxLen

/-- invariant of the queue protocol -/
structure QInv (s : QS) : Prop where
  wf : WF s.r
  cond : CondInv s.r
  w : s.workers = if s.r.l = 0 then 0 else 1
  q : s.handed ++ s.r.abs.tail = s.accepted

theorem abs_nil_of_l0 (r : Ring) (h : r.l = 0) : r.abs = [] := by simp [Ring.abs, h]

theorem wf_len (r : Ring) (h : WF r) : r.l ≤ r.elems.length := by
  rcases h with ⟨_, h, _⟩ | ⟨_, _, h⟩ <;> omega

theorem abs_ne_nil (r : Ring) (hwf : WF r) (h : 0 < r.l) : ∃ a t, r.abs = a :: t := by
  have := abs_length r (wf_len r hwf)
  cases hq : r.abs with
  | nil => rw [hq] at this; simp at this; omega
  | cons a t => exact ⟨a, t, rfl⟩

theorem workers_set (s : QS) (i : Nat) (x : QLoc) (hi : i < s.pcs.length) :
    (s.pcs.set i x).countP (· == .drop) = (s.workers - if s.pcs[i] = .drop then 1 else 0) + if x = .drop then 1 else 0 := by
  rw [List.countP_set hi]; simp [QS.workers]

theorem push_inv (s : QS) (r0 : Ring) (i e : Nat) (wait : Bool) (res : Ring × PushRes)
    (hI : QInv s) (hi : i < s.pcs.length) (hloc : s.pcs[i] ≠ .drop)
    (h0abs : r0.abs = s.r.abs) (h0l : r0.l = s.r.l) (h0wf : WF r0)
    (h0i : r0.maxLen > 0 → r0.hasCond = true) (h0n : r0.hasCond = false → r0.parked = [])
    (h0d : r0.dead = true → r0.parked = [])
    (h0lost : r0.parked ≠ [] → (r0.l : Int) + r0.woken.length + 1 ≥ r0.maxLen)
    (hres : r0.pushFrom i e wait = .ok res) : QInv (s.afterPush i e res).1 := by
  obtain ⟨hwf, hcond, hw, hq⟩ := hI
  have hws := fun x => workers_set s i x hi
  rcases pushFrom_cases r0 i e wait h0wf h0i with ⟨_, hd, hfull, hc, h⟩ | ⟨_, hd, h⟩ | ⟨_, hd, r', h, hwf', ha, hl, hm, hcc, hdd, hpp, hww⟩
  · rw [h] at hres; cases hres
    simp only [QS.afterPush]
    refine ⟨by simpa [WF] using h0wf, ⟨h0i, ?_, ?_, ?_⟩, ?_, ?_⟩
    · intro h; simp [hc] at h
    · intro h; simp [hd] at h
    · intro _; simp only; omega
    · show List.countP (· == QLoc.drop) (s.pcs.set i (.waiting e)) = _
      rw [hws, if_neg hloc, hw]; simp [h0l]
    · have : ({ r0 with parked := r0.parked ++ [i] } : Ring).abs = r0.abs := abs_congr r0 _ rfl rfl rfl
      simp only; rw [this, h0abs]; exact hq
  · rw [h] at hres; cases hres
    simp only [QS.afterPush, if_true]
    refine ⟨h0wf, ⟨h0i, h0n, h0d, ?_⟩, ?_, ?_⟩
    · intro hp; exact absurd (h0d hd) hp
    · show List.countP (· == QLoc.drop) (s.pcs.set i .idle) = _
      rw [hws, if_neg hloc, hw]; simp [h0l]
    · simp only; rw [h0abs]; exact hq
  · rw [h] at hres; cases hres
    have hcond' : CondInv r' := by
      refine ⟨by rw [hm, hcc]; exact h0i, by rw [hcc, hpp]; exact h0n, by rw [hdd, hpp]; exact h0d, ?_⟩
      rw [hpp, hww, hl, hm]; intro hp; have := h0lost hp; omega
    simp only [QS.afterPush, Bool.false_eq_true, if_false]
    by_cases hfirst : r0.l = 0
    · have hb : (r0.l == 0) = true := by simp [hfirst]
      simp only [hb, if_true]
      refine ⟨hwf', hcond', ?_, ?_⟩
      · show List.countP (· == QLoc.drop) (s.pcs.set i .drop) = _
        rw [h0l] at hfirst; rw [if_pos hfirst] at hw
        rw [hws, if_neg hloc, hw]; simp [hl]
      · simp only; rw [ha, h0abs, abs_nil_of_l0 s.r (by omega)]
        have := hq; rw [abs_nil_of_l0 s.r (by omega)] at this
        simp at this ⊢; exact this
    · have hb : (r0.l == 0) = false := by simp [hfirst]
      simp only [hb, Bool.false_eq_true, if_false]
      refine ⟨hwf', hcond', ?_, ?_⟩
      · show List.countP (· == QLoc.drop) (s.pcs.set i .idle) = _
        rw [h0l] at hfirst; rw [if_neg hfirst] at hw
        rw [hws, if_neg hloc, hw]; simp [hl]
      · simp only; rw [ha, h0abs]
        obtain ⟨a, t, hat⟩ := abs_ne_nil s.r hwf (by omega)
        rw [hat] at hq ⊢; simp at hq ⊢; rw [← hq]; simp

theorem getElem_of_getElem? {α} {l : List α} {i : Nat} {x : α} (h : l[i]? = some x) : ∃ hi : i < l.length, l[i] = x := by
  rcases Nat.lt_or_ge i l.length with hi | hi
  · refine ⟨hi, ?_⟩
    rw [List.getElem?_eq_getElem hi] at h; exact Option.some.inj h
  · simp [List.getElem?_eq_none hi] at h

theorem afterSignal_cond (r : Ring) (k : Nat) (hc : CondInv r) :
    ((afterSignal r k).parked = [] ∨ (afterSignal r k).parked ≠ [] ∧ r.parked ≠ [] ∧ r.hasCond = true ∧
        (afterSignal r k).woken.length = r.woken.length + 1) ∧
    (r.parked = [] → (afterSignal r k).parked = []) := by
  unfold afterSignal
  cases hcnd : r.hasCond
  · simp [hc.noCond hcnd]
  · simp only [if_true]
    unfold Ring.signal
    split
    · rename_i h; have : r.parked = [] := List.eq_nil_of_length_eq_zero h
      simp [this]
    · rename_i h
      constructor
      · by_cases hp : (r.parked.eraseIdx (k % r.parked.length)) = []
        · left; exact hp
        · right; refine ⟨hp, ?_, trivial, ?_⟩
          · intro h0; simp [h0] at h
          · simp
      · intro h0; simp [h0] at h

theorem die_inv (r : Ring) (hwf : WF r) (hc : CondInv r) :
    WF r.die ∧ CondInv r.die ∧ r.die.l = r.l ∧ r.die.abs = r.abs ∧ r.die.dead = true ∧ r.die.parked = [] := by
  cases hcnd : r.hasCond
  · have hp := hc.noCond hcnd
    have : r.die = { r with dead := true } := by simp [Ring.die, hcnd]
    rw [this]
    refine ⟨by simpa [WF] using hwf, ⟨hc.initOk, fun _ => hp, fun _ => hp, fun h => absurd hp h⟩, rfl, abs_congr r _ rfl rfl rfl, rfl, hp⟩
  · have : r.die = { r with dead := true, parked := [], woken := r.woken ++ r.parked } := by
      simp [Ring.die, hcnd, Ring.broadcast]
    rw [this]
    refine ⟨by simpa [WF] using hwf, ⟨hc.initOk, fun _ => rfl, fun _ => rfl, fun h => absurd rfl h⟩, rfl, abs_congr r _ rfl rfl rfl, rfl, rfl⟩

theorem qinv_step (s s' : QS) (i : Nat) (a : QAct) (ev : QEv) (hI : QInv s)
    (hs : s.step i a = .ok (some (s', ev))) : QInv s' := by
  unfold QS.step at hs
  cases hl : s.pcs[i]? with
  | none => simp [hl] at hs
  | some loc =>
    obtain ⟨hi, hli⟩ := getElem_of_getElem? hl
    cases loc with
    | idle =>
      cases a with
      | push e wait =>
        simp only [hl] at hs
        cases hp : s.r.pushFrom i e wait with
        | error m => simp [hp, Except.map] at hs
        | ok res =>
          simp only [hp, Except.map] at hs
          injection hs with hs; injection hs with hs
          have : s' = (s.afterPush i e res).1 := by rw [hs]
          rw [this]
          exact push_inv s s.r i e wait res hI hi (by rw [hli]; simp) rfl rfl hI.wf hI.cond.initOk hI.cond.noCond
            hI.cond.deadWakes (fun h => by have := hI.cond.noLost h; omega) hp
      | die =>
        simp only [hl] at hs
        cases hs
        obtain ⟨hwf, hc, hw, hq⟩ := hI
        obtain ⟨h1, h2, h3, h4, _, _⟩ := die_inv s.r hwf hc
        refine ⟨h1, h2, ?_, ?_⟩
        · show s.workers = _; rw [h3]; exact hw
        · show s.handed ++ s.r.die.abs.tail = s.accepted
          rw [h4]; exact hq
      | empty => simp only [hl] at hs; cases hs; exact hI
      | resume => simp [hl] at hs
      | dropPeek k => simp [hl] at hs
    | waiting e =>
      cases a with
      | resume =>
        simp only [hl] at hs
        by_cases hm : i ∈ s.r.woken
        · simp only [hm, if_true] at hs
          cases hp : ({ s.r with woken := s.r.woken.erase i } : Ring).pushFrom i e true with
          | error m => simp [hp, Except.map] at hs
          | ok res =>
            simp only [hp, Except.map] at hs
            injection hs with hs; injection hs with hs
            have : s' = (s.afterPush i e res).1 := by rw [hs]
            rw [this]
            refine push_inv s ({ s.r with woken := s.r.woken.erase i }) i e true res hI hi (by rw [hli]; simp) (abs_congr s.r _ rfl rfl rfl) rfl
              (by simpa [WF] using hI.wf) hI.cond.initOk hI.cond.noCond hI.cond.deadWakes ?_ hp
            intro h
            have h1 := hI.cond.noLost h
            have h2 := List.length_erase_of_mem hm
            have h3 : 0 < s.r.woken.length := List.length_pos_of_mem hm
            show (s.r.l : Int) + ((s.r.woken.erase i).length : Nat) + 1 ≥ s.r.maxLen
            rw [h2]; omega
        · simp [hm] at hs
      | push _ _ => simp [hl] at hs
      | die => simp [hl] at hs
      | empty => simp [hl] at hs
      | dropPeek k => simp [hl] at hs
    | drop =>
      cases a with
      | dropPeek k =>
        simp only [hl] at hs
        obtain ⟨hwf, hc, hw, hq⟩ := hI
        have hwpos : s.workers > 0 := by
          unfold QS.workers
          exact List.countP_pos_iff.mpr ⟨s.pcs[i], List.getElem_mem hi, by rw [hli]; simp⟩
        have hlpos : 0 < s.r.l := by
          rcases Nat.eq_zero_or_pos s.r.l with h | h
          · rw [if_pos h] at hw; omega
          · exact h
        rw [if_neg (by omega)] at hw
        obtain ⟨r', hd, hwf', ha, hl', hm', hc', hdd, hpp, hww⟩ := dropPeek_spec s.r k hwf hlpos
        rw [hd] at hs
        simp only [Except.map] at hs
        obtain ⟨hsig, hsig0⟩ := afterSignal_cond s.r k hc
        have hcond' : CondInv r' := by
          refine ⟨by rw [hm', hc']; exact hc.initOk, ?_, ?_, ?_⟩
          · rw [hc', hpp]; intro h; exact hsig0 (hc.noCond h)
          · rw [hdd, hpp]; intro h; exact hsig0 (hc.deadWakes h)
          · rw [hpp, hww, hl', hm']; intro hp
            rcases hsig with h | ⟨_, hp0, _, hlen⟩
            · exact absurd h hp
            · have := hc.noLost hp0; rw [hlen]; omega
        by_cases hmore : 0 < r'.l
        · simp only [hmore, decide_true, if_true] at hs
          cases hs
          refine ⟨hwf', hcond', ?_, ?_⟩
          · have hne : ¬ r'.l = 0 := by omega
            show s.workers = _; rw [hw, if_neg hne]
          · show s.handed ++ [r'.abs.headD 0] ++ r'.abs.tail = s.accepted
            obtain ⟨a, t, hat⟩ := abs_ne_nil r' hwf' hmore
            rw [← hq, ← ha, hat]; simp
        · simp only [hmore, decide_false, Bool.false_eq_true, if_false] at hs
          cases hs
          refine ⟨hwf', hcond', ?_, ?_⟩
          · show List.countP (· == QLoc.drop) (s.pcs.set i .idle) = _
            have hz : r'.l = 0 := by omega
            rw [workers_set s i .idle hi, hw, hli, if_pos hz]; simp
          · show s.handed ++ r'.abs.tail = s.accepted
            have hz : r'.l = 0 := by omega
            rw [← hq, ← ha, abs_nil_of_l0 r' hz]; rfl
      | push _ _ => simp [hl] at hs
      | die => simp [hl] at hs
      | empty => simp [hl] at hs
      | resume => simp [hl] at hs

/-- the Go code never panics in a state satisfying the invariant -/
theorem qstep_no_panic (s : QS) (i : Nat) (a : QAct) (hI : QInv s) : ∃ o, s.step i a = .ok o := by
  unfold QS.step
  cases hl : s.pcs[i]? with
  | none => exact ⟨none, by simp⟩
  | some loc =>
    obtain ⟨hi, hli⟩ := getElem_of_getElem? hl
    cases loc with
    | idle =>
      cases a with
      | push e wait =>
        simp only
        rcases pushFrom_cases s.r i e wait hI.wf hI.cond.initOk with ⟨_, _, _, _, h⟩ | ⟨_, _, h⟩ | ⟨_, _, r', h, _⟩ <;>
          (rw [h]; exact ⟨_, rfl⟩)
      | die => exact ⟨_, rfl⟩
      | empty => exact ⟨_, rfl⟩
      | resume => exact ⟨none, rfl⟩
      | dropPeek k => exact ⟨none, rfl⟩
    | waiting e =>
      cases a with
      | resume =>
        simp only
        by_cases hm : i ∈ s.r.woken
        · simp only [hm, if_true]
          rcases pushFrom_cases ({ s.r with woken := s.r.woken.erase i }) i e true (by simpa [WF] using hI.wf) hI.cond.initOk
            with ⟨_, _, _, _, h⟩ | ⟨_, _, h⟩ | ⟨_, _, r', h, _⟩ <;> (rw [h]; exact ⟨_, rfl⟩)
        · simp only [hm, if_false]; exact ⟨none, rfl⟩
      | push _ _ => exact ⟨none, rfl⟩
      | die => exact ⟨none, rfl⟩
      | empty => exact ⟨none, rfl⟩
      | dropPeek k => exact ⟨none, rfl⟩
    | drop =>
      cases a with
      | dropPeek k =>
        simp only
        have hwpos : s.workers > 0 := by
          unfold QS.workers
          exact List.countP_pos_iff.mpr ⟨s.pcs[i], List.getElem_mem hi, by rw [hli]; simp⟩
        have hlpos : 0 < s.r.l := by
          rcases Nat.eq_zero_or_pos s.r.l with h | h
          · have := hI.w; rw [if_pos h] at this; omega
          · exact h
        obtain ⟨r', hd, _⟩ := dropPeek_spec s.r k hI.wf hlpos
        rw [hd]; exact ⟨_, rfl⟩
      | push _ _ => exact ⟨none, rfl⟩
      | die => exact ⟨none, rfl⟩
      | empty => exact ⟨none, rfl⟩
      | resume => exact ⟨none, rfl⟩

/-- reachable states of the queue protocol from a fresh ring (zero value, or after `initMaxLen m`), `n` threads,
    any action sequence -/
inductive QReach (r0 : Ring) (n : Nat) : QS → Prop
  | init : QReach r0 n (QS.init r0 n)
  | step {s s' : QS} {ev : QEv} (i : Nat) (a : QAct) : QReach r0 n s → s.step i a = .ok (some (s', ev)) → QReach r0 n s'

theorem qreach_run {r0 : Ring} {n : Nat} {s s' : QS} (as : List (Nat × QAct)) (h : QReach r0 n s)
    (hr : s.run as = some s') : QReach r0 n s' := by
  induction as generalizing s with
  | nil => simp [QS.run] at hr; subst hr; exact h
  | cons a t ih =>
    obtain ⟨i, a⟩ := a
    simp only [QS.run] at hr
    cases hs : s.step i a with
    | error m => simp [hs] at hr
    | ok o =>
      cases o with
      | none => simp [hs] at hr
      | some p =>
        obtain ⟨s1, ev⟩ := p
        simp only [hs] at hr
        exact ih (QReach.step i a h hs) hr

def freshRing (r0 : Ring) : Prop := r0 = {} ∨ ∃ m, r0 = Ring.initMaxLen m

theorem qinv_init (r0 : Ring) (n : Nat) (h : freshRing r0) : QInv (QS.init r0 n) := by
  rcases h with h | ⟨m, h⟩ <;> subst h
  · refine ⟨Or.inl ⟨rfl, rfl, rfl⟩, ⟨by simp [QS.init], fun _ => rfl, fun _ => rfl, fun h => absurd rfl h⟩, ?_, rfl⟩
    simp [QS.init, QS.workers, List.countP_replicate]
  · refine ⟨Or.inl ⟨rfl, rfl, rfl⟩, ⟨fun _ => rfl, fun _ => rfl, fun _ => rfl, fun h => absurd rfl h⟩, ?_, rfl⟩
    simp [QS.init, QS.workers, List.countP_replicate, Ring.initMaxLen]

theorem qinv_reach {r0 : Ring} {n : Nat} {s : QS} (h0 : freshRing r0) (h : QReach r0 n s) : QInv s := by
  induction h with
  | init => exact qinv_init r0 n h0
  | step i a _ hs ih => exact qinv_step _ _ i a _ ih hs
end Proof.C30
