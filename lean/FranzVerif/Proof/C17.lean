import FranzVerif.Model.C17
import FranzVerif.Spec.C17
/-! C17 — helper lemmas (kernel-only: `BitVec.toNat` + `omega`). -/
namespace Proof.C17
open Model.C17
open Spec.C17 hiding Bytes

/-! ## Nat bridges -/
theorem and127 (x : Nat) : x &&& 127 = x % 128 := by
  have := @Nat.and_two_pow_sub_one_eq_mod x 7
  simpa using this

/-- disjoint-bits OR is addition -/
theorem or_shift (a b k : Nat) (ha : a < 2 ^ k) : a ||| (b <<< k) = a + b * 2 ^ k := by
  rw [Nat.or_comm, ← Nat.shiftLeft_add_eq_or_of_lt ha, Nat.shiftLeft_eq, Nat.add_comm]

theorem or128 (a : Nat) (ha : a < 128) : a ||| 128 = a + 128 := by
  have := or_shift a 1 7 (by simpa using ha)
  simpa using this

/-! ## byte-level facts -/
set_option maxRecDepth 10000 in
theorem fin_iff (b : Byte) : fin b = decide (b.toNat < 128) := by
  have h : ∀ n : Fin 256, fin (BitVec.ofFin n) = decide (n.val < 128) := by decide
  exact h b.toFin

theorem mask7_toNat (w : Nat) (hw : 8 ≤ w) (b : Byte) : ((b &&& 0x7f#8).setWidth w).toNat = b.toNat % 128 := by
  simp only [BitVec.toNat_setWidth, BitVec.toNat_and, BitVec.toNat_ofNat, Nat.reducePow, Nat.reduceMod, and127]
  have : (2:Nat)^8 ≤ 2^w := Nat.pow_le_pow_right (by decide) hw
  simp only [Nat.reducePow] at this
  exact Nat.mod_eq_of_lt (by omega)

theorem lo_toNat (w : Nat) (b : Byte) (k : Nat) (hk : k + 7 ≤ w) (hw : 8 ≤ w) :
    (((b &&& 0x7f#8).setWidth w) <<< k).toNat = (b.toNat % 128) * 2 ^ k := by
  rw [BitVec.toNat_shiftLeft, mask7_toNat w hw, Nat.shiftLeft_eq]
  apply Nat.mod_eq_of_lt
  have h1 : b.toNat % 128 < 2 ^ 7 := by simpa using Nat.mod_lt b.toNat (by decide : 128 > 0)
  calc b.toNat % 128 * 2 ^ k < 2 ^ 7 * 2 ^ k := Nat.mul_lt_mul_of_pos_right h1 (Nat.two_pow_pos k)
    _ = 2 ^ (7 + k) := (Nat.pow_add 2 7 k).symm
    _ ≤ 2 ^ w := Nat.pow_le_pow_right (by decide) (by omega)

/-- one accumulation step of the unrolled decoders: `x |= uintW(b&0x7f) << k` -/
theorem or_lo (w : Nat) (acc : BitVec w) (b : Byte) (k : Nat) (hk : k + 7 ≤ w) (hw : 8 ≤ w) (h : acc.toNat < 2 ^ k) :
    (acc ||| (((b &&& 0x7f#8).setWidth w) <<< k)).toNat = acc.toNat + (b.toNat % 128) * 2 ^ k := by
  rw [BitVec.toNat_or, lo_toNat w b k hk hw]
  have := or_shift acc.toNat (b.toNat % 128) k h
  rwa [Nat.shiftLeft_eq] at this

theorem up_toNat (w : Nat) (b : Byte) (k : Nat) (n : Nat) (hb : b.toNat < 2 ^ n) (hk : k + n ≤ w) (hw : 8 ≤ w):
    ((b.setWidth w) <<< k).toNat = b.toNat * 2 ^ k := by
  have h256 : (2:Nat) ^ 8 ≤ 2 ^ w := Nat.pow_le_pow_right (by decide) hw
  have hb8 := b.isLt
  rw [BitVec.toNat_shiftLeft, BitVec.toNat_setWidth, Nat.shiftLeft_eq, Nat.mod_eq_of_lt (a := b.toNat) (by omega)]
  apply Nat.mod_eq_of_lt
  calc b.toNat * 2 ^ k < 2 ^ n * 2 ^ k := Nat.mul_lt_mul_of_pos_right hb (Nat.two_pow_pos k)
    _ = 2 ^ (n + k) := (Nat.pow_add 2 n k).symm
    _ ≤ 2 ^ w := Nat.pow_le_pow_right (by decide) (by omega)

/-- the last step: `x |= uintW(b) << k` with `b` small enough to fit -/
theorem or_up (w : Nat) (acc : BitVec w) (b : Byte) (k n : Nat) (hb : b.toNat < 2 ^ n) (hk : k + n ≤ w) (hw : 8 ≤ w)
    (h : acc.toNat < 2 ^ k) :
    (acc ||| ((b.setWidth w) <<< k)).toNat = acc.toNat + b.toNat * 2 ^ k := by
  rw [BitVec.toNat_or, up_toNat w b k n hb hk hw]
  have := or_shift acc.toNat b.toNat k h
  rwa [Nat.shiftLeft_eq] at this

/-! ## the opaque pieces of the decoders, in `Nat` -/
theorem m32_toNat (b : Byte) : (m32 b).toNat = b.toNat % 128 := mask7_toNat 32 (by decide) b
theorem m64_toNat (b : Byte) : (m64 b).toNat = b.toNat % 128 := mask7_toNat 64 (by decide) b
theorem or_lo32 (acc : BitVec 32) (b : Byte) (k : Nat) (hk : k + 7 ≤ 32) (h : acc.toNat < 2 ^ k) :
    (acc ||| lo32 b k).toNat = acc.toNat + (b.toNat % 128) * 2 ^ k := or_lo 32 acc b k hk (by decide) h
theorem or_lo64 (acc : BitVec 64) (b : Byte) (k : Nat) (hk : k + 7 ≤ 64) (h : acc.toNat < 2 ^ k) :
    (acc ||| lo64 b k).toNat = acc.toNat + (b.toNat % 128) * 2 ^ k := or_lo 64 acc b k hk (by decide) h
theorem or_up32 (acc : BitVec 32) (b : Byte) (hb : b.toNat < 2 ^ 4) (h : acc.toNat < 2 ^ 28) :
    (acc ||| up32 b 28).toNat = acc.toNat + b.toNat * 2 ^ 28 := or_up 32 acc b 28 4 hb (by decide) (by decide) h
theorem or_up64 (acc : BitVec 64) (b : Byte) (hb : b.toNat < 2 ^ 1) (h : acc.toNat < 2 ^ 63) :
    (acc ||| up64 b 63).toNat = acc.toNat + b.toNat * 2 ^ 63 := or_up 64 acc b 63 1 hb (by decide) (by decide) h

/-! ## decoder exactness (script generated level by level: one `rcases`/`by_cases` per unrolled step) -/
set_option linter.unusedSimpArgs false

theorem nl1 (n : Nat) : (n + 1 < 1) = False := by simp
theorem nl2 (n : Nat) : (n + 1 + 1 < 2) = False := by simp
theorem nl3 (n : Nat) : (n + 1 + 1 + 1 < 3) = False := by simp
theorem nl4 (n : Nat) : (n + 1 + 1 + 1 + 1 < 4) = False := by simp
theorem nl5 (n : Nat) : (n + 1 + 1 + 1 + 1 + 1 < 5) = False := by simp
theorem nl6 (n : Nat) : (n + 1 + 1 + 1 + 1 + 1 + 1 < 6) = False := by simp
theorem nl7 (n : Nat) : (n + 1 + 1 + 1 + 1 + 1 + 1 + 1 < 7) = False := by simp
theorem nl8 (n : Nat) : (n + 1 + 1 + 1 + 1 + 1 + 1 + 1 + 1 < 8) = False := by simp
theorem nl9 (n : Nat) : (n + 1 + 1 + 1 + 1 + 1 + 1 + 1 + 1 + 1 < 9) = False := by simp
theorem nl10 (n : Nat) : (n + 1 + 1 + 1 + 1 + 1 + 1 + 1 + 1 + 1 + 1 < 10) = False := by simp
theorem uvarint_exact (inp : Bytes) :
    uvarint inp = some (BitVec.ofNat 32 (Spec.C17.decU 32 5 inp).1, (Spec.C17.decU 32 5 inp).2) := by
  rcases inp with _ | ⟨b0, inp⟩
  · simp [uvarint, idx?, fin_iff, Spec.C17.decU, Spec.C17.leb, nl1, nl2, nl3, nl4, nl5]
  have l0 := b0.isLt
  have e0 : (m32 b0).toNat = b0.toNat % 128 := m32_toNat b0
  by_cases h0 : b0.toNat < 128
  · simp [uvarint, idx?, fin_iff, Spec.C17.decU, Spec.C17.leb, nl1, nl2, nl3, nl4, nl5, h0]
    (try rw [if_pos (by omega)]); (try dsimp only)
    refine ⟨?_, by simp⟩
    apply BitVec.eq_of_toNat_eq
    rw [e0, BitVec.toNat_ofNat]; omega
  rcases inp with _ | ⟨b1, inp⟩
  · simp [uvarint, idx?, fin_iff, Spec.C17.decU, Spec.C17.leb, nl1, nl2, nl3, nl4, nl5, h0]
  have l1 := b1.isLt
  have e1 : (m32 b0 ||| lo32 b1 7).toNat = b0.toNat % 128 + b1.toNat % 128 * 128 := by
    have := or_lo32 (m32 b0) b1 7 (by decide) (by rw [e0]; omega)
    rw [e0] at this; omega
  by_cases h1 : b1.toNat < 128
  · simp [uvarint, idx?, fin_iff, Spec.C17.decU, Spec.C17.leb, nl1, nl2, nl3, nl4, nl5, h0, h1]
    (try rw [if_pos (by omega)]); (try dsimp only)
    refine ⟨?_, by simp⟩
    apply BitVec.eq_of_toNat_eq
    rw [e1, BitVec.toNat_ofNat]; omega
  rcases inp with _ | ⟨b2, inp⟩
  · simp [uvarint, idx?, fin_iff, Spec.C17.decU, Spec.C17.leb, nl1, nl2, nl3, nl4, nl5, h0, h1]
  have l2 := b2.isLt
  have e2 : (m32 b0 ||| lo32 b1 7 ||| lo32 b2 14).toNat = b0.toNat % 128 + b1.toNat % 128 * 128 + b2.toNat % 128 * 16384 := by
    have := or_lo32 (m32 b0 ||| lo32 b1 7) b2 14 (by decide) (by rw [e1]; omega)
    rw [e1] at this; omega
  by_cases h2 : b2.toNat < 128
  · simp [uvarint, idx?, fin_iff, Spec.C17.decU, Spec.C17.leb, nl1, nl2, nl3, nl4, nl5, h0, h1, h2]
    (try rw [if_pos (by omega)]); (try dsimp only)
    refine ⟨?_, by simp⟩
    apply BitVec.eq_of_toNat_eq
    rw [e2, BitVec.toNat_ofNat]; omega
  rcases inp with _ | ⟨b3, inp⟩
  · simp [uvarint, idx?, fin_iff, Spec.C17.decU, Spec.C17.leb, nl1, nl2, nl3, nl4, nl5, h0, h1, h2]
  have l3 := b3.isLt
  have e3 : (m32 b0 ||| lo32 b1 7 ||| lo32 b2 14 ||| lo32 b3 21).toNat = b0.toNat % 128 + b1.toNat % 128 * 128 + b2.toNat % 128 * 16384 + b3.toNat % 128 * 2097152 := by
    have := or_lo32 (m32 b0 ||| lo32 b1 7 ||| lo32 b2 14) b3 21 (by decide) (by rw [e2]; omega)
    rw [e2] at this; omega
  by_cases h3 : b3.toNat < 128
  · simp [uvarint, idx?, fin_iff, Spec.C17.decU, Spec.C17.leb, nl1, nl2, nl3, nl4, nl5, h0, h1, h2, h3]
    (try rw [if_pos (by omega)]); (try dsimp only)
    refine ⟨?_, by simp⟩
    apply BitVec.eq_of_toNat_eq
    rw [e3, BitVec.toNat_ofNat]; omega
  rcases inp with _ | ⟨b4, inp⟩
  · simp [uvarint, idx?, fin_iff, Spec.C17.decU, Spec.C17.leb, nl1, nl2, nl3, nl4, nl5, h0, h1, h2, h3]
  have l4 := b4.isLt
  by_cases hl : b4.toNat ≤ 15
  · have hlt : b4.toNat < 128 := by omega
    have el : (m32 b0 ||| lo32 b1 7 ||| lo32 b2 14 ||| lo32 b3 21 ||| up32 b4 28).toNat = b0.toNat % 128 + b1.toNat % 128 * 128 + b2.toNat % 128 * 16384 + b3.toNat % 128 * 2097152 + b4.toNat * 268435456 := by
      have := or_up32 (m32 b0 ||| lo32 b1 7 ||| lo32 b2 14 ||| lo32 b3 21) b4 (by omega) (by rw [e3]; omega)
      rw [e3] at this; omega
    simp [uvarint, idx?, fin_iff, Spec.C17.decU, Spec.C17.leb, nl1, nl2, nl3, nl4, nl5, h0, h1, h2, h3, hlt, BitVec.le_def, hl]
    (try rw [if_pos (by omega)]); (try dsimp only)
    refine ⟨?_, by simp⟩
    apply BitVec.eq_of_toNat_eq
    rw [el, BitVec.toNat_ofNat]; omega
  · by_cases hlt : b4.toNat < 128
    · simp [uvarint, idx?, fin_iff, Spec.C17.decU, Spec.C17.leb, nl1, nl2, nl3, nl4, nl5, h0, h1, h2, h3, hlt, BitVec.le_def, hl]
      rw [if_neg (by omega)]; simp
    · simp [uvarint, idx?, fin_iff, Spec.C17.decU, Spec.C17.leb, nl1, nl2, nl3, nl4, nl5, h0, h1, h2, h3, hlt, BitVec.le_def, hl]


/-! ## Spec-level LEB128 facts, the length table, encoder exactness (case script generated per length) -/
theorem encU_lt {n : Nat} (h : n < 128) : encU n = [byte n] := by rw [encU]; simp [h]
theorem encU_ge {n : Nat} (h : ¬ n < 128) : encU n = byte (n % 128 + 128) :: encU (n / 128) := by
  rw [encU]; simp [h]
theorem lenU_lt {n : Nat} (h : n < 128) : lenU n = 1 := by rw [lenU]; simp [h]
theorem lenU_ge {n : Nat} (h : ¬ n < 128) : lenU n = 1 + lenU (n / 128) := by rw [lenU]; simp [h]

theorem byte_toNat {n : Nat} (h : n < 256) : (byte n).toNat = n := by
  simp [byte, BitVec.toNat_ofNat]; omega

theorem encU_length (n : Nat) : (encU n).length = lenU n := by
  induction n using Nat.strongRecOn with
  | _ n ih =>
    by_cases h : n < 128
    · simp [encU_lt h, lenU_lt h]
    · rw [encU_ge h, lenU_ge h, List.length_cons, ih (n / 128) (by omega)]; omega

/-- reading back an encoding: the value and exactly its bytes, whatever follows -/
theorem leb_encU (n : Nat) (r : Bytes) : leb (encU n ++ r) = some (n, lenU n) := by
  induction n using Nat.strongRecOn with
  | _ n ih =>
    by_cases h : n < 128
    · simp [encU_lt h, lenU_lt h, leb, byte_toNat (by omega : n < 256), h]
    · rw [encU_ge h, lenU_ge h, List.cons_append]
      generalize hbd : byte (n % 128 + 128) = b
      have hb : b.toNat = n % 128 + 128 := by rw [← hbd]; exact byte_toNat (by omega)
      have hb' : ¬ b.toNat < 128 := by omega
      rw [leb, ih (n / 128) (by omega)]
      simp only [hb', if_false, hb]
      refine congrArg some (Prod.ext ?_ ?_) <;> simp <;> omega

theorem lenU_le (k : Nat) : ∀ n, n < 128 ^ k → 1 ≤ k → lenU n ≤ k := by
  induction k with
  | zero => intro n _ h; omega
  | succ k ih =>
    intro n hn _
    by_cases h : n < 128
    · rw [lenU_lt h]; omega
    · rw [lenU_ge h]
      have hk : 1 ≤ k := by
        rcases k with _ | k
        · simp at hn; omega
        · omega
      have : n / 128 < 128 ^ k := by
        rw [Nat.pow_succ] at hn
        exact Nat.div_lt_of_lt_mul (by rw [Nat.mul_comm]; exact hn)
      have := ih (n / 128) this hk
      omega

/-- Spec-level round trip: decoding `encU n` followed by anything gives `n` and its length -/
theorem decU_encU (bits maxB n : Nat) (r : Bytes) (hn : n < 2 ^ bits) (hl : lenU n ≤ maxB) :
    decU bits maxB (encU n ++ r) = (n, (lenU n : Int)) := by
  unfold decU
  have hlen := encU_length n
  have : (encU n ++ r).take maxB = encU n ++ r.take (maxB - lenU n) := by
    rw [List.take_append, hlen, List.take_of_length_le (by omega)]
  rw [this, leb_encU]
  simp [hn]
theorem bitsLen_div128 (n : Nat) (h : 128 ≤ n) : bitsLen (n / 128) + 7 = bitsLen n := by
  have hn : n ≠ 0 := by omega
  have hm : n / 128 ≠ 0 := by omega
  simp only [bitsLen, hn, hm, if_false]
  have ⟨h1, h2⟩ := (Nat.log2_eq_iff hm).1 rfl
  have e7 : 2 ^ ((n / 128).log2 + 7) = 2 ^ (n / 128).log2 * 128 := by rw [Nat.pow_add]
  have e8 : 2 ^ ((n / 128).log2 + 7 + 1) = 2 ^ (n / 128).log2 * 256 := by rw [Nat.add_assoc, Nat.pow_add]
  have e1 : 2 ^ ((n / 128).log2 + 1) = 2 ^ (n / 128).log2 * 2 := by rw [Nat.pow_add]
  have := (Nat.log2_eq_iff hn (k := (n / 128).log2 + 7)).2 ⟨by omega, by omega⟩
  omega

theorem bitsLen_lt128 (n : Nat) (h : n < 128) : bitsLen n ≤ 7 := by
  unfold bitsLen
  split
  · omega
  · rename_i hn
    have := (Nat.log2_lt hn (k := 7)).2 (by simpa using h)
    omega

theorem bitsLen_le (n k : Nat) (h : n < 2 ^ k) : bitsLen n ≤ k := by
  unfold bitsLen
  split
  · omega
  · rename_i hn
    have := (Nat.log2_lt hn (k := k)).2 h
    omega

/-- the length function through the regenerated table is the LEB128 length -/
theorem lens_bitsLen (tbl : ∀ L : Fin 65, lensAt L.val = max 1 ((L.val + 6) / 7)) (n : Nat) (h : n < 2 ^ 64) :
    lensAt (bitsLen n) = lenU n := by
  have hb := bitsLen_le n 64 h
  rw [tbl ⟨bitsLen n, by omega⟩]
  show max 1 ((bitsLen n + 6) / 7) = lenU n
  clear hb h
  induction n using Nat.strongRecOn with
  | _ n ih =>
    by_cases c : n < 128
    · have := bitsLen_lt128 n c
      rw [lenU]; simp only [c, if_true]; omega
    · have := bitsLen_div128 n (by omega)
      have : 1 ≤ bitsLen (n / 128) := by
        unfold bitsLen; split <;> omega
      have := ih (n / 128) (by omega)
      rw [lenU]; simp only [c, if_false]; omega
theorem byte_mod (a : Nat) : byte (a % 256) = byte a := by
  apply BitVec.eq_of_toNat_eq; simp [byte]

theorem setw8_eq {w : Nat} (u : BitVec w) : u.setWidth 8 = byte u.toNat := by
  apply BitVec.eq_of_toNat_eq; simp [byte]

theorem cont_gen (w : Nat) (hw : 8 ≤ w) (u : BitVec w) (k : Nat) :
    ((((u >>> k) &&& 0x7f#w) ||| 0x80#w).setWidth 8) = byte (u.toNat / 2 ^ k % 128 + 128) := by
  have h256 : (2:Nat) ^ 8 ≤ 2 ^ w := Nat.pow_le_pow_right (by decide) hw
  simp only [Nat.reducePow] at h256
  apply BitVec.eq_of_toNat_eq
  simp only [byte, BitVec.toNat_setWidth, BitVec.toNat_or, BitVec.toNat_and, BitVec.toNat_ushiftRight,
    BitVec.toNat_ofNat, Nat.shiftRight_eq_div_pow]
  rw [Nat.mod_eq_of_lt (by omega : 127 < 2 ^ w), Nat.mod_eq_of_lt (by omega : 128 < 2 ^ w), and127,
    or128 _ (Nat.mod_lt _ (by decide))]

theorem cont32_eq (u : BitVec 32) (k : Nat) (_ : k < 32) : cont32 u k = byte (u.toNat / 2 ^ k % 128 + 128) :=
  cont_gen 32 (by decide) u k
theorem cont64_eq (u : BitVec 64) (k : Nat) (_ : k < 64) : cont64 u k = byte (u.toNat / 2 ^ k % 128 + 128) :=
  cont_gen 64 (by decide) u k
theorem cont32_0_eq (u : BitVec 32) : cont32_0 u = byte (u.toNat % 128 + 128) := by
  have := cont_gen 32 (by decide) u 0
  simpa [cont32_0] using this
theorem cont64_0_eq (u : BitVec 64) : cont64_0 u = byte (u.toNat % 128 + 128) := by
  have := cont_gen 64 (by decide) u 0
  simpa [cont64_0] using this
theorem last32_eq (u : BitVec 32) (k : Nat) : last32 u k = byte (u.toNat / 2 ^ k) := by
  apply BitVec.eq_of_toNat_eq; simp [last32, byte, Nat.shiftRight_eq_div_pow]
theorem last64_eq (u : BitVec 64) (k : Nat) : last64 u k = byte (u.toNat / 2 ^ k) := by
  apply BitVec.eq_of_toNat_eq; simp [last64, byte, Nat.shiftRight_eq_div_pow]

theorem appendUvarint_exact (tbl : ∀ L : Fin 65, lensAt L.val = max 1 ((L.val + 6) / 7)) (dst : Bytes) (u : BitVec 32) :
    appendUvarint dst u = dst ++ encU u.toNat ∧ uvarintLen u = lenU u.toNat := by
  have hu := u.isLt
  have hl : uvarintLen u = lenU u.toNat := lens_bitsLen tbl u.toNat (by omega)
  refine ⟨?_, hl⟩
  unfold appendUvarint
  rw [hl]
  by_cases c1 : u.toNat < 128
  · -- 1 byte(s)
    have e : lenU u.toNat = 1 := by rw [lenU_lt (by omega)]
    rw [e, encU_lt (by omega)]
    simp only [List.append_cancel_left_eq, List.cons.injEq, and_true]
    exact setw8_eq u
  by_cases c2 : u.toNat < 16384
  · -- 2 byte(s)
    have e : lenU u.toNat = 2 := by rw [lenU_ge (by omega), lenU_lt (by omega)]
    rw [e, encU_ge (by omega), encU_lt (by omega)]
    simp only [List.append_cancel_left_eq, List.cons.injEq, and_true]
    refine ⟨?_, ?_⟩
    · rw [cont32_0_eq u]; all_goals (first | rfl | (congr 1 <;> omega))
    · rw [last32_eq u 7]; all_goals (first | rfl | (congr 1 <;> omega))
  by_cases c3 : u.toNat < 2097152
  · -- 3 byte(s)
    have e : lenU u.toNat = 3 := by rw [lenU_ge (by omega), lenU_ge (by omega), lenU_lt (by omega)]
    rw [e, encU_ge (by omega), encU_ge (by omega), encU_lt (by omega)]
    simp only [List.append_cancel_left_eq, List.cons.injEq, and_true]
    refine ⟨?_, ?_, ?_⟩
    · rw [cont32_0_eq u]; all_goals (first | rfl | (congr 1 <;> omega))
    · rw [cont32_eq u 7 (by decide)]; all_goals (first | rfl | (congr 1 <;> omega))
    · rw [last32_eq u 14]; all_goals (first | rfl | (congr 1 <;> omega))
  by_cases c4 : u.toNat < 268435456
  · -- 4 byte(s)
    have e : lenU u.toNat = 4 := by rw [lenU_ge (by omega), lenU_ge (by omega), lenU_ge (by omega), lenU_lt (by omega)]
    rw [e, encU_ge (by omega), encU_ge (by omega), encU_ge (by omega), encU_lt (by omega)]
    simp only [List.append_cancel_left_eq, List.cons.injEq, and_true]
    refine ⟨?_, ?_, ?_, ?_⟩
    · rw [cont32_0_eq u]; all_goals (first | rfl | (congr 1 <;> omega))
    · rw [cont32_eq u 7 (by decide)]; all_goals (first | rfl | (congr 1 <;> omega))
    · rw [cont32_eq u 14 (by decide)]; all_goals (first | rfl | (congr 1 <;> omega))
    · rw [last32_eq u 21]; all_goals (first | rfl | (congr 1 <;> omega))
  -- 5 bytes
  have e : lenU u.toNat = 5 := by rw [lenU_ge (by omega), lenU_ge (by omega), lenU_ge (by omega), lenU_ge (by omega), lenU_lt (by omega)]
  rw [e, encU_ge (by omega), encU_ge (by omega), encU_ge (by omega), encU_ge (by omega), encU_lt (by omega)]
  simp only [List.append_cancel_left_eq, List.cons.injEq, and_true]
  refine ⟨?_, ?_, ?_, ?_, ?_⟩
  · rw [cont32_0_eq u]; all_goals (first | rfl | (congr 1 <;> omega))
  · rw [cont32_eq u 7 (by decide)]; all_goals (first | rfl | (congr 1 <;> omega))
  · rw [cont32_eq u 14 (by decide)]; all_goals (first | rfl | (congr 1 <;> omega))
  · rw [cont32_eq u 21 (by decide)]; all_goals (first | rfl | (congr 1 <;> omega))
  · rw [last32_eq u 28]; all_goals (first | rfl | (congr 1 <;> omega))
theorem appendUvarlong_exact (tbl : ∀ L : Fin 65, lensAt L.val = max 1 ((L.val + 6) / 7)) (dst : Bytes) (u : BitVec 64) :
    appendUvarlong dst u = dst ++ encU u.toNat ∧ uvarlongLen u = lenU u.toNat := by
  have hu := u.isLt
  have hl : uvarlongLen u = lenU u.toNat := lens_bitsLen tbl u.toNat (by omega)
  refine ⟨?_, hl⟩
  unfold appendUvarlong
  rw [hl]
  by_cases c1 : u.toNat < 128
  · -- 1 byte(s)
    have e : lenU u.toNat = 1 := by rw [lenU_lt (by omega)]
    rw [e, encU_lt (by omega)]
    simp only [List.append_cancel_left_eq, List.cons.injEq, and_true]
    exact setw8_eq u
  by_cases c2 : u.toNat < 16384
  · -- 2 byte(s)
    have e : lenU u.toNat = 2 := by rw [lenU_ge (by omega), lenU_lt (by omega)]
    rw [e, encU_ge (by omega), encU_lt (by omega)]
    simp only [List.append_cancel_left_eq, List.cons.injEq, and_true]
    refine ⟨?_, ?_⟩
    · rw [cont64_0_eq u]; all_goals (first | rfl | (congr 1 <;> omega))
    · rw [last64_eq u 7]; all_goals (first | rfl | (congr 1 <;> omega))
  by_cases c3 : u.toNat < 2097152
  · -- 3 byte(s)
    have e : lenU u.toNat = 3 := by rw [lenU_ge (by omega), lenU_ge (by omega), lenU_lt (by omega)]
    rw [e, encU_ge (by omega), encU_ge (by omega), encU_lt (by omega)]
    simp only [List.append_cancel_left_eq, List.cons.injEq, and_true]
    refine ⟨?_, ?_, ?_⟩
    · rw [cont64_0_eq u]; all_goals (first | rfl | (congr 1 <;> omega))
    · rw [cont64_eq u 7 (by decide)]; all_goals (first | rfl | (congr 1 <;> omega))
    · rw [last64_eq u 14]; all_goals (first | rfl | (congr 1 <;> omega))
  by_cases c4 : u.toNat < 268435456
  · -- 4 byte(s)
    have e : lenU u.toNat = 4 := by rw [lenU_ge (by omega), lenU_ge (by omega), lenU_ge (by omega), lenU_lt (by omega)]
    rw [e, encU_ge (by omega), encU_ge (by omega), encU_ge (by omega), encU_lt (by omega)]
    simp only [List.append_cancel_left_eq, List.cons.injEq, and_true]
    refine ⟨?_, ?_, ?_, ?_⟩
    · rw [cont64_0_eq u]; all_goals (first | rfl | (congr 1 <;> omega))
    · rw [cont64_eq u 7 (by decide)]; all_goals (first | rfl | (congr 1 <;> omega))
    · rw [cont64_eq u 14 (by decide)]; all_goals (first | rfl | (congr 1 <;> omega))
    · rw [last64_eq u 21]; all_goals (first | rfl | (congr 1 <;> omega))
  by_cases c5 : u.toNat < 34359738368
  · -- 5 byte(s)
    have e : lenU u.toNat = 5 := by rw [lenU_ge (by omega), lenU_ge (by omega), lenU_ge (by omega), lenU_ge (by omega), lenU_lt (by omega)]
    rw [e, encU_ge (by omega), encU_ge (by omega), encU_ge (by omega), encU_ge (by omega), encU_lt (by omega)]
    simp only [List.append_cancel_left_eq, List.cons.injEq, and_true]
    refine ⟨?_, ?_, ?_, ?_, ?_⟩
    · rw [cont64_0_eq u]; all_goals (first | rfl | (congr 1 <;> omega))
    · rw [cont64_eq u 7 (by decide)]; all_goals (first | rfl | (congr 1 <;> omega))
    · rw [cont64_eq u 14 (by decide)]; all_goals (first | rfl | (congr 1 <;> omega))
    · rw [cont64_eq u 21 (by decide)]; all_goals (first | rfl | (congr 1 <;> omega))
    · rw [last64_eq u 28]; all_goals (first | rfl | (congr 1 <;> omega))
  by_cases c6 : u.toNat < 4398046511104
  · -- 6 byte(s)
    have e : lenU u.toNat = 6 := by rw [lenU_ge (by omega), lenU_ge (by omega), lenU_ge (by omega), lenU_ge (by omega), lenU_ge (by omega), lenU_lt (by omega)]
    rw [e, encU_ge (by omega), encU_ge (by omega), encU_ge (by omega), encU_ge (by omega), encU_ge (by omega), encU_lt (by omega)]
    simp only [List.append_cancel_left_eq, List.cons.injEq, and_true]
    refine ⟨?_, ?_, ?_, ?_, ?_, ?_⟩
    · rw [cont64_0_eq u]; all_goals (first | rfl | (congr 1 <;> omega))
    · rw [cont64_eq u 7 (by decide)]; all_goals (first | rfl | (congr 1 <;> omega))
    · rw [cont64_eq u 14 (by decide)]; all_goals (first | rfl | (congr 1 <;> omega))
    · rw [cont64_eq u 21 (by decide)]; all_goals (first | rfl | (congr 1 <;> omega))
    · rw [cont64_eq u 28 (by decide)]; all_goals (first | rfl | (congr 1 <;> omega))
    · rw [last64_eq u 35]; all_goals (first | rfl | (congr 1 <;> omega))
  by_cases c7 : u.toNat < 562949953421312
  · -- 7 byte(s)
    have e : lenU u.toNat = 7 := by rw [lenU_ge (by omega), lenU_ge (by omega), lenU_ge (by omega), lenU_ge (by omega), lenU_ge (by omega), lenU_ge (by omega), lenU_lt (by omega)]
    rw [e, encU_ge (by omega), encU_ge (by omega), encU_ge (by omega), encU_ge (by omega), encU_ge (by omega), encU_ge (by omega), encU_lt (by omega)]
    simp only [List.append_cancel_left_eq, List.cons.injEq, and_true]
    refine ⟨?_, ?_, ?_, ?_, ?_, ?_, ?_⟩
    · rw [cont64_0_eq u]; all_goals (first | rfl | (congr 1 <;> omega))
    · rw [cont64_eq u 7 (by decide)]; all_goals (first | rfl | (congr 1 <;> omega))
    · rw [cont64_eq u 14 (by decide)]; all_goals (first | rfl | (congr 1 <;> omega))
    · rw [cont64_eq u 21 (by decide)]; all_goals (first | rfl | (congr 1 <;> omega))
    · rw [cont64_eq u 28 (by decide)]; all_goals (first | rfl | (congr 1 <;> omega))
    · rw [cont64_eq u 35 (by decide)]; all_goals (first | rfl | (congr 1 <;> omega))
    · rw [last64_eq u 42]; all_goals (first | rfl | (congr 1 <;> omega))
  by_cases c8 : u.toNat < 72057594037927936
  · -- 8 byte(s)
    have e : lenU u.toNat = 8 := by rw [lenU_ge (by omega), lenU_ge (by omega), lenU_ge (by omega), lenU_ge (by omega), lenU_ge (by omega), lenU_ge (by omega), lenU_ge (by omega), lenU_lt (by omega)]
    rw [e, encU_ge (by omega), encU_ge (by omega), encU_ge (by omega), encU_ge (by omega), encU_ge (by omega), encU_ge (by omega), encU_ge (by omega), encU_lt (by omega)]
    simp only [List.append_cancel_left_eq, List.cons.injEq, and_true]
    refine ⟨?_, ?_, ?_, ?_, ?_, ?_, ?_, ?_⟩
    · rw [cont64_0_eq u]; all_goals (first | rfl | (congr 1 <;> omega))
    · rw [cont64_eq u 7 (by decide)]; all_goals (first | rfl | (congr 1 <;> omega))
    · rw [cont64_eq u 14 (by decide)]; all_goals (first | rfl | (congr 1 <;> omega))
    · rw [cont64_eq u 21 (by decide)]; all_goals (first | rfl | (congr 1 <;> omega))
    · rw [cont64_eq u 28 (by decide)]; all_goals (first | rfl | (congr 1 <;> omega))
    · rw [cont64_eq u 35 (by decide)]; all_goals (first | rfl | (congr 1 <;> omega))
    · rw [cont64_eq u 42 (by decide)]; all_goals (first | rfl | (congr 1 <;> omega))
    · rw [last64_eq u 49]; all_goals (first | rfl | (congr 1 <;> omega))
  by_cases c9 : u.toNat < 9223372036854775808
  · -- 9 byte(s)
    have e : lenU u.toNat = 9 := by rw [lenU_ge (by omega), lenU_ge (by omega), lenU_ge (by omega), lenU_ge (by omega), lenU_ge (by omega), lenU_ge (by omega), lenU_ge (by omega), lenU_ge (by omega), lenU_lt (by omega)]
    rw [e, encU_ge (by omega), encU_ge (by omega), encU_ge (by omega), encU_ge (by omega), encU_ge (by omega), encU_ge (by omega), encU_ge (by omega), encU_ge (by omega), encU_lt (by omega)]
    simp only [List.append_cancel_left_eq, List.cons.injEq, and_true]
    refine ⟨?_, ?_, ?_, ?_, ?_, ?_, ?_, ?_, ?_⟩
    · rw [cont64_0_eq u]; all_goals (first | rfl | (congr 1 <;> omega))
    · rw [cont64_eq u 7 (by decide)]; all_goals (first | rfl | (congr 1 <;> omega))
    · rw [cont64_eq u 14 (by decide)]; all_goals (first | rfl | (congr 1 <;> omega))
    · rw [cont64_eq u 21 (by decide)]; all_goals (first | rfl | (congr 1 <;> omega))
    · rw [cont64_eq u 28 (by decide)]; all_goals (first | rfl | (congr 1 <;> omega))
    · rw [cont64_eq u 35 (by decide)]; all_goals (first | rfl | (congr 1 <;> omega))
    · rw [cont64_eq u 42 (by decide)]; all_goals (first | rfl | (congr 1 <;> omega))
    · rw [cont64_eq u 49 (by decide)]; all_goals (first | rfl | (congr 1 <;> omega))
    · rw [last64_eq u 56]; all_goals (first | rfl | (congr 1 <;> omega))
  -- 10 bytes
  have e : lenU u.toNat = 10 := by rw [lenU_ge (by omega), lenU_ge (by omega), lenU_ge (by omega), lenU_ge (by omega), lenU_ge (by omega), lenU_ge (by omega), lenU_ge (by omega), lenU_ge (by omega), lenU_ge (by omega), lenU_lt (by omega)]
  rw [e, encU_ge (by omega), encU_ge (by omega), encU_ge (by omega), encU_ge (by omega), encU_ge (by omega), encU_ge (by omega), encU_ge (by omega), encU_ge (by omega), encU_ge (by omega), encU_lt (by omega)]
  simp only [List.append_cancel_left_eq, List.cons.injEq, and_true]
  refine ⟨?_, ?_, ?_, ?_, ?_, ?_, ?_, ?_, ?_, ?_⟩
  · rw [cont64_0_eq u]; all_goals (first | rfl | (congr 1 <;> omega))
  · rw [cont64_eq u 7 (by decide)]; all_goals (first | rfl | (congr 1 <;> omega))
  · rw [cont64_eq u 14 (by decide)]; all_goals (first | rfl | (congr 1 <;> omega))
  · rw [cont64_eq u 21 (by decide)]; all_goals (first | rfl | (congr 1 <;> omega))
  · rw [cont64_eq u 28 (by decide)]; all_goals (first | rfl | (congr 1 <;> omega))
  · rw [cont64_eq u 35 (by decide)]; all_goals (first | rfl | (congr 1 <;> omega))
  · rw [cont64_eq u 42 (by decide)]; all_goals (first | rfl | (congr 1 <;> omega))
  · rw [cont64_eq u 49 (by decide)]; all_goals (first | rfl | (congr 1 <;> omega))
  · rw [cont64_eq u 56 (by decide)]; all_goals (first | rfl | (congr 1 <;> omega))
  · rw [last64_eq u 63]; all_goals (first | rfl | (congr 1 <;> omega))

end Proof.C17
