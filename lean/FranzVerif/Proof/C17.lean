import FranzVerif.Model.C17
import FranzVerif.Spec.C17
/-! C17 — helper lemmas (kernel-only: `BitVec.toNat` + `omega`). -/
namespace Proof.C17
open Model.C17

/-! ## Nat bridges -/
theorem and127 (x : Nat) : x &&& 127 = x % 128 := by
  have := @Nat.and_two_pow_sub_one_eq_mod x 7
  simpa using this

/-- disjoint-bits OR is addition -/
theorem or_shift (a b k : Nat) (ha : a < 2 ^ k) : a ||| (b <<< k) = a + b * 2 ^ k := by
  rw [Nat.or_comm, ← Nat.shiftLeft_add_eq_or_of_lt ha, Nat.shiftLeft_eq, Nat.add_comm]

theorem or128 (a : Nat) (ha : a < 128) : a ||| 128 = a + 128 := by
  have := or_shift a 1 7 (by simpa using ha)
  simpa using this

/-! ## byte-level facts -/
set_option maxRecDepth 10000 in
theorem fin_iff (b : Byte) : fin b = decide (b.toNat < 128) := by
  have h : ∀ n : Fin 256, fin (BitVec.ofFin n) = decide (n.val < 128) := by decide
  exact h b.toFin

theorem mask7_toNat (w : Nat) (hw : 8 ≤ w) (b : Byte) : ((b &&& 0x7f#8).setWidth w).toNat = b.toNat % 128 := by
  simp only [BitVec.toNat_setWidth, BitVec.toNat_and, BitVec.toNat_ofNat, Nat.reducePow, Nat.reduceMod, and127]
  have : (2:Nat)^8 ≤ 2^w := Nat.pow_le_pow_right (by decide) hw
  simp only [Nat.reducePow] at this
  exact Nat.mod_eq_of_lt (by omega)

theorem lo_toNat (w : Nat) (b : Byte) (k : Nat) (hk : k + 7 ≤ w) (hw : 8 ≤ w) :
    (((b &&& 0x7f#8).setWidth w) <<< k).toNat = (b.toNat % 128) * 2 ^ k := by
  rw [BitVec.toNat_shiftLeft, mask7_toNat w hw, Nat.shiftLeft_eq]
  apply Nat.mod_eq_of_lt
  have h1 : b.toNat % 128 < 2 ^ 7 := by simpa using Nat.mod_lt b.toNat (by decide : 128 > 0)
  calc b.toNat % 128 * 2 ^ k < 2 ^ 7 * 2 ^ k := Nat.mul_lt_mul_of_pos_right h1 (Nat.two_pow_pos k)
    _ = 2 ^ (7 + k) := (Nat.pow_add 2 7 k).symm
    _ ≤ 2 ^ w := Nat.pow_le_pow_right (by decide) (by omega)

/-- one accumulation step of the unrolled decoders: `x |= uintW(b&0x7f) << k` -/
theorem or_lo (w : Nat) (acc : BitVec w) (b : Byte) (k : Nat) (hk : k + 7 ≤ w) (hw : 8 ≤ w) (h : acc.toNat < 2 ^ k) :
    (acc ||| (((b &&& 0x7f#8).setWidth w) <<< k)).toNat = acc.toNat + (b.toNat % 128) * 2 ^ k := by
  rw [BitVec.toNat_or, lo_toNat w b k hk hw]
  have := or_shift acc.toNat (b.toNat % 128) k h
  rwa [Nat.shiftLeft_eq] at this

theorem up_toNat (w : Nat) (b : Byte) (k : Nat) (n : Nat) (hb : b.toNat < 2 ^ n) (hk : k + n ≤ w) (hw : 8 ≤ w):
    ((b.setWidth w) <<< k).toNat = b.toNat * 2 ^ k := by
  have h256 : (2:Nat) ^ 8 ≤ 2 ^ w := Nat.pow_le_pow_right (by decide) hw
  have hb8 := b.isLt
  rw [BitVec.toNat_shiftLeft, BitVec.toNat_setWidth, Nat.shiftLeft_eq, Nat.mod_eq_of_lt (a := b.toNat) (by omega)]
  apply Nat.mod_eq_of_lt
  calc b.toNat * 2 ^ k < 2 ^ n * 2 ^ k := Nat.mul_lt_mul_of_pos_right hb (Nat.two_pow_pos k)
    _ = 2 ^ (n + k) := (Nat.pow_add 2 n k).symm
    _ ≤ 2 ^ w := Nat.pow_le_pow_right (by decide) (by omega)

/-- the last step: `x |= uintW(b) << k` with `b` small enough to fit -/
theorem or_up (w : Nat) (acc : BitVec w) (b : Byte) (k n : Nat) (hb : b.toNat < 2 ^ n) (hk : k + n ≤ w) (hw : 8 ≤ w)
    (h : acc.toNat < 2 ^ k) :
    (acc ||| ((b.setWidth w) <<< k)).toNat = acc.toNat + b.toNat * 2 ^ k := by
  rw [BitVec.toNat_or, up_toNat w b k n hb hk hw]
  have := or_shift acc.toNat b.toNat k h
  rwa [Nat.shiftLeft_eq] at this

/-! ## the opaque pieces of the decoders, in `Nat` -/
theorem m32_toNat (b : Byte) : (m32 b).toNat = b.toNat % 128 := mask7_toNat 32 (by decide) b
theorem m64_toNat (b : Byte) : (m64 b).toNat = b.toNat % 128 := mask7_toNat 64 (by decide) b
theorem or_lo32 (acc : BitVec 32) (b : Byte) (k : Nat) (hk : k + 7 ≤ 32) (h : acc.toNat < 2 ^ k) :
    (acc ||| lo32 b k).toNat = acc.toNat + (b.toNat % 128) * 2 ^ k := or_lo 32 acc b k hk (by decide) h
theorem or_lo64 (acc : BitVec 64) (b : Byte) (k : Nat) (hk : k + 7 ≤ 64) (h : acc.toNat < 2 ^ k) :
    (acc ||| lo64 b k).toNat = acc.toNat + (b.toNat % 128) * 2 ^ k := or_lo 64 acc b k hk (by decide) h
theorem or_up32 (acc : BitVec 32) (b : Byte) (hb : b.toNat < 2 ^ 4) (h : acc.toNat < 2 ^ 28) :
    (acc ||| up32 b 28).toNat = acc.toNat + b.toNat * 2 ^ 28 := or_up 32 acc b 28 4 hb (by decide) (by decide) h
theorem or_up64 (acc : BitVec 64) (b : Byte) (hb : b.toNat < 2 ^ 1) (h : acc.toNat < 2 ^ 63) :
    (acc ||| up64 b 63).toNat = acc.toNat + b.toNat * 2 ^ 63 := or_up 64 acc b 63 1 hb (by decide) (by decide) h

/-! ## decoder exactness (script generated level by level: one `rcases`/`by_cases` per unrolled step) -/
set_option linter.unusedSimpArgs false

theorem nl1 (n : Nat) : (n + 1 < 1) = False := by simp
theorem nl2 (n : Nat) : (n + 1 + 1 < 2) = False := by simp
theorem nl3 (n : Nat) : (n + 1 + 1 + 1 < 3) = False := by simp
theorem nl4 (n : Nat) : (n + 1 + 1 + 1 + 1 < 4) = False := by simp
theorem nl5 (n : Nat) : (n + 1 + 1 + 1 + 1 + 1 < 5) = False := by simp
theorem nl6 (n : Nat) : (n + 1 + 1 + 1 + 1 + 1 + 1 < 6) = False := by simp
theorem nl7 (n : Nat) : (n + 1 + 1 + 1 + 1 + 1 + 1 + 1 < 7) = False := by simp
theorem nl8 (n : Nat) : (n + 1 + 1 + 1 + 1 + 1 + 1 + 1 + 1 < 8) = False := by simp
theorem nl9 (n : Nat) : (n + 1 + 1 + 1 + 1 + 1 + 1 + 1 + 1 + 1 < 9) = False := by simp
theorem nl10 (n : Nat) : (n + 1 + 1 + 1 + 1 + 1 + 1 + 1 + 1 + 1 + 1 < 10) = False := by simp
theorem uvarint_exact (inp : Bytes) :
    uvarint inp = some (BitVec.ofNat 32 (Spec.C17.decU 32 5 inp).1, (Spec.C17.decU 32 5 inp).2) := by
  rcases inp with _ | ⟨b0, inp⟩
  · simp [uvarint, idx?, fin_iff, Spec.C17.decU, Spec.C17.leb, nl1, nl2, nl3, nl4, nl5]
  have l0 := b0.isLt
  have e0 : (m32 b0).toNat = b0.toNat % 128 := m32_toNat b0
  by_cases h0 : b0.toNat < 128
  · simp [uvarint, idx?, fin_iff, Spec.C17.decU, Spec.C17.leb, nl1, nl2, nl3, nl4, nl5, h0]
    (try rw [if_pos (by omega)]); (try dsimp only)
    refine ⟨?_, by simp⟩
    apply BitVec.eq_of_toNat_eq
    rw [e0, BitVec.toNat_ofNat]; omega
  rcases inp with _ | ⟨b1, inp⟩
  · simp [uvarint, idx?, fin_iff, Spec.C17.decU, Spec.C17.leb, nl1, nl2, nl3, nl4, nl5, h0]
  have l1 := b1.isLt
  have e1 : (m32 b0 ||| lo32 b1 7).toNat = b0.toNat % 128 + b1.toNat % 128 * 128 := by
    have := or_lo32 (m32 b0) b1 7 (by decide) (by rw [e0]; omega)
    rw [e0] at this; omega
  by_cases h1 : b1.toNat < 128
  · simp [uvarint, idx?, fin_iff, Spec.C17.decU, Spec.C17.leb, nl1, nl2, nl3, nl4, nl5, h0, h1]
    (try rw [if_pos (by omega)]); (try dsimp only)
    refine ⟨?_, by simp⟩
    apply BitVec.eq_of_toNat_eq
    rw [e1, BitVec.toNat_ofNat]; omega
  rcases inp with _ | ⟨b2, inp⟩
  · simp [uvarint, idx?, fin_iff, Spec.C17.decU, Spec.C17.leb, nl1, nl2, nl3, nl4, nl5, h0, h1]
  have l2 := b2.isLt
  have e2 : (m32 b0 ||| lo32 b1 7 ||| lo32 b2 14).toNat = b0.toNat % 128 + b1.toNat % 128 * 128 + b2.toNat % 128 * 16384 := by
    have := or_lo32 (m32 b0 ||| lo32 b1 7) b2 14 (by decide) (by rw [e1]; omega)
    rw [e1] at this; omega
  by_cases h2 : b2.toNat < 128
  · simp [uvarint, idx?, fin_iff, Spec.C17.decU, Spec.C17.leb, nl1, nl2, nl3, nl4, nl5, h0, h1, h2]
    (try rw [if_pos (by omega)]); (try dsimp only)
    refine ⟨?_, by simp⟩
    apply BitVec.eq_of_toNat_eq
    rw [e2, BitVec.toNat_ofNat]; omega
  rcases inp with _ | ⟨b3, inp⟩
  · simp [uvarint, idx?, fin_iff, Spec.C17.decU, Spec.C17.leb, nl1, nl2, nl3, nl4, nl5, h0, h1, h2]
  have l3 := b3.isLt
  have e3 : (m32 b0 ||| lo32 b1 7 ||| lo32 b2 14 ||| lo32 b3 21).toNat = b0.toNat % 128 + b1.toNat % 128 * 128 + b2.toNat % 128 * 16384 + b3.toNat % 128 * 2097152 := by
    have := or_lo32 (m32 b0 ||| lo32 b1 7 ||| lo32 b2 14) b3 21 (by decide) (by rw [e2]; omega)
    rw [e2] at this; omega
  by_cases h3 : b3.toNat < 128
  · simp [uvarint, idx?, fin_iff, Spec.C17.decU, Spec.C17.leb, nl1, nl2, nl3, nl4, nl5, h0, h1, h2, h3]
    (try rw [if_pos (by omega)]); (try dsimp only)
    refine ⟨?_, by simp⟩
    apply BitVec.eq_of_toNat_eq
    rw [e3, BitVec.toNat_ofNat]; omega
  rcases inp with _ | ⟨b4, inp⟩
  · simp [uvarint, idx?, fin_iff, Spec.C17.decU, Spec.C17.leb, nl1, nl2, nl3, nl4, nl5, h0, h1, h2, h3]
  have l4 := b4.isLt
  by_cases hl : b4.toNat ≤ 15
  · have hlt : b4.toNat < 128 := by omega
    have el : (m32 b0 ||| lo32 b1 7 ||| lo32 b2 14 ||| lo32 b3 21 ||| up32 b4 28).toNat = b0.toNat % 128 + b1.toNat % 128 * 128 + b2.toNat % 128 * 16384 + b3.toNat % 128 * 2097152 + b4.toNat * 268435456 := by
      have := or_up32 (m32 b0 ||| lo32 b1 7 ||| lo32 b2 14 ||| lo32 b3 21) b4 (by omega) (by rw [e3]; omega)
      rw [e3] at this; omega
    simp [uvarint, idx?, fin_iff, Spec.C17.decU, Spec.C17.leb, nl1, nl2, nl3, nl4, nl5, h0, h1, h2, h3, hlt, BitVec.le_def, hl]
    (try rw [if_pos (by omega)]); (try dsimp only)
    refine ⟨?_, by simp⟩
    apply BitVec.eq_of_toNat_eq
    rw [el, BitVec.toNat_ofNat]; omega
  · by_cases hlt : b4.toNat < 128
    · simp [uvarint, idx?, fin_iff, Spec.C17.decU, Spec.C17.leb, nl1, nl2, nl3, nl4, nl5, h0, h1, h2, h3, hlt, BitVec.le_def, hl]
      rw [if_neg (by omega)]; simp
    · simp [uvarint, idx?, fin_iff, Spec.C17.decU, Spec.C17.leb, nl1, nl2, nl3, nl4, nl5, h0, h1, h2, h3, hlt, BitVec.le_def, hl]

end Proof.C17
