import FranzVerif.Proof.C31Gate
/-! C31 — the gate: every execution is finite (lexicographic measure), for any programs. -/
namespace Model.C31.Gate

def opLen : Op → Nat | .P => 3 | .Q => 5 | .A => 2 | .R => 5
def progLen : List Op → Nat | [] => 0 | o :: r => opLen o + progLen r

/-- straight-line actions left (a park costs one, paid when the thread first decides to wait) -/
def main (t : Th) : Nat := progLen t.prog + match t.pc with
  | .pLock q => if q then 5 else 3
  | .pPark q | .pWait q | .pWake q => if q then 4 else 2
  | .pUnlock q => if q then 3 else 1
  | .uLock _ => 2 | .uUnlock _ => 1 | .aLock => 2 | .aUnlock => 1
  | .rLock => 5 | .rPark _ | .rWait _ | .rWake _ => 4 | .rUnlock => 3 | .xLock => 2 | .xUnlock => 1
  | .done => 0

/-- actions left inside a wait loop before the thread is parked again -/
def loc (t : Th) : Nat := match t.pc with
  | .pWake _ | .rWake _ => 2 | .pPark _ | .rPark _ => 1 | _ => 0

theorem main_start (p : List Op) : main (start p) = progLen p := by
  match p with
  | [] => rfl
  | .P :: r => simp [start, main, progLen, opLen]; omega
  | .Q :: r => simp [start, main, progLen, opLen]; omega
  | .A :: r => simp [start, main, progLen, opLen]; omega
  | .R :: r => simp [start, main, progLen, opLen]; omega

theorem main_wake (t : Th) : main (wake t) = main t := by
  obtain ⟨pc, p⟩ := t; cases pc <;> rfl

/-- The acting thread either makes straight-line progress, or (without broadcasting) moves on inside its wait loop. -/
theorem local_decrease (sh : Sh) (t : Th) (sh' : Sh) (t' : Th) (b : Bool) (ev : String)
    (hs : stepT sh t = some (sh', t', b, ev)) :
    main t' < main t ∨ (main t' = main t ∧ b = false ∧ loc t' < loc t) := by
  obtain ⟨pc, prog⟩ := t
  have hms := main_start prog
  cases pc <;> simp only [stepT, pollerEnter, pollerRewake, rebalLoop] at hs
  all_goals (repeat' (split at hs))
  all_goals (try (simp at hs; done))
  all_goals (simp only [Option.some.injEq, Prod.mk.injEq] at hs; obtain ⟨_, rfl, hb, _⟩ := hs)
  all_goals (try simp only [hms])
  all_goals (subst hb)
  all_goals (simp only [main, loc])
  all_goals (try (rename_i q _ _; cases q))
  all_goals (try (rename_i q _; cases q))
  all_goals (try (rename_i q; cases q))
  all_goals (simp)
  all_goals (try (split <;> omega))
  all_goals (try omega)

def M (s : St Sh Th) : Nat := cnt main s.ths
def L (s : St Sh Th) : Nat := cnt loc s.ths

/-- Every action decreases `(M, L)` lexicographically. -/
theorem step_decrease {s s' : St Sh Th} {i : Nat} {ev : String} (hs : sys.step s i = some (s', ev)) :
    M s' < M s ∨ (M s' = M s ∧ L s' < L s) := by
  obtain ⟨pre, t, post, sh', t', b, h1, _, h3, rfl⟩ := sys.step_decomp hs
  have em := fun l => sys.cnt_wakeAll_eq (f := main) (fun t => main_wake t) b l
  simp only [M, L, h1, cnt_append, cnt_cons, em]
  rcases local_decrease _ _ _ _ _ _ h3 with h | ⟨h, hb, hl⟩
  · left; omega
  · right; subst hb
    simp only [Sys.cnt_wakeAll_false]
    omega

/-- There is no infinite execution. -/
theorem no_infinite_run (f : Nat → St Sh Th) (h : ∀ n, ∃ i ev, sys.step (f n) i = some (f (n + 1), ev)) : False := by
  have hwf : WellFounded (Prod.Lex (· < ·) (· < ·) : Nat × Nat → Nat × Nat → Prop) :=
    (Prod.lex ⟨_, Nat.lt_wfRel.wf⟩ ⟨_, Nat.lt_wfRel.wf⟩).wf
  suffices H : ∀ x : Nat × Nat, ∀ n, (M (f n), L (f n)) = x → False from H _ 0 rfl
  intro x
  induction x using hwf.induction with
  | _ x ih =>
    intro n hn
    obtain ⟨i, ev, hs⟩ := h n
    refine ih (M (f (n + 1)), L (f (n + 1))) ?_ (n + 1) rfl
    rw [← hn]
    rcases step_decrease hs with h | ⟨h1, h2⟩
    · exact Prod.Lex.left _ _ h
    · rw [h1]; exact Prod.Lex.right _ h2

end Model.C31.Gate
