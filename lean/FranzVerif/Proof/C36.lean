import FranzVerif.Model.C36
import FranzVerif.Spec.C36
/-! C36 — helper lemmas for Props/C36.lean (core Lean only). -/
namespace Proof.C36
open Model.C36

/-! ### bytes and bits -/

set_option maxRecDepth 100000 in
theorem byte_facts : ∀ b : Fin 256, (b.val ||| 128) < 256 ∧ 128 ≤ (b.val ||| 128) ∧ (b.val ||| 128) &&& 127 = b.val % 128 ∧
    (b.val ||| 128) = b.val % 128 + 128 := by
  decide

theorem or_shl (acc v s : Nat) (h : acc < 2 ^ s) : acc ||| (v <<< s) = acc + v * 2 ^ s := by
  rw [Nat.or_comm, ← Nat.shiftLeft_add_eq_or_of_lt h, Nat.shiftLeft_eq, Nat.add_comm]

theorem contByte (x : Nat) :
    (UInt8.ofNat ((x % 256) ||| 128)).toNat = ((x % 256) ||| 128) ∧ 128 ≤ ((x % 256) ||| 128) ∧
    ((x % 256) ||| 128) &&& 127 = x % 128 := by
  have h := byte_facts ⟨x % 256, by omega⟩
  simp only at h
  refine ⟨?_, h.2.1, ?_⟩
  · simp only [UInt8.toNat_ofNat']; omega
  · rw [h.2.2.1]; omega

/-! ### uvarint round trip -/

theorem readU_appendU (x : Nat) : ∀ (i acc s : Nat) (rest : Bytes), s = 7 * i → i ≤ 9 → acc < 2 ^ s → x * 2 ^ s < 18446744073709551616 →
    readUvarint i acc s (appendUvarint x ++ rest) = .ok (acc + x * 2 ^ s, rest) := by
  fun_induction appendUvarint x with
  | case1 x hx ih =>
    intro i acc s rest hs hi hacc hxs
    obtain ⟨hb1, hb2, hb3⟩ := contByte x
    have hi8 : i ≤ 8 := by
      rcases Nat.lt_or_ge i 9 with h | h
      · omega
      · have : i = 9 := by omega
        subst this; subst hs; simp at hxs; omega
    simp only [List.cons_append, readUvarint, hb1, hb3]
    have h1 : ¬ (i ≥ 10) := by omega
    have h2 : ¬ ((x % 256 ||| 128) < 128) := by omega
    have h3 : ¬ (i = 9) := by omega
    simp only [h1, h2, h3, if_false]
    rw [or_shl acc _ s hacc]
    have hp : 2 ^ (s + 7) = 2 ^ s * 128 := by rw [Nat.pow_add]
    have hsh : x >>> 7 = x / 128 := by simp [Nat.shiftRight_eq_div_pow]
    rw [ih (i + 1) (acc + x % 128 * 2 ^ s) (s + 7) rest (by omega) (by omega)]
    · congr 2
      rw [hp, hsh]
      have : x = x % 128 + x / 128 * 128 := by omega
      generalize 2 ^ s = p at *
      calc acc + x % 128 * p + x / 128 * (p * 128) = acc + (x % 128 + x / 128 * 128) * p := by
            rw [Nat.add_mul, Nat.mul_comm p 128, ← Nat.mul_assoc]; omega
        _ = acc + x * p := by rw [← this]
    · rw [hp]
      have : x % 128 * 2 ^ s ≤ 127 * 2 ^ s := Nat.mul_le_mul_right _ (by omega)
      omega
    · rw [hp, hsh]
      have : x / 128 * (2 ^ s * 128) ≤ x * 2 ^ s := by
        rw [Nat.mul_comm (2 ^ s) 128, ← Nat.mul_assoc]
        exact Nat.mul_le_mul_right _ (by omega)
      omega
  | case2 x hx =>
    intro i acc s rest hs hi hacc hxs
    have hb : (UInt8.ofNat x).toNat = x := by simp only [UInt8.toNat_ofNat']; omega
    simp only [List.cons_append, List.nil_append, readUvarint, hb]
    have h1 : ¬ (i ≥ 10) := by omega
    have h2 : x < 128 := by omega
    have h3 : ¬ (i = 9 ∧ x > 1) := by
      intro ⟨h9, hx1⟩
      subst h9; subst hs; simp at hxs; omega
    simp only [h1, h2, h3, if_false, if_true]
    rw [or_shl acc _ s hacc]

theorem readU_appendU0 (x : Nat) (rest : Bytes) (h : x < 18446744073709551616) :
    readUvarint 0 0 0 (appendUvarint x ++ rest) = .ok (x, rest) := by
  have := readU_appendU x 0 0 0 rest (by omega) (by omega) (by simp) (by simpa using h)
  simpa using this

theorem unzigzag_zigzag (v : Int) (h : I64 v) : unzigzag (zigzag v) = v ∧ zigzag v < 18446744073709551616 := by
  unfold I64 at h
  unfold unzigzag zigzag
  split <;> constructor <;> omega

theorem readVarint_appendVarint (v : Int) (h : I64 v) (rest : Bytes) :
    readVarint (appendVarint v ++ rest) = .ok (v, rest) := by
  obtain ⟨h1, h2⟩ := unzigzag_zigzag v h
  simp [readVarint, appendVarint, readU_appendU0 _ rest h2, h1]


/-! ### model writer = Spec wire format -/

theorem appendUvarint_eq_leb (x : Nat) : appendUvarint x = Spec.C36.leb x := by
  fun_induction appendUvarint x with
  | case1 x hx ih =>
    rw [Spec.C36.leb]
    have h := (byte_facts ⟨x % 256, by omega⟩).2.2.2
    simp only at h
    have hsh : x >>> 7 = x / 128 := by simp [Nat.shiftRight_eq_div_pow]
    have h2 : ¬ x < 128 := by omega
    rw [hsh] at ih
    simp only [h2, if_false, h, ih, hsh]
    congr 2; omega
  | case2 x hx =>
    rw [Spec.C36.leb]
    have h2 : x < 128 := by omega
    simp [h2]

theorem zigzag_eq_zz (v : Int) : zigzag v = Spec.C36.zz v := by
  unfold zigzag Spec.C36.zz; split <;> split <;> omega

theorem appendVarint_eq_wire (v : Int) : appendVarint v = Spec.C36.wireVarint v := by
  simp [appendVarint, Spec.C36.wireVarint, appendUvarint_eq_leb, zigzag_eq_zz]

theorem wireIndex_eq (index : List Int) : Spec.C36.wireIndex index =
    if index.isEmpty then [] else if index = [0] then [0]
    else Spec.C36.wireVarint index.length ++ index.flatMap Spec.C36.wireVarint := by
  unfold Spec.C36.wireIndex
  split <;> simp_all

theorem encodeIndex_eq_wire (index : List Int) : encodeIndex index = Spec.C36.wireIndex index := by
  have hf : index.flatMap appendVarint = index.flatMap Spec.C36.wireVarint := by
    congr 1; funext v; exact appendVarint_eq_wire v
  rw [wireIndex_eq, encodeIndex, hf, appendVarint_eq_wire]

theorem byteOf_toNat (v : Int) : (byteOf v).toNat = (v % 256).toNat := by
  unfold byteOf; simp only [UInt8.toNat_ofNat']; omega

theorem header_bytes (id : Int) (h0 : 0 ≤ id) (h1 : id < 4294967296) :
    [byteOf (id / 16777216), byteOf (id / 65536), byteOf (id / 256), byteOf id] = Spec.C36.be32 id.toNat := by
  have e : ∀ (v : Int) (n : Nat), (v % 256).toNat = n → byteOf v = UInt8.ofNat n := by
    intro v n h; unfold byteOf; rw [h]
  unfold Spec.C36.be32
  rw [e (id / 16777216) (id.toNat / 16777216 % 256) (by omega), e (id / 65536) (id.toNat / 65536 % 256) (by omega),
      e (id / 256) (id.toNat / 256 % 256) (by omega), e id (id.toNat % 256) (by omega)]

/-! ### header reader on written headers -/

theorem decodeID_be32 (n : Nat) (h : n < 4294967296) (rest : Bytes) :
    decodeID (0 :: Spec.C36.be32 n ++ rest) = .ok ((n : Int), rest) := by
  simp only [Spec.C36.be32, List.cons_append, List.nil_append, decodeID, UInt8.toNat_ofNat']
  simp only [ne_eq, not_true_eq_false, if_false]
  congr 3
  omega

theorem readN_encoded (index : List Int) (h : ∀ v ∈ index, I64 v) (rest : Bytes) :
    readN index.length (index.flatMap appendVarint ++ rest) = .ok (index, rest) := by
  induction index with
  | nil => simp [readN]
  | cons v vs ih =>
    have hv := h v (by simp)
    simp only [List.length_cons, List.flatMap_cons, List.append_assoc, readN,
      readVarint_appendVarint v hv, ih (fun w hw => h w (by simp [hw]))]

theorem allocCap_ok (l : Int) (r : Bytes) (h : 0 ≤ l) : ¬ (allocCap l r < 0 ∨ allocCap l r > (r.length : Int)) := by
  unfold allocCap; split <;> omega

theorem decodeIndex_encoded (index : List Int) (m : Int) (rest : Bytes)
    (hne : index ≠ []) (h : ∀ v ∈ index, I64 v) (hlen : index.length < 9223372036854775808)
    (hm : m ≤ 0 ∨ (index.length : Int) ≤ m) :
    decodeIndex (encodeIndex index ++ rest) m = .ok (index, rest) := by
  unfold encodeIndex
  have hemp : index.isEmpty = false := by cases index <;> simp_all
  simp only [hemp, Bool.false_eq_true, if_false]
  by_cases h0 : index = [0]
  · subst h0
    have : readVarint ((0 : UInt8) :: rest) = .ok (0, rest) := by
      simp [readVarint, readUvarint, unzigzag]
    simp [decodeIndex, this]
  · simp only [h0, if_false, List.append_assoc]
    have hl : I64 (index.length : Int) := by unfold I64; omega
    have hpos : 0 < index.length := List.length_pos_iff.mpr hne
    unfold decodeIndex
    rw [readVarint_appendVarint _ hl]
    have c1 : ¬ ((index.length : Int) = 0) := by omega
    have c2 : ¬ ((index.length : Int) < 0) := by omega
    have c3 : ¬ (m > 0 ∧ (index.length : Int) > m) := by omega
    have c4 := allocCap_ok (index.length : Int) (index.flatMap appendVarint ++ rest) (by omega)
    simp only [c1, c2, c3, c4, Int.toNat_natCast, if_false]
    exact readN_encoded index h rest


/-! ### model reader = Spec reader on every byte string -/

def eOpt {α} : Except Err α → Option α
  | .ok a => some a
  | .error _ => none

def oOpt {α} : Out α → Option α
  | .ok a => some a
  | _ => none

theorem readU_eq_parseLeb (b : Bytes) : ∀ (i x s : Nat), s = 7 * i → i ≤ 9 → x < 2 ^ s →
    eOpt (readUvarint i x s b) = (Spec.C36.parseLeb i b).map (fun p => (x + p.1 * 2 ^ s, p.2)) := by
  induction b with
  | nil => intro i x s _ _ _; simp [readUvarint, Spec.C36.parseLeb, eOpt]
  | cons c rest ih =>
    intro i x s hs hi hx
    have h10 : ¬ (i ≥ 10) := by omega
    simp only [readUvarint, Spec.C36.parseLeb, h10, if_false]
    by_cases hc : c.toNat < 128
    · simp only [hc, if_true]
      by_cases h9 : i = 9 ∧ c.toNat > 1
      · simp [h9, eOpt]
      · simp only [h9, if_false, eOpt, Option.map_some, or_shl x _ s hx]
    · simp only [hc, if_false]
      by_cases h9 : i = 9
      · have : i ≥ 9 := by omega
        simp [h9, eOpt]
      · have h9' : ¬ (i ≥ 9) := by omega
        simp only [h9, h9', if_false]
        have hand : c.toNat &&& 127 = c.toNat % 128 := Nat.and_two_pow_sub_one_eq_mod c.toNat 7
        have hlt : c.toNat < 256 := c.toNat_lt
        have hp : 2 ^ (s + 7) = 2 ^ s * 128 := by rw [Nat.pow_add]
        rw [hand, or_shl x _ s hx]
        have hx' : x + c.toNat % 128 * 2 ^ s < 2 ^ (s + 7) := by
          rw [hp]
          have : c.toNat % 128 * 2 ^ s ≤ 127 * 2 ^ s := Nat.mul_le_mul_right _ (by omega)
          omega
        rw [ih (i + 1) _ (s + 7) (by omega) (by omega) hx']
        cases hpl : Spec.C36.parseLeb (i + 1) rest with
        | none => simp
        | some p =>
          obtain ⟨v, r⟩ := p
          simp only [Option.map_some, Option.some.injEq, Prod.mk.injEq, and_true]
          rw [hp]
          have hm : c.toNat % 128 = c.toNat - 128 := by omega
          rw [hm]
          generalize 2 ^ s = q
          generalize c.toNat - 128 = k
          rw [Nat.add_mul, Nat.add_assoc, Nat.mul_assoc 128 v q, Nat.mul_comm 128 (v * q), Nat.mul_assoc v q 128]

theorem unzigzag_eq_unzz (u : Nat) : unzigzag u = Spec.C36.unzz u := by
  unfold unzigzag Spec.C36.unzz; split <;> split <;> omega

theorem readVarint_eq_parse (b : Bytes) : eOpt (readVarint b) = Spec.C36.parseVarint b := by
  have h := readU_eq_parseLeb b 0 0 0 (by omega) (by omega) (by simp)
  unfold readVarint Spec.C36.parseVarint
  cases hr : readUvarint 0 0 0 b with
  | error e =>
    rw [hr] at h
    cases hp : Spec.C36.parseLeb 0 b with
    | none => simp [eOpt]
    | some p => rw [hp] at h; simp [eOpt] at h
  | ok p =>
    rw [hr] at h
    cases hp : Spec.C36.parseLeb 0 b with
    | none => rw [hp] at h; simp [eOpt] at h
    | some q =>
      rw [hp] at h
      simp [eOpt] at h
      obtain ⟨u, r⟩ := p
      obtain ⟨u', r'⟩ := q
      simp at h
      simp [eOpt, h.1, h.2, unzigzag_eq_unzz]

theorem readN_no_panic (n : Nat) : ∀ b, readN n b ≠ .panic := by
  induction n with
  | zero => intro b; simp [readN]
  | succ n ih =>
    intro b
    unfold readN
    cases readVarint b with
    | error e => simp
    | ok p =>
      obtain ⟨v, r⟩ := p
      have := ih r
      simp only
      cases h : readN n r <;> simp_all

theorem readN_eq_parseMany (n : Nat) : ∀ b, oOpt (readN n b) = Spec.C36.parseMany n b := by
  induction n with
  | zero => intro b; simp [readN, Spec.C36.parseMany, oOpt]
  | succ n ih =>
    intro b
    have hv := readVarint_eq_parse b
    unfold readN Spec.C36.parseMany
    rw [← hv]
    cases readVarint b with
    | error e => simp [eOpt, oOpt]
    | ok p =>
      obtain ⟨v, r⟩ := p
      simp only [eOpt]
      rw [← ih r]
      cases h : readN n r <;> simp [oOpt]

theorem parseMany_length (n : Nat) : ∀ b r, Spec.C36.parseMany n b = some r → r.1.length = n := by
  induction n with
  | zero => intro b r h; simp [Spec.C36.parseMany] at h; subst h; rfl
  | succ n ih =>
    intro b r h
    unfold Spec.C36.parseMany at h
    cases hv : Spec.C36.parseVarint b with
    | none => simp [hv] at h
    | some p =>
      obtain ⟨v, rr⟩ := p
      simp only [hv] at h
      cases hm : Spec.C36.parseMany n rr with
      | none => simp [hm] at h
      | some q =>
        simp only [hm, Option.some.injEq] at h
        subst h
        simp [ih rr q hm]

theorem decodeIndex_no_panic (b : Bytes) (m : Int) : decodeIndex b m ≠ .panic := by
  unfold decodeIndex
  cases hr : readVarint b with
  | error e => simp
  | ok p =>
    obtain ⟨l, r⟩ := p
    simp only
    split; · simp
    split; · simp
    split; · simp
    rename_i h0 h1 _
    have c4 := allocCap_ok l r (by omega)
    simp only [c4, if_false]
    exact readN_no_panic _ _

theorem decodeIndex_spec (b : Bytes) (m : Int) :
    Spec.C36.decodeIndexAllowed b m (decodeIndex b m) = true := by
  have hv := readVarint_eq_parse b
  unfold decodeIndex
  cases hr : readVarint b with
  | error e =>
    rw [hr] at hv
    simp [Spec.C36.decodeIndexAllowed, Spec.C36.parseIndex, ← hv, eOpt]
  | ok p =>
    obtain ⟨l, r⟩ := p
    rw [hr] at hv
    simp only [eOpt] at hv
    simp only
    by_cases c1 : l = 0
    · simp [c1, Spec.C36.decodeIndexAllowed, Spec.C36.parseIndex, ← hv]
      omega
    by_cases c2 : l < 0
    · simp [c1, c2, Spec.C36.decodeIndexAllowed, Spec.C36.parseIndex, ← hv]
    by_cases c3 : m > 0 ∧ l > m
    · simp only [c1, c2, c3, if_false, if_true, and_self, Spec.C36.decodeIndexAllowed, Spec.C36.parseIndex, ← hv]
      cases hpm : Spec.C36.parseMany l.toNat r with
      | none => simp
      | some q =>
        have := parseMany_length _ _ _ hpm
        simp only [Bool.and_eq_true, decide_eq_true_eq]
        refine ⟨trivial, ?_⟩
        rw [this]; omega
    have c4 := allocCap_ok l r (by omega)
    · simp only [c1, c2, c3, c4, if_false]
      have hm := readN_eq_parseMany l.toNat r
      cases hn : readN l.toNat r with
      | panic => exact absurd hn (readN_no_panic _ _)
      | err e =>
        rw [hn] at hm
        simp [Spec.C36.decodeIndexAllowed, Spec.C36.parseIndex, ← hv, c1, c2, ← hm, oOpt]
      | ok q =>
        rw [hn] at hm
        have hl := parseMany_length _ _ _ hm.symm
        simp only [Spec.C36.decodeIndexAllowed, Spec.C36.parseIndex, ← hv, c1, c2, if_false, ← hm, oOpt, beq_self_eq_true,
          Bool.true_and, Bool.or_eq_true, decide_eq_true_eq]
        omega

theorem decodeID_spec (b : Bytes) : Spec.C36.decodeIDAllowed b (decodeID b) = true := by
  match b with
  | [] | [_] | [_, _] | [_, _, _] | [_, _, _, _] => simp [decodeID, Spec.C36.decodeIDAllowed]
  | m :: a :: b :: c :: d :: rest =>
    by_cases hm : m = 0
    · subst hm
      have ha := a.toNat_lt; have hb := b.toNat_lt; have hc := c.toNat_lt; have hd := d.toNat_lt
      have e : ∀ (n : Nat) (u : UInt8), n = u.toNat → UInt8.ofNat n = u := by
        intro n u h; subst h; simp
      simp only [decodeID, ne_eq, not_true_eq_false, if_false, Spec.C36.decodeIDAllowed, Spec.C36.be32, Int.toNat_natCast]
      rw [e _ a (by omega), e _ b (by omega), e _ c (by omega), e _ d (by omega)]
      simp
      omega
    · simp [decodeID, hm, Spec.C36.decodeIDAllowed]


/-! ### Serde registry -/

theorem mget_mset_same (m : Map) (k : Int) (v : Node) : mget (mset m k v) k = v := by
  simp [mget, mset, List.lookup]

theorem mget_mset_ne (m : Map) (k k' : Int) (v : Node) (h : k' ≠ k) : mget (mset m k v) k' = mget m k' := by
  have : (k' == k) = false := by simp [h]
  simp [mget, mset, List.lookup, this]

theorem mget_nil (k : Int) : mget [] k = Node.zero := by simp [mget]

theorem walk_zero (q : List Int) : walk Node.zero q = Node.zero := by
  induction q with
  | nil => rfl
  | cons i q ih => simp only [walk]; rw [show Node.zero.sub = [] from rfl, mget_nil]; exact ih

/-- Data found along any path after `insertPath`: the new data exactly at the inserted path, unchanged elsewhere. -/
theorem walk_insertPath (index : List Int) : ∀ (m : Map) (k : Int) (depth : Nat) (d : Data) (k' : Int) (q : List Int),
    (walk (mget (insertPath m k index depth d) k') q).d =
      if k' :: q = k :: index then d else (walk (mget m k') q).d := by
  induction index with
  | nil =>
    intro m k depth d k' q
    unfold insertPath
    by_cases hk : k' = k
    · subst hk
      rw [mget_mset_same]
      cases q with
      | nil => simp [walk, Node.d]
      | cons i q' => simp [walk, Node.sub]
    · rw [mget_mset_ne _ _ _ _ hk]; simp [hk]
  | cons idx rest ih =>
    intro m k depth d k' q
    unfold insertPath
    by_cases hk : k' = k
    · subst hk
      rw [mget_mset_same]
      cases q with
      | nil => simp [walk, Node.d]
      | cons i q' =>
        simp only [walk, Node.sub]
        rw [ih]
        simp
    · rw [mget_mset_ne _ _ _ _ hk]; simp [hk]

theorem depth_insertPath (index : List Int) (m : Map) (k : Int) (depth : Nat) (d : Data) (k' : Int) :
    (mget (insertPath m k index depth d) k').depth =
      if k' = k ∧ index ≠ [] then max (mget m k').depth depth else (mget m k').depth := by
  by_cases hk : k' = k
  · subst hk
    cases index <;> simp [insertPath, mget_mset_same, Node.depth]
  · cases index <;> simp [insertPath, mget_mset_ne _ _ _ _ hk, hk]

theorem sub_insertPath_nil (m : Map) (k : Int) (depth : Nat) (d : Data) (k' : Int) :
    (mget (insertPath m k [] depth d) k').sub = (mget m k').sub := by
  by_cases hk : k' = k
  · subst hk; simp [insertPath, mget_mset_same, Node.sub]
  · simp [insertPath, mget_mset_ne _ _ _ _ hk]

theorem mget_insertPath_ne (index : List Int) (m : Map) (k : Int) (depth : Nat) (d : Data) (k' : Int) (hk : k' ≠ k) :
    mget (insertPath m k index depth d) k' = mget m k' := by
  cases index <;> simp [insertPath, mget_mset_ne _ _ _ _ hk]

theorem lookup_filter_ne (l : List (Nat × Data)) (x ty : Nat) :
    (l.filter (fun p => p.1 != x)).lookup ty = if ty = x then none else l.lookup ty := by
  induction l with
  | nil => simp
  | cons p l ih =>
    obtain ⟨a, b⟩ := p
    by_cases hax : a = x
    · subst hax
      simp only [List.filter_cons, bne_self_eq_false, Bool.false_eq_true, if_false, ih, List.lookup_cons]
      by_cases h : ty = a
      · simp [h]
      · have : (ty == a) = false := by simp [h]
        simp [h, this]
    · have hne : (a != x) = true := by simp [hax]
      simp only [List.filter_cons, hne, if_true, List.lookup_cons, ih]
      by_cases h : ty = a
      · subst h; simp [hax]
      · have : (ty == a) = false := by simp [h]
        simp [this]

/-- A registration with a schema id, Go-int index entries and an index the runtime can hold. -/
def ValidOp (o : RegOp) : Prop :=
  0 ≤ o.id ∧ o.id < 4294967296 ∧ (∀ v ∈ o.index, I64 v) ∧ o.index.length < 9223372036854775808

structure Inv (s : Reg) : Prop where
  types : ∀ ty t, s.types.lookup ty = some t →
    t.exists_ = true ∧ t.ty = ty ∧ (walk (mget s.ids t.id32) t.index).d = t ∧ 0 ≤ t.id32 ∧ t.id32 < 4294967296 ∧
    (∀ v ∈ t.index, I64 v) ∧ t.index.length < 9223372036854775808
  depth : ∀ k q, (walk (mget s.ids k) q).d.exists_ = true → q.length ≤ (mget s.ids k).depth

theorem inv_empty : Inv {} := by
  refine ⟨by intro ty t h; simp at h, ?_⟩
  intro k q h; rw [mget_nil, walk_zero] at h; simp [Node.zero, Node.d] at h

theorem inv_register (s : Reg) (o : RegOp) (hs : Inv s) (ho : ValidOp o) : Inv (register s o) := by
  obtain ⟨h0, h1, hI, hL⟩ := ho
  have hid : o.id % 4294967296 = o.id := by omega
  refine ⟨?_, ?_⟩
  · intro ty t ht
    simp only [register, List.lookup_cons] at ht
    by_cases hty : ty = o.ty
    · subst hty
      simp only [beq_self_eq_true, Option.some.injEq] at ht
      subst ht
      simp only [register, hid]
      refine ⟨by simp, by simp, ?_, h0, h1, hI, hL⟩
      rw [walk_insertPath]; simp
    · have hb : (ty == o.ty) = false := by simp [hty]
      simp only [hb] at ht
      -- the mapping survived the deletion of the displaced type
      have hold : s.types.lookup ty = some t ∧
          ((walk (mget s.ids o.id) o.index).d.exists_ = true → ty ≠ (walk (mget s.ids o.id) o.index).d.ty) := by
        by_cases hex : (walk (mget s.ids o.id) o.index).d.exists_ = true
        · simp only [hex, if_true, lookup_filter_ne] at ht
          by_cases hq : ty = (walk (mget s.ids o.id) o.index).d.ty
          · simp [hq] at ht
          · simp only [hq, if_false] at ht; exact ⟨ht, fun _ => hq⟩
        · simp only [hex, Bool.false_eq_true, if_false] at ht
          exact ⟨ht, fun h => absurd h hex⟩
      obtain ⟨hl, hne⟩ := hold
      obtain ⟨e1, e2, e3, e4, e5, e6, e8⟩ := hs.types ty t hl
      refine ⟨e1, e2, ?_, e4, e5, e6, e8⟩
      simp only [register]
      rw [walk_insertPath]
      by_cases hp : t.id32 :: t.index = o.id :: o.index
      · exfalso
        simp only [List.cons.injEq] at hp
        rw [hp.1, hp.2] at e3
        have := hne (by rw [e3]; exact e1)
        rw [e3] at this
        exact this e2.symm
      · simp only [hp, if_false]; exact e3
  · intro k q hq
    simp only [register] at hq ⊢
    rw [walk_insertPath] at hq
    rw [depth_insertPath]
    by_cases hp : k :: q = o.id :: o.index
    · simp only [List.cons.injEq] at hp
      obtain ⟨rfl, rfl⟩ := hp
      by_cases hn : o.index = []
      · simp [hn]
      · simp only [hn, ne_eq, not_false_eq_true, and_self, if_true]; omega
    · simp only [hp, if_false] at hq
      have := hs.depth k q hq
      split <;> omega

theorem inv_foldl (ops : List RegOp) : ∀ s, Inv s → (∀ o ∈ ops, ValidOp o) → Inv (ops.foldl register s) := by
  induction ops with
  | nil => intro s hs _; exact hs
  | cons o os ih =>
    intro s hs hv
    exact ih _ (inv_register s o hs (hv o (by simp))) (fun o' ho' => hv o' (by simp [ho']))

theorem inv_build (ops : List RegOp) (hv : ∀ o ∈ ops, ValidOp o) : Inv (build ops) :=
  inv_foldl ops {} inv_empty hv

theorem findWalk_of_exists (q : List Int) : ∀ t : Node, (walk t q).d.exists_ = true → findWalk t q = .ok (walk t q) := by
  induction q with
  | nil => intro t _; rfl
  | cons i q ih =>
    intro t h
    simp only [walk] at h
    simp only [findWalk, walk]
    by_cases he : t.sub.isEmpty = true
    · have : t.sub = [] := by simpa using he
      rw [this, mget_nil, walk_zero] at h
      simp [Node.zero, Node.d] at h
    · simp only [he, Bool.false_eq_true, if_false]
      exact ih _ h

theorem findWalk_no_panic (q : List Int) : ∀ t : Node, findWalk t q ≠ .panic := by
  induction q with
  | nil => intro t; simp [findWalk]
  | cons i q ih => intro t; simp only [findWalk]; split; · simp
                   exact ih _

theorem finish_no_panic (t : Node) (b : Bytes) : finish t b ≠ .panic := by
  unfold finish; split <;> simp

theorem decodeID_appendEncode (id : Int) (h0 : 0 ≤ id) (h1 : id < 4294967296) (index : List Int) (payload : Bytes) :
    decodeID (appendEncode [] id index ++ payload) = .ok (id, encodeIndex index ++ payload) := by
  have hb := header_bytes id h0 h1
  have : appendEncode [] id index ++ payload = 0 :: Spec.C36.be32 id.toNat ++ (encodeIndex index ++ payload) := by
    simp only [appendEncode, List.nil_append, List.cons_append, List.append_assoc, List.cons.injEq, true_and]
    rw [← hb]; simp
  rw [this, decodeID_be32 _ (by omega)]
  congr 2
  omega

/-- keys never registered read as the zero value -/
theorem mget_foldl_unregistered (ops : List RegOp) (id : Int) : ∀ s : Reg, (∀ o ∈ ops, o.id ≠ id) →
    mget (ops.foldl register s).ids id = mget s.ids id := by
  induction ops with
  | nil => intro s _; rfl
  | cons o os ih =>
    intro s h
    simp only [List.foldl_cons]
    rw [ih _ (fun o' ho' => h o' (by simp [ho']))]
    simp only [register]
    exact mget_insertPath_ne _ _ _ _ _ _ (fun e => h o (by simp) e.symm)


/-- An id is registered either with or without message indexes: no root node both holds a registration and
has a subindex tree (decidable: a finite check over the stored root keys). -/
def Consistent (s : Reg) : Bool :=
  s.ids.all fun p => !(mget s.ids p.1).d.exists_ || (mget s.ids p.1).sub.isEmpty

theorem lookup_mem (m : Map) (k : Int) (v : Node) (h : m.lookup k = some v) : ∃ p ∈ m, p.1 = k := by
  induction m with
  | nil => simp at h
  | cons p m ih =>
    obtain ⟨a, b⟩ := p
    simp only [List.lookup_cons] at h
    by_cases hk : k = a
    · exact ⟨(a, b), by simp, hk.symm⟩
    · have : (k == a) = false := by simp [hk]
      simp only [this] at h
      obtain ⟨p, hp, e⟩ := ih h
      exact ⟨p, by simp [hp], e⟩

theorem consistent_root (s : Reg) (hc : Consistent s = true) (id : Int) (hex : (mget s.ids id).d.exists_ = true) :
    (mget s.ids id).sub.isEmpty = true := by
  cases hl : s.ids.lookup id with
  | none => simp [mget, hl, Node.zero, Node.d] at hex
  | some v =>
    obtain ⟨p, hp, e⟩ := lookup_mem _ _ _ hl
    have := List.all_eq_true.mp hc p hp
    rw [e] at this
    simpa [hex] using this

theorem wire_of_appendEncode (pre : Bytes) (id : Int) (h0 : 0 ≤ id) (h1 : id < 4294967296) (index : List Int) :
    appendEncode pre id index = pre ++ Spec.C36.wireHeader id index := by
  simp only [appendEncode, Spec.C36.wireHeader, ← header_bytes id h0 h1, encodeIndex_eq_wire]
  simp

theorem roundtrip (s : Reg) (hs : Inv s) (hc : Consistent s = true) (ty : Nat) (payload out : Bytes)
    (he : encode s [] ty payload = .ok out) :
    ∃ t, s.types.lookup ty = some t ∧ t.ty = ty ∧ out = Spec.C36.wireHeader t.id32 t.index ++ payload ∧
      decodeFind s out = if t.dec then .ok (t, payload) else .err .notRegistered := by
  unfold encode at he
  cases hl : s.types.lookup ty with
  | none => simp [hl] at he
  | some t =>
    simp only [hl] at he
    by_cases henc : t.enc = true
    · simp only [henc, Bool.not_true, Bool.false_eq_true, if_false, Out.ok.injEq] at he
      obtain ⟨e1, e2, e3, e4, e5, e6, e8⟩ := hs.types ty t hl
      refine ⟨t, rfl, e2, ?_, ?_⟩
      · rw [← he, wire_of_appendEncode [] _ e4 e5]; simp
      · rw [← he]
        unfold decodeFind
        rw [decodeID_appendEncode _ e4 e5]
        simp only
        cases hidx : t.index with
        | nil =>
          rw [hidx] at e3
          simp only [walk] at e3
          have hex : (mget s.ids t.id32).d.exists_ = true := by rw [e3]; exact e1
          have hemp := consistent_root s hc _ hex
          simp only [hemp, Bool.not_true, Bool.false_eq_true, if_false, encodeIndex, List.isEmpty_nil, if_true, List.nil_append]
          unfold finish
          rw [e3, e1]
          cases t.dec <;> simp
        | cons i q =>
          have hex : (walk (mget s.ids t.id32) t.index).d.exists_ = true := by rw [e3]; exact e1
          have hne : (mget s.ids t.id32).sub.isEmpty = false := by
            cases hb : (mget s.ids t.id32).sub.isEmpty with
            | false => rfl
            | true =>
              have : (mget s.ids t.id32).sub = [] := by simpa using hb
              rw [hidx] at hex
              simp only [walk] at hex
              rw [this, mget_nil, walk_zero] at hex
              simp [Node.zero, Node.d] at hex
          have hd := hs.depth _ _ hex
          have hdec := decodeIndex_encoded t.index (mget s.ids t.id32).depth payload (by simp [hidx]) e6 e8
            (Or.inr (by omega))
          rw [← hidx]
          simp only [hne, Bool.not_false, if_true, hdec, findWalk_of_exists _ _ hex]
          unfold finish
          rw [e3, e1]
          cases t.dec <;> simp
    · simp [henc] at he

theorem decodeFind_no_panic (s : Reg) (b : Bytes) : decodeFind s b ≠ .panic := by
  unfold decodeFind
  cases hid : decodeID b with
  | panic =>
    have := decodeID_spec b
    rw [hid] at this; simp [Spec.C36.decodeIDAllowed] at this
  | err e => simp
  | ok p =>
    obtain ⟨id, b1⟩ := p
    simp only
    split
    · cases hdi : decodeIndex b1 (mget s.ids id).depth with
      | panic => exact absurd hdi (decodeIndex_no_panic _ _)
      | err e => simp
      | ok q =>
        obtain ⟨index, b2⟩ := q
        simp only
        cases hf : findWalk (mget s.ids id) index with
        | panic => exact absurd hf (findWalk_no_panic _ _)
        | err e => simp
        | ok t' => exact finish_no_panic _ _
    · exact finish_no_panic _ _

theorem decodeFind_malformed (s : Reg) (b : Bytes) (h : b.length < 5 ∨ b.head? ≠ some 0) :
    decodeFind s b = .err .badHeader := by
  have : decodeID b = .err .badHeader := by
    match b, h with
    | [], _ | [_], _ | [_, _], _ | [_, _, _], _ | [_, _, _, _], _ => simp [decodeID]
    | m :: a :: b :: c :: d :: rest, h =>
      have : m ≠ 0 := by
        rcases h with h | h
        · simp at h; omega
        · simpa using h
      simp [decodeID, this]
  simp [decodeFind, this]

theorem decodeFind_unregistered (ops : List RegOp) (b b1 : Bytes) (id : Int) (hid : decodeID b = .ok (id, b1))
    (hun : ∀ o ∈ ops, o.id ≠ id) : decodeFind (build ops) b = .err .notRegistered := by
  have hz : mget (build ops).ids id = Node.zero := by
    unfold build
    rw [mget_foldl_unregistered ops id {} hun]
    exact mget_nil id
  simp [decodeFind, hid, hz, Node.zero, Node.sub, finish, Node.d]

end Proof.C36
