import FranzVerif.Model.C22Frame
/-! Helper lemmas about the frame parser model (C22). -/
namespace Proof.C22Frame
open Model.C22Frame

theorem u32?_some_length {s : Bytes} {v : Nat} (h : u32? s = some v) : 4 ≤ s.length := by
  match s, h with
  | _ :: _ :: _ :: _ :: _, _ => simp only [List.length_cons]; omega

theorem u32?_isSome {s : Bytes} (h : 4 ≤ s.length) : ∃ v, u32? s = some v := by
  match s, h with
  | a :: b :: c :: d :: _, _ => exact ⟨_, rfl⟩

theorem u32?_take {l : Bytes} {n : Nat} (h : 4 ≤ (l.take n).length) : u32? (l.take n) = u32? l := by
  rw [List.length_take] at h
  have hl : 4 ≤ l.length := by omega
  obtain ⟨m, rfl⟩ : ∃ m, n = m + 4 := ⟨n - 4, by omega⟩
  match l, hl with
  | a :: b :: c :: d :: t, _ => simp only [List.take_succ_cons, u32?]

theorem from4?_isSome {s : Bytes} (h : ¬ s.length < 4) : ∃ b, from4? s = some b := by
  unfold from4?; rw [if_neg h]; exact ⟨_, rfl⟩

theorem mkBuf?_isSome {n : Int} (h : ¬ n < 0) : ∃ k, mkBuf? n = some k := by
  unfold mkBuf?; rw [if_neg h]; exact ⟨_, rfl⟩

theorem uvarint_lt {b : Bytes} {v n : Nat} (h : uvarint b = some (v, n)) : v < 4294967296 := by
  unfold uvarint at h
  repeat' split at h
  all_goals (try simp at h)
  all_goals (obtain ⟨rfl, _⟩ := h; omega)

theorem rdUvarint_lt (r : Rd) : (rdUvarint r).1 < 4294967296 := by
  unfold rdUvarint
  split
  · simp
  · rename_i v n h; exact uvarint_lt h

theorem uvarint_consumed {b : Bytes} {v n : Nat} (h : uvarint b = some (v, n)) : 1 ≤ n ∧ n ≤ b.length := by
  unfold uvarint at h
  repeat' split at h
  all_goals (try simp at h)
  all_goals (obtain ⟨_, rfl⟩ := h; simp only [List.length_cons]; omega)

theorem rdUvarint_good {r : Rd} (h : (rdUvarint r).2.bad = false) :
    (rdUvarint r).2.src.length + 1 ≤ r.src.length ∧ r.bad = false := by
  unfold rdUvarint at h ⊢
  split
  · rename_i hu; rw [hu] at h; simp at h
  · rename_i v n hu
    rw [hu] at h
    obtain ⟨h1, h2⟩ := uvarint_consumed hu
    simp only [List.length_drop] at h ⊢
    exact ⟨by omega, h⟩

theorem rdSpan_good {r : Rd} {l : Nat} (h : (rdSpan r l).bad = false) :
    (rdSpan r l).src.length ≤ r.src.length ∧ r.bad = false := by
  unfold rdSpan at h ⊢
  split
  · rename_i hl; rw [if_pos hl] at h; simp at h
  · rename_i hl; rw [if_neg hl] at h
    simp only [List.length_drop] at h ⊢
    exact ⟨by omega, h⟩

theorem skipIter_good {r : Rd} (h : (skipIter r).bad = false) : (skipIter r).src.length + 2 ≤ r.src.length := by
  unfold skipIter at h ⊢
  dsimp only at h ⊢
  obtain ⟨h3, hb2⟩ := rdSpan_good h
  obtain ⟨h2, hb1⟩ := rdUvarint_good hb2
  obtain ⟨h1, _⟩ := rdUvarint_good hb1
  omega

theorem skipLoop_iters (n : Nat) (r : Rd) : (skipLoop n r).2 ≤ r.src.length + 1 := by
  induction n generalizing r with
  | zero => simp [skipLoop]
  | succ n ih =>
    simp only [skipLoop]
    split
    · simp
    · dsimp only
      cases hb : (skipIter r).bad with
      | true =>
        have : (skipLoop n (skipIter r)).2 = 0 := by
          cases n with
          | zero => simp [skipLoop]
          | succ m => simp [skipLoop, hb]
        omega
      | false =>
        have := skipIter_good hb
        have := ih (skipIter r)
        omega

/-- before the repair the loop ran as often as the input said -/
theorem skipLoopUnbounded_iters (n : Nat) (r : Rd) : (skipLoopUnbounded n r).2 = n := by
  induction n generalizing r with
  | zero => rfl
  | succ n ih => simp only [skipLoopUnbounded, ih]

end Proof.C22Frame
