import FranzVerif.Model.C22Frame
/-! Helper lemmas about the frame parser model (C22). -/
namespace Proof.C22Frame
open Model.C22Frame

theorem skipIter_dead : skipIter ⟨[], true⟩ = ⟨[], true⟩ := by decide

theorem skipLoop_dead (n : Nat) : skipLoop n ⟨[], true⟩ = ⟨[], true⟩ := by
  induction n with
  | zero => rfl
  | succ n ih => simp only [skipLoop, skipIter_dead, ih]

/-- the early exit of the executable loop changes nothing: a failed reader stays failed -/
theorem skipLoopFast_eq (n : Nat) (r : Rd) : skipLoopFast n r = skipLoop n r := by
  induction n generalizing r with
  | zero => rfl
  | succ n ih =>
    simp only [skipLoopFast, skipLoop]
    split
    · rename_i hdead
      obtain ⟨src, bad⟩ := r
      simp only [Bool.and_eq_true, List.isEmpty_iff] at hdead
      obtain ⟨hb, hs⟩ := hdead
      subst hb; subst hs
      rw [skipIter_dead, skipLoop_dead]
    · exact ih _

theorem parseFrameFast_eq : parseFrameFast = parseFrame := by
  have : skipLoopFast = skipLoop := by funext n r; exact skipLoopFast_eq n r
  unfold parseFrameFast parseFrame
  rw [this]

theorem u32?_some_length {s : Bytes} {v : Nat} (h : u32? s = some v) : 4 ≤ s.length := by
  match s, h with
  | _ :: _ :: _ :: _ :: _, _ => simp only [List.length_cons]; omega

theorem u32?_isSome {s : Bytes} (h : 4 ≤ s.length) : ∃ v, u32? s = some v := by
  match s, h with
  | a :: b :: c :: d :: _, _ => exact ⟨_, rfl⟩

theorem u32?_take {l : Bytes} {n : Nat} (h : 4 ≤ (l.take n).length) : u32? (l.take n) = u32? l := by
  rw [List.length_take] at h
  have hl : 4 ≤ l.length := by omega
  obtain ⟨m, rfl⟩ : ∃ m, n = m + 4 := ⟨n - 4, by omega⟩
  match l, hl with
  | a :: b :: c :: d :: t, _ => simp only [List.take_succ_cons, u32?]

theorem from4?_isSome {s : Bytes} (h : ¬ s.length < 4) : ∃ b, from4? s = some b := by
  unfold from4?; rw [if_neg h]; exact ⟨_, rfl⟩

theorem mkBuf?_isSome {n : Int} (h : ¬ n < 0) : ∃ k, mkBuf? n = some k := by
  unfold mkBuf?; rw [if_neg h]; exact ⟨_, rfl⟩

theorem uvarint_lt {b : Bytes} {v n : Nat} (h : uvarint b = some (v, n)) : v < 4294967296 := by
  unfold uvarint at h
  repeat' split at h
  all_goals (try simp at h)
  all_goals (obtain ⟨rfl, _⟩ := h; omega)

theorem rdUvarint_lt (r : Rd) : (rdUvarint r).1 < 4294967296 := by
  unfold rdUvarint
  split
  · simp
  · rename_i v n h; exact uvarint_lt h

end Proof.C22Frame
