import FranzVerif.Model.C30
namespace Proof.C30
set_option linter.unusedSimpArgs false
open Model.C30

/-! ### work latch -/

def pW : Loc → Bool | .work => true | _ => false
def pF : Loc → Bool | .fin _ => true | _ => false
def pS : Loc → Bool | .fin .store => true | _ => false

def cWork (s : LS) : Nat := s.pcs.countP pW
def cFin (s : LS) : Nat := s.pcs.countP pF
def cStore (s : LS) : Nat := s.pcs.countP pS
def cRaw (s : LS) : Nat := s.pcs.countP Loc.isRaw

structure LInv (s : LS) : Prop where
  cnt : cWork s + cFin s = if s.st = .unstarted then 0 else 1
  store : cStore s > 0 → s.st = .cont
  raw : cRaw s = 0
  pend : s.pending = true → cWork s > 0 ∨ (s.st = .cont ∧ cFin s > 0)

theorem workers_eq (s : LS) : s.workers = cWork s + cFin s := by
  unfold LS.workers cWork cFin
  induction s.pcs with
  | nil => simp
  | cons a t ih => cases a <;> simp [List.countP_cons, Loc.isWorker, pW, pF] at * <;> omega

theorem linv_init (n : Nat) : LInv (LS.init n) := by
  constructor <;> simp [LS.init, cWork, cFin, cStore, cRaw, List.countP_replicate, Loc.isRaw, pW, pF, pS]

theorem countP_pos_of_getElem {α} (p : α → Bool) (l : List α) (i : Nat) (h : i < l.length) (hp : p l[i] = true) :
    l.countP p > 0 := by
  apply List.countP_pos_iff.mpr
  exact ⟨l[i], List.getElem_mem h, hp⟩

theorem linv_step {s s' : LS} (a : Nat × Choice) (hraw : a.2.isRaw = false) (hI : LInv s) (hs : s.step a = some s') : LInv s' := by
  obtain ⟨i, c⟩ := a
  obtain ⟨hc, hst, hr, hp⟩ := hI
  unfold LS.step at hs
  simp only at hs
  cases hl : s.pcs[i]? with
  | none => simp [hl] at hs
  | some l =>
    have hi : i < s.pcs.length := by
      rcases Nat.lt_or_ge i s.pcs.length with h | h
      · exact h
      · simp [List.getElem?_eq_none h] at hl
    have hli : s.pcs[i] = l := by
      have := List.getElem?_eq_getElem hi; rw [this] at hl; exact Option.some.inj hl
    simp only [hl] at hs
    have hset : ∀ (p : Loc → Bool) (l' : Loc), (s.pcs.set i l').countP p
        = (s.pcs.countP p - if p l = true then 1 else 0) + if p l' = true then 1 else 0 := by
      intro p l'; rw [List.countP_set hi, hli]
    have hpos : ∀ (p : Loc → Bool), p l = true → s.pcs.countP p > 0 :=
      fun p hp => countP_pos_of_getElem p _ i hi (hli ▸ hp)
    have eW := hset pW; have eF := hset pF; have eS := hset pS; have eR := hset Loc.isRaw
    have qW := hpos pW; have qF := hpos pF; have qS := hpos pS; have qR := hpos Loc.isRaw
    have hle : s.pcs.countP pS ≤ s.pcs.countP pF :=
      List.countP_mono_left (fun x _ hx => by cases x <;> simp_all [pS, pF])
    clear hset hpos hl hli
    simp only [cWork, cFin, cStore, cRaw] at hc hst hr hp
    generalize s.pcs.countP pW = w at *
    generalize s.pcs.countP pF = f at *
    generalize s.pcs.countP pS = cs at *
    generalize s.pcs.countP Loc.isRaw = cr at *
    cases hpd : s.pending <;> simp only [hpd] at hp hs <;> (
    cases l with
    | idle =>
      cases hst' : s.st <;> cases c <;>
        simp [tstep, mbStep, mfStep, hfStep, hst', Choice.isRaw] at hs hraw <;>
        subst hs <;> (constructor <;> simp [cWork, cFin, cStore, cRaw, eW, eF, eS, eR, pW, pF, pS, Loc.isRaw, hst'] at * <;> omega)
    | beg pc =>
      cases pc <;> cases hst' : s.st <;>
        simp [tstep, mbStep, mfStep, hfStep, hst'] at hs <;>
        subst hs <;> (constructor <;> simp [cWork, cFin, cStore, cRaw, eW, eF, eS, eR, pW, pF, pS, Loc.isRaw, hst'] at * <;> omega)
    | work =>
      cases hst' : s.st <;> cases c <;>
        simp [tstep, mbStep, mfStep, hfStep, hst', Choice.isRaw] at hs hraw <;>
        subst hs <;> (constructor <;> simp [cWork, cFin, cStore, cRaw, eW, eF, eS, eR, pW, pF, pS, Loc.isRaw, hst'] at * <;> omega)
    | fin pc =>
      cases pc with
      | load again =>
        cases again <;> cases hst' : s.st <;>
        simp [tstep, mbStep, mfStep, hfStep, hst'] at hs <;>
        subst hs <;> (constructor <;> simp [cWork, cFin, cStore, cRaw, eW, eF, eS, eR, pW, pF, pS, Loc.isRaw, hst'] at * <;> omega)
      | cas | store =>
        cases hst' : s.st <;>
        simp [tstep, mbStep, mfStep, hfStep, hst'] at hs <;>
        subst hs <;> (constructor <;> simp [cWork, cFin, cStore, cRaw, eW, eF, eS, eR, pW, pF, pS, Loc.isRaw, hst'] at * <;> omega)
    | rawB pc => simp [Loc.isRaw] at qR; omega
    | rawF pc => simp [Loc.isRaw] at qR; omega)


/-- all actions of the list are protocol actions (no calls outside the usage protocol) -/
def protoOnly (as : List (Nat × Choice)) : Prop := ∀ a ∈ as, a.2.isRaw = false
/-- no hardFinish in the list -/
def noHard (as : List (Nat × Choice)) : Prop := ∀ a ∈ as, a.2 ≠ Choice.hard

theorem linv_run {s s' : LS} (as : List (Nat × Choice)) (hraw : protoOnly as) (hI : LInv s)
    (hr : s.run as = some s') : LInv s' := by
  induction as generalizing s with
  | nil => simp [LS.run] at hr; subst hr; exact hI
  | cons a t ih =>
    simp only [LS.run] at hr
    cases h1 : s.step a with
    | none => simp [h1] at hr
    | some s1 =>
      simp only [h1] at hr
      exact ih (fun b hb => hraw b (List.mem_cons_of_mem _ hb)) (linv_step a (hraw a List.mem_cons_self) hI h1) hr

theorem strict_step {s s' : LS} (a : Nat × Choice) (hh : a.2 ≠ Choice.hard) (he : s.pendingStrict = s.pending)
    (hs : s.step a = some s') : s'.pendingStrict = s'.pending := by
  obtain ⟨i, c⟩ := a
  unfold LS.step at hs
  simp only at hs
  cases hl : s.pcs[i]? with
  | none => simp [hl] at hs
  | some l =>
    simp only [hl] at hs
    cases ht : tstep s.st l c with
    | none => simp [ht] at hs
    | some r =>
      obtain ⟨st', l', ev⟩ := r
      simp only [ht] at hs
      have hev : ev ≠ .hard := by
        intro h; subst h
        cases l <;> cases c <;> simp [tstep] at ht hh <;>
          (try (split at ht <;> simp at ht <;> try (obtain ⟨_, _, h⟩ := ht; cases h)))
      cases ev <;> simp at hs hev <;> subst hs <;> simp [he]

theorem strict_run {s s' : LS} (as : List (Nat × Choice)) (hh : noHard as) (he : s.pendingStrict = s.pending)
    (hr : s.run as = some s') : s'.pendingStrict = s'.pending := by
  induction as generalizing s with
  | nil => simp [LS.run] at hr; subst hr; exact he
  | cons a t ih =>
    simp only [LS.run] at hr
    cases h1 : s.step a with
    | none => simp [h1] at hr
    | some s1 =>
      simp only [h1] at hr
      exact ih (fun b hb => hh b (List.mem_cons_of_mem _ hb)) (strict_step a (hh a List.mem_cons_self) he h1) hr

theorem mem_of_countP_pos {p : Loc → Bool} {l : List Loc} (h : l.countP p > 0) : ∃ a ∈ l, p a = true :=
  List.countP_pos_iff.mp h

end Proof.C30
