import FranzVerif.Model.C34
/-! C34 — helper lemmas: the Go matchers against Kafka's matching rules, loop characterisations. -/
namespace Proof.C34
open Model.C34

theorem beq_dec {α : Type} [BEq α] [LawfulBEq α] [DecidableEq α] (a b : α) : (a == b) = decide (a = b) := by
  by_cases h : a = b <;> simp [h]

theorem matchesOp_eq (a : Acl) (op : Nat) : matchesOp a op = Spec.opMatches a op := by
  unfold matchesOp Spec.opMatches Spec.impliesDescribe Spec.impliesDescribeConfigs
  simp only [opAll, opRead, opWrite, opDelete, opAlter, opDescribe, opDescribeConfigs, opAlterConfigs, permAllow]
  by_cases h1 : a.op = 2 <;> by_cases h2 : a.op = op <;> by_cases h3 : a.perm = 3 <;>
    by_cases h4 : op = 8 <;> by_cases h5 : op = 10 <;> simp_all [beq_dec] <;>
    first | omega | simp [Bool.or_assoc]

theorem matchesPrincipal_eq (a : Acl) (p : Str) : matchesPrincipal a p = Spec.principalMatches a p := by
  simp [matchesPrincipal, Spec.principalMatches, beq_dec]

theorem matchesHost_eq (a : Acl) (h : Str) : matchesHost a h = Spec.hostMatches a h := by
  simp [matchesHost, Spec.hostMatches, Bool.or_comm]

theorem matchesResource_eq (a : Acl) (rt : Nat) (n : Str) : matchesResource a rt n = Spec.resourceMatches a rt n := by
  unfold matchesResource Spec.resourceMatches
  simp only [patLiteral, patPrefixed]
  by_cases h1 : a.rtype = rt <;> by_cases h2 : a.pattern = 3 <;> by_cases h3 : a.pattern = 4 <;> simp_all [beq_dec]

/-- the `continue` test of `allowed` is the negation of Kafka's "this ACL applies to the action" -/
theorem skip_eq (a : Acl) (q : Req) :
    (!matchesResource a q.rtype q.name || !matchesPrincipal a q.principal || !matchesHost a q.host || !matchesOp a q.op)
      = !Spec.aclMatches a q := by
  rw [matchesResource_eq, matchesPrincipal_eq, matchesHost_eq, matchesOp_eq]
  simp [Spec.aclMatches, Bool.not_and]

/-- the loop of `allowed`, for entries whose permission is ALLOW or DENY -/
theorem allowedLoop_eq (acls : List Acl) (q : Req) (h : Bool)
    (wf : ∀ a ∈ acls, a.perm = permAllow ∨ a.perm = permDeny) :
    allowedLoop acls q h =
      (!((acls.filter (Spec.aclMatches · q)).any (·.perm == permDeny)) &&
        (h || (acls.filter (Spec.aclMatches · q)).any (·.perm == permAllow))) := by
  induction acls generalizing h with
  | nil => simp [allowedLoop]
  | cons a rest ih =>
    have wf' : ∀ a ∈ rest, a.perm = permAllow ∨ a.perm = permDeny := fun x hx => wf x (by simp [hx])
    unfold allowedLoop
    rw [skip_eq]
    by_cases hm : Spec.aclMatches a q = true
    · rcases wf a (by simp) with hp | hp
      · simp [hm, hp, ih _ wf', permAllow, permDeny]
      · simp [hm, hp, permAllow, permDeny]
    · simp [hm, ih _ wf']

theorem mem_names (acls : List Acl) (q : Req) (perm pat : Nat) (n : Str) :
    n ∈ Spec.names acls q perm pat ↔
      ∃ a ∈ acls, Spec.byTypeRelevant a q = true ∧ a.perm = perm ∧ a.pattern = pat ∧ a.name = n := by
  simp [Spec.names, List.mem_map, List.mem_filter, and_assoc]

/-- an entry relevant to Kafka's by-resource-type filter passes kfake's four tests -/
theorem relevant_matches (a : Acl) (q : Req) (h : Spec.byTypeRelevant a q = true) :
    a.rtype = q.rtype ∧ Spec.principalMatches a q.principal = true ∧ Spec.hostMatches a q.host = true ∧
      Spec.opMatches a q.op = true := by
  simp only [Spec.byTypeRelevant, Bool.and_eq_true, Bool.or_eq_true, beq_iff_eq] at h
  obtain ⟨⟨⟨h1, h2⟩, h3⟩, h4⟩ := h
  refine ⟨h1, h3, h2, ?_⟩
  rw [← matchesOp_eq]
  unfold matchesOp
  rcases h4 with h4 | h4 <;> simp [h4]

/-- for operations that nothing implies, kfake's operation test is Kafka's by-resource-type test -/
theorem opMatches_notImplied (a : Acl) (op : Nat) (h : notImplied op) :
    Spec.opMatches a op = (a.op == op || a.op == opAll) := by
  obtain ⟨h1, h2⟩ := h
  unfold Spec.opMatches
  simp only [opDescribe, opDescribeConfigs] at h1 h2
  simp only [opAll, opDescribe, opDescribeConfigs, permAllow]
  by_cases h3 : a.op = 2 <;> by_cases h4 : a.perm = 3 <;> by_cases h5 : a.op = op <;> simp_all [beq_dec] <;> omega


theorem principal_inj (u v : Str) (h : principal u = principal v) :
    u = v ∨ (u = [] ∧ v = anonymous) ∨ (u = anonymous ∧ v = []) := by
  unfold principal at h
  by_cases hu : u = [] <;> by_cases hv : v = [] <;> simp_all [List.append_cancel_left_eq]

theorem supers_contains (supers : List Str) (user : Str)
    (h1 : anonymous ∉ supers) (h2 : ([] : Str) ∉ supers) :
    (supers.map principal).contains (principal user) = supers.contains user := by
  rw [Bool.eq_iff_iff]
  simp only [List.contains_iff_mem, List.mem_map]
  constructor
  · rintro ⟨s, hs, he⟩
    rcases principal_inj s user he with h | ⟨h, _⟩ | ⟨h, _⟩
    · exact h ▸ hs
    · exact absurd (h ▸ hs) h2
    · exact absurd (h ▸ hs) h1
  · intro h; exact ⟨user, h, rfl⟩


theorem mem_nonEmptyPrefixes (x s : Str) : x ∈ Spec.nonEmptyPrefixes s ↔ x ≠ [] ∧ x <+: s := by
  simp only [Spec.nonEmptyPrefixes, List.mem_map, List.mem_range]
  constructor
  · rintro ⟨i, hi, rfl⟩
    refine ⟨?_, List.take_prefix _ _⟩
    intro h
    have := congrArg List.length h
    simp only [List.length_take, List.length_nil] at this
    omega
  · rintro ⟨hne, hp⟩
    have hl : x.length ≤ s.length := hp.length_le
    have hx : 0 < x.length := List.length_pos_iff.2 hne
    refine ⟨x.length - 1, by omega, ?_⟩
    have : x.length - 1 + 1 = x.length := by omega
    rw [this]
    exact (List.prefix_iff_eq_take.1 hp).symm

theorem hasDom_iff (name : Str) (L : List Str) :
    Spec.hasDominantPrefixedDeny name L = true ↔ ∃ p ∈ L, p ≠ [] ∧ p <+: name := by
  simp only [Spec.hasDominantPrefixedDeny, List.any_eq_true, List.contains_iff_mem]
  constructor
  · rintro ⟨x, hx, hL⟩
    exact ⟨x, hL, (mem_nonEmptyPrefixes x name).1 hx⟩
  · rintro ⟨p, hL, h⟩
    exact ⟨p, (mem_nonEmptyPrefixes p name).2 h, hL⟩


/-- `anyAllowed` with its two loops written as filters (an intermediate form between the Go loops and Kafka's rule):
relevant entries, DENYs and ALLOWs among them, an ALLOW counts if it is not dominated. -/
def anyAllowedFilter (acls : List Acl) (q : Req) : Bool :=
  let rel := acls.filter fun a =>
    a.rtype == q.rtype && matchesPrincipal a q.principal && matchesHost a q.host && (a.op == q.op || a.op == opAll)
  let denies := rel.filter (·.perm == permDeny)
  let allows := rel.filter (·.perm == permAllow)
  if denies.any (fun d => d.pattern == patLiteral && d.name == star) then false
  else allows.any fun al =>
    if al.pattern == patLiteral && al.name == star then true
    else if al.pattern != patLiteral && al.pattern != patPrefixed then false
    else if al.pattern == patLiteral && denies.any (fun d => d.pattern == patLiteral && d.name == al.name) then false
    else !denies.any (fun d => d.pattern == patPrefixed && d.name != [] && d.name.isPrefixOf al.name)

theorem rel_eq (a : Acl) (q : Req) :
    (a.rtype == q.rtype && matchesPrincipal a q.principal && matchesHost a q.host && (a.op == q.op || a.op == opAll))
      = Spec.byTypeRelevant a q := by
  rw [matchesPrincipal_eq, matchesHost_eq]
  unfold Spec.byTypeRelevant
  generalize (a.rtype == q.rtype) = b1
  generalize Spec.principalMatches a q.principal = b2
  generalize Spec.hostMatches a q.host = b3
  generalize (a.op == q.op || a.op == opAll) = b4
  cases b1 <;> cases b2 <;> cases b3 <;> cases b4 <;> rfl

theorem anyAllowedFilter_eq (acls : List Acl) (q : Req) :
    anyAllowedFilter acls q = Spec.byTypeAcls acls q := by
  have hD : ∀ (P : Acl → Bool),
      (((acls.filter fun a => Spec.byTypeRelevant a q).filter (·.perm == permDeny)).any P = true ↔
        ∃ d ∈ acls, d.perm = permDeny ∧ Spec.byTypeRelevant d q = true ∧ P d = true) := by
    intro P; simp [List.any_eq_true, and_assoc]
  have hA : ∀ (P : Acl → Bool),
      (((acls.filter fun a => Spec.byTypeRelevant a q).filter (·.perm == permAllow)).any P = true ↔
        ∃ d ∈ acls, d.perm = permAllow ∧ Spec.byTypeRelevant d q = true ∧ P d = true) := by
    intro P; simp [List.any_eq_true, and_assoc]
  have hc : ∀ (perm pat : Nat) (n : Str), (Spec.names acls q perm pat).contains n = true ↔
      ∃ a ∈ acls, Spec.byTypeRelevant a q = true ∧ a.perm = perm ∧ a.pattern = pat ∧ a.name = n := by
    intro perm pat n; rw [List.contains_iff_mem, mem_names]
  have hdom : ∀ (n : Str), Spec.hasDominantPrefixedDeny n (Spec.names acls q permDeny patPrefixed) = true ↔
      ∃ d ∈ acls, Spec.byTypeRelevant d q = true ∧ d.perm = permDeny ∧ d.pattern = patPrefixed ∧ d.name ≠ [] ∧ d.name <+: n := by
    intro n
    rw [hasDom_iff]
    constructor
    · rintro ⟨p, hp, h1, h2⟩
      obtain ⟨d, hd, hr, hperm, hpat, rfl⟩ := (mem_names _ _ _ _ _).1 hp
      exact ⟨d, hd, hr, hperm, hpat, h1, h2⟩
    · rintro ⟨d, hd, hr, hperm, hpat, h1, h2⟩
      exact ⟨d.name, (mem_names _ _ _ _ _).2 ⟨d, hd, hr, hperm, hpat, rfl⟩, h1, h2⟩
  rw [Bool.eq_iff_iff]
  unfold anyAllowedFilter Spec.byTypeAcls
  simp only [rel_eq]
  have hL : ∀ n : Str,
      (((acls.filter fun a => Spec.byTypeRelevant a q).filter (·.perm == permDeny)).any
        fun d => d.pattern == patLiteral && d.name == n) = (Spec.names acls q permDeny patLiteral).contains n := by
    intro n
    rw [Bool.eq_iff_iff, hD, hc]
    constructor
    · rintro ⟨d, hd, hp, hr, h⟩
      simp only [Bool.and_eq_true, beq_iff_eq] at h
      exact ⟨d, hd, hr, hp, h.1, h.2⟩
    · rintro ⟨d, hd, hr, hp, h1, h2⟩
      exact ⟨d, hd, hp, hr, by simp [h1, h2]⟩
  have hP : ∀ n : Str,
      (((acls.filter fun a => Spec.byTypeRelevant a q).filter (·.perm == permDeny)).any
        fun d => d.pattern == patPrefixed && d.name != [] && List.isPrefixOf d.name n)
        = Spec.hasDominantPrefixedDeny n (Spec.names acls q permDeny patPrefixed) := by
    intro n
    rw [Bool.eq_iff_iff, hD, hdom]
    constructor
    · rintro ⟨d, hd, hp, hr, h⟩
      simp only [Bool.and_eq_true, beq_iff_eq, bne_iff_ne, List.isPrefixOf_iff_prefix] at h
      exact ⟨d, hd, hr, hp, h.1.1, h.1.2, h.2⟩
    · rintro ⟨d, hd, hr, hp, h1, h2, h3⟩
      refine ⟨d, hd, hp, hr, ?_⟩
      simp only [Bool.and_eq_true, beq_iff_eq, bne_iff_ne, List.isPrefixOf_iff_prefix]
      exact ⟨⟨h1, h2⟩, h3⟩
  simp only [hL, hP]
  by_cases hC : (Spec.names acls q permDeny patLiteral).contains star = true
  · rw [if_pos hC, if_pos hC]
  · rw [if_neg hC, if_neg hC]
    rw [hA]
    simp only [Bool.or_eq_true, List.any_eq_true]
    constructor
    · rintro ⟨al, hal, hp, hr, hF⟩
      by_cases h3 : al.pattern = patLiteral
      · left
        refine ⟨al.name, (mem_names _ _ _ _ _).2 ⟨al, hal, hr, hp, h3, rfl⟩, ?_⟩
        by_cases hs : al.name = star
        · simp [hs]
        · simp only [h3, hs, beq_self_eq_true, Bool.true_and, beq_iff_eq, if_false, bne_self_eq_false,
            Bool.false_and, Bool.false_eq_true] at hF
          split at hF
          · simp at hF
          · rename_i hnl
            simp only [Bool.not_eq_true] at hnl
            have hs' : (al.name == star) = false := by simpa using hs
            right
            simp only [Bool.and_eq_true, Bool.not_eq_true']
            exact ⟨hnl, by simpa using hF⟩
      · by_cases h4 : al.pattern = patPrefixed
        · right
          refine ⟨al.name, (mem_names _ _ _ _ _).2 ⟨al, hal, hr, hp, h4, rfl⟩, ?_⟩
          have h34 : (patPrefixed == patLiteral) = false := by decide
          simpa [h4, h34] using hF
        · exfalso
          have e3 : (al.pattern == patLiteral) = false := by simpa using h3
          have e4 : (al.pattern == patPrefixed) = false := by simpa using h4
          simp [e3, e4, bne] at hF
    · rintro (⟨l, hl, hg⟩ | ⟨p, hp, hh⟩)
      · obtain ⟨al, hal, hr, hperm, hpat, rfl⟩ := (mem_names _ _ _ _ _).1 hl
        refine ⟨al, hal, hperm, hr, ?_⟩
        by_cases hs : al.name = star
        · simp [hpat, hs]
        · have hs' : (al.name == star) = false := by simpa using hs
          rcases hg with hg | hg
          · rw [hs'] at hg; exact absurd hg (by decide)
          simp only [Bool.and_eq_true, Bool.not_eq_true'] at hg
          have hg1 : ¬ al.name ∈ Spec.names acls q permDeny patLiteral := by
            intro hm; have := List.contains_iff_mem.2 hm; rw [hg.1] at this; exact absurd this (by decide)
          simp [hpat, hs', hg1, hg.2]
      · obtain ⟨al, hal, hr, hperm, hpat, rfl⟩ := (mem_names _ _ _ _ _).1 hp
        refine ⟨al, hal, hperm, hr, ?_⟩
        have h34 : (patPrefixed == patLiteral) = false := by decide
        have h44 : (patPrefixed != patPrefixed) = false := by decide
        simpa [hpat, h34, h44] using hh



/-- kfake's relevance test of the repaired `anyAllowed` (first loop) -/
def relB (a : Acl) (q : Req) : Bool :=
  a.rtype == q.rtype && matchesPrincipal a q.principal && matchesHost a q.host && (a.op == q.op || a.op == opAll)

theorem skip2_eq (a : Acl) (q : Req) :
    (a.rtype != q.rtype || !matchesPrincipal a q.principal || !matchesHost a q.host || (a.op != q.op && a.op != opAll))
      = !relB a q := by
  unfold relB
  simp only [bne]
  generalize (a.rtype == q.rtype) = b1
  generalize matchesPrincipal a q.principal = b2
  generalize matchesHost a q.host = b3
  generalize (a.op == q.op) = b4
  generalize (a.op == opAll) = b5
  cases b1 <;> cases b2 <;> cases b3 <;> cases b4 <;> cases b5 <;> rfl

theorem collect_eq (acls : List Acl) (q : Req) (al dn : List Acl) :
    anyAllowedCollect acls q al dn =
      if (((acls.filter (relB · q)).filter (·.perm == permDeny)).any fun d => d.pattern == patLiteral && d.name == star) = true then none
      else some (al ++ (acls.filter (relB · q)).filter (·.perm == permAllow),
                 dn ++ (acls.filter (relB · q)).filter (·.perm == permDeny)) := by
  induction acls generalizing al dn with
  | nil => simp [anyAllowedCollect]
  | cons a rest ih =>
    unfold anyAllowedCollect
    rw [skip2_eq]
    by_cases hr : relB a q = true
    · by_cases hd : a.perm = permDeny
      · by_cases hs : (a.pattern == patLiteral && a.name == star) = true
        · simp [hr, hd, hs]
        · have hda : (permDeny == permAllow) = false := by decide
          simp [hr, hd, hs, hda, ih]
      · have hd' : (a.perm == permDeny) = false := by simpa using hd
        by_cases ha : a.perm = permAllow
        · simp [hr, ha, ih, permAllow, permDeny]
        · have ha' : (a.perm == permAllow) = false := by simpa using ha
          simp [hr, hd', ha', ih]
    · simp [hr, ih]

def domF (al : Acl) (literal : Bool) (d : Acl) : Bool :=
  (d.pattern == patLiteral && (literal && d.name == al.name)) ||
  (d.pattern == patPrefixed && (d.name != [] && d.name.isPrefixOf al.name))

theorem dominatedLoop_eq (al : Acl) (literal : Bool) (ds : List Acl) :
    dominatedLoop al literal ds false = ds.any (domF al literal) := by
  induction ds with
  | nil => simp [dominatedLoop]
  | cons d ds ih =>
    unfold dominatedLoop
    by_cases h3 : d.pattern = patLiteral
    · have h34 : (patLiteral == patPrefixed) = false := by decide
      by_cases hx : (literal && d.name == al.name) = true
      · simp [h3, hx, domF]
      · simp [h3, hx, domF, h34, ih]
    · have h3' : (d.pattern == patLiteral) = false := by simpa using h3
      by_cases h4 : d.pattern = patPrefixed
      · by_cases hx : (d.name != [] && d.name.isPrefixOf al.name) = true
        · simp [h4, hx, domF, patLiteral, patPrefixed]
        · simp [h4, hx, domF, ih, patLiteral, patPrefixed]
      · have h4' : (d.pattern == patPrefixed) = false := by simpa using h4
        simp [h3', h4', domF, ih]

def scanG (denies : List Acl) (al : Acl) : Bool :=
  if (al.pattern == patLiteral && al.name == star) = true then true
  else if (!(al.pattern == patLiteral) && al.pattern != patPrefixed) = true then false
  else !dominatedLoop al (al.pattern == patLiteral) denies false

theorem scan_eq (denies allows : List Acl) : anyAllowedScan denies allows = allows.any (scanG denies) := by
  induction allows with
  | nil => simp [anyAllowedScan]
  | cons al rest ih =>
    unfold anyAllowedScan
    simp only [List.any_cons, scanG, ih]
    split
    · simp
    · split
      · simp
      · split <;> simp_all

theorem any_domF (al : Acl) (literal : Bool) (L : List Acl) :
    L.any (domF al literal) =
      ((literal && L.any (fun d => d.pattern == patLiteral && d.name == al.name)) ||
        L.any (fun d => d.pattern == patPrefixed && d.name != [] && d.name.isPrefixOf al.name)) := by
  induction L with
  | nil => cases literal <;> simp
  | cons d ds ih =>
    simp only [List.any_cons, ih, domF]
    generalize (d.pattern == patLiteral) = b1
    generalize (d.name == al.name) = b2
    generalize (d.pattern == patPrefixed) = b3
    generalize (d.name != []) = b4
    generalize (List.isPrefixOf d.name al.name) = b5
    generalize (ds.any fun d => d.pattern == patLiteral && d.name == al.name) = x
    generalize (ds.any fun d => d.pattern == patPrefixed && d.name != [] && List.isPrefixOf d.name al.name) = y
    cases literal <;> cases b1 <;> cases b2 <;> cases b3 <;> cases b4 <;> cases b5 <;> cases x <;> cases y <;> rfl

theorem anyAllowed_eq_filter (acls : List Acl) (q : Req) : anyAllowed acls q = anyAllowedFilter acls q := by
  unfold anyAllowed anyAllowedFilter
  rw [collect_eq]
  simp only [relB]
  by_cases hC : (((acls.filter fun a =>
    a.rtype == q.rtype && matchesPrincipal a q.principal && matchesHost a q.host && (a.op == q.op || a.op == opAll)).filter
      (·.perm == permDeny)).any fun d => d.pattern == patLiteral && d.name == star) = true
  · simp only [hC, if_true]
  · simp only [hC, Bool.false_eq_true, if_false, List.nil_append, scan_eq]
    congr 1
    funext al
    simp only [scanG, dominatedLoop_eq, any_domF, bne]
    generalize (al.pattern == patLiteral) = b
    generalize (al.name == star) = s
    generalize (al.pattern == patPrefixed) = p4
    generalize (List.filter (fun x : Acl => x.perm == permDeny) _) = dn
    generalize (dn.any fun d : Acl => d.pattern == patLiteral && d.name == al.name) = x
    generalize (dn.any fun d : Acl => d.pattern == patPrefixed && !(d.name == []) && List.isPrefixOf d.name al.name) = y
    cases b <;> cases s <;> cases p4 <;> cases x <;> cases y <;> rfl

theorem authorize_true_iff (acls : List Acl) (q : Req) :
    Spec.authorizeAcls acls q = true ↔
      (∀ d ∈ acls, Spec.aclMatches d q = true → d.perm ≠ permDeny) ∧
      (∃ a ∈ acls, Spec.aclMatches a q = true ∧ a.perm = permAllow) := by
  unfold Spec.authorizeAcls
  simp only []
  split
  · rename_i h
    simp only [List.any_eq_true, List.mem_filter, beq_iff_eq] at h
    obtain ⟨d, ⟨hd, hm⟩, hp⟩ := h
    simp only [Bool.false_eq_true, false_iff, not_and]
    intro hno
    exact absurd hp (hno d hd hm)
  · rename_i h
    simp only [List.any_eq_true, List.mem_filter, beq_iff_eq, not_exists, not_and, and_imp] at h
    simp only [List.any_eq_true, List.mem_filter, beq_iff_eq]
    constructor
    · rintro ⟨a, ⟨ha, hm⟩, hp⟩
      exact ⟨fun d hd hm => h d hd hm, a, ha, hm, hp⟩
    · rintro ⟨_, a, ha, hm, hp⟩
      exact ⟨a, ⟨ha, hm⟩, hp⟩

/-- a relevant entry whose pattern covers the resource name applies to the action -/
theorem relevant_aclMatches (a : Acl) (q : Req) (n : Str) (hr : Spec.byTypeRelevant a q = true)
    (hres : (a.pattern = patPrefixed ∧ a.name <+: n) ∨ (a.pattern = patLiteral ∧ (a.name = n ∨ a.name = star))) :
    Spec.aclMatches a { q with name := n } = true := by
  obtain ⟨h1, h2, h3, h4⟩ := relevant_matches a q hr
  simp only [Spec.aclMatches, Spec.resourceMatches, Bool.and_eq_true, Bool.or_eq_true, beq_iff_eq,
    List.isPrefixOf_iff_prefix]
  exact ⟨⟨⟨⟨h1, hres⟩, h2⟩, h3⟩, h4⟩

theorem probe_implies_byType (acls : List Acl) (q : Req) (n : Str) (hop : notImplied q.op)
    (h : Spec.authorizeAcls acls { q with name := n } = true) : Spec.byTypeAcls acls q = true := by
  obtain ⟨hno, a, ha, hm, hp⟩ := (authorize_true_iff _ _).1 h
  -- the ALLOW entry is relevant
  have hm' := hm
  simp only [Spec.aclMatches, Spec.resourceMatches, Bool.and_eq_true, Bool.or_eq_true, beq_iff_eq,
    List.isPrefixOf_iff_prefix] at hm'
  obtain ⟨⟨⟨⟨h1, hres⟩, h2⟩, h3⟩, h4⟩ := hm'
  have hr : Spec.byTypeRelevant a q = true := by
    rw [opMatches_notImplied a q.op hop] at h4
    simp only [Spec.byTypeRelevant, Bool.and_eq_true, beq_iff_eq]
    exact ⟨⟨⟨h1, h3⟩, h2⟩, h4⟩
  -- no relevant DENY covers `n`
  have hdeny : ∀ d ∈ acls, Spec.byTypeRelevant d q = true → d.perm = permDeny →
      ¬ ((d.pattern = patPrefixed ∧ d.name <+: n) ∨ (d.pattern = patLiteral ∧ (d.name = n ∨ d.name = star))) :=
    fun d hd hrd hpd hres => hno d hd (relevant_aclMatches d q n hrd hres) hpd
  have hdom : ∀ m : Str, m <+: n → Spec.hasDominantPrefixedDeny m (Spec.names acls q permDeny patPrefixed) = false := by
    intro m hmn
    rw [Bool.eq_false_iff]
    intro hd
    obtain ⟨p, hpm, _, hpre⟩ := (hasDom_iff _ _).1 hd
    obtain ⟨d, hd, hrd, hpd, hpat, rfl⟩ := (mem_names _ _ _ _ _).1 hpm
    exact hdeny d hd hrd hpd (Or.inl ⟨hpat, hpre.trans hmn⟩)
  have hlit : ∀ m : Str, (m = n ∨ m = star) → (Spec.names acls q permDeny patLiteral).contains m = false := by
    intro m hmn
    rw [Bool.eq_false_iff]
    intro hc
    obtain ⟨d, hd, hrd, hpd, hpat, hname⟩ := (mem_names _ _ _ _ _).1 (List.contains_iff_mem.1 hc)
    exact hdeny d hd hrd hpd (Or.inr ⟨hpat, hname ▸ hmn⟩)
  unfold Spec.byTypeAcls
  simp only [hlit star (Or.inr rfl), Bool.false_eq_true, if_false, Bool.or_eq_true, List.any_eq_true]
  rcases hres with ⟨hpat, hpre⟩ | ⟨hpat, hname⟩
  · right
    exact ⟨a.name, (mem_names _ _ _ _ _).2 ⟨a, ha, hr, hp, hpat, rfl⟩, by simp [hdom a.name hpre]⟩
  · left
    refine ⟨a.name, (mem_names _ _ _ _ _).2 ⟨a, ha, hr, hp, hpat, rfl⟩, ?_⟩
    rcases hname with hname | hname
    · have hnm : ¬ a.name ∈ Spec.names acls q permDeny patLiteral := by
        intro hmem
        have := List.contains_iff_mem.2 hmem
        rw [hlit a.name (Or.inl hname)] at this
        exact absurd this (by decide)
      simp [hnm, hdom a.name (hname ▸ List.prefix_refl _)]
    · simp [hname]

theorem hardcode_probe_redundant' (supers : List Str) (acls : List Acl) (q : Req) (hop : notImplied q.op) :
    Spec.authorizeByResourceTypeStd supers acls q = Spec.authorizeByResourceType supers acls q := by
  unfold Spec.authorizeByResourceTypeStd Spec.authorizeByResourceType Spec.authorize
  by_cases hs : supers.contains q.principal = true
  · simp only [hs, if_true]
  · simp only [hs, Bool.false_eq_true, if_false]
    by_cases hp : Spec.authorizeAcls acls { q with name := Spec.hardcode } = true
    · simp [hp, probe_implies_byType acls q Spec.hardcode hop hp]
    · simp [hp]

end Proof.C34
