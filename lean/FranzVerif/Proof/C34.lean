import FranzVerif.Model.C34
/-! C34 — helper lemmas: the Go matchers against Kafka's matching rules, loop characterisations. -/
namespace Proof.C34
open Model.C34

theorem beq_dec {α : Type} [BEq α] [LawfulBEq α] [DecidableEq α] (a b : α) : (a == b) = decide (a = b) := by
  by_cases h : a = b <;> simp [h]

theorem matchesOp_eq (a : Acl) (op : Nat) : matchesOp a op = Spec.opMatches a op := by
  unfold matchesOp Spec.opMatches Spec.impliesDescribe Spec.impliesDescribeConfigs
  simp only [opAll, opRead, opWrite, opDelete, opAlter, opDescribe, opDescribeConfigs, opAlterConfigs, permAllow]
  by_cases h1 : a.op = 2 <;> by_cases h2 : a.op = op <;> by_cases h3 : a.perm = 3 <;>
    by_cases h4 : op = 8 <;> by_cases h5 : op = 10 <;> simp_all [beq_dec] <;>
    first | omega | simp [Bool.or_assoc]

theorem matchesPrincipal_eq (a : Acl) (p : Str) : matchesPrincipal a p = Spec.principalMatches a p := by
  simp [matchesPrincipal, Spec.principalMatches, beq_dec]

theorem matchesHost_eq (a : Acl) (h : Str) : matchesHost a h = Spec.hostMatches a h := by
  simp [matchesHost, Spec.hostMatches, Bool.or_comm]

theorem matchesResource_eq (a : Acl) (rt : Nat) (n : Str) : matchesResource a rt n = Spec.resourceMatches a rt n := by
  unfold matchesResource Spec.resourceMatches
  simp only [patLiteral, patPrefixed]
  by_cases h1 : a.rtype = rt <;> by_cases h2 : a.pattern = 3 <;> by_cases h3 : a.pattern = 4 <;> simp_all [beq_dec]

/-- the `continue` test of `allowed` is the negation of Kafka's "this ACL applies to the action" -/
theorem skip_eq (a : Acl) (q : Req) :
    (!matchesResource a q.rtype q.name || !matchesPrincipal a q.principal || !matchesHost a q.host || !matchesOp a q.op)
      = !Spec.aclMatches a q := by
  rw [matchesResource_eq, matchesPrincipal_eq, matchesHost_eq, matchesOp_eq]
  simp [Spec.aclMatches, Bool.not_and]

/-- the loop of `allowed`, for entries whose permission is ALLOW or DENY -/
theorem allowedLoop_eq (acls : List Acl) (q : Req) (h : Bool)
    (wf : ∀ a ∈ acls, a.perm = permAllow ∨ a.perm = permDeny) :
    allowedLoop acls q h =
      (!((acls.filter (Spec.aclMatches · q)).any (·.perm == permDeny)) &&
        (h || (acls.filter (Spec.aclMatches · q)).any (·.perm == permAllow))) := by
  induction acls generalizing h with
  | nil => simp [allowedLoop]
  | cons a rest ih =>
    have wf' : ∀ a ∈ rest, a.perm = permAllow ∨ a.perm = permDeny := fun x hx => wf x (by simp [hx])
    unfold allowedLoop
    rw [skip_eq]
    by_cases hm : Spec.aclMatches a q = true
    · rcases wf a (by simp) with hp | hp
      · simp [hm, hp, ih _ wf', permAllow, permDeny]
      · simp [hm, hp, permAllow, permDeny]
    · simp [hm, ih _ wf']

theorem anyAllowed_iff (acls : List Acl) (q : Req) :
    anyAllowed acls q = true ↔
      ∃ a ∈ acls, a.rtype = q.rtype ∧ Spec.principalMatches a q.principal = true ∧ Spec.hostMatches a q.host = true ∧
        Spec.opMatches a q.op = true ∧ a.perm = permAllow := by
  induction acls with
  | nil => simp [anyAllowed]
  | cons a rest ih =>
    unfold anyAllowed
    rw [matchesPrincipal_eq, matchesHost_eq, matchesOp_eq]
    by_cases h1 : a.rtype = q.rtype <;> by_cases h2 : Spec.principalMatches a q.principal = true <;>
      by_cases h3 : Spec.hostMatches a q.host = true <;> by_cases h4 : Spec.opMatches a q.op = true <;>
      by_cases h5 : a.perm = permAllow <;> simp_all

theorem mem_names (acls : List Acl) (q : Req) (perm pat : Nat) (n : Str) :
    n ∈ Spec.names acls q perm pat ↔
      ∃ a ∈ acls, Spec.byTypeRelevant a q = true ∧ a.perm = perm ∧ a.pattern = pat ∧ a.name = n := by
  simp [Spec.names, List.mem_map, List.mem_filter, and_assoc]

theorem hasDom_nil (n : Str) : Spec.hasDominantPrefixedDeny n [] = false := by
  simp [Spec.hasDominantPrefixedDeny]

theorem byType_true_exists (acls : List Acl) (q : Req) (h : Spec.byTypeAcls acls q = true) :
    ∃ a ∈ acls, Spec.byTypeRelevant a q = true ∧ a.perm = permAllow := by
  unfold Spec.byTypeAcls at h
  simp only [] at h
  split at h
  · simp at h
  · simp only [Bool.or_eq_true, List.any_eq_true] at h
    rcases h with ⟨l, hl, _⟩ | ⟨p, hp, _⟩
    · obtain ⟨a, ha, hr, hperm, _, _⟩ := (mem_names _ _ _ _ _).1 hl
      exact ⟨a, ha, hr, hperm⟩
    · obtain ⟨a, ha, hr, hperm, _, _⟩ := (mem_names _ _ _ _ _).1 hp
      exact ⟨a, ha, hr, hperm⟩

theorem names_deny_nil (acls : List Acl) (q : Req) (pat : Nat)
    (nd : ∀ a ∈ acls, Spec.byTypeRelevant a q = true → a.perm ≠ permDeny) :
    Spec.names acls q permDeny pat = [] := by
  rw [List.eq_nil_iff_forall_not_mem]
  intro n hn
  obtain ⟨a, ha, hr, hp, _⟩ := (mem_names _ _ _ _ _).1 hn
  exact nd a ha hr hp

theorem byType_noDeny (acls : List Acl) (q : Req)
    (nd : ∀ a ∈ acls, Spec.byTypeRelevant a q = true → a.perm ≠ permDeny) :
    Spec.byTypeAcls acls q = true ↔
      ∃ a ∈ acls, Spec.byTypeRelevant a q = true ∧ a.perm = permAllow ∧ (a.pattern = patLiteral ∨ a.pattern = patPrefixed) := by
  unfold Spec.byTypeAcls
  simp only [names_deny_nil acls q _ nd, hasDom_nil]
  simp only [List.contains_nil, Bool.false_eq_true, if_false, Bool.not_false, Bool.and_self, Bool.or_true,
    Bool.or_eq_true, List.any_eq_true, and_true]
  constructor
  · rintro (⟨l, hl⟩ | ⟨p, hp⟩)
    · obtain ⟨a, ha, hr, hperm, hpat, _⟩ := (mem_names _ _ _ _ _).1 hl
      exact ⟨a, ha, hr, hperm, Or.inl hpat⟩
    · obtain ⟨a, ha, hr, hperm, hpat, _⟩ := (mem_names _ _ _ _ _).1 hp
      exact ⟨a, ha, hr, hperm, Or.inr hpat⟩
  · rintro ⟨a, ha, hr, hperm, hpat | hpat⟩
    · exact Or.inl ⟨a.name, (mem_names _ _ _ _ _).2 ⟨a, ha, hr, hperm, hpat, rfl⟩⟩
    · exact Or.inr ⟨a.name, (mem_names _ _ _ _ _).2 ⟨a, ha, hr, hperm, hpat, rfl⟩⟩

/-- an entry relevant to Kafka's by-resource-type filter passes kfake's four tests -/
theorem relevant_matches (a : Acl) (q : Req) (h : Spec.byTypeRelevant a q = true) :
    a.rtype = q.rtype ∧ Spec.principalMatches a q.principal = true ∧ Spec.hostMatches a q.host = true ∧
      Spec.opMatches a q.op = true := by
  simp only [Spec.byTypeRelevant, Bool.and_eq_true, Bool.or_eq_true, beq_iff_eq] at h
  obtain ⟨⟨⟨h1, h2⟩, h3⟩, h4⟩ := h
  refine ⟨h1, h3, h2, ?_⟩
  rw [← matchesOp_eq]
  unfold matchesOp
  rcases h4 with h4 | h4 <;> simp [h4]

/-- for operations that nothing implies, kfake's operation test is Kafka's by-resource-type test -/
theorem opMatches_notImplied (a : Acl) (op : Nat) (h : notImplied op) :
    Spec.opMatches a op = (a.op == op || a.op == opAll) := by
  obtain ⟨h1, h2⟩ := h
  unfold Spec.opMatches
  simp only [opDescribe, opDescribeConfigs] at h1 h2
  simp only [opAll, opDescribe, opDescribeConfigs, permAllow]
  by_cases h3 : a.op = 2 <;> by_cases h4 : a.perm = 3 <;> by_cases h5 : a.op = op <;> simp_all [beq_dec] <;> omega


theorem principal_inj (u v : Str) (h : principal u = principal v) :
    u = v ∨ (u = [] ∧ v = anonymous) ∨ (u = anonymous ∧ v = []) := by
  unfold principal at h
  by_cases hu : u = [] <;> by_cases hv : v = [] <;> simp_all [List.append_cancel_left_eq]

theorem supers_contains (supers : List Str) (user : Str)
    (h1 : anonymous ∉ supers) (h2 : ([] : Str) ∉ supers) :
    (supers.map principal).contains (principal user) = supers.contains user := by
  rw [Bool.eq_iff_iff]
  simp only [List.contains_iff_mem, List.mem_map]
  constructor
  · rintro ⟨s, hs, he⟩
    rcases principal_inj s user he with h | ⟨h, _⟩ | ⟨h, _⟩
    · exact h ▸ hs
    · exact absurd (h ▸ hs) h2
    · exact absurd (h ▸ hs) h1
  · intro h; exact ⟨user, h, rfl⟩

end Proof.C34
