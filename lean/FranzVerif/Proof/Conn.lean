import FranzVerif.Model.Conn
import FranzVerif.Proof.C22Frame
/-! History-level observables of the connection monitor (C22) and the lemmas behind `Props.C22`. -/
namespace Proof.Conn
open Model.Conn Model.C22Frame Proof.C22Frame

/-- ids of the outcome events (a response or an error returned by Broker.Request), in order -/
def outIds (h : List Ev) : List Nat :=
  h.filterMap (fun e => match e with | .ok i _ _ => some i | .err i _ _ => some i | _ => none)

/-- ids of the issued requests, in order -/
def issueIds (h : List Ev) : List Nat :=
  h.filterMap (fun e => match e with | .issue i _ => some i | _ => none)

/-- Read against the waiters `ws` in order, the stream `s` hands a body to every one of them (every frame passes the
size, length, correlation-id and tag checks for its waiter) and `r` is what is left. -/
inductive DeliversAll (mr : Nat) (cl : Bool) : List Waiter → Bytes → Bytes → Prop
  | nil (s : Bytes) : DeliversAll mr cl [] s s
  | cons (w : Waiter) (ws : List Waiter) (s r body : Bytes) :
      (parseFrame mr w.corr w.flex cl s).res = .deliver body →
      DeliversAll mr cl ws (parseFrame mr w.corr w.flex cl s).rest r → DeliversAll mr cl (w :: ws) s r

/-! ### frame parser facts -/

/-- a frame is accepted for correlation id `corr` only if bytes 4..8 of the stream are that id -/
theorem deliver_carries_corr {mr corr : Nat} {flex cl : Bool} {s body : Bytes}
    (h : (parseFrame mr corr flex cl s).res = .deliver body) : u32? (s.drop 4) = some corr := by
  unfold parseFrame parseFrameWith at h
  split at h
  · split at h <;> simp at h
  · dsimp only at h
    split at h
    · simp at h
    · split at h
      · simp at h
      · split at h
        · simp at h
        · rename_i n hn
          split at h
          · split at h <;> simp at h
          · split at h
            · simp at h
            · rename_i hlen
              have htake := u32?_take (Nat.le_of_not_lt hlen)
              split at h
              · simp at h
              · rename_i got hgot
                split at h
                · simp at h
                · rename_i hne
                  have : got = corr := by simpa using hne
                  rw [← this, ← htake, hgot]

/-! ### simulate -/

theorem lookup_map_behind (i : Nat) (ws : List Waiter) :
    lookup i (ws.map (fun x => (x.id, Expect.behind))) = .behind ∨ lookup i (ws.map (fun x => (x.id, Expect.behind))) = .unwritten := by
  induction ws with
  | nil => right; rfl
  | cons w ws ih =>
    simp only [List.map_cons, lookup]
    split
    · left; rfl
    · exact ih

theorem lookup_map_behind_mem {i : Nat} {ws : List Waiter} (h : i ∈ ws.map (·.id)) :
    lookup i (ws.map (fun x => (x.id, Expect.behind))) = .behind := by
  induction ws with
  | nil => simp at h
  | cons w ws ih =>
    simp only [List.map_cons, lookup]
    split
    · rfl
    · rename_i hne
      simp only [List.map_cons, List.mem_cons] at h
      rcases h with h | h
      · simp [h] at hne
      · exact ih h

theorem lookup_simulate_deliver {mr : Nat} {cl : Bool} (fifo : List Waiter) (stream : Bytes) {i : Nat} {body : Bytes}
    (h : lookup i (simulate mr cl fifo stream) = .deliver body) :
    ∃ before w after rest, fifo = before ++ w :: after ∧ w.id = i ∧ DeliversAll mr cl before stream rest ∧
      (parseFrame mr w.corr w.flex cl rest).res = .deliver body := by
  induction fifo generalizing stream with
  | nil => simp [simulate, lookup] at h
  | cons w ws ih =>
    cases hres : (parseFrame mr w.corr w.flex cl stream).res with
    | deliver b0 =>
      simp only [simulate, hres, lookup] at h
      split at h
      · rename_i hid
        refine ⟨[], w, ws, stream, rfl, by simpa using hid, .nil _, ?_⟩
        rw [hres]; injection h with h; rw [h]
      · obtain ⟨before, w', after, rest, hf, hw, hd, hp⟩ := ih _ h
        exact ⟨w :: before, w', after, rest, by rw [hf]; rfl, hw, .cons _ _ _ _ _ hres hd, hp⟩
    | negSize | overSize | eof | needMore | short | mismatch | panic =>
      simp only [simulate, hres, lookup] at h
      split at h
      · simp at h
      · rcases lookup_map_behind i ws with hb | hb <;> rw [hb] at h <;> simp at h

/-- behind the first frame that is not accepted nothing can be delivered -/
theorem lookup_simulate_behind {mr : Nat} {cl : Bool} (before : List Waiter) (w' : Waiter) (after : List Waiter) (stream rest : Bytes) {i : Nat}
    (hd : DeliversAll mr cl before stream rest) (hfail : ∀ b, (parseFrame mr w'.corr w'.flex cl rest).res ≠ .deliver b)
    (hnb : i ∉ before.map (·.id)) (hnw : w'.id ≠ i) (hmem : i ∈ after.map (·.id)) :
    lookup i (simulate mr cl (before ++ w' :: after) stream) = .behind := by
  induction hd with
  | nil s =>
    cases hres : (parseFrame mr w'.corr w'.flex cl s).res with
    | deliver b0 => exact absurd hres (hfail b0)
    | negSize | overSize | eof | needMore | short | mismatch | panic =>
      simp only [List.nil_append, simulate, hres, lookup]
      rw [if_neg (by simpa using hnw)]
      exact lookup_map_behind_mem hmem
  | cons w ws s r body hres _ ih =>
    simp only [List.map_cons, List.mem_cons, not_or] at hnb
    simp only [List.cons_append, simulate, hres, lookup]
    rw [if_neg (by simpa using (Ne.symm hnb.1))]
    exact ih hfail hnb.2

end Proof.Conn
