import FranzVerif.Model.C17
import FranzVerif.Spec.C17
import FranzVerif.Proof.C17
/-! C17 — fixed-width big-endian integers: the encoders write `Spec.C17.be`, the `binary.BigEndian`
readers compute `Spec.C17.unbe`, and `unbe ∘ be` is the identity modulo `256^k`. Kernel only. -/
namespace Proof.C17
open Model.C17
open Spec.C17 hiding Bytes

/-! ## Spec level -/
theorem be_length (k n : Nat) : (be k n).length = k := by
  induction k with
  | zero => rfl
  | succ k ih => simp [be, ih]

theorem foldl_be (k : Nat) : ∀ (a n : Nat),
    (be k n).foldl (fun acc b => acc * 256 + b.toNat) a = a * 256 ^ k + n % 256 ^ k := by
  induction k with
  | zero => intro a n; simp [be, Nat.mod_one]
  | succ k ih =>
    intro a n
    rw [be, List.foldl_cons, ih]
    have hb : (byte (n / 256 ^ k)).toNat = n / 256 ^ k % 256 := by simp [byte]
    rw [hb, Nat.pow_succ, Nat.mod_mul, Nat.add_mul, Nat.mul_assoc, Nat.mul_comm 256 (256 ^ k),
      Nat.mul_comm (n / 256 ^ k % 256)]
    omega

/-- the big-endian reader inverts the big-endian writer (all `k`, all `n`) -/
theorem unbe_be (k n : Nat) : unbe (be k n) = n % 256 ^ k := by
  rw [unbe, foldl_be]; simp

theorem unbe_be_append (k n : Nat) (rest : Bytes) : unbe ((be k n ++ rest).take k) = n % 256 ^ k := by
  rw [List.take_left' (be_length k n), unbe_be]

/-! ## encoders write `be` -/
theorem shr_setw8 {w : Nat} (u : BitVec w) (k : Nat) : (u >>> k).setWidth 8 = byte (u.toNat / 2 ^ k) := by
  apply BitVec.eq_of_toNat_eq; simp [byte, Nat.shiftRight_eq_div_pow]

theorem appendInt8_be (dst : Bytes) (i : BitVec 8) : appendInt8 dst i = dst ++ be 1 i.toNat := by
  simp only [appendInt8, be, Nat.pow_zero, Nat.div_one]
  congr 2
  apply BitVec.eq_of_toNat_eq; simp [byte]

theorem appendUint16_be (dst : Bytes) (u : BitVec 16) : appendUint16 dst u = dst ++ be 2 u.toNat := by
  simp only [appendUint16, be, setw8_eq, BitVec.toNat_ushiftRight, Nat.shiftRight_eq_div_pow, Nat.reducePow, Nat.div_one]

theorem appendUint32_be (dst : Bytes) (u : BitVec 32) : appendUint32 dst u = dst ++ be 4 u.toNat := by
  simp only [appendUint32, be, setw8_eq, BitVec.toNat_ushiftRight, Nat.shiftRight_eq_div_pow, Nat.reducePow, Nat.div_one]

theorem appendUint64_be (dst : Bytes) (u : BitVec 64) : appendUint64 dst u = dst ++ be 8 u.toNat := by
  simp only [appendUint64, be, setw8_eq, BitVec.toNat_ushiftRight, Nat.shiftRight_eq_div_pow, Nat.reducePow, Nat.div_one]

/-- two's complement: the bits of a signed value are its pattern -/
theorem pattern_toInt {w : Nat} (i : BitVec w) : pattern w i.toInt = i.toNat := by
  unfold pattern
  rw [BitVec.toInt_eq_toNat_bmod, Int.bmod_emod]
  have := i.isLt
  rw [Int.emod_eq_of_lt (by omega) (by exact_mod_cast this)]
  simp

theorem signed_toNat {w : Nat} (hw : 0 < w) (i : BitVec w) : signed w i.toNat = i.toInt := by
  unfold signed
  rw [BitVec.toInt_eq_toNat_cond]
  have h2 : 2 ^ w = 2 * 2 ^ (w - 1) := by
    rw [show w = (w - 1) + 1 by omega, Nat.pow_succ]; simp; omega
  by_cases h : i.toNat < 2 ^ (w - 1)
  · rw [if_pos h, if_pos (by omega)]
  · rw [if_neg h, if_neg (by omega)]

/-! ## `binary.BigEndian.UintN` computes `unbe` and does not panic on long enough input -/
theorem up_setw {w : Nat} (hw : 8 ≤ w) (acc : BitVec w) (b : Byte) (k : Nat) (hk : k + 8 ≤ w) (h : acc.toNat < 2 ^ k) :
    (acc ||| ((b.setWidth w) <<< k)).toNat = acc.toNat + b.toNat * 2 ^ k :=
  or_up w acc b k 8 b.isLt hk hw h

theorem up0 {w : Nat} (hw : 8 ≤ w) (b : Byte) : ((b.setWidth w) <<< 0).toNat = b.toNat := by
  have h256 : (2:Nat) ^ 8 ≤ 2 ^ w := Nat.pow_le_pow_right (by decide) hw
  have := b.isLt
  simp only [BitVec.shiftLeft_zero, BitVec.toNat_setWidth]
  exact Nat.mod_eq_of_lt (by omega)

theorem beU16_cons (b0 b1 : Byte) (rest : Bytes) :
    beU16? (b0 :: b1 :: rest) = some (BitVec.ofNat 16 (unbe [b0, b1])) := by
  simp only [beU16?, idx?, List.getElem?_cons_succ, List.getElem?_cons_zero, Option.bind_some, Option.map_some,
    Option.some.injEq, up16]
  have l0 := b0.isLt; have l1 := b1.isLt
  apply BitVec.eq_of_toNat_eq
  have e0 := up0 (w := 16) (by decide) b1
  have e1 := up_setw (w := 16) (by decide) (b1.setWidth 16 <<< 0) b0 8 (by decide) (by rw [e0]; omega)
  rw [e1, e0]
  simp [unbe]; omega

theorem beU32_cons (b0 b1 b2 b3 : Byte) (rest : Bytes) :
    beU32? (b0 :: b1 :: b2 :: b3 :: rest) = some (BitVec.ofNat 32 (unbe [b0, b1, b2, b3])) := by
  simp only [beU32?, idx?, List.getElem?_cons_succ, List.getElem?_cons_zero, Option.bind_some, Option.map_some,
    Option.some.injEq, up32]
  have l0 := b0.isLt; have l1 := b1.isLt; have l2 := b2.isLt; have l3 := b3.isLt
  apply BitVec.eq_of_toNat_eq
  have e0 := up0 (w := 32) (by decide) b3
  have e1 := up_setw (w := 32) (by decide) _ b2 8 (by decide) (by rw [e0]; omega)
  have e2 := up_setw (w := 32) (by decide) _ b1 16 (by decide) (by rw [e1, e0]; omega)
  have e3 := up_setw (w := 32) (by decide) _ b0 24 (by decide) (by rw [e2, e1, e0]; omega)
  rw [e3, e2, e1, e0]
  simp [unbe]; omega

theorem beU64_cons (b0 b1 b2 b3 b4 b5 b6 b7 : Byte) (rest : Bytes) :
    beU64? (b0 :: b1 :: b2 :: b3 :: b4 :: b5 :: b6 :: b7 :: rest) =
      some (BitVec.ofNat 64 (unbe [b0, b1, b2, b3, b4, b5, b6, b7])) := by
  simp only [beU64?, idx?, List.getElem?_cons_succ, List.getElem?_cons_zero, Option.bind_some, Option.map_some,
    Option.some.injEq, up64]
  have l0 := b0.isLt; have l1 := b1.isLt; have l2 := b2.isLt; have l3 := b3.isLt
  have l4 := b4.isLt; have l5 := b5.isLt; have l6 := b6.isLt; have l7 := b7.isLt
  apply BitVec.eq_of_toNat_eq
  have e0 := up0 (w := 64) (by decide) b7
  have e1 := up_setw (w := 64) (by decide) _ b6 8 (by decide) (by rw [e0]; omega)
  have e2 := up_setw (w := 64) (by decide) _ b5 16 (by decide) (by rw [e1, e0]; omega)
  have e3 := up_setw (w := 64) (by decide) _ b4 24 (by decide) (by rw [e2, e1, e0]; omega)
  have e4 := up_setw (w := 64) (by decide) _ b3 32 (by decide) (by rw [e3, e2, e1, e0]; omega)
  have e5 := up_setw (w := 64) (by decide) _ b2 40 (by decide) (by rw [e4, e3, e2, e1, e0]; omega)
  have e6 := up_setw (w := 64) (by decide) _ b1 48 (by decide) (by rw [e5, e4, e3, e2, e1, e0]; omega)
  have e7 := up_setw (w := 64) (by decide) _ b0 56 (by decide) (by rw [e6, e5, e4, e3, e2, e1, e0]; omega)
  rw [e7, e6, e5, e4, e3, e2, e1, e0]
  simp [unbe]; omega

end Proof.C17
