import FranzVerif.Spec.C20
/-! C20 — helper lemmas for `Props/C20.lean` (core Lean only). -/
namespace Proof.C20
open Model.C20 Spec.C20

/-! ### raw reads -/

theorem readSize_append (b t : Bytes) : readSize b.length (b ++ t) = ⟨b, t, none⟩ := by
  unfold readSize
  simp [List.take_left' rfl, List.drop_left' rfl]

theorem readSize_append' (b t : Bytes) (n : Nat) (h : n = b.length) : readSize n (b ++ t) = ⟨b, t, none⟩ := by
  subst h; exact readSize_append b t

theorem readExact_append (d t : Bytes) : readExact d (d ++ t) = ⟨d, t, none⟩ := by
  simp [readExact, readSize_append]

theorem readSize_nil (n : Nat) (h : 0 < n) : readSize n [] = ⟨[], [], some .eof⟩ := by
  unfold readSize
  have : ¬ n = 0 := by omega
  simp [this]

/-! ### digits -/

theorem digitsVal_append (dv : UInt8 → Option Nat) (base : Nat) (xs ys : Bytes) (acc : Nat) :
    digitsVal dv base acc (xs ++ ys) =
      match digitsVal dv base acc xs with
      | some a => digitsVal dv base a ys
      | none => none := by
  induction xs generalizing acc with
  | nil => simp [digitsVal]
  | cons x xs ih =>
    simp only [List.cons_append, digitsVal]
    cases dv x with
    | none => rfl
    | some d => exact ih _

theorem isDigit_digit : ∀ d, d < 10 → isDigit (digit d) = true := by decide
theorem decVal_digit : ∀ d, d < 10 → decVal (digit d) = some d := by decide
theorem hexVal_hexc : ∀ d, d < 16 → hexVal (hexc d) = some d := by decide

theorem decGo_ne_nil (f n : Nat) : decGo f n ≠ [] := by
  cases f <;> simp [decGo]
  split <;> simp

theorem decGo_digits (f n : Nat) : ∀ x ∈ decGo f n, isDigit x = true := by
  induction f generalizing n with
  | zero =>
    intro x hx
    simp [decGo] at hx
    subst hx
    exact isDigit_digit _ (Nat.mod_lt _ (by decide))
  | succ f ih =>
    intro x hx
    unfold decGo at hx
    split at hx
    · simp at hx; subst hx; exact isDigit_digit _ ‹_›
    · simp at hx
      rcases hx with hx | hx
      · exact ih _ x hx
      · subst hx; exact isDigit_digit _ (Nat.mod_lt _ (by decide))

theorem decGo_val (f : Nat) : ∀ n acc, n ≤ f →
    ∃ k, digitsVal decVal 10 acc (decGo f n) = some (acc * 10 ^ k + n) := by
  induction f with
  | zero =>
    intro n acc h
    have : n = 0 := by omega
    subst this
    refine ⟨1, ?_⟩
    simp [decGo, digitsVal, decVal_digit 0 (by decide)]
  | succ f ih =>
    intro n acc h
    unfold decGo
    split
    · refine ⟨1, ?_⟩
      simp [digitsVal, decVal_digit n ‹_›]
    · obtain ⟨k, hk⟩ := ih (n / 10) acc (by omega)
      refine ⟨k + 1, ?_⟩
      rw [digitsVal_append, hk]
      simp only [digitsVal, decVal_digit (n % 10) (Nat.mod_lt _ (by decide))]
      congr 1
      rw [Nat.pow_succ, ← Nat.mul_assoc]
      generalize acc * 10 ^ k = X
      omega

theorem toDec_parse (n : Nat) (h : n < 18446744073709551616) : parseUint decVal 10 (toDec n) = some n := by
  unfold parseUint toDec
  obtain ⟨k, hk⟩ := decGo_val n n 0 (Nat.le_refl _)
  have hne : (decGo n n).isEmpty = false := by
    cases hd : decGo n n with
    | nil => exact absurd hd (decGo_ne_nil n n)
    | cons _ _ => rfl
  simp [hne, hk, h]

theorem spanDigits_append (ds : Bytes) (c : UInt8) (t : Bytes) (hds : ∀ x ∈ ds, isDigit x = true)
    (hc : isDigit c = false) : spanDigits (ds ++ c :: t) = (ds, c :: t) := by
  induction ds with
  | nil => simp [spanDigits, hc]
  | cons x xs ih =>
    have hx : isDigit x = true := hds x (by simp)
    have := ih (fun y hy => hds y (by simp [hy]))
    simp [spanDigits, hx, this]

theorem readAscii_toDec (n : Nat) (c : UInt8) (t : Bytes) (hc : isDigit c = false) :
    readAscii (toDec n ++ c :: t) = ⟨toDec n, c :: t, none⟩ := by
  unfold readAscii
  have h := spanDigits_append (toDec n) c t (decGo_digits n n) hc
  rw [h]
  simp

/-! ### fixed-width hex / binary numbers -/

theorem hexDigits_length (k u : Nat) : (hexDigits k u).length = k := by
  induction k generalizing u with
  | zero => rfl
  | succ k ih => simp [hexDigits, ih]

theorem beBytes_length (k u : Nat) : (beBytes k u).length = k := by
  induction k generalizing u with
  | zero => rfl
  | succ k ih => simp [beBytes, ih]

theorem leBytes_length (k u : Nat) : (leBytes k u).length = k := by
  induction k generalizing u with
  | zero => rfl
  | succ k ih => simp [leBytes, ih]

theorem hexDigits_val (k : Nat) : ∀ u acc,
    digitsVal hexVal 16 acc (hexDigits k u) = some (acc * 16 ^ k + u % 16 ^ k) := by
  induction k with
  | zero => intro u acc; simp [hexDigits, digitsVal, Nat.mod_one]
  | succ k ih =>
    intro u acc
    simp only [hexDigits]
    rw [digitsVal_append, ih]
    simp only [digitsVal, hexVal_hexc (u % 16) (Nat.mod_lt _ (by decide))]
    congr 1
    have h2 : u % 16 ^ (k + 1) = u % 16 + 16 * (u / 16 % 16 ^ k) := by
      rw [Nat.pow_succ, Nat.mul_comm, Nat.mod_mul]
    rw [h2, Nat.pow_succ, ← Nat.mul_assoc]
    generalize acc * 16 ^ k = X
    generalize u / 16 % 16 ^ k = Y
    omega

theorem beVal_go (k : Nat) : ∀ u acc,
    (beBytes k u).foldl (fun acc x => acc * 256 + x.toNat) acc = acc * 256 ^ k + u % 256 ^ k := by
  induction k with
  | zero => intro u acc; simp [beBytes, Nat.mod_one]
  | succ k ih =>
    intro u acc
    simp only [beBytes, List.foldl_append, List.foldl_cons, List.foldl_nil]
    rw [ih]
    have h1 : (UInt8.ofNat (u % 256)).toNat = u % 256 := by simp
    have h2 : u % 256 ^ (k + 1) = u % 256 + 256 * (u / 256 % 256 ^ k) := by
      rw [Nat.pow_succ, Nat.mul_comm, Nat.mod_mul]
    rw [h1, h2, Nat.pow_succ, ← Nat.mul_assoc]
    generalize acc * 256 ^ k = X
    generalize u / 256 % 256 ^ k = Y
    omega

theorem beVal_beBytes (k u : Nat) : beVal (beBytes k u) = u % 256 ^ k := by
  unfold beVal; rw [beVal_go]; simp

theorem leVal_leBytes (k : Nat) : ∀ u, leVal (leBytes k u) = u % 256 ^ k := by
  induction k with
  | zero => intro u; simp [leBytes, leVal, Nat.mod_one]
  | succ k ih =>
    intro u
    simp only [leBytes, leVal]
    rw [ih]
    have h1 : (UInt8.ofNat (u % 256)).toNat = u % 256 := by simp
    rw [h1, Nat.pow_succ, Nat.mul_comm (256 ^ k), Nat.mod_mul]

theorem parseHex_hexDigits (k u : Nat) (hk : 0 < k) (hk16 : k ≤ 16) :
    parseUint hexVal 16 (hexDigits k u) = some (u % 16 ^ k) := by
  unfold parseUint
  have hne : (hexDigits k u).isEmpty = false := by
    cases hd : hexDigits k u with
    | nil => have := hexDigits_length k u; rw [hd] at this; simp at this; omega
    | cons _ _ => rfl
  have hlt : u % 16 ^ k < 18446744073709551616 := by
    have h1 : u % 16 ^ k < 16 ^ k := Nat.mod_lt _ (Nat.pow_pos (by decide))
    have h2 : 16 ^ k ≤ 16 ^ 16 := Nat.pow_le_pow_right (by decide) hk16
    have h3 : (16 : Nat) ^ 16 = 18446744073709551616 := by decide
    omega
  simp [hne, hexDigits_val, hlt]

/-! ### what the reader's `uint64` becomes in the record -/

/-- 2^width of a fixed-width format (as `Spec.C20.fmtLim`, a `Nat`) -/
def fmtMod : NumFmt → Nat
  | .hex64 => 18446744073709551616 | .hex32 => 4294967296 | .hex16 => 65536 | .hex8 => 256 | .hex4 => 16
  | .big64 => 18446744073709551616 | .big32 => 4294967296 | .big16 => 65536
  | .little64 => 18446744073709551616 | .little32 => 4294967296 | .little16 => 65536
  | .byte => 256
  | .ascii => 1 | .bool => 1

theorem s32_eq (u : Nat) : s32 u = ((u : Int) + 2147483648) % 4294967296 - 2147483648 := by
  unfold s32
  by_cases h : u % 4294967296 < 2147483648 <;> simp only [h, if_true, if_false] <;> omega
theorem s16_eq (u : Nat) : s16 u = ((u : Int) + 32768) % 65536 - 32768 := by
  unfold s16
  by_cases h : u % 65536 < 32768 <;> simp only [h, if_true, if_false] <;> omega
theorem s64_eq (u : Nat) : s64 u = ((u : Int) + 9223372036854775808) % 18446744073709551616 - 9223372036854775808 := by
  unfold s64
  by_cases h : u % 18446744073709551616 < 9223372036854775808 <;> simp only [h, if_true, if_false] <;> omega

theorem fits_cases (fld : NumField) (f : NumFmt) (n : Int) (h : fitsNum fld f n = true) (hf : f ≠ .ascii) (hb : f ≠ .bool) :
    typeBits fld ≤ fmtBits f ∨ (0 ≤ n ∧ n < fmtLim f) := by
  cases f <;> first | contradiction | (
    simp only [fitsNum, Bool.or_eq_true, Bool.and_eq_true, decide_eq_true_eq] at h; exact h)

theorem recover32 (n : Int) (f : NumFmt) (fld : NumField) (hfld : typeBits fld = 32) (h1 : -2147483648 ≤ n) (h2 : n < 2147483648)
    (hfit : fitsNum fld f n = true) (hf : f ≠ .ascii) (hb : f ≠ .bool) : s32 (u64 n % fmtMod f) = n := by
  rw [s32_eq]
  rcases fits_cases fld f n hfit hf hb with hw | ⟨h0, hl⟩
  · cases f <;> simp [hfld, fmtBits] at hw <;> simp only [fmtMod, u64] <;> omega
  · cases f <;> first | contradiction | (simp only [fmtLim] at hl; simp only [fmtMod, u64]; omega)
theorem recover16 (n : Int) (f : NumFmt) (fld : NumField) (hfld : typeBits fld = 16) (h1 : -32768 ≤ n) (h2 : n < 32768)
    (hfit : fitsNum fld f n = true) (hf : f ≠ .ascii) (hb : f ≠ .bool) : s16 (u64 n % fmtMod f) = n := by
  rw [s16_eq]
  rcases fits_cases fld f n hfit hf hb with hw | ⟨h0, hl⟩
  · cases f <;> simp [hfld, fmtBits] at hw <;> simp only [fmtMod, u64] <;> omega
  · cases f <;> first | contradiction | (simp only [fmtLim] at hl; simp only [fmtMod, u64]; omega)
theorem recover64 (n : Int) (f : NumFmt) (fld : NumField) (hfld : typeBits fld = 64) (h1 : -9223372036854775808 ≤ n) (h2 : n < 9223372036854775808)
    (hfit : fitsNum fld f n = true) (hf : f ≠ .ascii) (hb : f ≠ .bool) : s64 (u64 n % fmtMod f) = n := by
  rw [s64_eq]
  rcases fits_cases fld f n hfit hf hb with hw | ⟨h0, hl⟩
  · cases f <;> simp [hfld, fmtBits] at hw <;> simp only [fmtMod, u64] <;> omega
  · cases f <;> first | contradiction | (simp only [fmtLim] at hl; simp only [fmtMod, u64]; omega)
theorem recoverLen (n : Int) (f : NumFmt) (fld : NumField) (hfld : typeBits fld = 64) (h1 : 0 ≤ n) (h2 : n < 9223372036854775808)
    (hfit : fitsNum fld f n = true) (hf : f ≠ .ascii) (hb : f ≠ .bool) : u64 n % fmtMod f = n.toNat := by
  rcases fits_cases fld f n hfit hf hb with hw | ⟨h0, hl⟩
  · cases f <;> simp [hfld, fmtBits] at hw <;> simp only [fmtMod, u64] <;> omega
  · cases f <;> first | contradiction | (simp only [fmtLim] at hl; simp only [fmtMod, u64]; omega)

theorem goDiv_eq_tdiv (a b : Int) : goDiv a b = Int.tdiv a b := by
  unfold goDiv
  split
  · rw [Int.tdiv_eq_ediv_of_nonneg ‹_›]
  · have : a = -(-a) := by omega
    rw [this, Int.neg_tdiv, Int.tdiv_eq_ediv_of_nonneg (by omega)]
    simp

theorem readNum_fixed (f : NumFmt) (n : Int) (t : Bytes) (hf : f ≠ .ascii) (hb : f ≠ .bool) :
    readNumRaw f (writeNum f n ++ t) = ⟨writeNum f n, t, none⟩ ∧ (writeNum f n).length = fixedWidth f
    ∧ 0 < fixedWidth f ∧ parseNum f (writeNum f n) = some (u64 n % fmtMod f) := by
  cases f <;> first | contradiction | (
    refine ⟨?_, ?_, ?_, ?_⟩
    · simp only [readNumRaw, writeNum, fixedWidth]
      exact readSize_append' _ _ _ (by simp [hexDigits_length, beBytes_length, leBytes_length])
    · simp [writeNum, fixedWidth, hexDigits_length, beBytes_length, leBytes_length]
    · simp [fixedWidth]
    · simp [parseNum, writeNum, fmtMod, parseHex_hexDigits, beVal_beBytes, leVal_leBytes])

def setSz (sz : Sizes) (fld : NumField) (d : Nat) : Sizes :=
  match fld with
  | .topicLen => { sz with t := d }
  | .keyLen => { sz with k := d }
  | .valueLen => { sz with v := d }
  | .hdrCount => { sz with h := d }
  | _ => sz

/-- range of the Go type behind a numeric verb (what `Spec.C20.RecOK` says field by field) -/
def fldOK (r : Rec) : NumField → Prop
  | .topicLen => r.topic.length < 9223372036854775808
  | .keyLen => r.key.length < 9223372036854775808
  | .valueLen => r.value.length < 9223372036854775808
  | .hdrCount => r.headers.length < 9223372036854775808
  | .partition => -2147483648 ≤ r.partition ∧ r.partition < 2147483648
  | .offset => -9223372036854775808 ≤ r.offset ∧ r.offset < 9223372036854775808
  | .leaderEpoch => -2147483648 ≤ r.leaderEpoch ∧ r.leaderEpoch < 2147483648
  | .timestamp => ∃ ns, r.ts = some ns ∧ -9223372036854775808 ≤ ns ∧ ns < 9223372036854775808
  | .producerId => -9223372036854775808 ≤ r.producerId ∧ r.producerId < 9223372036854775808
  | .producerEpoch => -32768 ≤ r.producerEpoch ∧ r.producerEpoch < 32768

/-- the reader's `uint64` `d` stands for the formatter's `n` in a field of the given type -/
def Recovers (fld : NumField) (d : Nat) (n : Int) : Prop :=
  (typeBits fld = 16 → s16 d = n) ∧ (typeBits fld = 32 → s32 d = n)
  ∧ (typeBits fld = 64 → s64 d = n ∧ (0 ≤ n → d = n.toNat))

theorem numVal_range (r : Rec) (fld : NumField) (h : fldOK r fld) :
    (typeBits fld = 16 → -32768 ≤ numVal r fld ∧ numVal r fld < 32768)
    ∧ (typeBits fld = 32 → -2147483648 ≤ numVal r fld ∧ numVal r fld < 2147483648)
    ∧ (typeBits fld = 64 → -9223372036854775808 ≤ numVal r fld ∧ numVal r fld < 9223372036854775808) := by
  cases fld <;> simp [typeBits, numVal, fldOK] at h ⊢ <;> try omega
  obtain ⟨ns, hns, h1, h2⟩ := h
  simp only [tsMillis, hns, goDiv]
  split <;> omega

theorem recovers_fixed (r : Rec) (fld : NumField) (f : NumFmt) (hok : fldOK r fld)
    (hfit : fitsNum fld f (numVal r fld) = true) (hf : f ≠ .ascii) (hb : f ≠ .bool) :
    Recovers fld (u64 (numVal r fld) % fmtMod f) (numVal r fld) := by
  obtain ⟨r16, r32, r64⟩ := numVal_range r fld hok
  refine ⟨fun h => ?_, fun h => ?_, fun h => ⟨?_, fun h0 => ?_⟩⟩
  · exact recover16 _ f fld h (r16 h).1 (r16 h).2 hfit hf hb
  · exact recover32 _ f fld h (r32 h).1 (r32 h).2 hfit hf hb
  · exact recover64 _ f fld h (r64 h).1 (r64 h).2 hfit hf hb
  · exact recoverLen _ f fld h h0 (r64 h).2 hfit hf hb

theorem recovers_nonneg (r : Rec) (fld : NumField) (hok : fldOK r fld) (h0 : 0 ≤ numVal r fld) :
    Recovers fld (numVal r fld).toNat (numVal r fld) := by
  obtain ⟨r16, r32, r64⟩ := numVal_range r fld hok
  refine ⟨fun h => ?_, fun h => ?_, fun h => ⟨?_, fun _ => rfl⟩⟩
  · rw [s16_eq]; have := r16 h; omega
  · rw [s32_eq]; have := r32 h; omega
  · rw [s64_eq]; have := r64 h; omega

theorem assign_of_recovers (r acc : Rec) (sz : Sizes) (t : Bytes) (dn : Bool) (fld : NumField) (f : NumFmt) (d : Nat)
    (hok : fldOK r fld) (hrec : Recovers fld d (numVal r fld)) :
    assign fld d ⟨acc, sz, t, dn⟩ = ⟨applyF r acc (.num fld f), setSz sz fld (numVal r fld).toNat, t, dn⟩ := by
  obtain ⟨h16, h32, h64⟩ := hrec
  cases fld
  case topicLen => have := (h64 rfl).2 (by simp [numVal]); simp [assign, applyF, setSz, this]
  case keyLen => have := (h64 rfl).2 (by simp [numVal]); simp [assign, applyF, setSz, this]
  case valueLen => have := (h64 rfl).2 (by simp [numVal]); simp [assign, applyF, setSz, this]
  case hdrCount => have := (h64 rfl).2 (by simp [numVal]); simp [assign, applyF, setSz, this]
  case partition => have := h32 rfl; simp only [numVal] at this; simp [assign, applyF, setSz, this]
  case offset => have := (h64 rfl).1; simp only [numVal] at this; simp [assign, applyF, setSz, this]
  case leaderEpoch => have := h32 rfl; simp only [numVal] at this; simp [assign, applyF, setSz, this]
  case producerId => have := (h64 rfl).1; simp only [numVal] at this; simp [assign, applyF, setSz, this]
  case producerEpoch => have := h16 rfl; simp only [numVal] at this; simp [assign, applyF, setSz, this]
  case timestamp =>
    have h := (h64 rfl).1
    obtain ⟨ns, hns, h1, h2⟩ := hok
    simp only [numVal, tsMillis, hns] at h
    have hts : tsOfMillis d = msTrunc ns := by
      unfold tsOfMillis msTrunc
      rw [h, ← goDiv_eq_tdiv, s64_eq]
      have hb : -9223372036854775808 ≤ goDiv ns 1000000 * 1000000 ∧ goDiv ns 1000000 * 1000000 < 9223372036854775808 := by
        unfold goDiv; split <;> omega
      generalize goDiv ns 1000000 * 1000000 = x at hb
      simp only [u64]; omega
    simp [assign, applyF, setSz, hns, hts]

/-! ### one fn of `next` on what the formatter wrote -/

theorem numVal_bounds (r : Rec) (fld : NumField) (h : fldOK r fld) :
    -9223372036854775808 ≤ numVal r fld ∧ numVal r fld < 9223372036854775808 := by
  obtain ⟨r16, r32, r64⟩ := numVal_range r fld h
  have : typeBits fld = 16 ∨ typeBits fld = 32 ∨ typeBits fld = 64 := by cases fld <;> simp [typeBits]
  rcases this with h | h | h
  · have := r16 h; omega
  · have := r32 h; omega
  · have := r64 h; omega

theorem stepFlat_lit (first last : Bool) (d t : Bytes) (acc : Rec) (sz : Sizes) :
    stepFlat first last (.lit d) ⟨acc, sz, d ++ t, false⟩ = .ok ⟨acc, sz, t, false⟩ := by
  simp [stepFlat, readExact_append, finishRead]

theorem readBool_true (t : Bytes) : readBool (strTrue ++ t) = ⟨strTrue, t, none⟩ := by
  simp [readBool, matchWord, strTrue]

theorem readBool_false (t : Bytes) : readBool (strFalse ++ t) = ⟨strFalse, t, none⟩ := by
  simp [readBool, matchWord, strFalse]

theorem stepFlat_num (r acc : Rec) (sz : Sizes) (t : Bytes) (first last : Bool) (fld : NumField) (f : NumFmt)
    (hok : fldOK r fld) (hfit : fitsNum fld f (numVal r fld) = true) (hnn : nonNegF r (.num fld f) = true)
    (hamb : f = .ascii → ∃ c t', t = c :: t' ∧ isDigit c = false) :
    stepFlat first last (.num fld f) ⟨acc, sz, writeNum f (numVal r fld) ++ t, false⟩
      = .ok ⟨applyF r acc (.num fld f), setSz sz fld (numVal r fld).toNat, t, false⟩ := by
  have hbd := numVal_bounds r fld hok
  show stepNum first last fld f _ (readNumRaw f (writeNum f (numVal r fld) ++ t)) = _
  by_cases hf : f = .ascii
  · subst hf
    obtain ⟨c, t', rfl, hc⟩ := hamb rfl
    have h0 : 0 ≤ numVal r fld := by simpa [nonNegF] using hnn
    have hlt : (numVal r fld).toNat < 18446744073709551616 := by omega
    have hw : writeNum .ascii (numVal r fld) = toDec (numVal r fld).toNat := by
      simp [writeNum, show ¬ numVal r fld < 0 by omega]
    rw [hw]
    simp only [readNumRaw]
    rw [readAscii_toDec _ _ _ hc]
    simp only [stepNum, finishRead, fixedWidth, parseNum, toDec_parse _ hlt]
    simp only [Nat.lt_irrefl, decide_false, Bool.false_and, Bool.false_eq_true, if_false]
    exact congrArg _ (assign_of_recovers r acc sz _ false fld .ascii _ hok (recovers_nonneg r fld hok h0))
  · by_cases hb : f = .bool
    · subst hb
      have h01 : numVal r fld = 0 ∨ numVal r fld = 1 := by
        simpa [fitsNum] using hfit
      rcases h01 with h | h
      · have hw : writeNum .bool (numVal r fld) = strFalse := by simp [writeNum, h]
        rw [hw]
        simp only [readNumRaw, readBool_false]
        have hp : parseNum .bool strFalse = some (numVal r fld).toNat := by
          rw [h]; decide
        simp only [stepNum, finishRead, fixedWidth, hp]
        simp only [Nat.lt_irrefl, decide_false, Bool.false_and, Bool.false_eq_true, if_false]
        exact congrArg _ (assign_of_recovers r acc sz _ false fld .bool _ hok (recovers_nonneg r fld hok (by omega)))
      · have hw : writeNum .bool (numVal r fld) = strTrue := by simp [writeNum, h]
        rw [hw]
        simp only [readNumRaw, readBool_true]
        have hp : parseNum .bool strTrue = some (numVal r fld).toNat := by
          rw [h]; decide
        simp only [stepNum, finishRead, fixedWidth, hp]
        simp only [Nat.lt_irrefl, decide_false, Bool.false_and, Bool.false_eq_true, if_false]
        exact congrArg _ (assign_of_recovers r acc sz _ false fld .bool _ hok (recovers_nonneg r fld hok (by omega)))
    · obtain ⟨h1, h2, h3, h4⟩ := readNum_fixed f (numVal r fld) t hf hb
      rw [h1]
      simp only [stepNum, finishRead, h2, h4]
      have hg : (decide (fixedWidth f > 0) && decide (fixedWidth f < fixedWidth f)) = false := by simp
      simp only [hg, Bool.false_eq_true, if_false]
      exact congrArg _ (assign_of_recovers r acc sz _ false fld f _ hok (recovers_fixed r fld f hok hfit hf hb))

theorem stepFlat_text (r acc : Rec) (sz : Sizes) (t : Bytes) (first last : Bool) (fld : TextField)
    (hsz : sz.get fld = (textVal r fld).length) (hlen : (textVal r fld).length < 9223372036854775808) :
    stepFlat first last (.text fld .plain) ⟨acc, sz, textVal r fld ++ t, false⟩
      = .ok ⟨applyF r acc (.text fld .plain), sz, t, false⟩ := by
  show stepText first last fld .plain _ (readText (sz.get fld) (textVal r fld ++ t)) = _
  have hn : ¬ (sz.get fld ≥ 9223372036854775808) := by omega
  simp only [readText, hn, if_false, readSize_append' _ _ _ hsz]
  simp only [stepText, finishRead, decode]
  cases fld <;> rfl

/-! ### the size variables -/

/-- the size variables seen so far hold the lengths of `r`'s fields -/
def Cons (s : Seen) (sz : Sizes) (r : Rec) : Prop :=
  (s.t = true → sz.t = r.topic.length) ∧ (s.k = true → sz.k = r.key.length)
  ∧ (s.v = true → sz.v = r.value.length) ∧ (s.h = true → sz.h = r.headers.length)

theorem cons_init (sz : Sizes) (r : Rec) : Cons {} sz r := by
  simp [Cons]

theorem cons_add (s : Seen) (sz : Sizes) (r : Rec) (fld : NumField) (h : Cons s sz r) :
    Cons (s.add fld) (setSz sz fld (numVal r fld).toNat) r := by
  obtain ⟨ht, hk, hv, hh⟩ := h
  cases fld <;> simp [Cons, Seen.add, setSz, numVal] <;>
    first | exact ⟨ht, hk, hv, hh⟩ | exact ⟨hk, hv, hh⟩ | exact ⟨ht, hv, hh⟩ | exact ⟨ht, hk, hh⟩ | exact ⟨ht, hk, hv⟩

theorem cons_get (s : Seen) (sz : Sizes) (r : Rec) (fld : TextField) (h : Cons s sz r) (hs : s.has fld = true) :
    sz.get fld = (textVal r fld).length := by
  obtain ⟨ht, hk, hv, hh⟩ := h
  cases fld <;> simp [Seen.has] at hs <;> simp [Sizes.get, textVal, *]

/-! ### a flat layout (the inner layout of a header block) -/

theorem fmtF_cons (it : FItem) (rest : List FItem) (r : Rec) : fmtF (it :: rest) r = fmtFItem r it ++ fmtF rest r := by
  simp [fmtF]

theorem unambF_lit (d : Bytes) (rest : List FItem) : unambF (.lit d :: rest) = unambF rest := by
  simp [unambF]

theorem unambF_text (fld : TextField) (e : Enc) (rest : List FItem) : unambF (.text fld e :: rest) = unambF rest := by
  simp [unambF]

theorem unambF_num_other (fld : NumField) (f : NumFmt) (rest : List FItem) (hf : f ≠ .ascii) :
    unambF (.num fld f :: rest) = unambF rest := by
  cases f <;> first | contradiction | simp [unambF]

theorem unambF_num_ascii (fld : NumField) (rest : List FItem) (h : unambF (.num fld .ascii :: rest) = true) :
    (∃ c d rest', rest = .lit (c :: d) :: rest' ∧ isDigit c = false) ∧ unambF rest = true := by
  simp only [unambF, Bool.and_eq_true] at h
  refine ⟨?_, h.2⟩
  have h1 := h.1
  match rest, h1 with
  | .lit (c :: d) :: rest', h1 =>
    simp only [Bool.and_eq_true, Bool.not_eq_true'] at h1
    exact ⟨c, d, rest', rfl, h1.1⟩

/-- the per-item hypotheses of the round trip -/
def ItemOK (r : Rec) (it : FItem) : Prop :=
  fitsF r it = true ∧ plainF it = true ∧ nonNegF r it = true
  ∧ (∀ fld f, it = .num fld f → fldOK r fld)
  ∧ (∀ fld e, it = .text fld e → (textVal r fld).length < 9223372036854775808)

theorem nextF_ok (r : Rec) (inHdr : Bool) (items : List FItem) :
    ∀ (s : Seen) (pl : Bool) (acc : Rec) (sz : Sizes) (t : Bytes) (first : Bool),
    wfF inHdr s pl items = true → unambF items = true → (∀ it ∈ items, ItemOK r it) → Cons s sz r →
    ∃ sz', nextF first items ⟨acc, sz, fmtF items r ++ t, false⟩ = .ok ⟨restrictF items r acc, sz', t, false⟩ := by
  induction items with
  | nil => intro s pl acc sz t first _ _ _ _; exact ⟨sz, by simp [nextF, fmtF, restrictF]⟩
  | cons it rest ih =>
    intro s pl acc sz t first hwf hun hok hc
    have hokr : ∀ it' ∈ rest, ItemOK r it' := fun it' h => hok it' (by simp [h])
    obtain ⟨hfit, hplain, hnn, hfld, htxt⟩ := hok it (by simp)
    cases it with
    | lit d =>
      simp only [wfF, Bool.and_eq_true] at hwf
      rw [unambF_lit] at hun
      obtain ⟨sz', h⟩ := ih s true acc sz t false hwf.2 hun hokr hc
      refine ⟨sz', ?_⟩
      simp only [nextF, fmtF_cons, fmtFItem, List.append_assoc, stepFlat_lit]
      simpa [restrictF, applyF] using h
    | num fld f =>
      simp only [wfF, Bool.and_eq_true] at hwf
      have hamb : f = .ascii → ∃ c t', fmtF rest r ++ t = c :: t' ∧ isDigit c = false := by
        intro hf; subst hf
        obtain ⟨⟨c, d, rest', hr, hcd⟩, _⟩ := unambF_num_ascii fld rest hun
        subst hr
        exact ⟨c, d ++ (fmtF rest' r ++ t), by simp [fmtF_cons, fmtFItem], hcd⟩
      have hun' : unambF rest = true := by
        by_cases hf : f = .ascii
        · subst hf; exact (unambF_num_ascii fld rest hun).2
        · rw [unambF_num_other _ _ _ hf] at hun; exact hun
      have hstep := stepFlat_num r acc sz (fmtF rest r ++ t) first rest.isEmpty fld f (hfld fld f rfl)
        (by simpa [fitsF] using hfit) hnn hamb
      obtain ⟨sz', h⟩ := ih (s.add fld) false (applyF r acc (.num fld f)) (setSz sz fld (numVal r fld).toNat) t false
        hwf.2 hun' hokr (cons_add s sz r fld hc)
      refine ⟨sz', ?_⟩
      simp only [nextF, fmtF_cons, fmtFItem, List.append_assoc, hstep]
      simpa [restrictF] using h
    | text fld e =>
      simp only [wfF, Bool.and_eq_true] at hwf
      rw [unambF_text] at hun
      have he : e = .plain := by simpa [plainF] using hplain
      subst he
      have hstep := stepFlat_text r acc sz (fmtF rest r ++ t) first rest.isEmpty fld
        (cons_get s sz r fld hc hwf.1.1) (htxt fld .plain rfl)
      obtain ⟨sz', h⟩ := ih s false (applyF r acc (.text fld .plain)) sz t false hwf.2 hun hokr hc
      refine ⟨sz', ?_⟩
      simp only [nextF, fmtF_cons, fmtFItem, encode, List.append_assoc, hstep]
      simpa [restrictF] using h

/-! ### header blocks -/

/-- inner layouts only mention `%K %V %k %v` -/
def innerItem : FItem → Prop
  | .lit _ => True
  | .num fld _ => fld = .keyLen ∨ fld = .valueLen
  | .text fld _ => fld = .key ∨ fld = .value

theorem wfF_inner (items : List FItem) : ∀ (s : Seen) (pl : Bool), wfF true s pl items = true → ∀ it ∈ items, innerItem it := by
  induction items with
  | nil => intro _ _ _ it h; simp at h
  | cons x rest ih =>
    intro s pl hwf it hit
    cases x with
    | lit d =>
      simp only [wfF, Bool.and_eq_true] at hwf
      rcases List.mem_cons.1 hit with h | h
      · subst h; trivial
      · exact ih _ _ hwf.2 it h
    | num fld f =>
      simp only [wfF, Bool.and_eq_true] at hwf
      rcases List.mem_cons.1 hit with h | h
      · subst h
        have := hwf.1.2
        simpa [innerItem] using this
      · exact ih _ _ hwf.2 it h
    | text fld e =>
      simp only [wfF, Bool.and_eq_true] at hwf
      rcases List.mem_cons.1 hit with h | h
      · subst h
        have := hwf.1.2
        simpa [innerItem] using this
      · exact ih _ _ hwf.2 it h

/-- `a` and `b` agree outside key / value -/
def SameButKV (a b : Rec) : Prop :=
  a.topic = b.topic ∧ a.headers = b.headers ∧ a.partition = b.partition ∧ a.offset = b.offset
  ∧ a.leaderEpoch = b.leaderEpoch ∧ a.producerId = b.producerId ∧ a.producerEpoch = b.producerEpoch ∧ a.ts = b.ts

theorem restrictF_inner (r' : Rec) (items : List FItem) (hin : ∀ it ∈ items, innerItem it) :
    ∀ acc acc2 : Rec, acc.key = acc2.key → acc.value = acc2.value →
      SameButKV (restrictF items r' acc) acc
      ∧ (restrictF items r' acc).key = (restrictF items r' acc2).key
      ∧ (restrictF items r' acc).value = (restrictF items r' acc2).value := by
  induction items with
  | nil => intro acc acc2 hk hv; simp [restrictF, SameButKV, hk, hv]
  | cons x rest ih =>
    intro acc acc2 hk hv
    have hx := hin x (by simp)
    have hr : ∀ it ∈ rest, innerItem it := fun it h => hin it (by simp [h])
    have key : ∀ a a2 : Rec, a.key = a2.key → a.value = a2.value →
        SameButKV (applyF r' a x) a ∧ (applyF r' a x).key = (applyF r' a2 x).key ∧ (applyF r' a x).value = (applyF r' a2 x).value := by
      intro a a2 h1 h2
      cases x with
      | lit d => simp [applyF, SameButKV, h1, h2]
      | num fld f => rcases hx with h | h <;> subst h <;> simp [applyF, SameButKV, h1, h2]
      | text fld e => rcases hx with h | h <;> subst h <;> simp [applyF, SameButKV, h1, h2]
    obtain ⟨s1, k1, v1⟩ := key acc acc2 hk hv
    obtain ⟨s2, k2, v2⟩ := ih hr (applyF r' acc x) (applyF r' acc2 x) k1 v1
    refine ⟨?_, ?_, ?_⟩
    · simp only [restrictF, List.foldl_cons] at s2 ⊢
      obtain ⟨a1, a2, a3, a4, a5, a6, a7, a8⟩ := s1
      obtain ⟨b1, b2, b3, b4, b5, b6, b7, b8⟩ := s2
      exact ⟨b1.trans a1, b2.trans a2, b3.trans a3, b4.trans a4, b5.trans a5, b6.trans a6, b7.trans a7, b8.trans a8⟩
    · simpa [restrictF] using k2
    · simpa [restrictF] using v2

theorem rec_ext (a b : Rec) (h : SameButKV a b) (hk : a.key = b.key) (hv : a.value = b.value) : a = b := by
  obtain ⟨h1, h2, h3, h4, h5, h6, h7, h8⟩ := h
  cases a; cases b; simp_all

theorem readHeaders_ok (inner : List FItem) (t : Bytes) (hwf : wfInner inner = true) (hun : unambF inner = true) (hs : List Hdr) :
    ∀ (acc : Rec) (sz : Sizes), (∀ h ∈ hs, ∀ it ∈ inner, ItemOK (hdrRec h) it) →
    ∃ k v, readHeaders inner hs.length ⟨acc, sz, hs.flatMap (fun h => fmtF inner (hdrRec h)) ++ t, false⟩
      = (⟨{ acc with key := k, value := v, headers := acc.headers ++ hs.map (restrictHdr inner) }, sz, t, false⟩, none) := by
  simp only [wfInner, Bool.and_eq_true] at hwf
  have hin := wfF_inner inner {} false hwf.2
  induction hs with
  | nil => intro acc sz _; exact ⟨acc.key, acc.value, by simp [readHeaders]⟩
  | cons h rest ih =>
    intro acc sz hok
    obtain ⟨sz', hnext⟩ := nextF_ok (hdrRec h) true inner {} false { acc with key := [], value := [] } {}
      (rest.flatMap (fun h => fmtF inner (hdrRec h)) ++ t) true hwf.2 hun (hok h (by simp)) (cons_init _ _)
    obtain ⟨same, hk, hv⟩ := restrictF_inner (hdrRec h) inner hin { acc with key := [], value := [] } {} rfl rfl
    have hhd : (⟨(restrictF inner (hdrRec h) { acc with key := [], value := [] }).key,
                 (restrictF inner (hdrRec h) { acc with key := [], value := [] }).value⟩ : Hdr) = restrictHdr inner h := by
      simp only [restrictHdr, hk, hv]
    obtain ⟨k, v, hrest⟩ := ih
      { restrictF inner (hdrRec h) { acc with key := [], value := [] } with
        headers := (restrictF inner (hdrRec h) { acc with key := [], value := [] }).headers ++ [restrictHdr inner h] } sz
      (fun h' hh' => hok h' (by simp [hh']))
    refine ⟨k, v, ?_⟩
    simp only [List.length_cons, readHeaders, List.flatMap_cons, List.append_assoc, hnext, hhd, hrest]
    obtain ⟨a1, a2, a3, a4, a5, a6, a7, a8⟩ := same
    simp only [List.map_cons, a2, List.append_assoc, List.singleton_append]
    congr 2
    apply rec_ext
    · exact ⟨a1, rfl, a3, a4, a5, a6, a7, a8⟩
    · rfl
    · rfl

/-! ### a whole layout -/

theorem format_cons (it : Item) (rest : Layout) (r : Rec) : format (it :: rest) r = fmtItem r it ++ format rest r := by
  simp [format]

theorem unambL_lit (d : Bytes) (rest : Layout) : unambL (.flat (.lit d) :: rest) = unambL rest := by
  simp [unambL]

theorem unambL_text (fld : TextField) (e : Enc) (rest : Layout) : unambL (.flat (.text fld e) :: rest) = unambL rest := by
  simp [unambL]

theorem unambL_num_other (fld : NumField) (f : NumFmt) (rest : Layout) (hf : f ≠ .ascii) :
    unambL (.flat (.num fld f) :: rest) = unambL rest := by
  cases f <;> first | contradiction | simp [unambL]

theorem unambL_num_ascii (fld : NumField) (rest : Layout) (h : unambL (.flat (.num fld .ascii) :: rest) = true) :
    (∃ c d rest', rest = .flat (.lit (c :: d)) :: rest' ∧ isDigit c = false) ∧ unambL rest = true := by
  simp only [unambL, Bool.and_eq_true] at h
  refine ⟨?_, h.2⟩
  have h1 := h.1
  match rest, h1 with
  | .flat (.lit (c :: d)) :: rest', h1 =>
    simp only [Bool.and_eq_true, Bool.not_eq_true'] at h1
    exact ⟨c, d, rest', rfl, h1.1⟩

theorem unambL_hdrs (inner : List FItem) (rest : Layout) : unambL (.hdrs inner :: rest) = (unambF inner && unambL rest) := by
  simp [unambL]

def ItemOKI (r : Rec) : Item → Prop
  | .flat i => ItemOK r i
  | .hdrs inner => ∀ h ∈ r.headers, ∀ it ∈ inner, ItemOK (hdrRec h) it

theorem next_ok (r : Rec) (L : Layout) :
    ∀ (s : Seen) (pl hb : Bool) (acc : Rec) (sz : Sizes) (t : Bytes) (first : Bool),
    wfL s pl hb L = true → unambL L = true → (∀ it ∈ L, ItemOKI r it) → Cons s sz r →
    ∃ sz', next first L ⟨acc, sz, format L r ++ t, false⟩ = .ok ⟨restrictFrom L r acc, sz', t, false⟩ := by
  induction L with
  | nil => intro s pl hb acc sz t first _ _ _ _; exact ⟨sz, by simp [next, format, restrictFrom]⟩
  | cons it rest ih =>
    intro s pl hb acc sz t first hwf hun hok hc
    have hokr : ∀ it' ∈ rest, ItemOKI r it' := fun it' h => hok it' (by simp [h])
    have hit := hok it (by simp)
    cases it with
    | hdrs inner =>
      simp only [wfL, Bool.and_eq_true] at hwf
      rw [unambL_hdrs, Bool.and_eq_true] at hun
      have hsz : sz.h = r.headers.length := hc.2.2.2 hwf.1.1.1
      obtain ⟨k, v, hrd⟩ := readHeaders_ok inner (format rest r ++ t) hwf.1.2 hun.1 r.headers acc sz hit
      obtain ⟨sz', h⟩ := ih s false true (applyI r acc (.hdrs inner)) sz t false hwf.2 hun.2 hokr hc
      refine ⟨sz', ?_⟩
      simp only [next, format_cons, fmtItem, List.append_assoc, step, hsz, hrd, finishRead]
      simpa [restrictFrom, applyI] using h
    | flat i =>
      obtain ⟨hfit, hplain, hnn, hfld, htxt⟩ := hit
      cases i with
      | lit d =>
        simp only [wfL, Bool.and_eq_true] at hwf
        rw [unambL_lit] at hun
        obtain ⟨sz', h⟩ := ih s true hb acc sz t false hwf.2 hun hokr hc
        refine ⟨sz', ?_⟩
        simp only [next, format_cons, fmtItem, fmtFItem, List.append_assoc, step, stepFlat_lit]
        simpa [restrictFrom, applyI, applyF] using h
      | num fld f =>
        simp only [wfL, Bool.and_eq_true] at hwf
        have hamb : f = .ascii → ∃ c t', format rest r ++ t = c :: t' ∧ isDigit c = false := by
          intro hf; subst hf
          obtain ⟨⟨c, d, rest', hr, hcd⟩, _⟩ := unambL_num_ascii fld rest hun
          subst hr
          exact ⟨c, d ++ (format rest' r ++ t), by simp [format_cons, fmtItem, fmtFItem], hcd⟩
        have hun' : unambL rest = true := by
          by_cases hf : f = .ascii
          · subst hf; exact (unambL_num_ascii fld rest hun).2
          · rw [unambL_num_other _ _ _ hf] at hun; exact hun
        have hstep := stepFlat_num r acc sz (format rest r ++ t) first rest.isEmpty fld f (hfld fld f rfl)
          (by simpa [fitsF] using hfit) hnn hamb
        obtain ⟨sz', h⟩ := ih (s.add fld) false hb (applyF r acc (.num fld f)) (setSz sz fld (numVal r fld).toNat) t false
          hwf.2 hun' hokr (cons_add s sz r fld hc)
        refine ⟨sz', ?_⟩
        simp only [next, format_cons, fmtItem, fmtFItem, List.append_assoc, step, hstep]
        simpa [restrictFrom, applyI] using h
      | text fld e =>
        simp only [wfL, Bool.and_eq_true] at hwf
        rw [unambL_text] at hun
        have he : e = .plain := by simpa [plainF] using hplain
        subst he
        have hstep := stepFlat_text r acc sz (format rest r ++ t) first rest.isEmpty fld
          (cons_get s sz r fld hc hwf.1) (htxt fld .plain rfl)
        obtain ⟨sz', h⟩ := ih s false hb (applyF r acc (.text fld .plain)) sz t false hwf.2 hun hokr hc
        refine ⟨sz', ?_⟩
        simp only [next, format_cons, fmtItem, fmtFItem, encode, List.append_assoc, step, hstep]
        simpa [restrictFrom, applyI] using h

/-! ### from the decidable hypotheses of the property to the per-item ones -/

theorem recOK_fld (r : Rec) (h : RecOK r = true) : (∀ fld, fldOK r fld) ∧ (∀ fld, (textVal r fld).length < 9223372036854775808)
    ∧ (∀ hd ∈ r.headers, hd.key.length < 9223372036854775808 ∧ hd.value.length < 9223372036854775808) := by
  simp only [RecOK, lenOK, Bool.and_eq_true, decide_eq_true_eq, List.all_eq_true] at h
  obtain ⟨⟨⟨⟨⟨⟨⟨⟨⟨⟨⟨⟨⟨⟨⟨p1, p2⟩, o1⟩, o2⟩, l1⟩, l2⟩, x1⟩, x2⟩, y1⟩, y2⟩, hts⟩, lt⟩, lk⟩, lv⟩, lh⟩, hh⟩ := h
  refine ⟨?_, ?_, ?_⟩
  · intro fld
    cases fld <;> simp only [fldOK] <;> try (first | assumption | exact ⟨by assumption, by assumption⟩)
    cases hr : r.ts with
    | none => simp [hr] at hts
    | some ns =>
      simp only [hr, Bool.and_eq_true, decide_eq_true_eq] at hts
      exact ⟨ns, rfl, hts.1, hts.2⟩
  · intro fld; cases fld <;> simpa [textVal]
  · intro hd hhd; exact hh hd hhd

theorem wfL_hdrs_mem (L : Layout) : ∀ (s : Seen) (pl hb : Bool) (inner : List FItem),
    wfL s pl hb L = true → Item.hdrs inner ∈ L → wfInner inner = true := by
  induction L with
  | nil => intro _ _ _ _ _ h; simp at h
  | cons it rest ih =>
    intro s pl hb inner hwf hmem
    cases it with
    | hdrs inner' =>
      simp only [wfL, Bool.and_eq_true] at hwf
      rcases List.mem_cons.1 hmem with h | h
      · cases h; exact hwf.1.2
      · exact ih _ _ _ _ hwf.2 h
    | flat i =>
      have hmem' : Item.hdrs inner ∈ rest := by
        rcases List.mem_cons.1 hmem with h | h
        · cases h
        · exact h
      cases i <;> simp only [wfL, Bool.and_eq_true] at hwf <;> exact ih _ _ _ _ hwf.2 hmem'

theorem itemOK_of_hyps (L : Layout) (r : Rec) (s : Seen) (pl hb : Bool) (hwf : wfL s pl hb L = true) (hr : RecOK r = true)
    (hfit : Fits L r = true) (hpl : PlainText L = true) (hnn : NonNegAscii L r = true) :
    ∀ it ∈ L, ItemOKI r it := by
  obtain ⟨hfld, htxt, hhd⟩ := recOK_fld r hr
  simp only [Fits, PlainText, NonNegAscii, List.all_eq_true] at hfit hpl hnn
  intro it hit
  have f1 := hfit it hit
  have f2 := hpl it hit
  have f3 := hnn it hit
  cases it with
  | flat i =>
    exact ⟨by simpa [fitsI] using f1, by simpa [plainI] using f2, by simpa [nonNegI] using f3,
      fun fld _ _ => hfld fld, fun fld _ _ => htxt fld⟩
  | hdrs inner =>
    have hwi := wfL_hdrs_mem L s pl hb inner hwf hit
    simp only [wfInner, Bool.and_eq_true] at hwi
    have hin := wfF_inner inner {} false hwi.2
    simp only [fitsI, plainI, nonNegI, List.all_eq_true] at f1 f2 f3
    intro h hh it' hit'
    obtain ⟨lk, lv⟩ := hhd h hh
    refine ⟨f1 h hh it' hit', f2 it' hit', f3 h hh it' hit', ?_, ?_⟩
    · intro fld f heq
      subst heq
      rcases hin _ hit' with h1 | h1 <;> subst h1 <;> simpa [fldOK, hdrRec]
    · intro fld e heq
      subst heq
      rcases hin _ hit' with h1 | h1 <;> subst h1 <;> simpa [textVal, hdrRec]

/-! ### end of the stream -/

theorem readNumRaw_nil (f : NumFmt) : readNumRaw f [] = ⟨[], [], some .eof⟩ := by
  cases f <;> simp [readNumRaw, readAscii, spanDigits, readBool, fixedWidth, readSize]

theorem readRecord_nil (L : Layout) (h : WF L = true) : readRecord L [] = .error .eof := by
  simp only [WF, Bool.and_eq_true] at h
  cases L with
  | nil => simp at h
  | cons it rest =>
    have hwf := h.2
    cases it with
    | hdrs inner => simp [wfL] at hwf
    | flat i =>
      cases i with
      | lit d =>
        simp only [wfL, Bool.and_eq_true] at hwf
        have hd : 0 < d.length := by
          cases d with
          | nil => simp at hwf
          | cons _ _ => simp
        simp [readRecord, next, step, stepFlat, readExact, readSize_nil _ hd, finishRead]
      | num fld f =>
        simp [readRecord, next, step, stepFlat, stepNum, readNumRaw_nil, finishRead]
      | text fld e => simp [wfL, Seen.has] at hwf; cases fld <;> simp at hwf

end Proof.C20
