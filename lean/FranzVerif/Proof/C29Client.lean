import FranzVerif.Gen.C29
import FranzVerif.Model.C29Client
/-! C29 — helper lemmas for the client-side theorems (the invariant that ties the `recBuf` model to the
chain monitor). The property theorems themselves are in `Props/C29.lean`. -/
namespace Proof.C29C
open Model.C29C

/-- `incrementSequence s n = (s+n) mod 2^31` for `0 ≤ s < 2^31`, `1 ≤ n < 2^31` (regenerated function). -/
theorem incSeq_toNat (s n : BitVec 32) (hs : s.toNat < 2147483648) (hn1 : 1 ≤ n.toNat) (hn : n.toNat < 2147483648) :
    (Gen.C29.incrementSequence s n).toNat = (s.toNat + n.toNat) % 2147483648 := by
  unfold Gen.C29.incrementSequence
  have h1 : (2147483647#32 - n).toNat = 2147483647 - n.toNat := by
    rw [BitVec.toNat_sub]; simp; omega
  have h2 : (2147483647#32 - s).toNat = 2147483647 - s.toNat := by
    rw [BitVec.toNat_sub]; simp; omega
  have hslt : BitVec.slt (2147483647#32 - n) s = decide (2147483647 - n.toNat < s.toNat) := by
    simp only [BitVec.slt, BitVec.toInt_eq_toNat_cond, h1]
    have : (2 * (2147483647 - n.toNat) < 2 ^ 32) := by omega
    have : (2 * s.toNat < 2 ^ 32) := by omega
    simp [*]
  rw [hslt]
  by_cases h : 2147483647 - n.toNat < s.toNat
  · simp only [h, decide_true, if_true]
    rw [BitVec.toNat_sub, BitVec.toNat_sub, h2]; simp; omega
  · simp only [h, decide_false, Bool.false_eq_true, if_false]
    rw [BitVec.toNat_add]; omega

-- from here on the function is opaque to the unifier (it would otherwise unfold 32-bit arithmetic on literals)
attribute [local irreducible] Gen.C29.incrementSequence

/-- A non-negative int32 read as a signed number is its value. -/
theorem toInt_of_lt (x : BitVec 32) (h : x.toNat < 2147483648) : x.toInt = (x.toNat : Int) := by
  rw [BitVec.toInt_eq_toNat_cond]
  have : 2 * x.toNat < 2 ^ 32 := by omega
  simp [this]

/-! ### The six write sites, as the source has them now (each is `rfl` against the regenerated text;
a site that stops being `incrementSequence(field, n)` / a copy / the reset to 0 breaks here) -/

theorem site_drain (b s n : BitVec 32) : Gen.C29S.createReq_seq b s n = Gen.C29.incrementSequence s n := rfl
theorem site_finish (b s n : BitVec 32) : Gen.C29S.finishBatch_batch0Seq b s n = Gen.C29.incrementSequence b n := rfl
theorem site_rewind (b s n : BitVec 32) : Gen.C29S.resetBatchDrainIdx_seq b s n = b := rfl
theorem site_reset_seq (b s n : BitVec 32) : Gen.C29S.tryAddBatch_seq b s n = 0#32 := rfl
theorem site_reset_b0 (b s n : BitVec 32) : Gen.C29S.tryAddBatch_batch0Seq b s n = 0#32 := rfl
theorem site_wire (b s n : BitVec 32) : Gen.C29S.addBatch_seqRecBatch_seq b s n = s := rfl

/-! ### Prefix sums of record counts -/

theorem sumN_nil : sumN [] = 0 := rfl
theorem sumN_cons (a : BitVec 32) (l : List (BitVec 32)) : sumN (a :: l) = a.toNat + sumN l := by
  simp [sumN]
theorem sumN_append (a b : List (BitVec 32)) : sumN (a ++ b) = sumN a + sumN b := by
  simp [sumN]

theorem sumN_take_le (l : List (BitVec 32)) (i : Nat) : sumN (l.take i) ≤ sumN l := by
  induction l generalizing i with
  | nil => simp [sumN]
  | cons a t ih =>
    cases i with
    | zero => simp [sumN]
    | succ k => simp only [List.take_succ_cons, sumN_cons]; have := ih k; omega

theorem sumN_take_succ (l : List (BitVec 32)) (i : Nat) (n : BitVec 32) (h : l[i]? = some n) :
    sumN (l.take (i + 1)) = sumN (l.take i) + n.toNat := by
  induction l generalizing i with
  | nil => simp at h
  | cons a t ih =>
    cases i with
    | zero => simp at h; subst h; simp [sumN]
    | succ k =>
      simp only [List.getElem?_cons_succ] at h
      simp only [List.take_succ_cons, sumN_cons]
      have := ih k h; omega

theorem mem_le_sumN (l : List (BitVec 32)) (n : BitVec 32) (h : n ∈ l) : n.toNat ≤ sumN l := by
  induction l with
  | nil => simp at h
  | cons a t ih =>
    rw [sumN_cons]
    rcases List.mem_cons.1 h with h | h
    · subst h; omega
    · have := ih h; omega

/-- With at least one record per batch, prefix sums grow strictly. -/
theorem sumN_take_lt (l : List (BitVec 32)) (hpos : ∀ n ∈ l, 1 ≤ n.toNat) (i j : Nat) (hij : i < j) (hj : j ≤ l.length) :
    sumN (l.take i) < sumN (l.take j) := by
  induction l generalizing i j with
  | nil => simp at hj; omega
  | cons a t ih =>
    cases j with
    | zero => omega
    | succ j' =>
      cases i with
      | zero =>
        simp only [List.take_zero, List.take_succ_cons, sumN_cons, sumN_nil]
        have := hpos a (by simp); omega
      | succ i' =>
        simp only [List.take_succ_cons, sumN_cons]
        have := ih (fun n hn => hpos n (by simp [hn])) i' j' (by omega) (by simpa using hj)
        omega

/-! ### Monitor steps under their side conditions -/

theorem step_start (m : Mon) (e f n : Int) (hs : m.started = false)
    (h0 : 0 ≤ f) (h1 : f < 2147483648) (h2 : 1 ≤ n) (h3 : n < 2147483648) :
    m.step (.batch e f n) = some { started := true, epoch := e, nextSeq := next f n, chain := [(f, n)], allow := false } := by
  simp [Mon.step, hs, seqMod]; omega

theorem step_next (m : Mon) (e f n : Int) (hs : m.started = true) (he : e = m.epoch) (hf : f = m.nextSeq)
    (h0 : 0 ≤ f) (h1 : f < 2147483648) (h2 : 1 ≤ n) (h3 : n < 2147483648) :
    m.step (.batch e f n) = some { m with nextSeq := next f n, chain := (f, n) :: m.chain } := by
  subst hf; subst he
  simp [Mon.step, hs, seqMod]; omega

theorem step_resend (m : Mon) (e f n : Int) (hs : m.started = true) (he : e = m.epoch) (hf : f ≠ m.nextSeq)
    (hc : (f, n) ∈ m.chain)
    (h0 : 0 ≤ f) (h1 : f < 2147483648) (h2 : 1 ≤ n) (h3 : n < 2147483648) :
    m.step (.batch e f n) = some m := by
  subst he
  simp [Mon.step, hs, hf, hc, seqMod]; omega

theorem step_newepoch (m : Mon) (e n : Int) (hs : m.started = true) (he : e ≠ m.epoch) (ha : m.allow = true)
    (h2 : 1 ≤ n) (h3 : n < 2147483648) :
    m.step (.batch e 0 n) = some { started := true, epoch := e, nextSeq := next 0 n, chain := [(0, n)], allow := false } := by
  simp [Mon.step, hs, he, ha, seqMod]; omega

theorem run_append (m : Mon) (a b : List Ev) :
    m.run (a ++ b) = (m.run a).bind (fun m' => m'.run b) := by
  induction a generalizing m with
  | nil => simp [Mon.run]
  | cons x xs ih =>
    simp only [List.cons_append, Mon.run]
    cases m.step x with
    | none => simp
    | some m' => simp [ih]

/-! ### The invariant -/

/-- The first sequence of the `i`-th pending batch: `(batch0Seq + records of the batches before it) mod 2^31`. -/
def firstOf (r : RecBuf) (i : Nat) : Nat := (r.batch0Seq.toNat + sumN (r.batches.take i)) % 2147483648

structure Inv (r : RecBuf) (m : Mon) : Prop where
  b0 : r.batch0Seq.toNat < 2147483648
  ns : ∀ n ∈ r.batches, 1 ≤ n.toNat
  tot : sumN r.batches < 2147483648
  idx : r.drainIdx ≤ r.sentHi
  hi : r.sentHi ≤ r.batches.length
  notStarted : m.started = false → r.sentHi = 0
  ep : m.started = true → m.epoch ≤ r.epoch
  rs : r.needSeqReset = true → r.sentHi = 0 ∧ m.allow = true ∧ (m.started = true → m.epoch < r.epoch)
  seqv : r.needSeqReset = false → r.seq.toNat = firstOf r r.drainIdx
  link : r.needSeqReset = false → m.started = true →
    m.epoch = r.epoch ∧ m.nextSeq = (firstOf r r.sentHi : Int) ∧
    ∀ i n, i < r.sentHi → r.batches[i]? = some n → (((firstOf r i : Nat) : Int), ((n.toNat : Nat) : Int)) ∈ m.chain

theorem inv_init (s : BitVec 32) (hs : s.toNat < 2147483648) : Inv (RecBuf.init s) {} := by
  refine ⟨hs, by simp [RecBuf.init], by simp [RecBuf.init, sumN], by simp [RecBuf.init], by simp [RecBuf.init],
    by simp [RecBuf.init], by simp, by simp [RecBuf.init], ?_, by simp⟩
  intro _
  simp [RecBuf.init, firstOf, sumN]; omega

/-! ### `firstOf` only depends on `batch0Seq` and the batch list -/

def fo (b : Nat) (l : List (BitVec 32)) (i : Nat) : Nat := (b + sumN (l.take i)) % 2147483648

theorem firstOf_eq (r : RecBuf) (i : Nat) : firstOf r i = fo r.batch0Seq.toNat r.batches i := rfl

theorem fo_zero (b : Nat) (l : List (BitVec 32)) (hb : b < 2147483648) : fo b l 0 = b := by
  simp [fo, sumN]; omega

theorem fo_lt (b : Nat) (l : List (BitVec 32)) (i : Nat) : fo b l i < 2147483648 := by
  unfold fo; omega

theorem fo_append (b : Nat) (l t : List (BitVec 32)) (i : Nat) (hi : i ≤ l.length) : fo b (l ++ t) i = fo b l i := by
  unfold fo; rw [List.take_append_of_le_length hi]

theorem fo_succ (b : Nat) (l : List (BitVec 32)) (i : Nat) (n : BitVec 32) (h : l[i]? = some n) :
    fo b l (i + 1) = (fo b l i + n.toNat) % 2147483648 := by
  unfold fo; rw [sumN_take_succ l i n h]; omega

theorem fo_tail (b : Nat) (a : BitVec 32) (t : List (BitVec 32)) (i : Nat) :
    fo ((b + a.toNat) % 2147483648) t i = fo b (a :: t) (i + 1) := by
  unfold fo; simp only [List.take_succ_cons, sumN_cons]; omega

theorem fo_ne (b : Nat) (l : List (BitVec 32)) (hpos : ∀ n ∈ l, 1 ≤ n.toNat) (htot : sumN l < 2147483648)
    (i j : Nat) (hij : i < j) (hj : j ≤ l.length) : fo b l i ≠ fo b l j := by
  have h1 := sumN_take_lt l hpos i j hij hj
  have h2 := sumN_take_le l j
  unfold fo; omega

theorem getElem?_lt_sum (l : List (BitVec 32)) (i : Nat) (n : BitVec 32) (h : l[i]? = some n) : n.toNat ≤ sumN l :=
  mem_le_sumN l n (List.mem_of_getElem? h)

/-! ### The steps of the client, unfolded -/

theorem step_drain_none (r : RecBuf) (h : r.batches[r.drainIdx]? = none) : r.step .drain = (r, []) := by
  simp [RecBuf.step, h]

theorem step_drain_plain (r : RecBuf) (n : BitVec 32) (h : r.batches[r.drainIdx]? = some n) (hr : r.needSeqReset = false) :
    r.step .drain = ({ r with seq := Gen.C29.incrementSequence r.seq n, drainIdx := r.drainIdx + 1,
                              sentHi := max r.sentHi (r.drainIdx + 1) }, [.batch r.epoch r.seq.toInt n.toInt]) := by
  simp [RecBuf.step, h, hr, site_drain, site_wire]

theorem step_drain_reset (r : RecBuf) (n : BitVec 32) (h : r.batches[r.drainIdx]? = some n) (hr : r.needSeqReset = true)
    (h0 : r.drainIdx = 0) :
    r.step .drain = ({ r with seq := Gen.C29.incrementSequence 0#32 n, batch0Seq := 0#32, drainIdx := 1, needSeqReset := false,
                              sentHi := max r.sentHi 1 }, [.batch r.epoch 0 n.toInt]) := by
  rw [h0] at h
  simp [RecBuf.step, h, hr, h0, site_drain, site_wire, site_reset_seq, site_reset_b0]

/-! ### Preservation, operation by operation -/

theorem inv_buffer (r : RecBuf) (m : Mon) (h : Inv r m) (n : BitVec 32) :
    (r.step (.buffer n)).2 = [] ∧ Inv (r.step (.buffer n)).1 m := by
  by_cases hc : 1 ≤ n.toNat ∧ sumN r.batches + n.toNat < 2147483648
  · have e : r.step (.buffer n) = ({ r with batches := r.batches ++ [n] }, []) := by simp [RecBuf.step, hc]
    rw [e]; refine ⟨rfl, ?_⟩
    have hfo : ∀ i, i ≤ r.batches.length → firstOf { r with batches := r.batches ++ [n] } i = firstOf r i := by
      intro i hi; simp only [firstOf_eq]; exact fo_append _ _ _ _ hi
    have hhi := h.hi
    have hidx := h.idx
    refine ⟨h.b0, ?_, ?_, h.idx, ?_, h.notStarted, h.ep, h.rs, ?_, ?_⟩
    · intro x hx
      simp only [List.mem_append, List.mem_singleton] at hx
      rcases hx with hx | hx
      · exact h.ns x hx
      · subst hx; exact hc.1
    · show sumN (r.batches ++ [n]) < 2147483648
      rw [sumN_append, sumN_cons, sumN_nil]; omega
    · show r.sentHi ≤ (r.batches ++ [n]).length
      simp; omega
    · intro hr
      show r.seq.toNat = firstOf _ r.drainIdx
      rw [hfo _ (by omega)]; exact h.seqv hr
    · intro hr hs
      obtain ⟨h1, h2, h3⟩ := h.link hr hs
      refine ⟨h1, ?_, ?_⟩
      · show m.nextSeq = ((firstOf _ r.sentHi : Nat) : Int)
        rw [hfo _ hhi]; exact h2
      · intro i x hi hx
        have hil : i < r.batches.length := by
          have : i < r.sentHi := hi
          omega
        rw [hfo i (by omega)]
        apply h3 i x hi
        have hx' : (r.batches ++ [n])[i]? = some x := hx
        rwa [List.getElem?_append_left hil] at hx'
  · have e : r.step (.buffer n) = (r, []) := by simp [RecBuf.step, hc]
    rw [e]; exact ⟨rfl, h⟩

theorem inv_rewind (r : RecBuf) (m : Mon) (h : Inv r m) :
    (r.step .rewind).2 = [] ∧ Inv (r.step .rewind).1 m := by
  have e : r.step .rewind = ({ r with seq := r.batch0Seq, drainIdx := 0 }, []) := by simp [RecBuf.step, site_rewind]
  rw [e]; refine ⟨rfl, ?_⟩
  refine ⟨h.b0, h.ns, h.tot, Nat.zero_le _, h.hi, h.notStarted, h.ep, h.rs, ?_, h.link⟩
  intro _
  show r.batch0Seq.toNat = firstOf _ 0
  rw [firstOf_eq]; exact (fo_zero _ _ h.b0).symm

theorem inv_epochReset (r : RecBuf) (m : Mon) (h : Inv r m) :
    ∃ m', m.run (r.step .epochReset).2 = some m' ∧ Inv (r.step .epochReset).1 m' := by
  have e : r.step .epochReset = ({ r with seq := r.batch0Seq, drainIdx := 0, needSeqReset := true, epoch := r.epoch + 1, sentHi := 0 }, [.reset]) := by
    simp [RecBuf.step, site_rewind]
  rw [e]
  refine ⟨{ m with allow := true }, by simp [Mon.run, Mon.step], ?_⟩
  refine ⟨h.b0, h.ns, h.tot, Nat.le_refl _, Nat.zero_le _, fun _ => rfl, ?_, ?_, ?_, ?_⟩
  · intro hs; have := h.ep hs; show m.epoch ≤ r.epoch + 1; omega
  · intro _; refine ⟨rfl, rfl, ?_⟩
    intro hs; have := h.ep hs; show m.epoch < r.epoch + 1; omega
  · intro hr; simp at hr
  · intro hr; simp at hr

theorem inv_finish (r : RecBuf) (m : Mon) (h : Inv r m) :
    (r.step .finish).2 = [] ∧ Inv (r.step .finish).1 m := by
  cases hb : r.batches with
  | nil =>
    have e : r.step .finish = (r, []) := by simp [RecBuf.step, hb]
    rw [e]; exact ⟨rfl, h⟩
  | cons a t =>
    cases hd : r.drainIdx with
    | zero =>
      have e : r.step .finish = (r, []) := by simp [RecBuf.step, hb, hd]
      rw [e]; exact ⟨rfl, h⟩
    | succ k =>
      have e : r.step .finish = ({ r with batch0Seq := Gen.C29.incrementSequence r.batch0Seq a, batches := t, drainIdx := k,
                                          sentHi := r.sentHi - 1 }, []) := by
        simp [RecBuf.step, hb, hd, site_finish]
      rw [e]; refine ⟨rfl, ?_⟩
      have hidx := h.idx
      have hhi := h.hi
      rw [hb] at hhi
      simp only [List.length_cons] at hhi
      have hr : r.needSeqReset = false := by
        cases hq : r.needSeqReset with
        | false => rfl
        | true => have := (h.rs hq).1; omega
      have ha1 : 1 ≤ a.toNat := h.ns a (by rw [hb]; simp)
      have htot := h.tot
      rw [hb, sumN_cons] at htot
      have hb0 := h.b0
      have hinc := incSeq_toNat r.batch0Seq a hb0 ha1 (by omega)
      have hfo : ∀ i, firstOf { r with batch0Seq := Gen.C29.incrementSequence r.batch0Seq a, batches := t, drainIdx := k,
                                       sentHi := r.sentHi - 1 } i = firstOf r (i + 1) := by
        intro i
        simp only [firstOf_eq, hinc, hb]
        exact fo_tail _ _ _ _
      refine ⟨?_, ?_, ?_, ?_, ?_, ?_, h.ep, ?_, ?_, ?_⟩
      · show (Gen.C29.incrementSequence r.batch0Seq a).toNat < 2147483648
        rw [hinc]; omega
      · intro x hx; exact h.ns x (by rw [hb]; simp [show x ∈ t from hx])
      · show sumN t < 2147483648; omega
      · show k ≤ r.sentHi - 1; omega
      · show r.sentHi - 1 ≤ t.length; omega
      · intro hs; have := h.notStarted hs; show r.sentHi - 1 = 0; omega
      · intro hq; have hq' : r.needSeqReset = true := hq; rw [hr] at hq'; simp at hq'
      · intro _
        show r.seq.toNat = firstOf _ k
        rw [hfo k, h.seqv hr, hd]
      · intro _ hs
        obtain ⟨h1, h2, h3⟩ := h.link hr hs
        refine ⟨h1, ?_, ?_⟩
        · show m.nextSeq = ((firstOf _ (r.sentHi - 1) : Nat) : Int)
          rw [hfo, h2]
          have : r.sentHi - 1 + 1 = r.sentHi := by omega
          rw [this]
        · intro i x hi hx
          have hi' : i < r.sentHi - 1 := hi
          have hx' : t[i]? = some x := hx
          rw [hfo i]
          apply h3 (i + 1) x (by omega)
          rw [hb]; simpa using hx'

theorem next_cast (a b : Nat) : next (a : Int) (b : Int) = (((a + b) % 2147483648 : Nat) : Int) := by
  simp only [next, seqMod, Int.natCast_emod, Int.natCast_add]; rfl

theorem inv_drain (r : RecBuf) (m : Mon) (h : Inv r m) :
    ∃ m', m.run (r.step .drain).2 = some m' ∧ Inv (r.step .drain).1 m' := by
  cases hget : r.batches[r.drainIdx]? with
  | none =>
    rw [step_drain_none r hget]; exact ⟨m, by simp [Mon.run], h⟩
  | some n =>
    have hlen : r.drainIdx < r.batches.length := (List.getElem?_eq_some_iff.1 hget).1
    have hn1 : 1 ≤ n.toNat := h.ns n (List.mem_of_getElem? hget)
    have hnM : n.toNat < 2147483648 := by have := getElem?_lt_sum _ _ _ hget; have := h.tot; omega
    have hnI : n.toInt = (n.toNat : Int) := toInt_of_lt n hnM
    have hidx := h.idx
    have hhi := h.hi
    cases hr : r.needSeqReset with
    | true =>
      obtain ⟨hs0, hallow, hep⟩ := h.rs hr
      have hd0 : r.drainIdx = 0 := by omega
      rw [step_drain_reset r n hget hr hd0, hnI]
      dsimp only
      have hget0 : r.batches[0]? = some n := by rw [hd0] at hget; exact hget
      refine ⟨{ started := true, epoch := r.epoch, nextSeq := next 0 (n.toNat : Int), chain := [(0, (n.toNat : Int))], allow := false }, ?_, ?_⟩
      · simp only [Mon.run]
        cases hst : m.started with
        | false => rw [step_start m r.epoch 0 _ hst (by omega) (by omega) (by omega) (by omega)]
        | true =>
          have : r.epoch ≠ m.epoch := by have := hep hst; omega
          rw [step_newepoch m r.epoch _ hst this hallow (by omega) (by omega)]
      · have hfo1 : fo 0 r.batches 1 = (0 + n.toNat) % 2147483648 := by
          rw [fo_succ 0 r.batches 0 n hget0, fo_zero 0 _ (by omega)]
        have hinc := incSeq_toNat 0#32 n (by simp) hn1 hnM
        have hmax : max r.sentHi 1 = 1 := by omega
        refine ⟨by simp, h.ns, h.tot, ?_, ?_, ?_, ?_, ?_, ?_, ?_⟩
        · show 1 ≤ max r.sentHi 1; omega
        · show max r.sentHi 1 ≤ r.batches.length; omega
        · intro hq; simp at hq
        · intro _; exact Int.le_refl _
        · intro hq; simp at hq
        · intro _
          show (Gen.C29.incrementSequence 0#32 n).toNat = fo (0#32).toNat r.batches 1
          rw [hinc]; simp only [BitVec.toNat_ofNat]; simpa using hfo1.symm
        · intro _ _
          refine ⟨rfl, ?_, ?_⟩
          · show next 0 (n.toNat : Int) = ((fo (0#32).toNat r.batches (max r.sentHi 1) : Nat) : Int)
            rw [hmax]
            have : (0#32).toNat = 0 := by simp
            rw [this, hfo1]
            have := next_cast 0 n.toNat
            simpa using this
          · intro i x hi hx
            have hi' : i < max r.sentHi 1 := hi
            have hi0 : i = 0 := by omega
            subst hi0
            have hx' : r.batches[0]? = some x := hx
            rw [hget0] at hx'
            cases hx'
            show (((fo (0#32).toNat r.batches 0 : Nat) : Int), (n.toNat : Int)) ∈ [((0:Int), (n.toNat : Int))]
            have : (0#32).toNat = 0 := by simp
            rw [this, fo_zero 0 _ (by omega)]
            simp
    | false =>
      have hseq := h.seqv hr
      have hsM : r.seq.toNat < 2147483648 := by rw [hseq, firstOf_eq]; exact fo_lt _ _ _
      have hsI : r.seq.toInt = (r.seq.toNat : Int) := toInt_of_lt _ hsM
      have hinc := incSeq_toNat r.seq n hsM hn1 hnM
      rw [step_drain_plain r n hget hr, hnI, hsI]
      dsimp only
      -- facts about the successor state that do not depend on the monitor
      have hfoS : firstOf r (r.drainIdx + 1) = (r.seq.toNat + n.toNat) % 2147483648 := by
        rw [firstOf_eq, fo_succ _ _ _ n hget, ← firstOf_eq, ← hseq]
      have hnext : next (r.seq.toNat : Int) (n.toNat : Int) = ((firstOf r (r.drainIdx + 1) : Nat) : Int) := by
        rw [hfoS]; exact next_cast _ _
      have base : ∀ m' : Mon,
          (m'.started = true) → m'.epoch = r.epoch →
          m'.nextSeq = ((firstOf r (max r.sentHi (r.drainIdx + 1)) : Nat) : Int) →
          (∀ i x, i < max r.sentHi (r.drainIdx + 1) → r.batches[i]? = some x →
              (((firstOf r i : Nat) : Int), ((x.toNat : Nat) : Int)) ∈ m'.chain) →
          Inv { r with seq := Gen.C29.incrementSequence r.seq n, drainIdx := r.drainIdx + 1,
                       sentHi := max r.sentHi (r.drainIdx + 1) } m' := by
        intro m' hst hepq hnx hmem
        refine ⟨h.b0, h.ns, h.tot, ?_, ?_, ?_, ?_, ?_, ?_, ?_⟩
        · show r.drainIdx + 1 ≤ max r.sentHi (r.drainIdx + 1); omega
        · show max r.sentHi (r.drainIdx + 1) ≤ r.batches.length; omega
        · intro hq; rw [hst] at hq; simp at hq
        · intro _; rw [hepq]; exact Int.le_refl _
        · intro hq; have hq' : r.needSeqReset = true := hq; rw [hr] at hq'; simp at hq'
        · intro _
          show (Gen.C29.incrementSequence r.seq n).toNat = firstOf r (r.drainIdx + 1)
          rw [hinc, hfoS]
        · intro _ _; exact ⟨hepq, hnx, hmem⟩
      cases hst : m.started with
      | false =>
        have hs0 := h.notStarted hst
        have hd0 : r.drainIdx = 0 := by omega
        refine ⟨{ started := true, epoch := r.epoch, nextSeq := next (r.seq.toNat : Int) (n.toNat : Int),
                  chain := [((r.seq.toNat : Int), (n.toNat : Int))], allow := false }, ?_, ?_⟩
        · simp only [Mon.run]
          rw [step_start m r.epoch _ _ hst (by omega) (by omega) (by omega) (by omega)]
        · apply base _ rfl rfl
          · show next (r.seq.toNat : Int) (n.toNat : Int) = _
            have : max r.sentHi (r.drainIdx + 1) = r.drainIdx + 1 := by omega
            rw [this]; exact hnext
          · intro i x hi hx
            have hi0 : i = 0 := by omega
            subst hi0
            rw [hd0] at hget
            rw [hget] at hx
            cases hx
            show (((firstOf r 0 : Nat) : Int), (n.toNat : Int)) ∈ [((r.seq.toNat : Int), (n.toNat : Int))]
            rw [hseq, hd0]; simp
      | true =>
        obtain ⟨hepq, hnx, hmem⟩ := h.link hr hst
        by_cases hnew : r.drainIdx = r.sentHi
        · -- a batch that was never sent: it continues the chain
          have hf : (r.seq.toNat : Int) = m.nextSeq := by rw [hnx, hseq, hnew]
          refine ⟨{ m with nextSeq := next (r.seq.toNat : Int) (n.toNat : Int),
                           chain := ((r.seq.toNat : Int), (n.toNat : Int)) :: m.chain }, ?_, ?_⟩
          · simp only [Mon.run]
            rw [step_next m r.epoch _ _ hst hepq.symm hf (by omega) (by omega) (by omega) (by omega)]
          · apply base { m with nextSeq := next (r.seq.toNat : Int) (n.toNat : Int),
                                chain := ((r.seq.toNat : Int), (n.toNat : Int)) :: m.chain } hst hepq
            · show next (r.seq.toNat : Int) (n.toNat : Int) = _
              have : max r.sentHi (r.drainIdx + 1) = r.drainIdx + 1 := by omega
              rw [this]; exact hnext
            · intro i x hi hx
              show _ ∈ ((r.seq.toNat : Int), (n.toNat : Int)) :: m.chain
              by_cases hlt : i < r.sentHi
              · exact List.mem_cons_of_mem _ (hmem i x hlt hx)
              · have hie : i = r.drainIdx := by omega
                subst hie
                rw [hget] at hx
                cases hx
                rw [hseq]; simp
        · -- a re-send after a rewind: it repeats its original (first, n) pair
          have hlt : r.drainIdx < r.sentHi := by omega
          have hne : firstOf r r.drainIdx ≠ firstOf r r.sentHi := by
            simp only [firstOf_eq]; exact fo_ne _ _ h.ns h.tot _ _ hlt hhi
          have hf : (r.seq.toNat : Int) ≠ m.nextSeq := by
            rw [hnx, hseq]; intro hc; exact hne (by exact_mod_cast hc)
          have hc : ((r.seq.toNat : Int), (n.toNat : Int)) ∈ m.chain := by
            have := hmem r.drainIdx n hlt hget
            rwa [← hseq] at this
          refine ⟨m, ?_, ?_⟩
          · simp only [Mon.run]
            rw [step_resend m r.epoch _ _ hst hepq.symm hf hc (by omega) (by omega) (by omega) (by omega)]
          · have hmx : max r.sentHi (r.drainIdx + 1) = r.sentHi := by omega
            apply base _ hst hepq
            · rw [hmx]; exact hnx
            · intro i x hi hx; rw [hmx] at hi; exact hmem i x hi hx

/-- Every operation of the client keeps the invariant and the monitor accepts what it puts on the wire. -/
theorem inv_step (r : RecBuf) (m : Mon) (h : Inv r m) (o : Op) :
    ∃ m', m.run (r.step o).2 = some m' ∧ Inv (r.step o).1 m' := by
  cases o with
  | buffer n => have := inv_buffer r m h n; exact ⟨m, by rw [this.1]; rfl, this.2⟩
  | drain => exact inv_drain r m h
  | finish => have := inv_finish r m h; exact ⟨m, by rw [this.1]; rfl, this.2⟩
  | rewind => have := inv_rewind r m h; exact ⟨m, by rw [this.1]; rfl, this.2⟩
  | epochReset => exact inv_epochReset r m h

theorem inv_wire (ops : List Op) (r : RecBuf) (m : Mon) (h : Inv r m) : (m.run (r.wire ops)).isSome = true := by
  induction ops generalizing r m with
  | nil => simp [RecBuf.wire, Mon.run]
  | cons o os ih =>
    obtain ⟨m', h1, h2⟩ := inv_step r m h o
    simp only [RecBuf.wire, run_append, h1, Option.bind_some]
    exact ih _ _ h2

end Proof.C29C
