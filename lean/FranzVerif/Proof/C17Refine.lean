import FranzVerif.Model.C17
import FranzVerif.Spec.C17
import FranzVerif.Proof.C17
import FranzVerif.Proof.C17Dec
import FranzVerif.Proof.C17Zig
import FranzVerif.Proof.C17Fixed
import FranzVerif.Proof.C17Reader
/-! C17 — every `kbin.Reader` method refines the Spec's reader contract `Spec.C17.step`
(one lemma per kind, `Sim`), on every well-formed reader. Kernel only. -/
namespace Proof.C17
open Model.C17
open Spec.C17 hiding Bytes

/-- what one model read returns, as an observable (the driver prints exactly this) -/
inductive MR where
  | i (v : Int) | b (v : Bool) | o (v : Option Bytes)
deriving DecidableEq, Repr

/-- does the model result denote the Spec value? nil and empty are the same value except where nil
means null (same rule as the driver's `valMatches` on the implementation's printed result) -/
def matchesVal : Val → MR → Bool
  | .int i, .i v => i == v
  | .bool b, .b v => b == v
  | .bytes b, .o none => b.isEmpty
  | .bytes b, .o (some x) => x == b
  | .null, .o none => true
  | _, _ => false

def ofS {w : Nat} (x : Option (BitVec w × Reader)) : Option (MR × Reader) := x.map fun (v, r) => (.i v.toInt, r)
def ofU {w : Nat} (x : Option (BitVec w × Reader)) : Option (MR × Reader) := x.map fun (v, r) => (.i v.toNat, r)
def ofB (x : Option (Bytes × Reader)) : Option (MR × Reader) := x.map fun (v, r) => (.o (some v), r)
def ofO (x : Option (Option Bytes × Reader)) : Option (MR × Reader) := x.map fun (v, r) => (.o v, r)

/-- the model method of each Spec kind (`none` = run-time panic) -/
def run (k : Kind) (r : Reader) : Option (MR × Reader) :=
  match k with
  | .bool => r.bool.map fun (v, r') => (.b v, r')
  | .int8 => ofS r.int8 | .int16 => ofS r.int16 | .uint16 => ofU r.uint16
  | .int32 => ofS r.int32 | .uint32 => ofU r.uint32 | .int64 => ofS r.int64
  | .float64 => ofU r.float64 | .uuid => ofB r.uuid
  | .varint => ofS r.varint | .uvarint => ofU r.uvarint | .varlong => ofS r.varlong
  | .span l => ofO (r.span l)
  | .string => ofB r.string | .compactString => ofB r.compactString
  | .nullableString => ofO r.nullableString | .compactNullableString => ofO r.compactNullableString
  | .bytes => ofO r.bytes | .compactBytes => ofO r.compactBytes
  | .nullableBytes => ofO r.nullableBytes | .compactNullableBytes => ofO r.compactNullableBytes
  | .arrayLen => ofS r.arrayLen | .varintArrayLen => ofS r.varintArrayLen | .compactArrayLen => ofS r.compactArrayLen
  | .varintBytes => ofO r.varintBytes | .varintString => ofB r.varintString

/-- reader invariant: `bad` is only ever set together with `Src = nil`; a nil `Src` is empty -/
def WF (r : Reader) : Prop := (r.bad = true → r = Reader.invalid) ∧ (r.srcNil = true → r.src = [])

/-- the model read `m` on `r` does what the Spec's `read` result `sp` says -/
def Sim (r : Reader) (sp : Option (Val × Nat)) (m : Option (MR × Reader)) : Prop :=
  match sp with
  | some (v, n) => n ≤ r.src.length ∧ ∃ res, m = some (res, adv r n) ∧ matchesVal v res = true
  | none => ∃ res, m = some (res, Reader.invalid)

/-! ## arithmetic of the fixed-width values -/
theorem foldl_unbe_lt : ∀ (s : Bytes) (a : Nat),
    s.foldl (fun acc b => acc * 256 + b.toNat) a < (a + 1) * 256 ^ s.length
  | [], a => by simp
  | b :: s, a => by
    have := foldl_unbe_lt s (a * 256 + b.toNat)
    have hb := b.isLt
    rw [List.foldl_cons, List.length_cons, Nat.pow_succ]
    refine Nat.lt_of_lt_of_le this ?_
    rw [Nat.mul_comm (256 ^ s.length) 256, ← Nat.mul_assoc]
    exact Nat.mul_le_mul_right _ (by omega)

theorem unbe_take_lt (k : Nat) (s : Bytes) : unbe (s.take k) < 256 ^ k := by
  have := foldl_unbe_lt (s.take k) 0
  rw [Nat.zero_add, Nat.one_mul] at this
  exact Nat.lt_of_lt_of_le this (Nat.pow_le_pow_right (by decide) (by simp [List.length_take]; omega))

theorem ofNat_toInt_signed {w : Nat} (hw : 0 < w) (v : Nat) (hv : v < 2 ^ w) : (BitVec.ofNat w v).toInt = signed w v := by
  rw [← signed_toNat hw, BitVec.toNat_ofNat, Nat.mod_eq_of_lt hv]
theorem ofNat_toNat_lt {w : Nat} (v : Nat) (hv : v < 2 ^ w) : (BitVec.ofNat w v).toNat = v := by
  rw [BitVec.toNat_ofNat, Nat.mod_eq_of_lt hv]

theorem fixed_short {k : Nat} {s : Bytes} (h : s.length < k) : fixed k s = none := by simp [fixed, h]
theorem fixed_long {k : Nat} {s : Bytes} (h : ¬ s.length < k) : fixed k s = some (unbe (s.take k), k) := by simp [fixed, h]

theorem beqInt (a : Int) : (a == a) = true := by simp

/-! ## fixed-width kinds -/
theorem sim_bool (r : Reader) : Sim r (read .bool r.src) (run .bool r) := by
  simp only [Spec.C17.read, run, bool_eq]
  rcases h : r.src with _ | ⟨b, rest⟩
  · simp [Sim, fixed]
  · have hb := b.isLt
    simp only [Sim, fixed, List.length_cons, Option.map_some, List.take_succ_cons, List.take_zero]
    rw [if_neg (by omega)]
    refine ⟨by rw [h]; simp, _, rfl, ?_⟩
    simp only [matchesVal, unbe, List.foldl_cons, List.foldl_nil, Nat.zero_mul, Nat.zero_add]
    by_cases hz : b = 0#8
    · subst hz; rfl
    · have : b.toNat ≠ 0 := fun h0 => hz (BitVec.eq_of_toNat_eq (by simpa using h0))
      rw [bne_iff_ne.mpr this, bne_iff_ne.mpr hz]; rfl

theorem sim_int8 (r : Reader) : Sim r (read .int8 r.src) (run .int8 r) := by
  simp only [Spec.C17.read, run, int8_eq, ofS]
  rcases h : r.src with _ | ⟨b, rest⟩
  · simp [Sim, fixed]
  · have hb := b.isLt
    simp only [Sim, fixed, List.length_cons, Option.map_some, List.take_succ_cons, List.take_zero]
    rw [if_neg (by omega)]
    refine ⟨by rw [h]; simp, _, rfl, ?_⟩
    simp only [matchesVal, unbe, List.foldl_cons, List.foldl_nil, Nat.zero_mul, Nat.zero_add]
    rw [signed_toNat (by decide) b]; simp

theorem sim_fixedS {w : Nat} (hw : 0 < w) (k : Nat) (hk : 256 ^ k = 2 ^ w) (r : Reader)
    (m : Option (BitVec w × Reader))
    (hm : m = some (if r.src.length < k then (0#w, Reader.invalid) else (BitVec.ofNat w (unbe (r.src.take k)), adv r k))) :
    Sim r ((fixed k r.src).map fun (v, n) => (.int (signed w v), n)) (ofS m) := by
  subst hm
  by_cases h : r.src.length < k
  · simp [Sim, fixed_short h, h, ofS]
  · simp only [fixed_long h, h, if_false, ofS, Option.map_some, Sim]
    refine ⟨by omega, _, rfl, ?_⟩
    rw [ofNat_toInt_signed hw _ (by rw [← hk]; exact unbe_take_lt k _)]
    simp [matchesVal]

theorem sim_fixedU {w : Nat} (k : Nat) (hk : 256 ^ k = 2 ^ w) (r : Reader)
    (m : Option (BitVec w × Reader))
    (hm : m = some (if r.src.length < k then (0#w, Reader.invalid) else (BitVec.ofNat w (unbe (r.src.take k)), adv r k))) :
    Sim r ((fixed k r.src).map fun (v, n) => (.int (v : Int), n)) (ofU m) := by
  subst hm
  by_cases h : r.src.length < k
  · simp [Sim, fixed_short h, h, ofU]
  · simp only [fixed_long h, h, if_false, ofU, Option.map_some, Sim]
    refine ⟨by omega, _, rfl, ?_⟩
    rw [ofNat_toNat_lt _ (by rw [← hk]; exact unbe_take_lt k _)]
    simp [matchesVal]

theorem sim_int16 (r : Reader) : Sim r (read .int16 r.src) (run .int16 r) :=
  sim_fixedS (by decide) 2 (by decide) r _ (uint16_eq r)
theorem sim_uint16 (r : Reader) : Sim r (read .uint16 r.src) (run .uint16 r) :=
  sim_fixedU 2 (by decide) r _ (uint16_eq r)
theorem sim_int32 (r : Reader) : Sim r (read .int32 r.src) (run .int32 r) :=
  sim_fixedS (by decide) 4 (by decide) r _ (uint32_eq r)
theorem sim_uint32 (r : Reader) : Sim r (read .uint32 r.src) (run .uint32 r) :=
  sim_fixedU 4 (by decide) r _ (uint32_eq r)
theorem sim_int64 (r : Reader) : Sim r (read .int64 r.src) (run .int64 r) :=
  sim_fixedS (by decide) 8 (by decide) r _ (readUint64_eq r)
theorem sim_float64 (r : Reader) : Sim r (read .float64 r.src) (run .float64 r) :=
  sim_fixedU 8 (by decide) r _ (readUint64_eq r)

/-! ## varint kinds -/
theorem uvar_eq (s : Bytes) : uvar s =
    if 0 < (decU 32 5 s).2 then some ((decU 32 5 s).1, (decU 32 5 s).2.toNat) else none := by
  unfold uvar
  rcases decU 32 5 s with ⟨v, n⟩
  rfl

theorem sim_var {w : Nat} (maxB : Nat) (r : Reader) (f : BitVec w → BitVec w) (g : Nat → Val) (conv : BitVec w → MR)
    (m : Option (BitVec w × Reader))
    (hm : m = some (if (decU w maxB r.src).2 ≤ 0 then (0#w, Reader.invalid)
                    else (f (BitVec.ofNat w (decU w maxB r.src).1), adv r (decU w maxB r.src).2.toNat)))
    (hval : ∀ v, v < 2 ^ w → matchesVal (g v) (conv (f (BitVec.ofNat w v))) = true) :
    Sim r (if 0 < (decU w maxB r.src).2 then some (g (decU w maxB r.src).1, (decU w maxB r.src).2.toNat) else none)
      (m.map fun (v, r') => (conv v, r')) := by
  subst hm
  by_cases h : 0 < (decU w maxB r.src).2
  · have hb := decU_bounds w maxB r.src h
    rw [if_pos h, if_neg (by omega)]
    exact ⟨hb.1.1, _, rfl, hval _ hb.2⟩
  · rw [if_neg h, if_pos (by omega)]
    exact ⟨_, rfl⟩

theorem sim_uvarint (r : Reader) : Sim r (read .uvarint r.src) (run .uvarint r) := by
  have := sim_var 5 r id (fun v => Val.int v) (fun x => MR.i x.toNat) _ (uvarint_rd_eq r)
    (fun v hv => by simp [matchesVal, ofNat_toNat_lt v hv])
  simp only [Spec.C17.read, run, uvar_eq, ofU]
  split <;> simp_all

theorem sim_varint (r : Reader) : Sim r (read .varint r.src) (run .varint r) := by
  have := sim_var 5 r unzigzag32 (fun v => Val.int (unzz v)) (fun x => MR.i x.toInt) _ (varint_rd_eq r)
    (fun v hv => by simp [matchesVal, unzigzag32_spec, ofNat_toNat_lt v hv])
  simp only [Spec.C17.read, run, uvar_eq, ofS]
  split <;> simp_all

theorem sim_varlong (r : Reader) : Sim r (read .varlong r.src) (run .varlong r) := by
  have := sim_var 10 r unzigzag64 (fun v => Val.int (unzz v)) (fun x => MR.i x.toInt) _ (varlong_rd_eq r)
    (fun v hv => by simp [matchesVal, unzigzag64_spec, ofNat_toNat_lt v hv])
  simp only [Spec.C17.read, run, ofS]
  rcases hd : decU 64 10 r.src with ⟨v, n⟩
  rw [hd] at this
  simp only at this ⊢
  split <;> simp_all

/-! ## span and the payload of the length-prefixed kinds -/
theorem adv_src (r : Reader) (n : Nat) : (adv r n).src = r.src.drop n := rfl
theorem adv_srcNil (r : Reader) (n : Nat) : (adv r n).srcNil = r.srcNil := rfl
theorem adv_adv (r : Reader) (n k : Nat) : adv (adv r n) k = adv r (n + k) := by
  simp [adv, List.drop_drop]
theorem adv_zero (r : Reader) : adv r 0 = r := by simp [adv]

theorem span_invalid (L : Int) : Reader.invalid.span L = some (none, Reader.invalid) := by
  rw [span_eq]
  by_cases h : ((Reader.invalid.src.length : Nat) : Int) < L ∨ L < 0
  · rw [if_pos h]
  · rw [if_neg h]
    have h0 : L = 0 := by simp [Reader.invalid] at h; omega
    subst h0; rfl

theorem span_adv (r : Reader) (n : Nat) (hn : n ≤ r.src.length) (L : Int) : (adv r n).span L = some (
    if L < 0 ∨ (r.src.length : Int) < n + L then (none, Reader.invalid)
    else (if r.srcNil then none else some ((r.src.drop n).take L.toNat), adv r (n + L.toNat))) := by
  rw [span_eq, adv_src, adv_srcNil, adv_adv, List.length_drop]
  by_cases h : L < 0 ∨ (r.src.length : Int) < n + L
  · rw [if_pos h, if_pos (by omega)]
  · rw [if_neg h, if_neg (by omega)]

theorem payload_eq (src : Bytes) (n : Nat) (L : Int) : payload src n L =
    if L < 0 ∨ (src.length : Int) < n + L then none else some (.bytes ((src.drop n).take L.toNat), n + L.toNat) := by
  unfold payload
  by_cases h1 : L < 0
  · simp [h1]
  · by_cases h2 : (src.length : Int) < n + L
    · simp [h1, h2]
    · simp [h1, h2]

theorem nil_take (r : Reader) (hwf : WF r) (h : r.srcNil = true) (n k : Nat) : (r.src.drop n).take k = [] := by
  rw [hwf.2 h]; simp

theorem matches_o (r : Reader) (hwf : WF r) (n k : Nat) :
    matchesVal (.bytes ((r.src.drop n).take k)) (.o (if r.srcNil then none else some ((r.src.drop n).take k))) = true := by
  by_cases h : r.srcNil = true
  · simp [h, matchesVal, nil_take r hwf h]
  · simp [h, matchesVal]

theorem matches_str (r : Reader) (hwf : WF r) (n k : Nat) :
    matchesVal (.bytes ((r.src.drop n).take k))
      (.o (some (Reader.str (if r.srcNil then none else some ((r.src.drop n).take k))))) = true := by
  by_cases h : r.srcNil = true
  · simp [h, matchesVal, nil_take r hwf h, Reader.str]
  · simp [h, matchesVal, Reader.str]

/-- tail of every length-prefixed read: `Span(L)` after an `n`-byte header is the Spec's `payload` -/
theorem sim_payload_o (r : Reader) (hwf : WF r) (n : Nat) (hn : n ≤ r.src.length) (L : Int) :
    Sim r (payload r.src n L) (ofO ((adv r n).span L)) := by
  rw [span_adv r n hn, payload_eq]
  by_cases h : L < 0 ∨ (r.src.length : Int) < n + L
  · rw [if_pos h, if_pos h]; exact ⟨_, rfl⟩
  · rw [if_neg h, if_neg h]
    exact ⟨by omega, _, rfl, matches_o r hwf n _⟩

theorem sim_payload_str (r : Reader) (hwf : WF r) (n : Nat) (hn : n ≤ r.src.length) (L : Int) :
    Sim r (payload r.src n L) (ofB (((adv r n).span L).map fun (s, r2) => (Reader.str s, r2))) := by
  rw [span_adv r n hn, payload_eq]
  by_cases h : L < 0 ∨ (r.src.length : Int) < n + L
  · rw [if_pos h, if_pos h]; exact ⟨_, rfl⟩
  · rw [if_neg h, if_neg h]
    exact ⟨by omega, _, rfl, matches_str r hwf n _⟩

theorem sim_payload_osome (r : Reader) (hwf : WF r) (n : Nat) (hn : n ≤ r.src.length) (L : Int) :
    Sim r (payload r.src n L) (ofO (((adv r n).span L).map fun (s, r2) => (some (Reader.str s), r2))) := by
  have e : ∀ x : Option (Option Bytes × Reader), ofO (x.map fun (s, r2) => (some (Reader.str s), r2)) =
      ofB (x.map fun (s, r2) => (Reader.str s, r2)) := by
    intro x; rcases x with _ | ⟨s, r2⟩ <;> rfl
  rw [e]; exact sim_payload_str r hwf n hn L

theorem sim_span (r : Reader) (hwf : WF r) (l : Int) : Sim r (read (.span l) r.src) (run (.span l) r) := by
  have := sim_payload_o r hwf 0 (by omega) l
  rwa [adv_zero] at this

theorem sim_uuid (r : Reader) (hwf : WF r) : Sim r (read .uuid r.src) (run .uuid r) := by
  simp only [Spec.C17.read, run, Reader.uuid, ofB]
  have := span_adv r 0 (by omega) 16
  rw [adv_zero] at this
  rw [this]
  by_cases h : r.src.length < 16
  · rw [if_pos h, if_pos (by omega)]; exact ⟨_, rfl⟩
  · rw [if_neg h, if_neg (by omega)]
    refine ⟨by omega, _, rfl, ?_⟩
    have hn : r.srcNil = false := by
      rcases hs : r.srcNil with _ | _
      · rfl
      · have := hwf.2 hs; rw [this] at h; simp at h
    simp [hn, matchesVal]

/-! ## the four headers -/
theorem int16_cases (r : Reader) :
    (r.int16 = some (0#16, Reader.invalid) ∧ fixed 2 r.src = none) ∨
    (∃ v, v < 65536 ∧ 2 ≤ r.src.length ∧ r.int16 = some (BitVec.ofNat 16 v, adv r 2) ∧ fixed 2 r.src = some (v, 2)) := by
  rw [Reader.int16, uint16_eq]
  by_cases h : r.src.length < 2
  · left; rw [if_pos h, fixed_short h]; exact ⟨rfl, rfl⟩
  · right; rw [if_neg h, fixed_long h]
    exact ⟨_, unbe_take_lt 2 _, by omega, rfl, rfl⟩

theorem int32_cases (r : Reader) :
    (r.int32 = some (0#32, Reader.invalid) ∧ fixed 4 r.src = none) ∨
    (∃ v, v < 4294967296 ∧ 4 ≤ r.src.length ∧ r.int32 = some (BitVec.ofNat 32 v, adv r 4) ∧ fixed 4 r.src = some (v, 4)) := by
  rw [Reader.int32, uint32_eq]
  by_cases h : r.src.length < 4
  · left; rw [if_pos h, fixed_short h]; exact ⟨rfl, rfl⟩
  · right; rw [if_neg h, fixed_long h]
    exact ⟨_, unbe_take_lt 4 _, by omega, rfl, rfl⟩

theorem uvarint_cases (r : Reader) :
    (r.uvarint = some (0#32, Reader.invalid) ∧ uvar r.src = none) ∨
    (∃ v n, v < 4294967296 ∧ n ≤ r.src.length ∧ r.uvarint = some (BitVec.ofNat 32 v, adv r n) ∧ uvar r.src = some (v, n)) := by
  rw [uvarint_rd_eq, uvar_eq]
  by_cases h : 0 < (decU 32 5 r.src).2
  · right
    have hb := decU_bounds 32 5 r.src h
    rw [if_pos h, if_neg (by omega)]
    exact ⟨_, _, hb.2, hb.1.1, rfl, rfl⟩
  · left; rw [if_neg h, if_pos (by omega)]; exact ⟨rfl, rfl⟩

theorem varint_cases (r : Reader) :
    (r.varint = some (0#32, Reader.invalid) ∧ uvar r.src = none) ∨
    (∃ v n, v < 4294967296 ∧ n ≤ r.src.length ∧ r.varint = some (unzigzag32 (BitVec.ofNat 32 v), adv r n) ∧
      uvar r.src = some (v, n)) := by
  rw [varint_rd_eq, uvar_eq]
  by_cases h : 0 < (decU 32 5 r.src).2
  · right
    have hb := decU_bounds 32 5 r.src h
    rw [if_pos h, if_neg (by omega)]
    exact ⟨_, _, hb.2, hb.1.1, rfl, rfl⟩
  · left; rw [if_neg h, if_pos (by omega)]; exact ⟨rfl, rfl⟩

theorem toInt16 (v : Nat) (hv : v < 65536) : (BitVec.ofNat 16 v).toInt = signed 16 v := ofNat_toInt_signed (by decide) v hv
theorem toInt32 (v : Nat) (hv : v < 4294967296) : (BitVec.ofNat 32 v).toInt = signed 32 v := ofNat_toInt_signed (by decide) v hv
theorem uvm1_ofNat (v : Nat) (hv : v < 4294967296) : Reader.uvm1 (BitVec.ofNat 32 v) = (v : Int) - 1 := by
  rw [Reader.uvm1, ofNat_toNat_lt v hv]

/-! ## length-prefixed kinds -/
theorem sim_string (r : Reader) (hwf : WF r) : Sim r (read .string r.src) (run .string r) := by
  simp only [Spec.C17.read, run, Reader.string]
  rcases int16_cases r with ⟨hm, hs⟩ | ⟨v, hv, hl, hm, hs⟩
  · rw [hm, hs]; simp only [Option.bind_some, Option.bind_none]
    rw [show (0#16).toInt = 0 from rfl, span_invalid]; exact ⟨_, rfl⟩
  · rw [hm, hs]; simp only [Option.bind_some, toInt16 v hv]
    exact sim_payload_str r hwf 2 hl _

theorem sim_nullableString (r : Reader) (hwf : WF r) : Sim r (read .nullableString r.src) (run .nullableString r) := by
  simp only [Spec.C17.read, run, Reader.nullableString]
  rcases int16_cases r with ⟨hm, hs⟩ | ⟨v, hv, hl, hm, hs⟩
  · rw [hm, hs]; simp only [Option.bind_some, Option.bind_none]
    rw [show (0#16).toInt = 0 from rfl, if_neg (by omega), span_invalid]; exact ⟨_, rfl⟩
  · rw [hm, hs]; simp only [Option.bind_some, toInt16 v hv]
    by_cases hneg : signed 16 v < 0
    · rw [if_pos hneg, if_pos hneg]; exact ⟨hl, _, rfl, rfl⟩
    · rw [if_neg hneg, if_neg hneg]; exact sim_payload_osome r hwf 2 hl _

theorem sim_compactString (r : Reader) (hwf : WF r) : Sim r (read .compactString r.src) (run .compactString r) := by
  simp only [Spec.C17.read, run, Reader.compactString]
  rcases uvarint_cases r with ⟨hm, hs⟩ | ⟨v, n, hv, hl, hm, hs⟩
  · rw [hm, hs]; simp only [Option.bind_some, Option.bind_none]
    rw [span_invalid]; exact ⟨_, rfl⟩
  · rw [hm, hs]; simp only [Option.bind_some, uvm1_ofNat v hv]
    exact sim_payload_str r hwf n hl _

theorem sim_compactNullableString (r : Reader) (hwf : WF r) :
    Sim r (read .compactNullableString r.src) (run .compactNullableString r) := by
  simp only [Spec.C17.read, run, Reader.compactNullableString]
  rcases uvarint_cases r with ⟨hm, hs⟩ | ⟨v, n, hv, hl, hm, hs⟩
  · rw [hm, hs]; simp only [Option.bind_some, Option.bind_none]
    rw [show Reader.uvm1 0#32 = -1 from rfl, if_pos (by omega)]; exact ⟨_, rfl⟩
  · rw [hm, hs]; simp only [Option.bind_some, uvm1_ofNat v hv]
    by_cases h0 : v = 0
    · rw [if_pos h0, if_pos (by omega)]; exact ⟨hl, _, rfl, rfl⟩
    · rw [if_neg h0, if_neg (by omega)]; exact sim_payload_osome r hwf n hl _

theorem sim_bytes (r : Reader) (hwf : WF r) : Sim r (read .bytes r.src) (run .bytes r) := by
  simp only [Spec.C17.read, run, Reader.bytes]
  rcases int32_cases r with ⟨hm, hs⟩ | ⟨v, hv, hl, hm, hs⟩
  · rw [hm, hs]; simp only [Option.bind_some, Option.bind_none]
    rw [show (0#32).toInt = 0 from rfl, if_neg (by omega), span_invalid]; exact ⟨_, rfl⟩
  · rw [hm, hs]; simp only [Option.bind_some, toInt32 v hv]
    by_cases hneg : signed 32 v = -1
    · rw [if_pos hneg, if_pos hneg]; exact ⟨hl, _, rfl, rfl⟩
    · rw [if_neg hneg, if_neg hneg]; exact sim_payload_o r hwf 4 hl _

theorem sim_nullableBytes (r : Reader) (hwf : WF r) : Sim r (read .nullableBytes r.src) (run .nullableBytes r) := by
  simp only [Spec.C17.read, run, Reader.nullableBytes]
  rcases int32_cases r with ⟨hm, hs⟩ | ⟨v, hv, hl, hm, hs⟩
  · rw [hm, hs]; simp only [Option.bind_some, Option.bind_none]
    rw [show (0#32).toInt = 0 from rfl, if_neg (by omega), span_invalid]; exact ⟨_, rfl⟩
  · rw [hm, hs]; simp only [Option.bind_some, toInt32 v hv]
    by_cases hneg : signed 32 v < 0
    · rw [if_pos hneg, if_pos hneg]; exact ⟨hl, _, rfl, rfl⟩
    · rw [if_neg hneg, if_neg hneg]; exact sim_payload_o r hwf 4 hl _

theorem sim_compactBytes (r : Reader) (hwf : WF r) : Sim r (read .compactBytes r.src) (run .compactBytes r) := by
  simp only [Spec.C17.read, run, Reader.compactBytes]
  rcases uvarint_cases r with ⟨hm, hs⟩ | ⟨v, n, hv, hl, hm, hs⟩
  · rw [hm, hs]; simp only [Option.bind_some, Option.bind_none]
    rw [show Reader.uvm1 0#32 = -1 from rfl, if_pos rfl]; exact ⟨_, rfl⟩
  · rw [hm, hs]; simp only [Option.bind_some, uvm1_ofNat v hv]
    by_cases h0 : v = 0
    · rw [if_pos h0, if_pos (by omega)]; exact ⟨hl, _, rfl, rfl⟩
    · rw [if_neg h0, if_neg (by omega)]; exact sim_payload_o r hwf n hl _

theorem sim_compactNullableBytes (r : Reader) (hwf : WF r) :
    Sim r (read .compactNullableBytes r.src) (run .compactNullableBytes r) := by
  simp only [Spec.C17.read, run, Reader.compactNullableBytes]
  rcases uvarint_cases r with ⟨hm, hs⟩ | ⟨v, n, hv, hl, hm, hs⟩
  · rw [hm, hs]; simp only [Option.bind_some, Option.bind_none]
    rw [show Reader.uvm1 0#32 = -1 from rfl, if_pos (by omega)]; exact ⟨_, rfl⟩
  · rw [hm, hs]; simp only [Option.bind_some, uvm1_ofNat v hv]
    by_cases h0 : v = 0
    · rw [if_pos h0, if_pos (by omega)]; exact ⟨hl, _, rfl, rfl⟩
    · rw [if_neg h0, if_neg (by omega)]; exact sim_payload_o r hwf n hl _

theorem unzig_toInt (v : Nat) (hv : v < 4294967296) : (unzigzag32 (BitVec.ofNat 32 v)).toInt = unzz v := by
  rw [unzigzag32_spec, ofNat_toNat_lt v hv]

theorem sim_varintBytes (r : Reader) (hwf : WF r) : Sim r (read .varintBytes r.src) (run .varintBytes r) := by
  simp only [Spec.C17.read, run, Reader.varintBytes]
  rcases varint_cases r with ⟨hm, hs⟩ | ⟨v, n, hv, hl, hm, hs⟩
  · rw [hm, hs]; simp only [Option.bind_some, Option.bind_none]
    rw [show (0#32).toInt = 0 from rfl, if_neg (by omega), span_invalid]; exact ⟨_, rfl⟩
  · rw [hm, hs]; simp only [Option.bind_some, unzig_toInt v hv]
    by_cases hneg : unzz v < 0
    · rw [if_pos hneg, if_pos hneg]; exact ⟨hl, _, rfl, rfl⟩
    · rw [if_neg hneg, if_neg hneg]; exact sim_payload_o r hwf n hl _

theorem sim_varintString (r : Reader) (hwf : WF r) : Sim r (read .varintString r.src) (run .varintString r) := by
  simp only [Spec.C17.read, run, Reader.varintString, Reader.varintBytes]
  rcases varint_cases r with ⟨hm, hs⟩ | ⟨v, n, hv, hl, hm, hs⟩
  · rw [hm, hs]; simp only [Option.bind_some, Option.bind_none]
    rw [show (0#32).toInt = 0 from rfl, if_neg (by omega), span_invalid]; exact ⟨_, rfl⟩
  · rw [hm, hs]; simp only [Option.bind_some, unzig_toInt v hv]
    by_cases hneg : unzz v < 0
    · rw [if_pos hneg, if_pos hneg]; exact ⟨hl, _, rfl, rfl⟩
    · rw [if_neg hneg, if_neg hneg]; exact sim_payload_str r hwf n hl _

/-! ## array lengths -/
theorem sim_arrayTail (r : Reader) (n : Nat) (hn : n ≤ r.src.length) (x : BitVec 32) (c : Int) (hc : x.toInt = c) :
    Sim r (arr r.src n c) (ofS (some (Reader.arrayTail (adv r n) x))) := by
  unfold arr Reader.arrayTail
  rw [adv_src, List.length_drop, hc]
  by_cases h : ((r.src.length : Int) - n) < c
  · rw [if_pos h, if_pos (by omega)]; exact ⟨_, rfl⟩
  · rw [if_neg h, if_neg (by omega)]
    refine ⟨hn, _, rfl, ?_⟩
    simp [matchesVal, hc]

theorem sim_arrayLen (r : Reader) : Sim r (read .arrayLen r.src) (run .arrayLen r) := by
  simp only [Spec.C17.read, run, Reader.arrayLen]
  rcases int32_cases r with ⟨hm, hs⟩ | ⟨v, hv, hl, hm, hs⟩
  · rw [hm, hs]; exact ⟨_, rfl⟩
  · rw [hm, hs]; simp only [Option.bind_some, Option.map_some]
    exact sim_arrayTail r 4 hl _ _ (toInt32 v hv)

theorem sim_varintArrayLen (r : Reader) : Sim r (read .varintArrayLen r.src) (run .varintArrayLen r) := by
  simp only [Spec.C17.read, run, Reader.varintArrayLen]
  rcases varint_cases r with ⟨hm, hs⟩ | ⟨v, n, hv, hl, hm, hs⟩
  · rw [hm, hs]; exact ⟨_, rfl⟩
  · rw [hm, hs]; simp only [Option.bind_some, Option.map_some]
    exact sim_arrayTail r n hl _ _ (unzig_toInt v hv)

theorem sub1_toInt (v : Nat) (hv : v < 4294967296) :
    (BitVec.ofNat 32 v - 1#32).toInt = signed 32 (pattern 32 ((v : Int) - 1)) := by
  have hp : pattern 32 ((v : Int) - 1) = (BitVec.ofNat 32 v - 1#32).toNat := by
    rw [BitVec.toNat_sub, ofNat_toNat_lt v hv]
    simp only [pattern, BitVec.toNat_ofNat, Nat.reducePow, Nat.reduceMod]
    omega
  rw [hp, signed_toNat (by decide)]

theorem sim_compactArrayLen (r : Reader) : Sim r (read .compactArrayLen r.src) (run .compactArrayLen r) := by
  simp only [Spec.C17.read, run, Reader.compactArrayLen]
  rcases uvarint_cases r with ⟨hm, hs⟩ | ⟨v, n, hv, hl, hm, hs⟩
  · rw [hm, hs]; exact ⟨_, rfl⟩
  · rw [hm, hs]; simp only [Option.bind_some, Option.map_some]
    exact sim_arrayTail r n hl _ _ (sub1_toInt v hv)

/-! ## all kinds -/
theorem sim_all (k : Kind) (r : Reader) (hwf : WF r) : Sim r (read k r.src) (run k r) := by
  cases k with
  | bool => exact sim_bool r | int8 => exact sim_int8 r | int16 => exact sim_int16 r | uint16 => exact sim_uint16 r
  | int32 => exact sim_int32 r | uint32 => exact sim_uint32 r | int64 => exact sim_int64 r
  | float64 => exact sim_float64 r | uuid => exact sim_uuid r hwf
  | varint => exact sim_varint r | uvarint => exact sim_uvarint r | varlong => exact sim_varlong r
  | span l => exact sim_span r hwf l
  | string => exact sim_string r hwf | compactString => exact sim_compactString r hwf
  | nullableString => exact sim_nullableString r hwf
  | compactNullableString => exact sim_compactNullableString r hwf
  | bytes => exact sim_bytes r hwf | compactBytes => exact sim_compactBytes r hwf
  | nullableBytes => exact sim_nullableBytes r hwf | compactNullableBytes => exact sim_compactNullableBytes r hwf
  | arrayLen => exact sim_arrayLen r | varintArrayLen => exact sim_varintArrayLen r
  | compactArrayLen => exact sim_compactArrayLen r
  | varintBytes => exact sim_varintBytes r hwf | varintString => exact sim_varintString r hwf

/-! ## one step and sequences of reads against `Spec.C17.step` -/

/-- the Spec's observable state of a model reader -/
def absR (r : Reader) : RState := { src := r.src, ok := !r.bad }

theorem wf_invalid : WF Reader.invalid := ⟨fun _ => rfl, fun _ => rfl⟩
theorem adv_invalid (n : Nat) : adv Reader.invalid n = Reader.invalid := by simp [adv, Reader.invalid]
theorem wf_adv (r : Reader) (hwf : WF r) (hb : r.bad = false) (n : Nat) : WF (adv r n) := by
  refine ⟨fun h => ?_, fun h => ?_⟩
  · have : r.bad = true := h
    rw [hb] at this; cases this
  · have : r.srcNil = true := h
    rw [adv_src, hwf.2 this]; simp

/-- One read refines one Spec step: no panic, the invariant is kept, the observable state afterwards is
the Spec's, the value is the Spec's whenever the Spec constrains it, and the new source is a suffix
of the old one (or the reader was invalidated). -/
theorem run_refines (k : Kind) (r : Reader) (hwf : WF r) :
    ∃ res r', run k r = some (res, r') ∧ WF r' ∧ absR r' = (step k (absR r)).2 ∧
      (∀ v, (step k (absR r)).1 = some v → matchesVal v res = true) ∧
      (r' = Reader.invalid ∨ ∃ n, n ≤ r.src.length ∧ r' = adv r n) := by
  have hs := sim_all k r hwf
  rcases hb : r.bad with _ | _
  · -- valid reader
    have habs : absR r = { src := r.src, ok := true } := by simp [absR, hb]
    rw [habs]
    simp only [step, Bool.not_true, Bool.false_eq_true, if_false]
    rcases hr : read k r.src with _ | ⟨v, n⟩
    · rw [hr] at hs
      obtain ⟨res, hm⟩ := hs
      exact ⟨res, _, hm, wf_invalid, rfl, fun v h => by simp at h, Or.inl rfl⟩
    · rw [hr] at hs
      obtain ⟨hn, res, hm, hv⟩ := hs
      refine ⟨res, _, hm, wf_adv r hwf hb n, ?_, ?_, Or.inr ⟨n, hn, rfl⟩⟩
      · simp [absR, adv, hb]
      · intro v' h; simp only [Option.some.injEq] at h; subst h; exact hv
  · -- invalidated reader: stays invalidated
    have hinv := hwf.1 hb
    subst hinv
    have habs : absR Reader.invalid = { src := [], ok := false } := rfl
    rw [habs]
    simp only [step, Bool.not_false, if_true]
    have hres : ∃ res, run k Reader.invalid = some (res, Reader.invalid) := by
      rcases hr : read k Reader.invalid.src with _ | ⟨v, n⟩
      · rw [hr] at hs; exact hs
      · rw [hr] at hs
        obtain ⟨_, res, hm, _⟩ := hs
        rw [adv_invalid] at hm; exact ⟨res, hm⟩
    obtain ⟨res, hm⟩ := hres
    exact ⟨res, _, hm, wf_invalid, rfl, fun v h => by simp at h, Or.inl rfl⟩

/-- a sequence of reads (`none` = some read panicked) -/
def runAll : List Kind → Reader → Option (List MR × Reader)
  | [], r => some ([], r)
  | k :: ks, r => (run k r).bind fun (v, r') => (runAll ks r').map fun (vs, r'') => (v :: vs, r'')

/-- the Spec's state after a sequence of reads -/
def stepAll : List Kind → RState → RState
  | [], s => s
  | k :: ks, s => stepAll ks (step k s).2

theorem runAll_refines : ∀ (ks : List Kind) (r : Reader), WF r →
    ∃ out r', runAll ks r = some (out, r') ∧ WF r' ∧ absR r' = stepAll ks (absR r) ∧ out.length = ks.length
  | [], r, hwf => ⟨[], r, rfl, hwf, rfl, rfl⟩
  | k :: ks, r, hwf => by
    obtain ⟨res, r1, hm, hwf1, habs, _, _⟩ := run_refines k r hwf
    obtain ⟨out, r2, hm2, hwf2, habs2, hlen⟩ := runAll_refines ks r1 hwf1
    refine ⟨res :: out, r2, ?_, hwf2, ?_, by simp [hlen]⟩
    · simp [runAll, hm, hm2]
    · rw [habs2, habs]; rfl

/-- once the Spec state is failed it stays failed -/
theorem stepAll_failed : ∀ (ks : List Kind) (s : RState), s.ok = false → (stepAll ks s).ok = false
  | [], _, h => h
  | k :: ks, s, h => by
    have : (step k s).2 = { src := [], ok := false } := by simp [step, h]
    rw [stepAll, this]
    exact stepAll_failed ks _ rfl

end Proof.C17
