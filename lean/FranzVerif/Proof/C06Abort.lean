import FranzVerif.Proof.C06Ref
/-! C06 — the aborter of `ProcessFetchPartition` (sorted first offsets per producer, popped by ABORT markers) against the
order-free definition of the Spec (`Spec.C06.inAborted`): invariant and its preservation. Core Lean only. -/
namespace Proof.C06
open Model.C06
open Spec.C06 (LRec LBatch ORec Req)

theorem any_congr' {α} {l : List α} {f g : α → Bool} (h : ∀ x ∈ l, f x = g x) : l.any f = l.any g := by
  induction l with
  | nil => rfl
  | cons x xs ih =>
    simp only [List.any_cons]
    rw [h x (by simp), ih (fun y hy => h y (by simp [hy]))]

theorem any_false' {α} {l : List α} {f : α → Bool} (h : ∀ x ∈ l, f x = false) : l.any f = false := by
  induction l with
  | nil => rfl
  | cons x xs ih =>
    simp only [List.any_cons]
    rw [h x (by simp), ih (fun y hy => h y (by simp [hy]))]
    rfl

theorem filter_length_mono {α} {l : List α} {p q : α → Bool} (h : ∀ x ∈ l, p x = true → q x = true) :
    (l.filter p).length ≤ (l.filter q).length := by
  have : l.filter p = (l.filter q).filter p := by
    rw [List.filter_filter]
    apply List.filter_congr
    intro x hx
    cases hp : p x
    · simp
    · simp [h x hx hp]
  rw [this]
  exact List.filter_sublist.length_le

/-- no ABORT marker of the transaction's producer at or after its first offset among the batches `P` -/
def noMarker (P : List LBatch) (a : Int × Int) : Bool :=
  !(P.any fun m => m.abortMarker && m.pid == a.1 && decide (a.2 ≤ m.first))

/-- The aborter after the walk has consumed the batches `P`: for every producer the sorted first offsets of the listed
transactions that no ABORT marker of `P` has ended. -/
def AbInv (E : List (Int × Int)) (P : List LBatch) (ab : Aborter) : Prop :=
  ∀ p, (ab p).Pairwise (· ≤ ·) ∧ (ab p).Perm ((E.filter fun a => a.1 == p && noMarker P a).map (·.2))

theorem abinv_init (A : List (Int × Int)) : AbInv A [] (buildAborter A) := by
  intro p
  unfold buildAborter
  refine ⟨?_, ?_⟩
  · have h := List.pairwise_mergeSort (le := fun a b : Int => decide (a ≤ b)) (by intro a b c; simp; omega) (by intro a b; simp; omega)
      ((A.filter fun a => a.1 == p).map (·.2))
    exact h.imp (by simp)
  · have : (A.filter fun a => a.1 == p && noMarker [] a) = A.filter fun a => a.1 == p := by
      apply List.filter_congr; intro x _; simp [noMarker]
    rw [this]
    exact List.mergeSort_perm _ _

theorem abinv_init_nil : AbInv [] [] (fun _ => []) := by
  intro p; exact ⟨List.Pairwise.nil, by simp⟩

/-- on an ordered log, the Spec's "open at `lb`" only looks at the batches before `lb` -/
theorem openAt_eq {L P S : List LBatch} {lb : LBatch} (hL : L = P ++ lb :: S) (hwf : WfLog L) (a : Int × Int) :
    openAt L lb a = (a.1 == lb.pid && decide (a.2 ≤ lb.first) && noMarker P a) := by
  subst hL
  have hord := List.pairwise_append.mp hwf.ord
  have hlb := List.pairwise_cons.mp hord.2.1
  unfold openAt noMarker
  congr 2
  rw [List.any_append, List.any_cons]
  have h1 : (P.any fun m => m.abortMarker && m.pid == a.1 && decide (a.2 ≤ m.first) && decide (m.first < lb.first))
      = P.any fun m => m.abortMarker && m.pid == a.1 && decide (a.2 ≤ m.first) := by
    apply any_congr'
    intro m hm
    have := hord.2.2 m hm lb (by simp)
    have := (hwf.batch m (by simp [hm])).firstLast
    have : decide (m.first < lb.first) = true := by simp; omega
    rw [this]; simp
  have h2 : (S.any fun m => m.abortMarker && m.pid == a.1 && decide (a.2 ≤ m.first) && decide (m.first < lb.first)) = false := by
    apply any_false'
    intro m hm
    have := hlb.1 m hm
    have := (hwf.batch lb (by simp)).firstLast
    have : decide (m.first < lb.first) = false := by simp; omega
    rw [this]; simp
  rw [h1, h2]
  simp

/-- `shouldAbortBatch` decides exactly what the Spec defines -/
theorem shouldAbort_spec {E : List (Int × Int)} {L P S : List LBatch} {lb : LBatch} {ab : Aborter} (b : Batch)
    (hL : L = P ++ lb :: S) (hwf : WfLog L) (hinv : AbInv E P ab)
    (hpid : lb.pid = b.pid) (hfirst : lb.first = b.first) (htxn : lb.txn = isTxn b.attrs) :
    shouldAbortBatch ab b = some (lb.txn && E.any (openAt L lb)) := by
  unfold shouldAbortBatch
  rw [htxn]
  cases ht : isTxn b.attrs
  · simp
  · simp only [Bool.not_true, Bool.false_eq_true, if_false, Bool.true_and]
    obtain ⟨hsorted, hperm⟩ := hinv b.pid
    have hmem : ∀ x, x ∈ ab b.pid ↔ ∃ a ∈ E, (a.1 = b.pid ∧ noMarker P a = true) ∧ a.2 = x := by
      intro x
      rw [hperm.mem_iff]
      simp [List.mem_map, List.mem_filter, and_assoc]
    have hopen : ∀ a, openAt L lb a = true ↔ a.1 = b.pid ∧ a.2 ≤ b.first ∧ noMarker P a = true := by
      intro a
      rw [openAt_eq hL hwf a, hpid, hfirst]
      simp [and_assoc]
    cases hp : ab b.pid with
    | nil =>
      simp only
      have : E.any (openAt L lb) = false := by
        apply any_false'
        intro a ha
        cases hoa : openAt L lb a
        · rfl
        · exfalso
          have h := (hopen a).mp hoa
          have : a.2 ∈ ab b.pid := (hmem a.2).mpr ⟨a, ha, ⟨h.1, h.2.2⟩, rfl⟩
          rw [hp] at this; simp at this
      rw [this]
    | cons h t =>
      simp only [List.getElem?_cons_zero]
      congr 1
      cases hany : E.any (openAt L lb)
      · -- nothing open: the head (a listed, unended transaction) must start after the batch
        have hh : h ∈ ab b.pid := by rw [hp]; simp
        obtain ⟨a, ha, ⟨ha1, ha2⟩, ha3⟩ := (hmem h).mp hh
        have hf : openAt L lb a = false := by
          cases hoa : openAt L lb a
          · rfl
          · have : E.any (openAt L lb) = true := List.any_eq_true.mpr ⟨a, ha, hoa⟩
            rw [hany] at this; simp at this
        have : ¬ (a.1 = b.pid ∧ a.2 ≤ b.first ∧ noMarker P a = true) := by
          intro hc; have := (hopen a).mpr hc; rw [hf] at this; simp at this
        have : b.first < h := by
          rw [← ha3]
          by_cases hle : a.2 ≤ b.first
          · exact absurd ⟨ha1, hle, ha2⟩ this
          · omega
        simp [this]
      · obtain ⟨a, ha, hoa⟩ := List.any_eq_true.mp hany
        have h' := (hopen a).mp hoa
        have : a.2 ∈ ab b.pid := (hmem a.2).mpr ⟨a, ha, ⟨h'.1, h'.2.2⟩, rfl⟩
        rw [hp] at this hsorted
        have hle : h ≤ a.2 := by
          rcases List.mem_cons.mp this with e | e
          · omega
          · exact (List.pairwise_cons.mp hsorted).1 _ e
        have : ¬ b.first < h := by omega
        simp [this]

theorem noMarker_snoc (P : List LBatch) (lb : LBatch) (a : Int × Int) :
    noMarker (P ++ [lb]) a = (noMarker P a && !(lb.abortMarker && lb.pid == a.1 && decide (a.2 ≤ lb.first))) := by
  simp [noMarker, List.any_append, Bool.not_or]

/-- a batch that ends no listed open transaction leaves the aborter as it is -/
theorem abinv_keep {E : List (Int × Int)} {P : List LBatch} {lb : LBatch} {ab ab' : Aborter}
    (hno : ∀ a ∈ E, noMarker P a = true → a.1 = lb.pid → ¬ (lb.abortMarker = true ∧ a.2 ≤ lb.first))
    (hinv : AbInv E P ab) (hab : ∀ q, ab' q = ab q) : AbInv E (P ++ [lb]) ab' := by
  intro p
  rw [hab p]
  obtain ⟨h1, h2⟩ := hinv p
  refine ⟨h1, ?_⟩
  have : (E.filter fun a => a.1 == p && noMarker (P ++ [lb]) a) = E.filter fun a => a.1 == p && noMarker P a := by
    apply List.filter_congr
    intro a ha
    rw [noMarker_snoc]
    cases hn : noMarker P a
    · simp
    · have := hno a ha hn
      by_cases hpid : a.1 = lb.pid
      · have := this hpid
        cases hm : lb.abortMarker
        · simp
        · have : ¬ a.2 ≤ lb.first := fun hle => this ⟨hm, hle⟩
          simp [this]
      · have : (lb.pid == a.1) = false := by simp; exact fun h => hpid h.symm
        simp [this]
  rw [this]
  exact h2

/-- an ABORT marker that finds its producer's smallest remaining first offset at or below it pops exactly the one
listed transaction that is open there -/
theorem abinv_pop {E : List (Int × Int)} {P : List LBatch} {lb : LBatch} {ab ab' : Aborter} {h : Int} {t : List Int}
    (hm : lb.abortMarker = true) (hp : ab lb.pid = h :: t) (hle : h ≤ lb.first)
    (hseq : (E.filter fun a => a.1 == lb.pid && decide (a.2 ≤ lb.first) && noMarker P a).length ≤ 1)
    (hinv : AbInv E P ab) (hab : ∀ q, ab' q = popPid ab lb.pid q) : AbInv E (P ++ [lb]) ab' := by
  intro p
  rw [hab p]
  unfold popPid
  by_cases hpp : p = lb.pid
  · subst hpp
    simp only [if_true]
    obtain ⟨h1, h2⟩ := hinv lb.pid
    rw [hp] at h1 h2 ⊢
    simp only [List.drop_succ_cons, List.drop_zero]
    refine ⟨(List.pairwise_cons.mp h1).2, ?_⟩
    -- at most one remaining first offset is ≤ lb.first, and h is one
    have hlen : ((h :: t).filter fun x => decide (x ≤ lb.first)).length ≤ 1 := by
      have e1 := (h2.filter fun x => decide (x ≤ lb.first)).length_eq
      rw [e1, List.filter_map, List.length_map, List.filter_filter]
      refine Nat.le_trans (filter_length_mono ?_) hseq
      intro a _ ha
      simp only [Function.comp, Bool.and_eq_true, decide_eq_true_eq, beq_iff_eq] at ha ⊢
      exact ⟨⟨ha.2.1, ha.1⟩, ha.2.2⟩
    have ht : ∀ x ∈ t, ¬ x ≤ lb.first := by
      have : (t.filter fun x => decide (x ≤ lb.first)) = [] := by
        rw [List.filter_cons] at hlen
        simp only [hle, decide_true, if_true, List.length_cons] at hlen
        exact List.eq_nil_of_length_eq_zero (by omega)
      intro x hx hxle
      have := (List.filter_eq_nil_iff.mp this) x hx
      simp [hxle] at this
    have e2 := h2.filter fun x => !decide (x ≤ lb.first)
    have e3 : ((h :: t).filter fun x => !decide (x ≤ lb.first)) = t := by
      rw [List.filter_cons]
      simp only [hle, decide_true, Bool.not_true, Bool.false_eq_true, if_false]
      apply List.filter_eq_self.mpr
      intro x hx; simp [ht x hx]
    rw [e3, List.filter_map, List.filter_filter] at e2
    have e4 : (E.filter fun a => a.1 == lb.pid && noMarker (P ++ [lb]) a)
        = E.filter fun a => ((fun x => !decide (x ≤ lb.first)) ∘ fun a : Int × Int => a.2) a && (a.1 == lb.pid && noMarker P a) := by
      apply List.filter_congr
      intro a _
      rw [noMarker_snoc, hm]
      simp only [Function.comp, Bool.true_and]
      cases h1 : (a.1 == lb.pid)
      · simp
      · have : (lb.pid == a.1) = true := by simp at h1 ⊢; exact h1.symm
        rw [this]
        cases noMarker P a <;> simp
    rw [e4]
    exact e2
  · simp only [hpp, if_false]
    obtain ⟨h1, h2⟩ := hinv p
    refine ⟨h1, ?_⟩
    have : (E.filter fun a => a.1 == p && noMarker (P ++ [lb]) a) = E.filter fun a => a.1 == p && noMarker P a := by
      apply List.filter_congr
      intro a _
      rw [noMarker_snoc]
      cases h1 : (a.1 == p)
      · simp
      · have : (lb.pid == a.1) = false := by
          simp at h1 ⊢; intro h; exact hpp (by rw [← h1, h])
        simp [this]
    rw [this]
    exact h2

end Proof.C06
