import FranzVerif.Model.Consumer
/-! History-level observables for the direct-consumer monitor (C04, C05, fetch half of C14) and helper lemmas.

Layout of the proof:
* this file: the observables, `run` on a concatenation (`run_append`, `run_split`, `run_snoc`, `run_prefix`),
  `lastOf` after a returned record, what an accepted `returned` event tells (`returned_check`);
* `Proof/ConsumerInv.lean`: how each observable changes on `h ++ [ev]`, the invariant `Inv c h s` relating the
  state reached by `run` to the observables, its preservation by every accepted event, `inv_of_run`;
* `Proof/ConsumerFacts.lean`: facts read off the invariant — `txnOf`, the rules of `quiesce` (`Quiet`),
  monotonicity of `ret`/`nret`/`decided` along a run (`Mono`), a place is returned at most once. -/
namespace Proof.Consumer
open Model.Consumer

/-- offsets returned for a partition, in the order they were returned -/
def returnedOffsets (part : Nat) (h : List Ev) : List Nat :=
  h.filterMap (fun e => match e with | .returned p o _ _ => if p = part then some o else none | _ => none)
/-- all returned records `(part, off, id, ctl)` in order -/
def returnedOf (h : List Ev) : List (Nat × Nat × Id × Bool) :=
  h.filterMap (fun e => match e with | .returned p o i c => some (p, o, i, c) | _ => none)
/-- acknowledged records `(id, part, off, txn)` -/
def producedOf (h : List Ev) : List (Id × Nat × Nat × Nat) :=
  h.filterMap (fun e => match e with | .produced i p o x => some (i, p, o, x) | _ => none)
/-- transaction decisions `(txn, commit)` -/
def decisionsOf (h : List Ev) : List (Nat × Bool) :=
  h.filterMap (fun e => match e with | .endDecided k c => some (k, c) | _ => none)
def bufferedHooks (h : List Ev) : List (Nat × Nat) :=
  h.filterMap (fun e => match e with | .hookBuf p o => some (p, o) | _ => none)
def unbufferedHooks (h : List Ev) : List (Nat × Nat) :=
  h.filterMap (fun e => match e with | .hookUnbuf p o _ => some (p, o) | _ => none)
/-- the history contains a failed producer-side step (then completeness is not judged) -/
def isIncomplete (h : List Ev) : Bool :=
  h.any (fun e => match e with | .incomplete => true | .endDone _ _ ok => !ok | _ => false)

/-- the value of the last `gauge` event, if any -/
def lastGauge (h : List Ev) : Option Nat :=
  (h.filterMap (fun e => match e with | .gauge n => some n | _ => none)).getLast?

/-! ### `run` on a concatenation -/

theorem step_eq_some {c : Cfg} {s s' : St} {ev : Ev} (hs : step c s ev = some s') :
    check c s ev = none ∧ s' = apply c s ev := by
  unfold step at hs
  split at hs
  · simp at hs; exact ⟨by assumption, hs.symm⟩
  · simp at hs

theorem run_append (c : Cfg) (s : St) (h₁ h₂ : List Ev) :
    run c s (h₁ ++ h₂) = (run c s h₁).bind (fun s' => run c s' h₂) := by
  induction h₁ generalizing s with
  | nil => rfl
  | cons e es ih =>
    simp only [List.cons_append, run]
    cases step c s e with
    | none => rfl
    | some s' => exact ih s'

/-- an accepted history decomposes at any event -/
theorem run_split {c : Cfg} {s₀ : St} {h₁ h₂ : List Ev} {ev : Ev} {s : St} (hacc : run c s₀ (h₁ ++ ev :: h₂) = some s) :
    ∃ s₁, run c s₀ h₁ = some s₁ ∧ check c s₁ ev = none ∧ run c (apply c s₁ ev) h₂ = some s := by
  rw [run_append] at hacc
  cases h1 : run c s₀ h₁ with
  | none => simp [h1] at hacc
  | some s₁ =>
    simp only [h1, Option.bind_some, run] at hacc
    cases hs : step c s₁ ev with
    | none => simp [hs] at hacc
    | some s2 =>
      obtain ⟨hchk, rfl⟩ := step_eq_some hs
      simp only [hs] at hacc
      exact ⟨s₁, rfl, hchk, hacc⟩

theorem run_snoc {c : Cfg} {s₀ : St} {h : List Ev} {ev : Ev} {s : St} (hacc : run c s₀ (h ++ [ev]) = some s) :
    ∃ s₁, run c s₀ h = some s₁ ∧ check c s₁ ev = none := by
  obtain ⟨s₁, h1, h2, _⟩ := run_split hacc
  exact ⟨s₁, h1, h2⟩

/-- every prefix of an accepted history is accepted -/
theorem run_prefix {c : Cfg} {s₀ : St} {h₁ h₂ : List Ev} {s : St} (hacc : run c s₀ (h₁ ++ h₂) = some s) :
    ∃ s₁, run c s₀ h₁ = some s₁ := by
  rw [run_append] at hacc
  cases h1 : run c s₀ h₁ with
  | none => simp [h1] at hacc
  | some s₁ => exact ⟨s₁, rfl⟩

/-! ### `lastOf` after a returned record -/

theorem find_filter_ne (l : List (Nat × Nat)) (p q : Nat) (hne : q ≠ p) :
    (l.filter (·.1 != p)).find? (·.1 == q) = l.find? (·.1 == q) := by
  induction l with
  | nil => rfl
  | cons a l ih =>
    obtain ⟨a1, a2⟩ := a
    by_cases h1 : a1 = p
    · subst h1
      have : ¬ a1 = q := fun h => hne h.symm
      simpa [List.filter_cons, List.find?_cons, this] using ih
    · by_cases h2 : a1 = q
      · subst h2
        simp [h1]
      · simpa [List.filter_cons, h1, List.find?_cons, h2] using ih

theorem lastOf_returned_same (c : Cfg) (s : St) (part off : Nat) (id : Id) (ctl : Bool) :
    lastOf (apply c s (.returned part off id ctl)) part = some off := by
  simp [lastOf, apply]

theorem lastOf_returned_other (c : Cfg) (s : St) (part off : Nat) (id : Id) (ctl : Bool) (q : Nat) (hne : q ≠ part) :
    lastOf (apply c s (.returned part off id ctl)) q = lastOf s q := by
  have : (part == q) = false := by simpa using fun h => hne h.symm
  simp only [lastOf, apply, List.find?_cons, this]
  rw [find_filter_ne _ _ _ hne]

/-! ### what an accepted event tells -/

theorem returned_check {c : Cfg} {s : St} {part off : Nat} {id : Id} {ctl : Bool}
    (h : check c s (.returned part off id ctl) = none) :
    c.start ≤ off ∧ (∀ l, lastOf s part = some l → l < off) ∧ (ctl = true → c.keepCtl = true) := by
  simp only [check] at h
  split at h
  · simp at h
  · rename_i hs
    refine ⟨by omega, ?_, ?_⟩
    · intro l hl
      simp only [hl] at h
      split at h
      · simp at h
      · omega
    · intro hc
      subst hc
      cases hl : lastOf s part with
      | none => simp only [hl] at h; cases hk : c.keepCtl <;> simp [hk] at h ⊢
      | some l =>
        simp only [hl] at h
        cases hk : c.keepCtl <;> simp [hk] at h ⊢
        split at h <;> simp at h

end Proof.Consumer
