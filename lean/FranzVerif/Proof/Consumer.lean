import FranzVerif.Model.Consumer
/-! History-level observables for the direct-consumer monitor (C04, C05, fetch half of C14) and helper lemmas. -/
namespace Proof.Consumer
open Model.Consumer

/-- offsets returned for a partition, in the order they were returned -/
def returnedOffsets (part : Nat) (h : List Ev) : List Nat :=
  h.filterMap (fun e => match e with | .returned p o _ _ => if p = part then some o else none | _ => none)
/-- all returned records `(part, off, id, ctl)` in order -/
def returnedOf (h : List Ev) : List (Nat × Nat × Id × Bool) :=
  h.filterMap (fun e => match e with | .returned p o i c => some (p, o, i, c) | _ => none)
/-- acknowledged records `(id, part, off, txn)` -/
def producedOf (h : List Ev) : List (Id × Nat × Nat × Nat) :=
  h.filterMap (fun e => match e with | .produced i p o x => some (i, p, o, x) | _ => none)
/-- transaction decisions `(txn, commit)` -/
def decisionsOf (h : List Ev) : List (Nat × Bool) :=
  h.filterMap (fun e => match e with | .endDecided k c => some (k, c) | _ => none)
def bufferedHooks (h : List Ev) : List (Nat × Nat) :=
  h.filterMap (fun e => match e with | .hookBuf p o => some (p, o) | _ => none)
def unbufferedHooks (h : List Ev) : List (Nat × Nat) :=
  h.filterMap (fun e => match e with | .hookUnbuf p o _ => some (p, o) | _ => none)
/-- the history contains a failed producer-side step (then completeness is not judged) -/
def isIncomplete (h : List Ev) : Bool :=
  h.any (fun e => match e with | .incomplete => true | .endDone _ _ ok => !ok | _ => false)

end Proof.Consumer
