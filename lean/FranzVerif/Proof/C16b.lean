import FranzVerif.Proof.C16
/-! `dec` never panics (mutual induction over `Ty` / `Fields`). -/
namespace Proof.C16
open Model.C15

theorem chkLen_ok (l : Int) (r : Bytes) (l' : Int) (r' : Bytes) (h : chkLen l r = .ok l' r') : l' = l ∧ r' = r ∧ l ≤ r.length := by
  simp only [chkLen] at h
  split at h
  · cases h
  · cases h; exact ⟨rfl, rfl, by omega⟩

theorem safe_chkLen (l : Int) (r : Bytes) : Safe (chkLen l r) r.length := by
  simp only [chkLen]; split
  · exact safe_err _ _
  · exact safe_ok _ _ _ (Nat.le_refl _)

theorem safe_decArrLen (flex : Bool) (k : AKind) (src : Bytes) : Safe (decArrLen flex k src) src.length := by
  simp only [decArrLen]
  split
  · exact safe_andThen (safe_readVarint _) (fun a r _ => safe_chkLen a r)
  all_goals
    split
    · exact safe_andThen (safe_readUvarint _) (fun a r _ => safe_chkLen _ r)
    · exact safe_andThen (safe_readInt _ _ _) (fun a r _ => safe_chkLen a r)

/-- **`Reader.ArrayLen` family**: a length that is returned never exceeds the number of bytes that remain. -/
theorem decArrLen_bounded (flex : Bool) (k : AKind) (src : Bytes) (l : Int) (r : Bytes)
    (h : decArrLen flex k src = .ok l r) : l ≤ r.length := by
  have key : ∀ {α : Type} (x : Res α) (g : α → Int), (x.andThen fun a r => chkLen (g a) r) = .ok l r → l ≤ r.length := by
    intro α x g hx
    cases x with
    | ok a r0 =>
      simp only [Res.andThen_ok] at hx
      obtain ⟨e1, e2, e3⟩ := chkLen_ok _ _ _ _ hx
      subst e1; subst e2; exact e3
    | err s => cases hx
    | panic m => cases hx
  simp only [decArrLen] at h
  split at h
  · exact key _ (fun a => a) h
  all_goals
    split at h
    · exact key _ wrapLen h
    · exact key _ (fun a => a) h

theorem safe_structPre (nullable : Bool) (src : Bytes) : Safe (structPre nullable src) src.length := by
  simp only [structPre]; split
  · exact safe_map (safe_readInt _ _ _)
  · exact safe_ok _ _ _ (Nat.le_refl _)

/-- the raw tag reader: safe, and every payload it returns is a slice of the input. -/
theorem readRawTags_safe : ∀ (n : Nat) (src : Bytes),
    Safe (readRawTags n src) src.length ∧
    ∀ l r, readRawTags n src = .ok l r → ∀ e ∈ l, e.2.length ≤ src.length := by
  intro n
  induction n with
  | zero =>
    intro src
    simp only [readRawTags]
    exact ⟨safe_ok _ _ _ (Nat.le_refl _), by intro l r h; cases h; intro e he; cases he⟩
  | succ n ih =>
    intro src
    simp only [readRawTags]
    have hentry : Safe ((readUvarint src).andThen fun key r1 => (readUvarint r1).andThen fun size r2 =>
        (span size r2).map fun b => (key, b)) src.length :=
      safe_andThen (safe_readUvarint _) (fun key r1 _ =>
        safe_andThen (safe_readUvarint _) (fun size r2 _ => safe_map (safe_span _ _)))
    have hpay : ∀ e r3, ((readUvarint src).andThen fun key r1 => (readUvarint r1).andThen fun size r2 =>
        (span size r2).map fun b => (key, b)) = .ok e r3 → e.2.length ≤ src.length := by
      intro e r3 h
      cases h1 : readUvarint src with
      | ok key r1 =>
        have l1 := (safe_readUvarint src).2 key r1 h1
        simp only [h1, Res.andThen_ok] at h
        cases h2 : readUvarint r1 with
        | ok size r2 =>
          have l2 := (safe_readUvarint r1).2 size r2 h2
          simp only [h2, Res.andThen_ok] at h
          cases h3 : span (size : Int) r2 with
          | ok b r3' =>
            simp only [h3, Res.map_ok, Res.ok.injEq] at h
            obtain ⟨rfl, _⟩ := h
            have := (span_ok_len _ _ _ _ h3).1
            simp only; omega
          | err s => simp [h3] at h
          | panic m => simp [h3] at h
        | err s => simp [h2] at h
        | panic m => simp [h2] at h
      | err s => simp [h1] at h
      | panic m => simp [h1] at h
    generalize hx : ((readUvarint src).andThen fun key r1 => (readUvarint r1).andThen fun size r2 =>
        (span size r2).map fun b => (key, b)) = x at hentry hpay
    cases x with
    | ok e r3 =>
      have l3 := hentry.2 e r3 rfl
      obtain ⟨s1, s2⟩ := ih r3
      constructor
      · exact (safe_map s1).mono l3
      · intro l r h e' he'
        cases h4 : readRawTags n r3 with
        | ok l' r' =>
          simp only [h4, Res.map_ok, Res.ok.injEq] at h
          obtain ⟨rfl, _⟩ := h
          simp only [List.mem_cons] at he'
          cases he' with
          | inl e1 => subst e1; exact hpay _ _ rfl
          | inr e2 => exact Nat.le_trans (s2 l' r' h4 e' e2) l3
        | err s => simp [h4] at h
        | panic m => simp [h4] at h
    | err s => exact ⟨safe_err _ _, by intro l r h; cases h⟩
    | panic m => exact absurd rfl (hentry.1 m)

theorem readTagsOf_safe (known : List Nat) (n : Nat) (src : Bytes) :
    Safe (readTagsOf known n src) src.length ∧
    ∀ l r, readTagsOf known n src = .ok l r → ∀ e ∈ l, e.2.length ≤ src.length := by
  obtain ⟨s1, s2⟩ := readRawTags_safe n src
  simp only [readTagsOf]
  cases h : readRawTags n src with
  | ok l r => simp only; rw [h] at s1; exact ⟨s1, fun l' r' e => by cases e; exact s2 l r h⟩
  | err s => exact ⟨safe_err _ _, by intro l r e; cases e⟩
  | panic m => rw [h] at s1; exact absurd rfl (s1.1 m)

/-- the statement proved by the mutual induction -/
def NoPanic (t : Ty) : Prop :=
  ∀ (c : Cfg) (flex : Bool) (src : Bytes), src.length ≤ c.cap → Safe (dec c flex t src) src.length

def NoPanicF (fs : Fields) : Prop :=
  ∀ (c : Cfg) (flex : Bool),
    (∀ (src : Bytes), src.length ≤ c.cap → Safe (decFields c flex fs src) src.length) ∧
    (∀ (raw : List (Nat × Bytes)) (vals : Vals), (∀ e ∈ raw, e.2.length ≤ c.cap) → ∀ m, applyTags c flex fs raw vals ≠ .panic m)

theorem decList_safe (c : Cfg) (flex : Bool) (t : Ty) (ht : NoPanic t) :
    ∀ (n : Nat) (src : Bytes), src.length ≤ c.cap → Safe (decList c flex t n src) src.length := by
  intro n
  induction n with
  | zero => intro src _; rw [decList]; exact safe_ok _ _ _ (Nat.le_refl _)
  | succ n ih =>
    intro src hcap
    rw [decList]
    apply safe_andThen (ht c flex src hcap)
    intro v r hr
    have hl := (ht c flex src hcap).2 v r hr
    exact safe_map (ih r (by omega))

theorem decEach_nopanic (c : Cfg) (flex : Bool) (t : Ty) (ht : NoPanic t) :
    ∀ (ps : List Bytes) (v : Val), (∀ p ∈ ps, p.length ≤ c.cap) → ∀ m, decEach c flex t ps v ≠ .panic m := by
  intro ps
  induction ps with
  | nil => intro v _ m h; rw [decEach] at h; cases h
  | cons p ps ih =>
    intro v hp m h
    rw [decEach] at h
    have hs := ht c flex p (hp p (by simp))
    cases hd : dec c flex t p with
    | ok v' r => rw [hd] at h; exact ih v' (fun q hq => hp q (by simp [hq])) m h
    | err s => rw [hd] at h; cases h
    | panic m' => exact hs.1 m' hd

mutual
theorem noPanic : ∀ t : Ty, NoPanic t
  | .prim p => by
    intro c flex src _
    rw [dec]; exact safe_decPrim p src
  | .str k => by
    intro c flex src _
    rw [dec]; exact safe_decStr c.ver flex k src
  | .arr k t => by
    intro c flex src hcap
    have ht := noPanic t
    rw [dec]
    apply safe_andThen (safe_decArrLen flex k src)
    intro l r hl
    have hb := decArrLen_bounded flex k src l r hl
    have hr := (safe_decArrLen flex k src).2 l r hl
    split
    · rename_i hpos
      have hmk : goMake l c.cap = .ok l.toNat [] := by
        have h1 : ¬ (l < 0) := by omega
        have h2 : ¬ (l.toNat > c.cap) := by omega
        simp [goMake, h1, h2]
      rw [hmk]
      simp only [Res.andThen_ok]
      exact safe_map (decList_safe c flex t ht l.toNat r (by omega))
    · exact safe_ok _ _ _ (Nat.le_refl _)
  | .struct nullable ff fs => by
    intro c flex src hcap
    obtain ⟨F1, F2⟩ := noPanicF fs c (flexAt ff c.ver)
    rw [dec]
    apply safe_andThen (safe_structPre nullable src)
    intro isPresent r0 h0
    have l0 := (safe_structPre nullable src).2 _ _ h0
    split
    · exact safe_ok _ _ _ (Nat.le_refl _)
    · apply safe_andThen (F1 r0 (by omega))
      intro vals r hr
      have l1 := (F1 r0 (by omega)).2 _ _ hr
      split
      · apply safe_andThen (safe_readUvarint r)
        intro num r1 h1
        have l2 := (safe_readUvarint r).2 _ _ h1
        obtain ⟨T1, T2⟩ := readTagsOf_safe (knownTags fs) num r1
        apply safe_andThen T1
        intro raw r2 h2
        have l3 := T1.2 _ _ h2
        have hraw : ∀ e ∈ raw, e.2.length ≤ c.cap := fun e he => by
          have := T2 raw r2 h2 e he; omega
        cases ha : applyTags c (flexAt ff c.ver) fs raw vals with
        | ok vals' x => simpa using safe_ok _ _ _ (Nat.le_refl _)
        | err s => simpa using safe_err s _
        | panic m => exact absurd ha (F2 raw vals hraw m)
      · exact safe_ok _ _ _ (Nat.le_refl _)
theorem noPanicF : ∀ fs : Fields, NoPanicF fs
  | .nil => by
    intro c flex
    constructor
    · intro src _; rw [decFields]; exact safe_ok _ _ _ (Nat.le_refl _)
    · intro raw vals _ m h
      cases vals <;> simp [applyTags] at h
  | .cons name minV maxV tag d t rest => by
    intro c flex
    have ht := noPanic t
    obtain ⟨R1, R2⟩ := noPanicF rest c flex
    constructor
    · intro src hcap
      rw [decFields]
      split
      · exact safe_map (R1 src hcap)
      · apply safe_andThen (ht c flex src hcap)
        intro v r hr
        have := (ht c flex src hcap).2 _ _ hr
        exact safe_map (R1 r (by omega))
    · intro raw vals hraw m h
      cases vals with
      | nil => simp [applyTags] at h
      | cons v r =>
        rw [applyTags] at h
        cases hr : applyTags c flex rest raw r with
        | ok vs x =>
          rw [hr] at h
          cases tag with
          | none => simp at h
          | some k =>
            simp only at h
            have hp : ∀ p ∈ (raw.filter fun e => e.1 == k).map Prod.snd, p.length ≤ c.cap := by
              intro p hp
              simp only [List.mem_map, List.mem_filter] at hp
              obtain ⟨e, ⟨he, _⟩, rfl⟩ := hp
              exact hraw e he
            cases he : decEach c flex t ((raw.filter fun e => e.1 == k).map Prod.snd) v with
            | ok v' y => rw [he] at h; cases h
            | err s => rw [he] at h; cases h
            | panic m' => exact decEach_nopanic c flex t ht _ v hp m' he
        | err s => rw [hr] at h; cases h
        | panic m' => exact R2 raw r hraw m' hr
end

end Proof.C16
