import FranzVerif.Model.ProducerWake
/-! Lemmas for the producer wake-up monitor. -/
namespace Proof.ProducerWake
open Model.ProducerWake

def tent (s : St) : Nat := if s.tentative.isSome then 1 else 0

theorem run_append (s : St) (h₁ h₂ : List Ev) :
    run s (h₁ ++ h₂) = (run s h₁).bind (fun s' => run s' h₂) := by
  induction h₁ generalizing s with
  | nil => simp [run]
  | cons e es ih =>
    simp only [List.cons_append, run]
    cases hs : step s e with
    | none => simp
    | some s' => simpa using ih s'

/-- the tentative obligation is always counted in `need` -/
theorem need_ge_tent (s s' : St) (h : List Ev) (h0 : s.need ≥ tent s) (hr : run s h = some s') : s'.need ≥ tent s' := by
  induction h generalizing s with
  | nil => simp [run] at hr; subst hr; exact h0
  | cons e es ih =>
    simp only [run] at hr
    cases hs : step s e with
    | none => simp [hs] at hr
    | some s₁ =>
      simp only [hs] at hr
      refine ih s₁ ?_ hr
      unfold step at hs
      cases hc : check s e with
      | some r => simp [hc] at hs
      | none =>
        simp only [hc, Option.some.injEq] at hs
        subst hs
        cases e with
        | unblocked id b n f => simp only [apply]; split <;> simp [tent] <;> omega
        | admitted id =>
          simp only [apply]; split
          · rename_i ht; simp [tent] at h0 ⊢
          · exact h0
        | released id n b f => simp only [apply]; split <;> split <;> simp_all [tent] <;> omega
        | bcast site => simp [apply, tent]
        | returned id => simp only [apply]; split <;> simp_all [tent] <;> omega
        | flushReturned => simp only [apply, tent] at h0 ⊢; exact h0
        | quiesce => exact h0

/-- an uncovered `released` obligation keeps `need` above the tentative one until a Broadcast -/
theorem need_stays (s s' : St) (h : List Ev) (h0 : s.need ≥ tent s + 1) (hnb : ∀ site, Ev.bcast site ∉ h)
    (hr : run s h = some s') : s'.need ≥ tent s' + 1 := by
  induction h generalizing s with
  | nil => simp [run] at hr; subst hr; exact h0
  | cons e es ih =>
    simp only [run] at hr
    cases hs : step s e with
    | none => simp [hs] at hr
    | some s₁ =>
      simp only [hs] at hr
      refine ih s₁ ?_ (fun site hm => hnb site (by simp [hm])) hr
      unfold step at hs
      cases hc : check s e with
      | some r => simp [hc] at hs
      | none =>
        simp only [hc, Option.some.injEq] at hs
        subst hs
        cases e with
        | unblocked id b n f => simp only [apply]; split <;> simp_all [tent] <;> omega
        | admitted id =>
          simp only [apply]; split
          · rename_i ht
            have : s.tentative.isSome = true := by
              cases htt : s.tentative <;> simp_all
            simp [tent, this] at h0 ⊢; omega
          · exact h0
        | released id n b f => simp only [apply]; split <;> split <;> simp_all [tent] <;> omega
        | bcast site => exact absurd (List.mem_cons_self) (hnb site)
        | returned id => simp only [apply]; split <;> simp_all [tent] <;> omega
        | flushReturned => simp only [apply, tent] at h0 ⊢; exact h0
        | quiesce => exact h0

/-- an uncovered flush obligation stays until a Broadcast or the return of a flusher -/
theorem flushNeed_stays (s s' : St) (h : List Ev) (h0 : s.flushNeed = true) (hnb : ∀ site, Ev.bcast site ∉ h)
    (hnf : Ev.flushReturned ∉ h) (hr : run s h = some s') : s'.flushNeed = true := by
  induction h generalizing s with
  | nil => simp [run] at hr; subst hr; exact h0
  | cons e es ih =>
    simp only [run] at hr
    cases hs : step s e with
    | none => simp [hs] at hr
    | some s₁ =>
      simp only [hs] at hr
      refine ih s₁ ?_ (fun site hm => hnb site (by simp [hm])) (fun hm => hnf (by simp [hm])) hr
      unfold step at hs
      cases hc : check s e with
      | some r => simp [hc] at hs
      | none =>
        simp only [hc, Option.some.injEq] at hs
        subst hs
        cases e with
        | unblocked id b n f => simp only [apply]; split <;> simp_all
        | admitted id => simp only [apply]; split <;> simp_all
        | released id n b f =>
          simp only [apply]
          split
          · rfl
          · split <;> simp_all
        | bcast site => exact absurd (List.mem_cons_self) (hnb site)
        | returned id => simp only [apply]; split <;> simp_all
        | flushReturned => exact absurd (List.mem_cons_self) hnf
        | quiesce => exact h0

end Proof.ProducerWake
