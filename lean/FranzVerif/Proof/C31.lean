import FranzVerif.Model.C31
/-! C31 — generic lemmas: counting over thread lists, decomposition of a step, invariants by induction. -/
namespace Model.C31

theorem cnt_append {α : Type} (f : α → Nat) (l₁ l₂ : List α) : cnt f (l₁ ++ l₂) = cnt f l₁ + cnt f l₂ := by
  induction l₁ with
  | nil => simp [cnt]
  | cons a l ih => simp [cnt, ih]; omega

theorem cnt_cons {α : Type} (f : α → Nat) (a : α) (l : List α) : cnt f (a :: l) = f a + cnt f l := rfl

theorem cnt_nil {α : Type} (f : α → Nat) : cnt f ([] : List α) = 0 := rfl

theorem cnt_map {α β : Type} (f : α → Nat) (g : β → α) (l : List β) : cnt f (l.map g) = cnt (fun a => f (g a)) l := by
  induction l with
  | nil => rfl
  | cons a l ih => simp [cnt, ih]

theorem cnt_congr {α : Type} {f g : α → Nat} (h : ∀ a, f a = g a) (l : List α) : cnt f l = cnt g l := by
  induction l with
  | nil => rfl
  | cons a l ih => simp [cnt, ih, h]

theorem cnt_zero {α : Type} {f : α → Nat} (h : ∀ a, f a = 0) (l : List α) : cnt f l = 0 := by
  induction l with
  | nil => rfl
  | cons a l ih => simp [cnt, ih, h]

theorem cnt_le {α : Type} {f g : α → Nat} (h : ∀ a, f a ≤ g a) (l : List α) : cnt f l ≤ cnt g l := by
  induction l with
  | nil => simp [cnt]
  | cons a l ih => simp only [cnt]; have := h a; omega

theorem cnt_add {α : Type} (f g : α → Nat) (l : List α) : cnt (fun a => f a + g a) l = cnt f l + cnt g l := by
  induction l with
  | nil => simp [cnt]
  | cons a l ih => simp only [cnt, ih]; omega

theorem cnt_pos {α : Type} {f : α → Nat} {l : List α} (h : 0 < cnt f l) : ∃ a ∈ l, 0 < f a := by
  induction l with
  | nil => simp [cnt] at h
  | cons a l ih =>
    simp only [cnt] at h
    by_cases ha : 0 < f a
    · exact ⟨a, by simp, ha⟩
    · have : 0 < cnt f l := by omega
      obtain ⟨b, hb, hfb⟩ := ih this
      exact ⟨b, by simp [hb], hfb⟩

theorem cnt_pos_of_mem {α : Type} {f : α → Nat} {l : List α} {a : α} (ha : a ∈ l) (h : 0 < f a) : 0 < cnt f l := by
  induction l with
  | nil => simp at ha
  | cons b l ih =>
    simp only [cnt]
    rcases List.mem_cons.mp ha with rfl | hm
    · omega
    · have := ih hm; omega

theorem getElem?_split {α : Type} : ∀ (l : List α) (i : Nat) (t : α), l[i]? = some t →
    ∃ pre post, l = pre ++ t :: post ∧ pre.length = i ∧ ∀ t', l.set i t' = pre ++ t' :: post
  | [], i, t, h => by simp at h
  | a :: l, 0, t, h => by
    simp at h; subst h; exact ⟨[], l, by simp⟩
  | a :: l, i + 1, t, h => by
    simp at h
    obtain ⟨pre, post, h1, h2, h3⟩ := getElem?_split l i t h
    exact ⟨a :: pre, post, by simp [h1], by simp [h2], fun t' => by simp [h3 t']⟩

section
variable {σ τ : Type} (S : Sys σ τ)

/-- A step rewrites exactly one thread (and wakes the others if it broadcasts). -/
theorem Sys.step_decomp {s s' : St σ τ} {i : Nat} {ev : String} (h : S.step s i = some (s', ev)) :
    ∃ pre t post sh' t' b, s.ths = pre ++ t :: post ∧ pre.length = i ∧ S.stepT s.sh t = some (sh', t', b, ev) ∧
      s' = ⟨sh', S.wakeAll b pre ++ t' :: S.wakeAll b post⟩ := by
  unfold Sys.step at h
  split at h
  · simp at h
  · rename_i t ht
    split at h
    · simp at h
    · rename_i sh' t' b ev' hst
      simp only [Option.some.injEq, Prod.mk.injEq] at h
      obtain ⟨rfl, rfl⟩ := h
      obtain ⟨pre, post, h1, h2, _⟩ := getElem?_split s.ths i t ht
      refine ⟨pre, t, post, sh', t', b, h1, h2, hst, ?_⟩
      congr 1
      have hw : S.wakeAll b s.ths = S.wakeAll b pre ++ S.wakeAll b [t] ++ S.wakeAll b post := by
        rw [h1]; unfold Sys.wakeAll; split <;> simp
      have hl : (S.wakeAll b pre).length = i := by unfold Sys.wakeAll; split <;> simp [h2]
      have hg : (S.wakeAll b s.ths)[i]? = some ((S.wakeAll b [t]).headD t) := by
        rw [hw]; unfold Sys.wakeAll; split <;> simp [h2]
      obtain ⟨pre', post', e1, e2, e3⟩ := getElem?_split _ i _ hg
      rw [e3 t']
      rw [hw] at e1
      have : S.wakeAll b [t] = [(S.wakeAll b [t]).headD t] := by unfold Sys.wakeAll; split <;> simp
      rw [this, List.append_assoc] at e1
      have hpre : S.wakeAll b pre = pre' := by
        have := List.append_inj_left e1 (by rw [hl, e2])
        exact this
      have hpost := List.append_inj_right e1 (by rw [hl, e2])
      simp at hpost
      rw [← hpre, ← hpost]

theorem Sys.cnt_wakeAll_eq {f : τ → Nat} (h : ∀ t, f (S.wake t) = f t) (b : Bool) (l : List τ) :
    cnt f (S.wakeAll b l) = cnt f l := by
  unfold Sys.wakeAll; split
  · rw [cnt_map]; exact cnt_congr h l
  · rfl

theorem Sys.cnt_wakeAll_false (f : τ → Nat) (l : List τ) : cnt f (S.wakeAll false l) = cnt f l := by
  simp [Sys.wakeAll]

theorem Sys.cnt_wakeAll_true_le {f g : τ → Nat} (h : ∀ t, f (S.wake t) ≤ g t) (l : List τ) :
    cnt f (S.wakeAll true l) ≤ cnt g l := by
  simp only [Sys.wakeAll, if_true]; rw [cnt_map]; exact cnt_le h l

/-- Invariants by induction over action sequences, from the one-thread view of a step. -/
theorem Sys.inv_of_local {I : St σ τ → Prop} {s0 s : St σ τ} (h0 : I s0)
    (hstep : ∀ (sh : σ) (pre post : List τ) (t : τ) (sh' : σ) (t' : τ) (b : Bool) (ev : String),
      I ⟨sh, pre ++ t :: post⟩ → S.stepT sh t = some (sh', t', b, ev) →
      I ⟨sh', S.wakeAll b pre ++ t' :: S.wakeAll b post⟩)
    (hr : S.Reach s0 s) : I s := by
  induction hr with
  | init => exact h0
  | @step s1 s2 ev i _ hs ih =>
    obtain ⟨pre, t, post, sh', t', b, h1, _, h3, rfl⟩ := S.step_decomp hs
    have : s1 = ⟨s1.sh, pre ++ t :: post⟩ := by cases s1; simp_all
    rw [this] at ih
    exact hstep _ _ _ _ _ _ _ _ ih h3

/-- The acting thread's view of a step. -/
theorem Sys.step_at {s s' : St σ τ} {i : Nat} {ev : String} {t : τ} (h : S.step s i = some (s', ev))
    (ht : s.ths[i]? = some t) :
    ∃ sh' t' b, S.stepT s.sh t = some (sh', t', b, ev) ∧ s'.sh = sh' ∧ s'.ths[i]? = some t' := by
  unfold Sys.step at h
  rw [ht] at h
  simp only at h
  split at h
  · simp at h
  · rename_i sh' t' b ev' hst
    simp only [Option.some.injEq, Prod.mk.injEq] at h
    obtain ⟨rfl, rfl⟩ := h
    refine ⟨sh', t', b, hst, rfl, ?_⟩
    have hlen : i < s.ths.length := by
      rcases Nat.lt_or_ge i s.ths.length with h | h
      · exact h
      · rw [List.getElem?_eq_none h] at ht; simp at ht
    have : i < (S.wakeAll b s.ths).length := by unfold Sys.wakeAll; split <;> simp [hlen]
    simp [this]

/-- A thread whose local step is enabled makes the system step enabled. -/
theorem Sys.step_of_mem {s : St σ τ} {t : τ} (hm : t ∈ s.ths) (he : (S.stepT s.sh t).isSome) :
    ∃ i, (S.step s i).isSome := by
  obtain ⟨i, hi, rfl⟩ := List.getElem_of_mem hm
  refine ⟨i, ?_⟩
  unfold Sys.step
  rw [List.getElem?_eq_getElem hi]
  simp only
  match hst : S.stepT s.sh s.ths[i] with
  | none => simp [hst] at he
  | some (sh', t', b, ev) => simp
end

end Model.C31
