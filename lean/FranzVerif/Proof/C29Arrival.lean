import FranzVerif.Model.C29Client
/-! C29 — soundness of the arrival monitor `LMon` with respect to LOSSES.

`Mon` judges the order in which the client WRITES produce batches, `LMon` the order in which they ARRIVE. What arrives
is the write order with some batches missing (a request written on a connection that died before it was read): a
`Thin full sub` view. The theorems below say that `LMon` never raises a false alarm on such a view of a write order that
`Mon` accepts.

The statement "`Mon.run {} full = some _`, `Thin full sub`, the record counts of `full` sum to less than 2^31
⟹ `(LMon.init f).run sub` is `some _`" is FALSE as it stands; counterexamples are below
(`counterexample_epoch_reused`, 5 events, and `counterexample_reset_inside_epoch`, 6 events). Both need a history
in which the producer epoch is not tied to the `.reset` events: an epoch number that comes back, or a batch that still
carries the OLD epoch after a `.reset`. Neither can be written by the client: `RecBuf.step .epochReset` emits
`.reset` and bumps `epoch` in one step, and every batch is stamped with the current `epoch` (`wire_stamped`).
(An earlier 4-event counterexample, a `.reset` seen before the first batch ARRIVES, was a weakness of `LMon.step`, which
forgot that reset when it started; `LMon.step` now keeps it, see `reset_before_first_arrival_accepted`.)

The extra hypothesis is therefore `Stamped c full`: there is an epoch counter, `c` at the start, every batch carries
the current value of the counter, and every `.reset` moves the counter to a strictly larger value.

Main results (all without `sorry`; core Lean only):
* `arrival_sound_inv`   — generalised form: any pair of related monitor states, with the invariant at the end
* `arrival_sound`       — `Mon.run {} full = some m`, `Thin full sub`, `Stamped c full`, `total full < 2^31`
                           ⟹ `(LMon.init start).run sub = some l` for every `start`, and if `l` ends in the epoch
                           `m` ends in, whatever `l` holds (chain and batches kept aside) is a batch of `m.chain`
* `arrival_never_refuses` — the form asked for: `full = .batch e f n :: es`, `LMon.init f`, `.isSome`
* `wire_stamped`        — everything the client model writes is `Stamped`
* `counterexample_wrap` — the `total full < 2^31` hypothesis is needed as well (3 events). -/
namespace Proof.C29Arrival
open Model.C29C

/-- `Thin full sub`: `sub` is `full` with any set of `.batch` events deleted (every `.reset` is kept). -/
inductive Thin : List Ev → List Ev → Prop
  | nil : Thin [] []
  | keep (ev : Ev) {es sub : List Ev} : Thin es sub → Thin (ev :: es) (ev :: sub)
  | drop (e f n : Int) {es sub : List Ev} : Thin es sub → Thin (.batch e f n :: es) sub

/-- The producer epoch is a counter: every batch carries its current value `c`, every `.reset` moves it up. -/
def Stamped : Int → List Ev → Prop
  | _, [] => True
  | c, .batch e _ _ :: es => e = c ∧ Stamped c es
  | c, .reset :: es => ∃ c', c < c' ∧ Stamped c' es

/-- sum of the record counts of all batch events (re-sends counted again) -/
def total : List Ev → Int
  | [] => 0
  | .batch _ _ n :: es => n + total es
  | .reset :: es => total es

/-! ### Counterexamples to the statement without `Stamped`, and without the bound on `total` -/

/-- Written: `1:0+1`, reset, `1:1+1`, `2:0+1` (accepted by `Mon`: the reset allows epoch 2). The first batch is lost, so
the `.reset` is seen before the first batch arrives. `LMon` keeps that permission when it starts with `1:1+1` and
accepts `2:0+1` (it used to forget it: `allow := false` at the start, a false alarm). -/
example :
    (Mon.run {} [.batch 1 0 1, .reset, .batch 1 1 1, .batch 2 0 1]).isSome = true ∧
    ((LMon.init 0).run [.reset, .batch 1 1 1, .batch 2 0 1]).isSome = true := by decide

theorem reset_before_first_arrival_accepted :
    Thin [.batch 1 0 1, .reset, .batch 1 1 1, .batch 2 0 1] [.reset, .batch 1 1 1, .batch 2 0 1] ∧
    (((LMon.init 0).run [.reset, .batch 1 1 1, .batch 2 0 1]).map (fun l => (l.epoch, l.nextSeq, l.chain))) = some (2, 1, [(0, 1)]) := by
  refine ⟨?_, by decide⟩
  exact .drop _ _ _ (.keep _ (.keep _ (.keep _ .nil)))

/-- A `.reset` after which the OLD epoch is still used, in a monitor that has already started. Written: `0:0+1`, reset,
`1:0+1`, reset, `1:1+1`, `2:0+1` (accepted by `Mon`: the second reset allows epoch 2). The first batch of epoch 1 is lost.
`LMon` enters epoch 1 with `1:1+1`, which arrives AFTER the second reset, so both permissions to change the epoch are
consumed by it (`allow := false` when a monitor enters a new epoch), and `2:0+1` is refused. One boolean `allow` cannot
tell how many epoch changes the resets seen so far stand for. -/
theorem counterexample_reset_inside_epoch :
    (Mon.run {} [.batch 0 0 1, .reset, .batch 1 0 1, .reset, .batch 1 1 1, .batch 2 0 1]).isSome = true ∧
    Thin [.batch 0 0 1, .reset, .batch 1 0 1, .reset, .batch 1 1 1, .batch 2 0 1]
      [.batch 0 0 1, .reset, .reset, .batch 1 1 1, .batch 2 0 1] ∧
    total [.batch 0 0 1, .reset, .batch 1 0 1, .reset, .batch 1 1 1, .batch 2 0 1] < 2147483648 ∧
    ((LMon.init 0).run [.batch 0 0 1, .reset, .reset, .batch 1 1 1, .batch 2 0 1]).isSome = false := by
  refine ⟨by decide, ?_, by decide, by decide⟩
  exact .keep _ (.keep _ (.drop _ _ _ (.keep _ (.keep _ (.keep _ .nil)))))

/-- An epoch number that comes back. Written: `0:0+1`, reset, `1:0+1`, reset, `0:0+2` (accepted by `Mon`: epoch 0 after
epoch 1 is a new epoch). The only batch of epoch 1 is lost: `LMon` never leaves epoch 0 and sees `0+1` and `0+2`, two
different batches with one first sequence. With `total full < 2^31` this is the shortest counterexample. -/
theorem counterexample_epoch_reused :
    (Mon.run {} [.batch 0 0 1, .reset, .batch 1 0 1, .reset, .batch 0 0 2]).isSome = true ∧
    Thin [.batch 0 0 1, .reset, .batch 1 0 1, .reset, .batch 0 0 2] [.batch 0 0 1, .reset, .reset, .batch 0 0 2] ∧
    total [.batch 0 0 1, .reset, .batch 1 0 1, .reset, .batch 0 0 2] < 2147483648 ∧
    ((LMon.init 0).run [.batch 0 0 1, .reset, .reset, .batch 0 0 2]).isSome = false := by
  refine ⟨by decide, ?_, by decide, by decide⟩
  exact .keep _ (.keep _ (.drop _ _ _ (.keep _ (.keep _ .nil))))

/-- The bound on `total` is needed: `0+(2^31-1)`, `(2^31-1)+1`, `0+5` is one chain (the third batch starts where the second
ended, at 0 again), it is `Stamped 0`; with the second batch lost `LMon` sees `0+(2^31-1)` and `0+5`. -/
theorem counterexample_wrap :
    (Mon.run {} [.batch 0 0 2147483647, .batch 0 2147483647 1, .batch 0 0 5]).isSome = true ∧
    Thin [.batch 0 0 2147483647, .batch 0 2147483647 1, .batch 0 0 5] [.batch 0 0 2147483647, .batch 0 0 5] ∧
    Stamped 0 [.batch 0 0 2147483647, .batch 0 2147483647 1, .batch 0 0 5] ∧
    ((LMon.init 0).run [.batch 0 0 2147483647, .batch 0 0 5]).isSome = false := by
  refine ⟨by decide, ?_, ⟨rfl, rfl, rfl, trivial⟩, by decide⟩
  exact .keep _ (.drop _ _ _ (.keep _ .nil))

/-! ### The write-order monitor: first sequences under one epoch are pairwise distinct -/

/-- Invariant of `Mon` under a budget: `S` bounds the number of records of the current epoch's chain; every batch of
the chain sits at an offset `d` from the start of the chain with `d + n ≤ S`, the frontier sits at offset `S`, and a
first sequence determines the batch. -/
structure MInv (m : Mon) (S : Int) : Prop where
  nonneg : 0 ≤ S
  pos : ∃ start : Int, m.nextSeq = (start + S) % 2147483648 ∧
    ∀ p ∈ m.chain, ∃ d : Int, 0 ≤ d ∧ 1 ≤ p.2 ∧ d + p.2 ≤ S ∧ p.1 = (start + d) % 2147483648
  func : ∀ p ∈ m.chain, ∀ q ∈ m.chain, p.1 = q.1 → p.2 = q.2

theorem minv_init : MInv {} 0 :=
  ⟨by omega, ⟨0, by decide, by intro p hp; cases hp⟩, by intro p hp; cases hp⟩

/-- One accepted batch: what `Mon` guarantees about it, and the invariant afterwards. -/
theorem mon_step_batch (m m' : Mon) (S e f n : Int) (hi : MInv m S) (hS : S + n < 2147483648)
    (h : m.step (.batch e f n) = some m') :
    (0 ≤ f ∧ f < 2147483648 ∧ 1 ≤ n ∧ n < 2147483648) ∧
    m'.started = true ∧ m'.epoch = e ∧ (f, n) ∈ m'.chain ∧
    (∃ S', MInv m' S' ∧ S' ≤ S + n) ∧
    (m.started = true → m.epoch = e → ∀ p ∈ m.chain, p ∈ m'.chain) := by
  obtain ⟨hS0, ⟨start, hnx, hpos⟩, hfun⟩ := hi
  simp only [Mon.step] at h
  split at h
  · simp at h
  · rename_i hr
    have hr' : 0 ≤ f ∧ f < 2147483648 ∧ 1 ≤ n ∧ n < 2147483648 := by
      simp only [Bool.or_eq_true, decide_eq_true_eq, not_or] at hr
      unfold seqMod at hr
      omega
    obtain ⟨hf0, hfM, hn1, hnM⟩ := hr'
    refine ⟨⟨hf0, hfM, hn1, hnM⟩, ?_⟩
    split at h
    · -- first batch ever
      rename_i hst
      simp only [Option.some.injEq] at h; subst h
      refine ⟨rfl, rfl, by simp, ⟨n, ⟨by omega, ⟨f, ?_, ?_⟩, ?_⟩, by omega⟩, ?_⟩
      · simp only [next, seqMod]
      · intro p hp
        simp only [List.mem_singleton] at hp; subst hp
        exact ⟨0, by omega, by simp; omega, by simp, by simp; omega⟩
      · intro p hp q hq _
        simp only [List.mem_singleton] at hp hq; subst hp; subst hq; rfl
      · intro hs; simp [hs] at hst
    · rename_i hst
      split at h
      · -- same epoch
        rename_i he
        have he' : e = m.epoch := by simpa using he
        split at h
        · -- continues the chain
          rename_i hf
          have hf' : f = m.nextSeq := by simpa using hf
          simp only [Option.some.injEq] at h; subst h
          have hnew : ∀ p ∈ m.chain, p.1 ≠ f := by
            intro p hp heq
            obtain ⟨d, hd0, hp1, hdS, hpd⟩ := hpos p hp
            rw [hf', hnx] at heq
            omega
          refine ⟨by simpa using hst, he'.symm, by simp, ⟨S + n, ⟨by omega, ⟨start, ?_, ?_⟩, ?_⟩, by omega⟩, ?_⟩
          · simp only [next, seqMod]; rw [hf', hnx]; omega
          · intro p hp
            simp only [List.mem_cons] at hp
            rcases hp with hp | hp
            · subst hp
              exact ⟨S, hS0, by simp; omega, by simp, by simp; rw [hf', hnx]⟩
            · obtain ⟨d, hd0, hp1, hdS, hpd⟩ := hpos p hp
              exact ⟨d, hd0, hp1, by omega, hpd⟩
          · intro p hp q hq hpq
            simp only [List.mem_cons] at hp hq
            rcases hp with hp | hp <;> rcases hq with hq | hq
            · subst hp; subst hq; rfl
            · subst hp; exact absurd hpq.symm (hnew q hq)
            · subst hq; exact absurd hpq (hnew p hp)
            · exact hfun p hp q hq hpq
          · intro _ _ p hp; exact List.mem_cons_of_mem _ hp
        · split at h
          · -- a re-send
            rename_i hc
            have hc' : (f, n) ∈ m.chain := by simpa using hc
            simp only [Option.some.injEq] at h; subst h
            exact ⟨by simpa using hst, he'.symm, hc', ⟨S, ⟨hS0, ⟨start, hnx, hpos⟩, hfun⟩, by omega⟩, fun _ _ p hp => hp⟩
          · simp at h
      · -- new epoch
        rename_i he
        split at h
        · rename_i ha
          simp only [Bool.and_eq_true, beq_iff_eq] at ha
          obtain ⟨_, hf0'⟩ := ha
          subst hf0'
          simp only [Option.some.injEq] at h; subst h
          refine ⟨rfl, rfl, by simp, ⟨n, ⟨by omega, ⟨0, ?_, ?_⟩, ?_⟩, by omega⟩, ?_⟩
          · simp only [next, seqMod]
          · intro p hp
            simp only [List.mem_singleton] at hp; subst hp
            exact ⟨0, by omega, by simp; omega, by simp, by simp⟩
          · intro p hp q hq _
            simp only [List.mem_singleton] at hp hq; subst hp; subst hq; rfl
          · intro _ hme; exact absurd hme.symm (by simpa using he)
        · simp at h

/-- every batch of an accepted history has at least one record -/
theorem total_nonneg (es : List Ev) : ∀ m mf : Mon, m.run es = some mf → 0 ≤ total es := by
  induction es with
  | nil => intro _ _ _; simp [total]
  | cons ev es ih =>
    intro m mf h
    simp only [Mon.run] at h
    cases hs : m.step ev with
    | none => simp [hs] at h
    | some m1 =>
      simp only [hs] at h
      have := ih m1 mf h
      cases ev with
      | reset => simpa [total] using this
      | batch e f n =>
        simp only [Mon.step] at hs
        split at hs
        · simp at hs
        · rename_i hr
          simp only [Bool.or_eq_true, decide_eq_true_eq, not_or] at hr
          unfold seqMod at hr
          simp only [total]; omega

/-! ### The arrival monitor -/

/-- `absorb` only moves batches from `ahead` to `chain`. -/
theorem absorb_spec (fuel : Nat) : ∀ l : LMon,
    (LMon.absorb fuel l).started = l.started ∧ (LMon.absorb fuel l).epoch = l.epoch ∧
    (LMon.absorb fuel l).allow = l.allow ∧
    ∀ p ∈ (LMon.absorb fuel l).chain ++ (LMon.absorb fuel l).ahead, p ∈ l.chain ++ l.ahead := by
  induction fuel with
  | zero => intro l; simp [LMon.absorb]
  | succ k ih =>
    intro l
    cases hf : l.ahead.find? (fun p => p.1 == l.nextSeq) with
    | none => simp [LMon.absorb, hf]
    | some p =>
      have hm := List.mem_of_find?_eq_some hf
      obtain ⟨h1, h2, h3, h4⟩ :=
        ih { l with nextSeq := next p.1 p.2, chain := p :: l.chain, ahead := l.ahead.filter (· != p) }
      simp only [LMon.absorb, hf]
      refine ⟨h1, h2, h3, ?_⟩
      intro q hq
      have h5 := h4 q hq
      simp only [List.mem_append, List.mem_cons, List.mem_filter] at h5
      simp only [List.mem_append]
      rcases h5 with (h | h) | h
      · subst h; exact Or.inr hm
      · exact Or.inl h
      · exact Or.inr h.1

/-- A batch of a set `C` of batches in which a first sequence determines the batch is never refused by a monitor that
holds batches of `C` only, and the monitor still holds batches of `C` only. -/
theorem sameEpoch_ok (l : LMon) (f n : Int) (C : List (Int × Int))
    (hsub : ∀ p ∈ l.chain ++ l.ahead, p ∈ C) (hmem : (f, n) ∈ C)
    (hfun : ∀ p ∈ C, ∀ q ∈ C, p.1 = q.1 → p.2 = q.2) :
    ∃ l', l.sameEpoch f n = some l' ∧ l'.started = l.started ∧ l'.epoch = l.epoch ∧ l'.allow = l.allow ∧
      ∀ p ∈ l'.chain ++ l'.ahead, p ∈ C := by
  simp only [LMon.sameEpoch]
  split
  · -- continues the chain
    obtain ⟨h1, h2, h3, h4⟩ := absorb_spec l.ahead.length { l with nextSeq := next f n, chain := (f, n) :: l.chain }
    refine ⟨_, rfl, h1, h2, h3, ?_⟩
    intro p hp
    have h5 := h4 p hp
    simp only [List.mem_append, List.mem_cons] at h5
    rcases h5 with (h | h) | h
    · subst h; exact hmem
    · exact hsub p (List.mem_append.2 (Or.inl h))
    · exact hsub p (List.mem_append.2 (Or.inr h))
  · split
    · exact ⟨l, rfl, rfl, rfl, rfl, hsub⟩
    · rename_i hnc
      split
      · -- two different batches with one first sequence: impossible inside `C`
        rename_i hany
        exfalso
        simp only [List.any_eq_true, beq_iff_eq] at hany
        obtain ⟨p, hp, hpf⟩ := hany
        have hpC := hsub p hp
        have := hfun p hpC (f, n) hmem hpf
        have hpe : p = (f, n) := by
          cases p; simp only [Prod.mk.injEq]; exact ⟨hpf, this⟩
        subst hpe
        apply hnc
        simp only [List.mem_append] at hp
        simpa using hp
      · refine ⟨_, rfl, rfl, rfl, rfl, ?_⟩
        intro p hp
        simp only [List.mem_append, List.mem_cons] at hp
        rcases hp with h | h | h
        · exact hsub p (List.mem_append.2 (Or.inl h))
        · subst h; exact hmem
        · exact hsub p (List.mem_append.2 (Or.inr h))

/-- How the arrival monitor `l`, after a thinned prefix, relates to the write-order monitor `m` after the full prefix,
when the epoch counter stands at `c`: `l` is in the current epoch or in an older one; in an older one it has seen a
`.reset` since; in the current one so is `m`; and whenever both are in one epoch `l` holds batches of `m.chain` only. -/
def LInv (c : Int) (m : Mon) (l : LMon) : Prop :=
  l.started = true →
    m.started = true ∧ l.epoch ≤ c ∧ (l.epoch < c → l.allow = true) ∧ (l.epoch = c → m.epoch = c) ∧
    (m.epoch = l.epoch → ∀ p ∈ l.chain ++ l.ahead, p ∈ m.chain)

/-- the invariant for an arrival monitor that has just taken a batch under the current epoch -/
theorem linv_current (c : Int) (m' : Mon) (l' : LMon) (hst' : m'.started = true) (hep' : m'.epoch = c)
    (h3 : l'.epoch = c) (h5 : ∀ p ∈ l'.chain ++ l'.ahead, p ∈ m'.chain) : LInv c m' l' :=
  fun _ => ⟨hst', by omega, fun h => by omega, fun _ => hep', fun _ => h5⟩

/-- One batch that is written AND arrives. -/
theorem lmon_step_batch (c : Int) (m m' : Mon) (l : LMon) (S f n : Int) (hi : MInv m S) (hS : S + n < 2147483648)
    (hl : LInv c m l) (h : m.step (.batch c f n) = some m') :
    ∃ l', l.step (.batch c f n) = some l' ∧ LInv c m' l' := by
  obtain ⟨⟨hf0, hfM, hn1, hnM⟩, hst', hep', hmem, ⟨S', hi', _⟩, hmono⟩ := mon_step_batch m m' S c f n hi hS h
  have hr : (decide (f < 0) || decide (f ≥ seqMod) || decide (n < 1) || decide (n ≥ seqMod)) = false := by
    simp only [Bool.or_eq_false_iff, decide_eq_false_iff_not]
    unfold seqMod
    omega
  simp only [LMon.step, hr, Bool.false_eq_true, if_false]
  cases hls : l.started with
  | false =>
    simp only [Bool.not_false, if_true]
    obtain ⟨l', h1, h2, h3, h4, h5⟩ :=
      sameEpoch_ok { l with started := true, epoch := c, chain := [], ahead := [] } f n m'.chain
        (by intro p hp; simp at hp) hmem hi'.func
    exact ⟨l', h1, linv_current c m' l' hst' hep' h3 h5⟩
  | true =>
    simp only [Bool.not_true, Bool.false_eq_true, if_false]
    obtain ⟨hms, hle, hlt, heq, hsub⟩ := hl hls
    by_cases hc : l.epoch = c
    · have hme := heq hc
      have hbeq : (c == l.epoch) = true := by simp [hc]
      simp only [hbeq, if_true]
      obtain ⟨l', h1, h2, h3, h4, h5⟩ :=
        sameEpoch_ok l f n m'.chain (fun p hp => hmono hms hme p (hsub (by rw [hme, hc]) p hp)) hmem hi'.func
      exact ⟨l', h1, linv_current c m' l' hst' hep' (by rw [h3, hc]) h5⟩
    · have hla := hlt (by omega)
      have hbeq : (c == l.epoch) = false := by
        simp only [beq_eq_false_iff_ne, ne_eq]; omega
      simp only [hbeq, Bool.false_eq_true, if_false, hla, if_true]
      obtain ⟨l', h1, h2, h3, h4, h5⟩ :=
        sameEpoch_ok { started := true, epoch := c, nextSeq := 0, chain := [], allow := false, ahead := [] } f n m'.chain
          (by intro p hp; simp at hp) hmem hi'.func
      exact ⟨l', h1, linv_current c m' l' hst' hep' h3 h5⟩

/-- One batch that is written and LOST. -/
theorem lmon_skip_batch (c : Int) (m m' : Mon) (l : LMon) (S f n : Int) (hi : MInv m S) (hS : S + n < 2147483648)
    (hl : LInv c m l) (h : m.step (.batch c f n) = some m') : LInv c m' l := by
  obtain ⟨_, hst', hep', _, _, hmono⟩ := mon_step_batch m m' S c f n hi hS h
  intro hls
  obtain ⟨hms, hle, hlt, heq, hsub⟩ := hl hls
  refine ⟨hst', hle, hlt, fun _ => hep', fun hml => ?_⟩
  have hc : l.epoch = c := by omega
  have hme := heq hc
  exact fun p hp => hmono hms hme p (hsub (by rw [hme, hc]) p hp)

/-- **Soundness with respect to losses, general form.** From related states (`MInv`, `LInv`), with the remaining
budget of records below 2^31, whatever `Mon` accepts as a write order `LMon` accepts in every thinned view; the final
states are related again (under the final value of the epoch counter). -/
theorem arrival_sound_inv {full sub : List Ev} (ht : Thin full sub) :
    ∀ (c S : Int) (m mf : Mon) (l : LMon), Stamped c full → MInv m S → S + total full < 2147483648 → LInv c m l →
      m.run full = some mf → ∃ lf c', l.run sub = some lf ∧ LInv c' mf lf := by
  induction ht with
  | nil =>
    intro c S m mf l _ _ _ hl h
    simp only [Mon.run, Option.some.injEq] at h; subst h
    exact ⟨l, c, rfl, hl⟩
  | keep ev _ ih =>
    intro c S m mf l hst hi hS hl h
    simp only [Mon.run] at h
    cases hs : m.step ev with
    | none => simp [hs] at h
    | some m1 =>
      simp only [hs] at h
      cases ev with
      | reset =>
        obtain ⟨c', hc', hst'⟩ := hst
        simp only [Mon.step, Option.some.injEq] at hs; subst hs
        simp only [LMon.run, LMon.step]
        refine ih c' S { m with allow := true } mf { l with allow := true } hst' ⟨hi.nonneg, hi.pos, hi.func⟩ hS ?_ h
        intro hls
        obtain ⟨hms, hle, _, _, hsub⟩ := hl hls
        exact ⟨hms, by show l.epoch ≤ c'; omega, fun _ => rfl, fun h => by (have : l.epoch = c' := h); omega, hsub⟩
      | batch e f n =>
        obtain ⟨hec, hst'⟩ := hst
        subst hec
        simp only [total] at hS
        have htot := total_nonneg _ m1 mf h
        obtain ⟨_, _, _, _, ⟨S', hi', hS'⟩, _⟩ := mon_step_batch m m1 S e f n hi (by omega) hs
        obtain ⟨l', hl1, hl'⟩ := lmon_step_batch e m m1 l S f n hi (by omega) hl hs
        simp only [LMon.run, hl1]
        exact ih e S' m1 mf l' hst' hi' (by omega) hl' h
  | drop e f n _ ih =>
    intro c S m mf l hst hi hS hl h
    simp only [Mon.run] at h
    cases hs : m.step (.batch e f n) with
    | none => simp [hs] at h
    | some m1 =>
      simp only [hs] at h
      obtain ⟨hec, hst'⟩ := hst
      subst hec
      simp only [total] at hS
      have htot := total_nonneg _ m1 mf h
      obtain ⟨_, _, _, _, ⟨S', hi', hS'⟩, _⟩ := mon_step_batch m m1 S e f n hi (by omega) hs
      exact ih e S' m1 mf l hst' hi' (by omega) (lmon_skip_batch e m m1 l S f n hi (by omega) hl hs) h

/-- **The arrival monitor never raises a false alarm on a loss-thinned view of an accepted write order.**
`full` is accepted by the write-order monitor, its epochs follow the `.reset` events (`Stamped`), it has fewer than 2^31
records in all; `sub` is `full` with any set of batches lost. Then the arrival monitor, started at ANY sequence number,
accepts `sub`; and if it ends in the epoch the write-order monitor ends in, every batch it holds (in its chain or kept
aside) is a batch of the write-order monitor's chain. -/
theorem arrival_sound (start c : Int) (full sub : List Ev) (m : Mon)
    (hacc : Mon.run {} full = some m) (hthin : Thin full sub) (hst : Stamped c full)
    (hsum : total full < 2147483648) :
    ∃ l, (LMon.init start).run sub = some l ∧
      (l.started = true → l.epoch = m.epoch → ∀ p ∈ l.chain ++ l.ahead, p ∈ m.chain) := by
  obtain ⟨l, c', hl, hinv⟩ :=
    arrival_sound_inv hthin c 0 {} m (LMon.init start) hst minv_init (by omega) (by intro h; simp [LMon.init] at h) hacc
  refine ⟨l, hl, ?_⟩
  intro hs he
  exact (hinv hs).2.2.2.2 he.symm

/-- The statement in the form it was asked for, with the one extra hypothesis `Stamped`. -/
theorem arrival_never_refuses (e f n : Int) (es sub : List Ev) (m : Mon)
    (hacc : Mon.run {} (.batch e f n :: es) = some m) (hthin : Thin (.batch e f n :: es) sub)
    (hst : Stamped e (.batch e f n :: es)) (hsum : total (.batch e f n :: es) < 2147483648) :
    ((LMon.init f).run sub).isSome = true := by
  obtain ⟨l, hl, _⟩ := arrival_sound f e _ sub m hacc hthin hst hsum
  simp [hl]

/-! ### The client model writes `Stamped` histories -/

/-- One operation of the client: what it writes carries `RecBuf.epoch`; `.epochReset` writes `.reset` and bumps it. -/
theorem step_stamped (r : RecBuf) (o : Op) (rest : List Ev) (h : Stamped (r.step o).1.epoch rest) :
    Stamped r.epoch ((r.step o).2 ++ rest) := by
  cases o with
  | buffer n =>
    simp only [RecBuf.step] at h ⊢
    split at h
    · rename_i hc; rw [if_pos hc]; exact h
    · rename_i hc; rw [if_neg hc]; exact h
  | drain =>
    simp only [RecBuf.step] at h ⊢
    split at h
    · exact h
    · exact ⟨rfl, h⟩
  | finish =>
    simp only [RecBuf.step] at h ⊢
    split at h <;> exact h
  | rewind => exact h
  | epochReset => exact ⟨r.epoch + 1, by omega, h⟩

/-- Everything the client model writes is `Stamped` with the client's epoch counter. -/
theorem wire_stamped (ops : List Op) : ∀ r : RecBuf, Stamped r.epoch (r.wire ops) := by
  induction ops with
  | nil => intro r; simp [RecBuf.wire, Stamped]
  | cons o os ih =>
    intro r
    simp only [RecBuf.wire]
    exact step_stamped r o _ (ih _)

end Proof.C29Arrival
