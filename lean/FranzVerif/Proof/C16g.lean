import FranzVerif.Proof.C16f
/-! The number of nodes of a decoded value is linear in the number of bytes consumed. -/
namespace Proof.C16
open Model.C15

mutual
/-- nodes of a value tree: what the decoder had to materialise (every array slot, every field, every unknown tag). -/
def nodes : Val → Nat
  | .int _ => 1
  | .blob _ => 1
  | .null => 1
  | .list vs => 1 + nodesL vs
  | .stru vs unk => 1 + nodesL vs + unk.length
def nodesL : Vals → Nat
  | .nil => 0
  | .cons v r => nodes v + nodesL r
end

mutual
/-- the constant factor of a type (depends on the schema only) -/
def weight : Ty → Nat
  | .prim _ => 1
  | .str _ => 1
  | .arr _ t => 2 * weight t + 1
  | .struct _ _ fs => weightF fs + 2
def weightF : Fields → Nat
  | .nil => 0
  | .cons _ _ _ _ _ t rest => weight t + weightF rest
end

mutual
theorem nodes_dflt : ∀ (t : Ty) (d : Dflt), nodes (dfltVal t d) ≤ weight t
  | .prim p, d => by cases p <;> cases d <;> simp [dfltVal, nodes, weight]
  | .str k, d => by cases k <;> simp [dfltVal, nodes, weight]
  | .arr k t, d => by simp [dfltVal, nodes, weight]
  | .struct true ff fs, d => by simp [dfltVal, nodes, weight]
  | .struct false ff fs, d => by
    have := nodesL_dflt fs
    simp only [dfltVal, nodes, weight, List.length_nil]; omega
theorem nodesL_dflt : ∀ fs : Fields, nodesL (dfltVals fs) ≤ weightF fs
  | .nil => by simp [dfltVals, nodesL, weightF]
  | .cons _ _ _ _ d t rest => by
    have := nodes_dflt t d
    have := nodesL_dflt rest
    simp only [dfltVals, nodesL, weightF]; omega
end

theorem decPrim_nodes (p : Prim) (src : Bytes) (v : Val) (r : Bytes) (h : decPrim p src = .ok v r) : nodes v = 1 := by
  cases p <;> simp only [decPrim] at h <;> (obtain ⟨a, _, rfl⟩ := map_ok_inv h; simp [nodes])

theorem decStr_nodes (ver : Int) (flex : Bool) (k : SKind) (src : Bytes) (v : Val) (r : Bytes)
    (h : decStr ver flex k src = .ok v r) : nodes v = 1 := by
  simp only [decStr] at h
  split at h
  all_goals (try split at h)
  all_goals
    obtain ⟨a, r0, _, h2⟩ := andThen_ok_inv h
    (try split at h2)
  all_goals first
    | (obtain ⟨b, _, rfl⟩ := map_ok_inv h2; simp [nodes])
    | (cases h2; simp [nodes])

/-- per-field bound: every field value has at most `weight t * B` nodes -/
def fb : Fields → Vals → Nat → Prop
  | .cons _ _ _ _ _ t rest, .cons v r, B => nodes v ≤ weight t * B ∧ fb rest r B
  | .nil, .nil, _ => True
  | _, _, _ => False

theorem fb_sum : ∀ (fs : Fields) (vals : Vals) (B : Nat), fb fs vals B → nodesL vals ≤ weightF fs * B
  | .nil, .nil, B, _ => by simp [nodesL]
  | .cons _ _ _ _ _ t rest, .cons v r, B, h => by
    simp only [fb] at h
    have := fb_sum rest r B h.2
    simp only [nodesL, weightF, Nat.add_mul]; omega
  | .nil, .cons _ _, _, h => by simp [fb] at h
  | .cons _ _ _ _ _ _ _, .nil, _, h => by simp [fb] at h

theorem fb_mono : ∀ (fs : Fields) (vals : Vals) (B B' : Nat), B ≤ B' → fb fs vals B → fb fs vals B'
  | .nil, .nil, _, _, _, _ => by simp [fb]
  | .cons _ _ _ _ _ t rest, .cons v r, B, B', hb, h => by
    simp only [fb] at h ⊢
    exact ⟨Nat.le_trans h.1 (Nat.mul_le_mul_left _ hb), fb_mono rest r B B' hb h.2⟩
  | .nil, .cons _ _, _, _, _, h => by simp [fb] at h
  | .cons _ _ _ _ _ _ _, .nil, _, _, _, h => by simp [fb] at h

theorem tagSet_length (acc : List (Nat × Bytes)) (k : Nat) (b : Bytes) : (tagSet acc k b).length ≤ acc.length + 1 := by
  induction acc with
  | nil => simp [tagSet]
  | cons x xs ih =>
    obtain ⟨xk, xb⟩ := x
    simp only [tagSet]
    split
    · simp
    · split
      · simp
      · simp only [List.length_cons]; omega

theorem foldl_tagSet_length (l acc : List (Nat × Bytes)) :
    (l.foldl (fun a (e : Nat × Bytes) => tagSet a e.1 e.2) acc).length ≤ acc.length + l.length := by
  induction l generalizing acc with
  | nil => simp
  | cons e r ih =>
    simp only [List.foldl_cons, List.length_cons]
    have := ih (tagSet acc e.1 e.2)
    have := tagSet_length acc e.1 e.2
    omega

theorem unknownOf_length (known : List Nat) (raw : List (Nat × Bytes)) : (unknownOf known raw).length ≤ raw.length := by
  simp only [unknownOf]
  have h1 := foldl_tagSet_length (raw.filter fun e => !known.contains e.1) []
  have h2 := List.length_filter_le (fun (e : Nat × Bytes) => !known.contains e.1) raw
  simp only [List.length_nil] at h1
  omega

def Sized (t : Ty) : Prop :=
  ∀ (c : Cfg) (flex : Bool) (src : Bytes) (v : Val) (r : Bytes), schemaOK c.ver t = true → dec c flex t src = .ok v r →
    ∀ k, src.length = r.length + k → nodes v ≤ weight t * (k + 1)

theorem decList_sized (c : Cfg) (flex : Bool) (t : Ty) (ht : Sized t) (hs : schemaOK c.ver t = true) (hw : 1 ≤ minW c.ver t) :
    ∀ (n : Nat) (src : Bytes) (vs : Vals) (r : Bytes), decList c flex t n src = .ok vs r →
      ∀ k, src.length = r.length + k → nodesL vs ≤ 2 * (weight t * k) := by
  intro n
  induction n with
  | zero => intro src vs r h k _; rw [decList] at h; cases h; simp [nodesL]
  | succ n ih =>
    intro src vs r h k hk
    rw [decList] at h
    obtain ⟨v, r0, h1, h2⟩ := andThen_ok_inv h
    obtain ⟨vs', h3, rfl⟩ := map_ok_inv h2
    have c1 := consT t c flex src v r0 h1
    have c2 := (decList_cons c flex t (consT t) n r0) vs' r h3
    have hv := ht c flex src v r0 hs h1 (src.length - r0.length) (by omega)
    have hl := ih r0 vs' r h3 (r0.length - r.length) (by omega)
    have hk1 : 1 ≤ src.length - r0.length := by omega
    have e : k = (src.length - r0.length) + (r0.length - r.length) := by omega
    have hww : weight t ≤ weight t * (src.length - r0.length) := Nat.le_mul_of_pos_right _ hk1
    rw [e, Nat.mul_add]
    rw [Nat.mul_add, Nat.mul_one] at hv
    simp only [nodesL]
    omega

end Proof.C16
