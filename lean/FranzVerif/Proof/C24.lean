import FranzVerif.Model.C24
/-! C24 — helper lemmas: a dump that tiles `[a,b]` answers every `x` of `[a,b]` (cover lemma), and the
interval-level check `runOk` of every run lifts to the pointwise Spec for every `x` (`table_sound`). -/
namespace Proof.C24
open Model.C24

theorem mem_span {lo hi x : Int} (h1 : lo ≤ x) (h2 : x ≤ hi) : x ∈ span lo hi := by
  unfold span
  refine List.mem_map.mpr ⟨(x - lo).toNat, ?_, ?_⟩
  · rw [List.mem_range]; omega
  · omega

/-- Cover lemma: if the runs tile `[a,b]` then every `x` of `[a,b]` lies in exactly the run `lookup` finds. -/
theorem lookup_of_covers {α : Type} (t : List (Entry α)) (a b x : Int)
    (hc : covers t a b = true) (h1 : a ≤ x) (h2 : x ≤ b) :
    ∃ e ∈ t, e.lo ≤ x ∧ x ≤ e.hi ∧ lookup t x = some e.val := by
  induction t generalizing a with
  | nil =>
    simp only [covers, beq_iff_eq] at hc
    omega
  | cons e t ih =>
    simp only [covers, Bool.and_eq_true, beq_iff_eq, decide_eq_true_eq] at hc
    obtain ⟨⟨hlo, _hle⟩, hrest⟩ := hc
    by_cases hx : x ≤ e.hi
    · exact ⟨e, List.mem_cons_self, by omega, hx, by simp [lookup, hx]; omega⟩
    · obtain ⟨e', hm, h3, h4, h5⟩ := ih (e.hi + 1) hrest (by omega)
      refine ⟨e', List.mem_cons_of_mem _ hm, h3, h4, ?_⟩
      simp [lookup, hx, h5]

/-- A run that passes `runOk` satisfies the pointwise Spec at each of its points, provided the uniform
    criterion is sound for the Spec. -/
theorem runOk_sound {α : Type} (S : Int → α → Bool) (U : Int → Int → α → Bool)
    (hU : ∀ lo hi v x, U lo hi v = true → lo ≤ x → x ≤ hi → S x v = true)
    (e : Entry α) (h : runOk S U e = true) (x : Int) (h1 : e.lo ≤ x) (h2 : x ≤ e.hi) : S x e.val = true := by
  unfold runOk at h
  split at h
  · exact (List.all_eq_true.mp h) x (mem_span h1 h2)
  · exact hU _ _ _ _ h h1 h2

/-- Lifting lemma: a dump that passes `tableOk` answers every int16 value, and its answer satisfies the Spec. -/
theorem table_sound {α : Type} (S : Int → α → Bool) (U : Int → Int → α → Bool)
    (hU : ∀ lo hi v x, U lo hi v = true → lo ≤ x → x ≤ hi → S x v = true)
    (t : List (Entry α)) (h : tableOk S U t = true) (x : Int) (h1 : -32768 ≤ x) (h2 : x ≤ 32767) :
    ∃ v, lookup t x = some v ∧ S x v = true := by
  simp only [tableOk, Bool.and_eq_true] at h
  obtain ⟨e, hm, h3, h4, h5⟩ := lookup_of_covers t int16Min int16Max x h.1 h1 h2
  exact ⟨e.val, h5, runOk_sound S U hU e ((List.all_eq_true.mp h.2) e hm) x h3 h4⟩

theorem errUniform_sound (lo hi : Int) (o : ErrOut) (x : Int) (h : errUniform lo hi o = true)
    (h1 : lo ≤ x) (h2 : x ≤ hi) : errSpec x o = true := by
  unfold errUniform at h
  unfold errSpec
  cases hefc : o.efc with
  | nil => simp [hefc] at h
  | other w => simp [hefc] at h
  | err v =>
    simp only [hefc, Bool.and_eq_true, Bool.or_eq_true, decide_eq_true_eq] at h ⊢
    obtain ⟨heq, ⟨hunk, hz⟩, hr⟩ := h
    refine ⟨heq, ?_, ?_⟩
    · simp only [bne_iff_ne, ne_eq]; omega
    · by_cases hm : x = -1
      · left
        simp only [isUnknownServerError, Bool.and_eq_true, beq_iff_eq] at hunk
        simp [hunk.1, hm]
      · right
        refine ⟨hunk, ?_⟩
        simp only [refMaxCode] at hr ⊢
        omega

theorem keyUniform_sound (lo hi : Int) (o : KeyOut) (x : Int) (h : keyUniform lo hi o = true)
    (_h1 : lo ≤ x) (_h2 : x ≤ hi) : keySpec x o = true := by
  simp only [keyUniform, Bool.and_eq_true, beq_iff_eq] at h
  simp [keySpec, h.1.1, h.1.2, h.2]

theorem relUniform_sound (kt : List (Entry KeyOut)) (lo hi : Int) (v : RelVal) (x : Int)
    (h : relUniform lo hi v = true) (_h1 : lo ≤ x) (_h2 : x ≤ hi) : relPoint kt x v = true := by
  simp only [relUniform, Bool.and_eq_true, Bool.not_eq_true', beq_iff_eq] at h
  simp [relPoint, relSpec, h.1, h.2]

end Proof.C24
