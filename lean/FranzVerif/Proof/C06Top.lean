import FranzVerif.Proof.C06Walk
import FranzVerif.Proof.C06
import FranzVerif.Proof.C06Below
/-! C06 — membership in the reference decoder's output, the byte-level fact behind `RepBatch.raw`, and the concrete
log used by the non-vacuity examples of `Props/C06.lean`. Core Lean only. -/
namespace Proof.C06
open Model.C06
open Spec.C06 (LRec LBatch ORec Req)

theorem mem_batchRecords {q : Req} {L : List LBatch} {full : Bool} {b : LBatch} {r : ORec} :
    r ∈ Spec.C06.batchRecords q L full b ↔
      (if b.control then q.keepControl else !(Spec.C06.inAborted q L b)) = true ∧
      ∃ x ∈ (if full then b.records else b.records.take b.present), q.offset ≤ x.offset ∧ Spec.C06.toORec b x = r := by
  unfold Spec.C06.batchRecords
  simp only
  generalize (if b.control then q.keepControl else !(Spec.C06.inAborted q L b)) = keep
  cases keep
  · simp
  · simp only [if_true, true_and, List.mem_map, List.mem_filter, decide_eq_true_eq]
    constructor
    · rintro ⟨x, ⟨hx, hq⟩, rfl⟩; exact ⟨x, hx, hq, rfl⟩
    · rintro ⟨x, hx, hq, rfl⟩; exact ⟨x, ⟨hx, hq⟩, rfl⟩

/-- what is returned for a batch when only the bytes present are decoded is also returned when the log is decoded in full -/
theorem batchRecords_take_or_drop {q : Req} {L : List LBatch} {b : LBatch} {r : ORec}
    (h : r ∈ Spec.C06.batchRecords q L true b) :
    r ∈ Spec.C06.batchRecords q L false b ∨ ∃ x ∈ b.records.drop b.present, q.offset ≤ x.offset ∧ x.offset = r.offset := by
  rw [mem_batchRecords] at h
  obtain ⟨hk, x, hx, hq, rfl⟩ := h
  simp only [if_true] at hx
  rw [← List.take_append_drop b.present b.records, List.mem_append] at hx
  rcases hx with hx | hx
  · left; rw [mem_batchRecords]; exact ⟨hk, x, by simpa using hx, hq, rfl⟩
  · right; exact ⟨x, hx, hq, rfl⟩

/-! ## restricting the hypotheses from the log to the part the response holds -/

theorem wfLog_left {whole rest : List LBatch} (h : WfLog (whole ++ rest)) : WfLog whole :=
  ⟨fun b hb => h.batch b (by simp [hb]), (List.pairwise_append.mp h.ord).1⟩

theorem openAt_left {whole rest : List LBatch} (hwf : WfLog (whole ++ rest)) {m : LBatch} (hm : m ∈ whole) (a : Int × Int) :
    openAt whole m a = openAt (whole ++ rest) m a := by
  obtain ⟨P, S, hPS⟩ := List.append_of_mem hm
  rw [openAt_eq hPS (wfLog_left hwf) a,
    openAt_eq (L := whole ++ rest) (P := P) (S := S ++ rest) (by rw [hPS]; simp) hwf a]

theorem abortedConsistent_left {o : Opts} {A : List (Int × Int)} {whole rest : List LBatch} (hwf : WfLog (whole ++ rest))
    (h : AbortedConsistent o A (whole ++ rest)) : AbortedConsistent o A whole := by
  constructor
  · intro m hm hmark
    have := h.sequential m (by simp [hm]) hmark
    have e : (effA o A).filter (openAt whole m) = (effA o A).filter (openAt (whole ++ rest) m) :=
      List.filter_congr (fun a _ => openAt_left hwf hm a)
    rw [e]; exact this
  · intro m hm hmark hlt a ha hpid
    exact h.overlaps m (by simp [hm]) hmark hlt a ha hpid

theorem process_below {o : Opts} {kerr : Bool} {A : List (Int × Int)} {items : List Item} {recs : List Rec} {next : Int} {err : Option Err}
    (h : process o kerr A items = .done recs next err) : ∀ r ∈ recs, r.offset < next := by
  unfold process at h
  simp only at h
  split at h
  · simp at h
  · rename_i s hw
    simp only [Res.done.injEq] at h
    obtain ⟨rfl, rfl, _⟩ := h
    exact walk_below o _ _ _ hw (by intro r hr; simp at hr)

/-! ## byte level: the hypothesis `RepBatch.raw` holds for every batch the framing walk decodes -/

theorem rdVarint_len {s : Bytes} {v : Int} {r : Bytes} (h : rdVarint s = some (v, r)) : r.length + 1 ≤ s.length ∨ r.length = 0 := by
  unfold rdVarint at h
  generalize varint s = p at h
  obtain ⟨v', n⟩ := p
  simp only at h
  split at h
  · simp at h
  · simp only [Option.some.injEq, Prod.mk.injEq] at h
    obtain ⟨_, rfl⟩ := h
    simp only [List.length_drop]
    omega

theorem readRecord_len {s : Bytes} {r : KRec} (h : readRecord s = some r) : 2 ≤ s.length := by
  unfold readRecord at h
  cases h1 : rdVarint s with
  | none => simp [h1] at h
  | some p1 =>
    obtain ⟨a1, r1⟩ := p1
    cases h2 : rdI8 r1 with
    | none => simp [h1, h2] at h
    | some p2 =>
      obtain ⟨a2, r2⟩ := p2
      have := rdVarint_len h1
      have := rdI8_len h2
      omega

/-- every record `readRawRecordsInto` decodes takes at least two bytes -/
theorem decodeAll_len (fuel : Nat) (inp : Bytes) : 2 * (decodeAll fuel inp).1.length ≤ inp.length := by
  induction fuel generalizing inp with
  | zero => simp [decodeAll]
  | succ n ih =>
    unfold decodeAll
    simp only
    split
    · simp
    · rename_i hg
      have hg' : 0 < (varint inp).2 ∧ 0 ≤ (varint inp).1 ∧ (varint inp).2 + (varint inp).1 ≤ inp.length := by
        simp only [not_or, Int.not_le, Int.not_lt] at hg; exact hg
      split
      · simp
      · rename_i body hb
        have hbl := sliceTo_len hb
        split
        · simp
        · rename_i r hr
          have h2 := readRecord_len hr
          split
          · simp only [List.length_cons, List.length_nil]; omega
          · rename_i rest hrest
            have hrl : (rest.length : Int) = inp.length - ((varint inp).2 + (varint inp).1) := by
              unfold sliceFrom? at hrest
              split at hrest
              · simp only [Option.some.injEq] at hrest; subst hrest; simp only [List.length_drop]; omega
              · simp at hrest
            have := ih rest
            simp only [List.length_cons]
            omega

theorem mkBatch_raw (env : Env) (rb : RawBatch) : 2 * (mkBatch env rb).recs.length ≤ (mkBatch env rb).rawLen := by
  unfold mkBatch
  simp only
  split
  · simp
  · simp only; exact decodeAll_len _ _

/-! ## a concrete log: a v1 message, an aborted transaction, plain data, its ABORT marker, a committed batch -/

def exKey : Option Bytes := some [1]
def exVal (n : UInt8) : Option Bytes := some [n]

/-- 9: a v1 message (CreateTime) -/
def exMsg : Msg := ⟨true, 9, 1, 0, 1500, exKey, exVal 9⟩
/-- 10..12: producer 7, transactional; the transaction (7, 10) is aborted -/
def exB1 : Batch := ⟨10, 3, 2, 16, 2, 1000, 1002, 7, 0, 3, true, 30,
  [⟨0, 0, exKey, exVal 10, []⟩, ⟨1, 1, exKey, exVal 11, []⟩, ⟨2, 2, none, exVal 12, [⟨[104], some [1]⟩]⟩], .stop⟩
/-- 13..15: plain data with a compaction gap (14 is gone) and a preserved last offset, LogAppendTime -/
def exB2 : Batch := ⟨13, 3, 2, 8, 2, 2000, 2005, -1, -1, 1, true, 10, [⟨0, 0, exKey, exVal 13, []⟩], .stop⟩
/-- 16: the ABORT marker of producer 7 -/
def exB3 : Batch := ⟨16, 3, 2, 48, 0, 3000, 3000, 7, 0, 1, true, 10, [⟨0, 0, some [0, 0, 0, 0], some [0, 0, 0, 0, 0, 0], []⟩], .stop⟩
/-- 17..18: producer 7 again, a transaction that is not listed as aborted -/
def exB4 : Batch := ⟨17, 3, 2, 16, 1, 4000, 4001, 7, 0, 2, true, 20,
  [⟨0, 0, exKey, exVal 17, []⟩, ⟨1, 1, exKey, exVal 18, []⟩], .stop⟩
/-- 19..21: cut short inside: claims three records, the bytes hold one -/
def exB5 : Batch := ⟨19, 3, 2, 0, 2, 5000, 5002, -1, -1, 3, true, 15, [⟨0, 0, exKey, exVal 19, []⟩], .stop⟩

def exItems : List Item := [.msg exMsg ⟨true, [], none, false⟩, .batch exB1, .batch exB2, .batch exB3, .batch exB4, .batch exB5]

/-- the log batch 19..21 of which only the first record made it into the response -/
def exCutBatch : LBatch :=
  ⟨19, 21, -1, -1, 3, 0, [⟨19, some 5000, exKey, exVal 19, []⟩, ⟨20, some 5001, exKey, exVal 20, []⟩,
      ⟨21, some 5002, exKey, exVal 21, []⟩], 1⟩

def exLog : List LBatch := [
  ⟨9, 9, -1, -1, -1, 0, [⟨9, some 1500, exKey, exVal 9, []⟩], 1⟩,
  ⟨10, 12, 7, 0, 3, 16, [⟨10, some 1000, exKey, exVal 10, []⟩, ⟨11, some 1001, exKey, exVal 11, []⟩,
      ⟨12, some 1002, none, exVal 12, [([104], some [1])]⟩], 3⟩,
  ⟨13, 15, -1, -1, 3, 8, [⟨13, some 2005, exKey, exVal 13, []⟩], 1⟩,
  ⟨16, 16, 7, 0, 3, 48, [⟨16, some 3000, some [0, 0, 0, 0], some [0, 0, 0, 0, 0, 0], []⟩], 1⟩,
  ⟨17, 18, 7, 0, 3, 16, [⟨17, some 4000, exKey, exVal 17, []⟩, ⟨18, some 4001, exKey, exVal 18, []⟩], 2⟩,
  exCutBatch]

/-- the part of the log beyond the response -/
def exRest : List LBatch := [⟨22, 22, -1, -1, 3, 0, [⟨22, some 6000, exKey, exVal 22, []⟩], 1⟩]

/-- read_committed fetch at offset 11, inside the first transactional batch -/
def exOpts : Opts := ⟨false, true, 11⟩
def exAborted : List (Int × Int) := [(7, 10)]

theorem ex_rep : RepList exItems exLog := by
  refine .cons ?_ (.cons ?_ (.cons ?_ (.cons ?_ (.cons ?_ (.cons ?_ .nil)))))
  · show Rep (.msg exMsg _) _
    simp only [Rep]
    rw [if_pos (by decide)]
    exact ⟨by unfold validMsg; decide, rfl, rfl, rfl, rfl, rfl, rfl, by decide, rfl⟩
  all_goals exact ⟨rfl, by decide, rfl, rfl, rfl, rfl, by decide, rfl, rfl, rfl, by decide, rfl, by decide, by decide⟩

theorem ex_wfBatch : ∀ b ∈ exLog ++ exRest, WfBatch b := by
  intro b hb
  simp only [exLog, exRest, List.cons_append, List.nil_append, List.mem_cons, List.mem_nil_iff, or_false] at hb
  rcases hb with h | h | h | h | h | h | h <;> subst h <;> exact ⟨by decide, by decide, by decide, by decide⟩

theorem ex_wf : WfLog (exLog ++ exRest) := ⟨ex_wfBatch, by decide⟩

theorem ex_wf_whole : WfLog exLog :=
  ⟨fun b hb => ex_wfBatch b (by simp [hb]), by decide⟩

theorem ex_cons : AbortedConsistent exOpts exAborted (exLog ++ exRest) := by
  constructor
  · intro m hm
    simp only [exLog, exRest, List.cons_append, List.nil_append, List.mem_cons, List.mem_nil_iff, or_false] at hm
    rcases hm with h | h | h | h | h | h | h <;> subst h <;> decide
  · intro m hm
    simp only [exLog, exRest, List.cons_append, List.nil_append, List.mem_cons, List.mem_nil_iff, or_false] at hm
    rcases hm with h | h | h | h | h | h | h <;> subst h <;> decide

theorem ex_cons_whole : AbortedConsistent exOpts exAborted exLog := by
  constructor
  · intro m hm
    simp only [exLog, List.mem_cons, List.mem_nil_iff, or_false] at hm
    rcases hm with h | h | h | h | h | h <;> subst h <;> decide
  · intro m hm
    simp only [exLog, List.mem_cons, List.mem_nil_iff, or_false] at hm
    rcases hm with h | h | h | h | h | h <;> subst h <;> decide

theorem ex_complete : ∀ b ∈ exLog.dropLast, b.present = b.records.length := by decide

/-! ## a second log: a v1 gzip wrapper stamped LogAppendTime (the case repaired in /repo 581b089), then a v0 message -/

/-- wrapper at 41 (absolute offset of its last inner message), attributes gzip | LogAppendTime, broker time 5000 -/
def exWrap : Msg := ⟨true, 41, 1, 9, 5000, none, some [31, 139]⟩
/-- its inner messages: relative offsets 0 and 2 (1 was compacted away), producer timestamps 77 and 78 -/
def exWrapInner : Inner := ⟨true, [⟨true, 0, 1, 0, 77, exKey, exVal 0⟩, ⟨true, 2, 1, 0, 78, exKey, exVal 2⟩], none, false⟩
def exLog2 : List LBatch := [
  ⟨39, 41, -1, -1, -1, 9, [⟨39, some 5000, exKey, exVal 0, []⟩, ⟨41, some 5000, exKey, exVal 2, []⟩], 2⟩,
  ⟨42, 42, -1, -1, -1, 128, [⟨42, none, exKey, exVal 3, []⟩], 1⟩]
def exItems2 : List Item := [.msg exWrap exWrapInner, .msg ⟨false, 42, 0, 0, 0, exKey, exVal 3⟩ ⟨true, [], none, false⟩]
/-- read_uncommitted fetch at 40, inside the wrapper -/
def exOpts2 : Opts := ⟨false, false, 40⟩

theorem ex2_rep : RepList exItems2 exLog2 := by
  refine .cons ?_ (.cons ?_ .nil)
  · show Rep (.msg exWrap exWrapInner) _
    simp only [Rep]
    rw [if_neg (by decide)]
    refine ⟨by decide, rfl, rfl, rfl, ?_, by decide, by decide, by decide, rfl, by decide, rfl, rfl, rfl, by decide, rfl⟩
    intro i hi
    simp only [exWrapInner, List.mem_cons, List.mem_nil_iff, or_false] at hi
    rcases hi with rfl | rfl <;> exact ⟨by unfold validMsg; decide, by decide⟩
  · show Rep (.msg _ _) _
    simp only [Rep]
    rw [if_pos (by decide)]
    exact ⟨by unfold validMsg; decide, rfl, rfl, rfl, rfl, rfl, rfl, by decide, rfl⟩

theorem ex2_wf : WfLog exLog2 := by
  refine ⟨?_, by decide⟩
  intro b hb
  simp only [exLog2, List.mem_cons, List.mem_nil_iff, or_false] at hb
  rcases hb with h | h <;> subst h <;> exact ⟨by decide, by decide, by decide, by decide⟩

theorem ex2_cons : AbortedConsistent exOpts2 [] exLog2 :=
  ⟨fun _ _ _ => by simp [effA], fun _ _ _ _ a ha => by simp [effA] at ha⟩

end Proof.C06
