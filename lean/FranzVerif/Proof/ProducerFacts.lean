import FranzVerif.Proof.ProducerInv
/-! Facts about accepted histories derived from the invariant (used by Props/C01, C03, C14). -/
namespace Proof.Producer
open Model.Producer
set_option linter.unusedSimpArgs false

theorem mem_promisesOf {id : Id} {h : List Ev} {e : Err} : e ∈ promisesOf id h ↔ Ev.promise id e ∈ h := by
  rw [promisesOf_eq, List.mem_filterMap]
  constructor
  · rintro ⟨a, ha, h2⟩
    cases a <;> simp [promEv] at h2
    obtain ⟨rfl, rfl⟩ := h2; exact ha
  · intro hm; exact ⟨_, hm, by simp [promEv]⟩

theorem mem_hookUsOf {id : Id} {h : List Ev} {e : Err} : e ∈ hookUsOf id h ↔ Ev.hookU id e ∈ h := by
  rw [hookUsOf_eq, List.mem_filterMap]
  constructor
  · rintro ⟨a, ha, h2⟩
    cases a <;> simp [hookUEv] at h2
    obtain ⟨rfl, rfl⟩ := h2; exact ha
  · intro hm; exact ⟨_, hm, by simp [hookUEv]⟩

theorem mem_promiseRanIds {i : Id} {h : List Ev} :
    i ∈ promiseRanIds h ↔ (∃ e, Ev.promise i e ∈ h) ∨ ((∃ e, Ev.hookU i e ∈ h) ∧ kindOf i h = some Kind.sync) := by
  unfold promiseRanIds
  rw [List.mem_filterMap]
  constructor
  · rintro ⟨a, ha, h2⟩
    cases a <;> simp at h2
    · obtain ⟨hk, rfl⟩ := h2; exact Or.inr ⟨⟨_, ha⟩, hk⟩
    · subst h2; exact Or.inl ⟨_, ha⟩
  · rintro (⟨e, he⟩ | ⟨⟨e, he⟩, hk⟩)
    · exact ⟨_, he, by simp⟩
    · exact ⟨_, he, by simp [hk]⟩

theorem mem_admittedIds_append_left {i : Id} {h₁ h₂ : List Ev} (hm : i ∈ admittedIds h₁) :
    i ∈ admittedIds (h₁ ++ h₂) := by
  simp only [admittedIds_eq, List.filterMap_append] at *
  exact List.mem_append_left _ hm

/-! ### reading the invariant -/

theorem Inv.rec_of_admitted {c : Cfg} {h : List Ev} {s : St} (hi : Inv c h s) {id : Id}
    (hm : id ∈ admittedIds h) : ∃ r, find s.recs id = some r ∧ RecInv h id r ∧ r.admitted = true := by
  cases hfd : find s.recs id with
  | none => exact absurd hm (hi.recNone id hfd).not_admitted
  | some r =>
    have hr := hi.recSome id r hfd
    refine ⟨r, rfl, hr, ?_⟩
    have h1 := hr.hadm
    have h2 : 0 < (admittedIds h).count id := List.count_pos_iff.2 hm
    cases hh : r.admitted with
    | true => rfl
    | false => rw [hh] at h1; simp at h1; omega

theorem RecInv.mem_released {h : List Ev} {id : Id} {r : Rec} (hr : RecInv h id r) :
    id ∈ releasedIds h ↔ r.released = true := by
  have h1 := hr.hrel
  constructor
  · intro hm
    have h2 : 0 < (releasedIds h).count id := List.count_pos_iff.2 hm
    cases hh : r.released with
    | true => rfl
    | false => rw [hh] at h1; simp at h1; omega
  · intro hh
    rw [hh] at h1
    exact List.count_pos_iff.1 (by simp at h1; omega)

theorem RecInv.promiseRan {h : List Ev} {id : Id} {r : Rec} (hr : RecInv h id r)
    (hu : r.hookU.isSome = true) (hp : r.kind ≠ Kind.sync → r.promised.isSome = true) :
    id ∈ promiseRanIds h := by
  rw [mem_promiseRanIds]
  by_cases hk : r.kind = Kind.sync
  · right
    obtain ⟨e, he⟩ := Option.isSome_iff_exists.1 hu
    refine ⟨⟨e, mem_hookUsOf.1 ?_⟩, by rw [hr.hkind, hk]⟩
    rw [hr.hU, he]; simp
  · left
    obtain ⟨e, he⟩ := Option.isSome_iff_exists.1 (hp hk)
    refine ⟨e, mem_promisesOf.1 ?_⟩
    rw [hr.hprom, he]; simp

theorem Inv.released_promiseRan {c : Cfg} {h : List Ev} {s : St} (hi : Inv c h s) {id : Id}
    (hm : id ∈ releasedIds h) : id ∈ promiseRanIds h := by
  cases hfd : find s.recs id with
  | none => exact absurd hm (hi.recNone id hfd).not_released
  | some r =>
    have hr := hi.recSome id r hfd
    have := hr.relAdm (hr.mem_released.1 hm)
    exact hr.promiseRan this.2.1 this.2.2

theorem length_filter_le_of_imp {α : Type} (l : List α) (p q : α → Bool) (hpq : ∀ x ∈ l, p x = true → q x = true) :
    (l.filter p).length ≤ (l.filter q).length := by
  induction l with
  | nil => simp
  | cons a l ih =>
    have ih := ih (fun x hx => hpq x (List.mem_cons_of_mem _ hx))
    have ha := hpq a List.mem_cons_self
    simp only [List.filter_cons]
    cases hp : p a <;> cases hq : q a <;> simp_all <;> omega

/-! ### decomposing accepted runs -/

theorem run_split' {c : Cfg} {h₁ h₂ : List Ev} {ev : Ev} {s : St} (hacc : run c {} (h₁ ++ ev :: h₂) = some s) :
    ∃ s₁, run c {} h₁ = some s₁ ∧ check c s₁ ev = none ∧ run c (apply c s₁ ev) h₂ = some s := by
  rw [run_append] at hacc
  cases h1 : run c {} h₁ with
  | none => simp [h1] at hacc
  | some s₁ =>
    simp only [h1, Option.bind_some, run] at hacc
    cases hs : Model.Producer.step c s₁ ev with
    | none => simp [hs] at hacc
    | some s2 =>
      obtain ⟨hchk, rfl⟩ := step_eq_some hs
      simp only [hs] at hacc
      exact ⟨s₁, rfl, hchk, hacc⟩

theorem run_snoc {c : Cfg} {h : List Ev} {ev : Ev} {s : St} (hacc : run c {} (h ++ [ev]) = some s) :
    ∃ s₁, run c {} h = some s₁ ∧ check c s₁ ev = none := by
  obtain ⟨s₁, h1, h2, _⟩ := run_split' hacc
  exact ⟨s₁, h1, h2⟩

/-- what the monitor checks at a quiescent point -/
theorem quiesce_check {c : Cfg} {s : St} {n b : Nat} (hchk : check c s (.quiesce n b) = none) :
    (∀ r ∈ s.recs, r.promised.isSome = true ∧ r.hookU.isSome = true ∧ r.blocked = false ∧ r.returned = true ∧
      (r.admitted = true → r.released = true)) ∧
    (∀ f ∈ s.flushes, f.done = true) ∧ n = 0 ∧ b = 0 ∧ s.occ = 0 ∧ s.occBytes = 0 := by
  simp [check, ite_some_eq_none] at hchk
  obtain ⟨c1, c2, c3, c4, c5, ⟨c6, c7⟩, c8, c9⟩ := hchk
  refine ⟨fun r hr => ⟨?_, ?_, (c3 r hr).1, (c3 r hr).2, c4 r hr⟩, c5, c6, c7, c8, c9⟩
  · simpa [Option.isSome_iff_ne_none] using c1 r hr
  · simpa [Option.isSome_iff_ne_none] using c2 r hr

/-! ### a pending Flush keeps its wait set -/

theorem flush_waitFor_step {c : Cfg} {s s' : St} {ev : Ev} (hs : step c s ev = some s') (k : Nat) (f : Flush)
    (hf : s.flushes.find? (·.k == k) = some f) :
    ∃ f', s'.flushes.find? (·.k == k) = some f' ∧ f'.waitFor = f.waitFor := by
  obtain ⟨hchk, rfl⟩ := step_eq_some hs
  cases ev with
  | flushStart k' =>
    simp [check, ite_some_eq_none] at hchk
    have hne : k' ≠ k := by
      intro he; subst he
      have h1 := List.mem_of_find?_eq_some hf
      have h2 := List.find?_some hf
      exact hchk f h1 (by simpa using h2)
    refine ⟨f, ?_, rfl⟩
    simp [Model.Producer.apply, List.find?_cons, hne, hf]
  | flushEnd k' ok =>
    refine ⟨if (f.k == k') = true then { f with done := true } else f, ?_, by split <;> rfl⟩
    simp only [Model.Producer.apply, List.find?_map]
    have : ((fun x : Flush => x.k == k) ∘ fun f : Flush => if (f.k == k') = true then { f with done := true } else f)
        = (fun x : Flush => x.k == k) := by
      funext x; simp only [Function.comp]; split <;> rfl
    rw [this, hf]
    rfl
  | release i n b =>
    refine ⟨f, ?_, rfl⟩
    simp only [Model.Producer.apply]
    split <;> exact hf
  | _ => exact ⟨f, hf, rfl⟩

theorem flush_waitFor_run {c : Cfg} {s s' : St} {h : List Ev} (hr : run c s h = some s') (k : Nat) (f : Flush)
    (hf : s.flushes.find? (·.k == k) = some f) :
    ∃ f', s'.flushes.find? (·.k == k) = some f' ∧ f'.waitFor = f.waitFor := by
  induction h generalizing s f with
  | nil => simp [run] at hr; subst hr; exact ⟨f, hf, rfl⟩
  | cons e es ih =>
    simp only [run] at hr
    cases hs : Model.Producer.step c s e with
    | none => simp [hs] at hr
    | some s1 =>
      simp only [hs] at hr
      obtain ⟨f1, hf1, hw1⟩ := flush_waitFor_step hs k f hf
      obtain ⟨f', hf', hw'⟩ := ih hr f1 hf1
      exact ⟨f', hf', hw'.trans hw1⟩

end Proof.Producer
