import FranzVerif.Proof.C26
/-! Concrete accepted traces for the non-vacuity examples of Props/C26. `Std.HashMap` terms do not reduce in the
kernel (`decide` is useless here), so each step of the two runs is evaluated symbolically with the `getElem?_insert`
lemmas. -/
namespace Proof.C26.Ex
open Model.C25 Model.C26 Std Proof.C26

theorem validB_of (c : Ctx) (o : Own)
    (hv : ∀ p b, o[p]? = some b → c.isPart p = true ∧ c.sub b p.1 = true)
    (hc : ∀ p ∈ c.parts, c.wanted p.1 = true → (o[p]?).isSome = true) : validB c o = true := by
  simp only [validB, Bool.and_eq_true, List.all_eq_true]
  constructor
  · rintro ⟨p, b⟩ hpb
    have := hv p b (Std.HashMap.mem_toList_iff_getElem?_eq_some.1 hpb)
    simpa using this
  · intro p hp
    by_cases hw : c.wanted p.1 = true
    · simp [hc p hp hw]
    · simp [hw]

/-- m0 consumes t1, m1 consumes t0 and t1, m2 consumes t0: balancing needs the chain m2 <- m1 <- m0. -/
def exCtx : Ctx := { members := [{ id := "m0", topics := ["t1"] }, { id := "m1", topics := ["t0", "t1"] }, { id := "m2", topics := ["t0"] }],
                     topics := [("t0", 1), ("t1", 2)], racks := true }
def exTrace : List Ev := [.init [] [], .assign "m0" ("t1", 0), .assign "m0" ("t1", 1), .assign "m1" ("t0", 0),
  .steal "m2" "m0" [(("t1", 0), "m1"), (("t0", 0), "m2")], .done]

theorem c_parse_ex : parse exCtx = ∅ := by simp [parse, exCtx, claimsOf]
theorem c_initOwn_ex : initOwn exCtx = ∅ := by simp [initOwn, c_parse_ex, HashMap.fold_eq_foldl_toList]
theorem c_stales_ex : stales exCtx = [] := by simp [stales, c_parse_ex, HashMap.fold_eq_foldl_toList]
theorem c_parts_ex : exCtx.parts = [("t0", 0), ("t1", 0), ("t1", 1)] := by decide

def o3 : Own := (((∅ : Own).insert ("t1", 0) "m0").insert ("t1", 1) "m0").insert ("t0", 0) "m1"

theorem c_h1 : step exCtx {} (.init [] []) = some { own := ∅, phase := 1 } := by
  simp [step, initOK, c_initOwn_ex, c_stales_ex, sameSet]
theorem c_h2 : step exCtx { own := ∅, phase := 1 } (.assign "m0" ("t1", 0)) = some { own := (∅ : Own).insert ("t1", 0) "m0", phase := 1 } := by
  simp [step, assignOK, exCtx, Ctx.sub, subOf, Ctx.isPart, cnt, List.lookup]
theorem c_h3 : step exCtx { own := (∅ : Own).insert ("t1", 0) "m0", phase := 1 } (.assign "m0" ("t1", 1))
    = some { own := ((∅ : Own).insert ("t1", 0) "m0").insert ("t1", 1) "m0", phase := 1 } := by
  simp [step, assignOK, exCtx, Ctx.sub, subOf, Ctx.isPart, cnt, List.lookup, HashMap.getElem?_insert]
theorem c_h4 : step exCtx { own := ((∅ : Own).insert ("t1", 0) "m0").insert ("t1", 1) "m0", phase := 1 } (.assign "m1" ("t0", 0))
    = some { own := o3, phase := 1 } := by
  simp [step, assignOK, exCtx, Ctx.sub, subOf, Ctx.isPart, cnt, List.lookup, HashMap.getElem?_insert, o3]

def o5 : Own := (o3.insert ("t1", 0) "m1").insert ("t0", 0) "m2"

theorem c_valid3 : validB exCtx o3 = true := by
  apply validB_of
  · intro p b h
    simp only [o3, HashMap.getElem?_insert, HashMap.getElem?_empty] at h
    split at h
    · rename_i e; cases h; simp at e; subst e; decide
    · split at h
      · rename_i e; cases h; simp at e; subst e; decide
      · split at h
        · rename_i e; cases h; simp at e; subst e; decide
        · cases h
  · intro p hp _
    rw [c_parts_ex] at hp
    simp only [List.mem_cons, List.not_mem_nil, or_false] at hp
    rcases hp with rfl | rfl | rfl <;> simp [o3, HashMap.getElem?_insert]

theorem c_lv_m0 : level exCtx o3 "m0" = 2 := by
  simp [level, c_parts_ex, o3, HashMap.getElem?_insert, List.countP_cons]
theorem c_lv_m2 : level exCtx o3 "m2" = 0 := by
  simp [level, c_parts_ex, o3, HashMap.getElem?_insert, List.countP_cons]

theorem c_h5 : step exCtx { own := o3, phase := 1 } (.steal "m2" "m0" [(("t1", 0), "m1"), (("t0", 0), "m2")])
    = some { own := o5, phase := 2 } := by
  simp [step, enter, c_valid3, stealOK, c_lv_m0, c_lv_m2, chainOK, chainEnd, applyChain, o5]
  simp [exCtx, Ctx.ids, Ctx.sub, subOf, Ctx.isPart, cnt, List.lookup, o3, HashMap.getElem?_insert, HashMap.getElem_insert]

theorem c_lv5 : level exCtx o5 "m0" = 1 ∧ level exCtx o5 "m1" = 1 ∧ level exCtx o5 "m2" = 1 := by
  simp [level, c_parts_ex, o5, o3, HashMap.getElem?_insert, List.countP_cons]

theorem c_ids_ex : exCtx.ids = ["m0", "m1", "m2"] := by decide

theorem c_h6 : step exCtx { own := o5, phase := 2 } .done = some { own := o5, phase := 3 } := by
  simp [step, enter, doneOK, active, c_ids_ex, c_lv5]

theorem ex_run : run exCtx {} 0 exTrace = .ok { own := o5, phase := 3 } := by
  simp [run, exTrace, c_h1, c_h2, c_h3, c_h4, c_h5, c_h6]

/-- `a` only consumes t0 (3 partitions), `b` only t1 (1 partition): loads 3 and 1 are optimal. -/
def gCtx : Ctx := { members := [{ id := "a", topics := ["t0"] }, { id := "b", topics := ["t1"] }],
                     topics := [("t0", 3), ("t1", 1)], racks := true }
def gTrace : List Ev := [.init [] [], .assign "a" ("t0", 0), .assign "a" ("t0", 1), .assign "a" ("t0", 2), .assign "b" ("t1", 0),
  .giveup "b", .done]
def og : Own := ((((∅ : Own).insert ("t0", 0) "a").insert ("t0", 1) "a").insert ("t0", 2) "a").insert ("t1", 0) "b"

theorem g_parse : parse gCtx = ∅ := by simp [parse, gCtx, claimsOf]
theorem g_initOwn : initOwn gCtx = ∅ := by simp [initOwn, g_parse, HashMap.fold_eq_foldl_toList]
theorem g_stales : stales gCtx = [] := by simp [stales, g_parse, HashMap.fold_eq_foldl_toList]
theorem g_parts : gCtx.parts = [("t0", 0), ("t0", 1), ("t0", 2), ("t1", 0)] := by decide
theorem g_ids : gCtx.ids = ["a", "b"] := by decide

theorem g_init : step gCtx {} (.init [] []) = some { own := ∅, phase := 1 } := by
  simp [step, initOK, g_initOwn, g_stales, sameSet]

theorem g_assigns (rest : List Ev) :
    run gCtx { own := ∅, phase := 1 } 1 (.assign "a" ("t0", 0) :: .assign "a" ("t0", 1) :: .assign "a" ("t0", 2) :: .assign "b" ("t1", 0) :: rest)
      = run gCtx { own := og, phase := 1 } 5 rest := by
  simp [run, step, assignOK, gCtx, Ctx.sub, subOf, Ctx.isPart, cnt, List.lookup, HashMap.getElem?_insert, og]

theorem g_valid : validB gCtx og = true := by
  apply validB_of
  · intro p b h
    simp only [og, HashMap.getElem?_insert, HashMap.getElem?_empty] at h
    split at h
    · rename_i e; cases h; simp at e; subst e; decide
    · split at h
      · rename_i e; cases h; simp at e; subst e; decide
      · split at h
        · rename_i e; cases h; simp at e; subst e; decide
        · split at h
          · rename_i e; cases h; simp at e; subst e; decide
          · cases h
  · intro p hp _
    rw [g_parts] at hp
    simp only [List.mem_cons, List.not_mem_nil, or_false] at hp
    rcases hp with rfl | rfl | rfl | rfl <;> simp [og, HashMap.getElem?_insert]

theorem g_levels : level gCtx og "a" = 3 ∧ level gCtx og "b" = 1 := by
  simp [level, g_parts, og, HashMap.getElem?_insert, List.countP_cons]

theorem g_closure : closure gCtx og "b" = ["b"] := by
  simp [closure, closure.go, gCtx, Ctx.parts, Ctx.topicNames, cnt, List.lookup, og, HashMap.getElem?_insert, List.range, List.range.loop]

theorem g_stuck : stuckB gCtx og "b" = true := by
  simp [stuckB, g_closure, g_levels, closedB]
  simp [gCtx, Ctx.topicNames, cnt, List.lookup, og, HashMap.getElem?_insert, List.range, List.range.loop, dedup, dedupAux]

theorem g_run : run gCtx {} 0 gTrace = .ok { own := og, phase := 3, given := ["b"] } := by
  have : run gCtx {} 0 gTrace = run gCtx { own := ∅, phase := 1 } 1 gTrace.tail := by
    simp [gTrace, run, g_init]
  rw [this]
  simp only [gTrace, List.tail]
  rw [g_assigns]
  simp [run, step, enter, g_valid, giveupOK, doneOK, active, g_ids, g_levels, g_stuck]

end Proof.C26.Ex
