import FranzVerif.Model.C32
import FranzVerif.Proof.C32
/-! C32 — read_committed exactness: ordered-log lemmas, the characterisation of the consumer-side
aborted-transaction rule, the invariant tying `pd.aborted` to the abort markers of the log. -/
namespace Proof.C32
open Model.C32

/-! ### ordered logs -/

/-- strictly increasing, non-overlapping batches with at least one record each. -/
def Ord (l : List Batch) : Prop := l.Pairwise (fun a b => a.first + a.n ≤ b.first) ∧ ∀ b ∈ l, 1 ≤ b.n

theorem ord_append {l1 l2 : List Batch} : Ord (l1 ++ l2) ↔ Ord l1 ∧ Ord l2 ∧ ∀ a ∈ l1, ∀ b ∈ l2, a.first + a.n ≤ b.first := by
  unfold Ord
  rw [List.pairwise_append]
  constructor
  · rintro ⟨⟨h1, h2, h3⟩, hn⟩
    exact ⟨⟨h1, fun b hb => hn b (by simp [hb])⟩, ⟨h2, fun b hb => hn b (by simp [hb])⟩, h3⟩
  · rintro ⟨⟨h1, n1⟩, ⟨h2, n2⟩, h3⟩
    refine ⟨⟨h1, h2, h3⟩, fun b hb => ?_⟩
    rcases List.mem_append.1 hb with h | h
    · exact n1 b h
    · exact n2 b h

theorem ord_cons {a : Batch} {l : List Batch} : Ord (a :: l) ↔ 1 ≤ a.n ∧ Ord l ∧ ∀ b ∈ l, a.first + a.n ≤ b.first := by
  unfold Ord
  rw [List.pairwise_cons]
  constructor
  · rintro ⟨⟨h1, h2⟩, hn⟩
    exact ⟨hn a (by simp), ⟨h2, fun b hb => hn b (by simp [hb])⟩, h1⟩
  · rintro ⟨na, ⟨h2, n2⟩, h1⟩
    refine ⟨⟨h1, h2⟩, fun b hb => ?_⟩
    rcases List.mem_cons.1 hb with rfl | h
    · exact na
    · exact n2 b h

theorem ord_sublist_drop (f : Batch → Bool) {l : List Batch} (h : Ord l) : Ord (l.dropWhile f) :=
  ⟨h.1.sublist (List.dropWhile_sublist f), fun b hb => h.2 b ((List.dropWhile_sublist f).subset hb)⟩

/-- in an ordered list `A ++ x :: B`, an element with a larger first offset than `x` lies in `B`. -/
theorem ord_after {A B : List Batch} {x y : Batch} (h : Ord (A ++ x :: B)) (hy : y ∈ A ++ x :: B) (hlt : x.first < y.first) : y ∈ B := by
  obtain ⟨hA, hxB, hAB⟩ := ord_append.1 h
  obtain ⟨nx, hB, hxb⟩ := ord_cons.1 hxB
  rcases List.mem_append.1 hy with h1 | h1
  · have := hAB y h1 x (by simp); have := hA.2 y h1; omega
  · rcases List.mem_cons.1 h1 with rfl | h2
    · omega
    · exact h2

/-- … and one with a smaller first offset lies in `A`. -/
theorem ord_before {A B : List Batch} {x y : Batch} (h : Ord (A ++ x :: B)) (hy : y ∈ A ++ x :: B) (hlt : y.first < x.first) : y ∈ A := by
  obtain ⟨hA, hxB, hAB⟩ := ord_append.1 h
  obtain ⟨nx, hB, hxb⟩ := ord_cons.1 hxB
  rcases List.mem_append.1 hy with h1 | h1
  · exact h1
  · rcases List.mem_cons.1 h1 with rfl | h2
    · omega
    · have := hxb y h2; omega

theorem ord_lt_of_split {A B : List Batch} {x : Batch} (h : Ord (A ++ x :: B)) :
    (∀ a ∈ A, a.first + a.n ≤ x.first) ∧ (∀ b ∈ B, x.first + x.n ≤ b.first) ∧ 1 ≤ x.n := by
  obtain ⟨hA, hxB, hAB⟩ := ord_append.1 h
  obtain ⟨nx, hB, hxb⟩ := ord_cons.1 hxB
  exact ⟨fun a ha => hAB a ha x (by simp), hxb, nx⟩

theorem mem_dropWhile_of_not {α : Type} (p : α → Bool) (l : List α) (x : α) (hx : x ∈ l) (hp : p x = false) : x ∈ l.dropWhile p := by
  induction l with
  | nil => simp at hx
  | cons a r ih =>
    simp only [List.dropWhile]
    split
    · rename_i ha
      rcases List.mem_cons.1 hx with rfl | h
      · simp [hp] at ha
      · exact ih h
    · exact hx

/-! ### the consumer rule, characterised -/

/-- last offset of a batch. -/
abbrev lastOf (b : Batch) : Int := b.first + b.n - 1

/-- the producers the consumer holds as "aborted" when it reaches batch `m` after `pr`: some listed aborted
transaction has started (`first ≤` last offset seen) and no abort marker of the producer was seen since. -/
def ClientAborted (ab : List (Int × Int)) (pr : List Batch) (m : Batch) (P : Int) : Prop :=
  ∃ e ∈ ab, e.1 = P ∧ (∃ b ∈ pr ++ [m], e.2 ≤ lastOf b) ∧
    ∀ c ∈ pr, c.ctl = true → c.commit = false → c.pid = P → lastOf c < e.2

/-- the state of `clientFilter` after the batches `pr`. -/
structure CState (ab : List (Int × Int)) (pr : List Batch) (pend : List (Int × Int)) (act : List Int) : Prop where
  pend : pend = ab.filter (fun e => !(pr.any (fun b => decide (e.2 ≤ lastOf b))))
  act : ∀ P, P ∈ act ↔ ∃ e ∈ ab, e.1 = P ∧ (∃ b ∈ pr, e.2 ≤ lastOf b) ∧
    ∀ c ∈ pr, c.ctl = true → c.commit = false → c.pid = P → lastOf c < e.2

theorem act1_char (ab : List (Int × Int)) (pr : List Batch) (m : Batch) (pend : List (Int × Int)) (act : List Int)
    (hs : CState ab pr pend act) (P : Int) :
    P ∈ act ++ ((pend.filter (fun e => decide (e.2 ≤ lastOf m))).map (·.1)) ↔ ClientAborted ab pr m P := by
  unfold ClientAborted
  constructor
  · intro h
    rcases List.mem_append.1 h with h | h
    · obtain ⟨e, he, hp, ⟨b, hb, hbl⟩, hc⟩ := (hs.act P).1 h
      exact ⟨e, he, hp, ⟨b, by simp [hb], hbl⟩, hc⟩
    · simp only [List.mem_map, List.mem_filter, decide_eq_true_eq] at h
      obtain ⟨e, ⟨hep, hel⟩, rfl⟩ := h
      rw [hs.pend] at hep
      simp only [List.mem_filter, Bool.not_eq_eq_eq_not, Bool.not_true, List.any_eq_false, decide_eq_true_eq] at hep
      refine ⟨e, hep.1, rfl, ⟨m, by simp, hel⟩, fun c hc _ _ _ => ?_⟩
      have := hep.2 c hc
      omega
  · rintro ⟨e, he, hp, ⟨b, hb, hbl⟩, hc⟩
    by_cases hex : ∃ b ∈ pr, e.2 ≤ lastOf b
    · exact List.mem_append.2 (Or.inl ((hs.act P).2 ⟨e, he, hp, hex, hc⟩))
    · apply List.mem_append.2; right
      simp only [List.mem_map, List.mem_filter, decide_eq_true_eq]
      have hbm : b = m := by
        rcases List.mem_append.1 hb with h | h
        · exact absurd ⟨b, h, hbl⟩ hex
        · simpa using h
      refine ⟨e, ⟨?_, hbm ▸ hbl⟩, hp⟩
      rw [hs.pend]
      simp only [List.mem_filter, Bool.not_eq_eq_eq_not, Bool.not_true, List.any_eq_false, decide_eq_true_eq]
      exact ⟨he, fun c hc hle => hex ⟨c, hc, hle⟩⟩

theorem cstate_init (ab : List (Int × Int)) : CState ab [] ab [] := by
  refine ⟨by simp only [List.any_nil, Bool.not_false]; exact (List.filter_eq_self.2 (fun _ _ => rfl)).symm, fun P => ?_⟩
  simp

/-- one step of the consumer rule keeps the characterisation. -/
theorem cstate_step (ab : List (Int × Int)) (pr : List Batch) (m : Batch) (pend : List (Int × Int)) (act : List Int)
    (hs : CState ab pr pend act) (hord : Ord (pr ++ [m])) :
    CState ab (pr ++ [m]) (pend.filter (fun e => !(decide (e.2 ≤ lastOf m))))
      (if m.ctl && !m.commit then (act ++ ((pend.filter (fun e => decide (e.2 ≤ lastOf m))).map (·.1))).filter (· != m.pid)
       else act ++ ((pend.filter (fun e => decide (e.2 ≤ lastOf m))).map (·.1))) := by
  have hprm : ∀ b ∈ pr, lastOf b < m.first := by
    intro b hb
    have := (ord_append.1 hord).2.2 b hb m (by simp)
    simp only [lastOf]; omega
  have hmn : 1 ≤ m.n := hord.2 m (by simp)
  refine ⟨?_, fun P => ?_⟩
  · rw [hs.pend, List.filter_filter]
    congr 1
    funext e
    simp only [List.any_append, List.any_cons, List.any_nil, Bool.or_false, Bool.not_or, Bool.and_comm]
  · have h1 := act1_char ab pr m pend act hs P
    unfold ClientAborted at h1
    by_cases hm : (m.ctl && !m.commit) = true
    · rw [if_pos hm]
      simp only [List.mem_filter, bne_iff_ne, ne_eq]
      simp only [Bool.and_eq_true, Bool.not_eq_eq_eq_not, Bool.not_true] at hm
      rw [h1]
      constructor
      · rintro ⟨⟨e, he, hp, hb, hc⟩, hne⟩
        refine ⟨e, he, hp, hb, fun c hcm h2 h3 h4 => ?_⟩
        rcases List.mem_append.1 hcm with h | h
        · exact hc c h h2 h3 h4
        · have : c = m := by simpa using h
          subst this; exact absurd h4.symm hne
      · rintro ⟨e, he, hp, ⟨b, hb, hbl⟩, hc⟩
        have hne : ¬ P = m.pid := by
          intro heq
          have h5 := hc m (by simp) hm.1 hm.2 heq.symm
          have : lastOf b ≤ lastOf m := by
            rcases List.mem_append.1 hb with h | h
            · have := hprm b h; simp only [lastOf] at this ⊢; omega
            · have : b = m := by simpa using h
              subst this; omega
          omega
        exact ⟨⟨e, he, hp, ⟨b, hb, hbl⟩, fun c hcm => hc c (by simp [hcm])⟩, hne⟩
    · rw [if_neg hm, h1]
      have hm' : ¬ (m.ctl = true ∧ m.commit = false) := by
        simpa [Bool.and_eq_true] using hm
      constructor
      · rintro ⟨e, he, hp, hb, hc⟩
        refine ⟨e, he, hp, hb, fun c hcm h2 h3 h4 => ?_⟩
        rcases List.mem_append.1 hcm with h | h
        · exact hc c h h2 h3 h4
        · have : c = m := by simpa using h
          subst this; exact absurd ⟨h2, h3⟩ hm'
      · rintro ⟨e, he, hp, hb, hc⟩
        exact ⟨e, he, hp, hb, fun c hcm => hc c (by simp [hcm])⟩

/-- If, for every transactional data batch of the walk, "the consumer holds its producer as aborted" is the same
as "the log does not say committed", the consumer's view equals the committed data. -/
theorem clientFilter_spec (ab : List (Int × Int)) (rest : List Batch) (todo pr : List Batch) (pend : List (Int × Int)) (act : List Int)
    (hord : Ord (pr ++ todo)) (hs : CState ab pr pend act)
    (hkey : ∀ p m td, pr ++ todo = p ++ m :: td → m.ctl = false → m.txn = true →
      (ClientAborted ab p m m.pid ↔ statusIn (td ++ rest) m.pid ≠ .committed)) :
    clientFilter todo pend act = committedData todo rest := by
  induction todo generalizing pr pend act with
  | nil => simp [clientFilter, committedData]
  | cons m r ih =>
    have hord' : Ord ((pr ++ [m]) ++ r) := by simpa using hord
    have hordm : Ord (pr ++ [m]) := (ord_append.1 hord').1
    have hstep := cstate_step ab pr m pend act hs hordm
    have hkey' : ∀ p m' td, (pr ++ [m]) ++ r = p ++ m' :: td → m'.ctl = false → m'.txn = true →
        (ClientAborted ab p m' m'.pid ↔ statusIn (td ++ rest) m'.pid ≠ .committed) := by
      intro p m' td h; exact hkey p m' td (by simpa using h)
    simp only [clientFilter, committedData]
    by_cases hc : m.ctl = true
    · simp only [hc, if_true]
      have := ih (pr ++ [m]) _ _ hord' hstep hkey'
      rw [← this]
      cases hcm : m.commit <;> simp [hc, hcm, lastOf]
    · have hc' : m.ctl = false := by simpa using hc
      simp only [hc', Bool.false_eq_true, if_false, Bool.false_and] at hstep ⊢
      have hrec := ih (pr ++ [m]) _ _ hord' hstep hkey'
      by_cases ht : m.txn = true
      · have hk := hkey pr m r rfl hc' ht
        have h1 := act1_char ab pr m pend act hs m.pid
        simp only [ht, Bool.true_and, Bool.not_true, Bool.false_or]
        by_cases hin : ClientAborted ab pr m m.pid
        · have hmem := h1.2 hin
          have hst := hk.1 hin
          have : (act ++ List.map (fun x => x.fst) (List.filter (fun e => decide (e.snd ≤ m.first + m.n - 1)) pend)).contains m.pid = true := by
            simpa [lastOf] using hmem
          simp only [this, if_true]
          have hne : (statusIn (r ++ rest) m.pid == Status.committed) = false := by
            simpa using hst
          simp only [hne, Bool.false_eq_true, if_false]
          simpa [lastOf] using hrec
        · have hmem : ¬ m.pid ∈ act ++ List.map (fun x => x.fst) (List.filter (fun e => decide (e.snd ≤ lastOf m)) pend) :=
            fun h => hin (h1.1 h)
          have hst : statusIn (r ++ rest) m.pid = .committed := by
            cases hs' : statusIn (r ++ rest) m.pid with
            | committed => rfl
            | open_ => exact absurd (hk.2 (by simp [hs'])) hin
            | aborted => exact absurd (hk.2 (by simp [hs'])) hin
          have : (act ++ List.map (fun x => x.fst) (List.filter (fun e => decide (e.snd ≤ m.first + m.n - 1)) pend)).contains m.pid = false := by
            simpa [lastOf] using hmem
          simp only [this, Bool.false_eq_true, if_false, hst, beq_self_eq_true, if_true]
          congr 1
      · have ht' : m.txn = false := by simpa using ht
        simp only [ht', Bool.false_and, Bool.false_eq_true, if_false, Bool.not_false, Bool.true_or, if_true]
        congr 1

/-! ### association-list facts for `uncommittedPIDs` -/

theorem lookup_append_single (l : List (Int × Int)) (p o P : Int) :
    (l ++ [(p, o)]).lookup P = match l.lookup P with | some f => some f | none => if P = p then some o else none := by
  induction l with
  | nil =>
    simp only [List.nil_append, List.lookup]
    by_cases h : P = p
    · subst h; simp
    · have : (P == p) = false := by simpa using h
      simp [this, h]
  | cons e r ih =>
    obtain ⟨a, b⟩ := e
    simp only [List.cons_append, List.lookup]
    split
    · rfl
    · exact ih

theorem lookup_filter_ne (l : List (Int × Int)) (p P : Int) :
    (l.filter (fun e => e.1 != p)).lookup P = if P = p then none else l.lookup P := by
  induction l with
  | nil => simp
  | cons e r ih =>
    obtain ⟨a, b⟩ := e
    by_cases hap : a = p
    · subst hap
      simp only [List.filter, bne_self_eq_false, List.lookup]
      rw [ih]
      by_cases h : P = a
      · simp [h]
      · have : (P == a) = false := by simpa using h
        simp [h, this]
    · have hne : (a != p) = true := by simpa using hap
      simp only [List.filter, hne, List.lookup]
      by_cases h : P = a
      · subst h; simp [hap]
      · have : (P == a) = false := by simpa using h
        simp only [this]; exact ih

/-- `uncSet` when the stored offset (if any) is not above the new one: other keys and an existing value are kept,
a missing key gets the new offset. -/
theorem uncSet_lookup (unc : List (Int × Int)) (p off P : Int) (hle : ∀ ex, unc.lookup p = some ex → ex ≤ off) :
    (uncSet unc p off).lookup P = match unc.lookup P with | some f => some f | none => if P = p then some off else none := by
  unfold uncSet
  cases hlk : unc.lookup p with
  | some ex =>
    have := hle ex hlk
    have hnlt : ¬ off < ex := by omega
    simp only [hnlt, if_false]
    cases hP : unc.lookup P with
    | some f => rfl
    | none =>
      by_cases h : P = p
      · subst h; rw [hlk] at hP; simp at hP
      · simp [h]
  | none => simp only; exact lookup_append_single unc p off P

/-! ### the invariant tying the aborted index to the log -/

structure RInv (pd : Part) : Prop where
  ord : Ord pd.batches
  le : ∀ b ∈ pd.batches, b.first + b.n ≤ pd.hwm
  ctl1 : ∀ b ∈ pd.batches, b.ctl = true → b.n = 1
  abSorted : pd.aborted.Pairwise (fun x y => x.last < y.last)
  abMarker : ∀ a ∈ pd.aborted, ∃ c ∈ pd.batches, c.ctl = true ∧ c.commit = false ∧ c.pid = a.pid ∧ c.first = a.last
  abLt : ∀ a ∈ pd.aborted, a.first < a.last
  abNoCtl : ∀ a ∈ pd.aborted, ∀ c ∈ pd.batches, c.ctl = true → c.pid = a.pid → a.first ≤ c.first → c.first < a.last → False
  abCover : ∀ c ∈ pd.batches, c.ctl = true → c.commit = false → ∀ m ∈ pd.batches, m.ctl = false → m.txn = true → m.pid = c.pid →
      m.first < c.first → (∀ c' ∈ pd.batches, c'.ctl = true → c'.pid = c.pid → m.first < c'.first → c'.first < c.first → False) →
      ∃ a ∈ pd.aborted, a.pid = c.pid ∧ a.last = c.first ∧ a.first ≤ m.first
  openTracked : ∀ m ∈ pd.batches, m.ctl = false → m.txn = true →
      (∀ c ∈ pd.batches, c.ctl = true → c.pid = m.pid → c.first ≤ m.first) → ∃ f, pd.unc.lookup m.pid = some f ∧ f ≤ m.first
  uncAfterCtl : ∀ P f, pd.unc.lookup P = some f → ∀ c ∈ pd.batches, c.ctl = true → c.pid = P → c.first < f
  uncLt : ∀ P f, pd.unc.lookup P = some f → f < pd.hwm

theorem rinv_init : RInv ({} : Part) :=
  ⟨⟨List.Pairwise.nil, by simp⟩, by simp, by simp, List.Pairwise.nil, by simp, by simp, by simp, by simp, by simp, by simp, by simp⟩

/-- a data batch appended by `pushBatch`. -/
theorem rinv_push (pd : Part) (b : Batch) (t : Bool) (hn : 1 ≤ b.n) (hctl : b.ctl = false) (htx : b.txn = t)
    (h : RInv pd) : RInv (pushBatch pd b t) := by
  have hb : (pushBatch pd b t).batches = pd.batches ++ [{ b with first := pd.hwm }] := rfl
  have hh : (pushBatch pd b t).hwm = pd.hwm + b.n := rfl
  have ha : (pushBatch pd b t).aborted = pd.aborted := rfl
  have hu : (pushBatch pd b t).unc = if t then uncSet pd.unc b.pid pd.hwm else pd.unc := rfl
  have hle' : ∀ ex, pd.unc.lookup b.pid = some ex → ex ≤ pd.hwm := fun ex hx => by have := h.uncLt _ _ hx; omega
  have hmem : ∀ x, x ∈ (pushBatch pd b t).batches ↔ x ∈ pd.batches ∨ x = { b with first := pd.hwm } := by
    intro x; rw [hb]; simp
  refine ⟨?_, ?_, ?_, ha ▸ h.abSorted, ?_, ha ▸ h.abLt, ?_, ?_, ?_, ?_, ?_⟩
  · rw [hb]
    refine ord_append.2 ⟨h.ord, ⟨List.pairwise_singleton _ _, by simpa using hn⟩, ?_⟩
    intro a ha' x hx
    have : x = { b with first := pd.hwm } := by simpa using hx
    subst this; exact h.le a ha'
  · intro x hx
    rcases (hmem x).1 hx with h1 | rfl
    · have := h.le x h1; rw [hh]; omega
    · rw [hh]; simp
  · intro x hx hc
    rcases (hmem x).1 hx with h1 | rfl
    · exact h.ctl1 x h1 hc
    · simp [hctl] at hc
  · intro a ha'
    rw [ha] at ha'
    obtain ⟨c, hc, h1⟩ := h.abMarker a ha'
    exact ⟨c, (hmem c).2 (Or.inl hc), h1⟩
  · intro a ha' c hc h1 h2 h3 h4
    rw [ha] at ha'
    rcases (hmem c).1 hc with hc' | rfl
    · exact h.abNoCtl a ha' c hc' h1 h2 h3 h4
    · simp [hctl] at h1
  · intro c hc h1 h2 m hm h3 h4 h5 h6 h7
    rw [ha]
    rcases (hmem c).1 hc with hc' | rfl
    · rcases (hmem m).1 hm with hm' | rfl
      · exact h.abCover c hc' h1 h2 m hm' h3 h4 h5 h6 (fun c' hc'' => h7 c' ((hmem c').2 (Or.inl hc'')))
      · have := h.le c hc'; have := h.ord.2 c hc'; simp at h6; omega
    · simp [hctl] at h1
  · intro m hm h1 h2 h3
    rw [hu]
    rcases (hmem m).1 hm with hm' | rfl
    · obtain ⟨f, hf, hfl⟩ := h.openTracked m hm' h1 h2 (fun c hc => h3 c ((hmem c).2 (Or.inl hc)))
      cases t with
      | false => exact ⟨f, hf, hfl⟩
      | true =>
        simp only [if_true]
        rw [uncSet_lookup _ _ _ _ hle', hf]
        exact ⟨f, rfl, hfl⟩
    · simp only at h2
      have : t = true := by rw [← htx]; exact h2
      subst this
      simp only [if_true]
      rw [uncSet_lookup _ _ _ _ hle']
      cases hl : pd.unc.lookup b.pid with
      | some f => exact ⟨f, rfl, by have := h.uncLt _ _ hl; simp; omega⟩
      | none => exact ⟨pd.hwm, by simp, by simp⟩
  · intro P f hf c hc h1 h2
    rw [hu] at hf
    have hc' : c ∈ pd.batches := by
      rcases (hmem c).1 hc with hc' | rfl
      · exact hc'
      · simp [hctl] at h1
    cases t with
    | false => exact h.uncAfterCtl P f hf c hc' h1 h2
    | true =>
      simp only [if_true] at hf
      rw [uncSet_lookup _ _ _ _ hle'] at hf
      cases hl : pd.unc.lookup P with
      | some g => rw [hl] at hf; simp at hf; subst hf; exact h.uncAfterCtl P g hl c hc' h1 h2
      | none =>
        rw [hl] at hf
        simp only at hf
        split at hf
        · simp at hf; subst hf
          have := h.le c hc'; have := h.ord.2 c hc'; omega
        · simp at hf
  · intro P f hf
    rw [hu] at hf; rw [hh]
    cases t with
    | false => have := h.uncLt P f hf; omega
    | true =>
      simp only [if_true] at hf
      rw [uncSet_lookup _ _ _ _ hle'] at hf
      cases hl : pd.unc.lookup P with
      | some g => rw [hl] at hf; simp at hf; subst hf; have := h.uncLt P g hl; omega
      | none =>
        rw [hl] at hf
        simp only at hf
        split at hf
        · simp at hf; omega
        · simp at hf

/-- what `endTxPart` does to each field. -/
theorem endTxPart_fields (pd : Part) (pid epoch : Int) (commit : Bool) :
    (endTxPart pd pid epoch commit).batches = pd.batches ++ [⟨pd.hwm, 1, pid, epoch, -1, true, true, commit, ctlBytes⟩] ∧
    (endTxPart pd pid epoch commit).hwm = pd.hwm + 1 ∧
    (endTxPart pd pid epoch commit).unc = pd.unc.filter (fun e => e.1 != pid) ∧
    (endTxPart pd pid epoch commit).logStart = pd.logStart ∧
    (endTxPart pd pid epoch commit).aborted = pd.aborted ++
      (match commit, pd.unc.lookup pid with | false, some f => [⟨pid, f, pd.hwm⟩] | _, _ => []) := by
  unfold endTxPart recalcLSO pushBatch
  cases commit <;> cases pd.unc.lookup pid <;> simp

theorem rinv_endTx (pd : Part) (pid epoch : Int) (commit : Bool) (h : RInv pd) : RInv (endTxPart pd pid epoch commit) := by
  obtain ⟨hb, hh, hu, _, ha⟩ := endTxPart_fields pd pid epoch commit
  have hmem : ∀ x, x ∈ (endTxPart pd pid epoch commit).batches ↔ x ∈ pd.batches ∨ x = ⟨pd.hwm, 1, pid, epoch, -1, true, true, commit, ctlBytes⟩ := by
    intro x; rw [hb]; simp
  have hamem : ∀ a, a ∈ (endTxPart pd pid epoch commit).aborted ↔
      a ∈ pd.aborted ∨ (commit = false ∧ ∃ f, pd.unc.lookup pid = some f ∧ a = ⟨pid, f, pd.hwm⟩) := by
    intro a; rw [ha]
    cases commit <;> cases hl : pd.unc.lookup pid <;> simp
  have hablast : ∀ a ∈ pd.aborted, a.last < pd.hwm := by
    intro a ha'
    obtain ⟨c, hc, _, _, _, h4⟩ := h.abMarker a ha'
    have := h.le c hc; have := h.ord.2 c hc; omega
  refine ⟨?_, ?_, ?_, ?_, ?_, ?_, ?_, ?_, ?_, ?_, ?_⟩
  · rw [hb]
    refine ord_append.2 ⟨h.ord, ⟨List.pairwise_singleton _ _, by simp⟩, ?_⟩
    intro a ha' x hx
    have : x = ⟨pd.hwm, 1, pid, epoch, -1, true, true, commit, ctlBytes⟩ := by simpa using hx
    subst this; exact h.le a ha'
  · intro x hx
    rcases (hmem x).1 hx with h1 | rfl
    · have := h.le x h1; rw [hh]; omega
    · rw [hh]; simp
  · intro x hx hc
    rcases (hmem x).1 hx with h1 | rfl
    · exact h.ctl1 x h1 hc
    · rfl
  · rw [ha]
    cases commit <;> cases hl : pd.unc.lookup pid <;> simp only [List.append_nil] <;> try exact h.abSorted
    rw [List.pairwise_append]
    refine ⟨h.abSorted, List.pairwise_singleton _ _, ?_⟩
    intro a ha' x hx
    have hxl : x.last = pd.hwm := by
      have := List.mem_singleton.1 hx
      rw [this]
    rw [hxl]; exact hablast a ha'
  · intro a ha'
    rcases (hamem a).1 ha' with h1 | ⟨hc, f, hf, rfl⟩
    · obtain ⟨c, hc, h2⟩ := h.abMarker a h1
      exact ⟨c, (hmem c).2 (Or.inl hc), h2⟩
    · exact ⟨_, (hmem _).2 (Or.inr rfl), rfl, hc, rfl, rfl⟩
  · intro a ha'
    rcases (hamem a).1 ha' with h1 | ⟨hc, f, hf, rfl⟩
    · exact h.abLt a h1
    · exact h.uncLt _ _ hf
  · intro a ha' c hc h1 h2 h3 h4
    rcases (hamem a).1 ha' with ha1 | ⟨hcm, f, hf, rfl⟩
    · rcases (hmem c).1 hc with hc' | rfl
      · exact h.abNoCtl a ha1 c hc' h1 h2 h3 h4
      · have := hablast a ha1; simp at h4; omega
    · rcases (hmem c).1 hc with hc' | rfl
      · have := h.uncAfterCtl _ _ hf c hc' h1 h2; simp at h3; omega
      · simp at h4
  · intro c hc h1 h2 m hm h3 h4 h5 h6 h7
    have hm' : m ∈ pd.batches := by
      rcases (hmem m).1 hm with hm' | rfl
      · exact hm'
      · simp at h3
    rcases (hmem c).1 hc with hc' | rfl
    · obtain ⟨a, ha', h8⟩ := h.abCover c hc' h1 h2 m hm' h3 h4 h5 h6 (fun c' hc'' => h7 c' ((hmem c').2 (Or.inl hc'')))
      exact ⟨a, (hamem a).2 (Or.inl ha'), h8⟩
    · simp only at h2 h5 h6 h7
      obtain ⟨f, hf, hfl⟩ := h.openTracked m hm' h3 h4 (by
        intro c' hc' h8 h9
        by_cases hlt : m.first < c'.first
        · exfalso
          have := h.le c' hc'; have := h.ord.2 c' hc'
          exact h7 c' ((hmem c').2 (Or.inl hc')) h8 (by rw [h9, h5]) hlt (by omega)
        · omega)
      rw [h5] at hf
      exact ⟨⟨pid, f, pd.hwm⟩, (hamem _).2 (Or.inr ⟨h2, f, hf, rfl⟩), rfl, rfl, hfl⟩
  · intro m hm h1 h2 h3
    have hm' : m ∈ pd.batches := by
      rcases (hmem m).1 hm with hm' | rfl
      · exact hm'
      · simp at h1
    rw [hu, lookup_filter_ne]
    by_cases hp : m.pid = pid
    · exfalso
      have := h3 ⟨pd.hwm, 1, pid, epoch, -1, true, true, commit, ctlBytes⟩ ((hmem _).2 (Or.inr rfl)) rfl hp.symm
      have := h.le m hm'; have := h.ord.2 m hm'
      simp at *; omega
    · simp only [hp, if_false]
      exact h.openTracked m hm' h1 h2 (fun c hc => h3 c ((hmem c).2 (Or.inl hc)))
  · intro P f hf c hc h1 h2
    rw [hu, lookup_filter_ne] at hf
    by_cases hp : P = pid
    · simp [hp] at hf
    · simp only [hp, if_false] at hf
      rcases (hmem c).1 hc with hc' | rfl
      · exact h.uncAfterCtl P f hf c hc' h1 h2
      · exact absurd h2.symm hp
  · intro P f hf
    rw [hu, lookup_filter_ne] at hf
    by_cases hp : P = pid
    · simp [hp] at hf
    · simp only [hp, if_false] at hf
      have := h.uncLt P f hf; rw [hh]; omega

/-! trimming -/

theorem dropWhile_kept_ge (ls : Int) (l : List Batch) (h : Ord l) :
    ∀ c ∈ l.dropWhile (fun m => decide (m.first + m.n - 1 < ls)), ¬ (c.first + c.n - 1 < ls) := by
  induction l with
  | nil => simp
  | cons x r ih =>
    obtain ⟨nx, hr, hxr⟩ := ord_cons.1 h
    simp only [List.dropWhile]
    split
    · exact ih hr
    · rename_i hx
      intro c hc
      rcases List.mem_cons.1 hc with rfl | hc'
      · simpa using hx
      · have := hxr c hc'; have := hr.2 c hc'
        have hx' : ¬ (x.first + x.n - 1 < ls) := by simpa using hx
        omega

theorem dropWhile_sorted_ge (ls : Int) (l : List Aborted) (h : l.Pairwise (fun x y => x.last < y.last)) :
    ∀ a ∈ l.dropWhile (fun a => decide (a.last < ls)), ¬ (a.last < ls) := by
  induction l with
  | nil => simp
  | cons x r ih =>
    rw [List.pairwise_cons] at h
    simp only [List.dropWhile]
    split
    · exact ih h.2
    · rename_i hx
      intro a ha
      rcases List.mem_cons.1 ha with rfl | ha'
      · simpa using hx
      · have := h.1 a ha'
        have hx' : ¬ (x.last < ls) := by simpa using hx
        omega

/-- an element of the log that `dropWhile` removed lies before every kept one. -/
theorem dropped_before (p : Batch → Bool) (l : List Batch) (h : Ord l) (d : Batch) (hd : d ∈ l) (hnd : d ∉ l.dropWhile p) :
    ∀ k ∈ l.dropWhile p, d.first + d.n ≤ k.first := by
  have hsplit : l.takeWhile p ++ l.dropWhile p = l := List.takeWhile_append_dropWhile
  have hd' : d ∈ l.takeWhile p := by
    rw [← hsplit] at hd
    rcases List.mem_append.1 hd with h1 | h1
    · exact h1
    · exact absurd h1 hnd
  rw [← hsplit] at h
  exact fun k hk => (ord_append.1 h).2.2 d hd' k hk

theorem rinv_trim (pd : Part) (ls : Int) (h : RInv pd) : RInv (trimLeft { pd with logStart := ls }) := by
  have hb : (trimLeft { pd with logStart := ls }).batches = pd.batches.dropWhile (fun m => decide (m.first + m.n - 1 < ls)) := rfl
  have ha : (trimLeft { pd with logStart := ls }).aborted = pd.aborted.dropWhile (fun a => decide (a.last < ls)) := rfl
  have hsubB : ∀ x, x ∈ pd.batches.dropWhile (fun m => decide (m.first + m.n - 1 < ls)) → x ∈ pd.batches :=
    fun x hx => (List.dropWhile_sublist _).subset hx
  have hsubA : ∀ x, x ∈ pd.aborted.dropWhile (fun a => decide (a.last < ls)) → x ∈ pd.aborted :=
    fun x hx => (List.dropWhile_sublist _).subset hx
  have hkeepA : ∀ a ∈ pd.aborted, ¬ (a.last < ls) → a ∈ pd.aborted.dropWhile (fun a => decide (a.last < ls)) :=
    fun a ha' hge => mem_dropWhile_of_not _ _ a ha' (by simpa using hge)
  have hbefore := dropped_before (fun m => decide (m.first + m.n - 1 < ls)) pd.batches h.ord
  refine ⟨?_, ?_, ?_, ?_, ?_, ?_, ?_, ?_, ?_, ?_, ?_⟩
  · rw [hb]; exact ord_sublist_drop _ h.ord
  · intro x hx; rw [hb] at hx; exact h.le x (hsubB x hx)
  · intro x hx; rw [hb] at hx; exact h.ctl1 x (hsubB x hx)
  · rw [ha]; exact h.abSorted.sublist (List.dropWhile_sublist _)
  · intro a ha'
    rw [ha] at ha'
    have hge := dropWhile_sorted_ge ls pd.aborted h.abSorted a ha'
    obtain ⟨c, hc, h1, h2, h3, h4⟩ := h.abMarker a (hsubA a ha')
    refine ⟨c, ?_, h1, h2, h3, h4⟩
    rw [hb]
    apply mem_dropWhile_of_not _ _ c hc
    have := h.ctl1 c hc h1
    simp; omega
  · intro a ha'; rw [ha] at ha'; exact h.abLt a (hsubA a ha')
  · intro a ha' c hc
    rw [ha] at ha'; rw [hb] at hc
    exact h.abNoCtl a (hsubA a ha') c (hsubB c hc)
  · intro c hc h1 h2 m hm h3 h4 h5 h6 h7
    rw [hb] at hc hm
    obtain ⟨a, ha', h8, h9, h10⟩ := h.abCover c (hsubB c hc) h1 h2 m (hsubB m hm) h3 h4 h5 h6 (by
      intro c' hc' h11 h12 h13 h14
      by_cases hk : c' ∈ pd.batches.dropWhile (fun m => decide (m.first + m.n - 1 < ls))
      · exact h7 c' (by rw [hb]; exact hk) h11 h12 h13 h14
      · have := hbefore c' hc' hk m hm; have := h.ord.2 c' hc'; omega)
    refine ⟨a, ?_, h8, h9, h10⟩
    rw [ha]
    apply hkeepA a ha'
    have := dropWhile_kept_ge ls pd.batches h.ord c hc
    have := h.ctl1 c (hsubB c hc) h1
    omega
  · intro m hm h1 h2 h3
    rw [hb] at hm
    exact h.openTracked m (hsubB m hm) h1 h2 (by
      intro c hc h4 h5
      by_cases hk : c ∈ pd.batches.dropWhile (fun m => decide (m.first + m.n - 1 < ls))
      · exact h3 c (by rw [hb]; exact hk) h4 h5
      · have := hbefore c hc hk m hm; have := h.ord.2 c hc; omega)
  · intro P f hf c hc
    rw [hb] at hc
    exact h.uncAfterCtl P f hf c (hsubB c hc)
  · exact h.uncLt

theorem rinv_delete (pd : Part) (off : Int) (h : RInv pd) : RInv (deleteRecords pd off).1 := by
  by_cases hcond : (decide ((if off == -1 then pd.hwm else off) < pd.logStart) || decide ((if off == -1 then pd.hwm else off) > pd.hwm)) = true
  · have e : (deleteRecords pd off).1 = pd := by simp only [deleteRecords, hcond, if_true]
    rw [e]; exact h
  · have e : (deleteRecords pd off).1 = trimLeft { pd with logStart := if off == -1 then pd.hwm else off } := by
      simp only [deleteRecords, hcond]; rfl
    rw [e]; exact rinv_trim pd _ h

/-! ### the fetch theorem for one partition -/

theorem statusIn_split (B : List Batch) (P : Int) :
    (∀ c ∈ B, c.ctl = true → c.pid = P → False) ∨
    ∃ B1 c B2, B = B1 ++ c :: B2 ∧ c.ctl = true ∧ c.pid = P ∧ (∀ x ∈ B1, x.ctl = true → x.pid = P → False) ∧
      statusIn B P = if c.commit then .committed else .aborted := by
  induction B with
  | nil => left; simp
  | cons x r ih =>
    by_cases hx : (x.ctl && x.pid == P) = true
    · right
      have hx' : x.ctl = true ∧ x.pid = P := by simpa using hx
      exact ⟨[], x, r, rfl, hx'.1, hx'.2, by simp, by simp [statusIn, List.find?, hx]⟩
    · have hxf : (x.ctl && x.pid == P) = false := by simpa using hx
      have hx' : x.ctl = true → x.pid = P → False := by
        intro h1 h2; simp [h1, h2] at hxf
      rcases ih with h | ⟨B1, c, B2, hB, h1, h2, h3, h4⟩
      · left
        intro c hc
        rcases List.mem_cons.1 hc with rfl | hc'
        · exact hx'
        · exact h c hc'
      · right
        refine ⟨x :: B1, c, B2, by simp [hB], h1, h2, ?_, ?_⟩
        · intro y hy
          rcases List.mem_cons.1 hy with rfl | hy'
          · exact hx'
          · exact h3 y hy'
        · rw [← h4]; simp [statusIn, List.find?, hxf]

theorem searchOffset_found (pd : Part) (o : Int) (bs : List Batch) (h : searchOffset pd o = .found bs) :
    bs = pd.batches.dropWhile (fun m => decide (m.first + m.n ≤ o)) := by
  unfold searchOffset at h
  split at h
  · simp at h
  · split at h
    · split at h <;> simp at h
    · split at h
      · simp at h
      · simp only [Search.found.injEq] at h; exact h.symm

theorem dropWhile_end_gt (o : Int) (l : List Batch) (h : Ord l) :
    ∀ c ∈ l.dropWhile (fun m => decide (m.first + m.n ≤ o)), o < c.first + c.n := by
  induction l with
  | nil => simp
  | cons x r ih =>
    obtain ⟨nx, hr, hxr⟩ := ord_cons.1 h
    simp only [List.dropWhile]
    split
    · exact ih hr
    · rename_i hx
      have hx' : ¬ (x.first + x.n ≤ o) := by simpa using hx
      intro c hc
      rcases List.mem_cons.1 hc with rfl | hc'
      · omega
      · have := hxr c hc'; have := hr.2 c hc'; omega

theorem getLast_ge (out : List Batch) (l : Batch) (h : Ord out) (hl : out.getLast? = some l) :
    ∀ m ∈ out, m.first + m.n ≤ l.first + l.n := by
  obtain ⟨ys, rfl⟩ := List.getLast?_eq_some_iff.1 hl
  intro m hm
  rcases List.mem_append.1 hm with h1 | h1
  · have := (ord_append.1 h).2.2 m h1 l (by simp)
    have := h.2 l (by simp); omega
  · have : m = l := by simpa using h1
    subst this; omega

theorem mem_abortedFor (aborted : List Aborted) (hs : aborted.Pairwise (fun x y => x.last < y.last)) (o : Int)
    (out : List Batch) (l : Batch) (hl : out.getLast? = some l) (e : Int × Int) :
    e ∈ abortedFor aborted o out ↔ ∃ a ∈ aborted, ¬ (a.last < o) ∧ a.first < l.first + l.n ∧ e = (a.pid, a.first) := by
  unfold abortedFor
  rw [hl]
  simp only [List.mem_map, List.mem_filter, decide_eq_true_eq]
  constructor
  · rintro ⟨a, ⟨ha, hf⟩, rfl⟩
    exact ⟨a, (List.dropWhile_sublist _).subset ha, dropWhile_sorted_ge o aborted hs a ha, hf, rfl⟩
  · rintro ⟨a, ha, h1, h2, rfl⟩
    exact ⟨a, ⟨mem_dropWhile_of_not _ _ a ha (by simpa using h1), h2⟩, rfl⟩

/-- **read_committed exactness for one partition satisfying the invariants**: for every fetch offset and
every byte limit, the consumer's view of what the walk returned is the committed data of that range. -/
theorem rc_exact_part (pd : Part) (hP : PInv pd) (hR : RInv pd) (o mb pm nb : Int) (ad : Nat) (bs : List Batch)
    (h : searchOffset pd o = .found bs) :
    clientView (abortedFor pd.aborted o (walk true pd.lso mb pm bs 0 nb ad).1) (walk true pd.lso mb pm bs 0 nb ad).1
      = committedData (walk true pd.lso mb pm bs 0 nb ad).1 (bs.drop (walk true pd.lso mb pm bs 0 nb ad).1.length) := by
  obtain ⟨rest, hbs⟩ := walk_prefix true pd.lso mb pm bs 0 nb ad
  have hlso := walk_below_lso pd.lso mb pm bs 0 nb ad
  generalize (walk true pd.lso mb pm bs 0 nb ad).1 = out at hbs hlso ⊢
  have hdrop : bs.drop out.length = rest := by rw [hbs]; exact List.drop_left' rfl
  rw [hdrop]
  have hbs' := searchOffset_found pd o bs h
  have hL : pd.batches = pd.batches.takeWhile (fun m => decide (m.first + m.n ≤ o)) ++ (out ++ rest) := by
    rw [← hbs, hbs']; exact List.takeWhile_append_dropWhile.symm
  have hpreLe : ∀ x ∈ pd.batches.takeWhile (fun m => decide (m.first + m.n ≤ o)), x.first + x.n ≤ o := by
    intro x hx; simpa using mem_takeWhile_imp2 _ _ x hx
  generalize pd.batches.takeWhile (fun m => decide (m.first + m.n ≤ o)) = pre at hL hpreLe
  have hgt : ∀ x ∈ out ++ rest, o < x.first + x.n := by
    rw [← hbs, hbs']; exact dropWhile_end_gt o pd.batches hR.ord
  have hOrdL : Ord (pre ++ (out ++ rest)) := hL ▸ hR.ord
  have hOrdOut : Ord out := (ord_append.1 (ord_append.1 hOrdL).2.1).1
  unfold clientView
  apply clientFilter_spec _ rest out [] _ [] (by simpa using hOrdOut) (cstate_init _)
  intro p m td hsplit hc ht
  have hsplit' : out = p ++ m :: td := by simpa using hsplit
  -- the log around m
  have hL2 : pd.batches = (pre ++ p) ++ m :: (td ++ rest) := by rw [hL, hsplit']; simp
  have hO2 : Ord ((pre ++ p) ++ m :: (td ++ rest)) := hL2 ▸ hR.ord
  obtain ⟨hA, hB, hmn⟩ := ord_lt_of_split hO2
  have hmL : m ∈ pd.batches := by rw [hL2]; simp
  have hmout : m ∈ out := by rw [hsplit']; simp
  have hmlso : m.first < pd.lso := hlso m hmout
  have hmgt : o < m.first + m.n := hgt m (by simp [hmout])
  have hpA : ∀ x ∈ p, x ∈ pd.batches := fun x hx => by rw [hL2]; simp [hx]
  have hpgt : ∀ x ∈ p, o < x.first + x.n := fun x hx => hgt x (by rw [hsplit']; simp [hx])
  have hpm : ∀ x ∈ p, x.first + x.n ≤ m.first := fun x hx => hA x (by simp [hx])
  -- the last batch of the walk
  obtain ⟨l, hl⟩ : ∃ l, out.getLast? = some l := by
    cases hg : out.getLast? with
    | some l => exact ⟨l, rfl⟩
    | none => rw [List.getLast?_eq_none_iff] at hg; rw [hg] at hmout; simp at hmout
  have hU := getLast_ge out l hOrdOut hl m hmout
  have hab := mem_abortedFor pd.aborted hR.abSorted o out l hl
  -- where an abort marker named by a listed entry can be
  have hmem3 : ∀ x, x ∈ pd.batches → x ∈ pre ++ p ∨ x = m ∨ x ∈ td ++ rest := by
    intro x hx; rw [hL2] at hx
    rcases List.mem_append.1 hx with h1 | h1
    · exact Or.inl h1
    · rcases List.mem_cons.1 h1 with h2 | h2
      · exact Or.inr (Or.inl h2)
      · exact Or.inr (Or.inr h2)
  rcases statusIn_split (td ++ rest) m.pid with hopen | ⟨B1, c, B2, hBs, hcc, hcp, hB1, hst⟩
  · -- no marker of the producer after m: m would be open, hence at or beyond the LSO
    exfalso
    obtain ⟨f, hf, hfl⟩ := hR.openTracked m hmL hc ht (by
      intro c hcL h1 h2
      rcases hmem3 c hcL with h3 | rfl | h3
      · have := hA c h3; have := hR.ord.2 c hcL; omega
      · omega
      · exact absurd (hopen c h3 h1 h2) id)
    have := minUnc_le_mem pd.hwm pd.unc (m.pid, f) (lookup_mem _ _ _ hf)
    rw [← hP.lso] at this
    simp at this; omega
  · rw [hst]
    have hcB : c ∈ td ++ rest := by rw [hBs]; simp
    have hcL : c ∈ pd.batches := by rw [hL2]; simp [hcB]
    have hmc : m.first + m.n ≤ c.first := hB c hcB
    have hOB : Ord (B1 ++ c :: B2) := hBs ▸ (ord_cons.1 (ord_append.1 hO2).2.1).2.1
    obtain ⟨hB1c, hcB2, _⟩ := ord_lt_of_split hOB
    -- a listed entry whose producer the consumer still holds as aborted at m names the marker c
    have hnames : ∀ a ∈ pd.aborted, a.pid = m.pid → ¬ (a.last < o) → a.first ≤ lastOf m →
        (∀ c2 ∈ p, c2.ctl = true → c2.commit = false → c2.pid = m.pid → lastOf c2 < a.first) → c.commit = false := by
      intro a ha hap hao hafm hmk
      obtain ⟨ca, hcaL, h1, h2, h3, h4⟩ := hR.abMarker a ha
      have hlt := hR.abLt a ha
      rcases hmem3 ca hcaL with h5 | rfl | h5
      · exfalso
        rcases List.mem_append.1 h5 with h6 | h6
        · -- in the part before the fetch offset: its end is ≤ o
          have := hpreLe ca h6
          have := hR.ctl1 ca hcaL h1
          omega
        · have hx1 := hmk ca h6 h1 h2 (by rw [h3, hap])
          have hx2 := hR.ctl1 ca hcaL h1
          simp only [lastOf] at hx1; omega
      · exact absurd (h1.symm.trans hc) (by simp)
      · rw [hBs] at h5
        rcases List.mem_append.1 h5 with h6 | h6
        · exact absurd (hB1 ca h6 h1 (by rw [h3, hap])) id
        · rcases List.mem_cons.1 h6 with h7 | h7
          · rw [← h7]; exact h2
          · exfalso
            have := hcB2 ca h7
            have := hR.ord.2 c hcL
            simp only [lastOf] at hafm
            exact hR.abNoCtl a ha c hcL hcc (by rw [hcp, hap]) (by omega) (by omega)
    constructor
    · rintro ⟨e, he, hep, ⟨b, hb, hbl⟩, hmk⟩
      obtain ⟨a, ha, hao, _, rfl⟩ := (hab e).1 he
      have hbm : lastOf b ≤ lastOf m := by
        rcases List.mem_append.1 hb with h1 | h1
        · have := hpm b h1; have := hR.ord.2 b (hpA b h1); simp only [lastOf]; omega
        · have : b = m := by simpa using h1
          subst this; omega
      have := hnames a ha hep hao (by simp only at hbl; omega) (fun c2 h1 h2 h3 h4 => by simpa using hmk c2 h1 h2 h3 h4)
      simp [this]
    · intro hne
      have hcm : c.commit = false := by
        cases hcc' : c.commit with
        | false => rfl
        | true => simp [hcc'] at hne
      obtain ⟨a, ha, hap, hal, haf⟩ := hR.abCover c hcL hcc hcm m hmL hc ht hcp.symm (by omega) (by
        intro c' hc'L h1 h2 h3 h4
        rcases hmem3 c' hc'L with h5 | rfl | h5
        · have := hA c' h5; have := hR.ord.2 c' hc'L; omega
        · omega
        · rw [hBs] at h5
          rcases List.mem_append.1 h5 with h6 | h6
          · exact hB1 c' h6 h1 (by rw [h2, hcp])
          · rcases List.mem_cons.1 h6 with h7 | h7
            · rw [h7] at h4; omega
            · have := hcB2 c' h7; have := hR.ord.2 c hcL; omega)
      refine ⟨(a.pid, a.first), (hab _).2 ⟨a, ha, by omega, by omega, rfl⟩, by simp [hap, hcp], ⟨m, by simp, by simp only [lastOf]; omega⟩, ?_⟩
      intro c2 hc2 h1 h2 h3
      have hc2L := hpA c2 hc2
      have := hpm c2 hc2
      have := hR.ctl1 c2 hc2L h1
      simp only [lastOf]
      by_cases hle : a.first ≤ c2.first
      · exact absurd (hR.abNoCtl a ha c2 hc2L h1 (by rw [h3, hap, hcp]) hle (by omega)) id
      · omega

end Proof.C32
