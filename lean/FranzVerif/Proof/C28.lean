import FranzVerif.Model.C28
import FranzVerif.Spec.C28
/-! C28 — helper lemmas (core Lean only): bridge from `BitVec 32` operations of the Go transcription
to the `Nat`-with-explicit-`mod` operations of the Java transcription, and the loop correspondence. -/
namespace Proof.C28
open Model.C28 Spec.C28

theorem u8lt (b : UInt8) : b.toNat < 256 := by
  have := UInt8.toNat_lt b; omega

/-- Java's `data[i] & 0xff` on the signed byte is the octet. -/
theorem byte_eq (b : UInt8) : and255 (jbyte b) = b.toNat := by
  have := u8lt b
  unfold and255 jbyte
  split <;> omega

theorem toNat_u32 (b : UInt8) : (u32 b).toNat = b.toNat := by
  have := u8lt b
  unfold u32; rw [BitVec.toNat_ofNat]; omega

theorem toNat_mC : mC.toNat = jm := by rfl
theorem toNat_seedC : seedC.toNat = jseed := by rfl

theorem mul_mC (x : BitVec 32) : (x * mC).toNat = jmul x.toNat jm := by
  rw [BitVec.toNat_mul, toNat_mC]; rfl

theorem xor_shr (x : BitVec 32) (r : Nat) : (x ^^^ (x >>> r)).toNat = jxor x.toNat (jushr x.toNat r) := by
  rw [BitVec.toNat_xor, BitVec.toNat_ushiftRight, Nat.shiftRight_eq_div_pow]; rfl

theorem xor_eq (x y : BitVec 32) : (x ^^^ y).toNat = jxor x.toNat y.toNat := by
  rw [BitVec.toNat_xor]; rfl

theorem mixK_eq (k : BitVec 32) :
    (mixK k).toNat = jmul (jxor (jmul k.toNat jm) (jushr (jmul k.toNat jm) 24)) jm := by
  unfold mixK
  rw [mul_mC, xor_shr, mul_mC]

theorem finGo_eq (h : BitVec 32) :
    (finGo h).toNat = jxor (jmul (jxor h.toNat (jushr h.toNat 13)) jm) (jushr (jmul (jxor h.toNat (jushr h.toNat 13)) jm) 15) := by
  unfold finGo
  rw [xor_shr, mul_mC, xor_shr]

theorem shl_u32 (b : UInt8) (k : Nat) : (u32 b <<< k).toNat = jshl b.toNat k := by
  rw [BitVec.toNat_shiftLeft, toNat_u32, Nat.shiftLeft_eq]; rfl

theorem word_eq (b0 b1 b2 b3 : UInt8) :
    ((u32 b3 <<< 24) + (u32 b2 <<< 16) + (u32 b1 <<< 8) + u32 b0).toNat =
    jadd (jadd (jadd b0.toNat (jshl b1.toNat 8)) (jshl b2.toNat 16)) (jshl b3.toNat 24) := by
  have h0 := u8lt b0; have h1 := u8lt b1; have h2 := u8lt b2; have h3 := u8lt b3
  rw [BitVec.toNat_add, BitVec.toNat_add, BitVec.toNat_add, shl_u32, shl_u32, shl_u32, toNat_u32]
  unfold jadd jshl
  omega

/-- reading the array at an index inside a known suffix -/
theorem byteAt_drop (data rest : List UInt8) (o j : Nat) (b : UInt8) (hd : data.drop o = rest)
    (hj : rest[j]? = some b) : byteAt data (o + j) = b.toNat := by
  unfold byteAt
  have : data[o + j]? = some b := by
    rw [← hj, ← hd, List.getElem?_drop]
  rw [List.getD_eq_getElem?_getD, this]
  exact byte_eq b

theorem stepJ_eq (data : List UInt8) (h : BitVec 32) (i : Nat) (b0 b1 b2 b3 : UInt8) (rest : List UInt8)
    (hd : data.drop (4 * i) = b0 :: b1 :: b2 :: b3 :: rest) :
    ((h * mC) ^^^ mixK ((u32 b3 <<< 24) + (u32 b2 <<< 16) + (u32 b1 <<< 8) + u32 b0)).toNat = stepJ data h.toNat i := by
  have e0 : byteAt data (i * 4 + 0) = b0.toNat := by
    have := byteAt_drop data _ (4 * i) 0 b0 hd rfl
    rwa [Nat.mul_comm] at this
  have e1 : byteAt data (i * 4 + 1) = b1.toNat := by
    have := byteAt_drop data _ (4 * i) 1 b1 hd rfl
    rwa [Nat.mul_comm] at this
  have e2 : byteAt data (i * 4 + 2) = b2.toNat := by
    have := byteAt_drop data _ (4 * i) 2 b2 hd rfl
    rwa [Nat.mul_comm] at this
  have e3 : byteAt data (i * 4 + 3) = b3.toNat := by
    have := byteAt_drop data _ (4 * i) 3 b3 hd rfl
    rwa [Nat.mul_comm] at this
  unfold stepJ
  dsimp only
  rw [e0, e1, e2, e3, xor_eq, mul_mC, mixK_eq, word_eq]

theorem loop_base (data : List UInt8) (h : BitVec 32) (rest : List UInt8) (i : Nat)
    (hd : data.drop (4 * i) = rest) (hl : rest.length / 4 = 0) :
    (h, rest).1.toNat = (List.range' i (rest.length / 4)).foldl (stepJ data) h.toNat ∧
    (h, rest).2 = data.drop (4 * (i + rest.length / 4)) := by
  rw [hl, List.range'_zero, List.foldl_nil, Nat.add_zero, hd]
  exact ⟨rfl, rfl⟩

theorem loop_eq (data : List UInt8) : ∀ (h : BitVec 32) (rest : List UInt8) (i : Nat),
    data.drop (4 * i) = rest →
    (loopGo h rest).1.toNat = (List.range' i (rest.length / 4)).foldl (stepJ data) h.toNat ∧
    (loopGo h rest).2 = data.drop (4 * (i + rest.length / 4)) := by
  intro h rest
  induction h, rest using loopGo.induct with
  | case1 h b0 b1 b2 b3 rest k ih =>
    intro i hd
    have hlen : (b0 :: b1 :: b2 :: b3 :: rest).length / 4 = rest.length / 4 + 1 := by
      simp only [List.length_cons]; omega
    have hd' : data.drop (4 * (i + 1)) = rest := by
      have : 4 * (i + 1) = 4 * i + 4 := by omega
      rw [this, ← List.drop_drop, hd]; rfl
    obtain ⟨ih1, ih2⟩ := ih (i + 1) hd'
    rw [hlen]
    constructor
    · rw [loopGo, ih1, List.range'_succ, List.foldl_cons, stepJ_eq data h i b0 b1 b2 b3 rest hd]
    · rw [loopGo, ih2]
      congr 1; omega
  | case2 h => intro i hd; rw [loopGo]; exact loop_base data h _ i hd (by simp)
  | case3 h a => intro i hd; rw [loopGo]; exact loop_base data h _ i hd (by simp)
  | case4 h a b => intro i hd; rw [loopGo]; exact loop_base data h _ i hd (by simp)
  | case5 h a b c => intro i hd; rw [loopGo]; exact loop_base data h _ i hd (by simp)

theorem h0_eq (n : Nat) : (seedC ^^^ BitVec.ofNat 32 n).toNat = jxor jseed (n % 4294967296) := by
  rw [xor_eq, toNat_seedC, BitVec.toNat_ofNat]

theorem murmur2_toNat (data : List UInt8) : (murmur2 data).toNat = murmur2U data := by
  have hl := loop_eq data (seedC ^^^ BitVec.ofNat 32 data.length) data 0 rfl
  obtain ⟨h1, h2⟩ := hl
  rw [Nat.zero_add] at h2
  rw [← List.range_eq_range', h0_eq] at h1
  have hlen : (data.drop (4 * (data.length / 4))).length = data.length % 4 := by
    rw [List.length_drop]; omega
  have hbase : data.length - data.length % 4 = 4 * (data.length / 4) := by omega
  unfold murmur2 murmur2U loopJ
  dsimp only
  rw [finGo_eq, h2, hbase, ← h1]
  generalize (loopGo (seedC ^^^ BitVec.ofNat 32 data.length) data).1 = h at *
  generalize htl : data.drop (4 * (data.length / 4)) = tl at *
  match tl, hlen with
  | [], hlen =>
    rw [← hlen]
    simp only [List.length_nil]
    rw [tailGo]
  | [a], hlen =>
    rw [← hlen]
    simp only [List.length_cons, List.length_nil, Nat.zero_add]
    have e0 := byteAt_drop data _ (4 * (data.length / 4)) 0 a htl rfl
    rw [Nat.add_zero] at e0
    rw [tailGo, mul_mC, xor_eq, toNat_u32, e0]
  | [a, b], hlen =>
    rw [← hlen]
    simp only [List.length_cons, List.length_nil, Nat.zero_add, Nat.reduceAdd]
    have e0 := byteAt_drop data _ (4 * (data.length / 4)) 0 a htl rfl
    have e1 := byteAt_drop data _ (4 * (data.length / 4)) 1 b htl rfl
    rw [Nat.add_zero] at e0
    rw [tailGo, mul_mC, xor_eq, xor_eq, toNat_u32, shl_u32, e0, e1]
  | [a, b, c], hlen =>
    rw [← hlen]
    simp only [List.length_cons, List.length_nil, Nat.zero_add, Nat.reduceAdd]
    have e0 := byteAt_drop data _ (4 * (data.length / 4)) 0 a htl rfl
    have e1 := byteAt_drop data _ (4 * (data.length / 4)) 1 b htl rfl
    have e2 := byteAt_drop data _ (4 * (data.length / 4)) 2 c htl rfl
    rw [Nat.add_zero] at e0
    rw [tailGo, mul_mC, xor_eq, xor_eq, xor_eq, toNat_u32, shl_u32, shl_u32, e0, e1, e2]
  | _ :: _ :: _ :: _ :: _, hlen => simp at hlen; omega

theorem and_mask (h : BitVec 32) : (h &&& 0x7fffffff#32).toNat = h.toNat % 2147483648 := by
  rw [BitVec.toNat_and]
  exact Nat.and_two_pow_sub_one_eq_mod h.toNat 31

theorem kafkaHasher_eq (h : BitVec 32) (n : Int) (hn : 1 ≤ n) :
    kafkaHasher h n = some (kafkaOfHash h.toNat n) := by
  have hlt := h.isLt
  unfold kafkaHasher kafkaOfHash toPositive toInt32
  rw [if_neg (by omega), and_mask, Int.tmod_eq_emod_of_nonneg (by omega)]
  congr 2
  split <;> omega

theorem saramaHasher_eq (h : BitVec 32) (n : Int) (hn : 1 ≤ n) :
    saramaHasher h n = some (unsignedPartition h.toNat n) := by
  unfold saramaHasher unsignedPartition
  rw [if_neg (by omega)]
  dsimp only
  rw [Int.tmod_eq_emod_of_nonneg (by omega)]
  have := Int.emod_nonneg (h.toNat : Int) (show n ≠ 0 by omega)
  rw [if_neg (by omega)]

theorem i32_id (x : Int) (h1 : -2147483648 ≤ x) (h2 : x < 2147483648) : i32 x = x := by
  unfold i32; omega

theorem i32_u (u : Nat) (h : u < 4294967296) : i32 (u : Int) = toInt32 u := by
  unfold i32 toInt32; split <;> omega

theorem saramaCompatHasher_eq (h : BitVec 32) (n : Int) (hn : 1 ≤ n) (hn2 : n ≤ 2147483647) :
    saramaCompatHasher h n = some (saramaPartition h.toNat n) := by
  have hlt := h.isLt
  unfold saramaCompatHasher saramaPartition
  dsimp only
  rw [i32_id n (by omega) (by omega), i32_u _ hlt, if_neg (by omega)]
  have hs1 : -2147483648 ≤ toInt32 h.toNat := by unfold toInt32; split <;> omega
  have hs2 : toInt32 h.toNat < 2147483648 := by unfold toInt32; split <;> omega
  generalize toInt32 h.toNat = s at *
  by_cases hneg : s < 0
  · rw [if_pos hneg]
    have e : s.tmod n = -((-s) % n) := by
      have : s = -(-s) := by omega
      rw [this, Int.neg_tmod, Int.tmod_eq_emod_of_nonneg (by omega)]; simp
    have h0 := Int.emod_nonneg (-s) (show n ≠ 0 by omega)
    have h1 := Int.emod_lt_of_pos (-s) (show 0 < n by omega)
    rw [e]
    by_cases hz : (-s) % n = 0
    · rw [hz]; simp
    · rw [if_pos (by omega), i32_id _ (by omega) (by omega)]; simp
  · rw [if_neg hneg, Int.tmod_eq_emod_of_nonneg (by omega)]
    have h0 := Int.emod_nonneg s (show n ≠ 0 by omega)
    rw [if_neg (by omega)]

/-- A hasher that never panics and stays in range for partition counts `1 ≤ n ≤ 2^31-1`. -/
def HasherOk (h : Hasher) : Prop :=
  ∀ k n, 1 ≤ n → n ≤ 2147483647 → ∃ p, h k n = some p ∧ 0 ≤ p ∧ p < n

theorem intn_ok (n : Int) (raw : Nat) (hn : 1 ≤ n) : ∃ d, intn n raw = some d ∧ 0 ≤ d ∧ d < n := by
  refine ⟨(raw : Int) % n, ?_, Int.emod_nonneg _ (by omega), Int.emod_lt_of_pos _ (by omega)⟩
  unfold intn; rw [if_neg (by omega)]

theorem rr_ok (s : RR) (n : Int) (hs : 0 ≤ s.on) (hn : 1 ≤ n) :
    ∃ s' p, s.partition n = .ok s' p ∧ 0 ≤ s'.on ∧ 0 ≤ p ∧ p < n := by
  unfold RR.partition
  dsimp only
  refine ⟨_, _, rfl, ?_, ?_, ?_⟩
  · show 0 ≤ (if s.on ≥ n then 0 else s.on) + 1
    split <;> omega
  · split <;> omega
  · split <;> omega

theorem sticky_ok (s : Sticky) (n : Int) (raw : Nat) (hs : -1 ≤ s.onPart) (hn : 1 ≤ n) :
    ∃ s' p, s.partition n raw = .ok s' p ∧ s'.onPart = p ∧ 0 ≤ p ∧ p < n := by
  unfold Sticky.partition
  by_cases hc : s.onPart = -1 ∨ s.onPart ≥ n
  · rw [if_pos hc]
    obtain ⟨d, hd, hd0, hd1⟩ := intn_ok n raw hn
    rw [hd]
    dsimp only
    by_cases he : d = s.lastPart
    · rw [if_pos he, Int.tmod_eq_emod_of_nonneg (by omega)]
      exact ⟨_, _, rfl, rfl, Int.emod_nonneg _ (by omega), Int.emod_lt_of_pos _ (by omega)⟩
    · rw [if_neg he]
      exact ⟨_, _, rfl, rfl, hd0, hd1⟩
  · rw [if_neg hc]
    exact ⟨_, _, rfl, rfl, by omega, by omega⟩

theorem stickyKey_ok (h : Hasher) (hh : HasherOk h) (s : Sticky) (key : Option (List UInt8)) (n : Int) (raw : Nat)
    (hs : -1 ≤ s.onPart) (hn : 1 ≤ n) (hn2 : n ≤ 2147483647) :
    ∃ s' p, stickyKeyPartition h s key n raw = .ok s' p ∧ -1 ≤ s'.onPart ∧ 0 ≤ p ∧ p < n := by
  unfold stickyKeyPartition
  cases key with
  | some k =>
    obtain ⟨p, hp, h0, h1⟩ := hh k n hn hn2
    dsimp only; rw [hp]
    exact ⟨_, _, rfl, hs, h0, h1⟩
  | none =>
    obtain ⟨s', p, e, e2, h0, h1⟩ := sticky_ok s n raw hs hn
    exact ⟨s', p, e, by omega, h0, h1⟩

/-- the least-backup scan over `N` partitions has chosen a valid index. -/
def Picked (N : Int) (a : LBAcc) : Prop := 1 ≤ a.npicked ∧ 0 ≤ a.onPart ∧ a.onPart < N

theorem lbLoop_picked (N : Int) : ∀ (k : Nat) (it : Iter) (a : LBAcc), k ≤ it.length → (it.length : Int) ≤ N →
    Picked N a → ∃ a', lbLoop k it a = some a' ∧ Picked N a' := by
  intro k
  induction k with
  | zero => intro it a _ _ ha; exact ⟨a, rfl, ha⟩
  | succ k ih =>
    intro it a hk hN ha
    match it, hk, hN with
    | [], hk, _ => simp at hk
    | b :: rest, hk, hN =>
      have hk' : k ≤ rest.length := by simp at hk; omega
      have hN' : (rest.length : Int) ≤ N := by simp at hN; omega
      have hrl : (rest.length : Int) < N := by simp at hN; omega
      obtain ⟨p1, p2, p3⟩ := ha
      rw [lbLoop]
      simp only [Iter.next]
      by_cases h1 : b < a.least
      · rw [if_pos h1]
        exact ih rest _ hk' hN' ⟨by simp, by simp, by simpa using hrl⟩
      · rw [if_neg h1]
        by_cases h2 : b = a.least
        · rw [if_pos h2]
          refine ih rest _ hk' hN' ⟨by simp, ?_, ?_⟩ <;> dsimp only <;> split <;> omega
        · rw [if_neg h2]
          exact ih rest _ hk' hN' ⟨p1, p2, p3⟩

theorem lbLoop_first (N : Int) (k : Nat) (it : Iter) (on : Int) (draws : List Nat) (hk : k + 1 ≤ it.length)
    (hN : (it.length : Int) ≤ N) (hb : ∀ b ∈ it, b ≤ maxInt64) :
    ∃ a', lbLoop (k + 1) it { least := maxInt64, npicked := 0, onPart := on, draws := draws } = some a' ∧ Picked N a' := by
  match it, hk, hN, hb with
  | [], hk, _, _ => simp at hk
  | b :: rest, hk, hN, hb =>
    have hk' : k ≤ rest.length := by simp at hk; omega
    have hN' : (rest.length : Int) ≤ N := by simp at hN; omega
    have hrl : (rest.length : Int) < N := by simp at hN; omega
    have hbm : b ≤ maxInt64 := hb b (List.mem_cons_self ..)
    rw [lbLoop]
    simp only [Iter.next]
    by_cases h1 : b < maxInt64
    · rw [if_pos h1]
      exact lbLoop_picked N k rest _ hk' hN' ⟨by simp, by simp, by simpa using hrl⟩
    · rw [if_neg h1, if_pos (by omega)]
      refine lbLoop_picked N k rest _ hk' hN' ⟨by simp, ?_, ?_⟩ <;> simp <;> omega

theorem lb_ok (s : LB) (n : Int) (mapping : List Int) (draws : List Nat) (hs : -1 ≤ s.onPart) (hn : 1 ≤ n)
    (hl : (mapping.length : Int) = n) (hb : ∀ b ∈ mapping, b ≤ maxInt64) :
    ∃ s' p, s.partitionByBackup n (Iter.ofMapping mapping) draws = .ok s' p ∧ s'.onPart = p ∧ 0 ≤ p ∧ p < n := by
  unfold LB.partitionByBackup
  by_cases hc : s.onPart = -1 ∨ s.onPart ≥ n
  · rw [if_pos hc]
    have hlen : (Iter.ofMapping mapping).length = mapping.length := by simp [Iter.ofMapping]
    have hnn : n.toNat = (mapping.length - 1) + 1 := by omega
    obtain ⟨a', e, _, q2, q3⟩ := lbLoop_first n (mapping.length - 1) (Iter.ofMapping mapping) s.onPart draws
      (by omega) (by omega) (by intro b hb'; exact hb b (by simpa [Iter.ofMapping] using hb'))
    rw [hnn, e]
    exact ⟨_, _, rfl, rfl, q2, q3⟩
  · rw [if_neg hc]
    exact ⟨_, _, rfl, rfl, by omega, by omega⟩

theorem calcIdx_ok : ∀ (k : Nat) (it : Iter), k ≤ it.length →
    ∃ l, calcIdx k it = some l ∧ l.length = k ∧ ∀ x ∈ l, 0 ≤ x ∧ x < (it.length : Int) := by
  intro k
  induction k with
  | zero => intro it _; exact ⟨[], rfl, rfl, by simp⟩
  | succ k ih =>
    intro it hk
    match it, hk with
    | [], hk => simp at hk
    | b :: rest, hk =>
      obtain ⟨l, e, e2, e3⟩ := ih rest (by simp at hk; omega)
      refine ⟨(rest.length : Int) :: l, ?_, by simp [e2], ?_⟩
      · rw [calcIdx]; simp only [Iter.next]; rw [e]; rfl
      · intro x hx
        rcases List.mem_cons.mp hx with rfl | hx
        · simp; omega
        · have := e3 x hx; simp; omega

theorem repick_ok (c : UBCfg) (bytes : Int) (n : Int) (mapping : List Int) (raw : Nat)
    (hn : 1 ≤ n) (hl : (mapping.length : Int) = n) :
    ∃ s' p, UB.repick c bytes n (Iter.ofMapping mapping) raw = .ok s' p ∧ 0 ≤ p ∧ p < n := by
  unfold UB.repick
  by_cases ha : (!c.adaptive) = true
  · rw [if_pos ha]
    obtain ⟨d, hd, hd0, hd1⟩ := intn_ok n raw hn
    rw [hd]; exact ⟨_, _, rfl, hd0, hd1⟩
  · rw [if_neg ha]
    have hlen : (Iter.ofMapping mapping).length = mapping.length := by simp [Iter.ofMapping]
    obtain ⟨l, e, e2, e3⟩ := calcIdx_ok n.toNat (Iter.ofMapping mapping) (by omega)
    rw [e]
    match l, e2, e3 with
    | [], e2, _ => simp at e2; omega
    | i :: is, e2, e3 =>
      dsimp only
      have hm : (i :: is).getD (raw % (is.length + 1)) i ∈ i :: is := by
        rw [List.getD_eq_getElem?_getD]
        have hlt : raw % (is.length + 1) < (i :: is).length := by
          simp; exact Nat.mod_lt _ (by omega)
        rw [List.getElem?_eq_getElem hlt]
        exact List.getElem_mem hlt
      have := e3 _ hm
      exact ⟨_, _, rfl, this.1, by omega⟩

theorem ub_ok (c : UBCfg) (hh : HasherOk c.hasher) (s : UB) (r : Rec) (n : Int) (mapping : List Int) (raw : Nat)
    (hn : 1 ≤ n) (hn2 : n ≤ 2147483647) (hl : (mapping.length : Int) = n) :
    ∃ s' p, s.partitionByBackup c r n (Iter.ofMapping mapping) raw = .ok s' p ∧ 0 ≤ p ∧ p < n := by
  unfold UB.partitionByBackup
  split
  · rename_i k hk
    obtain ⟨p, hp, h0, h1⟩ := hh k n hn hn2
    rw [hp]; exact ⟨_, _, rfl, h0, h1⟩
  · dsimp only
    generalize (if s.bytes + r.estimate ≥ c.limit then ({ bytes := r.estimate, onPart := -1 } : UB)
      else { bytes := s.bytes + r.estimate, onPart := s.onPart }) = s1
    by_cases hin : 0 ≤ s1.onPart ∧ s1.onPart < n
    · rw [if_pos hin]; exact ⟨_, _, rfl, hin.1, hin.2⟩
    · rw [if_neg hin]; exact repick_ok c s1.bytes n mapping raw hn hl

/-- the hasher a partitioner was configured with is a well-behaved one. -/
def KindOk : PKind → Prop
  | .stickyKey h => HasherOk h
  | .uniformBytes c => HasherOk c.hasher
  | .basic f => ∀ r n, 1 ≤ n → n ≤ 2147483647 → ∃ p, f r n = some p ∧ 0 ≤ p ∧ p < n
  | _ => True

/-- State invariant: the pinned partition is `-1` ("none") or non-negative; it may be ≥ the next `n`. -/
def Inv : PKind → PState → Prop
  | .roundRobin, .rr s => 0 ≤ s.on
  | .sticky, .st s => -1 ≤ s.onPart
  | .stickyKey _, .st s => -1 ≤ s.onPart
  | .leastBackup, .lb s => -1 ≤ s.onPart
  | .uniformBytes _, .ub _ => True
  | .basic _, .unit => True
  | _, _ => False

/-- What `doPartition` guarantees about a call: `1 ≤ n ≤ 2^31-1` (partition counts are int32 on the wire),
and for the backup partitioners the iterator ranges over exactly `n` partitions with int64 counts. -/
def OpValid (k : PKind) : Op → Prop
  | .newBatch => True
  | .part _ n mapping _ => 1 ≤ n ∧ n ≤ 2147483647 ∧
      (k.usesBackup = true → (mapping.length : Int) = n ∧ ∀ b ∈ mapping, b ≤ maxInt64)

theorem init_inv (k : PKind) : Inv k k.init := by
  cases k <;> simp [Inv, PKind.init]

theorem newBatch_inv (k : PKind) (s : PState) (h : Inv k s) : Inv k (k.onNewBatch s) := by
  cases k <;> cases s <;> simp_all [Inv, PKind.onNewBatch, Sticky.onNewBatch, LB.onNewBatch]

theorem part_ok (k : PKind) (s : PState) (r : Rec) (n : Int) (mapping : List Int) (draws : List Nat)
    (hk : KindOk k) (hs : Inv k s) (hv : OpValid k (.part r n mapping draws)) :
    ∃ s' p, k.partitionN s r n (Iter.ofMapping mapping) draws = .ok s' p ∧ Inv k s' ∧ 0 ≤ p ∧ p < n := by
  obtain ⟨hn, hn2, hb⟩ := hv
  cases k with
  | roundRobin =>
    cases s <;> simp only [Inv] at hs
    rename_i s
    obtain ⟨s', p, e, i1, h0, h1⟩ := rr_ok s n hs hn
    exact ⟨.rr s', p, by simp only [PKind.partitionN, e], i1, h0, h1⟩
  | sticky =>
    cases s <;> simp only [Inv] at hs
    rename_i s
    obtain ⟨s', p, e, i1, h0, h1⟩ := sticky_ok s n (draws.headD 0) hs hn
    exact ⟨.st s', p, by simp only [PKind.partitionN, e], by simp only [Inv]; omega, h0, h1⟩
  | stickyKey h =>
    cases s <;> simp only [Inv] at hs
    rename_i s
    obtain ⟨s', p, e, i1, h0, h1⟩ := stickyKey_ok h hk s r.key n (draws.headD 0) hs hn hn2
    exact ⟨.st s', p, by simp only [PKind.partitionN, e], i1, h0, h1⟩
  | leastBackup =>
    cases s <;> simp only [Inv] at hs
    rename_i s
    obtain ⟨hl, hbb⟩ := hb rfl
    obtain ⟨s', p, e, i1, h0, h1⟩ := lb_ok s n mapping draws hs hn hl hbb
    exact ⟨.lb s', p, by simp only [PKind.partitionN, e], by simp only [Inv]; omega, h0, h1⟩
  | uniformBytes c =>
    cases s <;> simp only [Inv] at hs
    rename_i s
    obtain ⟨hl, _⟩ := hb rfl
    obtain ⟨s', p, e, h0, h1⟩ := ub_ok c hk s r n mapping (draws.headD 0) hn hn2 hl
    exact ⟨.ub s', p, by simp only [PKind.partitionN, e], trivial, h0, h1⟩
  | basic f =>
    cases s <;> simp only [Inv] at hs
    obtain ⟨p, e, h0, h1⟩ := hk r n hn hn2
    exact ⟨.unit, p, by simp only [PKind.partitionN, e], trivial, h0, h1⟩

/-- the hasher consulted for keyed records (`none` for partitioners without key logic). -/
def kindHasher : PKind → Hasher
  | .stickyKey h => h
  | .uniformBytes c => c.hasher
  | _ => fun _ _ => none

/-- the partition the property's key rule prescribes, when it prescribes one. -/
def ruleFormula : KeyRule → List UInt8 → Int → Option Int
  | .kafkaDefault, k, n => some (kafkaPartition k n)
  | .saramaFnv, k, n => some (saramaPartition (fnv1a32 k) n)
  | .unsignedFnv, k, n => some (unsignedPartition (fnv1a32 k) n)
  | .consistentOnly, _, _ => none

/-- the configured hasher computes the rule's formula. -/
def RuleOk (k : PKind) (rule : KeyRule) : Prop :=
  ∀ key n f, 1 ≤ n → n ≤ 2147483647 → ruleFormula rule key n = some f → kindHasher k key n = some f

/-- a keyed call returns what the hasher returns. -/
theorem part_keyed (k : PKind) (s s' : PState) (r : Rec) (n p : Int) (it : Iter) (draws : List Nat) (key : List UInt8)
    (e : k.partitionN s r n it draws = .ok s' p) (hkey : k.obsKey r = some key) : kindHasher k key n = some p := by
  cases k with
  | roundRobin => simp [PKind.obsKey] at hkey
  | sticky => simp [PKind.obsKey] at hkey
  | leastBackup => simp [PKind.obsKey] at hkey
  | basic f => simp [PKind.obsKey] at hkey
  | stickyKey h =>
    simp only [PKind.obsKey] at hkey
    cases s with
    | st s =>
      simp only [PKind.partitionN, stickyKeyPartition, hkey] at e
      simp only [kindHasher]
      cases hh : h key n with
      | none => simp [hh] at e
      | some q => simp [hh] at e; rw [e.2]
    | rr _ => simp [PKind.partitionN] at e
    | lb _ => simp [PKind.partitionN] at e
    | ub _ => simp [PKind.partitionN] at e
    | unit => simp [PKind.partitionN] at e
  | uniformBytes c =>
    simp only [PKind.obsKey] at hkey
    cases s with
    | ub s =>
      simp only [PKind.partitionN, UB.partitionByBackup, hkey] at e
      simp only [kindHasher]
      cases hh : c.hasher key n with
      | none => simp [hh] at e
      | some q => simp [hh] at e; rw [e.2]
    | rr _ => simp [PKind.partitionN] at e
    | lb _ => simp [PKind.partitionN] at e
    | st _ => simp [PKind.partitionN] at e
    | unit => simp [PKind.partitionN] at e

def toObs (t : Option (List UInt8) × Int × Int) : Obs := ⟨t.1, t.2.1, t.2.2⟩

theorem run_ok (k : PKind) (hk : KindOk k) (rule : KeyRule) (hr : RuleOk k rule) :
    ∀ (ops : List Op) (s : PState) (earlier : List Obs), Inv k s → (∀ op ∈ ops, OpValid k op) →
    (∀ e ∈ earlier, ∀ key, e.key = some key → kindHasher k key e.n = some e.pick) →
    ∃ picks, k.run s ops = some picks ∧ (∀ t ∈ picks, 0 ≤ t.2.2 ∧ t.2.2 < t.2.1) ∧
      traceOk rule earlier (picks.map toObs) = true := by
  intro ops
  induction ops with
  | nil => intro s _ _ _ _; exact ⟨[], rfl, by simp, rfl⟩
  | cons op ops ih =>
    intro s earlier hs hv he
    have hv' : ∀ op ∈ ops, OpValid k op := fun o ho => hv o (List.mem_cons_of_mem _ ho)
    cases op with
    | newBatch =>
      rw [PKind.run]
      exact ih _ earlier (newBatch_inv k s hs) hv' he
    | part r n mapping draws =>
      have hvo := hv _ (List.mem_cons_self ..)
      obtain ⟨s', p, e, i1, h0, h1⟩ := part_ok k s r n mapping draws hk hs hvo
      have hkeyed : ∀ key, k.obsKey r = some key → kindHasher k key n = some p :=
        fun key hkey => part_keyed k s s' r n p _ draws key e hkey
      have he' : ∀ e ∈ (⟨k.obsKey r, n, p⟩ : Obs) :: earlier, ∀ key, e.key = some key → kindHasher k key e.n = some e.pick := by
        intro e' he'
        rcases List.mem_cons.mp he' with rfl | he'
        · exact hkeyed
        · exact he e' he'
      obtain ⟨picks, e2, hp, ht⟩ := ih s' (⟨k.obsKey r, n, p⟩ :: earlier) i1 hv' he'
      refine ⟨(k.obsKey r, n, p) :: picks, ?_, ?_, ?_⟩
      · rw [PKind.run, e]; simp only [e2, Option.map_some]
      · intro t ht'
        rcases List.mem_cons.mp ht' with rfl | ht'
        · exact ⟨h0, h1⟩
        · exact hp t ht'
      · simp only [List.map_cons, traceOk, toObs, Bool.and_eq_true]
        refine ⟨?_, ht⟩
        simp only [obsOk, inRange, Bool.and_eq_true, decide_eq_true_eq]
        refine ⟨⟨h0, h1⟩, ?_⟩
        cases hkey : k.obsKey r with
        | none => rfl
        | some key =>
          have hp' := hkeyed key hkey
          simp only [Bool.and_eq_true, List.all_eq_true]
          constructor
          · intro e' hm
            by_cases hc : (e'.key == some key && e'.n == n) = true
            · simp only [Bool.and_eq_true, beq_iff_eq] at hc
              have := he e' hm key hc.1
              rw [hc.2, hp'] at this
              simp [hc.1, hc.2, Option.some.inj this]
            · simp [hc]
          · have hn := hvo.1; have hn2 := hvo.2.1
            cases rule with
            | consistentOnly => rfl
            | kafkaDefault =>
              have := hr key n _ hn hn2 rfl
              rw [hp'] at this
              simp [Option.some.inj this]
            | saramaFnv =>
              have := hr key n _ hn hn2 rfl
              rw [hp'] at this
              simp [Option.some.inj this]
            | unsignedFnv =>
              have := hr key n _ hn hn2 rfl
              rw [hp'] at this
              simp [Option.some.inj this]

theorem fnv_step (h : BitVec 32) (b : UInt8) :
    ((h ^^^ u32 b) * 16777619#32).toNat = ((h.toNat ^^^ b.toNat) * 16777619) % 4294967296 := by
  rw [BitVec.toNat_mul, BitVec.toNat_xor, toNat_u32]; rfl

theorem fnv_fold (data : List UInt8) : ∀ h : BitVec 32,
    (data.foldl (fun h b => (h ^^^ u32 b) * 16777619#32) h).toNat =
    data.foldl (fun h b => ((h ^^^ b.toNat) * 16777619) % 4294967296) h.toNat := by
  induction data with
  | nil => intro h; rfl
  | cons b rest ih => intro h; rw [List.foldl_cons, List.foldl_cons, ih, fnv_step]

/-- the model's FNV-1a (BitVec) is the Spec's (Nat with explicit mod). -/
theorem fnv_eq (data : List UInt8) : (fnv32a data).toNat = fnv1a32 data := by
  unfold fnv32a fnv1a32
  rw [fnv_fold]; rfl

theorem ruleOk_consistentOnly (k : PKind) : RuleOk k .consistentOnly := by
  intro key n f _ _ h; simp [ruleFormula] at h

end Proof.C28
