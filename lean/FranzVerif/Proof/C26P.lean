import FranzVerif.Proof.C26
/-! `parseMemberMetadata` on valid priors, and plans as lists (helper lemmas for Props/C26; core Lean + Std only). -/
namespace Proof.C26
open Model.C25 Model.C26 Proof.C25 Std

/-! ### folding a map into an owner function -/

theorem foldl_insert_get {V : Type} (f : V → String) (l : List (TP × V)) (init : Own)
    (hd : l.Pairwise fun a b => (a.1 == b.1) = false) (q : TP) :
    (l.foldl (fun o e => o.insert e.1 (f e.2)) init)[q]? =
      match l.find? (·.1 == q) with
      | some e => some (f e.2)
      | none => init[q]? := by
  induction l generalizing init with
  | nil => rfl
  | cons e l ih =>
    obtain ⟨hhead, htail⟩ := List.pairwise_cons.1 hd
    simp only [List.foldl_cons]
    rw [ih _ htail]
    by_cases he : (e.1 == q) = true
    · have e1 : e.1 = q := by simpa using he
      subst e1
      have hnone : l.find? (·.1 == e.1) = none := by
        rw [List.find?_eq_none]
        intro x hx hxq
        have := hhead x hx
        have e2 : x.1 = e.1 := by simpa using hxq
        rw [e2] at this
        simp at this
      simp [hnone, List.find?_cons]
    · have he' : (e.1 == q) = false := by simpa using he
      simp only [List.find?_cons, he']
      cases l.find? (·.1 == q) with
      | some x => rfl
      | none => simp [HashMap.getElem?_insert, he']

theorem get_eq_find_toList {V : Type} (M : HashMap TP V) (q : TP) :
    M[q]? = (M.toList.find? (·.1 == q)).map (·.2) := by
  cases hf : M.toList.find? (·.1 == q) with
  | some e =>
    have hmem := List.mem_of_find?_eq_some hf
    have hq : e.1 = q := by simpa using List.find?_some hf
    have : M[e.1]? = some e.2 := HashMap.mem_toList_iff_getElem?_eq_some.1 hmem
    rw [← hq, this]; rfl
  | none =>
    rw [List.find?_eq_none] at hf
    cases hg : M[q]? with
    | none => rfl
    | some v =>
      have := hf (q, v) (HashMap.mem_toList_iff_getElem?_eq_some.2 hg)
      simp at this

theorem initOwn_get (c : Ctx) (q : TP) : (initOwn c)[q]? = ((parse c)[q]?).map (·.new.1) := by
  unfold initOwn
  rw [HashMap.fold_eq_foldl_toList]
  rw [foldl_insert_get (fun cl : Claim => cl.new.1) _ _ HashMap.distinct_keys_toList q, get_eq_find_toList (parse c) q]
  cases (parse c).toList.find? (·.1 == q) <;> simp

/-! ### `parse` when no partition is claimed twice -/

/-- the claims in processing order. -/
def claimList (ms : List Member) : List (Member × TP) := ms.flatMap fun m => (claimsOf m).map fun p => (m, p)

theorem parse_eq (c : Ctx) : parse c = (claimList c.members).foldl (fun acc e => claimStep c e.1 acc e.2) ∅ := by
  unfold parse claimList
  rw [List.foldl_flatMap]
  congr 1
  funext acc m
  rw [List.foldl_map]

theorem priorPlan_eq (ms : List Member) : priorPlan ms = (claimList ms).map fun e => (e.1.id, e.2.1, e.2.2) := by
  unfold priorPlan claimList claimsOf
  rw [List.map_flatMap]
  congr 1
  funext m
  simp [List.map_flatMap, List.flatMap_map, Function.comp_def]

theorem foldl_claims_get (c : Ctx) (C : List (Member × TP)) (acc : HashMap TP Claim)
    (hnd : (C.map (·.2)).Nodup) (hin : ∀ e ∈ C, c.isPart e.2 = true) (hfree : ∀ e ∈ C, acc[e.2]? = none) (q : TP) :
    ((C.foldl (fun acc e => claimStep c e.1 acc e.2) acc)[q]?).map (·.new.1) =
      match C.find? (·.2 == q) with
      | some e => some e.1.id
      | none => (acc[q]?).map (·.new.1) := by
  induction C generalizing acc with
  | nil => rfl
  | cons e C ih =>
    simp only [List.map_cons, List.nodup_cons, List.mem_map, not_exists, not_and] at hnd
    have hstep : claimStep c e.1 acc e.2 = acc.insert e.2 { new := (e.1.id, effGen e.1) } := by
      simp [claimStep, hin e (List.mem_cons_self ..), hfree e (List.mem_cons_self ..)]
    simp only [List.foldl_cons, hstep]
    rw [ih _ hnd.2 (fun x hx => hin x (List.mem_cons_of_mem _ hx))]
    · by_cases he : (e.2 == q) = true
      · have e1 : e.2 = q := by simpa using he
        subst e1
        have hnone : C.find? (·.2 == e.2) = none := by
          rw [List.find?_eq_none]
          intro x hx hxq
          have e2 : x.2 = e.2 := by simpa using hxq
          exact hnd.1 x hx e2
        simp [hnone, List.find?_cons]
      · have he' : (e.2 == q) = false := by simpa using he
        simp only [List.find?_cons, he']
        cases C.find? (·.2 == q) with
        | some x => rfl
        | none => simp [HashMap.getElem?_insert, he']
    · intro x hx
      rw [HashMap.getElem?_insert]
      have : (e.2 == x.2) = false := by simpa using fun h => hnd.1 x hx h.symm
      simp [this, hfree x (List.mem_cons_of_mem _ hx)]

theorem eq_of_snd_eq {α β} (C : List (α × β)) (hnd : (C.map (·.2)).Nodup) (a b : α × β) (ha : a ∈ C) (hb : b ∈ C)
    (h : a.2 = b.2) : a = b := by
  induction C with
  | nil => cases ha
  | cons x xs ih =>
    simp only [List.map_cons, List.nodup_cons, List.mem_map, not_exists, not_and] at hnd
    rcases List.mem_cons.1 ha with rfl | ha' <;> rcases List.mem_cons.1 hb with rfl | hb'
    · rfl
    · exact absurd h.symm (hnd.1 b hb')
    · exact absurd h (hnd.1 a ha')
    · exact ih hnd.2 ha' hb'

/-- with valid priors (claims in range, no partition claimed twice) the parsed owner of a partition is the
member that lists it. -/
theorem initOwn_of_valid_priors (c : Ctx)
    (hin : ∀ x ∈ priorPlan c.members, c.isPart (x.2.1, x.2.2) = true)
    (hu : ((priorPlan c.members).map fun x => ((x.2.1, x.2.2) : TP)).Nodup) (q : TP) (id : String) :
    (initOwn c)[q]? = some id ↔ (id, q.1, q.2) ∈ priorPlan c.members := by
  have hmap : (priorPlan c.members).map (fun x => ((x.2.1, x.2.2) : TP)) = (claimList c.members).map (·.2) := by
    rw [priorPlan_eq, List.map_map]; rfl
  rw [hmap] at hu
  have hin' : ∀ e ∈ claimList c.members, c.isPart e.2 = true := by
    intro e he
    have := hin (e.1.id, e.2.1, e.2.2) (by rw [priorPlan_eq]; exact List.mem_map.2 ⟨e, he, rfl⟩)
    exact this
  rw [initOwn_get, parse_eq, foldl_claims_get c _ ∅ hu hin' (fun _ _ => by simp) q, priorPlan_eq]
  simp only [List.mem_map]
  constructor
  · intro h
    cases hf : (claimList c.members).find? (·.2 == q) with
    | none => simp [hf] at h
    | some e =>
      simp only [hf, Option.some.injEq] at h
      have hq : e.2 = q := by simpa using List.find?_some hf
      exact ⟨e, List.mem_of_find?_eq_some hf, by rw [h, hq]⟩
  · rintro ⟨e, he, hx⟩
    have hid : e.1.id = id := congrArg (·.1) hx
    have hq : e.2 = q := by
      have h1 : e.2.1 = q.1 := congrArg (·.2.1) hx
      have h2 : e.2.2 = q.2 := congrArg (·.2.2) hx
      exact Prod.ext h1 h2
    cases hf : (claimList c.members).find? (·.2 == q) with
    | none =>
      rw [List.find?_eq_none] at hf
      exact absurd (by simpa using hq) (hf e he)
    | some e' =>
      have hq' : e'.2 = q := by simpa using List.find?_some hf
      have := eq_of_snd_eq _ hu e' e (List.mem_of_find?_eq_some hf) he (hq'.trans hq.symm)
      simp [this, hid]

/-! ### plans as lists -/

theorem nodup_planOf (c : Ctx) (o : Own) : (planOf c o).Nodup := by
  unfold planOf
  refine List.Pairwise.filterMap _ ?_ (parts_nodup c)
  intro p p' hne b hb b' hb' e
  apply hne
  simp only [Option.map_eq_some_iff] at hb hb'
  obtain ⟨m, _, rfl⟩ := hb
  obtain ⟨m', _, e'⟩ := hb'
  rw [← e'] at e
  exact Prod.ext (congrArg (·.2.1) e) (congrArg (·.2.2) e)

theorem optimal_of_perm (ms : List Member) (P Q : List Triple) (h : P.Perm Q) (ho : Optimal ms P) : Optimal ms Q := by
  intro a ha b hr
  have hl : ∀ m, load Q m = load P m := fun m => (List.Perm.countP_eq _ h).symm
  rw [hl, hl]
  refine ho a ha b (Reach.mono ?_ hr)
  rintro x y ⟨t, ht, h1, h2⟩
  exact ⟨t, h.mem_iff.2 ht, h1, h2⟩

/-- valid priors are exactly the plan the model of `parseMemberMetadata` starts from. -/
theorem planOf_initOwn_perm (c : Ctx)
    (hin : ∀ x ∈ priorPlan c.members, c.isPart (x.2.1, x.2.2) = true)
    (hu : ((priorPlan c.members).map fun x => ((x.2.1, x.2.2) : TP)).Nodup) :
    (planOf c (initOwn c)).Perm (priorPlan c.members) := by
  have hnd : (priorPlan c.members).Nodup := by
    have := hu
    rw [List.Nodup, List.pairwise_map] at this
    exact List.Pairwise.imp (fun h e => h (by rw [e])) this
  rw [List.perm_ext_iff_of_nodup (nodup_planOf c _) hnd]
  intro x
  rw [mem_planOf, initOwn_of_valid_priors c hin hu]
  constructor
  · rintro ⟨_, h⟩; exact h
  · intro h; exact ⟨hin x h, h⟩


/-- a state that is valid in the invariant's sense prints a plan that satisfies C25's executable `validPlan`. -/
theorem validPlan_planOf (c : Ctx) (o : Own)
    (hv : ∀ p b, o[p]? = some b → c.isPart p = true ∧ c.sub b p.1 = true)
    (hc : ∀ p, c.isPart p = true → c.wanted p.1 = true → (o[p]?).isSome = true) :
    validPlan (subsOf c.members) (cnt c.topics) (planOf c o) = true := by
  apply validPlan_intro
  · intro x hx
    obtain ⟨_, ho⟩ := (mem_planOf c o x).1 hx
    obtain ⟨h1, h2⟩ := hv _ _ ho
    obtain ⟨m, hm, hid, ht⟩ := (subOf_iff c.members x.1 x.2.1).1 h2
    exact ⟨⟨(m.id, m.topics), List.mem_map.2 ⟨m, hm, rfl⟩, hid, ht⟩, by simpa [Ctx.isPart] using h1⟩
  · intro t ht
    have hw : c.wanted t = true := by
      simp only [subsOf, List.mem_flatMap, List.mem_map] at ht
      obtain ⟨_, ⟨m, hm, rfl⟩, htm⟩ := ht
      simp only [Ctx.wanted, List.any_eq_true]
      exact ⟨m, hm, by simpa using htm⟩
    have hnd : (((planOf c o).filter fun x => x.2.1 == t).map (·.2.2)).Nodup := by
      rw [List.Nodup, List.pairwise_map]
      have h0 : ((planOf c o).filter fun x => x.2.1 == t).Nodup := List.Nodup.sublist List.filter_sublist (nodup_planOf c o)
      refine List.Pairwise.imp_of_mem ?_ h0
      intro a b ha hb hne e
      apply hne
      obtain ⟨ha1, ha2⟩ := List.mem_filter.1 ha
      obtain ⟨hb1, hb2⟩ := List.mem_filter.1 hb
      have ta : a.2.1 = t := by simpa using ha2
      have tb : b.2.1 = t := by simpa using hb2
      have oa := ((mem_planOf c o a).1 ha1).2
      have ob := ((mem_planOf c o b).1 hb1).2
      rw [ta, e] at oa
      rw [tb] at ob
      rw [oa] at ob
      have : a.1 = b.1 := Option.some.inj ob
      exact Prod.ext this (Prod.ext (ta.trans tb.symm) e)
    rw [List.perm_ext_iff_of_nodup hnd List.nodup_range]
    intro i
    simp only [List.mem_map, List.mem_filter, List.mem_range, beq_iff_eq]
    constructor
    · rintro ⟨x, ⟨hx, rfl⟩, rfl⟩
      have := ((mem_planOf c o x).1 hx).1
      simpa [Ctx.isPart] using this
    · intro hi
      have hp : c.isPart (t, i) = true := by simpa [Ctx.isPart] using hi
      obtain ⟨m, hm⟩ := Option.isSome_iff_exists.1 (hc (t, i) hp hw)
      exact ⟨(m, t, i), ⟨(mem_planOf c o _).2 ⟨hp, hm⟩, rfl⟩, rfl⟩


/-- `Optimal` from explicit closure certificates (all list computations, so concrete instances are decidable). -/
theorem optimal_of_certs (ms : List Member) (plan : List Triple) (certs : List (String × List String))
    (h : ((ms.map (·.id)).all fun a => certs.any fun cs =>
        cs.1 == a && cs.2.contains a && closedPlanB ms plan cs.2 && cs.2.all fun b => load plan b < load plan a + 2) = true) :
    Optimal ms plan := by
  intro a ha b hr
  simp only [List.all_eq_true, List.any_eq_true, Bool.and_eq_true, beq_iff_eq, decide_eq_true_eq] at h
  obtain ⟨cs, _, ⟨⟨⟨rfl, hin⟩, hcl⟩, hall⟩⟩ := h a ha
  exact hall b (Reach.mem_of_closed (by simpa using hin) (closedPlanB_closed ms plan _ hcl) hr)

end Proof.C26
