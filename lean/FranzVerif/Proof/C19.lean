import FranzVerif.Model.C19
/-! C19 — helper lemmas for Props/C19.lean (core Lean only). -/
namespace Proof.C19
open Model.C19

/-! ### Selection -/

theorem choose_true_ne_zstd (opts : List Int) : choose opts true ≠ 4 := by
  induction opts with
  | nil => simp [choose]
  | cons o rest ih =>
    unfold choose
    by_cases h : o = 4
    · simp [h]; exact ih
    · simp [h]

theorem choose_ne_zstd (opts : List Int) (flags : List Int) (h : 1 ∈ flags) :
    choose opts (disableZstd flags) ≠ 4 := by
  have : disableZstd flags = true := by
    unfold disableZstd
    rw [List.any_eq_true]
    exact ⟨1, h, by decide⟩
  rw [this]
  exact choose_true_ne_zstd opts

theorem compress_reported (enc : Enc) (prefs : List Pref) (opts flags : List Int) (src : Bytes) :
    let r := compress enc prefs opts flags src
    (r.2 = 0 ∧ r.1 = some src) ∨
    (r.2 = choose opts (disableZstd flags) ∧ r.2 ≠ 0 ∧ r.1 = enc r.2 (levelOf prefs r.2) src ∧ r.1.isSome) ∨
    (r.2 = -1 ∧ r.1 = none) := by
  show (_ ∨ _ ∨ _)
  unfold compress
  by_cases h0 : choose opts (disableZstd flags) = 0
  · left
    simp [h0]
  · cases he : enc (choose opts (disableZstd flags)) (levelOf prefs (choose opts (disableZstd flags))) src with
    | none => right; right; simp [h0, he]
    | some out => right; left; simp [h0, he]

theorem mem_dedup {p : Pref} : ∀ (l : List Pref) (seen : List Int), p ∈ dedup l seen → p ∈ l := by
  intro l
  induction l with
  | nil => intro seen h; simp [dedup] at h
  | cons q qs ih =>
    intro seen h
    unfold dedup at h
    split at h
    · exact List.mem_cons_of_mem _ (ih _ h)
    · rcases List.mem_cons.mp h with h | h
      · simp [h]
      · exact List.mem_cons_of_mem _ (ih _ h)

theorem dedup_ne_nil (l : List Pref) (h : l ≠ []) : dedup l [] ≠ [] := by
  cases l with
  | nil => exact absurd rfl h
  | cons p ps => simp [dedup]

theorem cutNone_ne_nil (l : List Pref) (h : l ≠ []) : cutNone l ≠ [] := by
  cases l with
  | nil => exact absurd rfl h
  | cons p ps => unfold cutNone; split <;> simp

theorem build_ne_panic (prefs : List Pref) : build prefs ≠ .panic := by
  unfold build
  split
  · simp
  · rename_i hne
    have hne' : prefs ≠ [] := by intro h; simp [h] at hne
    simp only
    split
    · simp
    · split
      · rename_i hc
        exact absurd hc (cutNone_ne_nil _ (dedup_ne_nil _ hne'))
      · split <;> simp

/-- What the first hit of a codec predicate in the deduplicated list is: the first hit in the list itself
that was not seen before. -/
theorem find_dedup (q : Int → Bool) : ∀ (l : List Pref) (seen : List Int),
    (dedup l seen).find? (fun p => q p.codec) = l.find? (fun p => q p.codec && !seen.contains p.codec) := by
  intro l
  induction l with
  | nil => intro seen; simp [dedup]
  | cons p ps ih =>
    intro seen
    unfold dedup
    by_cases hc : seen.contains p.codec = true
    · have hm : p.codec ∈ seen := by simpa using hc
      rw [if_pos hc, ih seen, List.find?_cons_of_neg]
      simp [hm]
    · rw [if_neg hc]
      have hc' : seen.contains p.codec = false := by simpa using hc
      by_cases hq : q p.codec = true
      · have hm : ¬ p.codec ∈ seen := by simpa using hc'
        rw [List.find?_cons_of_pos (by exact hq), List.find?_cons_of_pos]
        simp [hq, hm]
      · have hq' : q p.codec = false := by simpa using hq
        rw [List.find?_cons_of_neg (by simpa using hq'), List.find?_cons_of_neg (by simp [hq']), ih (p.codec :: seen)]
        congr 1
        funext x
        by_cases hx : x.codec = p.codec
        · simp [hx, hq']
        · simp [hx]

theorem find_dedup_nil (q : Int → Bool) (l : List Pref) :
    (dedup l []).find? (fun p => q p.codec) = l.find? (fun p => q p.codec) := by
  rw [find_dedup]
  simp

theorem choose_cutNone (ps : List Pref) (dis : Bool) :
    choose (cutNone ps) dis =
      match ps.find? (fun p => Spec.usable dis p.codec) with
      | some p => p.codec
      | none => 0 := by
  induction ps with
  | nil => simp [cutNone, choose]
  | cons p ps ih =>
    unfold cutNone
    by_cases h0 : p.codec = 0
    · have hu : Spec.usable dis p.codec = true := by simp [Spec.usable, h0]
      rw [List.find?_cons_of_pos (p := fun (p : Pref) => Spec.usable dis p.codec) hu]
      simp [h0, choose]
    · have hne : (p.codec == 0) = false := by simpa using h0
      rw [hne]
      simp only [Bool.false_eq_true, if_false]
      unfold choose
      by_cases h4 : (p.codec == 4 && dis) = true
      · have hu : ¬ (Spec.usable dis p.codec = true) := by simp [Spec.usable, h4]
        rw [if_pos h4, List.find?_cons_of_neg (p := fun (p : Pref) => Spec.usable dis p.codec) hu]
        exact ih
      · have hu : Spec.usable dis p.codec = true := by
          have : (p.codec == 4 && dis) = false := by simpa using h4
          simp [Spec.usable, this]
        rw [if_neg h4, List.find?_cons_of_pos (p := fun (p : Pref) => Spec.usable dis p.codec) hu]

theorem firstUsable_map (l : List Pref) (dis : Bool) :
    Spec.firstUsable (l.map Pref.codec) dis =
      match l.find? (fun p => Spec.usable dis p.codec) with
      | some p => p.codec
      | none => 0 := by
  unfold Spec.firstUsable
  induction l with
  | nil => simp
  | cons p ps ih =>
    by_cases h : Spec.usable dis p.codec = true
    · rw [List.map_cons, List.find?_cons_of_pos h, List.find?_cons_of_pos (p := fun (p : Pref) => Spec.usable dis p.codec) h]
    · rw [List.map_cons, List.find?_cons_of_neg h, List.find?_cons_of_neg (p := fun (p : Pref) => Spec.usable dis p.codec) h]
      exact ih

theorem choose_built (prefs : List Pref) (dis : Bool) :
    choose (cutNone (dedup prefs [])) dis = Spec.firstUsable (prefs.map Pref.codec) dis := by
  rw [choose_cutNone, firstUsable_map, find_dedup_nil (Spec.usable dis)]

theorem selection_first_usable (prefs : List Pref) (dis : Bool)
    (hv : ∀ p ∈ prefs, 0 ≤ p.codec ∧ p.codec ≤ 4) :
    (∀ opts, build prefs = .comp opts → choose opts dis = Spec.firstUsable (prefs.map Pref.codec) dis) ∧
    (build prefs = .noCompressor → Spec.firstUsable (prefs.map Pref.codec) dis = 0 ∨ (prefs.map Pref.codec).head? = some 0) ∧
    build prefs ≠ .unknownCodec := by
  have hvalid : (dedup prefs []).any (fun p => p.codec < 0 || p.codec > 4) = false := by
    rw [List.any_eq_false]
    intro p hp
    have := hv p (mem_dedup _ _ hp)
    simp
    omega
  refine ⟨?_, ?_, ?_⟩
  · intro opts hb
    unfold build at hb
    split at hb
    · cases hb
    · simp only [hvalid, Bool.false_eq_true, if_false] at hb
      split at hb
      · cases hb
      · rename_i o rest hc
        split at hb
        · cases hb
        · cases hb
          rw [← hc]
          exact choose_built prefs dis
  · intro hb
    left
    unfold build at hb
    split at hb
    · rename_i he
      have : prefs = [] := by simpa using he
      simp [this, Spec.firstUsable]
    · simp only [hvalid, Bool.false_eq_true, if_false] at hb
      split at hb
      · cases hb
      · rename_i o rest hc
        split at hb
        · rename_i ho
          have ho' : o = 0 := by simpa using ho
          rw [← choose_built prefs dis, hc, ho']
          simp [choose]
        · cases hb
  · unfold build
    split
    · simp
    · simp only [hvalid, Bool.false_eq_true, if_false]
      split
      · simp
      · split <;> simp

theorem selection_spec (prefs : List Pref) (flags : List Int) (opts : List Int)
    (hv : ∀ p ∈ prefs, 0 ≤ p.codec ∧ p.codec ≤ 4) (hb : build prefs = .comp opts) :
    Spec.selectionOk (prefs.map Pref.codec) (disableZstd flags) (choose opts (disableZstd flags)) = true := by
  have h1 := (selection_first_usable prefs (disableZstd flags) hv).1 opts hb
  unfold Spec.selectionOk
  rw [h1]
  simp only [beq_self_eq_true, Bool.and_true, Bool.not_eq_true']
  cases hd : disableZstd flags with
  | false => simp
  | true =>
    have := choose_true_ne_zstd opts
    rw [hd] at h1
    rw [← h1]
    simp [this]

end Proof.C19
