import FranzVerif.Model.C19
/-! C19 — helper lemmas for Props/C19.lean (core Lean only). -/
namespace Proof.C19
open Model.C19

/-! ### Selection -/

theorem choose_true_ne_zstd (opts : List Int) : choose opts true ≠ 4 := by
  induction opts with
  | nil => simp [choose]
  | cons o rest ih =>
    unfold choose
    by_cases h : o = 4
    · simp [h]; exact ih
    · simp [h]

theorem choose_ne_zstd (opts : List Int) (flags : List Int) (h : 1 ∈ flags) :
    choose opts (disableZstd flags) ≠ 4 := by
  have : disableZstd flags = true := by
    unfold disableZstd
    rw [List.any_eq_true]
    exact ⟨1, h, by decide⟩
  rw [this]
  exact choose_true_ne_zstd opts

theorem compress_reported (enc : Enc) (prefs : List Pref) (opts flags : List Int) (src : Bytes) :
    let r := compress enc prefs opts flags src
    (r.2 = 0 ∧ r.1 = some src) ∨
    (r.2 = choose opts (disableZstd flags) ∧ r.2 ≠ 0 ∧ r.1 = enc r.2 (levelOf prefs r.2) src ∧ r.1.isSome) ∨
    (r.2 = -1 ∧ r.1 = none) := by
  show (_ ∨ _ ∨ _)
  unfold compress
  by_cases h0 : choose opts (disableZstd flags) = 0
  · left
    simp [h0]
  · cases he : enc (choose opts (disableZstd flags)) (levelOf prefs (choose opts (disableZstd flags))) src with
    | none => right; right; simp [h0, he]
    | some out => right; left; simp [h0, he]

theorem mem_dedup {p : Pref} : ∀ (l : List Pref) (seen : List Int), p ∈ dedup l seen → p ∈ l := by
  intro l
  induction l with
  | nil => intro seen h; simp [dedup] at h
  | cons q qs ih =>
    intro seen h
    unfold dedup at h
    split at h
    · exact List.mem_cons_of_mem _ (ih _ h)
    · rcases List.mem_cons.mp h with h | h
      · simp [h]
      · exact List.mem_cons_of_mem _ (ih _ h)

theorem dedup_ne_nil (l : List Pref) (h : l ≠ []) : dedup l [] ≠ [] := by
  cases l with
  | nil => exact absurd rfl h
  | cons p ps => simp [dedup]

theorem cutNone_ne_nil (l : List Pref) (h : l ≠ []) : cutNone l ≠ [] := by
  cases l with
  | nil => exact absurd rfl h
  | cons p ps => unfold cutNone; split <;> simp

theorem build_ne_panic (prefs : List Pref) : build prefs ≠ .panic := by
  unfold build
  split
  · simp
  · rename_i hne
    have hne' : prefs ≠ [] := by intro h; simp [h] at hne
    simp only
    split
    · simp
    · split
      · rename_i hc
        exact absurd hc (cutNone_ne_nil _ (dedup_ne_nil _ hne'))
      · split <;> simp

/-- What the first hit of a codec predicate in the deduplicated list is: the first hit in the list itself
that was not seen before. -/
theorem find_dedup (q : Int → Bool) : ∀ (l : List Pref) (seen : List Int),
    (dedup l seen).find? (fun p => q p.codec) = l.find? (fun p => q p.codec && !seen.contains p.codec) := by
  intro l
  induction l with
  | nil => intro seen; simp [dedup]
  | cons p ps ih =>
    intro seen
    unfold dedup
    by_cases hc : seen.contains p.codec = true
    · have hm : p.codec ∈ seen := by simpa using hc
      rw [if_pos hc, ih seen, List.find?_cons_of_neg]
      simp [hm]
    · rw [if_neg hc]
      have hc' : seen.contains p.codec = false := by simpa using hc
      by_cases hq : q p.codec = true
      · have hm : ¬ p.codec ∈ seen := by simpa using hc'
        rw [List.find?_cons_of_pos (by exact hq), List.find?_cons_of_pos]
        simp [hq, hm]
      · have hq' : q p.codec = false := by simpa using hq
        rw [List.find?_cons_of_neg (by simpa using hq'), List.find?_cons_of_neg (by simp [hq']), ih (p.codec :: seen)]
        congr 1
        funext x
        by_cases hx : x.codec = p.codec
        · simp [hx, hq']
        · simp [hx]

theorem find_dedup_nil (q : Int → Bool) (l : List Pref) :
    (dedup l []).find? (fun p => q p.codec) = l.find? (fun p => q p.codec) := by
  rw [find_dedup]
  simp

theorem choose_cutNone (ps : List Pref) (dis : Bool) :
    choose (cutNone ps) dis =
      match ps.find? (fun p => Spec.usable dis p.codec) with
      | some p => p.codec
      | none => 0 := by
  induction ps with
  | nil => simp [cutNone, choose]
  | cons p ps ih =>
    unfold cutNone
    by_cases h0 : p.codec = 0
    · have hu : Spec.usable dis p.codec = true := by simp [Spec.usable, h0]
      rw [List.find?_cons_of_pos (p := fun (p : Pref) => Spec.usable dis p.codec) hu]
      simp [h0, choose]
    · have hne : (p.codec == 0) = false := by simpa using h0
      rw [hne]
      simp only [Bool.false_eq_true, if_false]
      unfold choose
      by_cases h4 : (p.codec == 4 && dis) = true
      · have hu : ¬ (Spec.usable dis p.codec = true) := by simp [Spec.usable, h4]
        rw [if_pos h4, List.find?_cons_of_neg (p := fun (p : Pref) => Spec.usable dis p.codec) hu]
        exact ih
      · have hu : Spec.usable dis p.codec = true := by
          have : (p.codec == 4 && dis) = false := by simpa using h4
          simp [Spec.usable, this]
        rw [if_neg h4, List.find?_cons_of_pos (p := fun (p : Pref) => Spec.usable dis p.codec) hu]

theorem firstUsable_map (l : List Pref) (dis : Bool) :
    Spec.firstUsable (l.map Pref.codec) dis =
      match l.find? (fun p => Spec.usable dis p.codec) with
      | some p => p.codec
      | none => 0 := by
  unfold Spec.firstUsable
  induction l with
  | nil => simp
  | cons p ps ih =>
    by_cases h : Spec.usable dis p.codec = true
    · rw [List.map_cons, List.find?_cons_of_pos h, List.find?_cons_of_pos (p := fun (p : Pref) => Spec.usable dis p.codec) h]
    · rw [List.map_cons, List.find?_cons_of_neg h, List.find?_cons_of_neg (p := fun (p : Pref) => Spec.usable dis p.codec) h]
      exact ih

theorem choose_built (prefs : List Pref) (dis : Bool) :
    choose (cutNone (dedup prefs [])) dis = Spec.firstUsable (prefs.map Pref.codec) dis := by
  rw [choose_cutNone, firstUsable_map, find_dedup_nil (Spec.usable dis)]

theorem selection_first_usable (prefs : List Pref) (dis : Bool)
    (hv : ∀ p ∈ prefs, 0 ≤ p.codec ∧ p.codec ≤ 4) :
    (∀ opts, build prefs = .comp opts → choose opts dis = Spec.firstUsable (prefs.map Pref.codec) dis) ∧
    (build prefs = .noCompressor → Spec.firstUsable (prefs.map Pref.codec) dis = 0) ∧
    build prefs ≠ .unknownCodec := by
  have hvalid : (dedup prefs []).any (fun p => p.codec < 0 || p.codec > 4) = false := by
    rw [List.any_eq_false]
    intro p hp
    have := hv p (mem_dedup _ _ hp)
    simp
    omega
  refine ⟨?_, ?_, ?_⟩
  · intro opts hb
    unfold build at hb
    split at hb
    · cases hb
    · simp only [hvalid, Bool.false_eq_true, if_false] at hb
      split at hb
      · cases hb
      · rename_i o rest hc
        split at hb
        · cases hb
        · cases hb
          rw [← hc]
          exact choose_built prefs dis
  · intro hb
    unfold build at hb
    split at hb
    · rename_i he
      have : prefs = [] := by simpa using he
      simp [this, Spec.firstUsable]
    · simp only [hvalid, Bool.false_eq_true, if_false] at hb
      split at hb
      · cases hb
      · rename_i o rest hc
        split at hb
        · rename_i ho
          have ho' : o = 0 := by simpa using ho
          rw [← choose_built prefs dis, hc, ho']
          simp [choose]
        · cases hb
  · unfold build
    split
    · simp
    · simp only [hvalid, Bool.false_eq_true, if_false]
      split
      · simp
      · split <;> simp

theorem selection_spec (prefs : List Pref) (flags : List Int) (opts : List Int)
    (hv : ∀ p ∈ prefs, 0 ≤ p.codec ∧ p.codec ≤ 4) (hb : build prefs = .comp opts) :
    Spec.selectionOk (prefs.map Pref.codec) (disableZstd flags) (choose opts (disableZstd flags)) = true := by
  have h1 := (selection_first_usable prefs (disableZstd flags) hv).1 opts hb
  unfold Spec.selectionOk
  rw [h1]
  simp only [beq_self_eq_true, Bool.and_true, Bool.not_eq_true']
  cases hd : disableZstd flags with
  | false => simp
  | true =>
    have := choose_true_ne_zstd opts
    rw [hd] at h1
    rw [← h1]
    simp [this]

/-! ### Framing loop, limit arithmetic, Decompress -/

theorem u32be_beNat (s : Bytes) (h : 4 ≤ s.length) :
    u32be s = some (Spec.beNat (s.take 4)) ∧ Spec.beNat (s.take 4) < 4294967296 := by
  match s, h with
  | a :: b :: c :: d :: rest, _ =>
    have ha := a.toNat_lt
    have hb := b.toNat_lt
    have hc := c.toNat_lt
    have hd := d.toNat_lt
    simp [u32be, Spec.beNat, List.foldl]
    omega

theorem sliceFrom_eq {s : Bytes} {lo : Int} (h0 : 0 ≤ lo) (h1 : lo ≤ s.length) :
    sliceFrom s lo = some (s.drop lo.toNat) := by simp [sliceFrom, h0, h1]

theorem sliceTo_eq {s : Bytes} {hi : Int} (h0 : 0 ≤ hi) (h1 : hi ≤ s.length) :
    sliceTo s hi = some (s.take hi.toNat) := by simp [sliceTo, h0, h1]

theorem sliceFrom_val {s t : Bytes} {lo : Int} (h : sliceFrom s lo = some t) :
    0 ≤ lo ∧ lo ≤ s.length ∧ t = s.drop lo.toNat := by
  unfold sliceFrom at h
  split at h
  · rename_i hc; cases h; exact ⟨hc.1, hc.2, rfl⟩
  · cases h

theorem sliceTo_val {s t : Bytes} {hi : Int} (h : sliceTo s hi = some t) :
    0 ≤ hi ∧ hi ≤ s.length ∧ t = s.take hi.toNat := by
  unfold sliceTo at h
  split at h
  · rename_i hc; cases h; exact ⟨hc.1, hc.2, rfl⟩
  · cases h

theorem toInt32_nonneg {u : Nat} (hu : u < 4294967296) (h : ¬ toInt32 u < 0) : u < 2147483648 ∧ toInt32 u = (u : Int) := by
  unfold toInt32 at *
  split at h
  · omega
  · rename_i hlt
    constructor
    · omega
    · simp [hlt]

/-- No slice of the framing loop is ever out of range, and a source on which the loop succeeds is well framed
(contrapositive: malformed framing is answered with an error). -/
theorem xerialLoop_safe (lib : Lib) (max : Nat) (dst src : Bytes) :
    xerialLoop lib max dst src ≠ .panic ∧
    (∀ out, xerialLoop lib max dst src = .ok out → (Spec.frames src).isSome = true) := by
  fun_induction xerialLoop lib max dst src
  case case1 dst src h0 =>
    refine ⟨by simp, fun out _ => ?_⟩
    rw [Spec.frames]; simp [h0]
  case case2 => exact ⟨by simp, fun out h => by cases h⟩
  case case3 dst src h0 h4 hx =>
    have := (u32be_beNat src (by omega)).1
    rw [this] at hx; cases hx
  case case4 dst src h0 h4 u hx hs =>
    rw [sliceFrom_eq (by omega) (by omega)] at hs; cases hs
  case case5 => exact ⟨by simp, fun out h => by cases h⟩
  case case6 dst src h0 h4 u hx size src1 h1 hc hs =>
    have hc' : 0 ≤ size ∧ size ≤ (src1.length : Int) := by omega
    rw [sliceTo_eq hc'.1 hc'.2] at hs; cases hs
  case case7 => exact ⟨by simp, fun out h => by cases h⟩
  case case8 => exact ⟨by simp, fun out h => by cases h⟩
  case case9 => exact ⟨by simp, fun out h => by cases h⟩
  case case10 dst src h0 h4 u hx size src1 h1 hc blk hb l hl hlim chunk hd hs =>
    have hc' : 0 ≤ size ∧ size ≤ (src1.length : Int) := by omega
    rw [sliceFrom_eq hc'.1 hc'.2] at hs; cases hs
  case case11 dst src h0 h4 u hx size src1 h1 hc blk hb l hl hlim chunk hd src2 h2 ih =>
    refine ⟨ih.1, fun out h => ?_⟩
    have hfr := ih.2 out h
    have hu := u32be_beNat src (by omega)
    rw [hu.1] at hx
    have hu' : Spec.beNat (src.take 4) = u := Option.some.inj hx
    have v1 := sliceFrom_val h1
    have v2 := sliceFrom_val h2
    have hsz : ¬ size < 0 := by omega
    have t := toInt32_nonneg (hu' ▸ hu.2) hsz
    have hsize : size = (u : Int) := t.2
    have e1 : src1 = src.drop 4 := by simpa using v1.2.2
    have hlen : u ≤ (src.drop 4).length := by
      have : size ≤ (src1.length : Int) := by omega
      rw [hsize, e1] at this; omega
    have e2 : src2 = (src.drop 4).drop u := by
      rw [v2.2.2, e1, hsize]; simp
    rw [Spec.frames]
    rw [dif_neg h0, dif_neg h4, hu', if_neg (by omega)]
    rw [← e2]
    cases hf : Spec.frames src2 with
    | none => rw [hf] at hfr; cases hfr
    | some bs => simp

/-- (K1) `s2.Decode` returns exactly `s2.DecodedLen` bytes. -/
def DecodeHonoursLen (lib : Lib) : Prop := ∀ b c, lib.snapDec b = some c → lib.snapLen b = some c.length

theorem xerialLoop_bounded (lib : Lib) (max : Nat) (hK : DecodeHonoursLen lib) (dst src : Bytes) :
    dst.length ≤ max → ∀ out, xerialLoop lib max dst src = .ok out → out.length ≤ max := by
  fun_induction xerialLoop lib max dst src
  case case1 => intro hd out h; cases h; exact hd
  case case2 => intro _ out h; cases h
  case case3 => intro _ out h; cases h
  case case4 => intro _ out h; cases h
  case case5 => intro _ out h; cases h
  case case6 => intro _ out h; cases h
  case case7 => intro _ out h; cases h
  case case8 => intro _ out h; cases h
  case case9 => intro _ out h; cases h
  case case10 => intro _ out h; cases h
  case case11 dst src h0 h4 u hx size src1 h1 hc blk hb l hl hlim chunk hd src2 h2 ih =>
    intro hdst out h
    have := hK blk chunk hd
    rw [hl] at this
    have hl' : l = chunk.length := Option.some.inj this
    apply ih _ out h
    rw [List.length_append]
    omega

/-- the length field the Java xerial writer puts in front of a block -/
def be32 (n : Nat) : Bytes :=
  [UInt8.ofNat (n / 16777216 % 256), UInt8.ofNat (n / 65536 % 256), UInt8.ofNat (n / 256 % 256), UInt8.ofNat (n % 256)]

def frame (b : Bytes) : Bytes := be32 b.length ++ b

theorem u32be_be32 (n : Nat) (h : n < 4294967296) (rest : Bytes) : u32be (be32 n ++ rest) = some n := by
  simp [be32, u32be]
  omega

theorem xerialLoop_concat (lib : Lib) (max : Nat) (dec : Bytes → Bytes) : ∀ (bs : List Bytes) (dst : Bytes),
    (∀ b ∈ bs, b.length < 2147483648 ∧ lib.snapLen b = some (dec b).length ∧ lib.snapDec b = some (dec b)) →
    dst.length + ((bs.map dec).flatten).length ≤ max →
    xerialLoop lib max dst (bs.flatMap frame) = .ok (dst ++ (bs.map dec).flatten) := by
  intro bs
  induction bs with
  | nil => intro dst _ _; rw [xerialLoop]; simp
  | cons b bs ih =>
    intro dst hb hmax
    have hb0 := hb b (by simp)
    have hlen : (be32 b.length ++ (b ++ List.flatMap frame bs)).length ≥ 4 := by simp [be32]
    have e : (b :: bs).flatMap frame = be32 b.length ++ (b ++ bs.flatMap frame) := by simp [frame]
    rw [e, xerialLoop]
    rw [dif_neg (by omega), dif_neg (by omega), u32be_be32 _ (by omega)]
    have hsz : toInt32 b.length = (b.length : Int) := by
      unfold toInt32; rw [if_neg (by omega)]
    have s1 : sliceFrom (be32 b.length ++ (b ++ List.flatMap frame bs)) 4 = some (b ++ List.flatMap frame bs) := by
      rw [sliceFrom_eq (by omega) (by omega)]
      simp [be32]
    have s2 : sliceTo (b ++ List.flatMap frame bs) (toInt32 b.length) = some b := by
      rw [hsz, sliceTo_eq (by omega) (by rw [List.length_append]; omega)]
      simp
    have s3 : sliceFrom (b ++ List.flatMap frame bs) (toInt32 b.length) = some (List.flatMap frame bs) := by
      rw [hsz, sliceFrom_eq (by omega) (by rw [List.length_append]; omega)]
      simp
    simp only [List.map_cons, List.flatten_cons, List.length_append] at hmax
    simp only []
    split
    · rename_i h; rw [s1] at h; cases h
    · rename_i src1 h
      rw [s1] at h; cases h
      rw [if_neg (by rw [hsz, List.length_append]; omega)]
      split
      · rename_i h; rw [s2] at h; cases h
      · rename_i blk h
        rw [s2] at h; cases h
        rw [hb0.2.1]
        simp only
        rw [if_neg (by omega), hb0.2.2]
        simp only
        split
        · rename_i h; rw [s3] at h; cases h
        · rename_i src2 h
          rw [s3] at h; cases h
          rw [ih (dst ++ dec b) (fun b' hb' => hb b' (List.mem_cons_of_mem _ hb')) (by rw [List.length_append]; omega)]
          simp

theorem limitedCopy_bounded (max : Nat) (s : Stream) (out : Bytes) (h : limitedCopy max s = .ok out) :
    out.length ≤ max ∧ out = s.bytes ∧ s.clean = true := by
  unfold limitedCopy at h
  split at h
  · cases h
  · split at h
    · split at h <;> cases h
    · split at h
      · cases h
      · rename_i h1 h2 h3
        cases h
        refine ⟨by omega, rfl, by simpa using h3⟩

theorem limitedCopy_ne_panic (max : Nat) (s : Stream) : limitedCopy max s ≠ .panic := by
  unfold limitedCopy
  repeat' split
  all_goals simp

theorem xerialDecode_ne_panic (lib : Lib) (max : Nat) (dst src : Bytes) (h : 16 ≤ src.length) :
    xerialDecode lib max dst src ≠ .panic := by
  unfold xerialDecode
  rw [sliceFrom_eq (by omega) (by omega)]
  exact (xerialLoop_safe lib max dst _).1

theorem decompress_ne_panic (lib : Lib) (max : Nat) (codec : Int) (src : Bytes) :
    decompress lib max codec src ≠ .panic := by
  unfold decompress
  split
  · simp
  · split
    · exact limitedCopy_ne_panic _ _
    · split
      · split
        · rename_i hx
          have : 16 ≤ src.length := by
            have := (Bool.and_eq_true _ _).mp hx
            have := of_decide_eq_true this.1
            omega
          exact xerialDecode_ne_panic lib max [] src this
        · repeat' split
          all_goals simp
      · split
        · exact limitedCopy_ne_panic _ _
        · repeat' split
          all_goals simp

/-- (K2) `zstd.DecodeAll` under `WithDecoderMaxMemory(max)` returns at most `max` bytes. -/
def ZstdHonoursLimit (lib : Lib) : Prop := ∀ max src d, lib.zstd max src = some d → d.length ≤ max

theorem decompress_bounded (lib : Lib) (max : Nat) (hK1 : DecodeHonoursLen lib) (hK2 : ZstdHonoursLimit lib)
    (codec : Int) (hc : codec ≠ 0) (src out : Bytes) (h : decompress lib max codec src = .ok out) :
    out.length ≤ max := by
  unfold decompress at h
  have hc' : (codec == 0) = false := by simpa using hc
  rw [hc'] at h
  simp only [Bool.false_eq_true, if_false] at h
  split at h
  · exact (limitedCopy_bounded _ _ _ h).1
  · split at h
    · split at h
      · unfold xerialDecode at h
        split at h
        · cases h
        · exact xerialLoop_bounded lib max hK1 [] _ (by simp) out h
      · split at h
        · cases h
        · rename_i l hl
          split at h
          · cases h
          · rename_i hle
            split at h
            · cases h
            · rename_i d hd
              cases h
              have := hK1 src out hd
              rw [hl] at this
              have : l = out.length := Option.some.inj this
              omega
    · split at h
      · exact (limitedCopy_bounded _ _ _ h).1
      · split at h
        · split at h
          · cases h
          · rename_i d hd
            cases h
            exact hK2 max src out hd
        · cases h

theorem choose_mem (opts : List Int) (dis : Bool) : choose opts dis = 0 ∨ choose opts dis ∈ opts := by
  induction opts with
  | nil => left; rfl
  | cons o rest ih =>
    unfold choose
    split
    · rcases ih with h | h
      · left; exact h
      · right; exact List.mem_cons_of_mem _ h
    · right; simp

/-- (K3) the decoders invert the encoders on what the encoders emit (and raw snappy never starts with the xerial magic). -/
structure RoundTrips (enc : Enc) (lib : Lib) (max : Nat) : Prop where
  gzip : ∀ lvl src out, enc 1 lvl src = some out → (lib.stream 1 out).bytes = src ∧ (lib.stream 1 out).clean = true
  lz4 : ∀ lvl src out, enc 3 lvl src = some out → (lib.stream 3 out).bytes = src ∧ (lib.stream 3 out).clean = true
  snappy : ∀ lvl src out, enc 2 lvl src = some out →
    lib.snapLen out = some src.length ∧ lib.snapDec out = some src ∧ (out.length > 16 && hasPrefix out xerialPfx) = false
  zstd : ∀ lvl src out, enc 4 lvl src = some out → src.length ≤ max → lib.zstd max out = some src

theorem roundtrip (enc : Enc) (lib : Lib) (max : Nat) (hrt : RoundTrips enc lib max)
    (prefs : List Pref) (opts flags : List Int) (hopts : ∀ o ∈ opts, 0 ≤ o ∧ o ≤ 4)
    (src : Bytes) (hlen : src.length ≤ max) (bytes : Bytes)
    (h : (compress enc prefs opts flags src).1 = some bytes) :
    decompress lib max (compress enc prefs opts flags src).2 bytes = .ok src := by
  unfold compress at *
  by_cases h0 : choose opts (disableZstd flags) = 0
  · simp [h0] at h ⊢
    simp [decompress, h]
  · have hmem : choose opts (disableZstd flags) ∈ opts := by
      rcases choose_mem opts (disableZstd flags) with h | h
      · exact absurd h h0
      · exact h
    have hr := hopts _ hmem
    generalize choose opts (disableZstd flags) = use at *
    have h0' : (use == 0) = false := by simpa using h0
    simp only [h0', Bool.false_eq_true, if_false] at h ⊢
    cases he : enc use (levelOf prefs use) src with
    | none => rw [he] at h; simp at h
    | some out =>
      rw [he] at h
      simp only at h ⊢
      cases h
      have hcases : use = 1 ∨ use = 2 ∨ use = 3 ∨ use = 4 := by omega
      rcases hcases with h1 | h1 | h1 | h1
      · subst h1
        have := hrt.gzip _ _ _ he
        unfold decompress limitedCopy
        simp [this.1, this.2]
        rw [if_neg (by omega), if_neg (by omega)]
      · subst h1
        have := hrt.snappy _ _ _ he
        unfold decompress
        simp [this.1, this.2.1, this.2.2]
        omega
      · subst h1
        have := hrt.lz4 _ _ _ he
        unfold decompress limitedCopy
        simp [this.1, this.2]
        rw [if_neg (by omega), if_neg (by omega)]
      · subst h1
        have := hrt.zstd _ _ _ he hlen
        unfold decompress
        simp [this]

/-! ### Reference decoders -/

/-- result is an error, or an array whose size satisfies `P`; never a panic -/
def okSize {α : Type} (sz : α → Nat) (P : Nat → Prop) : R α → Prop
  | .ok o => P (sz o)
  | .err => True
  | .panic => False

theorem rd_eq {a : Arr} {i : Nat} (h : i < a.size) : rd a i = .ok a[i].toNat := by
  simp [rd, h]

theorem rdLE_ok (a : Arr) : ∀ (n i : Nat), i + n ≤ a.size → ∃ v, rdLE a i n = .ok v := by
  intro n
  induction n with
  | zero => intro i _; exact ⟨0, rfl⟩
  | succ n ih =>
    intro i h
    obtain ⟨v, hv⟩ := ih (i + 1) (by omega)
    unfold rdLE
    rw [rd_eq (by omega), hv]
    exact ⟨_, rfl⟩

theorem slice_ok {a : Arr} {lo hi : Nat} (h1 : lo ≤ hi) (h2 : hi ≤ a.size) :
    slice a lo hi = .ok (a.extract lo hi) ∧ (a.extract lo hi).size = hi - lo := by
  constructor
  · simp [slice, h1, h2]
  · rw [Array.size_extract]; omega

theorem copyBack_ok : ∀ (n off : Nat) (out : Arr), 0 < off → off ≤ out.size →
    ∃ o, copyBack n off out = .ok o ∧ o.size = out.size + n := by
  intro n
  induction n with
  | zero => intro off out _ _; exact ⟨out, rfl, rfl⟩
  | succ n ih =>
    intro off out h0 h1
    unfold copyBack
    rw [dif_pos ⟨h0, h1⟩]
    obtain ⟨o, ho, hs⟩ := ih off (out.push out[out.size - off]) h0 (by rw [Array.size_push]; omega)
    exact ⟨o, ho, by rw [hs, Array.size_push]; omega⟩

theorem lenExt_safe (a : Arr) : ∀ (fuel i acc : Nat), okSize (fun _ => 0) (fun _ => True) (lenExt a fuel i acc) := by
  intro fuel
  induction fuel with
  | zero => intro i acc; simp [lenExt, okSize]
  | succ n ih =>
    intro i acc
    unfold lenExt
    split
    · simp [okSize]
    · rename_i h
      rw [rd_eq (by omega)]
      simp only
      split
      · simp [okSize]
      · exact ih _ _

theorem uvarintGo_safe (a : Arr) : ∀ (fuel i sh acc : Nat), okSize (fun _ => 0) (fun _ => True) (uvarintGo a fuel i sh acc) := by
  intro fuel
  induction fuel with
  | zero => intro i sh acc; simp [uvarintGo, okSize]
  | succ n ih =>
    intro i sh acc
    unfold uvarintGo
    split
    · simp [okSize]
    · rename_i h
      rw [rd_eq (by omega)]
      simp only
      split
      · simp [okSize]
      · exact ih _ _ _

theorem snapLoop_safe (src : Arr) (dLen : Nat) : ∀ (fuel s : Nat) (out : Arr), out.size ≤ dLen →
    okSize Array.size (· = dLen) (snapLoop src dLen fuel s out) := by
  intro fuel
  induction fuel with
  | zero => intro s out _; simp [snapLoop, okSize]
  | succ n ih =>
    intro s out hle
    unfold snapLoop
    split
    · split
      · rename_i h; simpa [okSize] using h
      · simp [okSize]
    · rename_i hs
      rw [rd_eq (by omega)]
      simp only
      generalize src[s].toNat = tag
      by_cases ht : tag % 4 = 0
      · rw [if_pos ht]
        generalize (if tag / 4 < 60 then 0 else tag / 4 - 59) = nb
        by_cases hb : s + 1 + nb > src.size
        · rw [if_pos hb]; simp [okSize]
        · rw [if_neg hb]
          obtain ⟨v, hv⟩ := rdLE_ok src nb (s + 1) (by omega)
          rw [hv]
          simp only
          generalize ((if tag / 4 < 60 then tag / 4 else v) + 1) = len
          by_cases hl : len > dLen - out.size ∨ len > src.size - (s + 1 + nb)
          · rw [if_pos hl]; simp [okSize]
          · rw [if_neg hl]
            have sl := @slice_ok src (s + 1 + nb) (s + 1 + nb + len) (by omega) (by omega)
            rw [sl.1]
            simp only
            apply ih
            rw [Array.size_append, sl.2]
            omega
      · rw [if_neg ht]
        generalize (if tag % 4 = 1 then 1 else if tag % 4 = 2 then 2 else 4) = nb
        by_cases hb : s + 1 + nb > src.size
        · rw [if_pos hb]; simp [okSize]
        · rw [if_neg hb]
          obtain ⟨v, hv⟩ := rdLE_ok src nb (s + 1) (by omega)
          rw [hv]
          simp only
          generalize (if tag % 4 = 1 then 4 + tag / 4 % 8 else 1 + tag / 4) = len
          generalize (if tag % 4 = 1 then tag / 32 * 256 + v else v) = off
          by_cases hl : off = 0 ∨ off > out.size ∨ len > dLen - out.size
          · rw [if_pos hl]; simp [okSize]
          · rw [if_neg hl]
            obtain ⟨o, ho, hsz⟩ := copyBack_ok len off out (by omega) (by omega)
            rw [ho]
            simp only
            apply ih
            omega

theorem snappyLen_ne_panic (src : Arr) : snappyLen src ≠ .panic := by
  unfold snappyLen
  have := uvarintGo_safe src 10 0 0 0
  cases h : uvarintGo src 10 0 0 0 with
  | ok r => obtain ⟨v, n⟩ := r; simp only; split <;> simp
  | err => simp
  | panic => rw [h] at this; exact absurd this (by simp [okSize])

/-- The reference snappy decoder never reads out of range, and what it returns has exactly the length the
block's header declares (which is at most `limit`). -/
theorem snappyDecode_safe (limit : Nat) (src : Arr) :
    snappyDecode limit src ≠ .panic ∧
    ∀ out, snappyDecode limit src = .ok out → (∃ n, snappyLen src = .ok (out.size, n)) ∧ out.size ≤ limit := by
  unfold snappyDecode
  cases h : snappyLen src with
  | err => simp
  | panic => exact absurd h (snappyLen_ne_panic src)
  | ok r =>
    obtain ⟨dLen, n⟩ := r
    simp only
    by_cases hl : dLen > limit
    · rw [if_pos hl]; simp
    · rw [if_neg hl]
      have := snapLoop_safe src dLen (src.size + 1) n (Array.emptyWithCapacity dLen) (by simp)
      cases hr : snapLoop src dLen (src.size + 1) n (Array.emptyWithCapacity dLen) with
      | err => simp
      | panic => rw [hr] at this; exact absurd this (by simp [okSize])
      | ok out =>
        rw [hr] at this
        simp only [okSize] at this
        refine ⟨by simp, fun o ho => ?_⟩
        cases ho
        exact ⟨⟨n, by rw [this]⟩, by omega⟩

theorem lz4Seqs_safe (blk : Arr) (cap base : Nat) : ∀ (fuel s : Nat) (out : Arr), out.size ≤ cap →
    okSize Array.size (· ≤ cap) (lz4Seqs blk cap base fuel s out) := by
  intro fuel
  induction fuel with
  | zero => intro s out _; simp [lz4Seqs, okSize]
  | succ n ih =>
    intro s out hle
    unfold lz4Seqs
    by_cases hs : s ≥ blk.size
    · rw [if_pos hs]; simp [okSize]
    · rw [if_neg hs, rd_eq (by omega)]
      simp only
      generalize blk[s].toNat = tok
      generalize hq : (if tok / 16 = 15 then lenExt blk blk.size (s + 1) 15 else R.ok (tok / 16, s + 1)) = q
      have hqs : okSize (fun _ => 0) (fun _ => True) q := by
        rw [← hq]; split
        · exact lenExt_safe _ _ _ _
        · simp [okSize]
      cases q with
      | err => simp [okSize]
      | panic => simp [okSize] at hqs
      | ok r =>
        obtain ⟨ll, s1⟩ := r
        simp only
        by_cases hg : s1 > blk.size ∨ ll > blk.size - s1 ∨ ll > cap - out.size
        · rw [if_pos hg]; simp [okSize]
        · rw [if_neg hg]
          have sl := @slice_ok blk s1 (s1 + ll) (by omega) (by omega)
          rw [sl.1]
          simp only
          have hsz : (out ++ blk.extract s1 (s1 + ll)).size = out.size + ll := by rw [Array.size_append, sl.2]; omega
          by_cases he : s1 + ll = blk.size
          · rw [if_pos he]; simp only [okSize]; omega
          · rw [if_neg he]
            by_cases h2 : s1 + ll + 2 > blk.size
            · rw [if_pos h2]; simp [okSize]
            · rw [if_neg h2]
              obtain ⟨off, hoff⟩ := rdLE_ok blk 2 (s1 + ll) (by omega)
              rw [hoff]
              simp only
              generalize hq2 : (if tok % 16 = 15 then lenExt blk blk.size (s1 + ll + 2) 19 else R.ok (tok % 16 + 4, s1 + ll + 2)) = q2
              have hqs2 : okSize (fun _ => 0) (fun _ => True) q2 := by
                rw [← hq2]; split
                · exact lenExt_safe _ _ _ _
                · simp [okSize]
              cases q2 with
              | err => simp [okSize]
              | panic => simp [okSize] at hqs2
              | ok r2 =>
                obtain ⟨ml, s3⟩ := r2
                simp only
                by_cases hm : off = 0 ∨ off > (out ++ blk.extract s1 (s1 + ll)).size - base ∨ ml > cap - (out ++ blk.extract s1 (s1 + ll)).size
                · rw [if_pos hm]; simp [okSize]
                · rw [if_neg hm]
                  obtain ⟨o, ho, hos⟩ := copyBack_ok ml off (out ++ blk.extract s1 (s1 + ll)) (by omega) (by omega)
                  rw [ho]
                  simp only
                  apply ih
                  omega

theorem lz4Blocks_safe (xxh : Arr → Nat) (src : Arr) (limit blockMax : Nat) (indep bchk : Bool) :
    ∀ (fuel p : Nat) (out : Arr), out.size ≤ limit →
    okSize (fun r : Arr × Nat => r.1.size) (· ≤ limit) (lz4Blocks xxh src limit blockMax indep bchk fuel p out) := by
  intro fuel
  induction fuel with
  | zero => intro p out _; simp [lz4Blocks, okSize]
  | succ n ih =>
    intro p out hle
    unfold lz4Blocks
    by_cases hp : p + 4 > src.size
    · rw [if_pos hp]; simp [okSize]
    · rw [if_neg hp]
      obtain ⟨w, hw⟩ := rdLE_ok src 4 p (by omega)
      rw [hw]
      simp only
      by_cases hw0 : w = 0
      · rw [if_pos hw0]; simpa [okSize] using hle
      · rw [if_neg hw0]
        generalize w % 2147483648 = nn
        by_cases hn : nn > blockMax ∨ nn > src.size - (p + 4)
        · rw [if_pos hn]; simp [okSize]
        · rw [if_neg hn]
          have sl := @slice_ok src (p + 4) (p + 4 + nn) (by omega) (by omega)
          rw [sl.1]
          simp only
          by_cases hc : (bchk && decide (p + 4 + nn + 4 > src.size)) = true
          · rw [if_pos hc]; simp [okSize]
          · rw [if_neg hc]
            generalize hq : (if bchk = true then rdLE src (p + 4 + nn) 4 else R.ok 0) = q
            have hqs : q ≠ .panic := by
              rw [← hq]
              split
              · rename_i hb
                have : p + 4 + nn + 4 ≤ src.size := by
                  simp [hb] at hc; omega
                obtain ⟨v, hv⟩ := rdLE_ok src 4 (p + 4 + nn) (by omega)
                rw [hv]; simp
              · simp
            cases q with
            | err => simp [okSize]
            | panic => exact absurd rfl hqs
            | ok sum =>
              simp only
              split
              · simp [okSize]
              · split
                · split
                  · simp [okSize]
                  · rename_i hlim
                    apply ih
                    rw [Array.size_append, sl.2]
                    omega
                · have := lz4Seqs_safe (src.extract (p + 4) (p + 4 + nn)) (min limit (out.size + blockMax))
                    (if indep = true then out.size else 0) ((src.extract (p + 4) (p + 4 + nn)).size + 1) 0 out (by omega)
                  cases hr : lz4Seqs (src.extract (p + 4) (p + 4 + nn)) (min limit (out.size + blockMax))
                    (if indep = true then out.size else 0) ((src.extract (p + 4) (p + 4 + nn)).size + 1) 0 out with
                  | err => simp [okSize]
                  | panic => rw [hr] at this; simp [okSize] at this
                  | ok out' =>
                    rw [hr] at this
                    simp only [okSize] at this
                    simp only
                    apply ih
                    omega

/-- The reference LZ4 frame decoder never reads out of range and never returns more than `limit` bytes. -/
theorem lz4Frame_safe (xxh : Arr → Nat) (limit : Nat) (src : Arr) :
    okSize Array.size (· ≤ limit) (lz4Frame xxh limit src) := by
  unfold lz4Frame
  by_cases h7 : src.size < 7
  · rw [if_pos h7]; simp [okSize]
  · rw [if_neg h7]
    obtain ⟨magic, hm⟩ := rdLE_ok src 4 0 (by omega)
    rw [hm, rd_eq (by omega : 4 < src.size), rd_eq (by omega : 5 < src.size)]
    simp only
    generalize src[4].toNat = flg
    generalize src[5].toNat = bd
    split
    · simp [okSize]
    · split
      · simp [okSize]
      · split
        · simp [okSize]
        · generalize hhl : (2 + (if (flg / 8 % 2 = 1) then 8 else 0) + (if (flg % 2 = 1) then 4 else 0)) = hlen
          generalize (if bd / 16 % 8 = 4 then 65536 else if bd / 16 % 8 = 5 then 262144 else if bd / 16 % 8 = 6 then 1048576 else 4194304) = bm
          generalize decide (flg / 32 % 2 = 1) = indep
          generalize decide (flg / 16 % 2 = 1) = bchk
          by_cases hh : 4 + hlen + 1 > src.size
          · rw [if_pos hh]; simp [okSize]
          · rw [if_neg hh]
            have sl := @slice_ok src 4 (4 + hlen) (by omega) (by omega)
            rw [sl.1, rd_eq (by omega : 4 + hlen < src.size)]
            generalize hq : (if (flg / 8 % 2 = 1) then rdLE src 6 8 else R.ok 0) = q
            have hqs : q ≠ .panic := by
              rw [← hq]; split
              · rename_i hcs
                have : hlen ≥ 10 := by rw [← hhl, if_pos hcs]; omega
                obtain ⟨v, hv⟩ := rdLE_ok src 8 6 (by omega)
                rw [hv]; simp
              · simp
            cases q with
            | err => simp [okSize]
            | panic => exact absurd rfl hqs
            | ok csz =>
              simp only
              split
              · simp [okSize]
              · have hb := lz4Blocks_safe xxh src limit bm indep bchk (src.size + 1) (4 + hlen + 1) (Array.emptyWithCapacity 0) (by simp)
                cases hr : lz4Blocks xxh src limit bm indep bchk (src.size + 1) (4 + hlen + 1) (Array.emptyWithCapacity 0) with
                | err => simp [okSize]
                | panic => rw [hr] at hb; simp [okSize] at hb
                | ok r =>
                  obtain ⟨out, p⟩ := r
                  rw [hr] at hb
                  simp only [okSize] at hb
                  simp only
                  split
                  · simp [okSize]
                  · split
                    · split
                      · simp [okSize]
                      · rename_i hp
                        obtain ⟨v, hv⟩ := rdLE_ok src 4 p (by omega)
                        rw [hv]
                        simp only
                        split
                        · simpa [okSize] using hb
                        · simp [okSize]
                    · split
                      · simpa [okSize] using hb
                      · simp [okSize]

end Proof.C19
