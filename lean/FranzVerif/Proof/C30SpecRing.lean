import FranzVerif.Model.C30
import FranzVerif.Spec.C30
import FranzVerif.Proof.C30Proto
namespace Proof.C30
set_option linter.unusedSimpArgs false
open Model.C30
open Spec.C30 (REv RSt ringStep)

/-- Spec-level events of one protocol step of thread `i` (the pushed element and `wait` come from the action, or
    from the thread's `waiting e` location on a resume) -/
def stepREv (s : QS) (i : Nat) (a : QAct) (ev : QEv) : List REv :=
  let ew : Nat × Bool := match s.pcs[i]?, a with
    | some (.waiting e), _ => (e, true)
    | _, .push e w => (e, w)
    | _, _ => (0, false)
  match ev with
  | .pushBlocked => [.blocked i]
  | .pushRet f d => .push i ew.1 ew.2 true f d :: (if f && !d then [.handed i ew.1] else [])
  | .dropRet n m d => .drop i true n m d :: (if m then [.handed i n] else [])
  | .died => [.die i]
  | .emptyRet b => [.empty i b]

abbrev specGo := Spec.C30.ringSpec.go

/-- the abstract state of the Spec replay corresponds to the model state -/
def Rel (s : QS) (σ : RSt) : Prop :=
  σ.q = s.r.abs ∧ σ.dead = s.r.dead ∧ σ.workers = s.workers ∧ σ.handed = s.handed ∧ σ.accepted = s.accepted

theorem specGo_append (m : Int) (p : Bool) (xs ys : List REv) (σ : RSt) :
    specGo m p (xs ++ ys) σ = (specGo m p xs σ).bind (specGo m p ys) := by
  induction xs generalizing σ with
  | nil => simp [specGo, Spec.C30.ringSpec.go, Except.bind]
  | cons x t ih =>
    simp only [List.cons_append, specGo, Spec.C30.ringSpec.go]
    cases ringStep m p σ x with
    | error k => simp [Except.bind]
    | ok σ1 => exact ih σ1

theorem abs_isEmpty (r : Ring) (hwf : WF r) : r.abs.isEmpty = (r.l == 0) := by
  have := abs_length r (wf_len r hwf)
  cases hq : r.abs with
  | nil => rw [hq] at this; simp at this; simp [← this]
  | cons a t => rw [hq] at this; simp at this; simp; omega

/-- the Spec accepts the events of a completed push critical section and stays in correspondence -/
theorem sim_push (s : QS) (r0 : Ring) (i e : Nat) (wait : Bool) (res : Ring × PushRes) (σ : RSt)
    (hI : QInv s) (hrel : Rel s σ)
    (h0abs : r0.abs = s.r.abs) (h0l : r0.l = s.r.l) (h0wf : WF r0) (h0d : r0.dead = s.r.dead) (h0m : r0.maxLen = s.r.maxLen)
    (h0i : r0.maxLen > 0 → r0.hasCond = true)
    (hres : r0.pushFrom i e wait = .ok res) (hI' : QInv (s.afterPush i e res).1) :
    ∃ σ', specGo s.r.maxLen true
        (match (s.afterPush i e res).2 with
          | .pushBlocked => [REv.blocked i]
          | .pushRet f d => REv.push i e wait true f d :: (if f && !d then [REv.handed i e] else [])
          | _ => []) σ = .ok σ' ∧ Rel (s.afterPush i e res).1 σ' := by
  obtain ⟨hq, hd, hw, hh, ha⟩ := hrel
  have hlen := abs_length s.r (wf_len s.r hI.wf)
  have hw0 := hI.w
  rcases pushFrom_cases r0 i e wait h0wf h0i with ⟨hnw, hdd, hfull, hc, h⟩ | ⟨_, hdd, h⟩ | ⟨hnw, hdd, r', h, hwf', habs', hl', hm', hcc, hd', hpp, hww⟩
  · rw [h] at hres; cases hres
    have hmpos : s.r.maxLen > 0 := by
      simp only [Bool.and_eq_true, Ring.needWait, decide_eq_true_eq] at hnw
      rw [← h0m]; exact hnw.2.1.1
    refine ⟨σ, ?_, ?_⟩
    · simp only [QS.afterPush, specGo, Spec.C30.ringSpec.go, ringStep]
      have : (decide (s.r.maxLen > 0) && decide ((σ.q.length : Int) ≥ s.r.maxLen) && !σ.dead) = true := by
        rw [hq, hlen, hd, ← h0d, hdd]; simp [hmpos]; rw [← h0l, ← h0m]; exact hfull
      simp [this]
    · simp only [QS.afterPush]
      refine ⟨by rw [hq]; exact (abs_congr r0 _ rfl rfl rfl |>.trans h0abs).symm, by rw [hd, ← h0d], ?_, hh, ha⟩
      have := hI'.w; simp only [QS.afterPush] at this
      rw [this, hw, hw0]; simp [h0l]
  · rw [h] at hres; cases hres
    refine ⟨σ, ?_, ?_⟩
    · simp only [QS.afterPush, specGo, Spec.C30.ringSpec.go, ringStep]
      have : (true != σ.dead) = false := by rw [hd, ← h0d, hdd]; rfl
      simp [Spec.C30.ringSpec.go, ringStep, this]
    · simp only [QS.afterPush, if_true]
      refine ⟨by rw [hq, h0abs], by rw [hd, h0d], ?_, hh, ha⟩
      have := hI'.w; simp only [QS.afterPush, if_true] at this
      rw [this, hw, hw0]; simp [h0l]
  · rw [h] at hres; cases hres
    have hdead : σ.dead = false := by rw [hd, ← h0d, hdd]
    have hfirst : (r0.l == 0) = σ.q.isEmpty := by rw [hq, abs_isEmpty s.r hI.wf, h0l]
    have hnb : (wait && decide (s.r.maxLen > 0) && decide ((σ.q.length : Int) ≥ s.r.maxLen)) = false := by
      rw [hq, hlen, ← h0l, ← h0m]
      simp only [Ring.needWait, hdd, Bool.not_false, Bool.and_true] at hnw
      rw [← Bool.and_assoc] at hnw; exact hnw
    by_cases hf : r0.l = 0
    · have hb : (r0.l == 0) = true := by simp [hf]
      have hσe : σ.q.isEmpty = true := by rw [← hfirst]; exact hb
      have hwk : σ.workers = 0 := by rw [hw, hw0, ← h0l]; simp [hf]
      refine ⟨{ σ with q := σ.q ++ [e], accepted := σ.accepted ++ [e], workers := 1, handed := σ.handed ++ [e] }, ?_, ?_⟩
      · simp only [QS.afterPush, hb, Bool.false_eq_true, if_false, if_true, Bool.not_false, Bool.and_self,
          specGo, Spec.C30.ringSpec.go, ringStep, hdead, hσe, hnb, hwk]
        simp
      · simp only [QS.afterPush, hb, Bool.false_eq_true, if_false, if_true]
        refine ⟨by simp [hq, habs', h0abs], by simp [hd', hdead, hdd], ?_, by simp [hh], by simp [ha]⟩
        have := hI'.w; simp only [QS.afterPush, hb, Bool.false_eq_true, if_false, if_true] at this
        rw [this, hl']; simp
    · have hb : (r0.l == 0) = false := by simp [hf]
      have hσe : σ.q.isEmpty = false := by rw [← hfirst]; exact hb
      have hwk : σ.workers = 1 := by rw [hw, hw0, ← h0l]; simp [hf]
      refine ⟨{ σ with q := σ.q ++ [e], accepted := σ.accepted ++ [e] }, ?_, ?_⟩
      · simp only [QS.afterPush, hb, Bool.false_eq_true, if_false, Bool.false_and,
          specGo, Spec.C30.ringSpec.go, ringStep, hdead, hσe, hnb]
        simp [hwk]
      · simp only [QS.afterPush, hb, Bool.false_eq_true, if_false]
        refine ⟨by simp [hq, habs', h0abs], by simp [hd', hdead, hdd], ?_, hh, by simp [ha]⟩
        have := hI'.w; simp only [QS.afterPush, hb, Bool.false_eq_true, if_false] at this
        rw [this, hl', hw, hw0, ← h0l]; simp [hf]


theorem afterPush_r (s : QS) (i e : Nat) (res : Ring × PushRes) : (s.afterPush i e res).1.r = res.1 := by
  obtain ⟨r', pr⟩ := res
  cases pr with
  | blocked => rfl
  | done f d => simp only [QS.afterPush]; split <;> (try split) <;> rfl

theorem pushFrom_maxLen (r0 : Ring) (i e : Nat) (wait : Bool) (res : Ring × PushRes) (h0wf : WF r0)
    (h0i : r0.maxLen > 0 → r0.hasCond = true) (hres : r0.pushFrom i e wait = .ok res) : res.1.maxLen = r0.maxLen := by
  rcases pushFrom_cases r0 i e wait h0wf h0i with ⟨_, _, _, _, h⟩ | ⟨_, _, h⟩ | ⟨_, _, r', h, _, _, _, hm', _⟩ <;>
    (rw [h] at hres; cases hres) <;> first | rfl | exact hm'

theorem afterPush_ev (s : QS) (i e : Nat) (res : Ring × PushRes) :
    (s.afterPush i e res).2 = .pushBlocked ∨ ∃ f d, (s.afterPush i e res).2 = .pushRet f d := by
  obtain ⟨r', pr⟩ := res
  cases pr with
  | blocked => left; rfl
  | done f d => right; refine ⟨f, d, ?_⟩; simp only [QS.afterPush]; split <;> (try split) <;> rfl

/-- **simulation**: the Spec replay accepts the events of every protocol step taken from a state satisfying the
    invariant, and the abstract Spec state keeps corresponding to the model state -/
theorem sim_step (s s' : QS) (i : Nat) (a : QAct) (ev : QEv) (σ : RSt) (hI : QInv s) (hrel : Rel s σ)
    (hs : s.step i a = .ok (some (s', ev))) :
    ∃ σ', specGo s.r.maxLen true (stepREv s i a ev) σ = .ok σ' ∧ Rel s' σ' ∧ s'.r.maxLen = s.r.maxLen := by
  have hI' : QInv s' := qinv_step s s' i a ev hI hs
  unfold QS.step at hs
  cases hl : s.pcs[i]? with
  | none => simp [hl] at hs
  | some loc =>
    cases loc with
    | idle =>
      cases a with
      | push e wait =>
        simp only [hl] at hs
        cases hp : s.r.pushFrom i e wait with
        | error m => simp [hp, Except.map] at hs
        | ok res =>
          simp only [hp, Except.map] at hs
          injection hs with hs; injection hs with hs
          have h1 : s' = (s.afterPush i e res).1 := by rw [hs]
          have h2 : ev = (s.afterPush i e res).2 := by rw [hs]
          obtain ⟨σ', hgo, hr'⟩ := sim_push s s.r i e wait res σ hI hrel rfl rfl hI.wf rfl rfl hI.cond.initOk hp (h1 ▸ hI')
          refine ⟨σ', ?_, h1 ▸ hr', ?_⟩
          · rw [← h2] at hgo
            rcases afterPush_ev s i e res with h | ⟨f, d, h⟩ <;> rw [← h2] at h <;> subst h <;>
              simpa [stepREv, hl] using hgo
          · rw [h1, afterPush_r]; exact pushFrom_maxLen s.r i e wait res hI.wf hI.cond.initOk hp
      | die =>
        simp only [hl] at hs
        cases hs
        obtain ⟨hq, hd, hw, hh, ha⟩ := hrel
        obtain ⟨_, _, h3, h4, h5, _⟩ := die_inv s.r hI.wf hI.cond
        refine ⟨{ σ with dead := true }, by simp [stepREv, specGo, Spec.C30.ringSpec.go, ringStep],
          ⟨by simp [hq, h4], by simp [h5], by simpa [QS.workers] using hw, hh, ha⟩, ?_⟩
        simp only [Ring.die]; split <;> simp [Ring.broadcast]
      | empty =>
        simp only [hl] at hs
        cases hs
        obtain ⟨hq, hd, hw, hh, ha⟩ := hrel
        refine ⟨σ, ?_, ⟨hq, hd, hw, hh, ha⟩, rfl⟩
        have : (s.r.empty != σ.q.isEmpty) = false := by rw [hq, abs_isEmpty s.r hI.wf]; simp [Ring.empty]
        simp [stepREv, specGo, Spec.C30.ringSpec.go, ringStep, this]
      | resume => simp [hl] at hs
      | dropPeek k => simp [hl] at hs
    | waiting e =>
      cases a with
      | resume =>
        simp only [hl] at hs
        by_cases hm : i ∈ s.r.woken
        · simp only [hm, if_true] at hs
          cases hp : ({ s.r with woken := s.r.woken.erase i } : Ring).pushFrom i e true with
          | error m => simp [hp, Except.map] at hs
          | ok res =>
            simp only [hp, Except.map] at hs
            injection hs with hs; injection hs with hs
            have h1 : s' = (s.afterPush i e res).1 := by rw [hs]
            have h2 : ev = (s.afterPush i e res).2 := by rw [hs]
            have hwf0 : WF ({ s.r with woken := s.r.woken.erase i } : Ring) := by simpa [WF] using hI.wf
            obtain ⟨σ', hgo, hr'⟩ := sim_push s ({ s.r with woken := s.r.woken.erase i }) i e true res σ hI hrel
              (abs_congr s.r _ rfl rfl rfl) rfl hwf0 rfl rfl hI.cond.initOk hp (h1 ▸ hI')
            refine ⟨σ', ?_, h1 ▸ hr', ?_⟩
            · rw [← h2] at hgo
              rcases afterPush_ev s i e res with h | ⟨f, d, h⟩ <;> rw [← h2] at h <;> subst h <;>
                simpa [stepREv, hl] using hgo
            · rw [h1, afterPush_r]; exact pushFrom_maxLen ({ s.r with woken := s.r.woken.erase i }) i e true res hwf0 hI.cond.initOk hp
        · simp [hm] at hs
      | push _ _ => simp [hl] at hs
      | die => simp [hl] at hs
      | empty => simp [hl] at hs
      | dropPeek k => simp [hl] at hs
    | drop =>
      cases a with
      | dropPeek k =>
        simp only [hl] at hs
        obtain ⟨hi, hli⟩ := getElem_of_getElem? hl
        obtain ⟨hq, hd, hw, hh, ha⟩ := hrel
        have hwpos : s.workers > 0 := by
          unfold QS.workers
          exact List.countP_pos_iff.mpr ⟨s.pcs[i], List.getElem_mem hi, by rw [hli]; simp⟩
        have hw0 := hI.w
        have hlpos : 0 < s.r.l := by
          rcases Nat.eq_zero_or_pos s.r.l with h | h
          · rw [if_pos h] at hw0; omega
          · exact h
        rw [if_neg (by omega)] at hw0
        obtain ⟨r', hdp, hwf', ha', hl', hm', hc', hdd, hpp, hww⟩ := dropPeek_spec s.r k hI.wf hlpos
        rw [hdp] at hs
        simp only [Except.map] at hs
        obtain ⟨q0, rest, hq0⟩ := abs_ne_nil s.r hI.wf hlpos
        have hrest : r'.abs = rest := by rw [ha', hq0]; rfl
        have hσq : σ.q = q0 :: rest := by rw [hq, hq0]
        have hdead : (s.r.dead != σ.dead) = false := by rw [hd]; simp
        have hmore : decide (0 < r'.l) = !rest.isEmpty := by
          rw [← hrest, abs_isEmpty r' hwf']; cases h : r'.l <;> simp
        by_cases hmr : 0 < r'.l
        · simp only [hmr, decide_true, if_true] at hs
          cases hs
          have hne : rest.isEmpty = false := by simpa [hmr] using hmore.symm
          refine ⟨{ σ with q := rest, handed := σ.handed ++ [rest.headD 0] }, ?_, ⟨?_, hd.trans hdd.symm, ?_, ?_, ha⟩, hm'⟩
          · simp [stepREv, specGo, Spec.C30.ringSpec.go, ringStep, hdead, hσq, hne, hrest]
          · exact hrest.symm
          · show σ.workers = s.workers; exact hw
          · show σ.handed ++ [rest.headD 0] = s.handed ++ [r'.abs.headD 0]; rw [hh, hrest]
        · simp only [hmr, decide_false, Bool.false_eq_true, if_false] at hs
          cases hs
          have hne : rest.isEmpty = true := by simpa [hmr] using hmore.symm
          have hz : r'.l = 0 := by omega
          refine ⟨{ σ with q := rest, workers := σ.workers - 1 }, ?_, ⟨?_, hd.trans hdd.symm, ?_, hh, ha⟩, hm'⟩
          · simp [stepREv, specGo, Spec.C30.ringSpec.go, ringStep, hdead, hσq, hne, hrest, abs_nil_of_l0 r' hz]
          · exact hrest.symm
          · have := hI'.w; simp only [hz, if_true] at this
            show σ.workers - 1 = _; rw [this, hw, hw0]
      | push _ _ => simp [hl] at hs
      | die => simp [hl] at hs
      | empty => simp [hl] at hs
      | resume => simp [hl] at hs

/-- run an action list of the queue protocol, collecting the Spec-level event log -/
def qrunEv (s : QS) : List (Nat × QAct) → Option (QS × List REv)
  | [] => some (s, [])
  | (i, a) :: as => match s.step i a with
    | .ok (some (s', ev)) => (match qrunEv s' as with
      | some (s'', evs) => some (s'', stepREv s i a ev ++ evs)
      | none => none)
    | _ => none

theorem sim_run (s s' : QS) (as : List (Nat × QAct)) (evs : List REv) (σ : RSt) (hI : QInv s) (hrel : Rel s σ)
    (hr : qrunEv s as = some (s', evs)) :
    ∃ σ', specGo s.r.maxLen true evs σ = .ok σ' ∧ Rel s' σ' ∧ QInv s' ∧ s'.r.maxLen = s.r.maxLen := by
  induction as generalizing s evs σ with
  | nil => simp [qrunEv] at hr; obtain ⟨h1, h2⟩ := hr; subst h1; subst h2; exact ⟨σ, rfl, hrel, hI, rfl⟩
  | cons x t ih =>
    obtain ⟨i, a⟩ := x
    simp only [qrunEv] at hr
    cases hs : s.step i a with
    | error m => simp [hs] at hr
    | ok o =>
      cases o with
      | none => simp [hs] at hr
      | some p =>
        obtain ⟨s1, ev⟩ := p
        simp only [hs] at hr
        cases h2 : qrunEv s1 t with
        | none => simp [h2] at hr
        | some q =>
          obtain ⟨s2, evs2⟩ := q
          simp only [h2, Option.some.injEq, Prod.mk.injEq] at hr
          obtain ⟨hs2, hevs⟩ := hr
          subst hs2
          obtain ⟨σ1, hgo1, hrel1, hm1⟩ := sim_step s s1 i a ev σ hI hrel hs
          have hI1 := qinv_step s s1 i a ev hI hs
          obtain ⟨σ2, hgo2, hrel2, hI2, hm2⟩ := ih s1 evs2 σ1 hI1 hrel1 h2
          refine ⟨σ2, ?_, hrel2, hI2, by rw [hm2, hm1]⟩
          rw [← hevs, specGo_append, hgo1]
          simp only [Except.bind]
          rw [← hm1]; exact hgo2
end Proof.C30
