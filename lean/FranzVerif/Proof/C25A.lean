import FranzVerif.Proof.C25
/-! Helper lemmas about `adjust` (AdjustCooperative) for Props/C25 and Props/C27 (core Lean only). -/
namespace Proof.C25
open Model.C25

/-- one step of the removal loop of `adjust`. -/
def adjStep (ms : List Member) (plan : List Triple) (acc : List Triple) (tp : TP) : List Triple :=
  match addedTo ms plan tp with
  | some a => acc.erase (a.id, tp.1, tp.2)
  | none => acc

theorem adjust_eq (ms : List Member) (plan : List Triple) :
    adjust ms plan = (revokedList ms plan).foldl (adjStep ms plan) plan := rfl

theorem adjStep_sublist (ms : List Member) (plan acc : List Triple) (tp : TP) : (adjStep ms plan acc tp).Sublist acc := by
  unfold adjStep; split
  · exact List.erase_sublist
  · exact List.Sublist.refl _

theorem foldl_adjStep_sublist (ms : List Member) (plan : List Triple) (L : List TP) (acc : List Triple) :
    (L.foldl (adjStep ms plan) acc).Sublist acc := by
  induction L generalizing acc with
  | nil => exact List.Sublist.refl _
  | cons tp L ih => exact (ih _).trans (adjStep_sublist ms plan acc tp)

theorem adjust_sublist (ms : List Member) (plan : List Triple) : (adjust ms plan).Sublist plan :=
  foldl_adjStep_sublist ms plan _ plan

/-- whatever disappears was erased for a revoked partition, from the member recorded in `allAdded`. -/
theorem erased_of_not_mem (ms : List Member) (plan : List Triple) (L : List TP) (acc : List Triple) (x : Triple)
    (hx : x ∈ acc) (hn : x ∉ L.foldl (adjStep ms plan) acc) :
    ∃ tp ∈ L, ∃ a, addedTo ms plan tp = some a ∧ x = (a.id, tp.1, tp.2) := by
  induction L generalizing acc with
  | nil => exact absurd hx hn
  | cons tp L ih =>
    simp only [List.foldl_cons] at hn
    by_cases hin : x ∈ adjStep ms plan acc tp
    · obtain ⟨tp', h1, h2⟩ := ih _ hin hn
      exact ⟨tp', List.mem_cons_of_mem _ h1, h2⟩
    · unfold adjStep at hin
      cases ha : addedTo ms plan tp with
      | none => rw [ha] at hin; exact absurd hx hin
      | some a =>
        rw [ha] at hin
        simp only [] at hin
        by_cases he : x = (a.id, tp.1, tp.2)
        · exact ⟨tp, List.mem_cons_self, a, ha, he⟩
        · exact absurd ((List.mem_erase_of_ne he).mpr hx) hin

/-- with a duplicate-free plan, the triple recorded for a revoked partition is really gone. -/
theorem not_mem_of_erased (ms : List Member) (plan : List Triple) (L : List TP) (acc : List Triple)
    (hnd : acc.Nodup) (tp : TP) (htp : tp ∈ L) (a : Member) (ha : addedTo ms plan tp = some a) :
    (a.id, tp.1, tp.2) ∉ L.foldl (adjStep ms plan) acc := by
  induction L generalizing acc with
  | nil => cases htp
  | cons tp' L ih =>
    simp only [List.foldl_cons]
    have hnd' : (adjStep ms plan acc tp').Nodup := List.Nodup.sublist (adjStep_sublist ms plan acc tp') hnd
    rcases List.mem_cons.mp htp with rfl | h
    · intro hm
      have := (foldl_adjStep_sublist ms plan L _).subset hm
      unfold adjStep at this
      rw [ha] at this
      exact ((List.Nodup.mem_erase_iff hnd).mp this).1 rfl
    · exact ih _ hnd' h

theorem mem_revokedList (ms : List Member) (plan : List Triple) (tp : TP) :
    tp ∈ revokedList ms plan ↔
      ∃ m ∈ ms, ∃ e ∈ m.owned, e.1 = tp.1 ∧ tp.2 ∈ e.2 ∧ (m.id, tp.1, tp.2) ∉ plan := by
  unfold revokedList
  rw [mem_dedup]
  simp only [List.mem_flatMap, List.mem_map, List.mem_filter, Bool.not_eq_true', ]
  constructor
  · rintro ⟨m, hm, e, he, p, ⟨hp, hnc⟩, rfl⟩
    refine ⟨m, hm, e, he, rfl, hp, ?_⟩
    intro hc
    have := List.contains_iff_mem.mpr hc
    rw [hnc] at this; exact Bool.noConfusion this
  · rintro ⟨m, hm, e, he, h1, h2, h3⟩
    refine ⟨m, hm, e, he, tp.2, ⟨h2, ?_⟩, by rw [h1]⟩
    cases hc : plan.contains (m.id, e.1, tp.2) with
    | false => rfl
    | true => exact absurd (by rw [h1] at hc; exact List.contains_iff_mem.mp hc) h3

theorem claims_iff (m : Member) (tp : TP) : claims m tp = true ↔ ∃ e ∈ m.owned, e.1 = tp.1 ∧ tp.2 ∈ e.2 := by
  unfold claims
  simp only [List.any_eq_true, Bool.and_eq_true, beq_iff_eq, List.contains_iff_mem]

/-- among the claimants of a partition there is one of maximal generation: a current owner. -/
theorem exists_max_gen (l : List Member) (h : l ≠ []) : ∃ m ∈ l, ∀ o ∈ l, o.gen ≤ m.gen := by
  induction l with
  | nil => exact absurd rfl h
  | cons a as ih =>
    by_cases hn : as = []
    · subst hn; exact ⟨a, List.mem_cons_self, fun o ho => by simp at ho; rw [ho]; exact Int.le_refl _⟩
    · obtain ⟨m, hm, hmax⟩ := ih hn
      by_cases hc : m.gen ≤ a.gen
      · refine ⟨a, List.mem_cons_self, fun o ho => ?_⟩
        rcases List.mem_cons.mp ho with rfl | ho
        · exact Int.le_refl _
        · exact Int.le_trans (hmax o ho) hc
      · refine ⟨m, List.mem_cons_of_mem _ hm, fun o ho => ?_⟩
        rcases List.mem_cons.mp ho with rfl | ho
        · omega
        · exact hmax o ho

theorem exists_currentOwner (ms : List Member) (tp : TP) (h : ∃ m ∈ ms, claims m tp = true) :
    ∃ m ∈ ms, currentOwner ms m tp = true := by
  obtain ⟨m0, hm0, hc0⟩ := h
  have hne : ms.filter (claims · tp) ≠ [] := by
    intro e
    have : m0 ∈ ms.filter (claims · tp) := List.mem_filter.mpr ⟨hm0, hc0⟩
    rw [e] at this; cases this
  obtain ⟨m, hm, hmax⟩ := exists_max_gen _ hne
  have := List.mem_filter.mp hm
  refine ⟨m, this.1, ?_⟩
  unfold currentOwner
  simp only [Bool.and_eq_true, List.all_eq_true, decide_eq_true_eq]
  exact ⟨this.2, hmax⟩

/-- `maxClaim`'s fold: the result bounds every folded generation and the start value. -/
theorem foldl_max_ge (l : List Member) (acc : Option Int) :
    (∀ o ∈ l, ∃ g, l.foldl maxStep acc = some g ∧ o.gen ≤ g) ∧
    (∀ a, acc = some a → ∃ g, l.foldl maxStep acc = some g ∧ a ≤ g) := by
  induction l generalizing acc with
  | nil => exact ⟨fun o ho => (by cases ho), fun a ha => ⟨a, ha, Int.le_refl _⟩⟩
  | cons x xs ih =>
    simp only [List.foldl_cons]
    constructor
    · intro o ho
      rcases List.mem_cons.mp ho with rfl | ho
      · cases acc with
        | none => exact (ih (some o.gen)).2 o.gen rfl
        | some a =>
          simp only [maxStep]
          split
          · exact (ih _).2 o.gen rfl
          · obtain ⟨g, h1, h2⟩ := (ih (some a)).2 a rfl
            exact ⟨g, h1, by omega⟩
      · exact (ih _).1 o ho
    · intro a ha
      subst ha
      simp only [maxStep]
      split
      · obtain ⟨g, h1, h2⟩ := (ih _).2 x.gen rfl
        exact ⟨g, h1, by omega⟩
      · exact (ih _).2 a rfl

theorem geMax_false_of_higher (ms : List Member) (m o : Member) (tp : TP) (ho : o ∈ ms) (hc : claims o tp = true)
    (hlt : m.gen < o.gen) : geMax ms m tp = false := by
  unfold geMax maxClaim
  obtain ⟨g, h1, h2⟩ := (foldl_max_ge (ms.filter (claims · tp)) none).1 o (List.mem_filter.mpr ⟨ho, hc⟩)
  rw [h1]
  simp only [decide_eq_false_iff_not]
  omega

end Proof.C25

namespace Proof.C25
open Model.C25

/-! ### validity with allowed holes -/

theorem validPlan_elim (subs : List (String × List String)) (n : String → Nat) (P : List Triple)
    (h : validPlan subs n P = true) :
    (∀ x ∈ P, (∃ s ∈ subs, s.1 = x.1 ∧ x.2.1 ∈ s.2) ∧ x.2.2 < n x.2.1) ∧
    (∀ t ∈ subs.flatMap (·.2), ((P.filter fun x => x.2.1 == t).map (·.2.2)).Perm (List.range (n t))) := by
  simp only [validPlan, Bool.and_eq_true, List.all_eq_true, List.any_eq_true, decide_eq_true_eq, beq_iff_eq,
    List.contains_iff_mem] at h
  refine ⟨fun x hx => ?_, fun t ht => List.isPerm_iff.mp (h.2 t ht)⟩
  obtain ⟨⟨s, hs, e1, e2⟩, hlt⟩ := h.1 x hx
  exact ⟨⟨s, hs, e1, e2⟩, hlt⟩

/-- in a valid plan every partition of a subscribed topic is planned exactly once. -/
theorem validPlan_once (subs : List (String × List String)) (n : String → Nat) (P : List Triple)
    (h : validPlan subs n P = true) (t : String) (ht : t ∈ subs.flatMap (·.2)) (p : Nat) (hp : p < n t) :
    (P.filter fun x => x.2.1 == t && x.2.2 == p).length = 1 := by
  have hperm := (validPlan_elim subs n P h).2 t ht
  have hc : List.count p ((P.filter fun x => x.2.1 == t).map (·.2.2)) = 1 := by
    rw [hperm.count_eq, List.nodup_range.count]
    simp [List.mem_range, hp]
  rw [List.count_eq_length_filter, List.filter_map, List.length_map, List.filter_filter] at hc
  rw [← hc]
  congr 1
  apply List.filter_congr
  intro x _
  simp [Bool.and_comm]

theorem adjust_validCoop (ms : List Member) (n : String → Nat) (P : List Triple)
    (h : validPlan (subsOf ms) n P = true) : validCoop ms n (adjust ms P) = true := by
  obtain ⟨h1, _⟩ := validPlan_elim _ n P h
  unfold validCoop
  simp only [Bool.and_eq_true, List.all_eq_true, List.any_eq_true, decide_eq_true_eq, beq_iff_eq,
    List.contains_iff_mem, Bool.or_eq_true, List.mem_range, Bool.not_eq_true']
  constructor
  · intro x hx
    obtain ⟨⟨s, hs, e1, e2⟩, hlt⟩ := h1 x ((adjust_sublist ms P).subset hx)
    obtain ⟨m, hm, rfl⟩ := List.mem_map.mp hs
    exact ⟨⟨m, hm, e1, e2⟩, hlt⟩
  · intro t ht p hp
    have ht' : t ∈ (subsOf ms).flatMap (·.2) := by simpa [subsOf, List.flatMap_map] using ht
    have hone := validPlan_once _ n P h t ht' p hp
    have hle : ((adjust ms P).filter fun x => x.2.1 == t && x.2.2 == p).length ≤ 1 := by
      rw [← hone]; exact ((adjust_sublist ms P).filter _).length_le
    by_cases hc : ((adjust ms P).filter fun x => x.2.1 == t && x.2.2 == p).length = 1
    · exact Or.inl hc
    · right
      have hz : ((adjust ms P).filter fun x => x.2.1 == t && x.2.2 == p).length = 0 := by omega
      refine ⟨hz, ?_⟩
      have hnil := List.length_eq_zero_iff.mp hz
      -- the planned triple of (t,p) is gone, so (t,p) was revoked by somebody
      obtain ⟨x0, hx0⟩ : ∃ x0, x0 ∈ P.filter fun x => x.2.1 == t && x.2.2 == p := by
        cases hf : (P.filter fun x => x.2.1 == t && x.2.2 == p) with
        | nil => rw [hf] at hone; cases hone
        | cons y _ => exact ⟨y, List.mem_cons_self⟩
      have hx0P := (List.mem_filter.mp hx0).1
      have hx0tp := (List.mem_filter.mp hx0).2
      have hx0n : x0 ∉ adjust ms P := by
        intro hm
        have : x0 ∈ (adjust ms P).filter fun x => x.2.1 == t && x.2.2 == p := List.mem_filter.mpr ⟨hm, hx0tp⟩
        rw [hnil] at this; cases this
      obtain ⟨tp, htp, a, _, hxa⟩ := erased_of_not_mem ms P _ P x0 hx0P (by rw [← adjust_eq]; exact hx0n)
      simp only [Bool.and_eq_true, beq_iff_eq] at hx0tp
      have htpe : tp = (t, p) := by
        rw [hxa] at hx0tp
        exact Prod.ext hx0tp.1 hx0tp.2
      subst htpe
      obtain ⟨m, hm, e, he, e1, e2, _⟩ := (mem_revokedList ms P _).mp htp
      obtain ⟨o, ho, hcur⟩ := exists_currentOwner ms (t, p) ⟨m, hm, (claims_iff m _).mpr ⟨e, he, e1, e2⟩⟩
      refine ⟨o, ho, hcur, ?_⟩
      cases hcon : (adjust ms P).contains (o.id, t, p) with
      | false => rfl
      | true =>
        have : (o.id, t, p) ∈ (adjust ms P).filter fun x => x.2.1 == t && x.2.2 == p :=
          List.mem_filter.mpr ⟨List.contains_iff_mem.mp hcon, by simp⟩
        rw [hnil] at this; cases this

/-! ### safe hand-off -/

theorem eq_of_tp_eq (P : List Triple) (hex : (P.map Triple.tp).Nodup) (x y : Triple) (hx : x ∈ P) (hy : y ∈ P)
    (h : Triple.tp x = Triple.tp y) : x = y := by
  induction P with
  | nil => cases hx
  | cons z zs ih =>
    simp only [List.map_cons, List.nodup_cons] at hex
    rcases List.mem_cons.mp hx with hx' | hx' <;> rcases List.mem_cons.mp hy with hy' | hy'
    · rw [hx', hy']
    · subst hx'; exact absurd (List.mem_map.mpr ⟨y, hy', h.symm⟩) hex.1
    · subst hy'; exact False.elim (hex.1 (List.mem_map.mpr ⟨x, hx', h⟩))
    · exact ih hex.2 hx' hy' 

theorem nodup_of_map_nodup {α β} (f : α → β) (l : List α) (h : (l.map f).Nodup) : l.Nodup := by
  induction l with
  | nil => exact List.nodup_nil
  | cons a as ih =>
    simp only [List.map_cons, List.nodup_cons] at h
    exact List.nodup_cons.mpr ⟨fun hm => h.1 (List.mem_map.mpr ⟨a, hm, rfl⟩), ih h.2⟩

theorem eq_of_id_eq (ms : List Member) (hid : (ms.map (·.id)).Nodup) (a b : Member) (ha : a ∈ ms) (hb : b ∈ ms)
    (h : a.id = b.id) : a = b := by
  induction ms with
  | nil => cases ha
  | cons z zs ih =>
    simp only [List.map_cons, List.nodup_cons] at hid
    rcases List.mem_cons.mp ha with ha' | ha' <;> rcases List.mem_cons.mp hb with hb' | hb'
    · rw [ha', hb']
    · subst ha'; exact absurd (List.mem_map.mpr ⟨b, hb', h.symm⟩) hid.1
    · subst hb'; exact False.elim (hid.1 (List.mem_map.mpr ⟨a, ha', h⟩))
    · exact ih hid.2 ha' hb' 

theorem adjust_safe (ms : List Member) (P : List Triple)
    (hex : (P.map Triple.tp).Nodup) (hmem : ∀ x ∈ P, ∃ m ∈ ms, m.id = x.1) :
    safeHandoff ms (adjust ms P) = true := by
  unfold safeHandoff
  simp only [List.all_eq_true, Bool.or_eq_true, Bool.not_eq_true', List.any_eq_true, Bool.and_eq_true, beq_iff_eq]
  intro x hx o ho
  have hxP := (adjust_sublist ms P).subset hx
  obtain ⟨m, hm, hmid⟩ := hmem x hxP
  by_cases hcond : (o.id != x.1 && currentOwner ms o (x.2.1, x.2.2)) = true
  · right
    refine ⟨m, hm, hmid, ?_⟩
    -- otherwise the partition was withheld from x.1
    cases hcm : currentOwner ms m (x.2.1, x.2.2) with
    | true => rfl
    | false =>
      exfalso
      simp only [Bool.and_eq_true, bne_iff_ne, ne_eq] at hcond
      obtain ⟨hne, hco⟩ := hcond
      have hco' := hco
      unfold currentOwner at hco'
      simp only [Bool.and_eq_true, List.all_eq_true, decide_eq_true_eq] at hco'
      obtain ⟨hoc, homax⟩ := hco'
      -- o loses it: it is revoked
      have hoP : (o.id, x.2.1, x.2.2) ∉ P := by
        intro hin
        have := eq_of_tp_eq P hex _ _ hin hxP rfl
        exact hne (by rw [← this])
      obtain ⟨e, he, e1, e2⟩ := (claims_iff o _).mp hoc
      have hrev : (x.2.1, x.2.2) ∈ revokedList ms P := (mem_revokedList ms P _).mpr ⟨o, ho, e, he, e1, e2, hoP⟩
      -- m is recorded in allAdded for it
      have hxeq : (m.id, x.2.1, x.2.2) = x := by rw [hmid]
      have hadd : isAdded ms P m (x.2.1, x.2.2) = true := by
        unfold isAdded
        simp only [Bool.and_eq_true, List.contains_iff_mem, Bool.or_eq_true, List.any_eq_true, Bool.not_eq_true']
        refine ⟨by rw [hxeq]; exact hxP, ?_⟩
        cases hes : (m.owned.filter (·.1 == x.2.1)) with
        | nil => left; rfl
        | cons e0 es =>
          right
          by_cases hcl : claims m (x.2.1, x.2.2) = true
          · -- m claims it but somebody claims it at a higher generation
            have : ¬ ∀ o' ∈ ms.filter (claims · (x.2.1, x.2.2)), o'.gen ≤ m.gen := by
              intro hall
              unfold currentOwner at hcm
              simp only [hcl, Bool.true_and] at hcm
              have : ((ms.filter (claims · (x.2.1, x.2.2))).all fun o => decide (o.gen ≤ m.gen)) = true := by
                simp only [List.all_eq_true, decide_eq_true_eq]; exact hall
              rw [this] at hcm; cases hcm
            have hex2 : ∃ o' ∈ ms.filter (claims · (x.2.1, x.2.2)), m.gen < o'.gen := by
              apply Classical.byContradiction
              intro hno
              apply this
              intro o' ho'
              apply Classical.byContradiction
              intro hgt
              exact hno ⟨o', ho', by omega⟩
            obtain ⟨o', ho', hlt⟩ := hex2
            have ho'' := List.mem_filter.mp ho'
            refine ⟨e0, List.mem_cons_self, ?_⟩
            rw [geMax_false_of_higher ms m o' _ ho''.1 ho''.2 hlt, Bool.and_false]
          · -- m does not claim it: no entry lists it
            refine ⟨e0, List.mem_cons_self, ?_⟩
            have he0 : e0 ∈ m.owned.filter (·.1 == x.2.1) := by rw [hes]; exact List.mem_cons_self
            have he0' := List.mem_filter.mp he0
            have : e0.2.contains x.2.2 = false := by
              cases hc : e0.2.contains x.2.2 with
              | false => rfl
              | true =>
                exfalso; apply hcl
                exact (claims_iff m _).mpr ⟨e0, he0'.1, eq_of_beq he0'.2, List.contains_iff_mem.mp hc⟩
            rw [this, Bool.false_and]
      -- so addedTo is some member with m's id
      have hne' : (ms.filter fun m' => isAdded ms P m' (x.2.1, x.2.2)) ≠ [] := by
        intro e
        have : m ∈ ms.filter fun m' => isAdded ms P m' (x.2.1, x.2.2) := List.mem_filter.mpr ⟨hm, hadd⟩
        rw [e] at this; cases this
      obtain ⟨a, ha⟩ := Option.isSome_iff_exists.mp (List.getLast?_isSome.mpr hne')
      have haf := List.mem_filter.mp (List.mem_of_getLast? ha)
      have haP : (a.id, x.2.1, x.2.2) ∈ P := by
        have := haf.2
        unfold isAdded at this
        simp only [Bool.and_eq_true, List.contains_iff_mem] at this
        exact this.1
      have haid : a.id = x.1 := by
        have := eq_of_tp_eq P hex _ _ haP hxP rfl
        rw [← this]
      have hgone := not_mem_of_erased ms P (revokedList ms P) P (nodup_of_map_nodup _ P hex) _ hrev a ha
      rw [← adjust_eq] at hgone
      apply hgone
      simp only []
      rw [haid]
      exact hx
  · left
    cases hb : (o.id != x.1 && currentOwner ms o (x.2.1, x.2.2)) with
    | false => rfl
    | true => exact absurd hb hcond

end Proof.C25

namespace Proof.C25
open Model.C25

/-! ### the next round -/

theorem mem_ownedOf (plan : List Triple) (id : String) (e : String × List Nat) (he : e ∈ ownedOf plan id)
    (p : Nat) (hp : p ∈ e.2) : (id, e.1, p) ∈ plan := by
  unfold ownedOf at he
  simp only [] at he
  obtain ⟨t, _, rfl⟩ := List.mem_map.mp he
  simp only [] at hp
  obtain ⟨x, hx, rfl⟩ := List.mem_map.mp hp
  have h1 := List.mem_filter.mp hx
  have h2 := List.mem_filter.mp h1.1
  have e1 : x.1 = id := eq_of_beq h2.2
  have e2 : x.2.1 = t := eq_of_beq h1.2
  have : (id, t, x.2.2) = x := by rw [← e1, ← e2]
  simp only []
  rw [this]; exact h2.1

/-- if the new plan keeps everything the members own after the previous round, nothing is revoked and
`AdjustCooperative` withholds nothing. -/
theorem adjust_next_eq (ms : List Member) (a1 : List Triple) (g : Int) (p2 : List Triple)
    (hkeep : ∀ x ∈ a1, x ∈ p2) : adjust (nextMembers ms a1 g) p2 = p2 := by
  have hrev : revokedList (nextMembers ms a1 g) p2 = [] := by
    unfold revokedList
    have : ((nextMembers ms a1 g).flatMap fun m => m.owned.flatMap fun e =>
        (e.2.filter fun p => !p2.contains (m.id, e.1, p)).map fun p => (e.1, p)) = [] := by
      apply List.flatMap_eq_nil_iff.mpr
      intro m hm
      apply List.flatMap_eq_nil_iff.mpr
      intro e he
      unfold nextMembers at hm
      obtain ⟨m0, _, rfl⟩ := List.mem_map.mp hm
      simp only [] at he ⊢
      rw [List.map_eq_nil_iff, List.filter_eq_nil_iff]
      intro p hp
      have := hkeep _ (mem_ownedOf a1 m0.id e he p hp)
      simpa using this
    rw [this]; rfl
  rw [adjust_eq, hrev]; rfl

end Proof.C25
