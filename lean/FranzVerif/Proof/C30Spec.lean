import FranzVerif.Model.C30
import FranzVerif.Spec.C30
import FranzVerif.Proof.C30
namespace Proof.C30
open Model.C30
set_option linter.unusedSimpArgs false

/-- the Spec-level event of a model event of thread `i` (raw calls and silent steps have none) -/
def toLEv (i : Nat) : Ev → Option Spec.C30.LEv
  | .beginRet b => some (.beginRet i b)
  | .worked => some (.worked i)
  | .finishRet b => some (.finishRet i b)
  | .hard => some (.hard i)
  | _ => none

/-- run an action list, collecting the Spec-level event log -/
def runEv (s : LS) : List (Nat × Choice) → Option (LS × List Spec.C30.LEv)
  | [] => some (s, [])
  | a :: as => match s.stepEv a with
    | none => none
    | some (s', ev) => match runEv s' as with
      | none => none
      | some (s'', evs) => some (s'', (toLEv a.1 ev).toList ++ evs)

theorem stepEv_step {s s' : LS} {a : Nat × Choice} {ev : Ev} (h : s.stepEv a = some (s', ev)) : s.step a = some s' := by
  unfold LS.stepEv at h
  cases hl : s.pcs[a.1]? with
  | none => simp [hl] at h
  | some l =>
    simp only [hl] at h
    cases ht : tstep s.st l a.2 with
    | none => simp [ht] at h
    | some r =>
      obtain ⟨st', l', ev'⟩ := r
      simp only [ht] at h
      cases hs : s.step a with
      | none => simp [hs] at h
      | some s1 => simp [hs] at h; rw [h.1]

/-- how a protocol step changes the number of workers, by its event -/
theorem workers_step {s s' : LS} (a : Nat × Choice) (ev : Ev) (hraw : a.2.isRaw = false) (hI : LInv s)
    (hs : s.stepEv a = some (s', ev)) :
    (ev = .beginRet true → s'.workers = s.workers + 1) ∧
    ((ev = .finishRet false ∨ ev = .hard) → s'.workers + 1 = s.workers) ∧
    (ev ≠ .beginRet true → ev ≠ .finishRet false → ev ≠ .hard → s'.workers = s.workers) := by
  obtain ⟨i, c⟩ := a
  have hr := hI.raw
  unfold LS.stepEv LS.step at hs
  simp only at hs
  cases hl : s.pcs[i]? with
  | none => simp [hl] at hs
  | some l =>
    have hi : i < s.pcs.length := by
      rcases Nat.lt_or_ge i s.pcs.length with h | h
      · exact h
      · simp [List.getElem?_eq_none h] at hl
    have hli : s.pcs[i] = l := by
      have := List.getElem?_eq_getElem hi; rw [this] at hl; exact Option.some.inj hl
    simp only [hl] at hs
    have hset : ∀ (l' : Loc), (s.pcs.set i l').countP Loc.isWorker
        = (s.pcs.countP Loc.isWorker - if Loc.isWorker l = true then 1 else 0) + if Loc.isWorker l' = true then 1 else 0 := by
      intro l'; rw [List.countP_set hi, hli]
    have hpos : Loc.isWorker l = true → s.pcs.countP Loc.isWorker > 0 :=
      fun hp => countP_pos_of_getElem _ _ i hi (hli ▸ hp)
    have qR : Loc.isRaw l = true → s.pcs.countP Loc.isRaw > 0 :=
      fun hp => countP_pos_of_getElem _ _ i hi (hli ▸ hp)
    simp only [cRaw] at hr
    unfold LS.workers
    generalize s.pcs.countP Loc.isWorker = w at *
    cases l with
    | idle =>
      cases hst' : s.st <;> cases c <;>
        simp [tstep, mbStep, mfStep, hfStep, hst', Choice.isRaw] at hs hraw <;>
        obtain ⟨h1, h2⟩ := hs <;> subst h1 <;> subst h2 <;> simp [hset, Loc.isWorker]
    | beg pc =>
      cases pc <;> cases hst' : s.st <;>
        simp [tstep, mbStep, mfStep, hfStep, hst'] at hs <;>
        obtain ⟨h1, h2⟩ := hs <;> subst h1 <;> subst h2 <;> simp [hset, Loc.isWorker]
    | work =>
      have := hpos rfl
      cases hst' : s.st <;> cases c <;>
        simp [tstep, mbStep, mfStep, hfStep, hst', Choice.isRaw] at hs hraw <;>
        obtain ⟨h1, h2⟩ := hs <;> subst h1 <;> subst h2 <;> simp [hset, Loc.isWorker] <;> omega
    | fin pc =>
      have := hpos rfl
      cases pc with
      | load again =>
        cases again <;> cases hst' : s.st <;>
        simp [tstep, mbStep, mfStep, hfStep, hst'] at hs <;>
        obtain ⟨h1, h2⟩ := hs <;> subst h1 <;> subst h2 <;> simp [hset, Loc.isWorker] <;> omega
      | cas | store =>
        cases hst' : s.st <;>
        simp [tstep, mbStep, mfStep, hfStep, hst'] at hs <;>
        obtain ⟨h1, h2⟩ := hs <;> subst h1 <;> subst h2 <;> simp [hset, Loc.isWorker] <;> omega
    | rawB pc => have := qR rfl; omega
    | rawF pc => have := qR rfl; omega


theorem toLEv_cases (i : Nat) (ev : Ev) :
    (ev = .beginRet true ∧ toLEv i ev = some (.beginRet i true)) ∨
    (ev = .finishRet false ∧ toLEv i ev = some (.finishRet i false)) ∨
    (ev = .hard ∧ toLEv i ev = some (.hard i)) ∨
    (ev ≠ .beginRet true ∧ ev ≠ .finishRet false ∧ ev ≠ .hard ∧
      (toLEv i ev = none ∨ toLEv i ev = some (.beginRet i false) ∨ toLEv i ev = some (.worked i) ∨
        toLEv i ev = some (.finishRet i true))) := by
  cases ev <;> simp [toLEv]
  all_goals (rename_i b; cases b <;> simp)

/-- the model's log satisfies the Spec's single-worker scan, started at the current worker count -/
theorem single_run {s s' : LS} (as : List (Nat × Choice)) (evs : List Spec.C30.LEv) (hp : protoOnly as) (hI : LInv s)
    (hr : runEv s as = some (s', evs)) : Spec.C30.latchSingle.go evs s.workers = true := by
  induction as generalizing s evs with
  | nil => simp [runEv] at hr; rw [hr.2]; simp [Spec.C30.latchSingle.go]
  | cons a t ih =>
    simp only [runEv] at hr
    cases h1 : s.stepEv a with
    | none => simp [h1] at hr
    | some p =>
      obtain ⟨s1, ev⟩ := p
      simp only [h1] at hr
      cases h2 : runEv s1 t with
      | none => simp [h2] at hr
      | some q =>
        obtain ⟨s2, evs2⟩ := q
        simp only [h2, Option.some.injEq, Prod.mk.injEq] at hr
        obtain ⟨hs2, hevs⟩ := hr
        subst hs2
        have hraw := hp a List.mem_cons_self
        have hI1 : LInv s1 := linv_step a hraw hI (stepEv_step h1)
        have ih' := ih evs2 (fun b hb => hp b (List.mem_cons_of_mem _ hb)) hI1 h2
        have hw := workers_step a ev hraw hI h1
        have hle : s1.workers ≤ 1 := by
          have := hI1.cnt; rw [← workers_eq] at this; split at this <;> omega
        rw [← hevs]
        rcases toLEv_cases a.1 ev with ⟨he, ht⟩ | ⟨he, ht⟩ | ⟨he, ht⟩ | ⟨h1', h2', h3', ht⟩
        · have := hw.1 he
          simp only [ht, Option.toList, List.cons_append, List.nil_append, Spec.C30.latchSingle.go]
          rw [← this, ih']; simp; omega
        · have := hw.2.1 (Or.inl he)
          simp only [ht, Option.toList, List.cons_append, List.nil_append, Spec.C30.latchSingle.go]
          rw [← this] ; simpa using ih'
        · have := hw.2.1 (Or.inr he)
          simp only [ht, Option.toList, List.cons_append, List.nil_append, Spec.C30.latchSingle.go]
          rw [← this] ; simpa using ih'
        · have := hw.2.2 h1' h2' h3'
          rcases ht with ht | ht | ht | ht <;>
            simp only [ht, Option.toList, List.cons_append, List.nil_append, Spec.C30.latchSingle.go] <;>
            rw [← this] <;> exact ih'

/-- "a signal is unanswered" as a function of the log -/
def upd (p : Bool) : Spec.C30.LEv → Bool
  | .beginRet _ _ => true
  | .worked _ => false
  | .hard _ => false
  | _ => p

theorem pending_step {s s' : LS} (a : Nat × Choice) (ev : Ev) (hs : s.stepEv a = some (s', ev)) :
    s'.pending = (toLEv a.1 ev).toList.foldl upd s.pending := by
  unfold LS.stepEv LS.step at hs
  cases hl : s.pcs[a.1]? with
  | none => simp [hl] at hs
  | some l =>
    simp only [hl] at hs
    cases ht : tstep s.st l a.2 with
    | none => simp [ht] at hs
    | some r =>
      obtain ⟨st', l', ev'⟩ := r
      simp only [ht, Option.map, Option.some.injEq, Prod.mk.injEq] at hs
      obtain ⟨h1, h2⟩ := hs
      subst h2; subst h1
      cases ev' <;> simp [toLEv, upd]

theorem pending_run {s s' : LS} (as : List (Nat × Choice)) (evs : List Spec.C30.LEv)
    (hr : runEv s as = some (s', evs)) : s'.pending = evs.foldl upd s.pending := by
  induction as generalizing s evs with
  | nil => simp [runEv] at hr; rw [hr.2, hr.1]; rfl
  | cons a t ih =>
    simp only [runEv] at hr
    cases h1 : s.stepEv a with
    | none => simp [h1] at hr
    | some p =>
      obtain ⟨s1, ev⟩ := p
      simp only [h1] at hr
      cases h2 : runEv s1 t with
      | none => simp [h2] at hr
      | some q =>
        obtain ⟨s2, evs2⟩ := q
        simp only [h2, Option.some.injEq, Prod.mk.injEq] at hr
        obtain ⟨hs2, hevs⟩ := hr
        subst hs2
        rw [← hevs, List.foldl_append, ← pending_step a ev h1]
        exact ih evs2 h2

theorem noLost_go_true (r : List Spec.C30.LEv) : Spec.C30.latchNoLost.go r true = true := by
  induction r with
  | nil => rfl
  | cons e t ih => cases e <;> simp [Spec.C30.latchNoLost.go, ih]

theorem noLost_go_false (r : List Spec.C30.LEv) :
    Spec.C30.latchNoLost.go r false = !(r.foldr (fun e p => upd p e) false) := by
  induction r with
  | nil => rfl
  | cons e t ih => cases e <;> simp [Spec.C30.latchNoLost.go, upd, ih, noLost_go_true]

theorem noLost_of_not_pending (evs : List Spec.C30.LEv) (h : evs.foldl upd false = false) :
    Spec.C30.latchNoLost evs = true := by
  unfold Spec.C30.latchNoLost
  rw [noLost_go_false, List.foldr_reverse]
  simp only [Bool.not_eq_true']
  exact h

theorem run_of_runEv {s s' : LS} (as : List (Nat × Choice)) (evs : List Spec.C30.LEv)
    (hr : runEv s as = some (s', evs)) : s.run as = some s' := by
  induction as generalizing s evs with
  | nil => simp [runEv] at hr; simp [LS.run, hr.1]
  | cons a t ih =>
    simp only [runEv] at hr
    cases h1 : s.stepEv a with
    | none => simp [h1] at hr
    | some p =>
      obtain ⟨s1, ev⟩ := p
      simp only [h1] at hr
      cases h2 : runEv s1 t with
      | none => simp [h2] at hr
      | some q =>
        obtain ⟨s2, evs2⟩ := q
        simp only [h2, Option.some.injEq, Prod.mk.injEq] at hr
        obtain ⟨hs2, _⟩ := hr
        subst hs2
        simp only [LS.run, stepEv_step h1]
        exact ih evs2 h2
end Proof.C30
