import FranzVerif.Proof.C15
/-! Helper lemmas for Props/C15: array headers and tag sections. -/
namespace Proof.C15
open Model.C15

/-! ### array headers -/

theorem wrapLen_succ (len : Nat) (h : len < 2147483647) : wrapLen (len + 1) = (len : Int) := by
  simp only [wrapLen]; split <;> omega

theorem wrapLen_zero : wrapLen 0 = -1 := by
  simp [wrapLen]

theorem decArrLen_some (ver : Int) (flex : Bool) (k : AKind) (len : Nat) (rest : Bytes)
    (h1 : len < 2147483647) (h2 : len ≤ rest.length) :
    decArrLen flex k (encArrHdr ver flex k false len ++ rest) = .ok (len : Int) rest := by
  have hc : chkLen (len : Int) rest = .ok (len : Int) rest := by
    have : ¬ ((rest.length : Int) < (len : Int)) := by omega
    simp [chkLen, this]
  cases k with
  | varint =>
    have := readVarint_enc (len : Int) rest (inRange_of (by omega) (by omega))
    simp [decArrLen, encArrHdr, this, hc]
  | normal =>
    cases flex
    · have := readInt32_enc (len : Int) rest (inRange_of (by omega) (by omega))
      simp [decArrLen, encArrHdr, AKind.nullableAt, this, hc]
    · have := readUvarint_enc (len + 1) rest (by omega)
      simp [decArrLen, encArrHdr, AKind.nullableAt, this, wrapLen_succ len h1, hc]
  | nullable n =>
    cases flex
    · have := readInt32_enc (len : Int) rest (inRange_of (by omega) (by omega))
      simp [decArrLen, encArrHdr, this, hc]
    · have := readUvarint_enc (len + 1) rest (by omega)
      simp [decArrLen, encArrHdr, this, wrapLen_succ len h1, hc]

theorem decArrLen_null (ver : Int) (flex : Bool) (k : AKind) (rest : Bytes) :
    decArrLen flex k (encArrHdr ver flex k true 0 ++ rest) = .ok (if k.nullableAt ver then -1 else 0) rest := by
  by_cases hn : k.nullableAt ver = true
  · cases k with
    | varint => simp [AKind.nullableAt] at hn
    | normal => simp [AKind.nullableAt] at hn
    | nullable n =>
      have hc : chkLen (-1) rest = .ok (-1) rest := by
        have : ¬ ((rest.length : Int) < -1) := by omega
        simp [chkLen, this]
      cases flex
      · have := readInt32_enc (-1) rest (by decide)
        simp [decArrLen, encArrHdr, hn, this, hc]
      · simp [decArrLen, encArrHdr, hn, readUvarint_zero, wrapLen_zero, hc]
  · have h0 := decArrLen_some ver flex k 0 rest (by omega) (Nat.zero_le _)
    have hn' : k.nullableAt ver = false := by simpa using hn
    have e : encArrHdr ver flex k true 0 = encArrHdr ver flex k false 0 := by
      cases k <;> simp [encArrHdr, hn']
    rw [e, h0]; simp [hn']

/-! ### tag sections -/

theorem readRawTags_enc (l : List (Nat × Bytes)) (rest : Bytes) (h : entriesOK l = true) :
    readRawTags l.length (encTagEntries l ++ rest) = .ok l rest := by
  induction l with
  | nil => simp [readRawTags, encTagEntries]
  | cons e r ih =>
    obtain ⟨k, b⟩ := e
    simp only [entriesOK, List.all_cons, Bool.and_eq_true, decide_eq_true_eq] at h
    obtain ⟨⟨hk, hb⟩, hr⟩ := h
    have ih' := ih (by simpa [entriesOK] using hr)
    simp only [List.length_cons, readRawTags, encTagEntries, List.append_assoc]
    rw [readUvarint_enc k _ hk]
    simp only [Res.andThen_ok]
    rw [readUvarint_enc b.length _ hb]
    simp only [Res.andThen_ok]
    rw [span_append b _ _ rfl]
    simp [ih']

theorem tagSet_append (acc : List (Nat × Bytes)) (k : Nat) (b : Bytes) (h : ∀ x ∈ acc, x.1 < k) :
    tagSet acc k b = acc ++ [(k, b)] := by
  induction acc with
  | nil => rfl
  | cons x xs ih =>
    have hx : x.1 < k := h x (by simp)
    have h1 : ¬ (k < x.1) := by omega
    have h2 : ¬ (k = x.1) := by omega
    obtain ⟨xk, xb⟩ := x
    simp only [tagSet, h1, h2, if_false, List.cons_append]
    rw [ih (fun y hy => h y (by simp [hy]))]

theorem keysSorted_tail {a : Nat × Bytes} {l : List (Nat × Bytes)} (h : keysSorted (a :: l) = true) : keysSorted l = true := by
  cases l with
  | nil => rfl
  | cons b r => simp [keysSorted] at h; exact h.2

theorem keysSorted_head_lt {a : Nat × Bytes} {l : List (Nat × Bytes)} (h : keysSorted (a :: l) = true) :
    ∀ x ∈ l, a.1 < x.1 := by
  induction l generalizing a with
  | nil => intro x hx; cases hx
  | cons b r ih =>
    simp only [keysSorted, Bool.and_eq_true, decide_eq_true_eq] at h
    intro x hx
    cases hx with
    | head => exact h.1
    | tail _ hx' => exact Nat.lt_trans h.1 (ih h.2 x hx')

theorem foldl_tagSet (l acc : List (Nat × Bytes)) (h1 : ∀ x ∈ acc, ∀ y ∈ l, x.1 < y.1) (h2 : keysSorted l = true) :
    l.foldl (fun acc (e : Nat × Bytes) => tagSet acc e.1 e.2) acc = acc ++ l := by
  induction l generalizing acc with
  | nil => simp
  | cons e r ih =>
    simp only [List.foldl_cons]
    rw [tagSet_append acc e.1 e.2 (fun x hx => h1 x hx e (by simp))]
    rw [ih (acc ++ [e]) _ (keysSorted_tail h2)]
    · simp
    · intro x hx y hy
      simp only [List.mem_append, List.mem_singleton] at hx
      cases hx with
      | inl hx => exact h1 x hx y (by simp [hy])
      | inr hx => subst hx; exact keysSorted_head_lt h2 y hy

theorem mem_encTagEntries_le (l : List (Nat × Bytes)) (e : Nat × Bytes) (h : e ∈ l) :
    e.2.length ≤ (encTagEntries l).length := by
  induction l with
  | nil => cases h
  | cons x r ih =>
    obtain ⟨k, b⟩ := x
    simp only [encTagEntries, List.length_append]
    cases h with
    | head => simp; omega
    | tail _ h' => have := ih h'; omega


end Proof.C15
