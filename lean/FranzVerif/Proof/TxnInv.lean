import FranzVerif.Model.Txn
import FranzVerif.Proof.Txn
/-! Helper lemmas for the transaction-result monitor `Model.Txn` (C11): `run` on a concatenation, what an
accepted event tells, the invariant `Inv h s` relating the state reached by `run` to the history-level
observables (the state lists are the reversed observables; record ids and ended transactions are unique in the
history; every visible id was produced by a transaction whose End had reported a successful commit *before*
the `visible` event — and, because a second `endDone` of a transaction is refused, that is the only result the
transaction has anywhere in the history). -/
namespace Proof.Txn
open Model.Txn

/-! ### lists of pairs with unique keys -/

theorem snd_eq_of_nodup_fst {α β : Type} {l : List (α × β)} (hn : (l.map (·.1)).Nodup) {a : α} {b b' : β}
    (h1 : (a, b) ∈ l) (h2 : (a, b') ∈ l) : b = b' := by
  induction l with
  | nil => cases h1
  | cons x xs ih =>
    simp only [List.map_cons, List.nodup_cons, List.mem_map, not_exists, not_and] at hn
    rcases List.mem_cons.1 h1 with e1 | h1' <;> rcases List.mem_cons.1 h2 with e2 | h2'
    · rw [← e2] at e1
      exact (Prod.mk.inj e1).2
    · exact absurd (by rw [← e1]) (hn.1 _ h2')
    · exact absurd (by rw [← e2]) (hn.1 _ h1')
    · exact ih hn.2 h1' h2'

theorem nodup_reverse {α : Type} {l : List α} (h : l.Nodup) : l.reverse.Nodup := by
  unfold List.Nodup at h ⊢
  rw [List.pairwise_reverse]
  exact h.imp (fun hab => Ne.symm hab)

theorem find?_fst_of_mem {β : Type} {l : List (Nat × β)} (hn : (l.map (·.1)).Nodup) {k : Nat} {b : β}
    (hm : (k, b) ∈ l) : l.find? (·.1 == k) = some (k, b) := by
  cases hf : l.find? (·.1 == k) with
  | none =>
    rw [List.find?_eq_none] at hf
    exact absurd (by simp) (hf _ hm)
  | some x =>
    have hx := List.mem_of_find?_eq_some hf
    have hk := List.find?_some hf
    obtain ⟨x1, x2⟩ := x
    simp only [beq_iff_eq] at hk
    subst hk
    rw [snd_eq_of_nodup_fst hn hx hm]

/-! ### `run` on a concatenation -/

theorem step_eq_some {s s' : St} {ev : Ev} (hs : step s ev = some s') : check s ev = none ∧ s' = apply s ev := by
  unfold step at hs
  split at hs
  · simp at hs; exact ⟨by assumption, hs.symm⟩
  · simp at hs

theorem run_cons {s s' : St} {e : Ev} {es : List Ev} (hr : run s (e :: es) = some s') :
    check s e = none ∧ run (apply s e) es = some s' := by
  simp only [run] at hr
  cases hs : step s e with
  | none => simp [hs] at hr
  | some s1 =>
    simp only [hs] at hr
    obtain ⟨hchk, rfl⟩ := step_eq_some hs
    exact ⟨hchk, hr⟩

theorem run_append (s : St) (h₁ h₂ : List Ev) : run s (h₁ ++ h₂) = (run s h₁).bind (fun s' => run s' h₂) := by
  induction h₁ generalizing s with
  | nil => rfl
  | cons e es ih =>
    simp only [List.cons_append, run]
    cases step s e with
    | none => rfl
    | some s' => exact ih s'

theorem run_split {s₀ : St} {h₁ h₂ : List Ev} {ev : Ev} {s : St} (hacc : run s₀ (h₁ ++ ev :: h₂) = some s) :
    ∃ s₁, run s₀ h₁ = some s₁ ∧ check s₁ ev = none ∧ run (apply s₁ ev) h₂ = some s := by
  rw [run_append] at hacc
  cases h1 : run s₀ h₁ with
  | none => simp [h1] at hacc
  | some s₁ =>
    simp only [h1, Option.bind_some] at hacc
    obtain ⟨hchk, hr⟩ := run_cons hacc
    exact ⟨s₁, rfl, hchk, hr⟩

theorem run_snoc {s₀ : St} {h : List Ev} {ev : Ev} {s : St} (hacc : run s₀ (h ++ [ev]) = some s) :
    ∃ s₁, run s₀ h = some s₁ ∧ check s₁ ev = none := by
  obtain ⟨s₁, h1, h2, _⟩ := run_split hacc
  exact ⟨s₁, h1, h2⟩

/-! ### what an accepted event tells -/

theorem txnOf_some {s : St} {id : Id} {k : Nat} (h : txnOf s id = some k) : ∃ part, (id, k, part) ∈ s.recs := by
  unfold txnOf at h
  cases hf : s.recs.find? (·.1 == id) with
  | none => simp [hf] at h
  | some r =>
    simp only [hf, Option.map_some, Option.some.injEq] at h
    have hm := List.mem_of_find?_eq_some hf
    have hk := List.find?_some hf
    obtain ⟨r1, r2, r3⟩ := r
    simp only [beq_iff_eq] at hk
    simp only at h
    subst hk h
    exact ⟨r3, hm⟩

theorem resultOf_some {s : St} {k : Nat} {r : Bool × Bool} (h : resultOf s k = some r) : (k, r) ∈ s.results := by
  unfold resultOf at h
  cases hf : s.results.find? (·.1 == k) with
  | none => simp [hf] at h
  | some x =>
    simp only [hf, Option.map_some, Option.some.injEq] at h
    have hm := List.mem_of_find?_eq_some hf
    have hk := List.find?_some hf
    obtain ⟨x1, x2⟩ := x
    simp only [beq_iff_eq] at hk
    simp only at h
    subst hk h
    exact hm

theorem resultOf_of_mem {s : St} (hn : (s.results.map (·.1)).Nodup) {k : Nat} {r : Bool × Bool}
    (hm : (k, r) ∈ s.results) : resultOf s k = some r := by
  unfold resultOf
  rw [find?_fst_of_mem hn hm]
  rfl

theorem produce_check {s : St} {id : Id} {k part : Nat} (h : check s (.produce id k part) = none) :
    ∀ r ∈ s.recs, r.1 ≠ id := by
  simp only [check] at h
  split at h
  · cases h
  · rename_i hn
    intro r hr he
    apply hn
    rw [List.any_eq_true]
    exact ⟨r, hr, by simpa using he⟩

theorem endDone_check {s : St} {k : Nat} {c ok : Bool} (h : check s (.endDone k c ok) = none) :
    ∀ r ∈ s.results, r.1 ≠ k := by
  simp only [check] at h
  split at h
  · cases h
  · rename_i hn
    intro r hr he
    apply hn
    rw [List.any_eq_true]
    exact ⟨r, hr, by simpa using he⟩

theorem visible_check {s : St} {part off : Nat} {id : Id} (h : check s (.visible part off id) = none) :
    (∀ v ∈ s.vis, v.2.2 ≠ id) ∧ ∃ k, txnOf s id = some k ∧ resultOf s k = some (true, true) := by
  simp only [check] at h
  split at h
  · cases h
  · rename_i k hk
    split at h
    · cases h
    · rename_i hn
      refine ⟨?_, k, hk, ?_⟩
      · intro v hv he
        apply hn
        rw [List.any_eq_true]
        exact ⟨v, hv, by simpa using he⟩
      · split at h
        · assumption
        · cases h
        · split at h <;> cases h
        · cases h

theorem quiesce_check {s : St} (h : check s .quiesce = none) (hinc : s.incomplete = false) :
    ∀ r ∈ s.recs, r.1 ∈ s.acked → resultOf s r.2.1 = some (true, true) → ∃ v ∈ s.vis, v.2.2 = r.1 := by
  simp only [check, hinc, Bool.false_eq_true, if_false] at h
  split at h
  · cases h
  · rename_i hn
    intro r hr ha hres
    false_or_by_contra
    rename_i hcon
    apply hn
    rw [List.any_eq_true]
    refine ⟨r, hr, ?_⟩
    simp only [Bool.and_eq_true, List.contains_iff_mem, beq_iff_eq, Bool.not_eq_true', List.any_eq_false]
    refine ⟨⟨ha, hres⟩, ?_⟩
    intro v hv he
    exact hcon ⟨v, hv, he⟩

/-! ### the observables after one more event -/

theorem isIncomplete_snoc (h : List Ev) (ev : Ev) : isIncomplete (h ++ [ev]) = (isIncomplete h || ev == .incomplete) := by
  simp [isIncomplete]

/-- fields that a `fault` event does not touch -/
theorem apply_fault (s : St) (key act : Nat) (f : St → Prop) (h1 : f s) (h2 : ∀ l, f { s with lostEnd := l }) :
    f (apply s (.fault key act)) := by
  simp only [apply]
  split
  · split
    · exact h2 _
    · exact h1
  · exact h1

/-! ### the invariant -/

structure Inv (h : List Ev) (s : St) : Prop where
  recs : s.recs = (producedOf h).reverse
  acked : s.acked = (ackedOf h).reverse
  results : s.results = (resultsOf h).reverse
  vis : s.vis.map (·.2.2) = (visibleIds h).reverse
  incomplete : s.incomplete = isIncomplete h
  /-- record ids are never reused -/
  idsNodup : ((producedOf h).map (·.1)).Nodup
  /-- a transaction is ended at most once -/
  resNodup : ((resultsOf h).map (·.1)).Nodup
  visNodup : (visibleIds h).Nodup
  /-- a visible record was produced by a transaction whose End reported a successful commit -/
  visOk : ∀ id ∈ visibleIds h, ∃ k part, (id, k, part) ∈ producedOf h ∧ (k, true, true) ∈ resultsOf h

theorem Inv.init : Inv [] {} := by
  constructor <;> simp [producedOf, ackedOf, resultsOf, visibleIds, isIncomplete]

/-- an event that changes none of the tracked fields and none of the observables -/
theorem Inv.frame {h h' : List Ev} {s s' : St} (hi : Inv h s)
    (e1 : s'.recs = s.recs) (e2 : s'.acked = s.acked) (e3 : s'.results = s.results) (e4 : s'.vis = s.vis)
    (e5 : s'.incomplete = s.incomplete)
    (o1 : producedOf h' = producedOf h) (o2 : ackedOf h' = ackedOf h) (o3 : resultsOf h' = resultsOf h)
    (o4 : visibleIds h' = visibleIds h) (o5 : isIncomplete h' = isIncomplete h) : Inv h' s' := by
  constructor
  · rw [e1, o1]; exact hi.recs
  · rw [e2, o2]; exact hi.acked
  · rw [e3, o3]; exact hi.results
  · rw [e4, o4]; exact hi.vis
  · rw [e5, o5]; exact hi.incomplete
  · rw [o1]; exact hi.idsNodup
  · rw [o3]; exact hi.resNodup
  · rw [o4]; exact hi.visNodup
  · rw [o1, o3, o4]; exact hi.visOk

theorem Inv.step {h : List Ev} {s : St} (hi : Inv h s) (ev : Ev) (hchk : check s ev = none) :
    Inv (h ++ [ev]) (apply s ev) := by
  cases ev with
  | begin_ k ok =>
    exact hi.frame rfl rfl rfl rfl rfl (by simp [producedOf]) (by simp [ackedOf]) (by simp [resultsOf])
      (by simp [visibleIds]) (by simp [isIncomplete_snoc])
  | endStart k c =>
    exact hi.frame rfl rfl rfl rfl rfl (by simp [producedOf]) (by simp [ackedOf]) (by simp [resultsOf])
      (by simp [visibleIds]) (by simp [isIncomplete_snoc])
  | raw part off id =>
    exact hi.frame rfl rfl rfl rfl rfl (by simp [producedOf]) (by simp [ackedOf]) (by simp [resultsOf])
      (by simp [visibleIds]) (by simp [isIncomplete_snoc])
  | quiesce =>
    exact hi.frame rfl rfl rfl rfl rfl (by simp [producedOf]) (by simp [ackedOf]) (by simp [resultsOf])
      (by simp [visibleIds]) (by simp [isIncomplete_snoc])
  | fault key act =>
    exact hi.frame (apply_fault s key act (·.recs = s.recs) rfl (fun _ => rfl))
      (apply_fault s key act (·.acked = s.acked) rfl (fun _ => rfl))
      (apply_fault s key act (·.results = s.results) rfl (fun _ => rfl))
      (apply_fault s key act (·.vis = s.vis) rfl (fun _ => rfl))
      (apply_fault s key act (·.incomplete = s.incomplete) rfl (fun _ => rfl))
      (by simp [producedOf]) (by simp [ackedOf]) (by simp [resultsOf])
      (by simp [visibleIds]) (by simp [isIncomplete_snoc])
  | incomplete =>
    have o1 : producedOf (h ++ [Ev.incomplete]) = producedOf h := by simp [producedOf]
    have o3 : resultsOf (h ++ [Ev.incomplete]) = resultsOf h := by simp [resultsOf]
    have o4 : visibleIds (h ++ [Ev.incomplete]) = visibleIds h := by simp [visibleIds]
    constructor
    · rw [o1]; exact hi.recs
    · rw [show ackedOf (h ++ [Ev.incomplete]) = ackedOf h by simp [ackedOf]]; exact hi.acked
    · rw [o3]; exact hi.results
    · rw [o4]; exact hi.vis
    · simp [isIncomplete_snoc, apply]
    · rw [o1]; exact hi.idsNodup
    · rw [o3]; exact hi.resNodup
    · rw [o4]; exact hi.visNodup
    · rw [o1, o3, o4]; exact hi.visOk
  | promise id ok part off =>
    have o1 : producedOf (h ++ [Ev.promise id ok part off]) = producedOf h := by simp [producedOf]
    have o3 : resultsOf (h ++ [Ev.promise id ok part off]) = resultsOf h := by simp [resultsOf]
    have o4 : visibleIds (h ++ [Ev.promise id ok part off]) = visibleIds h := by simp [visibleIds]
    have o5 : isIncomplete (h ++ [Ev.promise id ok part off]) = isIncomplete h := by simp [isIncomplete_snoc]
    cases ok with
    | false =>
      exact hi.frame rfl rfl rfl rfl rfl o1 (by simp [ackedOf]) o3 o4 o5
    | true =>
      constructor
      · rw [o1]; exact hi.recs
      · simp [apply, ackedOf, hi.acked]
      · rw [o3]; exact hi.results
      · rw [o4]; exact hi.vis
      · rw [o5]; exact hi.incomplete
      · rw [o1]; exact hi.idsNodup
      · rw [o3]; exact hi.resNodup
      · rw [o4]; exact hi.visNodup
      · rw [o1, o3, o4]; exact hi.visOk
  | produce id k part =>
    have o1 : producedOf (h ++ [Ev.produce id k part]) = producedOf h ++ [(id, k, part)] := by simp [producedOf]
    have o3 : resultsOf (h ++ [Ev.produce id k part]) = resultsOf h := by simp [resultsOf]
    have o4 : visibleIds (h ++ [Ev.produce id k part]) = visibleIds h := by simp [visibleIds]
    have hnew := produce_check hchk
    constructor
    · simp [apply, o1, hi.recs]
    · rw [show ackedOf (h ++ [Ev.produce id k part]) = ackedOf h by simp [ackedOf]]; exact hi.acked
    · rw [o3]; exact hi.results
    · rw [o4]; exact hi.vis
    · rw [show isIncomplete (h ++ [Ev.produce id k part]) = isIncomplete h by simp [isIncomplete_snoc]]
      exact hi.incomplete
    · rw [o1, List.map_append, List.nodup_append]
      refine ⟨hi.idsNodup, by simp, ?_⟩
      intro a ha b hb
      simp only [List.map_cons, List.map_nil, List.mem_singleton] at hb
      subst hb
      obtain ⟨r, hr, rfl⟩ := List.mem_map.1 ha
      exact hnew r (by rw [hi.recs]; exact List.mem_reverse.2 hr)
    · rw [o3]; exact hi.resNodup
    · rw [o4]; exact hi.visNodup
    · rw [o1, o3, o4]
      intro i hv
      obtain ⟨k', p', h1, h2⟩ := hi.visOk i hv
      exact ⟨k', p', List.mem_append_left _ h1, h2⟩
  | endDone k c ok =>
    have o1 : producedOf (h ++ [Ev.endDone k c ok]) = producedOf h := by simp [producedOf]
    have o3 : resultsOf (h ++ [Ev.endDone k c ok]) = resultsOf h ++ [(k, c, ok)] := by simp [resultsOf]
    have o4 : visibleIds (h ++ [Ev.endDone k c ok]) = visibleIds h := by simp [visibleIds]
    have hnew := endDone_check hchk
    constructor
    · rw [o1]; exact hi.recs
    · rw [show ackedOf (h ++ [Ev.endDone k c ok]) = ackedOf h by simp [ackedOf]]; exact hi.acked
    · simp [apply, o3, hi.results]
    · rw [o4]; exact hi.vis
    · rw [show isIncomplete (h ++ [Ev.endDone k c ok]) = isIncomplete h by simp [isIncomplete_snoc]]
      exact hi.incomplete
    · rw [o1]; exact hi.idsNodup
    · rw [o3, List.map_append, List.nodup_append]
      refine ⟨hi.resNodup, by simp, ?_⟩
      intro a ha b hb
      simp only [List.map_cons, List.map_nil, List.mem_singleton] at hb
      subst hb
      obtain ⟨r, hr, rfl⟩ := List.mem_map.1 ha
      exact hnew r (by rw [hi.results]; exact List.mem_reverse.2 hr)
    · rw [o4]; exact hi.visNodup
    · rw [o1, o3, o4]
      intro i hv
      obtain ⟨k', p', h1, h2⟩ := hi.visOk i hv
      exact ⟨k', p', h1, List.mem_append_left _ h2⟩
  | visible part off id =>
    have o1 : producedOf (h ++ [Ev.visible part off id]) = producedOf h := by simp [producedOf]
    have o3 : resultsOf (h ++ [Ev.visible part off id]) = resultsOf h := by simp [resultsOf]
    have o4 : visibleIds (h ++ [Ev.visible part off id]) = visibleIds h ++ [id] := by simp [visibleIds]
    obtain ⟨hfresh, k, htx, hres⟩ := visible_check hchk
    have hnot : id ∉ visibleIds h := by
      intro hm
      have : id ∈ s.vis.map (·.2.2) := by rw [hi.vis]; exact List.mem_reverse.2 hm
      obtain ⟨v, hv, he⟩ := List.mem_map.1 this
      exact hfresh v hv he
    constructor
    · rw [o1]; exact hi.recs
    · rw [show ackedOf (h ++ [Ev.visible part off id]) = ackedOf h by simp [ackedOf]]; exact hi.acked
    · rw [o3]; exact hi.results
    · simp [apply, o4, hi.vis]
    · rw [show isIncomplete (h ++ [Ev.visible part off id]) = isIncomplete h by simp [isIncomplete_snoc]]
      exact hi.incomplete
    · rw [o1]; exact hi.idsNodup
    · rw [o3]; exact hi.resNodup
    · rw [o4, List.nodup_append]
      refine ⟨hi.visNodup, by simp, ?_⟩
      intro a ha b hb
      simp only [List.mem_singleton] at hb
      subst hb
      intro he
      subst he
      exact hnot ha
    · rw [o1, o3, o4]
      intro i hv
      rcases List.mem_append.1 hv with hv | hv
      · exact hi.visOk i hv
      · simp only [List.mem_singleton] at hv
        subst hv
        obtain ⟨p', hp'⟩ := txnOf_some htx
        refine ⟨k, p', ?_, ?_⟩
        · rw [hi.recs] at hp'; exact List.mem_reverse.1 hp'
        · have := resultOf_some hres
          rw [hi.results] at this; exact List.mem_reverse.1 this

theorem Inv.run {h₁ : List Ev} {s s' : St} (hi : Inv h₁ s) (h₂ : List Ev) (hr : Model.Txn.run s h₂ = some s') :
    Inv (h₁ ++ h₂) s' := by
  induction h₂ generalizing h₁ s with
  | nil => simp [Model.Txn.run] at hr; subst hr; simpa using hi
  | cons e es ih =>
    obtain ⟨hchk, hr'⟩ := run_cons hr
    have := ih (hi.step e hchk) hr'
    simpa using this

theorem inv_of_run {h : List Ev} {s : St} (hr : run {} h = some s) : Inv h s := by
  simpa using Inv.init.run h hr

/-! ### consequences used by the property theorems -/

theorem Inv.recsNodup {h : List Ev} {s : St} (hi : Inv h s) : (s.recs.map (·.1)).Nodup := by
  rw [hi.recs, List.map_reverse]; exact nodup_reverse hi.idsNodup
theorem Inv.resultsNodup {h : List Ev} {s : St} (hi : Inv h s) : (s.results.map (·.1)).Nodup := by
  rw [hi.results, List.map_reverse]; exact nodup_reverse hi.resNodup

/-- the one result a visible record's transaction has, anywhere in the history, is a successful commit -/
theorem Inv.visible_result {h : List Ev} {s : St} (hi : Inv h s) {id : Id} {k part : Nat} {c ok : Bool}
    (hp : (id, k, part) ∈ producedOf h) (hv : id ∈ visibleIds h) (hr : (k, c, ok) ∈ resultsOf h) :
    c = true ∧ ok = true := by
  obtain ⟨k', p', h1, h2⟩ := hi.visOk id hv
  have hk := snd_eq_of_nodup_fst hi.idsNodup hp h1
  have hk' : k = k' := (Prod.mk.inj hk).1
  subst hk'
  have := snd_eq_of_nodup_fst hi.resNodup hr h2
  exact ⟨(Prod.mk.inj this).1, (Prod.mk.inj this).2⟩

theorem Inv.visible_ended {h : List Ev} {s : St} (hi : Inv h s) {id : Id} {k part : Nat}
    (hp : (id, k, part) ∈ producedOf h) (hv : id ∈ visibleIds h) : (k, true, true) ∈ resultsOf h := by
  obtain ⟨k', p', h1, h2⟩ := hi.visOk id hv
  have hk := snd_eq_of_nodup_fst hi.idsNodup hp h1
  have hk' : k = k' := (Prod.mk.inj hk).1
  subst hk'
  exact h2

end Proof.Txn
