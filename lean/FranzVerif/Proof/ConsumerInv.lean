import FranzVerif.Model.Consumer
import FranzVerif.Proof.Consumer
/-! The invariant `Inv c h s` relating the state the direct-consumer monitor reaches on an accepted
history `h` to the history-level observables, its preservation by every accepted event, and the
monotonicity facts (`Mono`) used to locate a decision before or after a returned record. -/
namespace Proof.Consumer
open Model.Consumer

/-! ### observables on `h ++ [ev]` -/

def offEv (part : Nat) : Ev → Option Nat
  | .returned p o _ _ => if p = part then some o else none | _ => none
def retEv : Ev → Option (Nat × Nat × Id × Bool)
  | .returned p o i c => some (p, o, i, c) | _ => none
def prodEv : Ev → Option (Id × Nat × Nat × Nat)
  | .produced i p o x => some (i, p, o, x) | _ => none
def decEv : Ev → Option (Nat × Bool)
  | .endDecided k c => some (k, c) | _ => none
def bufEv : Ev → Option (Nat × Nat)
  | .hookBuf p o => some (p, o) | _ => none
def unbufEv : Ev → Option (Nat × Nat)
  | .hookUnbuf p o _ => some (p, o) | _ => none
def gaugeEv : Ev → Option Nat
  | .gauge n => some n | _ => none
def incEv : Ev → Bool
  | .incomplete => true | .endDone _ _ ok => !ok | _ => false

theorem returnedOffsets_eq (part : Nat) (h : List Ev) : returnedOffsets part h = h.filterMap (offEv part) := rfl
theorem returnedOf_eq (h : List Ev) : returnedOf h = h.filterMap retEv := rfl
theorem producedOf_eq (h : List Ev) : producedOf h = h.filterMap prodEv := rfl
theorem decisionsOf_eq (h : List Ev) : decisionsOf h = h.filterMap decEv := rfl
theorem bufferedHooks_eq (h : List Ev) : bufferedHooks h = h.filterMap bufEv := rfl
theorem unbufferedHooks_eq (h : List Ev) : unbufferedHooks h = h.filterMap unbufEv := rfl
theorem lastGauge_eq (h : List Ev) : lastGauge h = (h.filterMap gaugeEv).getLast? := rfl
theorem isIncomplete_eq (h : List Ev) : isIncomplete h = h.any incEv := rfl

theorem filterMap_snoc {α β : Type} (f : α → Option β) (h : List α) (e : α) :
    (h ++ [e]).filterMap f = h.filterMap f ++ (f e).toList := by
  simp only [List.filterMap_append]; cases hh : f e <;> simp [hh]

theorem returnedOffsets_snoc (part : Nat) (h : List Ev) (ev : Ev) :
    returnedOffsets part (h ++ [ev]) = returnedOffsets part h ++ (offEv part ev).toList := by
  simp only [returnedOffsets_eq, filterMap_snoc]
theorem returnedOf_snoc (h : List Ev) (ev : Ev) : returnedOf (h ++ [ev]) = returnedOf h ++ (retEv ev).toList := by
  simp only [returnedOf_eq, filterMap_snoc]
theorem producedOf_snoc (h : List Ev) (ev : Ev) : producedOf (h ++ [ev]) = producedOf h ++ (prodEv ev).toList := by
  simp only [producedOf_eq, filterMap_snoc]
theorem decisionsOf_snoc (h : List Ev) (ev : Ev) : decisionsOf (h ++ [ev]) = decisionsOf h ++ (decEv ev).toList := by
  simp only [decisionsOf_eq, filterMap_snoc]
theorem bufferedHooks_snoc (h : List Ev) (ev : Ev) :
    bufferedHooks (h ++ [ev]) = bufferedHooks h ++ (bufEv ev).toList := by
  simp only [bufferedHooks_eq, filterMap_snoc]
theorem unbufferedHooks_snoc (h : List Ev) (ev : Ev) :
    unbufferedHooks (h ++ [ev]) = unbufferedHooks h ++ (unbufEv ev).toList := by
  simp only [unbufferedHooks_eq, filterMap_snoc]
theorem lastGauge_snoc (h : List Ev) (ev : Ev) : lastGauge (h ++ [ev]) = (gaugeEv ev).or (lastGauge h) := by
  simp only [lastGauge_eq, filterMap_snoc, List.getLast?_append]
  cases gaugeEv ev <;> simp
theorem isIncomplete_snoc (h : List Ev) (ev : Ev) : isIncomplete (h ++ [ev]) = (isIncomplete h || incEv ev) := by
  simp [isIncomplete_eq]

/-- rewrite every observable of `h ++ [ev]` for a concrete event -/
macro "obs_simp" : tactic => `(tactic|
  simp only [returnedOffsets_snoc, returnedOf_snoc, producedOf_snoc, decisionsOf_snoc, bufferedHooks_snoc,
    unbufferedHooks_snoc, lastGauge_snoc, isIncomplete_snoc, offEv, retEv, prodEv, decEv, bufEv, unbufEv, gaugeEv,
    incEv, Option.toList, List.append_nil, Option.or, Bool.or_false, Model.Consumer.apply])

/-! ### the invariant -/

/-- drop the index of a returned-record entry of the monitor state -/
def retKey (r : Nat × Nat × Id × Bool × Nat) : Nat × Nat × Id × Bool := (r.1, r.2.1, r.2.2.1, r.2.2.2.1)
/-- drop the index of a decision entry of the monitor state -/
def decKey (d : Nat × Bool × Nat) : Nat × Bool := (d.1, d.2.1)

structure Inv (c : Cfg) (h : List Ev) (s : St) : Prop where
  prod : s.prod = (producedOf h).reverse
  prodId : s.prod.Pairwise (fun a b => a.1 ≠ b.1)
  decided : s.decided.map decKey = (decisionsOf h).reverse
  ret : s.ret.map retKey = (returnedOf h).reverse
  incr : ∀ part, (returnedOffsets part h).Pairwise (· < ·)
  last : ∀ part y, y ∈ returnedOffsets part h → ∃ l, lastOf s part = some l ∧ y ≤ l
  start : ∀ r ∈ returnedOf h, c.start ≤ r.2.1
  ctl : c.keepCtl = false → ∀ r ∈ returnedOf h, r.2.2.2 = false
  buf : ∀ x, s.buffered.count x + (unbufferedHooks h).count x = (bufferedHooks h).count x
  gauge : s.gauge = lastGauge h
  incomplete : s.incomplete = isIncomplete h

theorem Inv.init (c : Cfg) : Inv c [] {} := by
  constructor <;> simp [producedOf, decisionsOf, returnedOf, returnedOffsets, unbufferedHooks, bufferedHooks,
    lastGauge, isIncomplete]

theorem Inv.step {c : Cfg} {h : List Ev} {s : St} (hi : Inv c h s) (ev : Ev)
    (hchk : check c s ev = none) : Inv c (h ++ [ev]) (apply c s ev) := by
  obtain ⟨h1, h2, h3, h4, h5, h6, h7, h8, h9, h10, h11⟩ := hi
  cases ev with
  | produced id part off txn =>
    constructor <;> obs_simp <;> try assumption
    · simp [h1]
    · have hc : ∀ a ∈ s.prod, ¬ a.1 = id := by
        simp only [check] at hchk
        split at hchk
        · simp at hchk
        · rename_i hn
          intro a ha he
          exact hn (List.any_eq_true.2 ⟨a, ha, by simp [he]⟩)
      exact List.pairwise_cons.2 ⟨fun a ha he => hc a ha he.symm, h2⟩
  | endDecided txn commit =>
    constructor <;> obs_simp <;> try assumption
    simp [h3, decKey]
  | endDone txn commit ok =>
    cases ok <;> constructor <;> obs_simp <;> try assumption
    · simp
    · simpa using h11
  | pollStart => constructor <;> obs_simp <;> assumption
  | pollEnd => constructor <;> obs_simp <;> assumption
  | returned part off id ctl =>
    obtain ⟨c1, c2, c3⟩ := returned_check hchk
    have hlt : ∀ a ∈ returnedOffsets part h, a < off := by
      intro a ha
      obtain ⟨l, hl, hle⟩ := h6 part a ha
      have := c2 l hl
      omega
    constructor
    · obs_simp; assumption
    · obs_simp; assumption
    · obs_simp; assumption
    · obs_simp; simp [h4, retKey]
    · intro q
      obs_simp
      by_cases hq : part = q
      · subst hq
        simp only [if_true]
        exact List.pairwise_append.2 ⟨h5 part, by simp, fun a ha b hb => by simp at hb; subst hb; exact hlt a ha⟩
      · simpa [hq] using h5 q
    · intro q y hy
      by_cases hq : q = part
      · subst hq
        refine ⟨off, lastOf_returned_same c s q off id ctl, ?_⟩
        rw [returnedOffsets_snoc] at hy
        simp only [offEv, if_true, Option.toList, List.mem_append, List.mem_singleton] at hy
        rcases hy with hy | hy
        · exact Nat.le_of_lt (hlt y hy)
        · omega
      · rw [lastOf_returned_other c s part off id ctl q hq]
        rw [returnedOffsets_snoc] at hy
        have : ¬ part = q := fun h => hq h.symm
        simp only [offEv, this, if_false, Option.toList, List.append_nil] at hy
        exact h6 q y hy
    · obs_simp
      intro r hr
      rcases List.mem_append.1 hr with hr | hr
      · exact h7 r hr
      · simp at hr; subst hr; exact c1
    · obs_simp
      intro hk r hr
      rcases List.mem_append.1 hr with hr | hr
      · exact h8 hk r hr
      · simp at hr; subst hr
        cases ctl
        · rfl
        · simp [c3 rfl] at hk
    · obs_simp; assumption
    · obs_simp; assumption
    · obs_simp; assumption
  | hookBuf part off =>
    constructor <;> obs_simp <;> try assumption
    intro x
    have := h9 x
    simp only [List.count_cons, List.count_append, List.count_nil]
    omega
  | hookUnbuf part off polled =>
    constructor <;> obs_simp <;> try assumption
    intro x
    have hmem : (part, off) ∈ s.buffered := by
      simp only [check] at hchk
      split at hchk
      · rename_i hc; exact List.contains_iff_mem.1 hc
      · simp at hchk
    have hpos := List.count_pos_iff.2 hmem
    have := h9 x
    simp only [List.count_erase, List.count_cons, List.count_append, List.count_nil]
    by_cases hx : (part, off) = x
    · subst hx; simp; omega
    · have : ((part, off) == x) = false := by simpa using hx
      simp [this]; omega
  | gauge n => constructor <;> obs_simp <;> assumption
  | incomplete =>
    constructor <;> obs_simp <;> try assumption
    simp
  | quiesce => constructor <;> obs_simp <;> assumption

theorem Inv.run {c : Cfg} {h₁ : List Ev} {s s' : St} (hi : Inv c h₁ s) (h₂ : List Ev)
    (hr : Model.Consumer.run c s h₂ = some s') : Inv c (h₁ ++ h₂) s' := by
  induction h₂ generalizing h₁ s with
  | nil => simp [Model.Consumer.run] at hr; subst hr; simpa using hi
  | cons e es ih =>
    simp only [Model.Consumer.run] at hr
    cases hs : Model.Consumer.step c s e with
    | none => simp [hs] at hr
    | some s1 =>
      simp only [hs] at hr
      obtain ⟨hchk, rfl⟩ := step_eq_some hs
      have := ih (hi.step e hchk) hr
      simpa using this

theorem inv_of_run {c : Cfg} {h : List Ev} {s : St} (hr : run c {} h = some s) : Inv c h s := by
  simpa using (Inv.init c).run h hr

end Proof.Consumer
