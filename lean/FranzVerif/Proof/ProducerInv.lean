import FranzVerif.Proof.Producer
/-! The history invariant of the producer monitor and its preservation by every accepted event. -/
namespace Proof.Producer
open Model.Producer
set_option linter.unusedSimpArgs false

/-! ### consequences of `NoRec` -/

theorem NoRec.called {h : List Ev} {id : Id} (hn : NoRec h id) : called id h = false := by
  rw [called_eq, List.any_eq_false]
  intro a ha; have := hn a ha
  cases a <;> simp_all [evId, callEv]
theorem NoRec.kindOf {h : List Ev} {id : Id} (hn : NoRec h id) : kindOf id h = none := by
  rw [kindOf_eq, List.findSome?_eq_none_iff]
  intro a ha; have := hn a ha
  cases a <;> simp_all [evId, kindEv]
theorem NoRec.szOpt {h : List Ev} {id : Id} (hn : NoRec h id) : szOpt id h = none := by
  rw [Proof.Producer.szOpt, List.findSome?_eq_none_iff]
  intro a ha; have := hn a ha
  cases a <;> simp_all [evId, sizeEv]
theorem NoRec.promisesOf {h : List Ev} {id : Id} (hn : NoRec h id) : promisesOf id h = [] := by
  rw [promisesOf_eq, List.filterMap_eq_nil_iff]
  intro a ha; have := hn a ha
  cases a <;> simp_all [evId, promEv]
theorem NoRec.hookUsOf {h : List Ev} {id : Id} (hn : NoRec h id) : hookUsOf id h = [] := by
  rw [hookUsOf_eq, List.filterMap_eq_nil_iff]
  intro a ha; have := hn a ha
  cases a <;> simp_all [evId, hookUEv]
theorem NoRec.hookBsOf {h : List Ev} {id : Id} (hn : NoRec h id) : hookBsOf id h = [] := by
  rw [hookBsOf_eq, List.filterMap_eq_nil_iff]
  intro a ha; have := hn a ha
  cases a <;> simp_all [evId, hookBEv]
theorem NoRec.not_admitted {h : List Ev} {id : Id} (hn : NoRec h id) : id ∉ admittedIds h := by
  rw [admittedIds_eq, List.mem_filterMap]
  rintro ⟨a, ha, h2⟩; have := hn a ha
  cases a <;> simp_all [evId, admitEv]
theorem NoRec.not_released {h : List Ev} {id : Id} (hn : NoRec h id) : id ∉ releasedIds h := by
  rw [releasedIds_eq, List.mem_filterMap]
  rintro ⟨a, ha, h2⟩; have := hn a ha
  cases a <;> simp_all [evId, releaseEv]
theorem NoRec.not_block {h : List Ev} {id : Id} (hn : NoRec h id) : Ev.block id ∉ h := by
  intro ha; have := hn _ ha; simp [evId] at this

/-! ### the global invariant -/

structure Inv (c : Cfg) (h : List Ev) (s : St) : Prop where
  recSome : ∀ id r, find s.recs id = some r → RecInv h id r
  recNone : ∀ id, find s.recs id = none → NoRec h id
  occ : (inBuf h).length = s.occ
  bytes : s.occBytes = ((inBuf h).map (sizeOfId h)).sum
  occLe : s.occ ≤ c.maxRecs
  bytesLe : c.maxBytes > 0 → s.occBytes ≤ c.maxBytes
  flStart : ∀ k, Ev.flushStart k ∈ h → ∃ f ∈ s.flushes, f.k = k
  flDone : ∀ f ∈ s.flushes, f.done = true → ∃ ok, Ev.flushEnd f.k ok ∈ h

theorem Inv.init (c : Cfg) : Inv c [] {} := by
  refine ⟨?_, ?_, rfl, rfl, Nat.zero_le _, fun _ => Nat.zero_le _, ?_, ?_⟩
  · intro id r h; simp [find] at h
  · intro id _ ev hev; simp at hev
  · intro k hk; simp at hk
  · intro f hf; simp at hf

theorem inBuf_snoc_same {h : List Ev} {ev : Ev} (ha : admitEv ev = none) (hr : releaseEv ev = none) :
    inBuf (h ++ [ev]) = inBuf h := by
  simp [inBuf, admittedIds_snoc, releasedIds_snoc, ha, hr]

theorem sizeOfId_snoc_same {h : List Ev} {ev : Ev} (hs : ∀ id, sizeEv id ev = none) :
    sizeOfId (h ++ [ev]) = sizeOfId h := by
  funext id; simp [sizeOfId_eq', szOpt_snoc, hs]

/-- events that only touch one record's flags -/
def recOnly : Ev → Bool
  | .hookB _ | .block _ | .unblock _ | .hookU _ _ | .promise _ _ | .ret _ => true
  | _ => false

theorem recs_upd {c : Cfg} {h : List Ev} {s : St} (hi : Inv c h s) (ev : Ev) (i : Id) (f : Rec → Rec)
    (hf : ∀ r, (f r).id = r.id) (hev : evId ev = some i)
    (r : Rec) (hfind : find s.recs i = some r) (hr : RecInv (h ++ [ev]) i (f r)) :
    (∀ id r', find (Model.Producer.upd s.recs i f) id = some r' → RecInv (h ++ [ev]) id r') ∧
    (∀ id, find (Model.Producer.upd s.recs i f) id = none → NoRec (h ++ [ev]) id) := by
  constructor
  · intro id r' hfd
    simp only [find_upd f hf] at hfd
    by_cases hid : id = i
    · subst hid; simp [hfind] at hfd; subst hfd; exact hr
    · simp only [hid, if_false] at hfd
      exact (hi.recSome id r' hfd).frame ev (by rw [hev]; simpa using Ne.symm hid)
  · intro id hfd
    simp only [find_upd f hf] at hfd
    by_cases hid : id = i
    · subst hid; simp [hfind] at hfd
    · simp only [hid, if_false] at hfd
      exact (hi.recNone id hfd).frame ev (by rw [hev]; simpa using Ne.symm hid)

theorem Inv.upd {c : Cfg} {h : List Ev} {s : St} (hi : Inv c h s) (ev : Ev) (i : Id) (f : Rec → Rec)
    (hf : ∀ r, (f r).id = r.id) (hro : recOnly ev = true) (hev : evId ev = some i)
    (r : Rec) (hfind : find s.recs i = some r) (hr : RecInv (h ++ [ev]) i (f r)) :
    Inv c (h ++ [ev]) { s with recs := Model.Producer.upd s.recs i f } := by
  have hA : admitEv ev = none := by cases ev <;> simp_all [recOnly, admitEv]
  have hR : releaseEv ev = none := by cases ev <;> simp_all [recOnly, releaseEv]
  have hS : ∀ id, sizeEv id ev = none := by intro id; cases ev <;> simp_all [recOnly, sizeEv]
  obtain ⟨hs1, hs2⟩ := recs_upd hi ev i f hf hev r hfind hr
  refine ⟨hs1, hs2, ?_, ?_, hi.occLe, hi.bytesLe, ?_, ?_⟩
  · rw [inBuf_snoc_same hA hR]; exact hi.occ
  · rw [inBuf_snoc_same hA hR]; rw [sizeOfId_snoc_same hS]; exact hi.bytes
  · intro k hk
    have : Ev.flushStart k ∈ h := by
      rcases List.mem_append.1 hk with hk | hk
      · exact hk
      · simp at hk; subst hk; simp [recOnly] at hro
    exact hi.flStart k this
  · intro fl hfl hd
    obtain ⟨ok, hok⟩ := hi.flDone fl hfl hd
    exact ⟨ok, List.mem_append_left _ hok⟩

theorem ite_some_eq_none {α : Type} {p : Prop} [Decidable p] {a : α} {b : Option α} :
    (if p then some a else b) = none ↔ ¬p ∧ b = none := by
  split <;> simp_all

macro "recinv_simp" : tactic => `(tactic|
  (constructor <;> try simp_all [called_snoc, kindOf_snoc, szOpt_snoc, promisesOf_snoc, hookUsOf_snoc,
      hookBsOf_snoc, admittedIds_snoc, releasedIds_snoc, promEv, hookUEv, hookBEv, callEv, kindEv, sizeEv,
      admitEv, releaseEv]))

theorem Inv.hookB {c : Cfg} {h : List Ev} {s : St} (hi : Inv c h s) (i : Id)
    (hchk : check c s (.hookB i) = none) : Inv c (h ++ [.hookB i]) (apply c s (.hookB i)) := by
  simp only [check] at hchk
  cases hfd : find s.recs i with
  | none => simp [hfd] at hchk
  | some r =>
    simp [hfd, ite_some_eq_none] at hchk
    obtain ⟨h1, h2, h3, h4, h5, h6, h7, h8, h9, h10, h11, h12, h13⟩ := hi.recSome i r hfd
    refine hi.upd _ i _ (fun _ => rfl) rfl rfl r hfd ?_
    recinv_simp

theorem Inv.block {c : Cfg} {h : List Ev} {s : St} (hi : Inv c h s) (i : Id)
    (hchk : check c s (.block i) = none) : Inv c (h ++ [.block i]) (apply c s (.block i)) := by
  simp only [check] at hchk
  cases hfd : find s.recs i with
  | none => simp [hfd] at hchk
  | some r =>
    simp [hfd, ite_some_eq_none] at hchk
    obtain ⟨h1, h2, h3, h4, h5, h6, h7, h8, h9, h10, h11, h12, h13⟩ := hi.recSome i r hfd
    refine hi.upd _ i _ (fun _ => rfl) rfl rfl r hfd ?_
    recinv_simp

theorem Inv.unblock {c : Cfg} {h : List Ev} {s : St} (hi : Inv c h s) (i : Id)
    (hchk : check c s (.unblock i) = none) : Inv c (h ++ [.unblock i]) (apply c s (.unblock i)) := by
  simp only [check] at hchk
  cases hfd : find s.recs i with
  | none => simp [hfd] at hchk
  | some r =>
    simp [hfd, ite_some_eq_none] at hchk
    obtain ⟨h1, h2, h3, h4, h5, h6, h7, h8, h9, h10, h11, h12, h13⟩ := hi.recSome i r hfd
    refine hi.upd _ i _ (fun _ => rfl) rfl rfl r hfd ?_
    recinv_simp

theorem Inv.hookU {c : Cfg} {h : List Ev} {s : St} (hi : Inv c h s) (i : Id) (e : Err)
    (hchk : check c s (.hookU i e) = none) : Inv c (h ++ [.hookU i e]) (apply c s (.hookU i e)) := by
  simp only [check] at hchk
  cases hfd : find s.recs i with
  | none => simp [hfd] at hchk
  | some r =>
    simp [hfd, ite_some_eq_none] at hchk
    obtain ⟨h1, h2, h3, h4, h5, h6, h7, h8, h9, h10, h11, h12, h13⟩ := hi.recSome i r hfd
    refine hi.upd _ i _ (fun _ => rfl) rfl rfl r hfd ?_
    recinv_simp
    intro hp; have := h12 hp; rw [← this] at hp; simp at hp

theorem Inv.promise {c : Cfg} {h : List Ev} {s : St} (hi : Inv c h s) (i : Id) (e : Err)
    (hchk : check c s (.promise i e) = none) : Inv c (h ++ [.promise i e]) (apply c s (.promise i e)) := by
  simp only [check] at hchk
  cases hfd : find s.recs i with
  | none => simp [hfd] at hchk
  | some r =>
    simp [hfd, ite_some_eq_none] at hchk
    obtain ⟨h1, h2, h3, h4, h5, h6, h7, h8, h9, h10, h11, h12, h13⟩ := hi.recSome i r hfd
    refine hi.upd _ i _ (fun _ => rfl) rfl rfl r hfd ?_
    recinv_simp

theorem Inv.ret {c : Cfg} {h : List Ev} {s : St} (hi : Inv c h s) (i : Id)
    (hchk : check c s (.ret i) = none) : Inv c (h ++ [.ret i]) (apply c s (.ret i)) := by
  simp only [check] at hchk
  cases hfd : find s.recs i with
  | none => simp [hfd] at hchk
  | some r =>
    simp [hfd, ite_some_eq_none] at hchk
    obtain ⟨h1, h2, h3, h4, h5, h6, h7, h8, h9, h10, h11, h12, h13⟩ := hi.recSome i r hfd
    refine hi.upd _ i _ (fun _ => rfl) rfl rfl r hfd ?_
    recinv_simp

/-! ### events that are not about a record -/

theorem Inv.flushes {c : Cfg} {h : List Ev} {s : St} (hi : Inv c h s) (ev : Ev) (hev : evId ev = none) (s' : St)
    (e1 : s'.recs = s.recs) (e2 : s'.occ = s.occ) (e3 : s'.occBytes = s.occBytes)
    (hst : ∀ k, Ev.flushStart k ∈ h ++ [ev] → ∃ f ∈ s'.flushes, f.k = k)
    (hdn : ∀ f ∈ s'.flushes, f.done = true → ∃ ok, Ev.flushEnd f.k ok ∈ h ++ [ev]) :
    Inv c (h ++ [ev]) s' := by
  have hA : admitEv ev = none := by cases ev <;> simp_all [evId, admitEv]
  have hR : releaseEv ev = none := by cases ev <;> simp_all [evId, releaseEv]
  have hS : ∀ id, sizeEv id ev = none := by intro id; cases ev <;> simp_all [evId, sizeEv]
  refine ⟨?_, ?_, ?_, ?_, e2 ▸ hi.occLe, e3 ▸ hi.bytesLe, hst, hdn⟩
  · intro id r hfd; rw [e1] at hfd
    exact (hi.recSome id r hfd).frame ev (by simp [hev])
  · intro id hfd; rw [e1] at hfd
    exact (hi.recNone id hfd).frame ev (by simp [hev])
  · rw [inBuf_snoc_same hA hR, e2]; exact hi.occ
  · rw [inBuf_snoc_same hA hR, sizeOfId_snoc_same hS, e3]; exact hi.bytes

theorem Inv.plain {c : Cfg} {h : List Ev} {s : St} (hi : Inv c h s) (ev : Ev) (hev : evId ev = none)
    (hfs : ∀ k, ev ≠ Ev.flushStart k) (s' : St)
    (e1 : s'.recs = s.recs) (e2 : s'.occ = s.occ) (e3 : s'.occBytes = s.occBytes) (e4 : s'.flushes = s.flushes) :
    Inv c (h ++ [ev]) s' := by
  refine hi.flushes ev hev s' e1 e2 e3 ?_ ?_
  · intro k hk
    rw [e4]
    rcases List.mem_append.1 hk with hk | hk
    · exact hi.flStart k hk
    · simp at hk; exact absurd hk.symm (hfs k)
  · intro f hf hd
    rw [e4] at hf
    obtain ⟨ok, hok⟩ := hi.flDone f hf hd
    exact ⟨ok, List.mem_append_left _ hok⟩

theorem Inv.closeStart {c : Cfg} {h : List Ev} {s : St} (hi : Inv c h s) :
    Inv c (h ++ [.closeStart]) (apply c s .closeStart) :=
  hi.plain _ rfl (by intro k; simp) _ rfl rfl rfl rfl
theorem Inv.closeEnd {c : Cfg} {h : List Ev} {s : St} (hi : Inv c h s) :
    Inv c (h ++ [.closeEnd]) (apply c s .closeEnd) :=
  hi.plain _ rfl (by intro k; simp) _ rfl rfl rfl rfl
theorem Inv.quiesce {c : Cfg} {h : List Ev} {s : St} (hi : Inv c h s) (n b : Nat) :
    Inv c (h ++ [.quiesce n b]) (apply c s (.quiesce n b)) :=
  hi.plain _ rfl (by intro k; simp) _ rfl rfl rfl rfl

theorem Inv.flushStart {c : Cfg} {h : List Ev} {s : St} (hi : Inv c h s) (k : Nat) :
    Inv c (h ++ [.flushStart k]) (apply c s (.flushStart k)) := by
  refine hi.flushes _ rfl _ rfl rfl rfl ?_ ?_
  · intro k' hk
    rcases List.mem_append.1 hk with hk | hk
    · obtain ⟨f, hf, hfk⟩ := hi.flStart k' hk
      exact ⟨f, List.mem_cons_of_mem _ hf, hfk⟩
    · simp at hk; subst hk
      exact ⟨_, List.mem_cons_self, rfl⟩
  · intro f hf hd
    simp only [Model.Producer.apply, List.mem_cons] at hf
    rcases hf with hf | hf
    · subst hf; simp at hd
    · obtain ⟨ok, hok⟩ := hi.flDone f hf hd
      exact ⟨ok, List.mem_append_left _ hok⟩

theorem Inv.flushEnd {c : Cfg} {h : List Ev} {s : St} (hi : Inv c h s) (k : Nat) (ok : Bool) :
    Inv c (h ++ [.flushEnd k ok]) (apply c s (.flushEnd k ok)) := by
  refine hi.flushes _ rfl _ rfl rfl rfl ?_ ?_
  · intro k' hk
    have hk : Ev.flushStart k' ∈ h := by
      rcases List.mem_append.1 hk with hk | hk
      · exact hk
      · simp at hk
    obtain ⟨f, hf, hfk⟩ := hi.flStart k' hk
    refine ⟨_, List.mem_map.2 ⟨f, hf, rfl⟩, ?_⟩
    show (if (f.k == k) = true then { f with done := true } else f).k = k'
    split <;> exact hfk
  · intro f' hf' hd
    simp only [Model.Producer.apply, List.mem_map] at hf'
    obtain ⟨f, hf, rfl⟩ := hf'
    by_cases hh : (f.k == k) = true
    · simp only [hh, if_true]
      have : f.k = k := by simpa using hh
      exact ⟨ok, by simp [this]⟩
    · simp only [hh] at hd ⊢
      obtain ⟨ok', hok⟩ := hi.flDone f hf hd
      exact ⟨ok', List.mem_append_left _ hok⟩

/-! ### call / admit / release -/

theorem length_filter_ne (l : List Nat) (i : Nat) :
    (l.filter (fun x => x != i)).length + l.count i = l.length := by
  induction l with
  | nil => rfl
  | cons a l ih =>
    by_cases h : a = i
    · subst h; simp [List.filter_cons]; omega
    · have : (a != i) = true := by simpa using h
      simp [List.filter_cons, this, List.count_cons, h]; omega

theorem sum_filter_ne (f : Nat → Nat) (l : List Nat) (i : Nat) :
    ((l.filter (fun x => x != i)).map f).sum + l.count i * f i = (l.map f).sum := by
  induction l with
  | nil => simp
  | cons a l ih =>
    by_cases h : a = i
    · subst h; simp [List.filter_cons, Nat.add_mul]; omega
    · have : (a != i) = true := by simpa using h
      simp [List.filter_cons, this, List.count_cons, h]; omega

theorem RecInv.sawFull {h : List Ev} {id : Id} {r : Rec} (hr : RecInv h id r) (b : Bool) :
    RecInv h id { r with sawFull := b } := by
  obtain ⟨h1, h2, h3, h4, h5, h6, h7, h8, h9, h10, h11, h12, h13⟩ := hr
  exact ⟨h1, h2, h3, h4, h5, h6, h7, h8, h9, h10, h11, h12, h13⟩

theorem Inv.called_of_mem_inBuf {c : Cfg} {h : List Ev} {s : St} (hi : Inv c h s) {id : Id}
    (hm : id ∈ inBuf h) : ∃ r, find s.recs id = some r := by
  have hm : id ∈ admittedIds h := (List.mem_filter.1 hm).1
  cases hfd : find s.recs id with
  | none => exact absurd hm (hi.recNone id hfd).not_admitted
  | some r => exact ⟨r, rfl⟩

theorem Inv.call {c : Cfg} {h : List Ev} {s : St} (hi : Inv c h s) (i : Id) (k : Kind) (sz : Nat)
    (hchk : check c s (.call i k sz) = none) : Inv c (h ++ [.call i k sz]) (apply c s (.call i k sz)) := by
  simp [check, ite_some_eq_none] at hchk
  have hn := hi.recNone i hchk.1
  have hA : admitEv (.call i k sz) = none := rfl
  have hR : releaseEv (.call i k sz) = none := rfl
  refine ⟨?_, ?_, ?_, ?_, hi.occLe, hi.bytesLe, ?_, ?_⟩
  · intro id r hfd
    simp only [Model.Producer.apply, find_cons] at hfd
    by_cases hid : i = id
    · subst hid
      simp at hfd; subst hfd
      have h2 := hn.called; have h3 := hn.kindOf; have h4 := hn.szOpt; have h5 := hn.promisesOf
      have h6 := hn.hookUsOf; have h7 := hn.hookBsOf
      have h8 := List.count_eq_zero.2 hn.not_admitted
      have h9 := List.count_eq_zero.2 hn.not_released
      have h10 := hn.not_block
      recinv_simp
    · simp only [hid, if_false] at hfd
      exact (hi.recSome id r hfd).frame _ (by simpa [evId] using hid)
  · intro id hfd
    simp only [Model.Producer.apply, find_cons] at hfd
    by_cases hid : i = id
    · simp [hid] at hfd
    · simp only [hid, if_false] at hfd
      exact (hi.recNone id hfd).frame _ (by simpa [evId] using hid)
  · rw [inBuf_snoc_same hA hR]; exact hi.occ
  · rw [inBuf_snoc_same hA hR]
    show s.occBytes = _
    rw [hi.bytes]
    congr 1
    apply List.map_congr_left
    intro id hm
    obtain ⟨r, hr⟩ := hi.called_of_mem_inBuf hm
    have hne : i ≠ id := by intro he; subst he; simp [hchk.1] at hr
    simp [sizeOfId_eq', szOpt_snoc, sizeEv, hne]
  · intro k' hk
    have : Ev.flushStart k' ∈ h := by
      rcases List.mem_append.1 hk with hk | hk
      · exact hk
      · simp at hk
    exact hi.flStart k' this
  · intro fl hfl hd
    obtain ⟨ok, hok⟩ := hi.flDone fl hfl hd
    exact ⟨ok, List.mem_append_left _ hok⟩

theorem inBuf_snoc_admit (h : List Ev) (i n b sz : Nat) (hnr : i ∉ releasedIds h) :
    inBuf (h ++ [.admit i n b sz]) = inBuf h ++ [i] := by
  simp [inBuf, admittedIds_snoc, releasedIds_snoc, admitEv, releaseEv, List.filter_append, hnr]

theorem inBuf_snoc_release (h : List Ev) (i n b : Nat) :
    inBuf (h ++ [.release i n b]) = (inBuf h).filter (fun x => x != i) := by
  simp only [inBuf, admittedIds_snoc, releasedIds_snoc, admitEv, releaseEv, Option.toList_none,
    Option.toList_some, List.append_nil, List.filter_filter]
  apply List.filter_congr
  intro x _
  by_cases hx : x = i <;> simp [hx, Bool.and_comm]

theorem Inv.admit {c : Cfg} {h : List Ev} {s : St} (hi : Inv c h s) (i n b sz : Nat)
    (hchk : check c s (.admit i n b sz) = none) :
    Inv c (h ++ [.admit i n b sz]) (apply c s (.admit i n b sz)) := by
  simp only [check] at hchk
  cases hfd : find s.recs i with
  | none => simp [hfd] at hchk
  | some r =>
    simp [hfd, ite_some_eq_none] at hchk
    obtain ⟨c1, ⟨⟨c2, c3⟩, c4⟩, c5, c6, c7, c8, c9⟩ := hchk
    have hr := hi.recSome i r hfd
    have hnr : i ∉ releasedIds h := by
      have := hr.hrel
      have hrel : r.released = false := by
        cases hh : r.released with
        | false => rfl
        | true => have := (hr.relAdm hh).1; simp [c1] at this
      rw [hrel] at this
      exact List.count_eq_zero.1 (by simpa using this)
    have hS : ∀ id, sizeEv id (.admit i n b sz) = none := fun _ => rfl
    obtain ⟨hs1, hs2⟩ := recs_upd hi (.admit i n b sz) i (fun r => { r with admitted := true }) (fun _ => rfl) rfl r hfd (by
      obtain ⟨h1, h2, h3, h4, h5, h6, h7, h8, h9, h10, h11, h12, h13⟩ := hr
      recinv_simp)
    refine ⟨?_, ?_, ?_, ?_, ?_, ?_, ?_, ?_⟩
    · intro id r' hfd'
      simp only [Model.Producer.apply, markFull] at hfd'
      rw [find_map _ (by intro r; split <;> rfl)] at hfd'
      cases hfd2 : find (Model.Producer.upd s.recs i fun r => { r with admitted := true }) id with
      | none => simp [hfd2] at hfd'
      | some r0 =>
        simp only [hfd2, Option.map_some, Option.some.injEq] at hfd'
        subst hfd'
        have := hs1 id r0 hfd2
        split
        · exact this.sawFull true
        · exact this
    · intro id hfd'
      simp only [Model.Producer.apply, markFull] at hfd'
      rw [find_map _ (by intro r; split <;> rfl)] at hfd'
      apply hs2 id
      simpa using hfd'
    · rw [inBuf_snoc_admit h i n b sz hnr]
      simp [Model.Producer.apply, hi.occ]
    · rw [inBuf_snoc_admit h i n b sz hnr, sizeOfId_snoc_same hS]
      have : sizeOfId h i = sz := by simp [sizeOfId_eq', hr.hsz, c4]
      simp [Model.Producer.apply, hi.bytes, this]
    · show s.occ + 1 ≤ c.maxRecs
      exact c6
    · intro hpos
      show s.occBytes + sz ≤ c.maxBytes
      exact c7 hpos
    · intro k' hk
      have : Ev.flushStart k' ∈ h := by
        rcases List.mem_append.1 hk with hk | hk
        · exact hk
        · simp at hk
      exact hi.flStart k' this
    · intro fl hfl hd
      obtain ⟨ok, hok⟩ := hi.flDone fl hfl hd
      exact ⟨ok, List.mem_append_left _ hok⟩

theorem Inv.release {c : Cfg} {h : List Ev} {s : St} (hi : Inv c h s) (i n b : Nat)
    (hchk : check c s (.release i n b) = none) :
    Inv c (h ++ [.release i n b]) (apply c s (.release i n b)) := by
  simp only [check] at hchk
  cases hfd : find s.recs i with
  | none => simp [hfd] at hchk
  | some r =>
    simp [hfd, ite_some_eq_none] at hchk
    obtain ⟨⟨⟨c1, c2⟩, c3⟩, c4, c5, c6⟩ := hchk
    have hr := hi.recSome i r hfd
    have hcnt : (inBuf h).count i = 1 := by
      have h1 := hr.hadm; have h2 := hr.hrel
      rw [c1] at h1; rw [c2] at h2
      have hnr : i ∉ releasedIds h := List.count_eq_zero.1 (by simpa using h2)
      rw [inBuf, List.count_filter (by simpa using hnr)]
      simpa using h1
    have hS : ∀ id, sizeEv id (.release i n b) = none := fun _ => rfl
    have hsz : sizeOfId h i = r.sz := by simp [sizeOfId_eq', hr.hsz]
    have hlen := length_filter_ne (inBuf h) i
    have hsum := sum_filter_ne (sizeOfId h) (inBuf h) i
    rw [hcnt] at hlen hsum
    have hocc := hi.occ
    have hby := hi.bytes
    have hle := hi.occLe
    have hble := hi.bytesLe
    obtain ⟨hs1, hs2⟩ := recs_upd hi (.release i n b) i (fun r => { r with released := true }) (fun _ => rfl) rfl r hfd (by
      obtain ⟨h1, h2, h3, h4, h5, h6, h7, h8, h9, h10, h11, h12, h13⟩ := hr
      recinv_simp
      exact ⟨by simpa [Option.isSome_iff_ne_none] using c3,
        fun hk => by simpa [Option.isSome_iff_ne_none] using c4 hk⟩)
    simp only [Model.Producer.apply, hfd]
    refine ⟨hs1, hs2, ?_, ?_, ?_, ?_, ?_, ?_⟩
    · rw [inBuf_snoc_release]
      show _ = s.occ - 1
      omega
    · rw [inBuf_snoc_release, sizeOfId_snoc_same hS]
      show s.occBytes - r.sz = _
      omega
    · show s.occ - 1 ≤ c.maxRecs
      omega
    · intro hpos
      have := hble hpos
      show s.occBytes - r.sz ≤ c.maxBytes
      omega
    · intro k' hk
      have : Ev.flushStart k' ∈ h := by
        rcases List.mem_append.1 hk with hk | hk
        · exact hk
        · simp at hk
      exact hi.flStart k' this
    · intro fl hfl hd
      obtain ⟨ok, hok⟩ := hi.flDone fl hfl hd
      exact ⟨ok, List.mem_append_left _ hok⟩

/-! ### every accepted step / run preserves the invariant -/

theorem step_eq_some {c : Cfg} {s s' : St} {ev : Ev} (hs : step c s ev = some s') :
    check c s ev = none ∧ s' = apply c s ev := by
  unfold step at hs
  split at hs
  · simp at hs; exact ⟨by assumption, hs.symm⟩
  · simp at hs

theorem Inv.step {c : Cfg} {h : List Ev} {s s' : St} (hi : Inv c h s) (ev : Ev)
    (hs : Model.Producer.step c s ev = some s') : Inv c (h ++ [ev]) s' := by
  obtain ⟨hchk, rfl⟩ := step_eq_some hs
  cases ev with
  | call i k sz => exact hi.call i k sz hchk
  | hookB i => exact hi.hookB i hchk
  | admit i n b sz => exact hi.admit i n b sz hchk
  | block i => exact hi.block i hchk
  | unblock i => exact hi.unblock i hchk
  | hookU i e => exact hi.hookU i e hchk
  | promise i e => exact hi.promise i e hchk
  | release i n b => exact hi.release i n b hchk
  | ret i => exact hi.ret i hchk
  | flushStart k => exact hi.flushStart k
  | flushEnd k ok => exact hi.flushEnd k ok
  | closeStart => exact hi.closeStart
  | closeEnd => exact hi.closeEnd
  | quiesce n b => exact hi.quiesce n b

theorem run_append (c : Cfg) (s : St) (h₁ h₂ : List Ev) :
    run c s (h₁ ++ h₂) = (run c s h₁).bind (fun s' => run c s' h₂) := by
  induction h₁ generalizing s with
  | nil => rfl
  | cons e es ih =>
    simp only [List.cons_append, run]
    cases Model.Producer.step c s e with
    | none => rfl
    | some s' => exact ih s'

theorem Inv.run {c : Cfg} {h₁ : List Ev} {s s' : St} (hi : Inv c h₁ s) (h₂ : List Ev)
    (hr : Model.Producer.run c s h₂ = some s') : Inv c (h₁ ++ h₂) s' := by
  induction h₂ generalizing h₁ s with
  | nil => simp [Model.Producer.run] at hr; subst hr; simpa using hi
  | cons e es ih =>
    simp only [Model.Producer.run] at hr
    cases hs : Model.Producer.step c s e with
    | none => simp [hs] at hr
    | some s1 =>
      simp only [hs] at hr
      have := ih (hi.step e hs) hr
      simpa using this

theorem inv_of_run {c : Cfg} {h : List Ev} {s : St} (hr : run c {} h = some s) : Inv c h s := by
  simpa using (Inv.init c).run h hr

/-- an accepted history decomposes at any event -/
theorem run_split {c : Cfg} {h₁ h₂ : List Ev} {ev : Ev} (hacc : (run c {} (h₁ ++ ev :: h₂)).isSome) :
    ∃ s₁, run c {} h₁ = some s₁ ∧ check c s₁ ev = none ∧ (run c (apply c s₁ ev) h₂).isSome := by
  rw [run_append] at hacc
  cases h1 : run c {} h₁ with
  | none => simp [h1] at hacc
  | some s₁ =>
    simp only [h1, Option.bind_some, run] at hacc
    cases hs : Model.Producer.step c s₁ ev with
    | none => simp [hs] at hacc
    | some s2 =>
      obtain ⟨hchk, rfl⟩ := step_eq_some hs
      simp only [hs] at hacc
      exact ⟨s₁, rfl, hchk, hacc⟩

end Proof.Producer
