import FranzVerif.Model.C06
import FranzVerif.Spec.C06
/-! C06 — the reading of decoded items as a Kafka log (`Rep`), well-formedness of a log, and the lemmas about the
record loops (`maybeKeepRecord` iterated) used by the refinement proof `Proof/C06Walk.lean`. Core Lean only.

`Rep it lb` says that the decoded frame `it` (a v2 record batch, a v0/v1 message, a compressed v0/v1 wrapper) is the
encoding of the log batch `lb` of the reference decoder (`Spec.C06.LBatch`). It is written from the Kafka log format:

* v2: record offset = base offset + offset delta; timestamp = first timestamp + delta (CreateTime) or the batch's
  max timestamp (LogAppendTime); last offset = base + last offset delta; a complete batch holds as many records as it
  claims, a batch cut short inside holds a proper prefix of them;
* v0/v1 message: a batch of one record; v0 has no timestamp (attribute bit 7 is how `kgo.RecordAttrs` says so);
* compressed wrapper: the inner messages; v0 inner offsets are absolute, v1 inner offsets are relative and the
  wrapper carries the absolute offset of the last inner message (rebasing by `wrapper − last inner`); a v1 wrapper
  stamped LogAppendTime gives its timestamp and timestamp type to every inner message. -/
namespace Proof.C06
open Model.C06
open Spec.C06 (LRec LBatch ORec Req)

def hdrsOf (hs : List Header) : List (Bytes × Option Bytes) := hs.map fun h => (h.key, h.value)

/-- the returned record as the Spec sees it (every observable field) -/
def obs (r : Rec) : ORec := ⟨r.offset, r.tsMs, r.key, r.value, hdrsOf r.headers, r.attrs, r.pid, r.pepoch, r.lepoch⟩

def reqOf (o : Opts) (A : List (Int × Int)) : Req := ⟨o.offset, o.keepControl, o.readCommitted, A⟩

/-! ## Reading items as log batches -/

/-- the log record a v2 wire record denotes -/
def v2Rec (b : Batch) (k : KRec) : LRec :=
  ⟨b.first + k.offDelta, some (if b.attrs / 8 % 2 = 0 then b.firstTs + k.tsDelta else b.maxTs), k.key, k.value, hdrsOf k.headers⟩

structure RepBatch (b : Batch) (lb : LBatch) : Prop where
  magic : b.magic = 2
  attrsLt : b.attrs < 128                       -- the unused attribute bits are zero
  attrs : lb.attrs = b.attrs
  decomp : b.decompOk = true
  tail : b.tail = .stop
  first : lb.first = b.first
  last : lb.last = b.first + b.lastDelta
  pid : lb.pid = b.pid
  pepoch : lb.pepoch = b.pepoch
  lepoch : lb.lepoch = b.lepoch
  count : b.numRecords = lb.records.length      -- the claimed count is the number of records the log holds
  present : lb.present = b.recs.length          -- the decodable ones are those that made it into the bytes
  recs : lb.records.take lb.present = b.recs.map (v2Rec b)
  raw : 2 * b.recs.length ≤ b.rawLen            -- a record takes at least two bytes (`mkBatch_raw` at the byte level)

/-- `processV0Message` / `processV1Message` accept the message -/
def validMsg (m : Msg) : Prop :=
  if m.isV1 then m.magic = 1 ∧ m.attrs / 16 = 0 else m.magic = 0 ∧ m.attrs / 8 = 0

/-- attribute byte a v0 / v1 message exposes (`messageAttrsToRecordAttrs`: bit 7 marks v0 = "no timestamp") -/
def msgAttrs (m : Msg) : Nat := if m.isV1 then m.attrs else m.attrs + 128

def msgRec (m : Msg) (base : Int) : LRec :=
  ⟨m.offset + base, if m.isV1 then some m.ts else none, m.key, m.value, []⟩

structure RepSingle (m : Msg) (lb : LBatch) : Prop where
  valid : validMsg m
  first : lb.first = m.offset
  last : lb.last = m.offset
  pid : lb.pid = -1
  pepoch : lb.pepoch = -1
  lepoch : lb.lepoch = -1
  attrs : lb.attrs = msgAttrs m
  records : lb.records = [msgRec m 0]
  present : lb.present = 1

/-- the wrapper is a v1 message set stamped LogAppendTime (attribute bit 3; v0 has no timestamps) -/
def wrapLat (m : Msg) : Bool := m.isV1 && decide (m.attrs / 8 % 2 = 1)

/-- the inner message as the log format reads it inside its wrapper `m`: the wrapper's codec in the attributes, and — when the
wrapper is stamped LogAppendTime — the wrapper's timestamp and timestamp type (the broker stamps the wrapper only) -/
def innerView (m i : Msg) : Msg :=
  if wrapLat m then { i with attrs := i.attrs ||| m.attrs % 4 ||| 8, ts := m.ts } else { i with attrs := i.attrs ||| m.attrs % 4 }

/-- absolute offset of relative offset 0 of a wrapper: v0 inner offsets are absolute; v1: wrapper − last inner -/
def wrapBase (m : Msg) (inner : Inner) : Int :=
  if m.isV1 then m.offset - (inner.msgs.getLast?.map (·.offset)).getD 0 else 0

structure RepWrapper (m : Msg) (inner : Inner) (lb : LBatch) : Prop where
  plain : m.attrs < 16 ∧ m.attrs / 4 % 2 = 0   -- codec in bits 0-1 (none/gzip/snappy/lz4), bit 3 = timestamp type, nothing else
  decomp : inner.decompOk = true
  err : inner.err = none
  panic : inner.panic = false
  valid : ∀ i ∈ inner.msgs, validMsg (innerView m i) ∧ msgAttrs (innerView m i) = lb.attrs
  latV1 : wrapLat m = true → ∀ i ∈ inner.msgs, i.isV1 = true   -- inner magic = wrapper magic (the wrapper's timestamp needs a v1 inner message)
  relNonneg : m.isV1 → ∀ i ∈ inner.msgs, 0 ≤ i.offset          -- relative offsets are not negative
  baseNonneg : 0 ≤ wrapBase m inner                             -- nor is the absolute offset of relative offset 0
  last : lb.last = m.offset
  lastV0 : ¬ m.isV1 → ∀ i ∈ inner.msgs, i.offset ≤ m.offset    -- (v0: the wrapper carries the last inner offset)
  pid : lb.pid = -1
  pepoch : lb.pepoch = -1
  lepoch : lb.lepoch = -1
  records : lb.records = inner.msgs.map (fun i => msgRec (innerView m i) (wrapBase m inner))
  present : lb.present = inner.msgs.length

/-- the decoded frame `it` is the encoding of the log batch `lb` -/
def Rep : Item → LBatch → Prop
  | .batch b, lb => RepBatch b lb
  | .msg m inner, lb => if m.attrs % 4 = 0 then RepSingle m lb else RepWrapper m inner lb
  | _, _ => False

inductive RepList : List Item → List LBatch → Prop
  | nil : RepList [] []
  | cons {it lb its lbs} : Rep it lb → RepList its lbs → RepList (it :: its) (lb :: lbs)

/-! ## Well-formed logs (Spec vocabulary only) -/

structure WfBatch (lb : LBatch) : Prop where
  firstNonneg : 0 ≤ lb.first
  firstLast : lb.first ≤ lb.last
  inRange : ∀ r ∈ lb.records, lb.first ≤ r.offset ∧ r.offset ≤ lb.last
  incr : lb.records.Pairwise (fun a b => a.offset < b.offset)

/-- offsets increase along the log: inside a batch and from one batch to the next -/
structure WfLog (L : List LBatch) : Prop where
  batch : ∀ b ∈ L, WfBatch b
  ord : L.Pairwise (fun a b => a.last < b.first)

/-- is the listed aborted transaction `a = (pid, first offset)` open at batch `b`: the test inside `Spec.C06.inAborted` -/
def openAt (L : List LBatch) (b : LBatch) (a : Int × Int) : Bool :=
  a.1 == b.pid && decide (a.2 ≤ b.first) &&
    !(L.any fun m => m.abortMarker && m.pid == a.1 && decide (a.2 ≤ m.first) && decide (m.first < b.first))

/-- the aborted list the parser consults: only under read_committed -/
def effA (o : Opts) (A : List (Int × Int)) : List (Int × Int) := if o.readCommitted then A else []

/-- The aborted list is one a broker can send for this log and this fetch offset:
* `sequential`: at an ABORT marker at most one listed transaction of that producer is open (a producer's transactions
  are sequential; in particular the list has no duplicates);
* `overlaps`: no listed transaction was ended by an ABORT marker that lies entirely below the requested offset (the
  broker lists the aborted transactions that overlap the fetch range). -/
structure AbortedConsistent (o : Opts) (A : List (Int × Int)) (L : List LBatch) : Prop where
  sequential : ∀ m ∈ L, m.abortMarker = true → ((effA o A).filter (openAt L m)).length ≤ 1
  overlaps : ∀ m ∈ L, m.abortMarker = true → m.last < o.offset → ∀ a ∈ effA o A, a.1 = m.pid → m.first < a.2

theorem inAborted_eq (o : Opts) (A : List (Int × Int)) (L : List LBatch) (b : LBatch) :
    Spec.C06.inAborted (reqOf o A) L b = (b.txn && (effA o A).any (openAt L b)) := by
  unfold Spec.C06.inAborted reqOf effA
  cases hrc : o.readCommitted
  · simp
  · simp only [Bool.true_and, if_true]
    congr 1

/-! ## the record loop -/

/-- `maybeKeepRecord` over a list of records -/
def keepAll (o : Opts) (ab : Bool) : St → List Rec → St
  | s, [] => s
  | s, r :: rs => keepAll o ab (maybeKeepRecord o s r ab) rs

theorem maybeKeep_fields (o : Opts) (s : St) (r : Rec) (ab : Bool) :
    (maybeKeepRecord o s r ab).err = s.err ∧ (maybeKeepRecord o s r ab).stopped = s.stopped ∧ (maybeKeepRecord o s r ab).ab = s.ab := by
  unfold maybeKeepRecord
  split
  · exact ⟨rfl, rfl, rfl⟩
  · simp only
    repeat' split
    all_goals exact ⟨rfl, rfl, rfl⟩

theorem maybeKeep_congr (o : Opts) (s t : St) (r : Rec) (ab : Bool) (h1 : s.out = t.out) (h2 : s.off = t.off) :
    (maybeKeepRecord o s r ab).out = (maybeKeepRecord o t r ab).out ∧ (maybeKeepRecord o s r ab).off = (maybeKeepRecord o t r ab).off := by
  unfold maybeKeepRecord
  rw [h2]
  split
  · exact ⟨h1, h2⟩
  · simp only
    repeat' split
    all_goals simp [h1]

theorem keepAll_spec (o : Opts) (ab keep : Bool) :
    ∀ (rs : List Rec) (s : St) (lb : Int),
      (∀ r ∈ rs, (if isControl r.attrs then o.keepControl else !ab) = keep) →
      rs.Pairwise (fun a b => a.offset < b.offset) →
      (∀ r ∈ rs, lb ≤ r.offset) →
      o.offset ≤ s.off → s.off ≤ max o.offset lb →
      (keepAll o ab s rs).out = s.out ++ (if keep then rs.filter (fun r => decide (o.offset ≤ r.offset)) else []) ∧
      o.offset ≤ (keepAll o ab s rs).off ∧
      (∀ ub, lb ≤ ub → (∀ r ∈ rs, r.offset < ub) → (keepAll o ab s rs).off ≤ max o.offset ub) ∧
      (keepAll o ab s rs).err = s.err ∧ (keepAll o ab s rs).stopped = s.stopped ∧ (keepAll o ab s rs).ab = s.ab := by
  intro rs
  induction rs with
  | nil =>
    intro s lb _ _ _ h1 h2
    refine ⟨by cases keep <;> simp [keepAll], h1, ?_, rfl, rfl, rfl⟩
    intro ub hub _
    simp only [keepAll]; omega
  | cons r rs ih =>
    intro s lb hk hp hlb h1 h2
    have hkr := hk r (by simp)
    have hp' := List.pairwise_cons.mp hp
    have hlbr := hlb r (by simp)
    simp only [keepAll]
    by_cases hlt : r.offset < s.off
    · -- below the current offset: dropped by the parser, and below the requested offset
      have hs1 : maybeKeepRecord o s r ab = s := by simp [maybeKeepRecord, hlt]
      rw [hs1]
      have hreq : ¬ o.offset ≤ r.offset := by omega
      obtain ⟨i1, i2, i3, i4, i5, i6⟩ := ih s lb (fun x hx => hk x (by simp [hx])) hp'.2 (fun x hx => hlb x (by simp [hx])) h1 h2
      refine ⟨?_, i2, ?_, i4, i5, i6⟩
      · rw [i1]; simp [hreq]
      · intro ub hub hall
        exact i3 ub hub (fun x hx => hall x (by simp [hx]))
    · have hreq : o.offset ≤ r.offset := by omega
      generalize hs1 : maybeKeepRecord o s r ab = s1
      have hout : s1.out = s.out ++ (if keep then [r] else []) := by
        subst hs1
        cases hkeep : keep
        · have : (if isControl r.attrs = true then !o.keepControl else ab) = true := by
            rw [hkeep] at hkr; revert hkr; cases isControl r.attrs <;> cases o.keepControl <;> cases ab <;> simp
          simp [maybeKeepRecord, hlt, this]
        · have : (if isControl r.attrs = true then !o.keepControl else ab) = false := by
            rw [hkeep] at hkr; revert hkr; cases isControl r.attrs <;> cases o.keepControl <;> cases ab <;> simp
          simp [maybeKeepRecord, hlt, this]
      have hoff : s1.off = r.offset + 1 := by subst hs1; simp [maybeKeepRecord, hlt]
      have herr : s1.err = s.err ∧ s1.stopped = s.stopped ∧ s1.ab = s.ab := by
        subst hs1; exact maybeKeep_fields o s r ab
      obtain ⟨i1, i2, i3, i4, i5, i6⟩ := ih s1 (r.offset + 1) (fun x hx => hk x (by simp [hx])) hp'.2
        (fun x hx => by have := hp'.1 x hx; omega) (by omega) (by omega)
      refine ⟨?_, i2, ?_, by rw [i4, herr.1], by rw [i5, herr.2.1], by rw [i6, herr.2.2]⟩
      · rw [i1, hout]
        cases keep <;> simp [hreq]
      · intro ub hub hall
        have := hall r (by simp)
        exact i3 ub (by omega) (fun x hx => hall x (by simp [hx]))

/-- out / off of `keepAll` depend only on out / off of the start state -/
theorem keepAll_congr (o : Opts) (ab : Bool) : ∀ (rs : List Rec) (s t : St), s.out = t.out → s.off = t.off →
    (keepAll o ab s rs).out = (keepAll o ab t rs).out ∧ (keepAll o ab s rs).off = (keepAll o ab t rs).off := by
  intro rs
  induction rs with
  | nil => intro s t h1 h2; exact ⟨h1, h2⟩
  | cons r rs ih =>
    intro s t h1 h2
    simp only [keepAll]
    have := maybeKeep_congr o s t r ab h1 h2
    exact ih _ _ this.1 this.2

/-- `pidAborts[1:]` for one producer -/
def popPid (a : Aborter) (pid : Int) : Aborter := fun q => if q = pid then (a pid).drop 1 else a q

theorem trackAbortedPID_eq (a a' : Aborter) (pid : Int) (h : trackAbortedPID a pid = some a') : ∀ q, a' q = popPid a pid q := by
  intro q
  unfold trackAbortedPID at h
  split at h
  · rename_i hnil
    injection h with h; subst h
    unfold popPid; split
    · rename_i hq; subst hq; simp [hnil]
    · rfl
  · split at h
    · injection h with h; subst h; rfl
    · simp at h

/-- is this the key of an ABORT marker, in the words of the parser and of the Spec -/
theorem abortKey_iff (key : Option Bytes) : abortKey key = some (Spec.C06.isAbortKey key) := by
  unfold abortKey Spec.C06.isAbortKey idx?
  match key with
  | none => simp
  | some [] => simp
  | some [_] => simp
  | some [_, _] => simp
  | some [_, _, _] => simp
  | some (_ :: _ :: a :: b :: _) => simp

/-- The loop of `processRecordBatch` over the decoded records: the records go through `maybeKeepRecord` in order, and the
aborter is popped once iff the batch is an aborted control batch holding an ABORT marker. -/
theorem procRecords_fields (o : Opts) (b : Batch) (ab : Bool) :
    ∀ (ks : List KRec) (slab : Nat) (handled : Bool) (s t : St),
      (ks.map (·.headers.length)).sum ≤ slab → s.out = t.out → s.off = t.off →
      ∃ s', procRecords o b ab ks slab handled s = some s' ∧
        s'.out = (keepAll o ab t (ks.map (recordToRecord b))).out ∧
        s'.off = (keepAll o ab t (ks.map (recordToRecord b))).off ∧
        s'.err = s.err ∧ s'.stopped = s.stopped ∧
        (∀ q, s'.ab q =
          (if ab = true ∧ handled = false ∧ isControl (b.attrs % 256) = true ∧ (ks.any fun k => Spec.C06.isAbortKey k.key) = true
           then popPid s.ab b.pid else s.ab) q) := by
  intro ks
  induction ks with
  | nil =>
    intro slab handled s t _ h1 h2
    exact ⟨s, by simp [procRecords], by simpa [keepAll] using h1, by simpa [keepAll] using h2, rfl, rfl, by simp⟩
  | cons k ks ih =>
    intro slab handled s t hsum h1 h2
    simp only [List.map_cons, List.sum_cons] at hsum
    have hattrs : (recordToRecord b k).attrs = b.attrs % 256 := rfl
    have hkey : (recordToRecord b k).key = k.key := rfl
    generalize hs1 : maybeKeepRecord o s (recordToRecord b k) ab = s1
    have hs1f : s1.err = s.err ∧ s1.stopped = s.stopped ∧ s1.ab = s.ab := by
      subst hs1; exact maybeKeep_fields o s _ ab
    have hs1o : s1.out = (maybeKeepRecord o t (recordToRecord b k) ab).out ∧ s1.off = (maybeKeepRecord o t (recordToRecord b k) ab).off := by
      subst hs1; exact maybeKeep_congr o s t _ ab h1 h2
    unfold procRecords
    simp only [hs1, List.map_cons, keepAll]
    rw [if_neg (by omega)]
    by_cases hc : (ab = true ∧ (!handled) = true ∧ isControl (recordToRecord b k).attrs = true)
    · rw [if_pos hc]
      have hak := abortKey_iff k.key
      rw [hkey, hak]
      obtain ⟨hab, hh, hctl⟩ := hc
      have hh' : handled = false := by simpa using hh
      rw [hattrs] at hctl
      cases hik : Spec.C06.isAbortKey k.key
      · simp only
        obtain ⟨s', e1, e2, e3, e4, e5, e6⟩ := ih (slab - k.headers.length) handled s1 (maybeKeepRecord o t (recordToRecord b k) ab) (by omega) hs1o.1 hs1o.2
        refine ⟨s', e1, e2, e3, by rw [e4, hs1f.1], by rw [e5, hs1f.2.1], ?_⟩
        intro q; rw [e6 q, hs1f.2.2]; simp [hik]
      · simp only
        have ht := Proof.C06.trackAbortedPID_eq s1.ab
        cases htr : trackAbortedPID s1.ab b.pid with
        | none =>
          exfalso
          unfold trackAbortedPID at htr
          split at htr
          · simp at htr
          · split at htr
            · simp at htr
            · rename_i hne hlen
              cases hp : s1.ab b.pid with
              | nil => exact hne hp
              | cons x xs => rw [hp] at hlen; simp at hlen
        | some a =>
          simp only
          obtain ⟨s', e1, e2, e3, e4, e5, e6⟩ := ih (slab - k.headers.length) true { s1 with ab := a } (maybeKeepRecord o t (recordToRecord b k) ab) (by omega) hs1o.1 hs1o.2
          refine ⟨s', e1, e2, e3, by rw [e4]; exact hs1f.1, by rw [e5]; exact hs1f.2.1, ?_⟩
          intro q
          rw [e6 q]
          simp only [Bool.true_eq_false, false_and, and_false, if_false]
          rw [ht a b.pid htr q, hs1f.2.2]
          simp [hab, hh', hctl, hik]
    · rw [if_neg hc]
      obtain ⟨s', e1, e2, e3, e4, e5, e6⟩ := ih (slab - k.headers.length) handled s1 (maybeKeepRecord o t (recordToRecord b k) ab) (by omega) hs1o.1 hs1o.2
      refine ⟨s', e1, e2, e3, by rw [e4, hs1f.1], by rw [e5, hs1f.2.1], ?_⟩
      intro q; rw [e6 q, hs1f.2.2]
      have hc' : ¬ (ab = true ∧ handled = false ∧ isControl (b.attrs % 256) = true) := by
        intro ⟨x1, x2, x3⟩; exact hc ⟨x1, by simp [x2], by rw [hattrs]; exact x3⟩
      have n1 : ¬ (ab = true ∧ handled = false ∧ isControl (b.attrs % 256) = true ∧ (ks.any fun k => Spec.C06.isAbortKey k.key) = true) :=
        fun ⟨x1, x2, x3, _⟩ => hc' ⟨x1, x2, x3⟩
      have n2 : ¬ (ab = true ∧ handled = false ∧ isControl (b.attrs % 256) = true ∧ ((k :: ks).any fun k => Spec.C06.isAbortKey k.key) = true) :=
        fun ⟨x1, x2, x3, _⟩ => hc' ⟨x1, x2, x3⟩
      rw [if_neg n1, if_neg n2]

/-! ## messages -/

theorem processMessage_valid (o : Opts) (s : St) (m : Msg) (h : validMsg m) :
    processMessage o s m = (maybeKeepRecord o s (msgToRecord m) false, true) := by
  unfold validMsg at h
  unfold processMessage
  cases hv : m.isV1 <;> simp [hv] at h ⊢ <;> simp [h.1, h.2]

theorem processInner_valid (o : Opts) (base : Int) (codec : Nat) (lat : Option Int) : ∀ (ms : List Msg) (s : St),
    (∀ i ∈ ms, validMsg (innerSeen base codec lat i)) →
    processInner o base codec lat s ms = keepAll o false s (ms.map fun i => msgToRecord (innerSeen base codec lat i)) := by
  intro ms
  induction ms with
  | nil => intro s _; simp [processInner, keepAll]
  | cons m ms ih =>
    intro s hv
    have hm := hv m (by simp)
    unfold processInner
    simp only [processMessage_valid o s _ hm, if_true, List.map_cons, keepAll]
    exact ih _ (fun i hi => hv i (by simp [hi]))

/-- under the format's reading of the wrapper, the message the loop sees is the format's view of it, rebased -/
theorem innerSeen_view (m i : Msg) (base : Int) (h : wrapLat m = true → i.isV1 = true) :
    innerSeen base (m.attrs % 4) (if m.isV1 then (if m.attrs / 8 % 2 = 1 then some m.ts else none) else none) i
      = { innerView m i with offset := i.offset + base } := by
  unfold innerSeen innerView wrapLat at *
  cases hv : m.isV1
  · simp
  · by_cases hb : m.attrs / 8 % 2 = 1
    · have := h (by simp [hv, hb])
      simp [hb, this]
    · simp [hb]

end Proof.C06
