import FranzVerif.Proof.C15c
/-! Helper lemmas for Props/C16: the decoder never reaches a Go panic and never reads backwards. -/
namespace Proof.C16
open Model.C15

/-- `x` is not a panic, and on success the remaining input is no longer than `n`. -/
def Safe {α : Type} (x : Res α) (n : Nat) : Prop :=
  (∀ m, x ≠ .panic m) ∧ ∀ a r, x = .ok a r → r.length ≤ n

theorem Safe.mono {α : Type} {x : Res α} {n k : Nat} (h : Safe x n) (hk : n ≤ k) : Safe x k :=
  ⟨h.1, fun a r e => Nat.le_trans (h.2 a r e) hk⟩

theorem safe_ok {α : Type} (a : α) (r : Bytes) (n : Nat) (h : r.length ≤ n) : Safe (Res.ok a r) n :=
  ⟨(by intro m e; cases e), (by intro a' r' e; cases e; exact h)⟩

theorem safe_err {α : Type} (s n : Nat) : Safe (Res.err s : Res α) n :=
  ⟨(by intro m e; cases e), (by intro a r e; cases e)⟩

theorem safe_andThen {α β : Type} {x : Res α} {f : α → Bytes → Res β} {n : Nat}
    (hx : Safe x n) (hf : ∀ a r, x = .ok a r → Safe (f a r) r.length) : Safe (x.andThen f) n := by
  cases x with
  | ok a r => simpa using (hf a r rfl).mono (hx.2 a r rfl)
  | err s => simpa using safe_err s n
  | panic m => exact absurd rfl (hx.1 m)

theorem safe_map {α β : Type} {x : Res α} {f : α → β} {n : Nat} (hx : Safe x n) : Safe (x.map f) n := by
  cases x with
  | ok a r => simpa using safe_ok (f a) r n (hx.2 a r rfl)
  | err s => simpa using safe_err s n
  | panic m => exact absurd rfl (hx.1 m)

theorem safe_span (l : Int) (src : Bytes) : Safe (span l src) src.length := by
  simp only [span]
  split
  · exact safe_err _ _
  · rename_i h
    have hl : l.toNat ≤ src.length := by omega
    simp only [goSplit, hl, if_true]
    exact safe_ok _ _ _ (by simp)

/-- `span` returns exactly `l` bytes. -/
theorem span_ok_len (l : Int) (src b r : Bytes) (h : span l src = .ok b r) : b.length + r.length = src.length ∧ (b.length : Int) = l := by
  simp only [span] at h
  split at h
  · cases h
  · rename_i hc
    have hl : l.toNat ≤ src.length := by omega
    simp only [goSplit, hl, if_true, Res.ok.injEq] at h
    obtain ⟨rfl, rfl⟩ := h
    simp only [List.length_take, List.length_drop]
    omega

theorem safe_readBE (n : Nat) (src : Bytes) : Safe (readBE n src) src.length := safe_map (safe_span _ _)
theorem safe_readInt (n m : Nat) (src : Bytes) : Safe (readInt n m src) src.length := safe_map (safe_readBE _ _)
theorem safe_readUint (n : Nat) (src : Bytes) : Safe (readUint n src) src.length := safe_map (safe_readBE _ _)

theorem uvDec_len (k m : Nat) : ∀ (src : Bytes) (x : Nat) (r : Bytes), uvDec k m src = some (x, r) → r.length ≤ src.length := by
  induction k with
  | zero =>
    intro src x r h
    cases src with
    | nil => simp [uvDec] at h
    | cons b t =>
      simp only [uvDec] at h
      split at h <;> simp at h
      obtain ⟨_, rfl⟩ := h; simp
  | succ k ih =>
    intro src x r h
    cases src with
    | nil => simp [uvDec] at h
    | cons b t =>
      simp only [uvDec] at h
      split at h
      · simp at h; obtain ⟨_, rfl⟩ := h; simp
      · split at h <;> simp at h
        rename_i x' r' hh
        obtain ⟨_, rfl⟩ := h
        have := ih t x' r' hh
        simp; omega

theorem safe_readUvarint (src : Bytes) : Safe (readUvarint src) src.length := by
  simp only [readUvarint]
  split
  · rename_i x r h; exact safe_ok _ _ _ (uvDec_len _ _ _ _ _ h)
  · exact safe_err _ _
theorem safe_readUvarlong (src : Bytes) : Safe (readUvarlong src) src.length := by
  simp only [readUvarlong]
  split
  · rename_i x r h; exact safe_ok _ _ _ (uvDec_len _ _ _ _ _ h)
  · exact safe_err _ _
theorem safe_readVarint (src : Bytes) : Safe (readVarint src) src.length := safe_map (safe_readUvarint _)
theorem safe_readVarlong (src : Bytes) : Safe (readVarlong src) src.length := safe_map (safe_readUvarlong _)

theorem safe_decPrim (p : Prim) (src : Bytes) : Safe (decPrim p src) src.length := by
  cases p <;> simp only [decPrim] <;>
    first
    | exact safe_map (safe_readBE _ _)
    | exact safe_map (safe_readInt _ _ _)
    | exact safe_map (safe_readUint _ _)
    | exact safe_map (safe_readVarint _)
    | exact safe_map (safe_readVarlong _)
    | exact safe_map (safe_span _ _)

/-- a length-prefixed read: after the prefix either a constant or a `span`. -/
theorem safe_lenThen {α : Type} {x : Res α} {n : Nat} (hx : Safe x n) (c : α → Bool) (v : Val) (l : α → Int) :
    Safe (x.andThen fun a r => if c a = true then .ok v r else (span (l a) r).map fun b => Val.blob (some b)) n := by
  apply safe_andThen hx
  intro a r _
  split
  · exact safe_ok _ _ _ (Nat.le_refl _)
  · exact safe_map (safe_span _ _)

theorem safe_decStr (ver : Int) (flex : Bool) (k : SKind) (src : Bytes) : Safe (decStr ver flex k src) src.length := by
  simp only [decStr]
  split
  all_goals (try split)
  all_goals first
    | exact safe_andThen (safe_readUvarint _) (fun a r _ => safe_map (safe_span _ _))
    | exact safe_andThen (safe_readInt _ _ _) (fun a r _ => safe_map (safe_span _ _))
    | (apply safe_andThen (safe_readUvarint _); intro a r _; split
       · exact safe_ok _ _ _ (Nat.le_refl _)
       · exact safe_map (safe_span _ _))
    | (apply safe_andThen (safe_readInt _ _ _); intro a r _; split
       · exact safe_ok _ _ _ (Nat.le_refl _)
       · exact safe_map (safe_span _ _))
    | (apply safe_andThen (safe_readVarint _); intro a r _; split
       · exact safe_ok _ _ _ (Nat.le_refl _)
       · exact safe_map (safe_span _ _))

end Proof.C16
