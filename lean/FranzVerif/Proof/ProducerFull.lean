import FranzVerif.Proof.ProducerFacts
/-! History-level meaning of the monitor's `sawFull` flag: it is only set when the buffer was full
(for a record of that size) at a prefix of the history at which the record's call was in progress. -/
namespace Proof.Producer
open Model.Producer
set_option linter.unusedSimpArgs false

/-- At some prefix `p` of `h` the record `id` (of size `sz`) had been passed to Produce, was not yet
admitted nor finished, and the buffer — as a function of `p` alone — was full for it. -/
def FullWitness (c : Cfg) (id : Id) (sz : Nat) (h : List Ev) : Prop :=
  ∃ p q, h = p ++ q ∧ called id p = true ∧ id ∉ admittedIds p ∧ promisesOf id p = [] ∧
    full c (inBuf p).length ((inBuf p).map (sizeOfId p)).sum sz = true

theorem FullWitness.snoc {c : Cfg} {id : Id} {sz : Nat} {h : List Ev} (hw : FullWitness c id sz h) (ev : Ev) :
    FullWitness c id sz (h ++ [ev]) := by
  obtain ⟨p, q, rfl, h1, h2, h3, h4⟩ := hw
  exact ⟨p, q ++ [ev], by simp, h1, h2, h3, h4⟩

def SawInv (c : Cfg) (h : List Ev) (s : St) : Prop :=
  ∀ id r, find s.recs id = some r → r.sawFull = true → FullWitness c id r.sz h

theorem find_upd_pres {rs : List Rec} {i id : Id} {f : Rec → Rec} {r' : Rec} (hf : ∀ r, (f r).id = r.id)
    (hsf : ∀ r, (f r).sawFull = r.sawFull) (hsz : ∀ r, (f r).sz = r.sz)
    (hfd : find (Model.Producer.upd rs i f) id = some r') :
    ∃ r0, find rs id = some r0 ∧ r0.sawFull = r'.sawFull ∧ r0.sz = r'.sz := by
  rw [find_upd f hf] at hfd
  by_cases hid : id = i
  · simp only [hid, if_true] at hfd
    cases h0 : find rs i with
    | none => simp [h0] at hfd
    | some r0 =>
      simp [h0] at hfd; subst hfd
      exact ⟨r0, by rw [hid, h0], (hsf r0).symm, (hsz r0).symm⟩
  · simp only [hid, if_false] at hfd
    exact ⟨r', hfd, rfl, rfl⟩

/-- the witness at the current point, for a record whose call is in progress -/
theorem FullWitness.now {c : Cfg} {h : List Ev} {s : St} (hi : Inv c h s) {id : Id} {r : Rec}
    (hfd : find s.recs id = some r) (ha : r.admitted = false) (hp : r.promised = none)
    (hfull : full c s.occ s.occBytes r.sz = true) : FullWitness c id r.sz h := by
  have hr := hi.recSome id r hfd
  refine ⟨h, [], by simp, hr.hcalled, ?_, ?_, ?_⟩
  · have := hr.hadm; rw [ha] at this
    exact List.count_eq_zero.1 (by simpa using this)
  · rw [hr.hprom, hp]; rfl
  · rw [hi.occ, ← hi.bytes]; exact hfull

theorem SawInv.step {c : Cfg} {h : List Ev} {s s' : St} (hi : Inv c h s) (hsaw : SawInv c h s) (ev : Ev)
    (hs : Model.Producer.step c s ev = some s') : SawInv c (h ++ [ev]) s' := by
  have hi' := hi.step ev hs
  obtain ⟨hchk, rfl⟩ := step_eq_some hs
  have keep : ∀ (i : Id) (f : Rec → Rec), (∀ r, (f r).id = r.id) → (∀ r, (f r).sawFull = r.sawFull) →
      (∀ r, (f r).sz = r.sz) → ∀ id r', find (Model.Producer.upd s.recs i f) id = some r' → r'.sawFull = true →
      FullWitness c id r'.sz (h ++ [ev]) := by
    intro i f hf hsf hsz id r' hfd hsw
    obtain ⟨r0, h0, e1, e2⟩ := find_upd_pres hf hsf hsz hfd
    rw [← e2]
    exact (hsaw id r0 h0 (e1.trans hsw)).snoc ev
  have same : (apply c s ev).recs = s.recs → SawInv c (h ++ [ev]) (apply c s ev) := by
    intro he id r hfd hsw
    rw [he] at hfd
    exact (hsaw id r hfd hsw).snoc ev
  cases ev with
  | call i k sz =>
    intro id r hfd hsw
    by_cases hid : i = id
    · subst hid
      have hfd0 := hfd
      simp only [Model.Producer.apply, find_cons, if_true] at hfd
      have hr : r = { id := i, kind := k, sz := sz, sawFull := full c s.occ s.occBytes sz } := by
        simpa using hfd.symm
      refine FullWitness.now hi' hfd0 (by rw [hr]) (by rw [hr]) ?_
      rw [hr] at hsw ⊢
      exact hsw
    · simp only [Model.Producer.apply, find_cons, hid, if_false] at hfd
      exact (hsaw id r hfd hsw).snoc _
  | admit i n b sz =>
    intro id r hfd hsw
    have hfd0 := hfd
    simp only [Model.Producer.apply, markFull] at hfd
    rw [find_map _ (by intro r; split <;> rfl)] at hfd
    cases hfd2 : find (Model.Producer.upd s.recs i fun r => { r with admitted := true }) id with
    | none => simp [hfd2] at hfd
    | some r0 =>
      simp only [hfd2, Option.map_some, Option.some.injEq] at hfd
      by_cases hc : (!r0.admitted && r0.promised.isNone && full c (s.occ + 1) (s.occBytes + sz) r0.sz) = true
      · -- marked now: the buffer is full at this very point
        simp only [hc, if_true] at hfd
        simp only [Bool.and_eq_true, Bool.not_eq_true', Option.isNone_iff_eq_none] at hc
        have e1 : r.admitted = false := by rw [← hfd]; exact hc.1.1
        have e2 : r.promised = none := by rw [← hfd]; exact hc.1.2
        have e3 : r.sz = r0.sz := by rw [← hfd]
        refine FullWitness.now hi' hfd0 e1 e2 ?_
        rw [e3]; exact hc.2
      · rw [if_neg hc] at hfd
        subst hfd
        exact keep i (fun r => { r with admitted := true }) (fun _ => rfl) (fun _ => rfl) (fun _ => rfl) id _ hfd2 hsw
  | release i n b =>
    intro id r hfd hsw
    simp only [Model.Producer.apply] at hfd
    split at hfd
    · exact keep i (fun r => { r with released := true }) (fun _ => rfl) (fun _ => rfl) (fun _ => rfl) id r hfd hsw
    · exact (hsaw id r hfd hsw).snoc _
  | hookB i => exact keep i _ (fun _ => rfl) (fun _ => rfl) (fun _ => rfl)
  | block i => exact keep i _ (fun _ => rfl) (fun _ => rfl) (fun _ => rfl)
  | unblock i => exact keep i _ (fun _ => rfl) (fun _ => rfl) (fun _ => rfl)
  | hookU i e => exact keep i _ (fun _ => rfl) (fun _ => rfl) (fun _ => rfl)
  | promise i e => exact keep i _ (fun _ => rfl) (fun _ => rfl) (fun _ => rfl)
  | ret i => exact keep i _ (fun _ => rfl) (fun _ => rfl) (fun _ => rfl)
  | flushStart k => exact same rfl
  | flushEnd k ok => exact same rfl
  | closeStart => exact same rfl
  | closeEnd => exact same rfl
  | quiesce n b => exact same rfl

theorem SawInv.run {c : Cfg} {h₁ : List Ev} {s s' : St} (hi : Inv c h₁ s) (hsaw : SawInv c h₁ s) (h₂ : List Ev)
    (hr : Model.Producer.run c s h₂ = some s') : SawInv c (h₁ ++ h₂) s' := by
  induction h₂ generalizing h₁ s with
  | nil => simp [Model.Producer.run] at hr; subst hr; simpa using hsaw
  | cons e es ih =>
    simp only [Model.Producer.run] at hr
    cases hs : Model.Producer.step c s e with
    | none => simp [hs] at hr
    | some s1 =>
      simp only [hs] at hr
      have := ih (hi.step e hs) (hsaw.step hi e hs) hr
      simpa using this

theorem sawInv_of_run {c : Cfg} {h : List Ev} {s : St} (hr : run c {} h = some s) : SawInv c h s := by
  have h0 : SawInv c [] {} := by intro id r hfd; simp [find] at hfd
  simpa using h0.run (Inv.init c) h hr

/-- `sawFullDuringCall` (read off the monitor state) implies the history-level statement. -/
theorem sawFullDuringCall_sound {c : Cfg} {id : Id} {h : List Ev} (hs : sawFullDuringCall c id h = true) :
    FullWitness c id (sizeOfId h id) h := by
  unfold sawFullDuringCall at hs
  cases hr : run c {} h with
  | none => simp [hr] at hs
  | some s =>
    cases hfd : find s.recs id with
    | none => simp [hr, hfd] at hs
    | some r =>
      simp [hr, hfd] at hs
      have := sawInv_of_run hr id r hfd hs
      have hsz : sizeOfId h id = r.sz := by simp [sizeOfId_eq', ((inv_of_run hr).recSome id r hfd).hsz]
      rw [hsz]; exact this

end Proof.Producer
