import FranzVerif.Model.C17
import FranzVerif.Spec.C17
import FranzVerif.Proof.C17
import FranzVerif.Proof.C17Dec
import FranzVerif.Proof.C17Zig
import FranzVerif.Proof.C17Fixed
import FranzVerif.Proof.C17Reader
import FranzVerif.Proof.C17Refine
/-! C17 — round trips on the model: every `Reader` method returns exactly what the corresponding
`Append*` wrote and leaves exactly the bytes that followed. Kernel only. -/
namespace Proof.C17
open Model.C17
open Spec.C17 hiding Bytes

/-- `r` reading from `tail` instead -/
def withSrc (r : Reader) (tail : Bytes) : Reader := { r with src := tail }

theorem adv_of_append (r : Reader) (hd tail : Bytes) (n : Nat) (h : r.src = hd ++ tail) (hn : hd.length = n) :
    adv r n = withSrc r tail := by
  simp [adv, withSrc, h, ← hn]

/-! ## fixed width -/
theorem ofNat_mod_self {w : Nat} (u : BitVec w) (k : Nat) (hk : 256 ^ k = 2 ^ w) : BitVec.ofNat w (u.toNat % 256 ^ k) = u := by
  apply BitVec.eq_of_toNat_eq
  rw [hk, BitVec.toNat_ofNat, Nat.mod_mod, Nat.mod_eq_of_lt u.isLt]

theorem bool_rt (r : Reader) (v : Bool) (tail : Bytes) (h : r.src = appendBool [] v ++ tail) :
    r.bool = some (v, withSrc r tail) := by
  rw [bool_eq]
  cases v
  · have h' : r.src = 0#8 :: tail := by simpa [appendBool] using h
    rw [h']; simp only [Option.some.injEq, Prod.mk.injEq]
    exact ⟨by decide, adv_of_append r [0#8] tail 1 h' rfl⟩
  · have h' : r.src = 1#8 :: tail := by simpa [appendBool] using h
    rw [h']; simp only [Option.some.injEq, Prod.mk.injEq]
    exact ⟨by decide, adv_of_append r [1#8] tail 1 h' rfl⟩

theorem int8_rt (r : Reader) (v : BitVec 8) (tail : Bytes) (h : r.src = appendInt8 [] v ++ tail) :
    r.int8 = some (v, withSrc r tail) := by
  have h' : r.src = v :: tail := by simpa [appendInt8] using h
  rw [int8_eq, h']; simp only [Option.some.injEq, Prod.mk.injEq, true_and]
  exact adv_of_append r [v] tail 1 h' rfl

theorem uint16_rt (r : Reader) (v : BitVec 16) (tail : Bytes) (h : r.src = appendUint16 [] v ++ tail) :
    r.uint16 = some (v, withSrc r tail) := by
  rw [appendUint16_be, List.nil_append] at h
  have hl := be_length 2 v.toNat
  rw [uint16_eq, if_neg (by rw [h, List.length_append, hl]; omega), h, unbe_be_append,
    ofNat_mod_self v 2 (by decide), adv_of_append r _ tail 2 h hl]

theorem uint32_rt (r : Reader) (v : BitVec 32) (tail : Bytes) (h : r.src = appendUint32 [] v ++ tail) :
    r.uint32 = some (v, withSrc r tail) := by
  rw [appendUint32_be, List.nil_append] at h
  have hl := be_length 4 v.toNat
  rw [uint32_eq, if_neg (by rw [h, List.length_append, hl]; omega), h, unbe_be_append,
    ofNat_mod_self v 4 (by decide), adv_of_append r _ tail 4 h hl]

theorem readUint64_rt (r : Reader) (v : BitVec 64) (tail : Bytes) (h : r.src = appendUint64 [] v ++ tail) :
    r.readUint64 = some (v, withSrc r tail) := by
  rw [appendUint64_be, List.nil_append] at h
  have hl := be_length 8 v.toNat
  rw [readUint64_eq, if_neg (by rw [h, List.length_append, hl]; omega), h, unbe_be_append,
    ofNat_mod_self v 8 (by decide), adv_of_append r _ tail 8 h hl]

/-! ## varints through the reader -/
theorem afterVar_rt {w : Nat} (r : Reader) (x : BitVec w) (hd tail : Bytes) (h : r.src = hd ++ tail) (hpos : 0 < hd.length) :
    Reader.afterVar r (x, (hd.length : Int)) = some (x, withSrc r tail) := by
  rw [afterVar_eq r x _ (fun _ => by rw [h]; simp), if_neg (by omega)]
  simp only [Int.toNat_natCast, adv_of_append r hd tail _ h rfl]

theorem uvarint_model_rt (tbl : ∀ L : Fin 65, lensAt L.val = max 1 ((L.val + 6) / 7)) (u : BitVec 32) (tail : Bytes) :
    Model.C17.uvarint (appendUvarint [] u ++ tail) = some (u, ((appendUvarint [] u).length : Int)) ∧
      0 < (appendUvarint [] u).length := by
  have hx := appendUvarint_exact tbl [] u
  have hl5 : lenU u.toNat ≤ 5 := lenU_le 5 u.toNat (by have := u.isLt; omega) (by decide)
  have hpos : 0 < lenU u.toNat := by rw [lenU]; split <;> omega
  rw [uvarint_exact, hx.1, List.nil_append, decU_encU 32 5 u.toNat tail u.isLt hl5, encU_length]
  simp [hpos]

theorem uvarlong_model_rt (tbl : ∀ L : Fin 65, lensAt L.val = max 1 ((L.val + 6) / 7)) (u : BitVec 64) (tail : Bytes) :
    Model.C17.uvarlong (appendUvarlong [] u ++ tail) = some (u, ((appendUvarlong [] u).length : Int)) ∧
      0 < (appendUvarlong [] u).length := by
  have hx := appendUvarlong_exact tbl [] u
  have hl10 : lenU u.toNat ≤ 10 := lenU_le 10 u.toNat (by have := u.isLt; omega) (by decide)
  have hpos : 0 < lenU u.toNat := by rw [lenU]; split <;> omega
  rw [uvarlong_exact, hx.1, List.nil_append, decU_encU 64 10 u.toNat tail u.isLt hl10, encU_length]
  simp [hpos]

theorem uvarint_rt (tbl : ∀ L : Fin 65, lensAt L.val = max 1 ((L.val + 6) / 7)) (r : Reader) (u : BitVec 32) (tail : Bytes)
    (h : r.src = appendUvarint [] u ++ tail) : r.uvarint = some (u, withSrc r tail) := by
  have hm := uvarint_model_rt tbl u tail
  rw [Reader.uvarint, h, hm.1, Option.bind_some]
  exact afterVar_rt r u _ tail h hm.2

theorem varint_rt (tbl : ∀ L : Fin 65, lensAt L.val = max 1 ((L.val + 6) / 7)) (r : Reader) (i : BitVec 32) (tail : Bytes)
    (h : r.src = appendVarint [] i ++ tail) : r.varint = some (i, withSrc r tail) := by
  rw [appendVarint] at h
  have hm := uvarint_model_rt tbl (zigzag32 i) tail
  rw [Reader.varint, Model.C17.varint, h, hm.1, Option.map_some, Option.bind_some]
  simp only [unzigzag32_zigzag32]
  exact afterVar_rt r i _ tail h hm.2

theorem varlong_rt (tbl : ∀ L : Fin 65, lensAt L.val = max 1 ((L.val + 6) / 7)) (r : Reader) (i : BitVec 64) (tail : Bytes)
    (h : r.src = appendVarlong [] i ++ tail) : r.varlong = some (i, withSrc r tail) := by
  rw [appendVarlong] at h
  have hm := uvarlong_model_rt tbl (zigzag64 i) tail
  rw [Reader.varlong, Model.C17.varlong, h, hm.1, Option.map_some, Option.bind_some]
  simp only [unzigzag64_zigzag64]
  exact afterVar_rt r i _ tail h hm.2

/-! ## span and the length-prefixed kinds -/
theorem span_rt (r : Reader) (hnil : r.srcNil = false) (s tail : Bytes) (h : r.src = s ++ tail) :
    r.span (s.length : Int) = some (some s, withSrc r tail) := by
  rw [span_eq, if_neg (by rw [h]; simp; omega), hnil]
  simp only [Int.toNat_natCast, Bool.false_eq_true, if_false, adv_of_append r s tail _ h rfl]
  rw [h]; simp

theorem withSrc_srcNil (r : Reader) (t : Bytes) : (withSrc r t).srcNil = r.srcNil := rfl
theorem withSrc_src (r : Reader) (t : Bytes) : (withSrc r t).src = t := rfl
theorem withSrc_withSrc (r : Reader) (t u : Bytes) : withSrc (withSrc r t) u = withSrc r u := rfl

theorem toInt_len16 (n : Nat) (h : n < 32768) : (BitVec.ofNat 16 n).toInt = n := by
  rw [BitVec.toInt_eq_toNat_cond, BitVec.toNat_ofNat]; simp only [Nat.reducePow]; omega
theorem toInt_len32 (n : Nat) (h : n < 2147483648) : (BitVec.ofNat 32 n).toInt = n := by
  rw [BitVec.toInt_eq_toNat_cond, BitVec.toNat_ofNat]; simp only [Nat.reducePow]; omega
theorem uvm1_len (n : Nat) (h : n < 4294967295) : Reader.uvm1 (1#32 + BitVec.ofNat 32 n) = n := by
  rw [Reader.uvm1, BitVec.toNat_add, BitVec.toNat_ofNat]; simp only [BitVec.toNat_ofNat, Nat.reducePow]; omega

theorem string_rt (r : Reader) (hnil : r.srcNil = false) (s tail : Bytes) (hs : s.length < 32768)
    (h : r.src = appendString [] s ++ tail) : r.string = some (s, withSrc r tail) := by
  rw [appendString, appendInt16, List.append_assoc] at h
  rw [Reader.string, Reader.int16, uint16_rt r _ _ h, Option.bind_some]
  simp only [toInt_len16 _ hs]
  rw [span_rt (withSrc r (s ++ tail)) hnil s tail rfl]; rfl

theorem nullableString_rt (r : Reader) (hnil : r.srcNil = false) (s : Option Bytes) (tail : Bytes)
    (hs : ∀ x, s = some x → x.length < 32768)
    (h : r.src = appendNullableString [] s ++ tail) : r.nullableString = some (s, withSrc r tail) := by
  rcases s with _ | s
  · rw [appendNullableString, appendInt16] at h
    rw [Reader.nullableString, Reader.int16, uint16_rt r _ _ h, Option.bind_some]
    rfl
  · have hs := hs s rfl
    rw [appendNullableString, appendString, appendInt16, List.append_assoc] at h
    rw [Reader.nullableString, Reader.int16, uint16_rt r _ _ h, Option.bind_some]
    simp only [toInt_len16 _ hs]
    rw [if_neg (by omega), span_rt (withSrc r (s ++ tail)) hnil s tail rfl]; rfl

theorem compactString_rt (tbl : ∀ L : Fin 65, lensAt L.val = max 1 ((L.val + 6) / 7)) (r : Reader) (hnil : r.srcNil = false)
    (s tail : Bytes) (hs : s.length < 4294967295)
    (h : r.src = appendCompactString [] s ++ tail) : r.compactString = some (s, withSrc r tail) := by
  rw [appendCompactString, List.append_assoc] at h
  rw [Reader.compactString, uvarint_rt tbl r _ _ h, Option.bind_some]
  simp only [uvm1_len _ hs]
  rw [span_rt (withSrc r (s ++ tail)) hnil s tail rfl]; rfl

theorem compactNullableString_rt (tbl : ∀ L : Fin 65, lensAt L.val = max 1 ((L.val + 6) / 7)) (r : Reader)
    (hnil : r.srcNil = false) (s : Option Bytes) (tail : Bytes) (hs : ∀ x, s = some x → x.length < 4294967295)
    (h : r.src = appendCompactNullableString [] s ++ tail) : r.compactNullableString = some (s, withSrc r tail) := by
  rcases s with _ | s
  · rw [appendCompactNullableString] at h
    rw [Reader.compactNullableString, uvarint_rt tbl r _ _ h, Option.bind_some]
    rfl
  · have hs := hs s rfl
    rw [appendCompactNullableString, appendCompactString, List.append_assoc] at h
    rw [Reader.compactNullableString, uvarint_rt tbl r _ _ h, Option.bind_some]
    simp only [uvm1_len _ hs]
    rw [if_neg (by omega), span_rt (withSrc r (s ++ tail)) hnil s tail rfl]; rfl

theorem bytes_rt (r : Reader) (hnil : r.srcNil = false) (s tail : Bytes) (hs : s.length < 2147483648)
    (h : r.src = appendBytes [] s ++ tail) : r.bytes = some (some s, withSrc r tail) := by
  rw [appendBytes, appendInt32, List.append_assoc] at h
  rw [Reader.bytes, Reader.int32, uint32_rt r _ _ h, Option.bind_some]
  simp only [toInt_len32 _ hs]
  rw [if_neg (by omega), span_rt (withSrc r (s ++ tail)) hnil s tail rfl]; rfl

theorem nullableBytes_rt (r : Reader) (hnil : r.srcNil = false) (s : Option Bytes) (tail : Bytes)
    (hs : ∀ x, s = some x → x.length < 2147483648)
    (h : r.src = appendNullableBytes [] s ++ tail) : r.nullableBytes = some (s, withSrc r tail) := by
  rcases s with _ | s
  · rw [appendNullableBytes, appendInt32] at h
    rw [Reader.nullableBytes, Reader.int32, uint32_rt r _ _ h, Option.bind_some]
    rfl
  · have hs := hs s rfl
    rw [appendNullableBytes, appendBytes, appendInt32, List.append_assoc] at h
    rw [Reader.nullableBytes, Reader.int32, uint32_rt r _ _ h, Option.bind_some]
    simp only [toInt_len32 _ hs]
    rw [if_neg (by omega), span_rt (withSrc r (s ++ tail)) hnil s tail rfl]; rfl

theorem compactBytes_rt (tbl : ∀ L : Fin 65, lensAt L.val = max 1 ((L.val + 6) / 7)) (r : Reader) (hnil : r.srcNil = false)
    (s tail : Bytes) (hs : s.length < 4294967295)
    (h : r.src = appendCompactBytes [] s ++ tail) : r.compactBytes = some (some s, withSrc r tail) := by
  rw [appendCompactBytes, List.append_assoc] at h
  rw [Reader.compactBytes, uvarint_rt tbl r _ _ h, Option.bind_some]
  simp only [uvm1_len _ hs]
  rw [if_neg (by omega), span_rt (withSrc r (s ++ tail)) hnil s tail rfl]; rfl

theorem compactNullableBytes_rt (tbl : ∀ L : Fin 65, lensAt L.val = max 1 ((L.val + 6) / 7)) (r : Reader)
    (hnil : r.srcNil = false) (s : Option Bytes) (tail : Bytes) (hs : ∀ x, s = some x → x.length < 4294967295)
    (h : r.src = appendCompactNullableBytes [] s ++ tail) : r.compactNullableBytes = some (s, withSrc r tail) := by
  rcases s with _ | s
  · rw [appendCompactNullableBytes] at h
    rw [Reader.compactNullableBytes, uvarint_rt tbl r _ _ h, Option.bind_some]
    rfl
  · have hs := hs s rfl
    rw [appendCompactNullableBytes, appendCompactBytes, List.append_assoc] at h
    rw [Reader.compactNullableBytes, uvarint_rt tbl r _ _ h, Option.bind_some]
    simp only [uvm1_len _ hs]
    rw [if_neg (by omega), span_rt (withSrc r (s ++ tail)) hnil s tail rfl]; rfl

theorem varintBytes_rt (tbl : ∀ L : Fin 65, lensAt L.val = max 1 ((L.val + 6) / 7)) (r : Reader)
    (hnil : r.srcNil = false) (s : Option Bytes) (tail : Bytes) (hs : ∀ x, s = some x → x.length < 2147483648)
    (h : r.src = appendVarintBytes [] s ++ tail) : r.varintBytes = some (s, withSrc r tail) := by
  rcases s with _ | s
  · rw [appendVarintBytes] at h
    rw [Reader.varintBytes, varint_rt tbl r _ _ h, Option.bind_some]
    rfl
  · have hs := hs s rfl
    rw [appendVarintBytes, List.append_assoc] at h
    rw [Reader.varintBytes, varint_rt tbl r _ _ h, Option.bind_some]
    simp only [toInt_len32 _ hs]
    rw [if_neg (by omega), span_rt (withSrc r (s ++ tail)) hnil s tail rfl]; rfl

theorem varintString_rt (tbl : ∀ L : Fin 65, lensAt L.val = max 1 ((L.val + 6) / 7)) (r : Reader)
    (hnil : r.srcNil = false) (s tail : Bytes) (hs : s.length < 2147483648)
    (h : r.src = appendVarintString [] s ++ tail) : r.varintString = some (s, withSrc r tail) := by
  have h' : r.src = appendVarintBytes [] (some s) ++ tail := h
  rw [Reader.varintString, varintBytes_rt tbl r hnil (some s) tail (fun x hx => by cases hx; exact hs) h']; rfl

/-! ## array lengths: the count comes back when at least that many bytes follow -/
theorem arrayLen_rt (r : Reader) (l : Nat) (tail : Bytes) (hl : l < 2147483648) (ht : l ≤ tail.length)
    (h : r.src = appendArrayLen [] l ++ tail) : r.arrayLen = some (BitVec.ofNat 32 l, withSrc r tail) := by
  rw [appendArrayLen, appendInt32] at h
  have e : BitVec.ofInt 32 (l : Int) = BitVec.ofNat 32 l := by simp
  rw [e] at h
  rw [Reader.arrayLen, Reader.int32, uint32_rt r _ _ h, Option.map_some]
  simp only [Reader.arrayTail, withSrc_src, toInt_len32 _ hl]
  rw [if_neg (by omega)]

theorem compactArrayLen_rt (tbl : ∀ L : Fin 65, lensAt L.val = max 1 ((L.val + 6) / 7)) (r : Reader) (l : Nat) (tail : Bytes)
    (hl : l < 2147483648) (ht : l ≤ tail.length)
    (h : r.src = appendCompactArrayLen [] l ++ tail) : r.compactArrayLen = some (BitVec.ofNat 32 l, withSrc r tail) := by
  rw [appendCompactArrayLen] at h
  have e : BitVec.ofInt 32 (l : Int) = BitVec.ofNat 32 l := by simp
  rw [e] at h
  rw [Reader.compactArrayLen, uvarint_rt tbl r _ _ h, Option.map_some]
  have e2 : 1#32 + BitVec.ofNat 32 l - 1#32 = BitVec.ofNat 32 l := by
    rw [BitVec.add_comm, BitVec.add_sub_cancel]
  simp only [Reader.arrayTail, withSrc_src, e2, toInt_len32 _ hl]
  rw [if_neg (by omega)]

theorem uuid_rt (r : Reader) (hnil : r.srcNil = false) (u tail : Bytes) (hu : u.length = 16)
    (h : r.src = appendUuid [] u ++ tail) : r.uuid = some (u, withSrc r tail) := by
  rw [appendUuid, List.nil_append] at h
  have := span_rt r hnil u tail h
  rw [hu] at this
  rw [Reader.uuid, show (16 : Int) = ((16 : Nat) : Int) from rfl, this]; rfl

/-! ## what a read on an invalidated reader returns -/
/-- the zero value of each kind, exactly as the Go code produces it on an invalidated reader (note
`CompactBytes` and the string kinds give the empty non-nil value, `Bytes` gives nil) -/
def zeroRes : Kind → MR
  | .bool => .b false
  | .int8 | .int16 | .uint16 | .int32 | .uint32 | .int64 | .float64 | .varint | .uvarint | .varlong => .i 0
  | .arrayLen | .varintArrayLen => .i 0
  | .compactArrayLen => .i (-1)   -- `int32(0) - 1`, and `len(nil) < -1` is false: the code returns -1 (null array), not 0
  | .uuid => .o (some (List.replicate 16 0#8))
  | .span _ => .o none
  | .string | .compactString | .varintString | .nullableString => .o (some [])
  | .compactNullableString | .bytes | .nullableBytes | .compactNullableBytes | .varintBytes => .o none
  | .compactBytes => .o (some [])

theorem run_invalid_zero (k : Kind) : run k Reader.invalid = some (zeroRes k, Reader.invalid) := by
  cases k with
  | span l => simp only [run, span_invalid]; rfl
  | _ => rfl

/-- the value part of the decoder contract always fits -/
theorem decU_fst_lt (bits maxB : Nat) (inp : Bytes) : (decU bits maxB inp).1 < 2 ^ bits := by
  unfold decU
  rcases leb (inp.take maxB) with _ | ⟨v, n⟩
  · simp only; split <;> exact Nat.two_pow_pos _
  · simp only; split
    · assumption
    · exact Nat.two_pow_pos _

theorem unzig32_ofInt (v : Nat) (hv : v < 4294967296) : unzigzag32 (BitVec.ofNat 32 v) = BitVec.ofInt 32 (unzz v) := by
  rw [← unzig_toInt v hv, BitVec.ofInt_toInt]
theorem unzig64_ofInt (v : Nat) (hv : v < 18446744073709551616) :
    unzigzag64 (BitVec.ofNat 64 v) = BitVec.ofInt 64 (unzz v) := by
  have : (unzigzag64 (BitVec.ofNat 64 v)).toInt = unzz v := by rw [unzigzag64_spec, ofNat_toNat_lt v hv]
  rw [← this, BitVec.ofInt_toInt]

theorem varint_exact (inp : Bytes) :
    Model.C17.varint inp = some (BitVec.ofInt 32 (decS 32 5 inp).1, (decS 32 5 inp).2) := by
  rw [Model.C17.varint, uvarint_exact, Option.map_some]
  simp only [decS]
  rw [unzig32_ofInt _ (decU_fst_lt 32 5 inp)]

theorem varlong_exact (inp : Bytes) :
    Model.C17.varlong inp = some (BitVec.ofInt 64 (decS 64 10 inp).1, (decS 64 10 inp).2) := by
  rw [Model.C17.varlong, uvarlong_exact, Option.map_some]
  simp only [decS]
  rw [unzig64_ofInt _ (decU_fst_lt 64 10 inp)]

end Proof.C17
