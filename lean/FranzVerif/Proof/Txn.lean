import FranzVerif.Model.Txn
/-! History-level observables for the transaction monitors (C10, C11) and helper lemmas. -/
namespace Proof.Txn
open Model.Txn

def producedOf (h : List Ev) : List (Id × Nat × Nat) :=
  h.filterMap (fun e => match e with | .produce i k p => some (i, k, p) | _ => none)
def ackedOf (h : List Ev) : List Id :=
  h.filterMap (fun e => match e with | .promise i true _ _ => some i | _ => none)
/-- results of EndTransaction calls `(txn, commit requested, returned nil)` -/
def resultsOf (h : List Ev) : List (Nat × Bool × Bool) :=
  h.filterMap (fun e => match e with | .endDone k c ok => some (k, c, ok) | _ => none)
def visibleIds (h : List Ev) : List Id :=
  h.filterMap (fun e => match e with | .visible _ _ i => some i | _ => none)
def isIncomplete (h : List Ev) : Bool := h.any (fun e => e == .incomplete)
/-- transaction `k` had an EndTxn request that the broker handled while its response was lost, during its End call.
(Implied by the monitor's `k ∈ s.lostEnd`, `Proof.Txn.LostInv.lost`; the converse fails only for histories with an
`endStart` of another transaction between `endStart k` and the fault, which the sequential harness never emits.) -/
def endResponseLost (k : Nat) : List Ev → Bool
  | [] => false
  | .endStart k' _ :: rest =>
    if k' == k then (rest.takeWhile (fun e => match e with | .endDone _ _ _ => false | _ => true)).any (fun e => e == .fault 26 2) || endResponseLost k rest
    else endResponseLost k rest
  | _ :: rest => endResponseLost k rest

end Proof.Txn

namespace Proof.Eos
open Model.Eos

def inputsOf (h : List Ev) : List Id := h.filterMap (fun e => match e with | .input i => some i | _ => none)
def outputIds (h : List Ev) : List Id := h.filterMap (fun e => match e with | .output _ i _ _ => some i | _ => none)
def isIncomplete (h : List Ev) : Bool := h.any (fun e => e == .incomplete)

end Proof.Eos
