import FranzVerif.Proof.C15b
/-! The generic round trip of the schema interpreter (mutual induction over `Ty` / `Fields`). -/
namespace Proof.C15
open Model.C15

theorem Vals.ind {P : Vals → Prop} (h0 : P .nil) (h1 : ∀ v r, P r → P (.cons v r)) : ∀ vs, P vs
  | .nil => h0
  | .cons v r => h1 v r (Vals.ind h0 h1 r)

theorem Fields.ind {P : Fields → Prop} (h0 : P .nil)
    (h1 : ∀ name minV maxV tag d t rest, P rest → P (.cons name minV maxV tag d t rest)) : ∀ fs, P fs
  | .nil => h0
  | .cons name minV maxV tag d t rest => h1 name minV maxV tag d t rest (Fields.ind h0 h1 rest)

/-! ### every encoding is at least `minW` long -/

theorem encPrim_len (p : Prim) (v : Val) (bs : Bytes) (h : encPrim p v = some bs) : primW p ≤ bs.length := by
  cases p <;> cases v <;> simp only [encPrim] at h <;> try contradiction
  case bool.int i =>
    by_cases h0 : i = 0
    · simp [h0] at h; subst h; simp [primW]
    · by_cases h1 : i = 1
      · simp [h1] at h; subst h; simp [primW]
      · simp [h0, h1] at h
  case int8.int i => split at h <;> simp at h; subst h; simp [primW, be_length]
  case int16.int i => split at h <;> simp at h; subst h; simp [primW, be_length]
  case uint16.int i => split at h <;> simp at h; subst h; simp [primW, be_length]
  case int32.int i => split at h <;> simp at h; subst h; simp [primW, be_length]
  case uint32.int i => split at h <;> simp at h; subst h; simp [primW, be_length]
  case int64.int i => split at h <;> simp at h; subst h; simp [primW, be_length]
  case float64.int i => split at h <;> simp at h; subst h; simp [primW, be_length]
  case varint.int i => split at h <;> simp at h; subst h; exact uvEnc_length_pos 4 _
  case varlong.int i => split at h <;> simp at h; subst h; exact uvEnc_length_pos 9 _
  case uuid.blob b =>
    cases b with
    | none => simp at h
    | some b =>
      simp only at h
      split at h <;> simp at h; subst h
      rename_i hl; simp [primW, hl]

theorem encUvarint_len (n : Nat) : 1 ≤ (encUvarint n).length := uvEnc_length_pos 4 n
theorem encVarint_len (i : Int) : 1 ≤ (encVarint i).length := uvEnc_length_pos 4 _

theorem encSome_len (flex : Bool) (k : SKind) (b : Bytes) : 1 ≤ (encSome flex k b).length := by
  cases k <;> cases flex <;> simp only [encSome, List.length_append, if_true, if_false, Bool.false_eq_true] <;>
    first
    | (have := encUvarint_len (b.length + 1); omega)
    | (have := encVarint_len (b.length : Int); omega)
    | (simp [encInt16, encInt32, be_length]; omega)

theorem encNull_len (flex : Bool) (k : SKind) (bs : Bytes) (h : encNull flex k = some bs) : 1 ≤ bs.length := by
  cases k <;> simp only [encNull] at h <;> try contradiction
  all_goals (simp at h; subst h)
  · cases flex <;> simp [encInt16, be_length]
  · exact encSome_len _ _ _
  · cases flex <;> simp [encInt32, be_length]
  · exact encVarint_len _

theorem encStr_len (ver : Int) (flex : Bool) (k : SKind) (v : Val) (bs : Bytes) (h : encStr ver flex k v = some bs) :
    1 ≤ bs.length := by
  cases v with
  | blob ob =>
    cases ob with
    | some b =>
      simp only [encStr] at h
      split at h <;> simp at h
      subst h; exact encSome_len _ _ _
    | none =>
      simp only [encStr] at h
      split at h
      · split at h
        · simp at h; subst h; exact encSome_len _ _ _
        · exact encNull_len _ _ _ h
      · exact encNull_len _ _ _ h
  | int i => simp [encStr] at h
  | null => simp [encStr] at h
  | list vs => simp [encStr] at h
  | stru a b => simp [encStr] at h

theorem encArrHdr_len (ver : Int) (flex : Bool) (k : AKind) (isNull : Bool) (len : Nat) :
    1 ≤ (encArrHdr ver flex k isNull len).length := by
  cases k <;> simp only [encArrHdr]
  · split
    · cases flex <;> simp [encInt32, be_length]
    · cases flex <;> simp only [if_true, if_false, Bool.false_eq_true]
      · simp [encInt32, be_length]
      · exact encUvarint_len _
  · split
    · cases flex <;> simp [encInt32, be_length]
    · cases flex <;> simp only [if_true, if_false, Bool.false_eq_true]
      · simp [encInt32, be_length]
      · exact encUvarint_len _
  · exact encVarint_len _

mutual
theorem minW_le (ver : Int) : ∀ (t : Ty) (flex : Bool) (v : Val) (bs : Bytes),
    enc ver flex t v = some bs → minW ver t ≤ bs.length
  | .prim p, flex, v, bs, h => by
    simp only [enc] at h
    simpa [minW] using encPrim_len p v bs h
  | .str k, flex, v, bs, h => by
    simp only [enc] at h
    simpa [minW] using encStr_len ver flex k v bs h
  | .arr k t, flex, v, bs, h => by
    cases v <;> simp only [enc] at h <;> try contradiction
    · cases k <;> simp at h <;> subst h <;> simpa [minW] using encArrHdr_len _ _ _ _ _
    · split at h <;> try contradiction
      split at h <;> simp at h
      subst h
      have := encArrHdr_len ver flex k false (Vals.length ‹Vals›)
      simp only [minW, List.length_append]; omega
  | .struct nullable ff fs, flex, v, bs, h => by
    cases v <;> simp only [enc] at h <;> try contradiction
    · split at h <;> simp at h
      subst h; rename_i hn; simp [minW, hn]
    · rename_i vals unk
      split at h <;> try contradiction
      rename_i body tags hb ht
      have hbody := minWF_le ver fs (flexAt ff ver) vals body hb
      cases hfl : flexAt ff ver <;> simp only [hfl, if_true, if_false, Bool.false_eq_true] at h
      · simp at h; subst h
        cases nullable <;> simp [minW, hfl] <;> omega
      · split at h <;> simp at h
        subst h
        have := encUvarint_len (tags.length + unk.length)
        cases nullable <;> simp [minW, hfl] <;> omega
theorem minWF_le (ver : Int) : ∀ (fs : Fields) (flex : Bool) (vals : Vals) (b : Bytes),
    encFields ver flex fs vals = some b → minWF ver fs ≤ b.length
  | .nil, flex, vals, b, h => by simp [minWF]
  | .cons name minV maxV tag d t rest, flex, vals, b, h => by
    cases vals with
    | nil => simp [encFields] at h
    | cons v r =>
      simp only [encFields] at h
      split at h <;> try contradiction
      rename_i b' hb'
      have ih := minWF_le ver rest flex r b' hb'
      by_cases hc : (tag.isSome || !present minV maxV ver) = true
      · simp only [hc, if_true, Option.some.injEq] at h
        subst h; simp [minWF, hc]; exact ih
      · simp only [hc, if_false, Bool.false_eq_true] at h
        split at h <;> simp at h
        rename_i a ha
        subst h
        have := minW_le ver t flex v a ha
        simp only [minWF, hc, if_false, Bool.false_eq_true, List.length_append]; omega
end

theorem encList_len (ver : Int) (flex : Bool) (t : Ty) (w : Nat)
    (hw : ∀ v bs, enc ver flex t v = some bs → w ≤ bs.length) :
    ∀ vs b, encList ver flex t vs = some b → vs.length * w ≤ b.length := by
  intro vs
  induction vs using Vals.ind with
  | h0 => intro b h; simp [Vals.length]
  | h1 v r ih =>
    intro b h
    simp only [encList] at h
    split at h <;> simp at h
    rename_i a b' ha hb'
    subst h
    have := hw v a ha
    have := ih b' hb'
    simp only [Vals.length, List.length_append, Nat.add_mul]; omega

end Proof.C15
