import FranzVerif.Model.Commit
import FranzVerif.Proof.Commit
/-! Helper lemmas for the commit-order monitor (C09): `run` on a concatenation, what an accepted event tells,
the invariant `Inv h s` relating the state reached by `run` to the history (membership of issue / finish /
CO / GC / topic-deleted events, the harness's offset encoding, `isIncomplete`), the forward inductions for the
order of arrivals (`wire_sorted`), for the last successfully answered request (`lastApplied_run`) and for the
tainted set (`taintedAtEnd_run`), and the frame lemmas: an answer for / a taint of partition `p` is not read by
the observables of any other partition. -/
namespace Proof.Commit
open Model.Commit

/-! ### `run` on a concatenation -/

theorem step_eq_some {s s' : St} {ev : Ev} (hs : step s ev = some s') : check s ev = none ∧ s' = apply s ev := by
  unfold step at hs
  split at hs
  · simp at hs; exact ⟨by assumption, hs.symm⟩
  · simp at hs

theorem run_cons {s s' : St} {e : Ev} {es : List Ev} (hr : run s (e :: es) = some s') :
    check s e = none ∧ run (apply s e) es = some s' := by
  simp only [run] at hr
  cases hs : step s e with
  | none => simp [hs] at hr
  | some s1 =>
    simp only [hs] at hr
    obtain ⟨hchk, rfl⟩ := step_eq_some hs
    exact ⟨hchk, hr⟩

theorem run_append (s : St) (h₁ h₂ : List Ev) : run s (h₁ ++ h₂) = (run s h₁).bind (fun s' => run s' h₂) := by
  induction h₁ generalizing s with
  | nil => rfl
  | cons e es ih =>
    simp only [List.cons_append, run]
    cases step s e with
    | none => rfl
    | some s' => exact ih s'

theorem run_split {s₀ : St} {h₁ h₂ : List Ev} {ev : Ev} {s : St} (hacc : run s₀ (h₁ ++ ev :: h₂) = some s) :
    ∃ s₁, run s₀ h₁ = some s₁ ∧ check s₁ ev = none ∧ run (apply s₁ ev) h₂ = some s := by
  rw [run_append] at hacc
  cases h1 : run s₀ h₁ with
  | none => simp [h1] at hacc
  | some s₁ =>
    simp only [h1, Option.bind_some] at hacc
    obtain ⟨hchk, hr⟩ := run_cons hacc
    exact ⟨s₁, rfl, hchk, hr⟩

theorem run_snoc {s₀ : St} {h : List Ev} {ev : Ev} {s : St} (hacc : run s₀ (h ++ [ev]) = some s) :
    ∃ s₁, run s₀ h = some s₁ ∧ check s₁ ev = none := by
  obtain ⟨s₁, h1, h2, _⟩ := run_split hacc
  exact ⟨s₁, h1, h2⟩

/-! ### what an accepted event tells -/

theorem issue_check {s : St} {k : Nat} {offs : List (Nat × Nat)} (h : check s (.issue k offs) = none) :
    ∀ o ∈ offs, o.2 = 1000 + k := by
  intro o ho
  simp only [check] at h
  split at h
  · cases h
  · split at h
    · cases h
    · rename_i hn
      false_or_by_contra
      rename_i hne
      apply hn
      rw [List.any_eq_true]
      exact ⟨o, ho, by simpa using hne⟩

theorem wireReq_check {s : St} {n part off : Nat} (h : check s (.wireReq n part off) = none) :
    s.maxWire ≤ off ∧ ∃ i ∈ s.issued, 1000 + i.1 = off ∧ ∃ o ∈ i.2, o.1 = part := by
  simp only [check] at h
  split at h
  · cases h
  · rename_i h1
    split at h
    · cases h
    · rename_i h2
      refine ⟨by omega, ?_⟩
      simp only [Bool.not_eq_true', Bool.not_eq_false] at h2
      rw [List.any_eq_true] at h2
      obtain ⟨i, hi, h3⟩ := h2
      simp only [Bool.and_eq_true, beq_iff_eq, List.any_eq_true] at h3
      exact ⟨i, hi, h3.1, h3.2⟩

theorem quiesce_check {s : St} (h : check s .quiesce = none) (hinc : s.incomplete = false) :
    (∀ i ∈ s.issued, ∃ f ∈ s.finished, f.1 = i.1) ∧
    (∀ g ∈ s.gc, judged s g.1 = true → (∃ a ∈ s.applied, a.1 = g.1) → g.2 = appliedOf s g.1) ∧
    (∀ a ∈ s.applied, judged s a.1 = true → ∃ g ∈ s.gc, g.1 = a.1) ∧
    (∀ c ∈ s.co, judged s c.1 = true → (∃ a ∈ s.applied, a.1 = c.1) → c.2 = appliedOf s c.1) ∧
    (∀ a ∈ s.applied, judged s a.1 = true → ∃ c ∈ s.co, c.1 = a.1) := by
  simp only [check, hinc, Bool.false_eq_true, if_false] at h
  split at h
  · cases h
  rename_i c1
  split at h
  · cases h
  rename_i c2
  split at h
  · cases h
  rename_i c3
  split at h
  · cases h
  split at h
  · cases h
  rename_i c4
  split at h
  · cases h
  rename_i c5
  refine ⟨?_, ?_, ?_, ?_, ?_⟩
  · intro i hi
    false_or_by_contra
    rename_i hcon
    apply c1
    rw [List.any_eq_true]
    refine ⟨i, hi, ?_⟩
    simp only [Bool.not_eq_true', List.any_eq_false, beq_iff_eq]
    intro f hf he
    exact hcon ⟨f, hf, he⟩
  · rintro g hg hj ⟨a, ha, he⟩
    false_or_by_contra
    rename_i hcon
    apply c2
    rw [List.any_eq_true]
    refine ⟨g, hg, ?_⟩
    simp only [Bool.and_eq_true, List.any_eq_true, beq_iff_eq, bne_iff_ne, ne_eq]
    exact ⟨⟨hj, a, ha, he⟩, hcon⟩
  · intro a ha hj
    false_or_by_contra
    rename_i hcon
    apply c3
    rw [List.any_eq_true]
    refine ⟨a, ha, ?_⟩
    simp only [Bool.and_eq_true, Bool.not_eq_true', List.any_eq_false, beq_iff_eq]
    refine ⟨hj, ?_⟩
    intro g hg he
    exact hcon ⟨g, hg, he⟩
  · rintro g hg hj ⟨a, ha, he⟩
    false_or_by_contra
    rename_i hcon
    apply c4
    rw [List.any_eq_true]
    refine ⟨g, hg, ?_⟩
    simp only [Bool.and_eq_true, List.any_eq_true, beq_iff_eq, bne_iff_ne, ne_eq]
    exact ⟨⟨hj, a, ha, he⟩, hcon⟩
  · intro a ha hj
    false_or_by_contra
    rename_i hcon
    apply c5
    rw [List.any_eq_true]
    refine ⟨a, ha, ?_⟩
    simp only [Bool.and_eq_true, Bool.not_eq_true', List.any_eq_false, beq_iff_eq]
    refine ⟨hj, ?_⟩
    intro g hg he
    exact hcon ⟨g, hg, he⟩

/-! ### fields that an event does not touch -/

/-- an answer changes at most the `applied` map and the `tainted` set -/
theorem apply_wireResp (s : St) (n part : Nat) (err : Int) (f : St → Prop) (h1 : f s)
    (h2 : ∀ a t, f { s with applied := a, tainted := t }) : f (apply s (.wireResp n part err)) := by
  simp only [apply]
  split
  · split
    · exact h2 _ _
    · exact h2 s.applied _
  · exact h1

/-! ### the invariant -/

structure Inv (h : List Ev) (s : St) : Prop where
  issued : ∀ i, i ∈ s.issued ↔ Ev.issue i.1 i.2 ∈ h
  enc : ∀ i ∈ s.issued, ∀ o ∈ i.2, o.2 = 1000 + i.1
  finished : ∀ f, f ∈ s.finished ↔ Ev.finish f.1 f.2 ∈ h
  gc : ∀ g, g ∈ s.gc ↔ Ev.groupCommitted g.1 g.2 ∈ h
  co : ∀ c, c ∈ s.co ↔ Ev.clientCommitted c.1 c.2 ∈ h
  gone : ∀ t, t ∈ s.gone ↔ Ev.topicDeleted t ∈ h
  incomplete : s.incomplete = isIncomplete h

theorem Inv.init : Inv [] {} := by
  constructor <;> simp [isIncomplete]

theorem isIncomplete_snoc (h : List Ev) (ev : Ev) : isIncomplete (h ++ [ev]) = (isIncomplete h || ev == .incomplete) := by
  simp [isIncomplete]

section frame
variable {h : List Ev} {s s' : St} {ev : Ev}

theorem Inv.issued_frame (hi : Inv h s) (e : s'.issued = s.issued) (o : ∀ k offs, ev ≠ .issue k offs) :
    ∀ i, i ∈ s'.issued ↔ Ev.issue i.1 i.2 ∈ h ++ [ev] := by
  intro i; rw [e, hi.issued i, List.mem_append, List.mem_singleton]
  exact ⟨Or.inl, fun h => h.elim id (fun h => absurd h.symm (o _ _))⟩
theorem Inv.enc_frame (hi : Inv h s) (e : s'.issued = s.issued) : ∀ i ∈ s'.issued, ∀ o ∈ i.2, o.2 = 1000 + i.1 := by
  rw [e]; exact hi.enc
theorem Inv.finished_frame (hi : Inv h s) (e : s'.finished = s.finished) (o : ∀ k ok, ev ≠ .finish k ok) :
    ∀ f, f ∈ s'.finished ↔ Ev.finish f.1 f.2 ∈ h ++ [ev] := by
  intro f; rw [e, hi.finished f, List.mem_append, List.mem_singleton]
  exact ⟨Or.inl, fun h => h.elim id (fun h => absurd h.symm (o _ _))⟩
theorem Inv.gc_frame (hi : Inv h s) (e : s'.gc = s.gc) (o : ∀ p g, ev ≠ .groupCommitted p g) :
    ∀ g, g ∈ s'.gc ↔ Ev.groupCommitted g.1 g.2 ∈ h ++ [ev] := by
  intro g; rw [e, hi.gc g, List.mem_append, List.mem_singleton]
  exact ⟨Or.inl, fun h => h.elim id (fun h => absurd h.symm (o _ _))⟩
theorem Inv.co_frame (hi : Inv h s) (e : s'.co = s.co) (o : ∀ p g, ev ≠ .clientCommitted p g) :
    ∀ c, c ∈ s'.co ↔ Ev.clientCommitted c.1 c.2 ∈ h ++ [ev] := by
  intro g; rw [e, hi.co g, List.mem_append, List.mem_singleton]
  exact ⟨Or.inl, fun h => h.elim id (fun h => absurd h.symm (o _ _))⟩
theorem Inv.gone_frame (hi : Inv h s) (e : s'.gone = s.gone) (o : ∀ t, ev ≠ .topicDeleted t) :
    ∀ t, t ∈ s'.gone ↔ Ev.topicDeleted t ∈ h ++ [ev] := by
  intro t; rw [e, hi.gone t, List.mem_append, List.mem_singleton]
  exact ⟨Or.inl, fun h => h.elim id (fun h => absurd h.symm (o _))⟩
theorem Inv.incomplete_frame (hi : Inv h s) (e : s'.incomplete = s.incomplete) (o : ev ≠ .incomplete) :
    s'.incomplete = isIncomplete (h ++ [ev]) := by
  rw [isIncomplete_snoc, e, hi.incomplete]; simp [o]

end frame

theorem Inv.step {h : List Ev} {s : St} (hi : Inv h s) (ev : Ev) (hchk : check s ev = none) :
    Inv (h ++ [ev]) (apply s ev) := by
  cases ev with
  | issue k offs =>
    refine ⟨?_, ?_, hi.finished_frame rfl (by simp), hi.gc_frame rfl (by simp), hi.co_frame rfl (by simp),
      hi.gone_frame rfl (by simp), hi.incomplete_frame rfl (by simp)⟩
    · intro i
      simp only [apply]
      rw [List.mem_cons, List.mem_append, List.mem_singleton, hi.issued i]
      obtain ⟨i1, i2⟩ := i
      simp only [Prod.mk.injEq, Ev.issue.injEq]
      exact ⟨fun h => h.elim Or.inr Or.inl, fun h => h.elim Or.inr Or.inl⟩
    · intro i hi'
      simp only [apply, List.mem_cons] at hi'
      rcases hi' with rfl | hi'
      · exact issue_check hchk
      · exact hi.enc i hi'
  | finish k ok =>
    refine ⟨hi.issued_frame rfl (by simp), hi.enc_frame rfl, ?_, hi.gc_frame rfl (by simp), hi.co_frame rfl (by simp),
      hi.gone_frame rfl (by simp), hi.incomplete_frame rfl (by simp)⟩
    intro f
    simp only [apply]
    rw [List.mem_cons, List.mem_append, List.mem_singleton, hi.finished f]
    obtain ⟨f1, f2⟩ := f
    simp only [Prod.mk.injEq, Ev.finish.injEq]
    exact ⟨fun h => h.elim Or.inr Or.inl, fun h => h.elim Or.inr Or.inl⟩
  | wireReq n part off =>
    exact ⟨hi.issued_frame rfl (by simp), hi.enc_frame rfl, hi.finished_frame rfl (by simp), hi.gc_frame rfl (by simp),
      hi.co_frame rfl (by simp), hi.gone_frame rfl (by simp), hi.incomplete_frame rfl (by simp)⟩
  | wireResp n part err =>
    exact ⟨hi.issued_frame (apply_wireResp s n part err (·.issued = s.issued) rfl (fun _ _ => rfl)) (by simp),
      hi.enc_frame (apply_wireResp s n part err (·.issued = s.issued) rfl (fun _ _ => rfl)),
      hi.finished_frame (apply_wireResp s n part err (·.finished = s.finished) rfl (fun _ _ => rfl)) (by simp),
      hi.gc_frame (apply_wireResp s n part err (·.gc = s.gc) rfl (fun _ _ => rfl)) (by simp),
      hi.co_frame (apply_wireResp s n part err (·.co = s.co) rfl (fun _ _ => rfl)) (by simp),
      hi.gone_frame (apply_wireResp s n part err (·.gone = s.gone) rfl (fun _ _ => rfl)) (by simp),
      hi.incomplete_frame (apply_wireResp s n part err (·.incomplete = s.incomplete) rfl (fun _ _ => rfl)) (by simp)⟩
  | taint part =>
    exact ⟨hi.issued_frame rfl (by simp), hi.enc_frame rfl, hi.finished_frame rfl (by simp), hi.gc_frame rfl (by simp),
      hi.co_frame rfl (by simp), hi.gone_frame rfl (by simp), hi.incomplete_frame rfl (by simp)⟩
  | topicDeleted t =>
    refine ⟨hi.issued_frame rfl (by simp), hi.enc_frame rfl, hi.finished_frame rfl (by simp), hi.gc_frame rfl (by simp),
      hi.co_frame rfl (by simp), ?_, hi.incomplete_frame rfl (by simp)⟩
    intro u
    simp only [apply]
    rw [List.mem_cons, List.mem_append, List.mem_singleton, hi.gone u]
    simp only [Ev.topicDeleted.injEq]
    exact ⟨fun h => h.elim Or.inr Or.inl, fun h => h.elim Or.inr Or.inl⟩
  | clientCommitted part off =>
    refine ⟨hi.issued_frame rfl (by simp), hi.enc_frame rfl, hi.finished_frame rfl (by simp), hi.gc_frame rfl (by simp),
      ?_, hi.gone_frame rfl (by simp), hi.incomplete_frame rfl (by simp)⟩
    intro f
    simp only [apply]
    rw [List.mem_cons, List.mem_append, List.mem_singleton, hi.co f]
    obtain ⟨f1, f2⟩ := f
    simp only [Prod.mk.injEq, Ev.clientCommitted.injEq]
    exact ⟨fun h => h.elim Or.inr Or.inl, fun h => h.elim Or.inr Or.inl⟩
  | groupCommitted part off =>
    refine ⟨hi.issued_frame rfl (by simp), hi.enc_frame rfl, hi.finished_frame rfl (by simp), ?_,
      hi.co_frame rfl (by simp), hi.gone_frame rfl (by simp), hi.incomplete_frame rfl (by simp)⟩
    intro f
    simp only [apply]
    rw [List.mem_cons, List.mem_append, List.mem_singleton, hi.gc f]
    obtain ⟨f1, f2⟩ := f
    simp only [Prod.mk.injEq, Ev.groupCommitted.injEq]
    exact ⟨fun h => h.elim Or.inr Or.inl, fun h => h.elim Or.inr Or.inl⟩
  | incomplete =>
    refine ⟨hi.issued_frame rfl (by simp), hi.enc_frame rfl, hi.finished_frame rfl (by simp), hi.gc_frame rfl (by simp),
      hi.co_frame rfl (by simp), hi.gone_frame rfl (by simp), ?_⟩
    simp [isIncomplete_snoc, apply]
  | quiesce =>
    exact ⟨hi.issued_frame rfl (by simp), hi.enc_frame rfl, hi.finished_frame rfl (by simp), hi.gc_frame rfl (by simp),
      hi.co_frame rfl (by simp), hi.gone_frame rfl (by simp), hi.incomplete_frame rfl (by simp)⟩

theorem Inv.run {h₁ : List Ev} {s s' : St} (hi : Inv h₁ s) (h₂ : List Ev) (hr : Model.Commit.run s h₂ = some s') :
    Inv (h₁ ++ h₂) s' := by
  induction h₂ generalizing h₁ s with
  | nil => simp [Model.Commit.run] at hr; subst hr; simpa using hi
  | cons e es ih =>
    obtain ⟨hchk, hr'⟩ := run_cons hr
    have := ih (hi.step e hchk) hr'
    simpa using this

theorem inv_of_run {h : List Ev} {s : St} (hr : run {} h = some s) : Inv h s := by
  simpa using Inv.init.run h hr

/-! ### arrivals are sorted -/

def wireEv : Ev → Option Nat
  | .wireReq _ _ off => some off
  | _ => none

theorem wireOffsets_eq (h : List Ev) : wireOffsets h = h.filterMap wireEv := by
  unfold wireOffsets
  congr 1

/-- every offset that arrives is at least the highest that arrived before, hence the arrivals are sorted -/
theorem wire_sorted {h : List Ev} {s s' : St} (hr : run s h = some s') :
    (∀ x ∈ wireOffsets h, s.maxWire ≤ x) ∧ (wireOffsets h).Pairwise (· ≤ ·) := by
  induction h generalizing s with
  | nil => simp [wireOffsets]
  | cons e es ih =>
    obtain ⟨hchk, hr'⟩ := run_cons hr
    obtain ⟨ih1, ih2⟩ := ih hr'
    cases e with
    | wireReq n part off =>
      obtain ⟨hle, _⟩ := wireReq_check hchk
      have hw : wireOffsets (Ev.wireReq n part off :: es) = off :: wireOffsets es := rfl
      have hmax : (apply s (.wireReq n part off)).maxWire = max s.maxWire off := rfl
      rw [hw]
      refine ⟨?_, List.pairwise_cons.2 ⟨?_, ih2⟩⟩
      · intro x hx
        rcases List.mem_cons.1 hx with rfl | hx
        · exact hle
        · have := ih1 x hx; omega
      · intro x hx
        have := ih1 x hx; omega
    | wireResp n part err =>
      have hw : wireOffsets (Ev.wireResp n part err :: es) = wireOffsets es := rfl
      have hmax : (apply s (.wireResp n part err)).maxWire = s.maxWire :=
        apply_wireResp s n part err (·.maxWire = s.maxWire) rfl (fun _ _ => rfl)
      rw [hw]; rw [hmax] at ih1; exact ⟨ih1, ih2⟩
    | issue k offs => exact ⟨ih1, ih2⟩
    | finish k ok => exact ⟨ih1, ih2⟩
    | taint p => exact ⟨ih1, ih2⟩
    | topicDeleted t => exact ⟨ih1, ih2⟩
    | clientCommitted p o => exact ⟨ih1, ih2⟩
    | groupCommitted p o => exact ⟨ih1, ih2⟩
    | incomplete => exact ⟨ih1, ih2⟩
    | quiesce => exact ⟨ih1, ih2⟩

/-! ### the last successfully answered request -/

/-- the monitor's `applied` entry of partition `p` -/
def curOf (s : St) (p : Nat) : Option Nat := (s.applied.find? (·.1 == p)).map (·.2)

theorem find_applied_ne (l : List (Nat × Nat)) (p q : Nat) (hne : q ≠ p) :
    (l.filter (·.1 != p)).find? (·.1 == q) = l.find? (·.1 == q) := by
  induction l with
  | nil => rfl
  | cons a l ih =>
    obtain ⟨a1, a2⟩ := a
    by_cases h1 : a1 = p
    · subst h1
      have : ¬ a1 = q := fun h => hne h.symm
      simpa [List.filter_cons, List.find?_cons, this] using ih
    · by_cases h2 : a1 = q
      · subst h2
        simp [h1]
      · simpa [List.filter_cons, h1, List.find?_cons, h2] using ih

theorem appliedOf_of_curOf {s : St} {p off : Nat} (h : curOf s p = some off) :
    appliedOf s p = (off : Int) ∧ ∃ a ∈ s.applied, a.1 = p := by
  simp only [curOf, Option.map_eq_some_iff] at h
  obtain ⟨a, ha, rfl⟩ := h
  have h1 := List.mem_of_find?_eq_some ha
  have h2 := List.find?_some ha
  simp only [beq_iff_eq] at h2
  refine ⟨?_, a, h1, h2⟩
  obtain ⟨a1, a2⟩ := a
  simp only [appliedOf, ha]

/-- `lastApplied`'s scan (requests so far newest first, last successful answer so far) and the monitor's state
(`wire`, `applied`) move in step: an answer is paired with the newest request of its number and partition. -/
theorem lastApplied_go_run (p : Nat) {h : List Ev} {s s' : St} (hr : run s h = some s') :
    lastApplied.go p s.wire (curOf s p) h = curOf s' p := by
  induction h generalizing s with
  | nil => simp [run] at hr; subst hr; rfl
  | cons e es ih =>
    obtain ⟨_, hr'⟩ := run_cons hr
    have ih' := ih hr'
    cases e with
    | wireReq n q off => simp only [lastApplied.go]; exact ih'
    | issue k offs => simp only [lastApplied.go]; exact ih'
    | finish k ok => simp only [lastApplied.go]; exact ih'
    | taint q => simp only [lastApplied.go]; exact ih'
    | topicDeleted t => simp only [lastApplied.go]; exact ih'
    | clientCommitted q o => simp only [lastApplied.go]; exact ih'
    | groupCommitted q o => simp only [lastApplied.go]; exact ih'
    | incomplete => simp only [lastApplied.go]; exact ih'
    | quiesce => simp only [lastApplied.go]; exact ih'
    | wireResp n q err =>
      simp only [lastApplied.go]
      by_cases herr : err = 0
      · subst herr
        by_cases hq : q = p
        · subst hq
          simp only [beq_self_eq_true, Bool.and_self, if_true]
          simp only [apply, beq_self_eq_true, if_true] at ih'
          cases hf : s.wire.find? (fun w => w.1 == n && w.2.1 == q) with
          | none => simpa only [hf, curOf] using ih'
          | some w =>
            obtain ⟨w1, w2, w3⟩ := w
            simp only [hf] at ih' ⊢
            simpa [curOf] using ih'
        · have hqp : (q == p) = false := by simpa using hq
          simp only [hqp, Bool.false_and, Bool.false_eq_true, if_false]
          simp only [apply, beq_self_eq_true, if_true] at ih'
          cases hf : s.wire.find? (fun w => w.1 == n && w.2.1 == q) with
          | none => simpa only [hf, curOf] using ih'
          | some w =>
            obtain ⟨w1, w2, w3⟩ := w
            simp only [hf] at ih'
            have hc : curOf { s with applied := (q, w3) :: s.applied.filter (·.1 != q), tainted := s.tainted.filter (· != q) } p = curOf s p := by
              simp only [curOf, List.find?_cons, hqp]
              rw [find_applied_ne _ _ _ (fun h => hq h.symm)]
            rw [hc] at ih'
            exact ih'
      · have he : (err == 0) = false := by simpa using herr
        simp only [he, Bool.and_false, Bool.false_eq_true, if_false]
        simp only [apply, he, Bool.false_eq_true, if_false] at ih'
        exact ih'

theorem lastApplied_run {p : Nat} {h : List Ev} {s : St} (hr : run {} h = some s) : curOf s p = lastApplied p h := by
  have := lastApplied_go_run p hr
  exact this.symm

/-! ### tainted partitions and deleted topics -/

theorem contains_filter_ne_other (l : List Nat) (p q : Nat) (hne : q ≠ p) :
    (l.filter (· != q)).contains p = l.contains p := by
  have : ¬ p = q := fun e => hne e.symm
  simp [List.mem_filter, this]

/-- `taintedAtEnd`'s scan and the monitor's `tainted` set move in step -/
theorem taintedAtEnd_go_run (p : Nat) {h : List Ev} {s s' : St} (hr : run s h = some s') :
    taintedAtEnd.go p (s.tainted.contains p) h = s'.tainted.contains p := by
  induction h generalizing s with
  | nil => simp [run] at hr; subst hr; rfl
  | cons e es ih =>
    obtain ⟨_, hr'⟩ := run_cons hr
    have ih' := ih hr'
    cases e with
    | wireReq n q off => simp only [taintedAtEnd.go]; exact ih'
    | issue k offs => simp only [taintedAtEnd.go]; exact ih'
    | finish k ok => simp only [taintedAtEnd.go]; exact ih'
    | clientCommitted q o => simp only [taintedAtEnd.go]; exact ih'
    | groupCommitted q o => simp only [taintedAtEnd.go]; exact ih'
    | incomplete => simp only [taintedAtEnd.go]; exact ih'
    | quiesce => simp only [taintedAtEnd.go]; exact ih'
    | topicDeleted t => simp only [taintedAtEnd.go]; exact ih'
    | taint q =>
      simp only [taintedAtEnd.go]
      have : (apply s (.taint q)).tainted.contains p = (s.tainted.contains p || q == p) := by
        by_cases hqp : q = p
        · subst hqp; simp [apply]
        · have : ¬ p = q := fun e => hqp e.symm
          simp [apply, hqp, this]
      rw [this] at ih'
      exact ih'
    | wireResp n q err =>
      simp only [taintedAtEnd.go]
      have : (apply s (.wireResp n q err)).tainted.contains p = (s.tainted.contains p && !(q == p && err == 0)) := by
        by_cases herr : err = 0
        · subst herr
          by_cases hq : q = p
          · subst hq
            simp only [apply, beq_self_eq_true, if_true]
            split <;> simp
          · have hqp : (q == p) = false := by simpa using hq
            simp only [apply, beq_self_eq_true, if_true, hqp, Bool.not_false, Bool.and_true]
            split <;> simp only [contains_filter_ne_other _ _ _ hq]
        · have he : (err == 0) = false := by simpa using herr
          simp [apply, he]
      rw [this] at ih'
      exact ih'

theorem taintedAtEnd_run {p : Nat} {h : List Ev} {s : St} (hr : run {} h = some s) :
    s.tainted.contains p = taintedAtEnd p h := by
  have := taintedAtEnd_go_run p hr
  exact this.symm

theorem judged_of {h : List Ev} {s : St} (hr : run {} h = some s) {p : Nat}
    (hnt : taintedAtEnd p h = false) (hnd : topicDeleted (topicOf p) h = false) : judged s p = true := by
  have hi := inv_of_run hr
  have h1 : s.tainted.contains p = false := by rw [taintedAtEnd_run hr]; exact hnt
  have h2 : s.gone.contains (topicOf p) = false := by
    cases hc : s.gone.contains (topicOf p) with
    | false => rfl
    | true =>
      have hm : topicOf p ∈ s.gone := by simpa using hc
      have := (hi.gone _).1 hm
      have : topicDeleted (topicOf p) h = true := by
        simp only [topicDeleted, List.any_eq_true]
        exact ⟨_, this, by simp⟩
      rw [hnd] at this; cases this
  have h1' : p ∉ s.tainted := by simpa using h1
  have h2' : topicOf p ∉ s.gone := by simpa using h2
  simp [judged, h1', h2']

/-! ### what is required of a partition does not depend on the answers given to the other partitions -/

/-- is `e` an event about partition `p` alone that `lastApplied q` / `taintedAtEnd q` (q ≠ p) do not read: an
answer for `p` (any code) or a taint of `p` -/
def aboutOnly (p : Nat) : Ev → Bool
  | .wireResp _ q _ => q == p
  | .taint q => q == p
  | _ => false

theorem lastApplied_go_frame (q p : Nat) (hne : p ≠ q) (e : Ev) (he : aboutOnly p e = true) (h₁ h₂ : List Ev)
    (reqs : List (Nat × Nat × Nat)) (cur : Option Nat) :
    lastApplied.go q reqs cur (h₁ ++ e :: h₂) = lastApplied.go q reqs cur (h₁ ++ h₂) := by
  induction h₁ generalizing reqs cur with
  | nil =>
    cases e with
    | wireResp n r err =>
      have hr : r = p := by simpa [aboutOnly] using he
      subst hr
      have : (r == q) = false := by simpa using hne
      simp [lastApplied.go, this]
    | taint r => simp [lastApplied.go]
    | issue k offs => simp [aboutOnly] at he
    | finish k ok => simp [aboutOnly] at he
    | wireReq n r off => simp [aboutOnly] at he
    | topicDeleted t => simp [aboutOnly] at he
    | clientCommitted r o => simp [aboutOnly] at he
    | groupCommitted r o => simp [aboutOnly] at he
    | incomplete => simp [aboutOnly] at he
    | quiesce => simp [aboutOnly] at he
  | cons a as ih =>
    cases a with
    | wireResp n r err =>
      simp only [List.cons_append, lastApplied.go]
      split
      · split <;> exact ih _ _
      · exact ih _ _
    | wireReq n r off => simp only [List.cons_append, lastApplied.go]; exact ih _ _
    | taint r => simp only [List.cons_append, lastApplied.go]; exact ih _ _
    | issue k offs => simp only [List.cons_append, lastApplied.go]; exact ih _ _
    | finish k ok => simp only [List.cons_append, lastApplied.go]; exact ih _ _
    | topicDeleted t => simp only [List.cons_append, lastApplied.go]; exact ih _ _
    | clientCommitted r o => simp only [List.cons_append, lastApplied.go]; exact ih _ _
    | groupCommitted r o => simp only [List.cons_append, lastApplied.go]; exact ih _ _
    | incomplete => simp only [List.cons_append, lastApplied.go]; exact ih _ _
    | quiesce => simp only [List.cons_append, lastApplied.go]; exact ih _ _

theorem taintedAtEnd_go_frame (q p : Nat) (hne : p ≠ q) (e : Ev) (he : aboutOnly p e = true) (h₁ h₂ : List Ev)
    (cur : Bool) :
    taintedAtEnd.go q cur (h₁ ++ e :: h₂) = taintedAtEnd.go q cur (h₁ ++ h₂) := by
  induction h₁ generalizing cur with
  | nil =>
    cases e with
    | wireResp n r err =>
      have hr : r = p := by simpa [aboutOnly] using he
      subst hr
      have : (r == q) = false := by simpa using hne
      simp [taintedAtEnd.go, this]
    | taint r =>
      have hr : r = p := by simpa [aboutOnly] using he
      subst hr
      have : (r == q) = false := by simpa using hne
      simp [taintedAtEnd.go, this]
    | issue k offs => simp [aboutOnly] at he
    | finish k ok => simp [aboutOnly] at he
    | wireReq n r off => simp [aboutOnly] at he
    | topicDeleted t => simp [aboutOnly] at he
    | clientCommitted r o => simp [aboutOnly] at he
    | groupCommitted r o => simp [aboutOnly] at he
    | incomplete => simp [aboutOnly] at he
    | quiesce => simp [aboutOnly] at he
  | cons a as ih =>
    cases a with
    | wireResp n r err => simp only [List.cons_append, taintedAtEnd.go]; exact ih _
    | wireReq n r off => simp only [List.cons_append, taintedAtEnd.go]; exact ih _
    | taint r => simp only [List.cons_append, taintedAtEnd.go]; exact ih _
    | issue k offs => simp only [List.cons_append, taintedAtEnd.go]; exact ih _
    | finish k ok => simp only [List.cons_append, taintedAtEnd.go]; exact ih _
    | topicDeleted t => simp only [List.cons_append, taintedAtEnd.go]; exact ih _
    | clientCommitted r o => simp only [List.cons_append, taintedAtEnd.go]; exact ih _
    | groupCommitted r o => simp only [List.cons_append, taintedAtEnd.go]; exact ih _
    | incomplete => simp only [List.cons_append, taintedAtEnd.go]; exact ih _
    | quiesce => simp only [List.cons_append, taintedAtEnd.go]; exact ih _

end Proof.Commit
