import FranzVerif.Model.Select
/-! Helper lemmas for C39: `run` versus `replay`, the selection rule as a proposition, what each call does to it. -/
namespace Proof.Select
open Model.Select

/-! ### run / replay -/

theorem step_eq_some {c : Cfg} {s s' : St} {ev : Ev} (hs : step c s ev = some s') :
    check c s ev = none ∧ s' = apply c s ev := by
  unfold step at hs
  split at hs
  · simp at hs; exact ⟨by assumption, hs.symm⟩
  · simp at hs

theorem run_eq_foldl {c : Cfg} {s s' : St} {h : List Ev} (hacc : run c s h = some s') : s' = h.foldl (apply c) s := by
  induction h generalizing s with
  | nil => simp only [run] at hacc; cases hacc; rfl
  | cons e es ih =>
    simp only [run] at hacc
    cases hs : step c s e with
    | none => simp [hs] at hacc
    | some s1 =>
      simp only [hs] at hacc
      obtain ⟨_, rfl⟩ := step_eq_some hs
      simpa using ih hacc

/-- an accepted history: the event after any prefix passes its check in the state the prefix leads to -/
theorem check_of_run {c : Cfg} {s s' : St} {h₁ h₂ : List Ev} {ev : Ev} (hacc : run c s (h₁ ++ ev :: h₂) = some s') :
    check c (h₁.foldl (apply c) s) ev = none := by
  induction h₁ generalizing s with
  | nil =>
    simp only [List.nil_append, run] at hacc
    cases hs : step c s ev with
    | none => simp [hs] at hacc
    | some s1 => exact (step_eq_some hs).1
  | cons e es ih =>
    simp only [List.cons_append, run] at hacc
    cases hs : step c s e with
    | none => simp [hs] at hacc
    | some s1 =>
      simp only [hs] at hacc
      obtain ⟨_, rfl⟩ := step_eq_some hs
      simpa using ih hacc

theorem replay_append (c : Cfg) (h₁ h₂ : List Ev) : replay c (h₁ ++ h₂) = h₂.foldl (apply c) (replay c h₁) := by
  simp [replay, List.foldl_append]

/-! ### the selection rule as a proposition -/

/-- named mode -/
def SelNamed (s : St) (t p : Nat) : Prop := (t ∈ s.whole ∧ (t, p) ∉ s.removed) ∨ (t, p) ∈ s.pinned

theorem selected_named {c : Cfg} (hc : c.regex = false) (s : St) (t g p : Nat) :
    selected c s t g p = true ↔ SelNamed s t p := by
  simp [selected, hc, SelNamed]

/-- regex mode (incarnation `g` of topic `t`) -/
def SelRegex (s : St) (t g : Nat) : Prop :=
  (∃ tp, topicOf s t = some tp ∧ tp.incl = true ∧ tp.excluded = false ∧ tp.internal = false) ∧ t ∉ s.waiting ∧ (t, g) ∉ s.gone

theorem selected_regex {c : Cfg} (hc : c.regex = true) (s : St) (t g p : Nat) :
    selected c s t g p = true ↔ SelRegex s t g := by
  simp only [selected, hc, if_true, SelRegex, regexWants]
  cases h : topicOf s t with
  | none => simp
  | some tp => simp [and_assoc]

/-- events that (re)select partition `p` of topic `t` in named mode -/
def Reselects (t p : Nat) (e : Ev) : Prop :=
  e = .addPart t p ∨ e = .addTopic t ∨ e = .selTopic t ∨ e = .selPart t p

/-- named mode: an unselected partition stays unselected under every event that does not (re)select it -/
theorem unselected_preserved {c : Cfg} (hc : c.regex = false) {s : St} {t p : Nat} (hn : ¬ SelNamed s t p)
    (ev : Ev) (hev : ¬ Reselects t p ev) : ¬ SelNamed (apply c s ev) t p := by
  simp only [SelNamed, not_or, not_and, Classical.not_not] at hn ⊢
  obtain ⟨hw, hp⟩ := hn
  cases ev with
  | selTopic t' =>
    have hne : t ≠ t' := fun h => hev (Or.inr (Or.inr (Or.inl (by rw [h]))))
    simp only [apply, List.mem_cons]
    exact ⟨fun h => hw (h.resolve_left hne), hp⟩
  | selPart t' p' =>
    have hne : (t, p) ≠ (t', p') := fun h => hev (Or.inr (Or.inr (Or.inr (by cases h; rfl))))
    simp only [apply, List.mem_cons]
    exact ⟨hw, fun h => h.elim hne hp⟩
  | created _ _ _ _ _ _ => exact ⟨hw, hp⟩
  | grown _ _ => exact ⟨hw, hp⟩
  | deleted _ => exact ⟨hw, hp⟩
  | addTopic t' =>
    have hne : t ≠ t' := fun h => hev (Or.inr (Or.inl (by rw [h])))
    simp only [apply, hc, Bool.false_eq_true, ↓reduceIte]
    split
    · exact ⟨hw, hp⟩
    · simp only [List.mem_cons, List.mem_filter]
      refine ⟨fun h => ⟨hw (h.resolve_left hne), by simpa using hne⟩, hp⟩
  | addPart t' p' =>
    have hne : (t, p) ≠ (t', p') := fun h => hev (Or.inl (by cases h; rfl))
    simp only [apply, hc, Bool.false_eq_true, ↓reduceIte, List.mem_cons, List.mem_filter]
    refine ⟨fun h => ⟨hw h, by simpa using hne⟩, fun h => h.elim hne hp⟩
  | removePart t' p' =>
    simp only [apply, hc, Bool.false_eq_true, ↓reduceIte]
    split
    · split
      · simp only [List.mem_filter, List.mem_cons]
        exact ⟨fun h => Or.inr (hw h.1), fun h => hp h.1⟩
      · simp only [List.mem_filter, List.mem_cons]
        exact ⟨fun h => Or.inr (hw h), fun h => hp h.1⟩
    · simp only [List.mem_filter]
      exact ⟨hw, fun h => hp h.1⟩
  | purged t' =>
    simp only [apply, hc, Bool.false_eq_true, ↓reduceIte, List.mem_filter]
    refine ⟨fun h => ⟨hw h.1, ?_⟩, fun h => hp h.1⟩
    simpa using h.2
  | produced _ _ _ _ _ => exact ⟨hw, hp⟩
  | returned _ _ _ _ _ => exact ⟨hw, hp⟩
  | refresh => exact ⟨hw, hp⟩
  | incomplete => exact ⟨hw, hp⟩
  | quiesce => exact ⟨hw, hp⟩

theorem unselected_preserved_list {c : Cfg} (hc : c.regex = false) {t p : Nat} (h : List Ev) :
    ∀ {s : St}, ¬ SelNamed s t p → (∀ e ∈ h, ¬ Reselects t p e) → ¬ SelNamed (h.foldl (apply c) s) t p := by
  induction h with
  | nil => intro s hn _; exact hn
  | cons e es ih =>
    intro s hn hall
    simp only [List.foldl_cons]
    exact ih (unselected_preserved hc hn e (hall e List.mem_cons_self)) (fun e' he' => hall e' (List.mem_cons_of_mem _ he'))

/-- named mode: after RemoveConsumePartitions the partition is not selected -/
theorem unselected_after_remove {c : Cfg} (hc : c.regex = false) (s : St) (t p : Nat) :
    ¬ SelNamed (apply c s (.removePart t p)) t p := by
  simp only [SelNamed, apply, hc, Bool.false_eq_true, ↓reduceIte]
  split
  · split <;> simp
  · rename_i hw
    simp only [List.mem_filter]
    intro h
    rcases h with h | h
    · exact hw (by simpa using h.1)
    · simpa using h.2

/-- named mode: after PurgeTopicsFromConsuming no partition of the topic is selected -/
theorem unselected_after_purge {c : Cfg} (hc : c.regex = false) (s : St) (t p : Nat) :
    ¬ SelNamed (apply c s (.purged t)) t p := by
  simp [SelNamed, apply, hc]

/-! ### regex mode: purged topics -/

/-- regex mode: a purged topic stays out (waiting for re-discovery, or gone) until a refresh -/
theorem out_preserved {c : Cfg} (hc : c.regex = true) {s : St} {t g : Nat} (ho : t ∈ s.waiting ∨ (t, g) ∈ s.gone)
    (ev : Ev) (hev : ev ≠ .refresh) : t ∈ (apply c s ev).waiting ∨ (t, g) ∈ (apply c s ev).gone := by
  cases ev with
  | refresh => exact absurd rfl hev
  | purged t' =>
    simp only [apply, hc, ↓reduceIte]
    split
    · exact ho
    · split
      · exact ho.imp (List.mem_cons_of_mem _) id
      · exact ho.imp id (List.mem_cons_of_mem _)
  | addTopic _ => simpa [apply, hc] using ho
  | addPart _ _ => simpa [apply, hc] using ho
  | removePart _ _ => simpa [apply, hc] using ho
  | _ => exact ho

theorem out_preserved_list {c : Cfg} (hc : c.regex = true) {t g : Nat} (h : List Ev) :
    ∀ {s : St}, (t ∈ s.waiting ∨ (t, g) ∈ s.gone) → (∀ e ∈ h, e ≠ .refresh) →
      t ∈ (h.foldl (apply c) s).waiting ∨ (t, g) ∈ (h.foldl (apply c) s).gone := by
  induction h with
  | nil => intro s ho _; exact ho
  | cons e es ih =>
    intro s ho hall
    simp only [List.foldl_cons]
    exact ih (out_preserved hc ho e (hall e List.mem_cons_self)) (fun e' he' => hall e' (List.mem_cons_of_mem _ he'))

/-- regex mode: an incarnation that is gone stays gone under every event (also under the re-creation of the topic) -/
theorem gone_preserved {c : Cfg} (hc : c.regex = true) {s : St} {t g : Nat} (hg : (t, g) ∈ s.gone) (ev : Ev) :
    (t, g) ∈ (apply c s ev).gone := by
  cases ev with
  | refresh => simp only [apply]; exact List.mem_append_right _ hg
  | purged t' =>
    simp only [apply, hc, ↓reduceIte]
    split
    · exact hg
    · split
      · exact hg
      · exact List.mem_cons_of_mem _ hg
  | addTopic _ => simpa [apply, hc] using hg
  | addPart _ _ => simpa [apply, hc] using hg
  | removePart _ _ => simpa [apply, hc] using hg
  | _ => exact hg

theorem gone_preserved_list {c : Cfg} (hc : c.regex = true) {t g : Nat} (h : List Ev) :
    ∀ {s : St}, (t, g) ∈ s.gone → (t, g) ∈ (h.foldl (apply c) s).gone := by
  induction h with
  | nil => intro s hg; exact hg
  | cons e es ih => intro s hg; simp only [List.foldl_cons]; exact ih (gone_preserved hc hg e)

/-! ### produced / returned records of a history -/

def prodEv : Ev → Option (Nat × Nat × Nat × Nat × Nat)
  | .produced id t g p off => some (id, t, g, p, off) | _ => none
def retEv : Ev → Option (Nat × Nat × Nat × Nat × Nat)
  | .returned t g p off id => some (t, g, p, off, id) | _ => none
/-- acknowledged records `(id, topic, incarnation, partition, offset)` -/
def producedOf (h : List Ev) := h.filterMap prodEv
/-- returned records `(topic, incarnation, partition, offset, id)` -/
def returnedOf (h : List Ev) := h.filterMap retEv
def incEv : Ev → Bool
  | .incomplete => true | _ => false
/-- a producer or admin step of the scenario failed -/
def isIncomplete (h : List Ev) : Bool := h.any incEv

theorem apply_prod (c : Cfg) (s : St) (ev : Ev) : (apply c s ev).prod = s.prod ++ (prodEv ev).toList := by
  cases ev <;> simp only [apply, prodEv, Option.toList, List.append_nil] <;> (repeat' split) <;> rfl
theorem apply_ret (c : Cfg) (s : St) (ev : Ev) : (apply c s ev).ret = s.ret ++ (retEv ev).toList := by
  cases ev <;> simp only [apply, retEv, Option.toList, List.append_nil] <;> (repeat' split) <;> rfl
theorem apply_incomplete (c : Cfg) (s : St) (ev : Ev) : (apply c s ev).incomplete = (s.incomplete || incEv ev) := by
  cases ev <;> simp only [apply, incEv, Bool.or_false, Bool.or_true] <;> (repeat' split) <;> rfl

theorem foldl_prod (c : Cfg) (h : List Ev) : ∀ s : St, (h.foldl (apply c) s).prod = s.prod ++ h.filterMap prodEv := by
  induction h with
  | nil => intro s; simp
  | cons e es ih =>
    intro s
    simp only [List.foldl_cons, ih, apply_prod, List.filterMap_cons]
    cases prodEv e <;> simp
theorem foldl_ret (c : Cfg) (h : List Ev) : ∀ s : St, (h.foldl (apply c) s).ret = s.ret ++ h.filterMap retEv := by
  induction h with
  | nil => intro s; simp
  | cons e es ih =>
    intro s
    simp only [List.foldl_cons, ih, apply_ret, List.filterMap_cons]
    cases retEv e <;> simp
theorem foldl_incomplete (c : Cfg) (h : List Ev) : ∀ s : St, (h.foldl (apply c) s).incomplete = (s.incomplete || h.any incEv) := by
  induction h with
  | nil => intro s; simp
  | cons e es ih =>
    intro s
    simp only [List.foldl_cons, ih, apply_incomplete, List.any_cons, Bool.or_assoc]

theorem replay_prod (c : Cfg) (h : List Ev) : (replay c h).prod = producedOf h := by
  simp [replay, foldl_prod, producedOf]
theorem replay_ret (c : Cfg) (h : List Ev) : (replay c h).ret = returnedOf h := by
  simp [replay, foldl_ret, returnedOf]
theorem replay_incomplete (c : Cfg) (h : List Ev) : (replay c h).incomplete = isIncomplete h := by
  simp [replay, foldl_incomplete, isIncomplete]

theorem mem_producedOf {h : List Ev} {id t g p off : Nat} : (id, t, g, p, off) ∈ producedOf h ↔ Ev.produced id t g p off ∈ h := by
  simp only [producedOf, List.mem_filterMap]
  constructor
  · rintro ⟨e, he, hp⟩
    cases e <;> simp [prodEv] at hp
    obtain ⟨rfl, rfl, rfl, rfl, rfl⟩ := hp
    exact he
  · intro he; exact ⟨_, he, rfl⟩

theorem mem_returnedOf {h : List Ev} {t g p off id : Nat} : (t, g, p, off, id) ∈ returnedOf h ↔ Ev.returned t g p off id ∈ h := by
  simp only [returnedOf, List.mem_filterMap]
  constructor
  · rintro ⟨e, he, hp⟩
    cases e <;> simp [retEv] at hp
    obtain ⟨rfl, rfl, rfl, rfl, rfl⟩ := hp
    exact he
  · intro he; exact ⟨_, he, rfl⟩

end Proof.Select
