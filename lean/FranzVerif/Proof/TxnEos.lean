import FranzVerif.Model.Txn
import FranzVerif.Proof.Txn
/-! Helper lemmas for the exactly-once pipeline monitor `Model.Eos` (C10): `run` on a concatenation, what an
accepted event tells, the invariant `Inv h s` relating the state reached by `run` to the history-level
observables (inputs and output ids are the reversed observables; every stored batch is a `batch` event of the
history; output ids are unique, are inputs, and lie in the batch of the transaction that wrote them). -/
namespace Proof.Eos
open Model.Eos

/-! ### `run` on a concatenation -/

theorem step_eq_some {s s' : St} {ev : Ev} (hs : step s ev = some s') : check s ev = none ∧ s' = apply s ev := by
  unfold step at hs
  split at hs
  · simp at hs; exact ⟨by assumption, hs.symm⟩
  · simp at hs

theorem run_cons {s s' : St} {e : Ev} {es : List Ev} (hr : run s (e :: es) = some s') :
    check s e = none ∧ run (apply s e) es = some s' := by
  simp only [run] at hr
  cases hs : step s e with
  | none => simp [hs] at hr
  | some s1 =>
    simp only [hs] at hr
    obtain ⟨hchk, rfl⟩ := step_eq_some hs
    exact ⟨hchk, hr⟩

theorem run_append (s : St) (h₁ h₂ : List Ev) : run s (h₁ ++ h₂) = (run s h₁).bind (fun s' => run s' h₂) := by
  induction h₁ generalizing s with
  | nil => rfl
  | cons e es ih =>
    simp only [List.cons_append, run]
    cases step s e with
    | none => rfl
    | some s' => exact ih s'

theorem run_split {s₀ : St} {h₁ h₂ : List Ev} {ev : Ev} {s : St} (hacc : run s₀ (h₁ ++ ev :: h₂) = some s) :
    ∃ s₁, run s₀ h₁ = some s₁ ∧ check s₁ ev = none ∧ run (apply s₁ ev) h₂ = some s := by
  rw [run_append] at hacc
  cases h1 : run s₀ h₁ with
  | none => simp [h1] at hacc
  | some s₁ =>
    simp only [h1, Option.bind_some] at hacc
    obtain ⟨hchk, hr⟩ := run_cons hacc
    exact ⟨s₁, rfl, hchk, hr⟩

theorem run_snoc {s₀ : St} {h : List Ev} {ev : Ev} {s : St} (hacc : run s₀ (h ++ [ev]) = some s) :
    ∃ s₁, run s₀ h = some s₁ ∧ check s₁ ev = none := by
  obtain ⟨s₁, h1, h2, _⟩ := run_split hacc
  exact ⟨s₁, h1, h2⟩

/-! ### what an accepted event tells -/

theorem output_check {s : St} {off part t : Nat} {id : Id} (h : check s (.output off id part t) = none) :
    id ∈ s.inputs ∧ (∀ o ∈ s.outs, o.1 ≠ id) ∧ ∃ ids, (t, ids) ∈ s.batches ∧ id ∈ ids := by
  simp only [check] at h
  split at h
  · cases h
  · rename_i h1
    split at h
    · cases h
    · rename_i h2
      split at h
      · cases h
      · rename_i t' ids hf
        split at h
        · cases h
        · rename_i h3
          refine ⟨by simpa using h1, ?_, ids, ?_, by simpa using h3⟩
          · intro o ho he
            apply h2
            rw [List.any_eq_true]
            exact ⟨o, ho, by simpa using he⟩
          · have hm := List.mem_of_find?_eq_some hf
            have hk := List.find?_some hf
            simp only [beq_iff_eq] at hk
            subst hk
            exact hm

theorem quiesce_check {s : St} (h : check s .quiesce = none) (hinc : s.incomplete = false) :
    ∀ i ∈ s.inputs, ∃ o ∈ s.outs, o.1 = i := by
  simp only [check, hinc, Bool.false_eq_true, if_false] at h
  split at h
  · cases h
  · rename_i hn
    intro i hi
    false_or_by_contra
    rename_i hcon
    apply hn
    rw [List.any_eq_true]
    refine ⟨i, hi, ?_⟩
    simp only [Bool.not_eq_true', List.any_eq_false, beq_iff_eq]
    intro o ho he
    exact hcon ⟨o, ho, he⟩

/-! ### the invariant -/

theorem isIncomplete_snoc (h : List Ev) (ev : Ev) : isIncomplete (h ++ [ev]) = (isIncomplete h || ev == .incomplete) := by
  simp [isIncomplete]

structure Inv (h : List Ev) (s : St) : Prop where
  inputs : s.inputs = (inputsOf h).reverse
  outs : s.outs.map (·.1) = (outputIds h).reverse
  incomplete : s.incomplete = isIncomplete h
  batches : ∀ b ∈ s.batches, ∃ m, Ev.batch m b.1 b.2 ∈ h
  outNodup : (outputIds h).Nodup
  outIn : ∀ id ∈ outputIds h, id ∈ inputsOf h
  outBatch : ∀ off id part t, Ev.output off id part t ∈ h → ∃ m ids, Ev.batch m t ids ∈ h ∧ id ∈ ids

theorem Inv.init : Inv [] {} := by
  constructor <;> simp [inputsOf, outputIds, isIncomplete]

/-- an event that changes none of the tracked fields and none of the observables, and is not an `output` -/
theorem Inv.frame {h : List Ev} {ev : Ev} {s s' : St} (hi : Inv h s)
    (e1 : s'.inputs = s.inputs) (e2 : s'.outs = s.outs) (e3 : s'.incomplete = s.incomplete)
    (e4 : s'.batches = s.batches)
    (o1 : inputsOf (h ++ [ev]) = inputsOf h) (o2 : outputIds (h ++ [ev]) = outputIds h)
    (o3 : isIncomplete (h ++ [ev]) = isIncomplete h) (o4 : ∀ off id part t, ev ≠ .output off id part t) :
    Inv (h ++ [ev]) s' := by
  constructor
  · rw [e1, o1]; exact hi.inputs
  · rw [e2, o2]; exact hi.outs
  · rw [e3, o3]; exact hi.incomplete
  · rw [e4]
    intro b hb
    obtain ⟨m, hm⟩ := hi.batches b hb
    exact ⟨m, List.mem_append_left _ hm⟩
  · rw [o2]; exact hi.outNodup
  · rw [o1, o2]; exact hi.outIn
  · intro off id part t hm
    rcases List.mem_append.1 hm with hm | hm
    · obtain ⟨m, ids, h1, h2⟩ := hi.outBatch off id part t hm
      exact ⟨m, ids, List.mem_append_left _ h1, h2⟩
    · exact absurd (List.mem_singleton.1 hm).symm (o4 off id part t)

theorem Inv.step {h : List Ev} {s : St} (hi : Inv h s) (ev : Ev) (hchk : check s ev = none) :
    Inv (h ++ [ev]) (apply s ev) := by
  cases ev with
  | memberStart m =>
    exact hi.frame rfl rfl rfl rfl (by simp [inputsOf]) (by simp [outputIds]) (by simp [isIncomplete_snoc]) (by simp)
  | memberStop m =>
    exact hi.frame rfl rfl rfl rfl (by simp [inputsOf]) (by simp [outputIds]) (by simp [isIncomplete_snoc]) (by simp)
  | endStart m t c =>
    exact hi.frame rfl rfl rfl rfl (by simp [inputsOf]) (by simp [outputIds]) (by simp [isIncomplete_snoc]) (by simp)
  | endDone m t r =>
    exact hi.frame rfl rfl rfl rfl (by simp [inputsOf]) (by simp [outputIds]) (by simp [isIncomplete_snoc]) (by simp)
  | quiesce =>
    exact hi.frame rfl rfl rfl rfl (by simp [inputsOf]) (by simp [outputIds]) (by simp [isIncomplete_snoc]) (by simp)
  | incomplete =>
    have o1 : inputsOf (h ++ [Ev.incomplete]) = inputsOf h := by simp [inputsOf]
    have o2 : outputIds (h ++ [Ev.incomplete]) = outputIds h := by simp [outputIds]
    constructor
    · rw [o1]; exact hi.inputs
    · rw [o2]; exact hi.outs
    · simp [isIncomplete_snoc, apply]
    · intro b hb
      obtain ⟨m, hm⟩ := hi.batches b hb
      exact ⟨m, List.mem_append_left _ hm⟩
    · rw [o2]; exact hi.outNodup
    · rw [o1, o2]; exact hi.outIn
    · intro off id part t hm
      rcases List.mem_append.1 hm with hm | hm
      · obtain ⟨m, ids, h1, h2⟩ := hi.outBatch off id part t hm
        exact ⟨m, ids, List.mem_append_left _ h1, h2⟩
      · simp at hm
  | input i =>
    have o1 : inputsOf (h ++ [Ev.input i]) = inputsOf h ++ [i] := by simp [inputsOf]
    have o2 : outputIds (h ++ [Ev.input i]) = outputIds h := by simp [outputIds]
    constructor
    · simp [apply, o1, hi.inputs]
    · rw [o2]; exact hi.outs
    · rw [show isIncomplete (h ++ [Ev.input i]) = isIncomplete h by simp [isIncomplete_snoc]]; exact hi.incomplete
    · intro b hb
      obtain ⟨m, hm⟩ := hi.batches b hb
      exact ⟨m, List.mem_append_left _ hm⟩
    · rw [o2]; exact hi.outNodup
    · rw [o1, o2]
      intro id hid
      exact List.mem_append_left _ (hi.outIn id hid)
    · intro off id part t hm
      rcases List.mem_append.1 hm with hm | hm
      · obtain ⟨m, ids, h1, h2⟩ := hi.outBatch off id part t hm
        exact ⟨m, ids, List.mem_append_left _ h1, h2⟩
      · simp at hm
  | batch m t ids =>
    have o1 : inputsOf (h ++ [Ev.batch m t ids]) = inputsOf h := by simp [inputsOf]
    have o2 : outputIds (h ++ [Ev.batch m t ids]) = outputIds h := by simp [outputIds]
    constructor
    · rw [o1]; exact hi.inputs
    · rw [o2]; exact hi.outs
    · rw [show isIncomplete (h ++ [Ev.batch m t ids]) = isIncomplete h by simp [isIncomplete_snoc]]
      exact hi.incomplete
    · intro b hb
      simp only [apply] at hb
      rcases List.mem_cons.1 hb with rfl | hb
      · exact ⟨m, List.mem_append_right _ (List.mem_singleton.2 rfl)⟩
      · obtain ⟨m', hm'⟩ := hi.batches b hb
        exact ⟨m', List.mem_append_left _ hm'⟩
    · rw [o2]; exact hi.outNodup
    · rw [o1, o2]; exact hi.outIn
    · intro off id part t' hm
      rcases List.mem_append.1 hm with hm | hm
      · obtain ⟨m', ids', h1, h2⟩ := hi.outBatch off id part t' hm
        exact ⟨m', ids', List.mem_append_left _ h1, h2⟩
      · simp at hm
  | output off id part t =>
    have o1 : inputsOf (h ++ [Ev.output off id part t]) = inputsOf h := by simp [inputsOf]
    have o2 : outputIds (h ++ [Ev.output off id part t]) = outputIds h ++ [id] := by simp [outputIds]
    obtain ⟨hin, hfresh, ids, hb, hid⟩ := output_check hchk
    have hnot : id ∉ outputIds h := by
      intro hm
      have : id ∈ s.outs.map (·.1) := by rw [hi.outs]; exact List.mem_reverse.2 hm
      obtain ⟨o, ho, he⟩ := List.mem_map.1 this
      exact hfresh o ho he
    constructor
    · rw [o1]; exact hi.inputs
    · simp [apply, o2, hi.outs]
    · rw [show isIncomplete (h ++ [Ev.output off id part t]) = isIncomplete h by simp [isIncomplete_snoc]]
      exact hi.incomplete
    · intro b hb
      obtain ⟨m, hm⟩ := hi.batches b hb
      exact ⟨m, List.mem_append_left _ hm⟩
    · rw [o2, List.nodup_append]
      refine ⟨hi.outNodup, by simp, ?_⟩
      intro a ha b hb
      simp only [List.mem_singleton] at hb
      subst hb
      intro he
      subst he
      exact hnot ha
    · rw [o1, o2]
      intro i hm
      rcases List.mem_append.1 hm with hm | hm
      · exact hi.outIn i hm
      · simp only [List.mem_singleton] at hm
        subst hm
        rw [hi.inputs] at hin
        exact List.mem_reverse.1 hin
    · intro off' id' part' t' hm
      rcases List.mem_append.1 hm with hm | hm
      · obtain ⟨m, ids', h1, h2⟩ := hi.outBatch off' id' part' t' hm
        exact ⟨m, ids', List.mem_append_left _ h1, h2⟩
      · have he := List.mem_singleton.1 hm
        simp only [Ev.output.injEq] at he
        obtain ⟨rfl, rfl, rfl, rfl⟩ := he
        obtain ⟨m, hm'⟩ := hi.batches (t', ids) hb
        exact ⟨m, ids, List.mem_append_left _ hm', hid⟩

theorem Inv.run {h₁ : List Ev} {s s' : St} (hi : Inv h₁ s) (h₂ : List Ev) (hr : Model.Eos.run s h₂ = some s') :
    Inv (h₁ ++ h₂) s' := by
  induction h₂ generalizing h₁ s with
  | nil => simp [Model.Eos.run] at hr; subst hr; simpa using hi
  | cons e es ih =>
    obtain ⟨hchk, hr'⟩ := run_cons hr
    have := ih (hi.step e hchk) hr'
    simpa using this

theorem inv_of_run {h : List Ev} {s : St} (hr : run {} h = some s) : Inv h s := by
  simpa using Inv.init.run h hr

end Proof.Eos
