import FranzVerif.Model.C21
/-! C21 — helper lemmas (core Lean only). -/
namespace Proof.C21
open Model.C21 Model.C21.Spec

/-- Prop form of the Spec's `allowed`. -/
def Allowed (b : Bounds) (v : Int) : Prop := allowed b v = true

/-- `v` is the highest allowed version (over all integers, not only the scanned range). -/
def IsMax (b : Bounds) (v : Int) : Prop := Allowed b v ∧ ∀ w, Allowed b w → w ≤ v

theorem allowed_range (b : Bounds) (v : Int) (h : Allowed b v) : 0 ≤ v ∧ v ≤ b.cmax := by
  unfold Allowed allowed at h
  simp only [Bool.and_eq_true, decide_eq_true_eq] at h
  omega

theorem mem_candidates (b : Bounds) (w : Int) : w ∈ candidates b ↔ 0 ≤ w ∧ w ≤ b.cmax := by
  unfold candidates
  simp only [List.mem_map, List.mem_range]
  constructor
  · rintro ⟨n, hn, rfl⟩
    omega
  · intro ⟨h0, h1⟩
    exact ⟨w.toNat, by omega, by omega⟩

/-- The scan of `isHighest` decides `IsMax`. -/
theorem isHighest_iff (b : Bounds) (v : Int) : isHighest b v = true ↔ IsMax b v := by
  unfold isHighest IsMax
  simp only [Bool.and_eq_true, List.all_eq_true, Bool.or_eq_true, Bool.not_eq_true', decide_eq_true_eq]
  constructor
  · intro ⟨ha, hall⟩
    refine ⟨ha, fun w hw => ?_⟩
    have hm := (mem_candidates b w).2 (allowed_range b w hw)
    rcases hall w hm with h | h
    · rw [hw] at h; cases h
    · exact h
  · intro ⟨ha, hmax⟩
    refine ⟨ha, fun w _ => ?_⟩
    cases hw : allowed b w
    · exact Or.inl rfl
    · exact Or.inr (hmax w hw)

/-- The scan of `noneAllowed` decides emptiness. -/
theorem noneAllowed_iff (b : Bounds) : noneAllowed b = true ↔ ∀ w, ¬ Allowed b w := by
  unfold noneAllowed
  simp only [List.all_eq_true, Bool.not_eq_true']
  constructor
  · intro hall w hw
    have := hall w ((mem_candidates b w).2 (allowed_range b w hw))
    rw [hw] at this; cases this
  · intro h w _
    cases hw : allowed b w
    · rfl
    · exact absurd hw (h w)

theorem isMax_unique (b : Bounds) (v v' : Int) (h : IsMax b v) (h' : IsMax b v') : v = v' := by
  have := h.2 v' h'.1
  have := h'.2 v h.1
  omega

/-! association-list facts -/

theorem find_load_aux (resp : List ApiKey) (acc : BrokerVersions) (k : Int) :
    BrokerVersions.find (resp.foldl (fun m e => e :: m.filter (fun x => x.key != e.key)) acc) k
      = match (resp.reverse.find? (fun e => e.key == k)) with
        | some e => some e
        | none => BrokerVersions.find acc k := by
  induction resp generalizing acc with
  | nil => simp
  | cons e es ih =>
    simp only [List.foldl_cons, List.reverse_cons, List.find?_append]
    rw [ih]
    cases hf : List.find? (fun e => e.key == k) es.reverse with
    | some x => simp
    | none =>
      simp only [Option.none_or, List.find?_cons, List.find?_nil]
      unfold BrokerVersions.find
      by_cases hk : e.key = k
      · simp [hk]
      · have hk' : (e.key == k) = false := by simpa using hk
        simp only [List.find?_cons, hk']
        rw [List.find?_filter]
        congr 1
        funext x
        by_cases hx : x.key = k
        · have : ¬ k = e.key := fun h => hk h.symm
          simp [hx, this]
        · simp [hx]

/-- `load` keeps, per key, the last element of the response with that key. -/
theorem find_load (resp : List ApiKey) (k : Int) :
    BrokerVersions.find (load resp) k = resp.reverse.find? (fun e => e.key == k) := by
  unfold load
  rw [find_load_aux]
  cases List.find? (fun e => e.key == k) resp.reverse <;> simp [BrokerVersions.find]

theorem find_of_inj (l : List ApiKey) (e : ApiKey) (hinj : ∀ x ∈ l, x.key = e.key → x = e) (he : e ∈ l) :
    l.find? (fun x => x.key == e.key) = some e := by
  induction l with
  | nil => cases he
  | cons x xs ih =>
    by_cases hx : x.key = e.key
    · have := hinj x (List.mem_cons_self) hx
      subst this
      simp
    · have hx' : (x.key == e.key) = false := by simpa using hx
      simp only [List.find?_cons, hx']
      rcases List.mem_cons.1 he with rfl | hmem
      · exact absurd rfl hx
      · exact ih (fun y hy => hinj y (List.mem_cons_of_mem _ hy)) hmem

theorem inj_of_nodup (l : List ApiKey) (hnd : (l.map (·.key)).Nodup) :
    ∀ x ∈ l, ∀ y ∈ l, x.key = y.key → x = y := by
  induction l with
  | nil => intro x hx; cases hx
  | cons a as ih =>
    simp only [List.map_cons, List.nodup_cons] at hnd
    intro x hx y hy hk
    rcases List.mem_cons.1 hx with rfl | hx' <;> rcases List.mem_cons.1 hy with rfl | hy'
    · rfl
    · exact absurd (hk ▸ List.mem_map_of_mem hy') hnd.1
    · exact absurd (hk ▸ List.mem_map_of_mem hx') hnd.1
    · exact ih hnd.2 x hx' y hy' hk

/-! ### the clamp against the Spec, on the scalars -/

theorem capO_le (o : Option Int) (m w : Int) : w ≤ capO o m ↔ w ≤ m ∧ ∀ a, o = some a → w ≤ a := by
  unfold capO
  cases o with
  | none => simp
  | some x => simp only [Option.some.injEq, forall_eq']; split <;> omega

theorem floorO_le (o : Option Int) (m w : Int) : floorO o m ≤ w ↔ m ≤ w ∧ ∀ a, o = some a → a ≤ w := by
  unfold floorO
  cases o with
  | none => simp
  | some x => simp only [Option.some.injEq, forall_eq']; split <;> omega

theorem atMost_iff (o : Option Int) (v : Int) : atMost o v = true ↔ ∀ a, o = some a → v ≤ a := by
  cases o <;> simp [atMost]
theorem atLeast_iff (o : Option Int) (v : Int) : atLeast o v = true ↔ ∀ a, o = some a → a ≤ v := by
  cases o <;> simp [atLeast]

/-- how the scalars read by the clamp relate to what the broker told the client -/
def BrokerRel (br : Broker) (b0 bmax bmin : Int) : Prop :=
  match br with
  | .noApi => b0 = -1 ∧ bmax = -1 ∧ bmin = -1
  | .missing => bmax = -1 ∧ bmin = -1
  | .range lo hi => bmax = hi ∧ bmin = lo

/-- Lookup results as `LookupMaxKeyVersion` produces them: `(-1, false)` or `(v, true)`. -/
def LookupShape (l : Option (Int × Bool)) : Prop := ∀ x, l = some x → x.2 = false → x.1 = -1

theorem inBroker_iff (br : Broker) (b0 bmax bmin w : Int) (hrel : BrokerRel br b0 bmax bmin)
    (hpk : br = .noApi ∨ 0 ≤ b0 ∨ 0 ≤ bmax) (hnt : ¬ (b0 ≥ 0 ∧ bmax < 0)) (h0 : 0 ≤ w) :
    inBroker br w = true ↔ (∀ a, nonNegO bmax = some a → w ≤ a) ∧ (∀ a, nonNegO bmin = some a → a ≤ w) := by
  unfold nonNegO
  cases br with
  | noApi => simp [BrokerRel] at hrel; simp [inBroker, hrel]
  | missing =>
    simp [BrokerRel] at hrel
    simp [hrel] at hpk hnt
    omega
  | range lo hi =>
    simp [BrokerRel] at hrel
    obtain ⟨rfl, rfl⟩ := hrel
    simp only [inBroker, Bool.and_eq_true, decide_eq_true_eq]
    have : 0 ≤ bmax := by
      rcases hpk with h | h | h
      · cases h
      · omega
      · exact h
    simp [this]
    by_cases hb : 0 ≤ bmin <;> simp [hb] <;> omega


theorem underUser_iff (umax : Option (Int × Bool)) (w : Int) :
    underUser (specUserL umax) w = true ↔ unknownKey umax = false ∧ ∀ a, umax.map (·.1) = some a → w ≤ a := by
  rcases umax with _ | ⟨x, b⟩
  · simp [underUser, specUserL, unknownKey]
  · cases b <;> simp [underUser, specUserL, unknownKey]

theorem overUser_iff (umin : Option (Int × Bool)) (w : Int) (hs : LookupShape umin) (h0 : 0 ≤ w) :
    overUser (specUserL umin) w = true ↔ ∀ a, umin.map (·.1) = some a → a ≤ w := by
  rcases umin with _ | ⟨x, b⟩
  · simp [overUser, specUserL]
  · cases b
    · have := hs (x, false) rfl rfl
      simp at this
      simp [overUser, specUserL, this]; omega
    · simp [overUser, specUserL]

/-- `ourMax` after the three caps -/
def hiOf (cmax : Int) (pin : Option Pin) (bmax : Int) (umax : Option (Int × Bool)) : Int :=
  capO (umax.map (·.1)) (capO (nonNegO bmax) (capO (pinMaxO pin) cmax))
/-- `ourMin` before the user-min block -/
def loOf (pin : Option Pin) (bmin : Int) : Int :=
  floorO (nonNegO bmin) (match pinMinO pin with | some m => m | none => -1)

theorem pinMin_le (pin : Option Pin) (w : Int) (h0 : 0 ≤ w) :
    (match pinMinO pin with | some m => m | none => -1) ≤ w ↔ ∀ a, pinMinO pin = some a → a ≤ w := by
  cases pinMinO pin <;> simp <;> omega

/-- Under the hypotheses of the partial theorem, "allowed" is an interval `[max 0 lo, hi]`. -/
theorem allowed_iff (cmax : Int) (pin : Option Pin) (b0 bmax bmin : Int) (umax umin : Option (Int × Bool)) (br : Broker) (w : Int)
    (hrel : BrokerRel br b0 bmax bmin) (hpk : br = .noApi ∨ 0 ≤ b0 ∨ 0 ≤ bmax) (hnt : ¬ (b0 ≥ 0 ∧ bmax < 0))
    (hunk : unknownKey umax = false) (hs : LookupShape umin) :
    Allowed (coreBounds cmax pin br umax umin) w ↔
      0 ≤ w ∧ w ≤ hiOf cmax pin bmax umax ∧ floorO (umin.map (·.1)) (loOf pin bmin) ≤ w := by
  unfold Allowed allowed coreBounds hiOf loOf
  simp only [Bool.and_eq_true, decide_eq_true_eq]
  by_cases h0 : 0 ≤ w
  · rw [atMost_iff, atLeast_iff, inBroker_iff br b0 bmax bmin w hrel hpk hnt h0, underUser_iff, overUser_iff umin w hs h0,
      capO_le, capO_le, capO_le, floorO_le, floorO_le, pinMin_le pin w h0]
    simp only [hunk, true_and]
    constructor
    · intro ⟨⟨⟨⟨⟨⟨_, h2⟩, h3⟩, h4⟩, h5, h6⟩, h7⟩, h8⟩
      exact ⟨h0, ⟨⟨⟨h2, h3⟩, h5⟩, h7⟩, ⟨h4, h6⟩, h8⟩
    · intro ⟨_, ⟨⟨⟨h2, h3⟩, h5⟩, h7⟩, ⟨h4, h6⟩, h8⟩
      exact ⟨⟨⟨⟨⟨⟨h0, h2⟩, h3⟩, h4⟩, h5, h6⟩, h7⟩, h8⟩
  · constructor
    · intro h; exact absurd h.1.1.1.1.1.1 h0
    · intro h; exact absurd h.1 h0

theorem hiOf_nonneg (cmax : Int) (pin : Option Pin) (bmax : Int) (umax : Option (Int × Bool))
    (hc : 0 ≤ cmax) (hpin : ∀ a, pinMaxO pin = some a → 0 ≤ a) (hum : ∀ a, umax.map (·.1) = some a → 0 ≤ a) :
    0 ≤ hiOf cmax pin bmax umax := by
  unfold hiOf
  rw [capO_le, capO_le, capO_le]
  refine ⟨⟨⟨hc, hpin⟩, ?_⟩, hum⟩
  intro a ha
  unfold nonNegO at ha
  split at ha
  · cases ha; omega
  · cases ha

/-- The clamp, once the two early returns are out of the way. -/
theorem clampCore_eq (cmax : Int) (pin : Option Pin) (b0 bmax bmin : Int) (umax umin : Option (Int × Bool))
    (hunk : unknownKey umax = false) (hnt : ¬ (b0 ≥ 0 ∧ bmax < 0)) :
    clampCore cmax pin b0 bmax bmin umax umin =
      match umin with
      | some l =>
        if l.1 > hiOf cmax pin bmax umax then .userMinError (hiOf cmax pin bmax umax) l.1
        else if floorO (some l.1) (loOf pin bmin) > -1 ∧ floorO (some l.1) (loOf pin bmin) > hiOf cmax pin bmax umax
          then .errBrokerTooOld else .ok (hiOf cmax pin bmax umax)
      | none =>
        if loOf pin bmin > -1 ∧ loOf pin bmin > hiOf cmax pin bmax umax then .errBrokerTooOld
        else .ok (hiOf cmax pin bmax umax) := by
  unfold clampCore
  rw [if_neg (by simp [hunk]), if_neg hnt]
  rfl

theorem umax_nonneg (umax : Option (Int × Bool)) (hunk : unknownKey umax = false)
    (hum : ∀ l, umax = some l → l.2 = true → 0 ≤ l.1) : ∀ a, umax.map (·.1) = some a → 0 ≤ a := by
  rcases umax with _ | ⟨x, b⟩
  · simp
  · cases b
    · simp [unknownKey] at hunk
    · intro a ha; simp at ha; subst ha; exact hum (x, true) rfl rfl

/-- Both directions at once: what the clamp returns against the set of allowed versions. -/
theorem core_spec (cmax : Int) (pin : Option Pin) (b0 bmax bmin : Int) (umax umin : Option (Int × Bool)) (br : Broker)
    (hc : 0 ≤ cmax) (hpin : ∀ a, pinMaxO pin = some a → 0 ≤ a)
    (hum : ∀ l, umax = some l → l.2 = true → 0 ≤ l.1) (hs : LookupShape umin)
    (hrel : BrokerRel br b0 bmax bmin) (hpk : br = .noApi ∨ 0 ≤ b0 ∨ 0 ≤ bmax) :
    (∀ v, clampCore cmax pin b0 bmax bmin umax umin = .ok v → IsMax (coreBounds cmax pin br umax umin) v) ∧
    ((clampCore cmax pin b0 bmax bmin umax umin).written = none → ∀ w, ¬ Allowed (coreBounds cmax pin br umax umin) w) := by
  by_cases hunk : unknownKey umax = true
  · -- errUnknownRequestKey: the user's MaxVersions does not have the key
    have hcl : clampCore cmax pin b0 bmax bmin umax umin = .errUnknownRequestKey := by
      unfold clampCore; rw [if_pos hunk]
    rw [hcl]
    refine ⟨fun v h => (by cases h), fun _ w hw => ?_⟩
    unfold Allowed allowed coreBounds at hw
    simp only [Bool.and_eq_true] at hw
    have := (underUser_iff umax w).1 hw.1.2
    rw [hunk] at this; cases this.1
  · have hunk : unknownKey umax = false := by simpa using hunk
    by_cases hnt : b0 ≥ 0 ∧ bmax < 0
    · -- errBrokerTooOld: a table is loaded (Produce key seen) and the key is not in it
      have hcl : clampCore cmax pin b0 bmax bmin umax umin = .errBrokerTooOld := by
        unfold clampCore; rw [if_neg (by simp [hunk]), if_pos hnt]
      rw [hcl]
      refine ⟨fun v h => (by cases h), fun _ w hw => ?_⟩
      have h0 := (allowed_range _ w hw).1
      unfold Allowed allowed coreBounds at hw
      simp only [Bool.and_eq_true] at hw
      have hb := hw.1.1.2
      cases br with
      | noApi => simp [BrokerRel] at hrel; omega
      | missing => simp [inBroker] at hb
      | range lo hi =>
        simp [BrokerRel] at hrel
        simp [inBroker] at hb
        omega
    · have hA := fun w => allowed_iff cmax pin b0 bmax bmin umax umin br w hrel hpk hnt hunk hs
      have hhi := hiOf_nonneg cmax pin bmax umax hc hpin (umax_nonneg umax hunk hum)
      rw [clampCore_eq cmax pin b0 bmax bmin umax umin hunk hnt]
      cases umin with
      | none =>
        simp only [Option.map_none, floorO] at hA
        by_cases hcond : loOf pin bmin > -1 ∧ loOf pin bmin > hiOf cmax pin bmax umax
        · simp only [if_pos hcond, Out.written]
          refine ⟨fun v h => (by cases h), fun _ w hw => ?_⟩
          have := (hA w).1 hw
          omega
        · simp only [if_neg hcond, Out.written]
          refine ⟨fun v h => ?_, fun h => by cases h⟩
          cases h
          have hmem : Allowed (coreBounds cmax pin br umax none) (hiOf cmax pin bmax umax) :=
            (hA _).2 ⟨hhi, Int.le_refl _, by omega⟩
          exact ⟨hmem, fun w hw => ((hA w).1 hw).2.1⟩
      | some l =>
        have hfl : ∀ w, floorO (Option.map (fun x => x.fst) (some l)) (loOf pin bmin) ≤ w ↔ floorO (some l.1) (loOf pin bmin) ≤ w := by
          intro w; simp
        simp only []
        by_cases h1 : l.1 > hiOf cmax pin bmax umax
        · simp only [if_pos h1, Out.written]
          refine ⟨fun v h => (by cases h), fun _ w hw => ?_⟩
          have hw' := (hA w).1 hw
          rw [hfl] at hw'
          have := ((floorO_le (some l.1) (loOf pin bmin) w).1 hw'.2.2).2 l.1 rfl
          omega
        · by_cases h2 : floorO (some l.1) (loOf pin bmin) > -1 ∧ floorO (some l.1) (loOf pin bmin) > hiOf cmax pin bmax umax
          · simp only [if_neg h1, if_pos h2, Out.written]
            refine ⟨fun v h => (by cases h), fun _ w hw => ?_⟩
            have hw' := (hA w).1 hw
            rw [hfl] at hw'
            omega
          · simp only [if_neg h1, if_neg h2, Out.written]
            refine ⟨fun v h => ?_, fun h => by cases h⟩
            cases h
            have hmem : Allowed (coreBounds cmax pin br umax (some l)) (hiOf cmax pin bmax umax) :=
              (hA _).2 ⟨hhi, Int.le_refl _, by rw [hfl]; omega⟩
            exact ⟨hmem, fun w hw => ((hA w).1 hw).2.1⟩

/-- A version the clamp lets through respects every bound the code consults (no hypothesis on the table). -/
theorem core_never_outside (cmax : Int) (pin : Option Pin) (b0 bmax bmin : Int) (umax umin : Option (Int × Bool)) (v : Int)
    (hc : 0 ≤ cmax) (hpin : ∀ a, pinMaxO pin = some a → 0 ≤ a)
    (hum : ∀ l, umax = some l → l.2 = true → 0 ≤ l.1)
    (h : clampCore cmax pin b0 bmax bmin umax umin = .ok v) :
    0 ≤ v ∧ v ≤ cmax ∧ (∀ a, pinMaxO pin = some a → v ≤ a) ∧ (∀ a, pinMinO pin = some a → a ≤ v)
    ∧ (∀ a, nonNegO bmax = some a → v ≤ a) ∧ (∀ a, nonNegO bmin = some a → a ≤ v)
    ∧ unknownKey umax = false ∧ (∀ a, umax.map (·.1) = some a → v ≤ a) ∧ (∀ a, umin.map (·.1) = some a → a ≤ v) := by
  by_cases hunk : unknownKey umax = true
  · unfold clampCore at h; rw [if_pos hunk] at h; cases h
  · have hunk : unknownKey umax = false := by simpa using hunk
    by_cases hnt : b0 ≥ 0 ∧ bmax < 0
    · unfold clampCore at h; rw [if_neg (by simp [hunk]), if_pos hnt] at h; cases h
    · rw [clampCore_eq cmax pin b0 bmax bmin umax umin hunk hnt] at h
      have hhi := hiOf_nonneg cmax pin bmax umax hc hpin (umax_nonneg umax hunk hum)
      have hup : hiOf cmax pin bmax umax ≤ hiOf cmax pin bmax umax := Int.le_refl _
      conv at hup => rhs; unfold hiOf
      rw [capO_le, capO_le, capO_le] at hup
      obtain ⟨⟨⟨u1, u2⟩, u3⟩, u4⟩ := hup
      cases umin with
      | none =>
        simp only at h
        by_cases hcond : loOf pin bmin > -1 ∧ loOf pin bmin > hiOf cmax pin bmax umax
        · rw [if_pos hcond] at h; cases h
        · rw [if_neg hcond] at h; cases h
          have hlo : loOf pin bmin ≤ hiOf cmax pin bmax umax := by omega
          unfold loOf at hlo
          rw [floorO_le, pinMin_le pin _ hhi] at hlo
          exact ⟨hhi, u1, u2, hlo.1, u3, hlo.2, hunk, u4, by simp⟩
      | some l =>
        simp only at h
        by_cases h1 : l.1 > hiOf cmax pin bmax umax
        · rw [if_pos h1] at h; cases h
        · rw [if_neg h1] at h
          by_cases h2 : floorO (some l.1) (loOf pin bmin) > -1 ∧ floorO (some l.1) (loOf pin bmin) > hiOf cmax pin bmax umax
          · rw [if_pos h2] at h; cases h
          · rw [if_neg h2] at h; cases h
            have hlo : floorO (some l.1) (loOf pin bmin) ≤ hiOf cmax pin bmax umax := by omega
            rw [floorO_le] at hlo
            obtain ⟨hlo1, hlo2⟩ := hlo
            unfold loOf at hlo1
            rw [floorO_le, pinMin_le pin _ hhi] at hlo1
            refine ⟨hhi, u1, u2, hlo1.1, u3, hlo1.2, hunk, u4, ?_⟩
            intro a ha
            simp at ha
            subst ha
            omega

/-! ### one broker object across its connections -/

/-- The key table of the most recent connect whose `init` succeeded in a client that issues ApiVersions
(events newest first): written from the events alone, it does not look at the stored cell. -/
def latestTable : List Ev → Option (List ApiKey)
  | [] => none
  | .connect resp :: rest => if resp.isEmpty then latestTable rest else some resp
  | .request _ :: rest => latestTable rest

theorem latestTable_append (a b : List Ev) :
    latestTable (a ++ b) = match latestTable a with | some t => some t | none => latestTable b := by
  induction a with
  | nil => simp [latestTable]
  | cons e es ih =>
    cases e with
    | connect resp =>
      simp only [List.cons_append, latestTable]
      split
      · exact ih
      · rfl
    | request r => simpa only [List.cons_append, latestTable] using ih

theorem runEvs_append (umax umin : Option Versions) (s : StoredV) (pre post : List Ev) :
    runEvs umax umin s (pre ++ post) = runEvs umax umin s pre ++ runEvs umax umin (storedAfter umax s pre) post := by
  induction pre generalizing s with
  | nil => rfl
  | cons e es ih => simp [runEvs, storedAfter, ih]

theorem storedAfter_append (umax : Option Versions) (s : StoredV) (pre post : List Ev) :
    storedAfter umax s (pre ++ post) = storedAfter umax (storedAfter umax s pre) post := by
  induction pre generalizing s with
  | nil => rfl
  | cons e es ih => simp [storedAfter, ih]

/-- In a client that issues ApiVersions the cell holds the table of the latest successful connect, whatever
it held before; without one it is unchanged. -/
theorem storedAfter_latest (umax : Option Versions) (hiss : issuesApiVersions umax = true) (s : StoredV) (pre : List Ev) :
    storedAfter umax s pre = match latestTable pre.reverse with | some t => some (load t) | none => s := by
  induction pre generalizing s with
  | nil => rfl
  | cons e es ih =>
    rw [storedAfter, ih, List.reverse_cons, latestTable_append]
    cases hl : latestTable es.reverse with
    | some t => rfl
    | none =>
      cases e with
      | connect resp =>
        simp only [latestTable, stepStored, initCxn, hiss, if_true]
        cases hre : resp.isEmpty <;> simp [storeVersions]
      | request r => simp [latestTable, stepStored]

/-- Once something is stored, something stays stored. -/
theorem stepStored_isSome (umax : Option Versions) (s : StoredV) (e : Ev) (h : s.isSome = true) :
    (stepStored umax s e).isSome = true := by
  cases e with
  | connect resp =>
    simp only [stepStored, initCxn, storeVersions]
    split
    · split <;> simp [h]
    · cases s with
      | none => cases h
      | some bv => simp
  | request r => exact h

theorem storedAfter_isSome (umax : Option Versions) (s : StoredV) (es : List Ev) (h : s.isSome = true) :
    (storedAfter umax s es).isSome = true := by
  induction es generalizing s with
  | nil => exact h
  | cons e es ih => exact ih _ (stepStored_isSome umax s e h)

/-- A connect whose `init` succeeded leaves something stored. -/
theorem initCxn_ok_isSome (umax : Option Versions) (s : StoredV) (resp : List ApiKey) (h : (initCxn umax s resp).2 = true) :
    (initCxn umax s resp).1.isSome = true := by
  unfold initCxn at h ⊢
  split
  · split
    · rename_i h1 h2; simp [h1, h2] at h
    · simp [storeVersions]
  · cases s <;> simp [storeVersions]

theorem latestAdv_cons_wrote (seen : List Obs) (k c : Int) (pM pm : Option Int) (um un : User) (v : Int) :
    latestAdv (.wrote k c pM pm um un v :: seen) = latestAdv seen := rfl
theorem latestAdv_cons_failed (seen : List Obs) (k c : Int) (pM pm : Option Int) (um un : User) :
    latestAdv (.failed k c pM pm um un :: seen) = latestAdv seen := rfl

/-- `traceOkFrom` over a concatenation. -/
theorem traceOkFrom_append (seen a b : List Obs) :
    traceOkFrom seen (a ++ b) = (traceOkFrom seen a && traceOkFrom (a.reverse ++ seen) b) := by
  induction a generalizing seen with
  | nil => simp [traceOkFrom]
  | cons o os ih => simp [traceOkFrom, ih, Bool.and_assoc]

/-- What the Spec reads from a key table is what the clamp finds in the loaded table. -/
theorem specBroker_load (t : List ApiKey) (k : Int) : specBroker (some (load t)) k = rangeIn t k := by
  simp only [specBroker, rangeIn, find_load]

end Proof.C21
