import FranzVerif.Proof.C16b
/-! Decoded values are in normal form (`canon v = v`): the ingredient of re-encode stability. -/
namespace Proof.C16
open Model.C15

theorem andThen_ok_inv {α β : Type} {x : Res α} {f : α → Bytes → Res β} {b : β} {r : Bytes}
    (h : x.andThen f = .ok b r) : ∃ a r0, x = .ok a r0 ∧ f a r0 = .ok b r := by
  cases x with
  | ok a r0 => exact ⟨a, r0, rfl, by simpa using h⟩
  | err s => cases h
  | panic m => cases h

theorem map_ok_inv {α β : Type} {x : Res α} {f : α → β} {b : β} {r : Bytes}
    (h : x.map f = .ok b r) : ∃ a, x = .ok a r ∧ f a = b := by
  cases x with
  | ok a r0 => simp only [Res.map_ok, Res.ok.injEq] at h; exact ⟨a, by rw [h.2], h.1⟩
  | err s => cases h
  | panic m => cases h

mutual
theorem Val.beq_eq : ∀ a b : Val, Val.beq a b = true → a = b
  | .int x, .int y, h => by simp [Val.beq] at h; rw [h]
  | .blob x, .blob y, h => by simp [Val.beq] at h; rw [h]
  | .null, .null, _ => rfl
  | .list x, .list y, h => by simp only [Val.beq] at h; rw [Vals.beq_eq x y h]
  | .stru x u, .stru y w, h => by
    simp only [Val.beq, Bool.and_eq_true, beq_iff_eq] at h
    rw [Vals.beq_eq x y h.1, h.2]
  | .int _, .blob _, h | .int _, .null, h | .int _, .list _, h | .int _, .stru _ _, h => by simp [Val.beq] at h
  | .blob _, .int _, h | .blob _, .null, h | .blob _, .list _, h | .blob _, .stru _ _, h => by simp [Val.beq] at h
  | .null, .int _, h | .null, .blob _, h | .null, .list _, h | .null, .stru _ _, h => by simp [Val.beq] at h
  | .list _, .int _, h | .list _, .blob _, h | .list _, .null, h | .list _, .stru _ _, h => by simp [Val.beq] at h
  | .stru _ _, .int _, h | .stru _ _, .blob _, h | .stru _ _, .null, h | .stru _ _, .list _, h => by simp [Val.beq] at h
theorem Vals.beq_eq : ∀ a b : Vals, Vals.beq a b = true → a = b
  | .nil, .nil, _ => rfl
  | .cons a r, .cons b s, h => by
    simp only [Vals.beq, Bool.and_eq_true] at h
    rw [Val.beq_eq a b h.1, Vals.beq_eq r s h.2]
  | .nil, .cons _ _, h => by simp [Vals.beq] at h
  | .cons _ _, .nil, h => by simp [Vals.beq] at h
end

mutual
theorem Val.beq_refl : ∀ a : Val, Val.beq a a = true
  | .int x => by simp [Val.beq]
  | .blob x => by simp [Val.beq]
  | .null => by simp [Val.beq]
  | .list x => by simp only [Val.beq]; exact Vals.beq_refl x
  | .stru x u => by simp only [Val.beq, Bool.and_eq_true, beq_self_eq_true, and_true]; exact Vals.beq_refl x
theorem Vals.beq_refl : ∀ a : Vals, Vals.beq a a = true
  | .nil => by simp [Vals.beq]
  | .cons a r => by simp only [Vals.beq, Bool.and_eq_true]; exact ⟨Val.beq_refl a, Vals.beq_refl r⟩
end

/-- tagged fields are never versioned-nullable arrays (their `if` in the generated encoder would drop an empty non-nil slice that
the decoder produces below the nullable version). Holds of the regenerated schema (Props/C16 `schema_tags_ok`). -/
def isNullableArr : Ty → Bool
  | .arr (.nullable _) _ => true
  | _ => false

mutual
def tagsOK : Ty → Bool
  | .prim _ => true
  | .str _ => true
  | .arr _ t => tagsOK t
  | .struct _ _ fs => tagsOKF fs
def tagsOKF : Fields → Bool
  | .nil => true
  | .cons _ _ _ tag _ t rest => (tag.isNone || !isNullableArr t) && tagsOK t && tagsOKF rest
end

/-! ### strings -/

theorem decStr_canon (ver : Int) (flex : Bool) (k : SKind) (src : Bytes) (v : Val) (r : Bytes)
    (h : decStr ver flex k src = .ok v r) : canonStr ver k v = v := by
  -- every branch yields `blob (some _)`, or `blob none` under an effective kind that keeps `none`
  have some_ok : ∀ b : Bytes, canonStr ver k (.blob (some b)) = .blob (some b) := fun b => by simp [canonStr]
  simp only [decStr] at h
  split at h
  all_goals (try split at h)
  all_goals
    obtain ⟨a, r0, _, h2⟩ := andThen_ok_inv h
    (try split at h2)
  all_goals first
    | (obtain ⟨b, _, rfl⟩ := map_ok_inv h2; exact some_ok b)
    | (cases h2; first | exact some_ok _ | simp [canonStr, *])

end Proof.C16
