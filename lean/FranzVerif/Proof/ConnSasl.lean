import FranzVerif.Proof.ConnInv
/-! Invariants of the connection monitor that concern SASL re-authentication (C22): which requests reached the wire,
which outcome times the monitor remembers, and where in the history a parked request became ready for its replay. -/
namespace Proof.Conn
open Model.Conn Model.C22Frame Proof.C22Frame

/-- ids of the requests the peer read off the wire, in order -/
def writtenIds (h : List Ev) : List Nat :=
  h.filterMap (fun e => match e with | .written w => some w.id | _ => none)

/-- (request, time) of an outcome event -/
def outOf : Ev → Option (Nat × Nat)
  | .ok i _ t => some (i, t)
  | .err i _ t => some (i, t)
  | _ => none

def isPark (i : Nat) : Ev → Bool
  | .park j _ => j == i
  | _ => false

structure SInv (h : List Ev) (s : St) : Prop where
  waiters : s.waiters.map (·.id) = writtenIds h
  outsMem : ∀ e ∈ h, ∀ i t, outOf e = some (i, t) → ∃ b, (i, b, t) ∈ s.outs
  parkedMem : ∀ i t, Ev.park i t ∈ h → i ∈ s.parked
  parkedSplit : ∀ i ∈ s.parked, ∃ h₁ tp h₂, h = h₁ ++ Ev.park i tp :: h₂ ∧ h₂.any (isPark i) = false
  ready : ∀ i c, (i, c) ∈ s.ready →
    ∃ h₁ h₂ h₃ tp n l t, h = h₁ ++ Ev.park i tp :: h₂ ++ Ev.authEnd c n l t :: h₃ ∧ h₃.any (isPark i) = false

theorem sinv_init : SInv [] ({} : St) :=
  ⟨rfl, by simp, by simp, by intro i hi; simp at hi, by intro i c hi; simp at hi⟩

/-- an event that is neither a parking, nor a completed authentication, nor a wire request, nor an outcome keeps the SASL bookkeeping -/
theorem sinv_step_other {h : List Ev} {s : St} {e : Ev} (hi : SInv h s)
    (hw : (apply s e).waiters = s.waiters) (ho : (apply s e).outs = s.outs) (hp : (apply s e).parked = s.parked)
    (hr : (apply s e).ready = s.ready) (hwi : writtenIds [e] = []) (hoo : outOf e = none) (hnp : ∀ i, isPark i e = false) :
    SInv (h ++ [e]) (apply s e) := by
  obtain ⟨w, om, pm, ps, rd⟩ := hi
  refine ⟨?_, ?_, ?_, ?_, ?_⟩
  · rw [hw, w]; simp only [writtenIds, List.filterMap_append] at hwi ⊢; rw [hwi]; simp
  · intro e' he' i t hoe
    rw [ho]
    rcases List.mem_append.1 he' with he' | he'
    · exact om e' he' i t hoe
    · simp only [List.mem_singleton] at he'; subst he'; rw [hoo] at hoe; simp at hoe
  · intro i t hm
    rw [hp]
    rcases List.mem_append.1 hm with hm | hm
    · exact pm i t hm
    · simp only [List.mem_singleton] at hm
      have := hnp i; rw [← hm] at this; simp [isPark] at this
  · intro i hi
    rw [hp] at hi
    obtain ⟨h₁, tp, h₂, rfl, hn⟩ := ps i hi
    exact ⟨h₁, tp, h₂ ++ [e], by simp, by simp [hn, hnp i]⟩
  · intro i c hi
    rw [hr] at hi
    obtain ⟨h₁, h₂, h₃, tp, n, l, t, rfl, hn⟩ := rd i c hi
    exact ⟨h₁, h₂, h₃ ++ [e], tp, n, l, t, by simp, by simp [hn, hnp i]⟩

theorem sinv_step {h : List Ev} {s : St} {e : Ev} (hi : SInv h s) (hc : check s e = none) : SInv (h ++ [e]) (apply s e) := by
  cases e with
  | cfg _ _ _ _ _ _ | issue _ _ | hsReq _ _ | hsFrame _ _ | frame _ | peerClose _ | never _ | cpu _ | quiesce | authBegin _ _ _ =>
    exact sinv_step_other hi rfl rfl rfl rfl rfl rfl (fun _ => rfl)
  | written w =>
    obtain ⟨wi, om, pm, ps, rd⟩ := hi
    refine ⟨?_, ?_, ?_, ?_, ?_⟩
    · simp [apply, writtenIds, List.filterMap_append] at wi ⊢; exact wi
    · intro e' he' i t hoe
      rcases List.mem_append.1 he' with he' | he'
      · exact om e' he' i t hoe
      · simp only [List.mem_singleton] at he'; subst he'; simp [outOf] at hoe
    · intro i t hm
      rcases List.mem_append.1 hm with hm | hm
      · exact pm i t hm
      · simp at hm
    · intro i hi
      obtain ⟨h₁, tp, h₂, rfl, hn⟩ := ps i hi
      exact ⟨h₁, tp, h₂ ++ [.written w], by simp, by simp [hn, isPark]⟩
    · intro i c hi
      obtain ⟨h₁, h₂, h₃, tp, n, l, t, rfl, hn⟩ := rd i c hi
      exact ⟨h₁, h₂, h₃ ++ [.written w], tp, n, l, t, by simp, by simp [hn, isPark]⟩
  | ok j f tj =>
    obtain ⟨wi, om, pm, ps, rd⟩ := hi
    refine ⟨?_, ?_, ?_, ?_, ?_⟩
    · simp [apply, writtenIds, List.filterMap_append] at wi ⊢; exact wi
    · intro e' he' i t hoe
      rcases List.mem_append.1 he' with he' | he'
      · obtain ⟨b, hb⟩ := om e' he' i t hoe
        exact ⟨b, by simp [apply, hb]⟩
      · simp only [List.mem_singleton] at he'; subst he'
        simp only [outOf, Option.some.injEq, Prod.mk.injEq] at hoe
        exact ⟨true, by simp [apply, hoe.1, hoe.2]⟩
    · intro i t hm
      rcases List.mem_append.1 hm with hm | hm
      · exact pm i t hm
      · simp at hm
    · intro i hi
      obtain ⟨h₁, tp, h₂, rfl, hn⟩ := ps i hi
      exact ⟨h₁, tp, h₂ ++ [.ok j f tj], by simp, by simp [hn, isPark]⟩
    · intro i c hi
      obtain ⟨h₁, h₂, h₃, tp, n, l, t, rfl, hn⟩ := rd i c hi
      exact ⟨h₁, h₂, h₃ ++ [.ok j f tj], tp, n, l, t, by simp, by simp [hn, isPark]⟩
  | err j cls tj =>
    obtain ⟨wi, om, pm, ps, rd⟩ := hi
    refine ⟨?_, ?_, ?_, ?_, ?_⟩
    · simp [apply, writtenIds, List.filterMap_append] at wi ⊢; exact wi
    · intro e' he' i t hoe
      rcases List.mem_append.1 he' with he' | he'
      · obtain ⟨b, hb⟩ := om e' he' i t hoe
        exact ⟨b, by simp [apply, hb]⟩
      · simp only [List.mem_singleton] at he'; subst he'
        simp only [outOf, Option.some.injEq, Prod.mk.injEq] at hoe
        exact ⟨false, by simp [apply, hoe.1, hoe.2]⟩
    · intro i t hm
      rcases List.mem_append.1 hm with hm | hm
      · exact pm i t hm
      · simp at hm
    · intro i hi
      obtain ⟨h₁, tp, h₂, rfl, hn⟩ := ps i hi
      exact ⟨h₁, tp, h₂ ++ [.err j cls tj], by simp, by simp [hn, isPark]⟩
    · intro i c hi
      obtain ⟨h₁, h₂, h₃, tp, n, l, t, rfl, hn⟩ := rd i c hi
      exact ⟨h₁, h₂, h₃ ++ [.err j cls tj], tp, n, l, t, by simp, by simp [hn, isPark]⟩
  | authEnd c n l t =>
    obtain ⟨wi, om, pm, ps, rd⟩ := hi
    refine ⟨?_, ?_, ?_, ?_, ?_⟩
    · simp [apply, writtenIds, List.filterMap_append] at wi ⊢; exact wi
    · intro e' he' i t' hoe
      rcases List.mem_append.1 he' with he' | he'
      · exact om e' he' i t' hoe
      · simp only [List.mem_singleton] at he'; subst he'; simp [outOf] at hoe
    · intro i t' hm
      rcases List.mem_append.1 hm with hm | hm
      · exact pm i t' hm
      · simp at hm
    · intro i hi
      obtain ⟨h₁, tp, h₂, rfl, hn⟩ := ps i hi
      exact ⟨h₁, tp, h₂ ++ [.authEnd c n l t], by simp, by simp [hn, isPark]⟩
    · intro i c' hi
      simp only [apply, List.mem_append, List.mem_map] at hi
      rcases hi with ⟨j, hj, hjc⟩ | hi
      · simp only [Prod.mk.injEq] at hjc
        obtain ⟨rfl, rfl⟩ := hjc
        obtain ⟨h₁, tp, h₂, rfl, hn⟩ := ps j hj
        exact ⟨h₁, h₂, [], tp, n, l, t, by simp, by simp⟩
      · obtain ⟨h₁, h₂, h₃, tp, n', l', t', rfl, hn⟩ := rd i c' hi
        exact ⟨h₁, h₂, h₃ ++ [.authEnd c n l t], tp, n', l', t', by simp, by simp [hn, isPark]⟩
  | park j tj =>
    obtain ⟨wi, om, pm, ps, rd⟩ := hi
    refine ⟨?_, ?_, ?_, ?_, ?_⟩
    · simp [apply, writtenIds, List.filterMap_append] at wi ⊢; exact wi
    · intro e' he' i t hoe
      rcases List.mem_append.1 he' with he' | he'
      · exact om e' he' i t hoe
      · simp only [List.mem_singleton] at he'; subst he'; simp [outOf] at hoe
    · intro i t hm
      simp only [apply, List.mem_cons]
      rcases List.mem_append.1 hm with hm | hm
      · exact Or.inr (pm i t hm)
      · simp only [List.mem_singleton, Ev.park.injEq] at hm; exact Or.inl hm.1
    · intro i hi
      by_cases hij : i = j
      · subst hij
        exact ⟨h, tj, [], by simp, by simp⟩
      · simp only [apply, List.mem_cons] at hi
        rcases hi with hi | hi
        · exact absurd hi hij
        · obtain ⟨h₁, tp, h₂, rfl, hn⟩ := ps i hi
          exact ⟨h₁, tp, h₂ ++ [.park j tj], by simp, by simp [hn, isPark, Ne.symm hij]⟩
    · intro i c hi
      simp only [apply, List.mem_filter] at hi
      obtain ⟨hi, hne⟩ := hi
      have hij : j ≠ i := by
        intro he; subst he; simp at hne
      obtain ⟨h₁, h₂, h₃, tp, n, l, t, rfl, hn⟩ := rd i c hi
      exact ⟨h₁, h₂, h₃ ++ [.park j tj], tp, n, l, t, by simp, by simp [hn, isPark, hij]⟩

theorem sinv_run {h₀ h : List Ev} {s₀ s : St} (hi : SInv h₀ s₀) (hr : run s₀ h = some s) : SInv (h₀ ++ h) s := by
  induction h generalizing h₀ s₀ with
  | nil => simp only [run] at hr; injection hr with hr; subst hr; simpa using hi
  | cons e es ih =>
    obtain ⟨hc, hrest⟩ := run_cons hr
    have := ih (sinv_step hi hc) hrest
    simpa using this

theorem sinv_of_run {h : List Ev} {s : St} (hr : run {} h = some s) : SInv h s := by
  simpa using sinv_run sinv_init hr

/-! ### what `check` guarantees for a wire request -/

theorem written_check_time {s : St} {w : Waiter} (h : check s (.written w) = none) :
    ¬ (hasOut s w.id = true ∧ outTime s w.id < w.tw) := by
  simp only [check] at h
  split at h; · simp at h
  split at h; · simp at h
  split at h; · simp at h
  split at h; · simp at h
  split at h
  · simp at h
  · rename_i hno; simpa using hno

theorem written_check_ready {s : St} {w : Waiter} (h : check s (.written w) = none) (hp : w.id ∈ s.parked) :
    (w.id, w.c) ∈ s.ready := by
  simp only [check] at h
  split at h; · simp at h
  split at h; · simp at h
  split at h; · simp at h
  split at h; · simp at h
  split at h; · simp at h
  split at h; · simp at h
  split at h; · simp at h
  split at h
  · simp at h
  · rename_i hno
    simp only [Bool.and_eq_true, Bool.not_eq_true', not_and, Bool.not_eq_false] at hno
    have := hno (List.contains_iff_mem.2 hp)
    exact List.contains_iff_mem.1 this

theorem find?_out_of_nodup {l : List (Nat × Bool × Nat)} {i : Nat} {b : Bool} {t : Nat}
    (hn : (l.map (·.1)).Nodup) (hm : (i, b, t) ∈ l) : l.find? (·.1 == i) = some (i, b, t) := by
  induction l with
  | nil => simp at hm
  | cons x xs ih =>
    simp only [List.map_cons, List.nodup_cons] at hn
    simp only [List.mem_cons] at hm
    rcases hm with rfl | hm
    · simp
    · have hne : x.1 ≠ i := fun he => hn.1 (he ▸ List.mem_map.2 ⟨(i, b, t), hm, rfl⟩)
      simp only [List.find?_cons]
      rw [show (x.1 == i) = false by simpa using hne]
      exact ih hn.2 hm

theorem expectOf_deliver_mem {s : St} {i : Nat} {body : Bytes} (h : expectOf s i = .deliver body) :
    i ∈ s.waiters.map (·.id) := by
  unfold expectOf at h
  split at h
  · simp at h
  · rename_i w hw
    have hm := List.mem_of_find?_eq_some hw
    have hid := List.find?_some hw
    exact List.mem_map.2 ⟨w, hm, by simpa using hid⟩

theorem writtenIds_append (a b : List Ev) : writtenIds (a ++ b) = writtenIds a ++ writtenIds b := by
  simp [writtenIds, List.filterMap_append]

end Proof.Conn
