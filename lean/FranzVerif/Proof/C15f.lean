import FranzVerif.Proof.C15e
/-! The generic round trip: the mutual induction over `Ty` / `Fields`. -/
namespace Proof.C15
open Model.C15

theorem emptyArr_null (ver : Int) (k : AKind) (hv : 0 ≤ ver) (h : k.nullableAt ver = true) : emptyArr ver k (-1) = .null := by
  cases k with
  | normal => simp [AKind.nullableAt] at h
  | varint => simp [AKind.nullableAt] at h
  | nullable n =>
    simp only [AKind.nullableAt, decide_eq_true_eq] at h
    have h1 : ¬ (ver < n) := by omega
    have h2 : ¬ (ver < 0) := by omega
    simp [emptyArr, h1, h2]

mutual
theorem decEnc : ∀ t : Ty, DecEnc t
  | .prim p => by
    intro c flex v bs rest _ _ h _
    simp only [enc] at h
    rw [dec]
    simpa [canon] using decPrim_encPrim p v bs rest h
  | .str k => by
    intro c flex v bs rest _ _ h _
    simp only [enc] at h
    rw [dec]
    simpa [canon] using decStr_encStr c.ver flex k v bs rest h
  | .arr k t => by
    intro c flex v bs rest hv hs h hcap
    have ht := decEnc t
    simp only [schemaOK, Bool.and_eq_true, decide_eq_true_eq] at hs
    cases v <;> simp only [enc] at h <;> try contradiction
    · -- nil slice
      have hb : bs = encArrHdr c.ver flex k true 0 := by cases k <;> simp at h <;> exact h.symm
      subst hb
      rw [dec, decArrLen_null]
      simp only [Res.andThen_ok]
      by_cases hn : k.nullableAt c.ver = true
      · simp [hn, canon, emptyArr_null c.ver k hv hn]
      · have hn' : k.nullableAt c.ver = false := by simpa using hn
        simp [hn', canon]
    · -- a list
      rename_i vs
      split at h <;> try contradiction
      rename_i b hb
      split at h <;> simp at h
      rename_i hlen
      subst h
      have hw := encList_len c.ver flex t (minW c.ver t) (fun v bs h => minW_le c.ver t flex v bs h) vs b hb
      have hfit : vs.length ≤ b.length := by
        have : vs.length * 1 ≤ vs.length * minW c.ver t := Nat.mul_le_mul_left _ hs.1
        omega
      simp only [List.length_append] at hcap
      rw [dec, List.append_assoc, decArrLen_some c.ver flex k vs.length (b ++ rest) hlen (by simp only [List.length_append]; omega)]
      simp only [Res.andThen_ok]
      by_cases h0 : vs.length = 0
      · have hvs : vs = .nil := by cases vs <;> simp [Vals.length] at h0 <;> rfl
        subst hvs
        simp [encList] at hb; subst hb
        simp [Vals.length, canon]
      · have hpos : ((vs.length : Nat) : Int) > 0 := by omega
        have hne : (vs.length == 0) = false := by simpa using h0
        rw [if_pos hpos, goMake_ok vs.length c.cap (by omega)]
        simp only [Res.andThen_ok]
        rw [decList_encList c flex t ht hv hs.2 vs b rest hb (by omega)]
        simp [canon, hne]
  | .struct nullable ff fs => by
    intro c flex v bs rest hv hs h hcap
    simp only [schemaOK, Bool.and_eq_true] at hs
    obtain ⟨hd, hsf⟩ := hs
    obtain ⟨Q1, Q2⟩ := decEncF fs c (flexAt ff c.ver) hv hsf
    cases v <;> simp only [enc] at h <;> try contradiction
    · -- nil pointer
      split at h <;> simp at h
      rename_i hn
      subst h; subst hn
      rw [dec]
      simp [structPre, readInt8_255, canon]
    · rename_i vals unk
      split at h <;> try contradiction
      rename_i body tags hbody htags
      cases hfl : flexAt ff c.ver <;> simp only [hfl, if_true, if_false, Bool.false_eq_true] at h
      · -- not flexible at this version
        simp at h; subst h
        simp only [List.length_append] at hcap
        rw [hfl] at Q1 hbody
        rw [dec, List.append_assoc, structPre_pre]
        simp only [Res.andThen_ok, hfl, Bool.not_true, Bool.false_eq_true, if_false]
        rw [Q1 vals body rest hbody (by omega)]
        simp [canon, hfl]
      · -- flexible: tag section
        split at h <;> simp at h
        rename_i hchk
        subst h
        simp only [Bool.and_eq_true, decide_eq_true_eq] at hchk
        obtain ⟨⟨hunk, hent⟩, hcount⟩ := hchk
        simp only [List.length_append] at hcap
        rw [hfl] at Q1 Q2 hbody htags
        rw [dec, List.append_assoc, structPre_pre]
        simp only [Res.andThen_ok, hfl, Bool.not_true, Bool.false_eq_true, if_false, if_true, List.append_assoc]
        rw [Q1 vals body _ hbody (by simp only [List.length_append]; omega)]
        simp only [Res.andThen_ok]
        rw [readUvarint_enc _ _ hcount]
        simp only [Res.andThen_ok]
        have hraw := readRawTags_enc (tags ++ unk) rest hent
        simp only [List.length_append] at hraw
        simp only [readTagsOf, hraw, Res.andThen_ok]
        have hkeys := encTags_keys c.ver true fs vals tags htags
        have hunk' := hunk
        simp only [unkOK, Bool.and_eq_true] at hunk'
        rw [Q2 vals tags (tags ++ unk) rfl htags hd
          (by intro k hk; rw [List.filter_append, filter_unk_known (knownTags fs) unk hunk'.2 k hk]; simp)
          (by intro e he
              have := mem_encTagEntries_le (tags ++ unk) e (by simp [he])
              omega)]
        simp [canon, hfl, unknownOf_eq (knownTags fs) tags unk hkeys hunk]
theorem decEncF : ∀ fs : Fields, DecEncF fs
  | .nil => by
    intro c flex _ _
    constructor
    · intro vals body rest h _
      cases vals <;> simp [encFields] at h
      subst h
      simp [decFields, canonFields]
    · intro vals tags raw _ h _ _ _
      cases vals <;> simp [encTags] at h
      simp [applyTags, canonFields]
  | .cons name minV maxV tag d t rest => by
    intro c flex hv hs
    simp only [schemaOKF, Bool.and_eq_true, Bool.or_eq_true] at hs
    obtain ⟨hst', hsr⟩ := hs
    have ht := decEnc t
    obtain ⟨R1, R2⟩ := decEncF rest c flex hv hsr
    constructor
    · -- body fields
      intro vals body rest' h hcap
      cases vals with
      | nil => simp [encFields] at h
      | cons v r =>
        simp only [encFields] at h
        split at h <;> try contradiction
        rename_i b' hb'
        by_cases hc : (tag.isSome || !present minV maxV c.ver) = true
        · simp only [hc, if_true, Option.some.injEq] at h
          subst h
          rw [decFields]
          simp only [hc, if_true, R1 r b' rest' hb' hcap, Res.map_ok]
          cases tag with
          | some k => simp [canonFields]
          | none =>
            have : present minV maxV c.ver = false := by simpa using hc
            simp [canonFields, this]
        · simp only [hc, if_false, Bool.false_eq_true] at h
          split at h <;> simp at h
          rename_i a ha
          subst h
          simp only [List.length_append] at hcap
          have hst : schemaOK c.ver t = true := by
            cases tag with
            | some k => simp at hc
            | none =>
              have hp : present minV maxV c.ver = true := by simpa using hc
              simpa [hp] using hst'
          rw [decFields]
          simp only [hc, if_false, Bool.false_eq_true, List.append_assoc]
          rw [ht c flex v a (b' ++ rest') hv hst ha (by simp only [List.length_append]; omega)]
          simp only [Res.andThen_ok, R1 r b' rest' hb' (by omega), Res.map_ok]
          have hcc : tag = none ∧ present minV maxV c.ver = true := by
            cases tag <;> simp at hc ⊢
            exact hc
          simp [canonFields, hcc.1, hcc.2]
    · -- tagged fields
      intro vals tags raw hflex h hd hraw hcapt
      subst hflex
      cases vals with
      | nil => simp [encTags] at h
      | cons v r =>
        simp only [encTags] at h
        split at h <;> try contradiction
        rename_i l hl
        cases tag with
        | none =>
          simp at h; subst h
          simp only [tagsDistinct] at hd
          have := R2 r l raw rfl hl hd (by intro k hk; exact hraw k (by simpa [knownTags] using hk)) hcapt
          simp only [canonFields]
          rw [applyTags, this]
        | some k =>
          have hst : schemaOK c.ver t = true := by simpa using hst'
          simp only [tagsDistinct, Bool.and_eq_true, Bool.not_eq_true'] at hd
          obtain ⟨hk, hd'⟩ := hd
          have hkn : k ∉ knownTags rest := by simpa using hk
          have hlk : l.filter (fun e => e.1 == k) = [] := by
            rw [List.filter_eq_nil_iff]
            intro e he hek
            have : e.1 = k := by simpa using hek
            exact hkn (this ▸ encTags_keys c.ver true rest r l hl e he)
          simp only at h
          by_cases hdef : tagIsDefault c.ver t d v = true
          · simp only [hdef, if_true, Option.some.injEq] at h
            subst h
            have hrest := R2 r l raw rfl hl hd'
              (by intro k' hk'; exact hraw k' (by simp [knownTags, hk'])) hcapt
            have hrk := hraw k (by simp [knownTags])
            rw [hlk] at hrk
            simp only [canonFields]
            rw [applyTags, hrest]
            simp [hrk, decEach, hdef]
          · simp only [hdef, if_false, Bool.false_eq_true] at h
            split at h <;> simp at h
            rename_i a ha
            subst h
            have hrest := R2 r l raw rfl hl hd'
              (by intro k' hk'
                  have hne : (k == k') = false := by
                    simp only [beq_eq_false_iff_ne]; intro e; exact hkn (e ▸ hk')
                  have := hraw k' (by simp [knownTags, hk'])
                  simpa [List.filter_cons, hne] using this)
              (by intro e he; exact hcapt e (by simp [he]))
            have hrk := hraw k (by simp [knownTags])
            simp only [List.filter_cons, beq_self_eq_true, if_true, hlk] at hrk
            have hcapa : a.length + ([] : Bytes).length ≤ c.cap := by
              have := hcapt (k, a) (by simp)
              simpa using this
            have hdec := ht c true v a [] hv hst ha hcapa
            simp only [List.append_nil] at hdec
            simp only [canonFields]
            rw [applyTags, hrest]
            simp [hrk, decEach, hdec, hdef]
end

end Proof.C15
