import FranzVerif.Proof.C31
/-! C31 — `xsync.RWMutex`: inductive invariants of the gate-token automaton (balanced clients). -/
namespace Model.C31.Rw

/-- holds the gate token -/
def gh (t : Th) : Nat := match t.pc with
  | .rl2 _ | .rl3 _ | .rl4 _ | .wl2 | .wl3 | .wl4a | .wl4b | .wl5 | .twl2 | .twl3 | .twl4a | .twl4b | .twl5 | .wu true => 1
  | _ => 0
/-- holds the inner mutex `rw.mu` -/
def mh (t : Th) : Nat := match t.pc with
  | .rl3 _ | .ru2 | .ru3 | .ruP | .wl4a | .wl4b | .twl4a | .twl4b => 1 | _ => 0
/-- between its `readerCount++` and its `readerCount--` -/
def rcn (t : Th) : Nat := match t.pc with
  | .rl3 _ | .rl4 _ | .rsec | .ru1 true => 1 | _ => 0
/-- reader inside its read section -/
def rIn (t : Th) : Nat := match t.pc with | .rsec => 1 | _ => 0
/-- writer inside (between the return of `Lock`/successful `TryLock` and `Unlock`) -/
def wIn (t : Th) : Nat := match t.pc with | .wu true => 1 | _ => 0
/-- writer that has read `readerCount == 0` under `mu`, or is inside -/
def wz (t : Th) : Nat := match t.pc with | .wl4b | .twl4b | .wu true => 1 | _ => 0
/-- writer past its drain of `writerSignal`, not yet inside -/
def wd (t : Th) : Nat := match t.pc with | .wl3 | .wl4a | .wl4b | .wl5 | .twl3 | .twl4a | .twl4b | .twl5 => 1 | _ => 0
/-- about to post the writer signal (it just decremented the count to zero) -/
def r2 (t : Th) : Nat := match t.pc with | .ru2 => 1 | _ => 0
/-- writer that saw readers and waits (or is about to wait) for the signal -/
def w5 (t : Th) : Nat := match t.pc with | .wl4a | .wl5 => 1 | _ => 0
/-- unbalanced now or later: a bare `RUnlock`/`Unlock`, or the panic path of `RUnlock` -/
def unbal (t : Th) : Nat :=
  if t.pc = .ru1 false ∨ t.pc = .wu false ∨ t.pc = .ruP ∨ Op.UR ∈ t.prog ∨ Op.UW ∈ t.prog then 1 else 0

def Balanced (progs : List (List Op)) : Prop := ∀ p ∈ progs, Op.UR ∉ p ∧ Op.UW ∉ p

structure RInv (s : St Sh Th) : Prop where
  gate : s.sh.gate + cnt gh s.ths = 1
  mu : s.sh.mu + cnt mh s.ths = 1
  rc : s.sh.rc = (cnt rcn s.ths : Nat)
  bal : cnt unbal s.ths = 0
  sig1 : s.sh.sig ≤ 1
  i4 : cnt wd s.ths > 0 → s.sh.sig = 1 → s.sh.rc = 0
  i5 : cnt r2 s.ths > 0 → s.sh.rc = 0
  i6 : cnt wz s.ths > 0 → s.sh.rc = 0
  i7 : cnt w5 s.ths > 0 → s.sh.sig = 0 → s.sh.rc > 0 ∨ cnt r2 s.ths > 0

theorem start_zero (p : List Op) (h : Op.UR ∉ p ∧ Op.UW ∉ p) :
    gh (start p) = 0 ∧ mh (start p) = 0 ∧ rcn (start p) = 0 ∧ wz (start p) = 0 ∧ wd (start p) = 0 ∧
    r2 (start p) = 0 ∧ w5 (start p) = 0 ∧ unbal (start p) = 0 := by
  match p with
  | [] => simp [start, gh, mh, rcn, wz, wd, r2, w5, unbal]
  | .R :: r => simp at h; simp [start, gh, mh, rcn, wz, wd, r2, w5, unbal, h]
  | .W :: r => simp at h; simp [start, gh, mh, rcn, wz, wd, r2, w5, unbal, h]
  | .TR :: r => simp at h; simp [start, gh, mh, rcn, wz, wd, r2, w5, unbal, h]
  | .TW :: r => simp at h; simp [start, gh, mh, rcn, wz, wd, r2, w5, unbal, h]
  | .UR :: r => simp at h
  | .UW :: r => simp at h

theorem init_inv (progs : List (List Op)) (hb : Balanced progs) : RInv (init progs) := by
  have hz : ∀ f : Th → Nat, (∀ p, Op.UR ∉ p ∧ Op.UW ∉ p → f (start p) = 0) → cnt f (progs.map start) = 0 := by
    intro f hf
    rw [cnt_map]
    induction progs with
    | nil => rfl
    | cons p l ih =>
      simp only [cnt]
      rw [hf p (hb p (by simp)), ih (fun q hq => hb q (by simp [hq]))]
  have h1 := hz gh (fun p h => (start_zero p h).1)
  have h2 := hz mh (fun p h => (start_zero p h).2.1)
  have h3 := hz rcn (fun p h => (start_zero p h).2.2.1)
  have h4 := hz wz (fun p h => (start_zero p h).2.2.2.1)
  have h5 := hz wd (fun p h => (start_zero p h).2.2.2.2.1)
  have h6 := hz r2 (fun p h => (start_zero p h).2.2.2.2.2.1)
  have h7 := hz w5 (fun p h => (start_zero p h).2.2.2.2.2.2.1)
  have h8 := hz unbal (fun p h => (start_zero p h).2.2.2.2.2.2.2)
  constructor <;> simp [init, h1, h2, h3, h4, h5, h6, h7, h8]

theorem le_facts (l : List Th) : cnt wd l ≤ cnt gh l ∧ cnt wz l ≤ cnt gh l ∧ cnt w5 l ≤ cnt gh l ∧ cnt r2 l ≤ cnt mh l := by
  refine ⟨cnt_le ?_ l, cnt_le ?_ l, cnt_le ?_ l, cnt_le ?_ l⟩ <;> intro t <;> obtain ⟨pc, p⟩ := t <;> cases pc <;>
    simp [wd, wz, w5, r2, gh, mh] <;> (rename_i own; cases own <;> simp)

set_option maxHeartbeats 4000000 in
theorem inv_step (sh : Sh) (pre post : List Th) (t : Th) (sh' : Sh) (t' : Th) (b : Bool) (ev : String)
    (hI : RInv ⟨sh, pre ++ t :: post⟩) (hs : stepT sh t = some (sh', t', b, ev)) :
    RInv ⟨sh', sys.wakeAll b pre ++ t' :: sys.wakeAll b post⟩ := by
  obtain ⟨g1, g2, g3, g4, g5, g6, g7, g8, g9⟩ := hI
  have hw : ∀ l : List Th, sys.wakeAll b l = l := by intro l; unfold Sys.wakeAll; split <;> simp [sys]
  simp only [hw]
  simp only [cnt_append, cnt_cons] at g1 g2 g3 g4 g5 g6 g7 g8 g9
  obtain ⟨f1, f2, f3, f4⟩ := le_facts pre
  obtain ⟨f5, f6, f7, f8⟩ := le_facts post
  obtain ⟨pc, prog⟩ := t
  have hu : unbal ⟨pc, prog⟩ = 0 := by omega
  have hnu : Op.UR ∉ prog ∧ Op.UW ∉ prog := by
    constructor <;> intro hm <;> simp [unbal, hm] at hu
  obtain ⟨z1, z2, z3, z4, z5, z6, z7, z8⟩ := start_zero prog hnu
  obtain ⟨gate, mu, sig, rc⟩ := sh
  replace g5 : sig ≤ 1 := g5
  cases pc
  all_goals (try (rename_i x; cases x))
  all_goals (simp only [stepT, muUnlock] at hs)
  all_goals (repeat' (split at hs))
  all_goals (try (simp at hs; done))
  all_goals (simp only [Option.some.injEq, Prod.mk.injEq] at hs; obtain ⟨rfl, rfl, _, _⟩ := hs)
  all_goals (try (simp [unbal] at hu; done))
  all_goals (constructor <;> simp only [cnt_append, cnt_cons, z1, z2, z3, z4, z5, z6, z7, z8])
  all_goals (simp [gh, mh, rcn, wz, wd, r2, w5, unbal, hnu] at g1 g2 g3 g4 g6 g7 g8 g9 ⊢)
  all_goals (first | omega | skip)

theorem reach_inv {progs : List (List Op)} (hb : Balanced progs) {s : St Sh Th}
    (hr : sys.Reach (init progs) s) : RInv s :=
  Sys.inv_of_local sys (init_inv progs hb) inv_step hr

theorem reach_of_exec {s0 s : St Sh Th} : ∀ (l : List Nat) (s1 : St Sh Th), sys.Reach s0 s1 → sys.exec s1 l = some s → sys.Reach s0 s
  | [], s1, h1, he => by simp [Sys.exec] at he; subst he; exact h1
  | i :: r, s1, h1, he => by
    simp only [Sys.exec] at he
    split at he
    · simp at he
    · rename_i s2 ev hs
      exact reach_of_exec r s2 (Sys.Reach.step i h1 hs) he

theorem rIn_le (l : List Th) : cnt rIn l ≤ cnt rcn l := by
  apply cnt_le; intro t; obtain ⟨pc, p⟩ := t; cases pc <;> simp [rIn, rcn]
theorem wIn_le (l : List Th) : cnt wIn l ≤ cnt gh l ∧ cnt wIn l ≤ cnt wz l := by
  constructor <;> apply cnt_le <;> intro t <;> obtain ⟨pc, p⟩ := t <;> cases pc <;> simp [wIn, gh, wz] <;>
    (rename_i own; cases own <;> simp)

/-- Deadlock freedom for balanced clients. -/
theorem deadlock_free {progs : List (List Op)} (hb : Balanced progs) {s : St Sh Th}
    (hr : sys.Reach (init progs) s) (hnd : sys.allDone s = false) : ∃ i, (sys.step s i).isSome := by
  obtain ⟨g1, g2, g3, g4, g5, g6, g7, g8, g9⟩ := reach_inv hb hr
  by_cases hmu : s.sh.mu = 0
  · have : 0 < cnt mh s.ths := by omega
    obtain ⟨t, hm, hh⟩ := cnt_pos this
    refine sys.step_of_mem hm ?_
    obtain ⟨pc, prog⟩ := t
    cases pc <;> simp [mh] at hh <;> simp [sys, stepT]
  · by_cases hg : s.sh.gate = 0
    · have : 0 < cnt gh s.ths := by omega
      obtain ⟨t, hm, hh⟩ := cnt_pos this
      obtain ⟨pc, prog⟩ := t
      by_cases h5 : pc = .wl5 ∧ s.sh.sig = 0
      · -- the writer waits for the signal: a reader is still counted or about to signal
        obtain ⟨rfl, hs0⟩ := h5
        have hw5 : 0 < cnt w5 s.ths := cnt_pos_of_mem hm (by simp [w5])
        rcases g9 hw5 hs0 with h | h
        · have : 0 < cnt rcn s.ths := by omega
          obtain ⟨t', hm', hh'⟩ := cnt_pos this
          refine sys.step_of_mem hm' ?_
          obtain ⟨pc', prog'⟩ := t'
          cases pc' <;> simp [rcn] at hh' <;> simp [sys, stepT, hmu, hg]
          all_goals ((repeat' split) <;> simp)
        · obtain ⟨t', hm', hh'⟩ := cnt_pos h
          refine sys.step_of_mem hm' ?_
          obtain ⟨pc', prog'⟩ := t'
          cases pc' <;> simp [r2] at hh' <;> simp [sys, stepT]
      · refine sys.step_of_mem hm ?_
        cases pc <;> simp [gh] at hh <;> simp [sys, stepT, hmu, hg] <;> simp at h5 <;> first | exact h5 | skip
        all_goals (subst hh; simp [hg])
    · simp only [Sys.allDone, List.all_eq_false] at hnd
      obtain ⟨t, hm, hnd⟩ := hnd
      have hgh : gh t = 0 := by
        rcases Nat.eq_zero_or_pos (gh t) with h | h
        · exact h
        · have := cnt_pos_of_mem hm h; omega
      refine sys.step_of_mem hm ?_
      obtain ⟨pc, prog⟩ := t
      cases pc <;> simp [gh] at hgh <;> simp [sys] at hnd <;> simp [sys, stepT, hmu, hg]
      all_goals ((repeat' split) <;> simp)

end Model.C31.Rw
