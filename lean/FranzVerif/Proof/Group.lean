import FranzVerif.Model.Group
/-! History-level observables for the consumer-group monitor (C07, C08) and helper lemmas.

Layout of the proof:
* this file: the observables and `run` on a concatenation (`run_append`, `run_split`, `run_snoc`);
* `Proof/GroupOwn.lean` (C07): the callback view `cb` of an event, how `apply` changes the owner map and the
  callback in progress (`mem_owner_apply`, `cur_apply`), the state invariant `OwnerFn`, and the forward
  inductions over a history suffix: ownership is only lost through a completed revoked/lost callback
  (`lost_ownership`), a completed callback releases (`released_not_owner`), ownership only arises through an
  assigned callback (`owner_of_no_assign`);
* `Proof/GroupCommit.lean` (C08): how each observable changes on `h ++ [ev]`, the invariant `Inv h s` relating
  the state reached by `run` to the observables, its preservation by every accepted event, `inv_of_run`. -/
namespace Proof.Group
open Model.Group

/-- The next revoked/lost callback event of `m` in `h` is the end of a callback (and not the start of
another one): the callback of `m` that is in progress where `h` begins completes in `h`. The monitor does not
record whether a callback in progress is a revoked or a lost one, so either end event completes it. -/
def completes (m : Mem) : List Ev → Bool
  | [] => false
  | .revokeStart m' _ :: rest => if m' = m then false else completes m rest
  | .lostStart m' _ :: rest => if m' = m then false else completes m rest
  | .revokeEnd m' :: rest => if m' = m then true else completes m rest
  | .lostEnd m' :: rest => if m' = m then true else completes m rest
  | _ :: rest => completes m rest

/-- `m` released partition `p` somewhere in `h`: a revoked or lost callback of `m` that listed `p` completed. -/
def released (m : Mem) (p : Nat) : List Ev → Bool
  | [] => false
  | .revokeStart m' ps :: rest => (m' == m && ps.contains p && completes m rest) || released m p rest
  | .lostStart m' ps :: rest => (m' == m && ps.contains p && completes m rest) || released m p rest
  | _ :: rest => released m p rest

/-- one step of `inProgress` -/
def progStep (m : Mem) (acc : Option (List Nat)) : Ev → Option (List Nat)
  | .revokeStart m' ps => if m' = m then some ps else acc
  | .lostStart m' ps => if m' = m then some ps else acc
  | .revokeEnd m' => if m' = m then none else acc
  | .lostEnd m' => if m' = m then none else acc
  | _ => acc

/-- the partitions listed by the revoked/lost callback of `m` that is in progress at the end of `h`
(entered and not yet returned), if there is one -/
def inProgress (m : Mem) (h : List Ev) : Option (List Nat) := h.foldl (progStep m) none

/-- next offset of partition `p` covered by polls of `m` that were followed by another poll of `m`, within `h` -/
def processedUpTo (m : Mem) (p : Nat) : List Ev → Nat
  | [] => 0
  | .returned m' p' off _ :: rest =>
    if m' == m && p' == p && rest.any (fun e => e == .pollStart m) then max (off + 1) (processedUpTo m p rest) else processedUpTo m p rest
  | _ :: rest => processedUpTo m p rest

/-- highest offset successfully committed for `p` within `h` (0 if none) -/
def committedUpTo (p : Nat) (h : List Ev) : Nat :=
  (h.filterMap (fun e => match e with | .commit _ p' off true => if p' = p then some off else none | _ => none)).foldl max 0

def producedOf (h : List Ev) : List (Id × Nat × Nat) :=
  h.filterMap (fun e => match e with | .produced i p o => some (i, p, o) | _ => none)
def isIncomplete (h : List Ev) : Bool := h.any (fun e => e == .incomplete)

/-! ### `run` on a concatenation -/

theorem step_eq_some {c : Cfg} {s s' : St} {ev : Ev} (hs : step c s ev = some s') :
    check c s ev = none ∧ s' = apply c s ev := by
  unfold step at hs
  split at hs
  · simp at hs; exact ⟨by assumption, hs.symm⟩
  · simp at hs

theorem run_cons {c : Cfg} {s s' : St} {e : Ev} {es : List Ev} (hr : run c s (e :: es) = some s') :
    check c s e = none ∧ run c (apply c s e) es = some s' := by
  simp only [run] at hr
  cases hs : step c s e with
  | none => simp [hs] at hr
  | some s1 =>
    simp only [hs] at hr
    obtain ⟨hchk, rfl⟩ := step_eq_some hs
    exact ⟨hchk, hr⟩

theorem run_append (c : Cfg) (s : St) (h₁ h₂ : List Ev) :
    run c s (h₁ ++ h₂) = (run c s h₁).bind (fun s' => run c s' h₂) := by
  induction h₁ generalizing s with
  | nil => rfl
  | cons e es ih =>
    simp only [List.cons_append, run]
    cases step c s e with
    | none => rfl
    | some s' => exact ih s'

/-- an accepted history decomposes at any event -/
theorem run_split {c : Cfg} {s₀ : St} {h₁ h₂ : List Ev} {ev : Ev} {s : St} (hacc : run c s₀ (h₁ ++ ev :: h₂) = some s) :
    ∃ s₁, run c s₀ h₁ = some s₁ ∧ check c s₁ ev = none ∧ run c (apply c s₁ ev) h₂ = some s := by
  rw [run_append] at hacc
  cases h1 : run c s₀ h₁ with
  | none => simp [h1] at hacc
  | some s₁ =>
    simp only [h1, Option.bind_some] at hacc
    obtain ⟨hchk, hr⟩ := run_cons hacc
    exact ⟨s₁, rfl, hchk, hr⟩

theorem run_snoc {c : Cfg} {s₀ : St} {h : List Ev} {ev : Ev} {s : St} (hacc : run c s₀ (h ++ [ev]) = some s) :
    ∃ s₁, run c s₀ h = some s₁ ∧ check c s₁ ev = none := by
  obtain ⟨s₁, h1, h2, _⟩ := run_split hacc
  exact ⟨s₁, h1, h2⟩

theorem isSome_run {c : Cfg} {s₀ : St} {h : List Ev} (hacc : (run c s₀ h).isSome) : ∃ s, run c s₀ h = some s :=
  Option.isSome_iff_exists.1 hacc

end Proof.Group
