import FranzVerif.Model.Group
/-! History-level observables for the consumer-group monitor (C07, C08) and helper lemmas. -/
namespace Proof.Group
open Model.Group

/-- `m` released partition `p` somewhere in `h`: a revoked or lost callback of `m` that listed `p` completed. -/
def released (m : Mem) (p : Nat) : List Ev → Bool
  | [] => false
  | .revokeStart m' ps :: rest => (m' == m && ps.contains p && rest.any (fun e => e == .revokeEnd m)) || released m p rest
  | .lostStart m' ps :: rest => (m' == m && ps.contains p && rest.any (fun e => e == .lostEnd m)) || released m p rest
  | _ :: rest => released m p rest

/-- next offset of partition `p` covered by polls of `m` that were followed by another poll of `m`, within `h` -/
def processedUpTo (m : Mem) (p : Nat) : List Ev → Nat
  | [] => 0
  | .returned m' p' off _ :: rest =>
    if m' == m && p' == p && rest.any (fun e => e == .pollStart m) then max (off + 1) (processedUpTo m p rest) else processedUpTo m p rest
  | _ :: rest => processedUpTo m p rest

/-- highest offset successfully committed for `p` within `h` (0 if none) -/
def committedUpTo (p : Nat) (h : List Ev) : Nat :=
  (h.filterMap (fun e => match e with | .commit _ p' off true => if p' = p then some off else none | _ => none)).foldl max 0

def producedOf (h : List Ev) : List (Id × Nat × Nat) :=
  h.filterMap (fun e => match e with | .produced i p o => some (i, p, o) | _ => none)
def isIncomplete (h : List Ev) : Bool := h.any (fun e => e == .incomplete)

end Proof.Group
