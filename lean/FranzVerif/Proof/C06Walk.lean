import FranzVerif.Proof.C06Abort
/-! C06 — refinement: one step of the walk of `ProcessFetchPartition` on a frame that encodes a log batch appends
exactly the records the reference decoder gives for that batch, keeps the next offset below everything not yet
returned, and keeps the aborter in step with the Spec's order-free definition. Core Lean only. -/
namespace Proof.C06
open Model.C06
open Spec.C06 (LRec LBatch ORec Req)

/-- the next offset is at least the requested one and at most `max requested x` for every `x` above the batches consumed -/
def OffInv (o : Opts) (P : List LBatch) (s : St) : Prop :=
  o.offset ≤ s.off ∧ ∀ x, (∀ b ∈ P, b.last < x) → s.off ≤ max o.offset x

/-- what one step of the walk on the encoding of `lb` achieves -/
structure StepOk (o : Opts) (A : List (Int × Int)) (L P : List LBatch) (lb : LBatch) (s s1 : St) : Prop where
  out : s1.out.map obs = s.out.map obs ++ Spec.C06.batchRecords (reqOf o A) L false lb
  off : OffInv o (P ++ [lb]) s1
  ab : AbInv (effA o A) (P ++ [lb]) s1.ab
  cut : ∀ r ∈ lb.records.drop lb.present, s1.off ≤ max o.offset r.offset
  errs : s1.err = none ∨ s1.err = some .claimNoBytes
  stopped : s1.stopped = false
  complete : lb.present = lb.records.length → s1.err = none

theorem batchRecords_eq (o : Opts) (A : List (Int × Int)) (L : List LBatch) (lb : LBatch) :
    Spec.C06.batchRecords (reqOf o A) L false lb =
      (if (if lb.control then o.keepControl else !(lb.txn && (effA o A).any (openAt L lb))) = true
       then ((lb.records.take lb.present).filter fun r => decide (o.offset ≤ r.offset)).map (Spec.C06.toORec lb) else []) := by
  unfold Spec.C06.batchRecords
  simp only [inAborted_eq, Bool.false_eq_true, if_false]
  rfl

theorem batchRecords_nil (o : Opts) (A : List (Int × Int)) (L : List LBatch) (lb : LBatch)
    (h : ∀ r ∈ lb.records.take lb.present, ¬ o.offset ≤ r.offset) : Spec.C06.batchRecords (reqOf o A) L false lb = [] := by
  rw [batchRecords_eq]
  have : ((lb.records.take lb.present).filter fun r => decide (o.offset ≤ r.offset)) = [] := by
    apply List.filter_eq_nil_iff.mpr
    intro r hr; simp [h r hr]
  rw [this]; simp

section
variable {o : Opts} {A : List (Int × Int)} {L P S : List LBatch} {lb : LBatch}

theorem before_lb (hL : L = P ++ lb :: S) (hwf : WfLog L) : ∀ m ∈ P, m.last < lb.first := by
  subst hL
  intro m hm
  exact (List.pairwise_append.mp hwf.ord).2.2 m hm lb (by simp)

theorem wf_lb (hL : L = P ++ lb :: S) (hwf : WfLog L) : WfBatch lb := hwf.batch lb (by subst hL; simp)

theorem mem_lb (hL : L = P ++ lb :: S) : lb ∈ L := by subst hL; simp

/-- extending the consumed prefix without moving the offset -/
theorem offinv_same (s : St) (h : OffInv o P s) : OffInv o (P ++ [lb]) s :=
  ⟨h.1, fun x hx => h.2 x (fun b hb => hx b (by simp [hb]))⟩

/-- a frame that leaves records, offset and aborter alone (skipped batch, batch without record bytes) -/
theorem stepOk_noop (hL : L = P ++ lb :: S) (hwf : WfLog L) (s s1 : St)
    (hoff : OffInv o P s) (hab : AbInv (effA o A) P s.ab)
    (hout : s1.out = s.out) (hoffe : s1.off = s.off) (habe : s1.ab = s.ab) (hstop : s1.stopped = false)
    (herr : s1.err = none ∨ (s1.err = some .claimNoBytes ∧ lb.present ≠ lb.records.length))
    (hnone : ∀ r ∈ lb.records.take lb.present, ¬ o.offset ≤ r.offset)
    (hmark : lb.abortMarker = true → ∀ a ∈ effA o A, a.1 = lb.pid → lb.first < a.2) :
    StepOk o A L P lb s s1 := by
  have hs_hi : s.off ≤ max o.offset lb.first := hoff.2 _ (before_lb hL hwf)
  have hwb := wf_lb hL hwf
  refine ⟨?_, ?_, ?_, ?_, ?_, hstop, ?_⟩
  · rw [hout, batchRecords_nil o A L lb hnone]; simp
  · have := offinv_same (lb := lb) s hoff
    exact ⟨by rw [hoffe]; exact this.1, fun x hx => by rw [hoffe]; exact this.2 x hx⟩
  · rw [habe]
    refine abinv_keep ?_ hab (fun _ => rfl)
    intro a ha _ hpid ⟨hm, hle⟩
    have := hmark hm a ha hpid
    omega
  · intro r hr
    have := (hwb.inRange r (List.mem_of_mem_drop hr)).1
    rw [hoffe]; omega
  · rcases herr with h | h
    · exact Or.inl h
    · exact Or.inr h.1
  · intro hc
    rcases herr with h | h
    · exact h
    · exact absurd hc h.2

end

/-! ## v2 record batches -/

theorem present_le {b : Batch} {lb : LBatch} (h : RepBatch b lb) : lb.present ≤ lb.records.length := by
  have := congrArg List.length h.recs
  simp only [List.length_take, List.length_map] at this
  have := h.present
  omega

theorem takeRecs_rep {b : Batch} {lb : LBatch} (h : RepBatch b lb) (hnb : ¬ (b.numRecords > b.rawLen ∧ b.rawLen = 0)) :
    takeRecs b (if b.numRecords > b.rawLen then b.rawLen else b.numRecords.toNat) = some b.recs ∧
    ((if b.numRecords > b.rawLen then b.rawLen else b.numRecords.toNat) = b.recs.length ↔ lb.present = lb.records.length) := by
  have hpl := present_le h
  have hp := h.present
  have hc := h.count
  have hr := h.raw
  unfold takeRecs
  rw [h.tail]
  by_cases hgt : b.numRecords > b.rawLen
  · simp only [hgt, if_true]
    have : b.rawLen ≠ 0 := fun h0 => hnb ⟨hgt, h0⟩
    have hlt : ¬ b.rawLen ≤ b.recs.length := by omega
    simp only [hlt, if_false, true_and]
    constructor <;> intro <;> omega
  · simp only [hgt, if_false]
    have hn : b.numRecords.toNat = lb.records.length := by omega
    rw [hn]
    refine ⟨?_, by omega⟩
    by_cases hle : lb.records.length ≤ b.recs.length
    · have : lb.records.length = b.recs.length := by omega
      rw [if_pos hle, this, List.take_length]
    · rw [if_neg hle]

theorem rtr_offset {b : Batch} (k : KRec) (h0 : 0 ≤ b.first) : (recordToRecord b k).offset = (v2Rec b k).offset := by
  have : b.first ≠ -1 := by omega
  simp [recordToRecord, v2Rec, this]

theorem obs_rtr {b : Batch} {lb : LBatch} (h : RepBatch b lb) (h0 : 0 ≤ b.first) (k : KRec) :
    obs (recordToRecord b k) = Spec.C06.toORec lb (v2Rec b k) := by
  have hne : b.first ≠ -1 := by omega
  have hlt := h.attrsLt
  have h1 : b.attrs % 256 = b.attrs := by omega
  have h2 : b.attrs % 256 / 128 % 2 = 0 := by omega
  simp only [obs, Spec.C06.toORec, recordToRecord, v2Rec, hne, if_false, h.attrs, h.pid, h.pepoch, h.lepoch, h1]
  have h3 : b.attrs / 128 % 2 = 0 := by omega
  simp [h3]

theorem shouldAbort_true {a : Aborter} {b : Batch} (h : shouldAbortBatch a b = some true) :
    ∃ x t, a b.pid = x :: t ∧ x ≤ b.first := by
  unfold shouldAbortBatch at h
  split at h
  · simp at h
  · cases hp : a b.pid with
    | nil => simp [hp] at h
    | cons x t =>
      refine ⟨x, t, rfl, ?_⟩
      simp [hp] at h
      exact h

theorem marker_rep {b : Batch} {lb : LBatch} (h : RepBatch b lb) :
    lb.abortMarker = (isControl (b.attrs % 256) && isTxn b.attrs && b.recs.any fun k => Spec.C06.isAbortKey k.key) := by
  have hlt := h.attrsLt
  have h1 : b.attrs % 256 = b.attrs := by omega
  unfold Spec.C06.LBatch.abortMarker Spec.C06.LBatch.control Spec.C06.LBatch.txn isControl isTxn
  rw [h.recs, h.attrs, h1, List.any_map]
  rfl

theorem batch_sim {o : Opts} {A : List (Int × Int)} {L P S : List LBatch} {lb : LBatch} (b : Batch) (s : St)
    (hL : L = P ++ lb :: S) (hwf : WfLog L) (hcons : AbortedConsistent o A L) (hrep : RepBatch b lb)
    (hoff : OffInv o P s) (hab : AbInv (effA o A) P s.ab) (herr : s.err = none) (hst : s.stopped = false) :
    ∃ s1, processRecordBatch o s b = some s1 ∧ StepOk o A L P lb s s1 := by
  have hwb := wf_lb hL hwf
  have hs_hi : s.off ≤ max o.offset lb.first := hoff.2 _ (before_lb hL hwf)
  have h0 : 0 ≤ b.first := by rw [← hrep.first]; exact hwb.firstNonneg
  have hpl := present_le hrep
  have hmemtake : ∀ r ∈ lb.records.take lb.present, lb.first ≤ r.offset ∧ r.offset ≤ lb.last :=
    fun r hr => hwb.inRange r (List.mem_of_mem_take hr)
  unfold processRecordBatch
  simp only
  split
  · rename_i hm; exact absurd hrep.magic hm
  split
  · -- the whole batch lies below the current offset
    rename_i hskip
    rw [← hrep.last] at hskip
    have hfl := hwb.firstLast
    refine ⟨s, rfl, stepOk_noop hL hwf s s hoff hab rfl rfl rfl hst (Or.inl herr) ?_ ?_⟩
    · intro r hr; have := hmemtake r hr; omega
    · intro hm a ha hpid
      exact hcons.overlaps lb (mem_lb hL) hm (by omega) a ha hpid
  split
  · rename_i hd; simp [hrep.decomp] at hd
  split
  · rename_i hneg; rw [hrep.count] at hneg; omega
  split
  · -- claims records but has no record bytes: cut short right after the header
    rename_i hnb
    have hr := hrep.raw
    have hlen : b.recs.length = 0 := by omega
    have hpres : lb.present = 0 := by rw [hrep.present, hlen]
    have hcnt := hrep.count
    refine ⟨{ s with err := some .claimNoBytes }, rfl, stepOk_noop hL hwf s _ hoff hab rfl rfl rfl hst (Or.inr ⟨rfl, ?_⟩) ?_ ?_⟩
    · omega
    · intro r hr; rw [hpres] at hr; simp at hr
    · intro hm; rw [marker_rep hrep] at hm
      have : b.recs = [] := List.eq_nil_of_length_eq_zero hlen
      simp [this] at hm
  · rename_i hskip _ _ hnb
    obtain ⟨htake, hiff⟩ := takeRecs_rep hrep hnb
    simp only [htake]
    -- the abort decision is the Spec's
    have hsa := shouldAbort_spec (E := effA o A) b hL hwf hab hrep.pid hrep.first
      (by unfold Spec.C06.LBatch.txn isTxn; rw [hrep.attrs])
    simp only [hsa]
    generalize habv : (lb.txn && (effA o A).any (openAt L lb)) = abortBatch at hsa
    -- the record loop
    obtain ⟨s2, hp2, o2, f2, e2, st2, a2⟩ := procRecords_fields o b abortBatch b.recs
      ((b.recs.map (·.headers.length)).sum) false s s (Nat.le_refl _) rfl rfl
    simp only [hp2]
    have hattr256 : b.attrs % 256 = b.attrs := by have := hrep.attrsLt; omega
    have hctl : lb.control = isControl (b.attrs % 256) := by
      unfold Spec.C06.LBatch.control isControl; rw [hrep.attrs, hattr256]
    have hrecsL : lb.records.take lb.present = b.recs.map (v2Rec b) := hrep.recs
    have hpw : (b.recs.map (recordToRecord b)).Pairwise (fun x y => x.offset < y.offset) := by
      have h1 : (lb.records.take lb.present).Pairwise (fun x y => x.offset < y.offset) :=
        hwb.incr.sublist (List.take_sublist _ _)
      rw [hrecsL, List.pairwise_map] at h1
      rw [List.pairwise_map]
      exact h1.imp (fun {x y} hxy => by rw [rtr_offset x h0, rtr_offset y h0]; exact hxy)
    have hrng : ∀ r ∈ b.recs.map (recordToRecord b), lb.first ≤ r.offset ∧ r.offset ≤ lb.last := by
      intro r hr
      obtain ⟨k, hk, rfl⟩ := List.mem_map.mp hr
      have : v2Rec b k ∈ lb.records.take lb.present := by rw [hrecsL]; exact List.mem_map.mpr ⟨k, hk, rfl⟩
      rw [rtr_offset k h0]
      exact hmemtake _ this
    obtain ⟨k1, k2, k3, _, _, _⟩ := keepAll_spec o abortBatch (if isControl (b.attrs % 256) then o.keepControl else !abortBatch)
      (b.recs.map (recordToRecord b)) s lb.first
      (by intro r hr; obtain ⟨k, _, rfl⟩ := List.mem_map.mp hr; rfl)
      hpw (fun r hr => (hrng r hr).1) hoff.1 hs_hi
    rw [← o2] at k1; rw [← f2] at k2 k3
    -- the state after the deferred KAFKA-5443 rule
    generalize hnn : (if b.numRecords > b.rawLen then b.rawLen else b.numRecords.toNat) = n at hiff
    generalize hs1 : (if n = b.recs.length ∧ s2.off < b.first + b.lastDelta + 1
      then { s2 with off := b.first + b.lastDelta + 1 } else s2) = s1
    have hs1f : s1.out = s2.out ∧ s1.err = s2.err ∧ s1.stopped = s2.stopped ∧ s1.ab = s2.ab := by
      subst hs1; split <;> exact ⟨rfl, rfl, rfl, rfl⟩
    have hs1off : (s1.off = s2.off ∨ (lb.present = lb.records.length ∧ s2.off < lb.last + 1 ∧ s1.off = lb.last + 1)) := by
      subst hs1; split
      · rename_i hc; right; exact ⟨hiff.mp hc.1, by rw [hrep.last]; exact hc.2, by rw [hrep.last]⟩
      · left; rfl
    refine ⟨s1, rfl, ?_, ?_, ?_, ?_, ?_, ?_, ?_⟩
    · -- records
      rw [hs1f.1, k1, batchRecords_eq, hctl, habv, hrecsL]
      simp only [List.map_append]
      congr 1
      generalize (if isControl (b.attrs % 256) = true then o.keepControl else !abortBatch) = keep
      cases keep
      · simp
      · simp only [if_true]
        rw [List.filter_map, List.map_map, List.filter_map, List.map_map]
        have : (b.recs.filter ((fun r : Rec => decide (o.offset ≤ r.offset)) ∘ recordToRecord b))
            = b.recs.filter ((fun r : LRec => decide (o.offset ≤ r.offset)) ∘ v2Rec b) := by
          apply List.filter_congr; intro k _; simp only [Function.comp]; rw [rtr_offset k h0]
        rw [this]
        apply List.map_congr_left
        intro k _
        exact obs_rtr hrep h0 k
    · -- offset bounds
      constructor
      · rcases hs1off with h | h
        · rw [h]; exact k2
        · omega
      · intro x hx
        have hxl : lb.last < x := hx lb (by simp)
        have hfl := hwb.firstLast
        have := k3 x (by omega) (fun r hr => by have := (hrng r hr).2; omega)
        rcases hs1off with h | h
        · rw [h]; exact this
        · omega
    · -- aborter
      rw [hs1f.2.2.2]
      have hmk := marker_rep hrep
      by_cases hcond : abortBatch = true ∧ isControl (b.attrs % 256) = true ∧ (b.recs.any fun k => Spec.C06.isAbortKey k.key) = true
      · have hm : lb.abortMarker = true := by
          rw [hmk]
          have htx : isTxn b.attrs = true := by
            have : lb.txn = true := by
              rw [← habv] at hcond; revert hcond; cases lb.txn <;> simp
            unfold Spec.C06.LBatch.txn at this; unfold isTxn; rw [← hrep.attrs]; exact this
          simp [hcond.2.1, hcond.2.2, htx]
        rw [hcond.1] at hsa
        obtain ⟨x, t, hxt, hxle⟩ := shouldAbort_true hsa
        rw [← hrep.pid] at hxt; rw [← hrep.first] at hxle
        refine abinv_pop hm hxt hxle ?_ hab ?_
        · have := hcons.sequential lb (mem_lb hL) hm
          have e : (effA o A).filter (openAt L lb) = (effA o A).filter fun a => a.1 == lb.pid && decide (a.2 ≤ lb.first) && noMarker P a := by
            apply List.filter_congr; intro a _; exact openAt_eq hL hwf a
          rw [← e]; exact this
        · intro q
          rw [a2 q, if_pos ⟨hcond.1, rfl, hcond.2.1, hcond.2.2⟩, hrep.pid]
      · refine abinv_keep ?_ hab ?_
        · intro a ha hn hpid ⟨hm, hle⟩
          apply hcond
          rw [hmk] at hm
          simp only [Bool.and_eq_true] at hm
          refine ⟨?_, hm.1.1, hm.2⟩
          rw [← habv]
          have htx : lb.txn = true := by
            unfold Spec.C06.LBatch.txn; unfold isTxn at hm; rw [hrep.attrs]; exact hm.1.2
          have : openAt L lb a = true := by
            rw [openAt_eq hL hwf a]; simp [hpid, hle, hn]
          rw [htx, List.any_eq_true.mpr ⟨a, ha, this⟩]; rfl
        · intro q
          rw [a2 q, if_neg (fun h => hcond ⟨h.1, h.2.2.1, h.2.2.2⟩)]
    · -- a batch cut short inside: the offset stays at or below the first record that did not make it
      intro r hr
      by_cases hc : lb.present = lb.records.length
      · rw [hc] at hr; simp at hr
      · rcases hs1off with h | h
        · rw [h]
          have hsplit := List.take_append_drop lb.present lb.records
          have hpw2 := hwb.incr
          rw [← hsplit] at hpw2
          have hcross := (List.pairwise_append.mp hpw2).2.2
          refine k3 r.offset (hwb.inRange r (List.mem_of_mem_drop hr)).1 ?_
          intro r' hr'
          obtain ⟨k, hk, rfl⟩ := List.mem_map.mp hr'
          rw [rtr_offset k h0]
          exact hcross (v2Rec b k) (by rw [hrecsL]; exact List.mem_map.mpr ⟨k, hk, rfl⟩) r hr
        · exact absurd h.1 hc
    · left; rw [hs1f.2.1, e2]; exact herr
    · rw [hs1f.2.2.1, st2]; exact hst
    · intro _; rw [hs1f.2.1, e2]; exact herr

/-! ## v0 / v1 messages and compressed wrappers -/

theorem msg_attrs {m : Msg} (h : validMsg m) :
    (msgToRecord m).attrs = msgAttrs m ∧ isControl (msgAttrs m) = false ∧ isTxn (msgAttrs m) = false := by
  unfold validMsg at h
  unfold msgToRecord msgAttrs isControl isTxn
  cases hv : m.isV1
  · simp only [hv, Bool.false_eq_true, if_false] at h ⊢
    refine ⟨by omega, by simp; omega, by simp; omega⟩
  · simp only [hv, if_true] at h ⊢
    refine ⟨by omega, by simp; omega, by simp; omega⟩

theorem obs_msg {lb : LBatch} (i : Msg) (base : Int) (a : Nat)
    (hattrs : (msgToRecord { i with offset := i.offset + base, attrs := a }).attrs = lb.attrs)
    (hpid : lb.pid = -1) (hpe : lb.pepoch = -1) (hle : lb.lepoch = -1) :
    obs (msgToRecord { i with offset := i.offset + base, attrs := a }) = Spec.C06.toORec lb (msgRec i base) := by
  unfold obs Spec.C06.toORec
  rw [hattrs, hpid, hpe, hle]
  simp [msgToRecord, msgRec, hdrsOf]

/-- records of a message set (a single message, the inner messages of a wrapper) through `maybeKeepRecord` -/
theorem msgs_sim {o : Opts} {A : List (Int × Int)} {L P S : List LBatch} {lb : LBatch} (rs : List Rec) (s : St)
    (hL : L = P ++ lb :: S) (hwf : WfLog L)
    (hoff : OffInv o P s) (hab : AbInv (effA o A) P s.ab) (herr : s.err = none) (hst : s.stopped = false)
    (hpres : lb.present = lb.records.length)
    (hobs : rs.map obs = lb.records.map (Spec.C06.toORec lb))
    (hflags : lb.records ≠ [] → lb.control = false ∧ lb.txn = false)
    (hattrs : ∀ r ∈ rs, isControl r.attrs = false) :
    StepOk o A L P lb s (keepAll o false s rs) := by
  have hwb := wf_lb hL hwf
  have hs_hi : s.off ≤ max o.offset lb.first := hoff.2 _ (before_lb hL hwf)
  have hrng : ∀ r ∈ rs, lb.first ≤ r.offset ∧ r.offset ≤ lb.last := by
    intro r hr
    have : obs r ∈ lb.records.map (Spec.C06.toORec lb) := by rw [← hobs]; exact List.mem_map.mpr ⟨r, hr, rfl⟩
    obtain ⟨x, hx, hxe⟩ := List.mem_map.mp this
    have : x.offset = r.offset := by
      have := congrArg Spec.C06.ORec.offset hxe; exact this
    rw [← this]; exact hwb.inRange x hx
  have hpw : rs.Pairwise (fun a b => a.offset < b.offset) := by
    have h1 : (rs.map obs).Pairwise (fun a b => a.offset < b.offset) := by
      rw [hobs, List.pairwise_map]; exact hwb.incr
    rw [List.pairwise_map] at h1
    exact h1
  obtain ⟨k1, k2, k3, k4, k5, k6⟩ := keepAll_spec o false true rs s lb.first
    (by intro r hr; simp [hattrs r hr]) hpw (fun r hr => (hrng r hr).1) hoff.1 hs_hi
  have hmark : lb.abortMarker = false := by
    unfold Spec.C06.LBatch.abortMarker
    by_cases hne : lb.records = []
    · simp [hne]
    · simp [(hflags hne).1]
  refine ⟨?_, ⟨k2, ?_⟩, ?_, ?_, Or.inl (by rw [k4]; exact herr), by rw [k5]; exact hst, fun _ => by rw [k4]; exact herr⟩
  · rw [k1]
    simp only [if_true, List.map_append]
    congr 1
    by_cases hne : lb.records = []
    · have : rs = [] := by
        have := congrArg List.length hobs; simp [hne] at this; exact this
      rw [batchRecords_nil o A L lb (by simp [hne])]; simp [this]
    · rw [batchRecords_eq, (hflags hne).1, (hflags hne).2, hpres, List.take_length]
      simp only [Bool.false_eq_true, if_false, Bool.false_and, Bool.not_false, if_true]
      have e1 : (rs.filter fun r => decide (o.offset ≤ r.offset)) = rs.filter ((fun r : ORec => decide (o.offset ≤ r.offset)) ∘ obs) := rfl
      have e2 : (lb.records.filter fun r => decide (o.offset ≤ r.offset))
          = lb.records.filter ((fun r : ORec => decide (o.offset ≤ r.offset)) ∘ Spec.C06.toORec lb) := rfl
      rw [e1, e2, ← List.filter_map, ← List.filter_map, hobs]
  · intro x hx
    have hxl : lb.last < x := hx lb (by simp)
    have := hwb.firstLast
    exact k3 x (by omega) (fun r hr => by have := (hrng r hr).2; omega)
  · rw [k6]
    refine abinv_keep ?_ hab (fun _ => rfl)
    intro a _ _ _ ⟨hm, _⟩
    rw [hmark] at hm; simp at hm
  · intro r hr
    rw [hpres, List.drop_length] at hr; simp at hr

theorem wrapper_eq {m : Msg} {inner : Inner} {lb : LBatch} (o : Opts) (s : St) (hc : m.attrs % 4 ≠ 0) (h : RepWrapper m inner lb) :
    processOuter o s m inner = some (keepAll o false s
      (inner.msgs.map fun i => msgToRecord { innerView m i with offset := i.offset + wrapBase m inner })) := by
  have hbase := h.baseNonneg
  have hseen : ∀ base, ∀ i ∈ inner.msgs,
      innerSeen base (m.attrs % 4) (if m.isV1 then (if m.attrs / 8 % 2 = 1 then some m.ts else none) else none) i
        = { innerView m i with offset := i.offset + base } :=
    fun base i hi => innerSeen_view m i base (fun hl => h.latV1 hl i hi)
  have key : ∀ base, processInner o base (m.attrs % 4) (if m.isV1 then (if m.attrs / 8 % 2 = 1 then some m.ts else none) else none) s inner.msgs
      = keepAll o false s (inner.msgs.map fun i => msgToRecord { innerView m i with offset := i.offset + base }) := by
    intro base
    rw [processInner_valid]
    · congr 1
      apply List.map_congr_left
      intro i hi
      rw [hseen base i hi]
    · intro i hi
      rw [hseen base i hi]
      have := (h.valid i hi).1
      unfold validMsg at this ⊢
      exact this
  unfold processOuter
  simp only [hc, if_false, h.decomp, h.err, h.panic, setErr, Bool.not_true, Bool.false_eq_true]
  cases hl : inner.msgs.getLast? with
  | none =>
    have : inner.msgs = [] := List.getLast?_eq_none_iff.mp hl
    simp [this, keepAll]
  | some last =>
    have hne : inner.msgs ≠ [] := by intro h0; rw [h0] at hl; simp at hl
    have hmem : last ∈ inner.msgs := List.mem_of_getLast? hl
    have hemp : inner.msgs.isEmpty = false := by
      cases hm : inner.msgs with
      | nil => exact absurd hm hne
      | cons _ _ => rfl
    simp only [hemp, Bool.false_eq_true, if_false]
    unfold wrapBase at hbase ⊢
    rw [hl] at hbase ⊢
    simp only [Option.map_some, Option.getD_some] at hbase ⊢
    cases hv : m.isV1
    · simp only [hv, Bool.false_eq_true, if_false] at key ⊢
      rw [key 0]
    · simp only [hv, if_true] at hbase key ⊢
      by_cases h0 : m.offset = 0
      · have hrel := h.relNonneg hv last hmem
        have : m.offset - last.offset = 0 := by omega
        simp only [h0, ne_eq, not_true_eq_false, if_false]
        rw [key 0]
        rw [h0] at this; rw [this]
      · have hlt : ¬ m.offset < last.offset := by omega
        simp only [ne_eq, h0, not_false_eq_true, if_true, hlt, if_false]
        rw [key]

/-! ## one step, the whole walk -/

theorem step_sim {o : Opts} {A : List (Int × Int)} {L P S : List LBatch} {lb : LBatch} (it : Item) (s : St)
    (hL : L = P ++ lb :: S) (hwf : WfLog L) (hcons : AbortedConsistent o A L) (hrep : Rep it lb)
    (hoff : OffInv o P s) (hab : AbInv (effA o A) P s.ab) (herr : s.err = none) (hst : s.stopped = false) :
    ∃ s1, stepItem o s it = some s1 ∧ StepOk o A L P lb s s1 := by
  have hpost : ∀ s1 : St, (s1.err = none ∨ s1.err = some .claimNoBytes) →
      (if s1.err = some .decompress ∧ s1.out.length > 0 then { s1 with err := none, stopped := true } else s1) = s1 := by
    intro s1 h
    rw [if_neg]
    rintro ⟨h1, _⟩
    rcases h with h | h <;> rw [h] at h1 <;> simp at h1
  cases it with
  | panic => exact absurd hrep (by simp [Rep])
  | stop e => exact absurd hrep (by simp [Rep])
  | badMagic x => exact absurd hrep (by simp [Rep])
  | batch b =>
    obtain ⟨s1, h1, hok⟩ := batch_sim b s hL hwf hcons hrep hoff hab herr hst
    refine ⟨s1, ?_, hok⟩
    simp only [stepItem, h1, Option.map_some]
    rw [hpost s1 hok.errs]
  | msg m inner =>
    simp only [Rep] at hrep
    by_cases hc : m.attrs % 4 = 0
    · rw [if_pos hc] at hrep
      have hk : processOuter o s m inner = some (keepAll o false s [msgToRecord m]) := by
        unfold processOuter
        simp only [hc, if_true, processMessage_valid o s m hrep.valid, keepAll]
      have ha := msg_attrs hrep.valid
      have hok : StepOk o A L P lb s (keepAll o false s [msgToRecord m]) := by
        refine msgs_sim _ s hL hwf hoff hab herr hst (by rw [hrep.present, hrep.records]; rfl) ?_ ?_ ?_
        · rw [hrep.records]
          simp only [List.map_cons, List.map_nil]
          congr 1
          have := obs_msg (lb := lb) m 0 m.attrs (by rw [hrep.attrs, ← ha.1]; simp [msgToRecord]) hrep.pid hrep.pepoch hrep.lepoch
          simpa using this
        · intro _
          unfold Spec.C06.LBatch.control Spec.C06.LBatch.txn
          rw [hrep.attrs]
          exact ⟨ha.2.1, ha.2.2⟩
        · intro r hr
          simp only [List.mem_singleton] at hr
          rw [hr, ha.1]; exact ha.2.1
      refine ⟨_, ?_, hok⟩
      simp only [stepItem, hk, Option.map_some]
      rw [hpost _ hok.errs]
    · rw [if_neg hc] at hrep
      have hk := wrapper_eq o s hc hrep
      have hok : StepOk o A L P lb s (keepAll o false s
          (inner.msgs.map fun i => msgToRecord { innerView m i with offset := i.offset + wrapBase m inner })) := by
        refine msgs_sim _ s hL hwf hoff hab herr hst (by rw [hrep.present, hrep.records]; simp) ?_ ?_ ?_
        · rw [hrep.records, List.map_map, List.map_map]
          apply List.map_congr_left
          intro i hi
          simp only [Function.comp]
          have hv := hrep.valid i hi
          have ha := msg_attrs hv.1
          have := obs_msg (lb := lb) (innerView m i) (wrapBase m inner) (innerView m i).attrs
            (by rw [← hv.2, ← ha.1]; rfl) hrep.pid hrep.pepoch hrep.lepoch
          have hoffs : (innerView m i).offset = i.offset := by unfold innerView; split <;> rfl
          rw [hoffs] at this
          exact this
        · intro hne
          rw [hrep.records] at hne
          cases hm : inner.msgs with
          | nil => rw [hm] at hne; simp at hne
          | cons i _ =>
            have hv := hrep.valid i (by rw [hm]; simp)
            have ha := msg_attrs hv.1
            unfold Spec.C06.LBatch.control Spec.C06.LBatch.txn
            rw [← hv.2]
            exact ⟨ha.2.1, ha.2.2⟩
        · intro r hr
          obtain ⟨i, hi, rfl⟩ := List.mem_map.mp hr
          have hv := hrep.valid i hi
          have ha := msg_attrs hv.1
          have : (msgToRecord { innerView m i with offset := i.offset + wrapBase m inner }).attrs
              = (msgToRecord (innerView m i)).attrs := by simp [msgToRecord]
          rw [this, ha.1]; exact ha.2.1
      refine ⟨_, ?_, hok⟩
      simp only [stepItem, hk, Option.map_some]
      rw [hpost _ hok.errs]

theorem walk_sim {o : Opts} {A : List (Int × Int)} {L : List LBatch} (hwf : WfLog L) (hcons : AbortedConsistent o A L) :
    ∀ (items : List Item) (Ls : List LBatch), RepList items Ls → ∀ (P S : List LBatch) (s : St), L = P ++ Ls ++ S →
      (∀ b ∈ Ls.dropLast, b.present = b.records.length) →
      OffInv o P s → AbInv (effA o A) P s.ab → s.err = none → s.stopped = false →
      ∃ s', walk o s items = some s' ∧
        s'.out.map obs = s.out.map obs ++ Ls.flatMap (Spec.C06.batchRecords (reqOf o A) L false) ∧
        OffInv o (P ++ Ls) s' ∧
        (∀ b ∈ Ls, ∀ r ∈ b.records.drop b.present, s'.off ≤ max o.offset r.offset) := by
  intro items Ls hlist
  induction hlist with
  | nil =>
    intro P S s _ _ hoff _ _ _
    exact ⟨s, by simp [walk], by simp, by simpa using hoff, by simp⟩
  | @cons it lb its lbs hrep hrest ih =>
    intro P S s hL hcomp hoff hab herr hst
    have hL' : L = P ++ lb :: (lbs ++ S) := by rw [hL]; simp
    obtain ⟨s1, hstep, hok⟩ := step_sim it s hL' hwf hcons hrep hoff hab herr hst
    have hw : walk o s (it :: its) = walk o s1 its := by
      simp only [walk, herr, hst, Option.isSome_none, Bool.false_eq_true, or_self, if_false, hstep]
    rw [hw]
    cases hrest with
    | nil =>
      refine ⟨s1, by simp [walk], ?_, hok.off, ?_⟩
      · simpa using hok.out
      · intro b hb r hr
        simp only [List.mem_singleton] at hb
        subst hb; exact hok.cut r hr
    | @cons it2 lb2 its2 lbs2 hrep2 hrest2 =>
      have hne : (lb2 :: lbs2) ≠ [] := by simp
      have hdl := List.dropLast_cons_of_ne_nil (x := lb) hne
      have hlbc : lb.present = lb.records.length := hcomp lb (by rw [hdl]; simp)
      obtain ⟨s', e1, e2, e3, e4⟩ := ih (P ++ [lb]) S s1 (by rw [hL]; simp)
        (fun b hb => hcomp b (by rw [hdl]; simp [hb])) hok.off hok.ab (hok.complete hlbc) hok.stopped
      refine ⟨s', e1, ?_, ?_, ?_⟩
      · rw [e2, hok.out]; simp only [List.flatMap_cons, List.append_assoc]
      · simpa using e3
      · intro b hb r hr
        rcases List.mem_cons.mp hb with h | h
        · subst h; rw [hlbc, List.drop_length] at hr; simp at hr
        · exact e4 b h r hr

/-! ## the end of the walk: nothing, or a frame that stops it (truncated frame, `check()` failure) -/

def StopTail (tail : List Item) : Prop := tail = [] ∨ ∃ e more, tail = .stop e :: more

theorem walk_halted (o : Opts) (s : St) (ys : List Item) (h : s.err.isSome ∨ s.stopped) : walk o s ys = some s := by
  cases ys with
  | nil => rfl
  | cons y ys => simp only [walk, h, if_true]

theorem walk_append (o : Opts) : ∀ (xs : List Item) (s : St) (ys : List Item),
    walk o s (xs ++ ys) = (walk o s xs).bind (fun s' => walk o s' ys) := by
  intro xs
  induction xs with
  | nil => intro s ys; simp [walk]
  | cons x xs ih =>
    intro s ys
    simp only [List.cons_append, walk]
    split
    · rename_i h; simp [walk_halted o s ys h]
    · cases stepItem o s x with
      | none => rfl
      | some s1 => exact ih s1 ys

theorem walk_stopTail (o : Opts) (s : St) (tail : List Item) (h : StopTail tail) :
    ∃ s', walk o s tail = some s' ∧ s'.out = s.out ∧ s'.off = s.off := by
  rcases h with h | ⟨e, more, h⟩
  · subst h; exact ⟨s, rfl, rfl, rfl⟩
  · subst h
    by_cases hh : s.err.isSome ∨ s.stopped
    · exact ⟨s, walk_halted o s _ hh, rfl, rfl⟩
    · refine ⟨{ s with err := (match e with | some e => some e | none => s.err), stopped := true }, ?_, rfl, rfl⟩
      simp only [walk, hh, if_false, stepItem]
      exact walk_halted o _ more (Or.inr rfl)

/-- `ProcessFetchPartition` on the encoding of the log `whole` (the last batch possibly cut short inside) followed by a
stopping tail, judged against the log `L = whole ++ rest`. -/
theorem process_sim {o : Opts} {A : List (Int × Int)} {items tail : List Item} {whole rest : List LBatch}
    (hrep : RepList items whole) (hwf : WfLog (whole ++ rest)) (hcons : AbortedConsistent o A (whole ++ rest))
    (hcomplete : ∀ b ∈ whole.dropLast, b.present = b.records.length) (htail : StopTail tail) :
    ∃ recs next err, process o false A (items ++ tail) = .done recs next err ∧
      recs.map obs = whole.flatMap (Spec.C06.batchRecords (reqOf o A) (whole ++ rest) false) ∧
      (o.offset ≤ next ∧ ∀ x, (∀ b ∈ whole, b.last < x) → next ≤ max o.offset x) ∧
      (∀ b ∈ whole, ∀ r ∈ b.records.drop b.present, next ≤ max o.offset r.offset) := by
  unfold process
  simp only
  generalize hs0 : ({ off := o.offset, ab := (if o.readCommitted then buildAborter A else fun _ => []), err := (if false = true then some Err.kerr else none) } : St) = s0
  have hab0 : AbInv (effA o A) [] s0.ab := by
    subst hs0
    unfold effA
    cases o.readCommitted
    · exact abinv_init_nil
    · exact abinv_init A
  have hoff0 : OffInv o [] s0 := by
    subst hs0
    exact ⟨Int.le_refl _, fun x _ => by simp only; omega⟩
  obtain ⟨s', e1, e2, e3, e4⟩ := walk_sim hwf hcons items whole hrep [] rest s0 (by simp) hcomplete hoff0 hab0
    (by subst hs0; rfl) (by subst hs0; rfl)
  obtain ⟨s'', t1, t2, t3⟩ := walk_stopTail o s' tail htail
  rw [walk_append, e1]
  simp only [Option.bind_some, t1]
  refine ⟨_, _, _, rfl, ?_, ?_, ?_⟩
  · rw [t2, e2]; subst hs0; simp
  · rw [t3]; have e3' : OffInv o whole s' := by simpa using e3
    exact e3'
  · rw [t3]; exact e4

end Proof.C06
