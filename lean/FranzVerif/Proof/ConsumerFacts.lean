import FranzVerif.Model.Consumer
import FranzVerif.Proof.Consumer
import FranzVerif.Proof.ConsumerInv
/-! Facts read off the invariant of the direct-consumer monitor: what `txnOf` finds, what the `quiesce`
rules say, and how `ret`/`decided`/`nret` evolve along a run (to order a decision and a returned record). -/
namespace Proof.Consumer
open Model.Consumer

/-! ### `txnOf` -/

theorem eq_of_pairwise_fst_ne {α β : Type} {l : List (α × β)} (hp : l.Pairwise (fun a b => a.1 ≠ b.1))
    {a b : α × β} (ha : a ∈ l) (hb : b ∈ l) (he : a.1 = b.1) : a = b := by
  induction l with
  | nil => cases ha
  | cons x l ih =>
    obtain ⟨hx, hl⟩ := List.pairwise_cons.1 hp
    rcases List.mem_cons.1 ha with ha' | ha' <;> rcases List.mem_cons.1 hb with hb' | hb'
    · rw [ha', hb']
    · rw [ha'] at he; exact absurd he (hx b hb')
    · rw [hb'] at he; exact absurd he.symm (hx a ha')
    · exact ih hl ha' hb'

theorem txnOf_some_mem {s : St} {part off : Nat} {id : Id} {k : Nat} (h : txnOf s part off id = some k) :
    (id, part, off, k) ∈ s.prod := by
  unfold txnOf at h
  cases hf : s.prod.find? (fun p => p.1 == id && p.2.1 == part && p.2.2.1 == off) with
  | none => simp [hf] at h
  | some p =>
    simp only [hf, Option.map_some, Option.some.injEq] at h
    have h1 := List.mem_of_find?_eq_some hf
    have h2 := List.find?_some hf
    simp only [Bool.and_eq_true, beq_iff_eq] at h2
    obtain ⟨p1, p2, p3, p4⟩ := p
    simp only at h h2
    obtain ⟨⟨rfl, rfl⟩, rfl⟩ := h2
    subst h
    exact h1

theorem txnOf_of_mem {s : St} (hp : s.prod.Pairwise (fun a b => a.1 ≠ b.1)) {part off : Nat} {id : Id} {k : Nat}
    (h : (id, part, off, k) ∈ s.prod) : txnOf s part off id = some k := by
  cases hf : txnOf s part off id with
  | none =>
    unfold txnOf at hf
    simp only [Option.map_eq_none_iff, List.find?_eq_none] at hf
    exact absurd (by simp) (hf _ h)
  | some k' =>
    have := eq_of_pairwise_fst_ne hp (txnOf_some_mem hf) h rfl
    simp only [Prod.mk.injEq, true_and] at this
    rw [this]

theorem Inv.txnOf {c : Cfg} {h : List Ev} {s : St} (hi : Inv c h s) {part off : Nat} {id : Id} {k : Nat}
    (hp : (id, part, off, k) ∈ producedOf h) : txnOf s part off id = some k :=
  txnOf_of_mem hi.prodId (by rw [hi.prod]; exact List.mem_reverse.2 hp)

theorem Inv.mem_ret {c : Cfg} {h : List Ev} {s : St} (hi : Inv c h s) {r : Nat × Nat × Id × Bool}
    (hr : r ∈ returnedOf h) : ∃ n, (r.1, r.2.1, r.2.2.1, r.2.2.2, n) ∈ s.ret := by
  have : r ∈ s.ret.map retKey := by rw [hi.ret]; exact List.mem_reverse.2 hr
  obtain ⟨x, hx, rfl⟩ := List.mem_map.1 this
  exact ⟨x.2.2.2.2, hx⟩

theorem Inv.ret_mem {c : Cfg} {h : List Ev} {s : St} (hi : Inv c h s) {r : Nat × Nat × Id × Bool × Nat}
    (hr : r ∈ s.ret) : retKey r ∈ returnedOf h := by
  have : retKey r ∈ s.ret.map retKey := List.mem_map.2 ⟨r, hr, rfl⟩
  rw [hi.ret] at this
  exact List.mem_reverse.1 this

theorem Inv.mem_decided {c : Cfg} {h : List Ev} {s : St} (hi : Inv c h s) {k : Nat} {b : Bool}
    (hd : (k, b) ∈ decisionsOf h) : ∃ n, (k, b, n) ∈ s.decided := by
  have : (k, b) ∈ s.decided.map decKey := by rw [hi.decided]; exact List.mem_reverse.2 hd
  obtain ⟨x, hx, he⟩ := List.mem_map.1 this
  obtain ⟨x1, x2, x3⟩ := x
  simp only [decKey, Prod.mk.injEq] at he
  obtain ⟨rfl, rfl⟩ := he
  exact ⟨x3, hx⟩

theorem Inv.decided_mem {c : Cfg} {h : List Ev} {s : St} (hi : Inv c h s) {d : Nat × Bool × Nat}
    (hd : d ∈ s.decided) : (d.1, d.2.1) ∈ decisionsOf h := by
  have : decKey d ∈ s.decided.map decKey := List.mem_map.2 ⟨d, hd, rfl⟩
  rw [hi.decided] at this
  exact List.mem_reverse.1 this

/-! ### the rules of `quiesce` -/

structure Quiet (c : Cfg) (s : St) : Prop where
  /-- every returned data record is a produced record at its acknowledged place -/
  ack : ∀ r ∈ s.ret, r.2.2.2.1 = false → (txnOf s r.1 r.2.1 r.2.2.1).isSome = true
  /-- read_committed: nothing of an aborted transaction -/
  noAbort : c.committed = true → ∀ r ∈ s.ret, r.2.2.2.1 = false → ∀ k, txnOf s r.1 r.2.1 r.2.2.1 = some k → k ≠ 0 →
    ∀ d ∈ s.decided, d.1 = k → d.2.1 = true
  /-- read_committed: nothing of a transaction not yet decided to commit -/
  noOpen : c.committed = true → ∀ r ∈ s.ret, r.2.2.2.1 = false → ∀ k, txnOf s r.1 r.2.1 r.2.2.1 = some k → k ≠ 0 →
    ∃ d ∈ s.decided, d.1 = k ∧ d.2.1 = true ∧ d.2.2 ≤ r.2.2.2.2
  buffered : s.buffered = []
  gauge : s.gauge = some 0
  complete : s.incomplete = false → ∀ p ∈ s.prod, c.start ≤ p.2.2.1 →
    (c.committed = false ∨ p.2.2.2 = 0 ∨ ∃ d ∈ s.decided, d.1 = p.2.2.2 ∧ d.2.1 = true) →
    ∃ r ∈ s.ret, r.1 = p.2.1 ∧ r.2.1 = p.2.2.1 ∧ r.2.2.1 = p.1

theorem quiesce_check {c : Cfg} {s : St} (hchk : check c s .quiesce = none) : Quiet c s := by
  simp only [check] at hchk
  split at hchk
  · simp at hchk
  rename_i q1
  split at hchk
  · simp at hchk
  rename_i q2
  split at hchk
  · simp at hchk
  rename_i q3
  split at hchk
  · simp at hchk
  rename_i q4
  split at hchk
  · simp at hchk
  rename_i q5
  refine ⟨?_, ?_, ?_, ?_, ?_, ?_⟩
  · intro r hr hc
    cases ht : txnOf s r.1 r.2.1 r.2.2.1 with
    | some k => rfl
    | none => exact absurd (List.any_eq_true.2 ⟨r, hr, by simp [hc, ht]⟩) q1
  · intro hcm r hr hc k hk hk0 d hd hdk
    cases hb : d.2.1 with
    | true => rfl
    | false =>
      refine absurd ?_ q2
      simp only [hcm, Bool.true_and]
      refine List.any_eq_true.2 ⟨r, hr, ?_⟩
      simp only [hc, hk, Bool.not_false, Bool.true_and]
      cases k with
      | zero => exact absurd rfl hk0
      | succ n => exact List.any_eq_true.2 ⟨d, hd, by simp [hdk, hb]⟩
  · intro hcm r hr hc k hk hk0
    cases hcb : committedBefore s k r.2.2.2.2 with
    | true =>
      unfold committedBefore at hcb
      obtain ⟨d, hd, hp⟩ := List.any_eq_true.1 hcb
      simp only [Bool.and_eq_true, beq_iff_eq, decide_eq_true_eq] at hp
      exact ⟨d, hd, hp.1.1, hp.1.2, hp.2⟩
    | false =>
      refine absurd ?_ q3
      simp only [hcm, Bool.true_and]
      refine List.any_eq_true.2 ⟨r, hr, ?_⟩
      simp only [hc, hk, Bool.not_false, Bool.true_and]
      cases k with
      | zero => exact absurd rfl hk0
      | succ n => simp [hcb]
  · simpa using q4
  · simpa using q5
  · intro hinc p hp hst hel
    simp only [hinc, Bool.false_eq_true, if_false] at hchk
    split at hchk
    · split at hchk <;> simp at hchk
    rename_i q6
    cases hex : s.ret.any (fun r => r.1 == p.2.1 && r.2.1 == p.2.2.1 && r.2.2.1 == p.1) with
    | true =>
      obtain ⟨r, hr, hp⟩ := List.any_eq_true.1 hex
      simp only [Bool.and_eq_true, beq_iff_eq] at hp
      exact ⟨r, hr, hp.1.1, hp.1.2, hp.2⟩
    | false =>
      refine absurd (List.any_eq_true.2 ⟨p, hp, ?_⟩) q6
      simp only [hex, Bool.not_false, Bool.and_true, Bool.and_eq_true, decide_eq_true_eq, Bool.or_eq_true,
        Bool.not_eq_true', beq_iff_eq]
      refine ⟨hst, ?_⟩
      rcases hel with h | h | ⟨d, hd, h1, h2⟩
      · exact Or.inl (Or.inl h)
      · exact Or.inl (Or.inr h)
      · exact Or.inr (List.any_eq_true.2 ⟨d, hd, by simp [h1, h2]⟩)

/-! ### monotonicity along a run -/

structure Mono (s s' : St) : Prop where
  ret : ∀ r ∈ s.ret, r ∈ s'.ret
  nret : s.nret ≤ s'.nret
  decided : ∀ d ∈ s'.decided, d ∈ s.decided ∨ s.nret ≤ d.2.2

theorem Mono.refl (s : St) : Mono s s := ⟨fun _ h => h, Nat.le_refl _, fun _ h => Or.inl h⟩

theorem Mono.trans {a b d : St} (h1 : Mono a b) (h2 : Mono b d) : Mono a d := by
  refine ⟨fun r hr => h2.ret r (h1.ret r hr), Nat.le_trans h1.nret h2.nret, ?_⟩
  intro x hx
  rcases h2.decided x hx with h | h
  · exact h1.decided x h
  · exact Or.inr (Nat.le_trans h1.nret h)

theorem Mono.apply (c : Cfg) (s : St) (ev : Ev) : Mono s (apply c s ev) := by
  cases ev with
  | endDone t cm ok => cases ok <;> exact ⟨fun _ h => h, Nat.le_refl _, fun _ h => Or.inl h⟩
  | endDecided t cm =>
    refine ⟨fun _ h => h, Nat.le_refl _, ?_⟩
    intro d hd
    simp only [Model.Consumer.apply, List.mem_cons] at hd
    rcases hd with rfl | hd
    · exact Or.inr (Nat.le_refl _)
    · exact Or.inl hd
  | returned p o i ctl =>
    exact ⟨fun r h => List.mem_cons_of_mem _ h, Nat.le_succ _, fun _ h => Or.inl h⟩
  | _ => exact ⟨fun _ h => h, Nat.le_refl _, fun _ h => Or.inl h⟩

theorem Mono.run {c : Cfg} {s s' : St} {h : List Ev} (hr : run c s h = some s') : Mono s s' := by
  induction h generalizing s with
  | nil => simp [Model.Consumer.run] at hr; subst hr; exact Mono.refl _
  | cons e es ih =>
    simp only [Model.Consumer.run] at hr
    cases hs : step c s e with
    | none => simp [hs] at hr
    | some s1 =>
      simp only [hs] at hr
      obtain ⟨_, rfl⟩ := step_eq_some hs
      exact (Mono.apply c s e).trans (ih hr)

/-! ### the gauge -/

theorem mem_of_lastGauge {h : List Ev} {n : Nat} (hg : lastGauge h = some n) : Ev.gauge n ∈ h := by
  rw [lastGauge_eq] at hg
  have := List.mem_of_getLast? hg
  obtain ⟨e, he, hn⟩ := List.mem_filterMap.1 this
  cases e <;> simp [gaugeEv] at hn
  subst hn; exact he

/-! ### a place is returned at most once -/

theorem returnedOffsets_eq_filter (part : Nat) (h : List Ev) :
    returnedOffsets part h = ((returnedOf h).filter (·.1 == part)).map (·.2.1) := by
  induction h with
  | nil => rfl
  | cons e h ih =>
    cases e with
    | returned p o i ctl =>
      simp only [returnedOffsets_eq, returnedOf_eq, List.filterMap_cons, offEv, retEv] at ih ⊢
      by_cases hp : p = part
      · simp [hp, ih]
      · simp [hp, ih]
    | _ => simpa [returnedOffsets_eq, returnedOf_eq, List.filterMap_cons, offEv, retEv] using ih

theorem length_le_one_of_pairwise {α : Type} {R : α → α → Prop} {l : List α} (hp : l.Pairwise R)
    (hn : ∀ a ∈ l, ∀ b ∈ l, ¬ R a b) : l.length ≤ 1 := by
  match l, hp, hn with
  | [], _, _ => simp
  | [_], _, _ => simp
  | a :: b :: l, hp, hn =>
    exact absurd ((List.pairwise_cons.1 hp).1 b (by simp)) (hn a (by simp) b (by simp))

/-- strictly increasing offsets: a (partition, offset) place is returned at most once -/
theorem returned_place_at_most_once {part : Nat} {h : List Ev} (hp : (returnedOffsets part h).Pairwise (· < ·))
    (off : Nat) : ((returnedOf h).filter (fun r => r.1 == part && r.2.1 == off)).length ≤ 1 := by
  rw [returnedOffsets_eq_filter, List.pairwise_map] at hp
  have h2 := hp.filter (fun r => r.2.1 == off)
  rw [List.filter_filter] at h2
  have heq : (fun (a : Nat × Nat × Id × Bool) => (a.2.1 == off && a.1 == part)) = (fun r => r.1 == part && r.2.1 == off) := by
    funext a; exact Bool.and_comm _ _
  rw [heq] at h2
  refine length_le_one_of_pairwise h2 ?_
  intro a ha b hb
  have ha' := (List.mem_filter.1 ha).2
  have hb' := (List.mem_filter.1 hb).2
  simp only [Bool.and_eq_true, beq_iff_eq] at ha' hb'
  omega
end Proof.Consumer
