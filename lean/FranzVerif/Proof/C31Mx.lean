import FranzVerif.Proof.C31
/-! C31 — `xsync.Mutex`: invariants of the channel automaton for lock/unlock-balanced clients. -/
namespace Model.C31.Mx

/-- the thread holds the mutex (between its `Lock`/successful `TryLock` and its `Unlock`) -/
def holds (t : Th) : Nat := if t.pc = .unlock true then 1 else 0
/-- the thread is or will be unbalanced: a bare `Unlock` now or later in its program -/
def unbal (t : Th) : Nat := if t.pc = .unlock false ∨ Op.U ∈ t.prog then 1 else 0

def Balanced (progs : List (List Op)) : Prop := ∀ p ∈ progs, Op.U ∉ p

structure MInv (s : St Sh Th) : Prop where
  tok : s.sh.ch + cnt holds s.ths = 1
  bal : cnt unbal s.ths = 0

theorem holds_start (p : List Op) : holds (start p) = 0 := by
  match p with
  | [] => rfl
  | .L :: _ => rfl
  | .T :: _ => rfl
  | .U :: _ => rfl

theorem unbal_start (p : List Op) (h : Op.U ∉ p) : unbal (start p) = 0 := by
  match p with
  | [] => simp [start, unbal]
  | .L :: r => simp [start, unbal] at *; exact h
  | .T :: r => simp [start, unbal] at *; exact h
  | .U :: r => simp at h

theorem init_inv (progs : List (List Op)) (hb : Balanced progs) : MInv (init progs) := by
  constructor
  · have : cnt holds (progs.map start) = 0 := by
      rw [cnt_map]; exact cnt_zero (fun p => holds_start p) _
    simp [init, this]
  · simp only [init]; rw [cnt_map]
    induction progs with
    | nil => rfl
    | cons p l ih =>
      simp only [cnt]
      rw [unbal_start p (hb p (by simp)), ih (fun q hq => hb q (by simp [hq]))]

theorem inv_step (sh : Sh) (pre post : List Th) (t : Th) (sh' : Sh) (t' : Th) (b : Bool) (ev : String)
    (hI : MInv ⟨sh, pre ++ t :: post⟩) (hs : stepT sh t = some (sh', t', b, ev)) :
    MInv ⟨sh', sys.wakeAll b pre ++ t' :: sys.wakeAll b post⟩ := by
  obtain ⟨h1, h2⟩ := hI
  have hw : ∀ l : List Th, sys.wakeAll b l = l := by intro l; unfold Sys.wakeAll; split <;> simp [sys]
  simp only [hw]
  simp only [cnt_append, cnt_cons] at h1 h2
  obtain ⟨pc, prog⟩ := t
  have hu : unbal ⟨pc, prog⟩ = 0 := by omega
  have hnu : Op.U ∉ prog := by
    intro hm; simp [unbal, hm] at hu
  have hs0 := holds_start prog
  have hu0 := unbal_start prog hnu
  cases pc with
  | lock =>
    simp only [stepT] at hs
    split at hs
    · simp at hs
    · simp at hs; obtain ⟨rfl, rfl, _, _⟩ := hs
      constructor <;> simp only [cnt_append, cnt_cons, hs0, hu0] <;> simp [holds, unbal, hnu] at h1 h2 ⊢ <;> omega
  | tryl =>
    simp only [stepT] at hs
    split at hs
    · simp at hs; obtain ⟨rfl, rfl, _, _⟩ := hs
      constructor <;> simp only [cnt_append, cnt_cons, hs0, hu0] <;> simp [holds, unbal, hnu] at h1 h2 ⊢ <;> omega
    · simp at hs; obtain ⟨rfl, rfl, _, _⟩ := hs
      constructor <;> simp only [cnt_append, cnt_cons, hs0, hu0] <;> simp [holds, unbal, hnu] at h1 h2 ⊢ <;> omega
  | unlock own =>
    have hown : own = true := by
      cases own with
      | true => rfl
      | false => simp [unbal] at hu
    subst hown
    simp only [stepT] at hs
    split at hs
    · simp at hs; obtain ⟨rfl, rfl, _, _⟩ := hs
      constructor <;> simp only [cnt_append, cnt_cons, hs0, hu0] <;> simp [holds, unbal, hnu] at h1 h2 ⊢ <;> omega
    · simp [holds] at h1; omega
  | done => simp [stepT] at hs

theorem reach_inv {progs : List (List Op)} (hb : Balanced progs) {s : St Sh Th}
    (hr : sys.Reach (init progs) s) : MInv s :=
  Sys.inv_of_local sys (init_inv progs hb) inv_step hr

end Model.C31.Mx
