import FranzVerif.Model.CommitReport
/-! Invariant of the success-report monitor (C09): what the state remembers happened in the history. -/
namespace Proof.CommitReport
open Model.CommitReport

structure Inv (h : List Ev) (s : St) : Prop where
  issued : ∀ i ∈ s.issued, Ev.issue i.1 i.2 ∈ h
  reqs : ∀ r ∈ s.reqs, Ev.wireReq r.1 r.2.1 r.2.2 ∈ h
  okd : ∀ o ∈ s.okd, ∃ n, Ev.wireReq n o.1 o.2 ∈ h ∧ Ev.wireResp n o.1 0 ∈ h

theorem inv_init : Inv [] {} := ⟨by simp, by simp, by simp⟩

theorem inv_mono {h : List Ev} {s : St} (e : Ev) (hi : Inv h s) : Inv (h ++ [e]) s :=
  ⟨fun i hm => List.mem_append_left _ (hi.issued i hm), fun r hm => List.mem_append_left _ (hi.reqs r hm),
   fun o hm => by
     obtain ⟨n, h1, h2⟩ := hi.okd o hm
     exact ⟨n, List.mem_append_left _ h1, List.mem_append_left _ h2⟩⟩

theorem inv_apply {h : List Ev} {s : St} (e : Ev) (hi : Inv h s) : Inv (h ++ [e]) (apply s e) := by
  have hm := inv_mono e hi
  cases e with
  | issue k offs =>
    refine ⟨?_, hm.reqs, hm.okd⟩
    intro i hmem
    simp only [apply, List.mem_cons] at hmem
    rcases hmem with rfl | hmem
    · simp
    · exact hm.issued i hmem
  | wireReq n part off =>
    refine ⟨hm.issued, ?_, hm.okd⟩
    intro r hmem
    simp only [apply, List.mem_cons] at hmem
    rcases hmem with rfl | hmem
    · simp
    · exact hm.reqs r hmem
  | wireResp n part err =>
    simp only [apply]
    split
    · rename_i herr
      have herr0 : err = 0 := by simpa using herr
      split
      · rename_i n' p' off hf
        refine ⟨hm.issued, hm.reqs, ?_⟩
        intro o hmem
        simp only [List.mem_cons] at hmem
        rcases hmem with rfl | hmem
        · have hmemr := List.mem_of_find?_eq_some hf
          have hp := List.find?_some hf
          simp only [Bool.and_eq_true, beq_iff_eq] at hp
          obtain ⟨hn, hpp⟩ := hp
          have hr := hi.reqs _ hmemr
          simp only at hr hn hpp
          subst hn hpp herr0
          exact ⟨n', List.mem_append_left _ hr, by simp⟩
        · exact hm.okd o hmem
      · exact hm
    · exact hm
  | finish k ok => exact hm

theorem inv_run {h0 : List Ev} {s0 s : St} (h : List Ev) (hi : Inv h0 s0) (hr : run s0 h = some s) : Inv (h0 ++ h) s := by
  induction h generalizing h0 s0 with
  | nil => simp only [run, Option.some.injEq] at hr; subst hr; simpa using hi
  | cons e es ih =>
    simp only [run] at hr
    unfold step at hr
    cases hc : check s0 e with
    | some r => simp [hc] at hr
    | none =>
      simp only [hc] at hr
      have := ih (inv_apply e hi) hr
      simpa using this

theorem run_append (s : St) (h₁ h₂ : List Ev) : run s (h₁ ++ h₂) = (run s h₁).bind (fun s' => run s' h₂) := by
  induction h₁ generalizing s with
  | nil => rfl
  | cons e es ih =>
    simp only [List.cons_append, run]
    cases step s e with
    | none => rfl
    | some s' => exact ih s'

end Proof.CommitReport
