import FranzVerif.Model.Group
import FranzVerif.Proof.Group
/-! C07 half of the consumer-group monitor: ownership of partitions along an accepted history. -/
namespace Proof.Group
open Model.Group

/-! ### the callback view of an event -/

/-- what an event means for the owner map and the callbacks in progress -/
inductive CB where
  | assign (m : Mem) (ps : List Nat)
  | start (m : Mem) (ps : List Nat)
  | fin (m : Mem)
  | other

def cb : Ev → CB
  | .assignStart m ps => .assign m ps
  | .revokeStart m ps => .start m ps
  | .lostStart m ps => .start m ps
  | .revokeEnd m => .fin m
  | .lostEnd m => .fin m
  | _ => .other

theorem cb_assign {e : Ev} {m : Mem} {ps : List Nat} (h : cb e = .assign m ps) : e = .assignStart m ps := by
  cases e <;> simp [cb] at h
  obtain ⟨rfl, rfl⟩ := h; rfl

theorem completes_cons (m : Mem) (e : Ev) (rest : List Ev) :
    completes m (e :: rest) = match cb e with
      | .start m' _ => if m' = m then false else completes m rest
      | .fin m' => if m' = m then true else completes m rest
      | _ => completes m rest := by
  cases e <;> rfl

theorem released_cons (m : Mem) (p : Nat) (e : Ev) (rest : List Ev) :
    released m p (e :: rest) = match cb e with
      | .start m' ps => (m' == m && ps.contains p && completes m rest) || released m p rest
      | _ => released m p rest := by
  cases e <;> rfl

theorem progStep_eq (m : Mem) (acc : Option (List Nat)) (e : Ev) :
    progStep m acc e = match cb e with
      | .start m' ps => if m' = m then some ps else acc
      | .fin m' => if m' = m then none else acc
      | _ => acc := by
  cases e <;> rfl

/-! ### the owner map and the callback in progress under `apply` -/

/-- the partitions listed by `m`'s revoked/lost callback in progress in state `s` (the most recent one) -/
def cur (s : St) (m : Mem) : Option (List Nat) := (s.revoking.find? (·.1 == m)).map (·.2)

theorem find_filter_ne (l : List (Mem × List Nat)) (m' m : Mem) (hne : m' ≠ m) :
    (l.filter (·.1 != m')).find? (·.1 == m) = l.find? (·.1 == m) := by
  induction l with
  | nil => rfl
  | cons a l ih =>
    obtain ⟨a1, a2⟩ := a
    by_cases h1 : a1 = m'
    · subst h1
      simpa [List.filter_cons, List.find?_cons, hne] using ih
    · by_cases h2 : a1 = m
      · subst h2
        simp [h1]
      · simpa [List.filter_cons, h1, List.find?_cons, h2] using ih

theorem find_filter_self (l : List (Mem × List Nat)) (m : Mem) :
    (l.filter (·.1 != m)).find? (·.1 == m) = none := by
  simp [List.find?_eq_none]

/-- the state after a revoked/lost callback of `m'` returned -/
def endSt (s : St) (m' : Mem) : St :=
  match s.revoking.find? (fun x => x.1 == m') with
  | some (_, parts) => { s with owner := s.owner.filter (fun o => !(o.2 == m' && parts.contains o.1)),
                                revoking := s.revoking.filter (fun x => x.1 != m') }
  | none => s

theorem apply_revokeEnd (c : Cfg) (s : St) (m' : Mem) : apply c s (.revokeEnd m') = endSt s m' := rfl
theorem apply_lostEnd (c : Cfg) (s : St) (m' : Mem) : apply c s (.lostEnd m') = endSt s m' := rfl

theorem revoking_end (s : St) (m' : Mem) : (endSt s m').revoking = s.revoking.filter (fun x => x.1 != m') := by
  unfold endSt
  cases hf : s.revoking.find? (fun x => x.1 == m') with
  | some x => rfl
  | none =>
    simp only
    rw [List.find?_eq_none] at hf
    symm
    rw [List.filter_eq_self]
    intro a ha
    simpa using hf a ha

theorem cur_apply (c : Cfg) (s : St) (e : Ev) (m : Mem) :
    cur (apply c s e) m = match cb e with
      | .start m' ps => if m' = m then some ps else cur s m
      | .fin m' => if m' = m then none else cur s m
      | _ => cur s m := by
  have hfin : ∀ m', (((s.revoking.filter (·.1 != m')).find? (·.1 == m)).map (·.2)) = if m' = m then none else cur s m := by
    intro m'
    by_cases hm : m' = m
    · subst hm; simp
    · simp [hm, cur, find_filter_ne _ _ _ hm]
  cases e with
  | revokeStart m' ps =>
    by_cases hm : m' = m <;> simp [cur, apply, cb, hm]
  | lostStart m' ps =>
    by_cases hm : m' = m <;> simp [cur, apply, cb, hm]
  | revokeEnd m' =>
    simp only [cb, cur, apply_revokeEnd, revoking_end]
    exact hfin m'
  | lostEnd m' =>
    simp only [cb, cur, apply_lostEnd, revoking_end]
    exact hfin m'
  | commit m' p off ok =>
    simp only [cb, cur, apply]
    split <;> rfl
  | _ => rfl

theorem mem_owner_apply (c : Cfg) (s : St) (e : Ev) (a : Nat × Mem) :
    a ∈ (apply c s e).owner ↔ match cb e with
      | .assign m ps => (a.1 ∈ ps ∧ a.2 = m) ∨ (a.1 ∉ ps ∧ a ∈ s.owner)
      | .fin m => a ∈ s.owner ∧ ¬ (a.2 = m ∧ ∃ ps, cur s m = some ps ∧ a.1 ∈ ps)
      | _ => a ∈ s.owner := by
  have hfin : ∀ m', a ∈ (endSt s m').owner ↔ a ∈ s.owner ∧ ¬ (a.2 = m' ∧ ∃ ps, cur s m' = some ps ∧ a.1 ∈ ps) := by
    intro m'
    unfold endSt
    cases hf : s.revoking.find? (fun x => x.1 == m') with
    | none => simp [cur, hf]
    | some x =>
      obtain ⟨x1, x2⟩ := x
      simp only [cur, hf, List.mem_filter, Option.map_some, Option.some.injEq, exists_eq_left', Bool.not_eq_true',
        Bool.and_eq_false_iff, beq_eq_false_iff_ne, ne_eq, List.contains_eq_mem, decide_eq_false_iff_not, not_and]
      constructor
      · rintro ⟨h1, h2 | h2⟩
        · exact ⟨h1, fun h => absurd h h2⟩
        · exact ⟨h1, fun _ => h2⟩
      · rintro ⟨h1, h2⟩
        by_cases h3 : a.2 = m'
        · exact ⟨h1, Or.inr (h2 h3)⟩
        · exact ⟨h1, Or.inl h3⟩
  obtain ⟨a1, a2⟩ := a
  cases e with
  | assignStart m ps =>
    simp only [cb, apply, List.mem_append, List.mem_map, List.mem_filter]
    constructor
    · rintro (⟨q, hq, he⟩ | ⟨ha, hn⟩)
      · simp only [Prod.mk.injEq] at he
        obtain ⟨rfl, rfl⟩ := he
        exact Or.inl ⟨hq, rfl⟩
      · exact Or.inr ⟨by simpa using hn, ha⟩
    · rintro (⟨hq, rfl⟩ | ⟨hn, ha⟩)
      · exact Or.inl ⟨a1, hq, rfl⟩
      · exact Or.inr ⟨ha, by simpa using hn⟩
  | revokeEnd m' => simpa only [cb, apply_revokeEnd] using hfin m'
  | lostEnd m' => simpa only [cb, apply_lostEnd] using hfin m'
  | commit m' p off ok =>
    simp only [cb, apply]
    split <;> exact Iff.rfl
  | _ => exact Iff.rfl

/-! ### the owner map is a function -/

/-- every partition has at most one owner in the monitor's owner map -/
def OwnerFn (s : St) : Prop := ∀ a ∈ s.owner, ∀ b ∈ s.owner, a.1 = b.1 → a.2 = b.2

theorem OwnerFn.init : OwnerFn {} := by
  intro a ha; simp at ha

theorem OwnerFn.apply {c : Cfg} {s : St} (hf : OwnerFn s) (e : Ev) : OwnerFn (apply c s e) := by
  intro a ha b hb hab
  rw [mem_owner_apply] at ha hb
  cases hcb : cb e with
  | assign m ps =>
    simp only [hcb] at ha hb
    rcases ha with ⟨ha1, ha2⟩ | ⟨ha1, ha2⟩ <;> rcases hb with ⟨hb1, hb2⟩ | ⟨hb1, hb2⟩
    · rw [ha2, hb2]
    · exact absurd (hab ▸ ha1) hb1
    · exact absurd (hab ▸ hb1) ha1
    · exact hf a ha2 b hb2 hab
  | fin m =>
    simp only [hcb] at ha hb
    exact hf a ha.1 b hb.1 hab
  | start m ps =>
    simp only [hcb] at ha hb
    exact hf a ha b hb hab
  | other =>
    simp only [hcb] at ha hb
    exact hf a ha b hb hab

theorem OwnerFn.run {c : Cfg} {s s' : St} {h : List Ev} (hf : OwnerFn s) (hr : run c s h = some s') : OwnerFn s' := by
  induction h generalizing s with
  | nil => simp [Model.Group.run] at hr; subst hr; exact hf
  | cons e es ih =>
    obtain ⟨_, hr'⟩ := run_cons hr
    exact ih (hf.apply e) hr'

theorem ownerOf_mem {s : St} {p : Nat} {o : Mem} (h : ownerOf s p = some o) : (p, o) ∈ s.owner := by
  simp only [ownerOf, Option.map_eq_some_iff] at h
  obtain ⟨a, ha, rfl⟩ := h
  have h1 := List.mem_of_find?_eq_some ha
  have h2 := List.find?_some ha
  simp only [beq_iff_eq] at h2
  subst h2
  exact h1

theorem ownerOf_of_mem {s : St} (hf : OwnerFn s) {p : Nat} {o : Mem} (h : (p, o) ∈ s.owner) : ownerOf s p = some o := by
  cases hfi : s.owner.find? (·.1 == p) with
  | none =>
    rw [List.find?_eq_none] at hfi
    have := hfi _ h
    simp at this
  | some a =>
    have h1 := List.mem_of_find?_eq_some hfi
    have h2 := List.find?_some hfi
    simp only [beq_iff_eq] at h2
    have := hf a h1 (p, o) h h2
    simp only [ownerOf, hfi, Option.map_some]
    exact congrArg some this

/-! ### what an accepted event tells -/

theorem assign_check {c : Cfg} {s : St} {m : Mem} {ps : List Nat} (hf : OwnerFn s)
    (h : check c s (.assignStart m ps) = none) : ∀ p ∈ ps, ∀ o, (p, o) ∈ s.owner → o = m := by
  intro p hp o ho
  simp only [check] at h
  split at h
  · simp at h
  · rename_i hn
    have := ownerOf_of_mem hf ho
    false_or_by_contra
    rename_i hne
    apply hn
    rw [List.any_eq_true]
    exact ⟨p, hp, by simp [this, hne]⟩

theorem leaveDone_check {c : Cfg} {s : St} {m : Mem} (h : check c s (.leaveDone m) = none) :
    ∀ p, (p, m) ∉ s.owner := by
  intro p hp
  simp only [check] at h
  split at h
  · simp at h
  · rename_i hn
    apply hn
    rw [List.any_eq_true]
    exact ⟨(p, m), hp, by simp⟩

theorem stable_check {c : Cfg} {s : St} {live : List Mem} (h : check c s (.stable live) = none) :
    ∀ p, p < c.parts → ∃ o ∈ live, (p, o) ∈ s.owner := by
  intro p hp
  simp only [check] at h
  split at h
  · simp at h
  · rename_i hn
    cases ho : ownerOf s p with
    | none =>
      exfalso; apply hn
      rw [List.any_eq_true]
      exact ⟨p, List.mem_range.2 hp, by simp [ho]⟩
    | some o =>
      refine ⟨o, ?_, ownerOf_mem ho⟩
      false_or_by_contra
      rename_i hl
      apply hn
      rw [List.any_eq_true]
      exact ⟨p, List.mem_range.2 hp, by simp [ho, hl]⟩

/-! ### forward inductions over a history suffix -/

/-- no assigned callback in `h` lists `p` -/
def NoAssign (p : Nat) (h : List Ev) : Prop := ∀ e ∈ h, ∀ m ps, cb e = .assign m ps → p ∉ ps

theorem NoAssign.tail {p : Nat} {e : Ev} {es : List Ev} (h : NoAssign p (e :: es)) : NoAssign p es :=
  fun x hx => h x (List.mem_cons_of_mem _ hx)

/-- ownership only arises through an assigned callback -/
theorem owner_of_no_assign {c : Cfg} {p : Nat} {o : Mem} {h : List Ev} {s s' : St} (hr : run c s h = some s')
    (hn : NoAssign p h) (ho : (p, o) ∈ s'.owner) : (p, o) ∈ s.owner := by
  induction h generalizing s with
  | nil => simp [run] at hr; subst hr; exact ho
  | cons e es ih =>
    obtain ⟨_, hr'⟩ := run_cons hr
    have h1 := ih hr' hn.tail
    rw [mem_owner_apply] at h1
    cases hcb : cb e with
    | assign m ps =>
      simp only [hcb] at h1
      rcases h1 with ⟨h1, _⟩ | ⟨_, h1⟩
      · exact absurd h1 (hn e List.mem_cons_self m ps hcb)
      · exact h1
    | fin m => simp only [hcb] at h1; exact h1.1
    | start m ps => simp only [hcb] at h1; exact h1
    | other => simp only [hcb] at h1; exact h1

/-- ownership is only lost through a completed revoked/lost callback of the owner that listed the partition:
one entered in `h`, or the one already in progress where `h` begins. -/
theorem lost_ownership {c : Cfg} {p : Nat} {m : Mem} {h : List Ev} {s s' : St} (hf : OwnerFn s)
    (hr : run c s h = some s') (ho : (p, m) ∈ s.owner) (hno : (p, m) ∉ s'.owner) :
    released m p h = true ∨ ∃ ps₀, cur s m = some ps₀ ∧ p ∈ ps₀ ∧ completes m h = true := by
  induction h generalizing s with
  | nil => simp [run] at hr; subst hr; exact absurd ho hno
  | cons e es ih =>
    obtain ⟨hchk, hr'⟩ := run_cons hr
    by_cases hk : (p, m) ∈ (apply c s e).owner
    · have h1 := ih (hf.apply e) hr' hk
      rw [released_cons, completes_cons]
      rw [cur_apply] at h1
      cases hcb : cb e with
      | assign m' ps => simpa only [hcb] using h1
      | other => simpa only [hcb] using h1
      | start m' ps =>
        simp only [hcb] at h1 ⊢
        rcases h1 with h1 | ⟨ps₀, h1, h2, h3⟩
        · exact Or.inl (by simp [h1])
        · by_cases hm : m' = m
          · simp only [hm, if_true, Option.some.injEq] at h1
            subst h1
            exact Or.inl (by simp [hm, h2, h3])
          · simp only [hm, if_false] at h1
            exact Or.inr ⟨ps₀, h1, h2, by simpa [hm] using h3⟩
      | fin m' =>
        simp only [hcb] at h1 ⊢
        rcases h1 with h1 | ⟨ps₀, h1, h2, h3⟩
        · exact Or.inl h1
        · by_cases hm : m' = m
          · simp [hm] at h1
          · simp only [hm, if_false] at h1
            exact Or.inr ⟨ps₀, h1, h2, by simpa [hm] using h3⟩
    · rw [mem_owner_apply] at hk
      cases hcb : cb e with
      | assign m' ps =>
        exfalso
        simp only [hcb] at hk
        have he := cb_assign hcb
        subst he
        by_cases hp : p ∈ ps
        · have := assign_check hf hchk p hp m ho
          exact hk (Or.inl ⟨hp, this⟩)
        · exact hk (Or.inr ⟨hp, ho⟩)
      | other => simp only [hcb] at hk; exact absurd ho hk
      | start m' ps => simp only [hcb] at hk; exact absurd ho hk
      | fin m' =>
        simp only [hcb] at hk
        have : m = m' ∧ ∃ ps, cur s m' = some ps ∧ p ∈ ps := by
          false_or_by_contra
          rename_i hc
          exact hk ⟨ho, hc⟩
        obtain ⟨rfl, ps₀, h1, h2⟩ := this
        refine Or.inr ⟨ps₀, h1, h2, ?_⟩
        rw [completes_cons]
        simp [hcb]

/-- the callback in progress completes and releases what it listed -/
theorem completes_not_owner {c : Cfg} {p : Nat} {m : Mem} {ps : List Nat} {h : List Ev} {s s' : St}
    (hr : run c s h = some s') (hn : NoAssign p h) (hc : cur s m = some ps) (hp : p ∈ ps)
    (hcomp : completes m h = true) : (p, m) ∉ s'.owner := by
  induction h generalizing s with
  | nil => simp [completes] at hcomp
  | cons e es ih =>
    obtain ⟨_, hr'⟩ := run_cons hr
    rw [completes_cons] at hcomp
    have hcur := cur_apply c s e m
    cases hcb : cb e with
    | assign m' ps' =>
      simp only [hcb] at hcomp hcur
      exact ih hr' hn.tail (hcur ▸ hc) hcomp
    | other =>
      simp only [hcb] at hcomp hcur
      exact ih hr' hn.tail (hcur ▸ hc) hcomp
    | start m' ps' =>
      simp only [hcb] at hcomp hcur
      by_cases hm : m' = m
      · simp [hm] at hcomp
      · simp only [hm, if_false] at hcomp hcur
        exact ih hr' hn.tail (hcur ▸ hc) hcomp
    | fin m' =>
      simp only [hcb] at hcomp hcur
      by_cases hm : m' = m
      · subst hm
        intro ho
        have h1 := owner_of_no_assign hr' hn.tail ho
        rw [mem_owner_apply, hcb] at h1
        exact h1.2 ⟨rfl, ps, hc, hp⟩
      · simp only [hm, if_false] at hcomp hcur
        exact ih hr' hn.tail (hcur ▸ hc) hcomp

/-- a completed revoked/lost callback of `m` that listed `p` releases `p`, and without an assigned callback
listing `p` it stays released -/
theorem released_not_owner {c : Cfg} {p : Nat} {m : Mem} {h : List Ev} {s s' : St}
    (hr : run c s h = some s') (hn : NoAssign p h) (hrel : released m p h = true) : (p, m) ∉ s'.owner := by
  induction h generalizing s with
  | nil => simp [released] at hrel
  | cons e es ih =>
    obtain ⟨_, hr'⟩ := run_cons hr
    rw [released_cons] at hrel
    cases hcb : cb e with
    | assign m' ps' => simp only [hcb] at hrel; exact ih hr' hn.tail hrel
    | other => simp only [hcb] at hrel; exact ih hr' hn.tail hrel
    | fin m' => simp only [hcb] at hrel; exact ih hr' hn.tail hrel
    | start m' ps =>
      simp only [hcb, Bool.or_eq_true, Bool.and_eq_true, beq_iff_eq, List.contains_iff_mem] at hrel
      rcases hrel with ⟨⟨rfl, hp⟩, hcomp⟩ | hrel
      · have hcur := cur_apply c s e m'
        simp only [hcb, if_true] at hcur
        exact completes_not_owner hr' hn.tail hcur hp hcomp
      · exact ih hr' hn.tail hrel

/-- the state's callback in progress is the history's -/
theorem cur_run {c : Cfg} {m : Mem} {h : List Ev} {s s' : St} (hr : run c s h = some s') :
    cur s' m = h.foldl (progStep m) (cur s m) := by
  induction h generalizing s with
  | nil => simp [run] at hr; subst hr; rfl
  | cons e es ih =>
    obtain ⟨_, hr'⟩ := run_cons hr
    rw [List.foldl_cons, ih hr', progStep_eq, cur_apply]

theorem cur_of_run {c : Cfg} {m : Mem} {h : List Ev} {s : St} (hr : run c {} h = some s) : cur s m = inProgress m h := by
  rw [cur_run hr]; rfl

/-- the last element of a list with a property -/
theorem exists_last {α : Type} (P : α → Prop) (l : List α) (h : ∃ x ∈ l, P x) :
    ∃ a x b, l = a ++ x :: b ∧ P x ∧ ∀ y ∈ b, ¬ P y := by
  induction l with
  | nil => obtain ⟨x, hx, _⟩ := h; simp at hx
  | cons y ys ih =>
    by_cases hys : ∃ x ∈ ys, P x
    · obtain ⟨a, x, b, he, hp, hb⟩ := ih hys
      exact ⟨y :: a, x, b, by simp [he], hp, hb⟩
    · obtain ⟨x, hx, hp⟩ := h
      rcases List.mem_cons.1 hx with rfl | hx
      · exact ⟨[], x, ys, rfl, hp, fun z hz hpz => hys ⟨z, hz, hpz⟩⟩
      · exact absurd ⟨x, hx, hp⟩ hys

end Proof.Group
