import FranzVerif.Model.C16
import FranzVerif.Proof.C15b
import FranzVerif.Proof.C16f
/-! The faithful tag-count loop: step count, sticky invalidation, agreement with the early-exit model. -/
namespace Proof.C16
open Model.C15 Model.C16

theorem uvarint_bad (b : Reader) (h : b.bad = true) : b.uvarint.2.bad = true := by
  simp only [Reader.uvarint]; split <;> simp [h]

theorem span_bad (b : Reader) (l : Int) (h : b.bad = true) : (b.span l).2.bad = true := by
  simp only [Reader.span]; split <;> simp [h]

/-- a read that leaves the reader valid consumed at least one byte … -/
theorem uvarint_good (b : Reader) (h : b.uvarint.2.bad = false) : b.bad = false ∧ b.uvarint.2.src.length + 1 ≤ b.src.length := by
  simp only [Reader.uvarint] at h ⊢
  split at h
  · rename_i x r hh
    simp only [hh]
    exact ⟨by simpa using h, Proof.C16.uvDec_consumes _ _ _ _ _ hh⟩
  · simp at h

/-- … and `Span` never hands back more than it had. -/
theorem span_good (b : Reader) (l : Int) (h : (b.span l).2.bad = false) : b.bad = false ∧ (b.span l).2.src.length ≤ b.src.length := by
  simp only [Reader.span] at h ⊢
  split at h
  · simp at h
  · rename_i hc
    simp only [hc, if_false]
    exact ⟨by simpa using h, by simp⟩

/-- an invalidated reader ends the loop at once (`num > 0 && b.Ok()`): the result is an error. -/
theorem tagLoop_bad (n : Nat) (b : Reader) (t : List (Nat × Bytes)) (s : Nat) (h : b.bad = true) :
    tagLoop n b t s = (t, b, s) := by
  cases n <;> simp [tagLoop, h]

/-- **the loop is linear**: iterations ≤ remaining bytes + 1 (each iteration that leaves the reader valid consumed ≥ 2 bytes,
the first one that invalidates it is the last). -/
theorem tagLoop_steps_le (n : Nat) : ∀ (b : Reader) (t : List (Nat × Bytes)) (s : Nat),
    (tagLoop n b t s).2.2 ≤ s + (if b.bad then 0 else b.src.length + 1) := by
  induction n with
  | zero => intro b t s; simp [tagLoop]
  | succ n ih =>
    intro b t s
    by_cases hb : b.bad = true
    · simp [tagLoop, hb]
    · have hb' : b.bad = false := by simpa using hb
      simp only [tagLoop, hb', Bool.false_eq_true, if_false]
      have h := ih ((b.uvarint.2.uvarint.2.span (b.uvarint.2.uvarint.1 : Int)).2) (tagSet t b.uvarint.1 ((b.uvarint.2.uvarint.2.span (b.uvarint.2.uvarint.1 : Int)).1)) (s + 1)
      by_cases h3 : ((b.uvarint.2.uvarint.2.span (b.uvarint.2.uvarint.1 : Int)).2).bad = true
      · simp only [h3, if_true] at h; omega
      · have h3' : ((b.uvarint.2.uvarint.2.span (b.uvarint.2.uvarint.1 : Int)).2).bad = false := by simpa using h3
        obtain ⟨g2, l3⟩ := span_good _ _ h3'
        obtain ⟨g1, l2⟩ := uvarint_good _ g2
        obtain ⟨_, l1⟩ := uvarint_good _ g1
        simp only [h3', Bool.false_eq_true, if_false] at h
        omega

theorem uvarint_of_read (src : Bytes) (bd : Bool) (x : Nat) (r : Bytes) (h : readUvarint src = .ok x r) :
    Reader.uvarint { src := src, bad := bd } = (x, { src := r, bad := bd }) := by
  simp only [readUvarint] at h
  split at h
  · rename_i x' r' hh; cases h; simp [Reader.uvarint, hh]
  · cases h

theorem uvarint_of_err (src : Bytes) (bd : Bool) (s : Nat) (h : readUvarint src = .err s) :
    (Reader.uvarint { src := src, bad := bd }).2.bad = true := by
  simp only [readUvarint] at h
  split at h
  · cases h
  · rename_i hh; simp [Reader.uvarint, hh]

theorem span_of_read (src : Bytes) (bd : Bool) (l : Int) (b r : Bytes) (h : Model.C15.span l src = .ok b r) :
    Reader.span { src := src, bad := bd } l = (b, { src := r, bad := bd }) := by
  simp only [Model.C15.span] at h
  split at h
  · cases h
  · rename_i hc
    have hl : l.toNat ≤ src.length := by omega
    simp only [goSplit, hl, if_true, Res.ok.injEq] at h
    obtain ⟨rfl, rfl⟩ := h
    simp [Reader.span, hc]

theorem span_of_err (src : Bytes) (bd : Bool) (l : Int) (s : Nat) (h : Model.C15.span l src = .err s) :
    (Reader.span { src := src, bad := bd } l).2.bad = true := by
  simp only [Model.C15.span] at h
  split at h
  · rename_i hc; simp [Reader.span, hc]
  · rename_i hc
    have hl : l.toNat ≤ src.length := by omega
    simp [goSplit, hl] at h

/-- where `Model.C15.readRawTags` succeeds, the loop as the code runs it ends on a valid reader with the same remaining input,
has applied the same `Tags.Set` calls and has run exactly `n` iterations. -/
theorem loop_agrees_ok (n : Nat) : ∀ (src : Bytes) (l : List (Nat × Bytes)) (r : Bytes) (acc : List (Nat × Bytes)) (s : Nat),
    readRawTags n src = .ok l r →
    tagLoop n { src := src, bad := false } acc s =
      (l.foldl (fun a (e : Nat × Bytes) => tagSet a e.1 e.2) acc, { src := r, bad := false }, s + n) := by
  induction n with
  | zero => intro src l r acc s h; simp only [readRawTags] at h; cases h; simp [tagLoop]
  | succ n ih =>
    intro src l r acc s h
    simp only [readRawTags] at h
    cases h1 : readUvarint src with
    | ok key r1 =>
      simp only [h1, Res.andThen_ok] at h
      cases h2 : readUvarint r1 with
      | ok size r2 =>
        simp only [h2, Res.andThen_ok] at h
        cases h3 : Model.C15.span (size : Int) r2 with
        | ok b r3 =>
          simp only [h3, Res.map_ok] at h
          cases h4 : readRawTags n r3 with
          | ok l' r' =>
            simp only [h4, Res.map_ok, Res.ok.injEq] at h
            obtain ⟨rfl, rfl⟩ := h
            simp only [tagLoop, Bool.false_eq_true, if_false, uvarint_of_read _ _ _ _ h1, uvarint_of_read _ _ _ _ h2, span_of_read _ _ _ _ _ h3]
            rw [ih r3 l' r' _ _ h4]
            simp only [List.foldl_cons]
            congr 2; omega
          | err s' => simp [h4] at h
          | panic m => simp [h4] at h
        | err s' => simp [h3] at h
        | panic m => simp [h3] at h
      | err s' => simp [h2] at h
      | panic m => simp [h2] at h
    | err s' => simp [h1] at h
    | panic m => simp [h1] at h

/-- where `Model.C15.readRawTags` answers `.err`, the loop as the code runs it ends on an invalidated reader (`Complete()` then
returns `ErrNotEnoughData`): ending the model's decode at the first failed read does not change the outcome. -/
theorem loop_agrees_err (n : Nat) : ∀ (src : Bytes) (k : Nat) (acc : List (Nat × Bytes)) (s : Nat),
    readRawTags n src = .err k → (tagLoop n { src := src, bad := false } acc s).2.1.bad = true := by
  induction n with
  | zero => intro src k acc s h; simp [readRawTags] at h
  | succ n ih =>
    intro src k acc s h
    simp only [readRawTags] at h
    simp only [tagLoop, Bool.false_eq_true, if_false]
    cases h1 : readUvarint src with
    | ok key r1 =>
      rw [uvarint_of_read _ _ _ _ h1]
      simp only [h1, Res.andThen_ok] at h
      cases h2 : readUvarint r1 with
      | ok size r2 =>
        rw [uvarint_of_read _ _ _ _ h2]
        simp only [h2, Res.andThen_ok] at h
        cases h3 : Model.C15.span (size : Int) r2 with
        | ok b r3 =>
          rw [span_of_read _ _ _ _ _ h3]
          simp only [h3, Res.map_ok] at h
          cases h4 : readRawTags n r3 with
          | ok l' r' => simp [h4] at h
          | err s' => exact ih r3 s' _ _ h4
          | panic m => simp [h4] at h
        | err s' => rw [tagLoop_bad n _ _ _ (span_of_err _ _ _ _ h3)]; exact span_of_err _ _ _ _ h3
        | panic m =>
          have := (safe_span_np (size : Int) r2) m
          exact absurd h3 this
      | err s' =>
        have hb := span_bad ((Reader.uvarint { src := r1, bad := false }).2) ((Reader.uvarint { src := r1, bad := false }).1 : Int) (uvarint_of_err _ _ _ h2)
        rw [tagLoop_bad n _ _ _ hb]; exact hb
      | panic m => simp [readUvarint] at h2; split at h2 <;> cases h2
    | err s' =>
      have hb := span_bad ((Reader.uvarint (Reader.uvarint { src := src, bad := false }).2).2) ((Reader.uvarint (Reader.uvarint { src := src, bad := false }).2).1 : Int) (uvarint_bad _ (uvarint_of_err _ _ _ h1))
      rw [tagLoop_bad n _ _ _ hb]; exact hb
    | panic m => simp [readUvarint] at h1; split at h1 <;> cases h1
where
  safe_span_np (l : Int) (src : Bytes) : ∀ m, Model.C15.span l src ≠ .panic m := by
    intro m h
    simp only [Model.C15.span] at h
    split at h
    · cases h
    · rename_i hc
      have hl : l.toNat ≤ src.length := by omega
      simp [goSplit, hl] at h

/-- **`steps(decode b) ≤ |b| + 1`** for the tag reader. -/
theorem steps_linear (src : Bytes) : steps src ≤ src.length + 1 := by
  simp only [steps, internalReadTags]
  have h := tagLoop_steps_le (Reader.uvarint { src := src, bad := false }).1 (Reader.uvarint { src := src, bad := false }).2 [] 0
  by_cases hb : (Reader.uvarint { src := src, bad := false }).2.bad = true
  · simp only [hb, if_true] at h; omega
  · have hb' : (Reader.uvarint { src := src, bad := false }).2.bad = false := by simpa using hb
    obtain ⟨_, l1⟩ := uvarint_good _ hb'
    simp only [hb', Bool.false_eq_true, if_false] at h
    simp only at l1
    omega

end Proof.C16
