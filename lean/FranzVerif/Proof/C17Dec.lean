import FranzVerif.Model.C17
import FranzVerif.Spec.C17
import FranzVerif.Proof.C17
/-! C17 — the 10-byte decoder `uvarlong`, proved through a generic lemma about the unrolled loop.

`ulGo inp fuel i k acc` is the tail of the unrolled decoder from byte index `i` on (`fuel` more
continuation levels may follow, `k = 7*i` is the shift, `acc` the bits accumulated so far). The
transcription `Model.C17.uvarlong` is *definitionally* `ulGo` at fuel 9 (`uvarlong_eq_ulGo`, by
unfolding), and `ulGo_spec` is proved by induction on the fuel. -/
namespace Proof.C17
open Model.C17
open Spec.C17 hiding Bytes

/-- the unrolled 64-bit decoder from level `i` on -/
def ulGo (inp : Bytes) : (fuel i k : Nat) → (acc : BitVec 64) → Option (BitVec 64 × Int)
  | 0, i, k, acc =>
    (idx? inp i).bind fun b =>
    let x := acc ||| up64 b k
    if b ≤ 0x01#8 then some (x, ((i + 1 : Nat) : Int)) else some (0, -10)
  | f + 1, i, k, acc =>
    (idx? inp i).bind fun b =>
    let x := acc ||| lo64 b k
    if fin b then some (x, ((i + 1 : Nat) : Int)) else if inp.length < i + 2 then some (0, 0) else
    ulGo inp f (i + 1) (k + 7) x

theorem uvarlong_eq_ulGo (inp : Bytes) :
    uvarlong inp =
      if inp.length < 1 then some (0, 0) else
      (idx? inp 0).bind fun b0 =>
      let x := m64 b0
      if fin b0 then some (x, 1) else if inp.length < 2 then some (0, 0) else
      ulGo inp 8 1 7 x := by
  rfl

/-- what the Spec says about the rest of the input from level `i` on, given the accumulated value -/
def restSpec (a k maxRest : Nat) (i : Nat) (rest : Bytes) : Nat × Int :=
  match leb (rest.take maxRest) with
  | some (v, n) => if a + v * 2 ^ k < 18446744073709551616 then (a + v * 2 ^ k, ((i + n : Nat) : Int)) else (0, -10)
  | none => if rest.length < maxRest then (0, 0) else (0, -10)

theorem leb_cons_lt (b : Byte) (r : Bytes) (h : b.toNat < 128) : leb (b :: r) = some (b.toNat, 1) := by
  simp [leb, h]
theorem leb_cons_ge (b : Byte) (r : Bytes) (h : ¬ b.toNat < 128) :
    leb (b :: r) = match leb r with | some (v, n) => some (b.toNat - 128 + 128 * v, n + 1) | none => none := by
  rw [leb]; simp only [h, if_false]
  rcases leb r with _ | ⟨v, n⟩ <;> rfl

theorem idx_append (pre rest : Bytes) (b : Byte) : idx? (pre ++ b :: rest) pre.length = some b := by
  simp [idx?]

theorem ulGo_spec (fuel : Nat) : ∀ (i : Nat) (acc : BitVec 64) (pre rest : Bytes) (b : Byte),
    pre.length = i → i + fuel = 9 → acc.toNat < 2 ^ (7 * i) →
    ulGo (pre ++ b :: rest) fuel i (7 * i) acc =
      some (BitVec.ofNat 64 (restSpec acc.toNat (7 * i) (fuel + 1) i (b :: rest)).1,
            (restSpec acc.toNat (7 * i) (fuel + 1) i (b :: rest)).2) := by
  induction fuel with
  | zero =>
    intro i acc pre rest b hp hi hacc
    have hi9 : i = 9 := by omega
    subst hi9
    have hb := b.isLt
    simp only [Nat.reduceMul, Nat.reducePow] at hacc
    rw [ulGo, ← hp, idx_append, hp]
    simp only [Option.bind_some, restSpec, Nat.zero_add, List.take_succ_cons, List.take_zero, Nat.reduceMul]
    by_cases hle : b.toNat ≤ 1
    · have hlt : b.toNat < 128 := by omega
      have e := or_up64 acc b (by simpa using (by omega : b.toNat < 2)) (by simpa using hacc)
      simp only [Nat.reducePow] at e
      rw [if_pos (by simpa [BitVec.le_def] using hle), leb_cons_lt b [] hlt]
      simp only
      rw [if_pos (by omega)]
      simp only [Option.some.injEq, Prod.mk.injEq, and_true]
      apply BitVec.eq_of_toNat_eq
      rw [e, BitVec.toNat_ofNat]; simp only [Nat.reducePow]; omega
    · rw [if_neg (by simpa [BitVec.le_def] using hle)]
      by_cases hlt : b.toNat < 128
      · rw [leb_cons_lt b [] hlt]
        simp only
        rw [if_neg (by omega)]; rfl
      · rw [leb_cons_ge b [] hlt]
        simp [leb]
  | succ f ih =>
    intro i acc pre rest b hp hi hacc
    have hb := b.isLt
    have hk : 7 * i + 7 ≤ 64 := by omega
    have e := or_lo64 acc b (7 * i) hk hacc
    have hx : (acc ||| lo64 b (7 * i)).toNat < 2 ^ (7 * (i + 1)) := by
      rw [e, Nat.mul_add, Nat.pow_add]
      have : b.toNat % 128 < 128 := Nat.mod_lt _ (by decide)
      have hp2 : 0 < 2 ^ (7 * i) := Nat.two_pow_pos _
      calc acc.toNat + b.toNat % 128 * 2 ^ (7 * i)
          < 2 ^ (7 * i) + 127 * 2 ^ (7 * i) := by
            have : b.toNat % 128 * 2 ^ (7 * i) ≤ 127 * 2 ^ (7 * i) := Nat.mul_le_mul_right _ (by omega)
            omega
        _ = 2 ^ (7 * i) * 2 ^ (7 * 1) := by simp only [Nat.reduceMul, Nat.reducePow]; omega
    rw [ulGo, ← hp, idx_append, hp]
    simp only [Option.bind_some]
    by_cases hlt : b.toNat < 128
    · rw [if_pos (by simp [fin_iff, hlt])]
      simp only [restSpec, leb_cons_lt b _ hlt, List.take_succ_cons]
      have hfit : acc.toNat + b.toNat * 2 ^ (7 * i) < 18446744073709551616 := by
        have := (acc ||| lo64 b (7 * i)).isLt
        rw [e, Nat.mod_eq_of_lt hlt] at this
        simpa using this
      rw [if_pos hfit]
      simp only [Option.some.injEq, Prod.mk.injEq, and_true]
      apply BitVec.eq_of_toNat_eq
      rw [e, BitVec.toNat_ofNat, Nat.mod_eq_of_lt hlt]
      exact (Nat.mod_eq_of_lt (by simpa using hfit)).symm
    · rw [if_neg (by simp [fin_iff, hlt])]
      rcases rest with _ | ⟨b', rest'⟩
      · rw [if_pos (by simp; omega)]
        simp [restSpec, leb_cons_ge b _ hlt, leb]
      · rw [if_neg (by simp; omega)]
        have := ih (i + 1) (acc ||| lo64 b (7 * i)) (pre ++ [b]) rest' b' (by simp [hp]) (by omega) hx
        rw [List.append_assoc, List.singleton_append] at this
        rw [show 7 * i + 7 = 7 * (i + 1) by omega, this]
        simp only [restSpec, List.take_succ_cons, leb_cons_ge b _ hlt, e, List.length_cons]
        have hm : b.toNat % 128 = b.toNat - 128 := by omega
        rcases hl : leb (b' :: List.take f rest') with _ | ⟨v, n⟩
        · simp only; split <;> split <;> first | rfl | omega
        · simp only
          have harith : acc.toNat + b.toNat % 128 * 2 ^ (7 * i) + v * 2 ^ (7 * (i + 1)) =
              acc.toNat + (b.toNat - 128 + 128 * v) * 2 ^ (7 * i) := by
            rw [hm, Nat.mul_add 7 i 1, Nat.pow_add, Nat.add_mul, Nat.mul_assoc 128 v, Nat.mul_left_comm 128 v]
            simp only [Nat.reduceMul, Nat.reducePow]
            rw [Nat.mul_comm 128 (2 ^ (7 * i))]; omega
          rw [harith, show i + 1 + n = i + (n + 1) by omega]

theorem uvarlong_exact (inp : Bytes) :
    uvarlong inp = some (BitVec.ofNat 64 (decU 64 10 inp).1, (decU 64 10 inp).2) := by
  rw [uvarlong_eq_ulGo]
  rcases inp with _ | ⟨b0, inp⟩
  · simp [decU, leb]
  rw [if_neg (by simp), show idx? (b0 :: inp) 0 = some b0 from rfl]
  simp only [Option.bind_some]
  have hb := b0.isLt
  have e0 : (m64 b0).toNat = b0.toNat % 128 := m64_toNat b0
  by_cases hlt : b0.toNat < 128
  · rw [if_pos (by simp [fin_iff, hlt])]
    simp only [decU, List.take_succ_cons, leb_cons_lt b0 _ hlt]
    rw [if_pos (by omega)]
    simp only [Option.some.injEq, Prod.mk.injEq]
    refine ⟨?_, rfl⟩
    apply BitVec.eq_of_toNat_eq
    rw [e0, BitVec.toNat_ofNat]; omega
  · rw [if_neg (by simp [fin_iff, hlt])]
    rcases inp with _ | ⟨b1, rest⟩
    · simp [decU, leb_cons_ge b0 _ hlt, leb]
    · rw [if_neg (by simp)]
      have := ulGo_spec 8 1 (m64 b0) [b0] rest b1 rfl rfl (by rw [e0]; omega)
      rw [List.singleton_append] at this
      rw [show (7 : Nat) = 7 * 1 from rfl, this]
      simp only [restSpec, decU, List.take_succ_cons, leb_cons_ge b0 _ hlt, e0, List.length_cons]
      rcases hl : leb (b1 :: List.take 8 rest) with _ | ⟨v, n⟩
      · simp only; split <;> split <;> first | rfl | omega
      · simp only [Nat.reduceMul, Nat.reducePow]
        have : b0.toNat % 128 + v * 128 = b0.toNat - 128 + 128 * v := by omega
        rw [this, show 1 + n = n + 1 by omega]
        rfl

end Proof.C17
