import FranzVerif.Model.C25
/-! Helper lemmas for Props/C25 and Props/C27 (core Lean only). -/
namespace Proof.C25
open Model.C25

/-! ### sorting -/

theorem insertBy_perm (le : α → α → Bool) (x : α) (l : List α) : (insertBy le x l).Perm (x :: l) := by
  induction l with
  | nil => exact List.Perm.refl _
  | cons y ys ih =>
    simp only [insertBy]
    split
    · exact List.Perm.refl _
    · exact ((List.Perm.cons y ih).trans (List.Perm.swap x y ys))

theorem sortBy_perm (l : List α) (le : α → α → Bool) : (sortBy le l).Perm l := by
  induction l with
  | nil => exact List.Perm.refl _
  | cons x xs ih => exact (insertBy_perm le x _).trans (List.Perm.cons x ih)

/-! ### dedup -/

theorem mem_dedupAux [BEq α] [LawfulBEq α] (seen l : List α) (x : α) :
    x ∈ dedupAux seen l ↔ x ∈ l ∧ x ∉ seen := by
  induction l generalizing seen with
  | nil => simp [dedupAux]
  | cons a as ih =>
    simp only [dedupAux]
    cases h : seen.contains a with
    | true =>
      simp only [if_true, ih, List.mem_cons]
      have hm : a ∈ seen := List.contains_iff_mem.mp h
      constructor
      · rintro ⟨h1, h2⟩; exact ⟨Or.inr h1, h2⟩
      · rintro ⟨h1 | h1, h2⟩
        · subst h1; exact absurd hm h2
        · exact ⟨h1, h2⟩
    | false =>
      simp only [Bool.false_eq_true, if_false, List.mem_cons, ih]
      have hn : a ∉ seen := fun hm => by
        have := List.contains_iff_mem.mpr hm; rw [h] at this; exact Bool.noConfusion this
      constructor
      · rintro (h1 | ⟨h1, h2⟩)
        · subst h1; exact ⟨Or.inl rfl, hn⟩
        · exact ⟨Or.inr h1, fun hm => h2 (Or.inr hm)⟩
      · rintro ⟨h1 | h1, h2⟩
        · exact Or.inl h1
        · by_cases hx : x = a
          · exact Or.inl hx
          · exact Or.inr ⟨h1, fun hm => hm.elim hx h2⟩

theorem nodup_dedupAux [BEq α] [LawfulBEq α] (seen l : List α) : (dedupAux seen l).Nodup := by
  induction l generalizing seen with
  | nil => simp [dedupAux]
  | cons a as ih =>
    simp only [dedupAux]
    cases h : seen.contains a with
    | true => simp only [if_true]; exact ih seen
    | false =>
      simp only [Bool.false_eq_true, if_false]
      refine List.nodup_cons.mpr ⟨?_, ih _⟩
      intro hm
      have := (mem_dedupAux (a :: seen) as a).mp hm
      exact this.2 (List.mem_cons_self)

theorem mem_dedup [BEq α] [LawfulBEq α] (l : List α) (x : α) : x ∈ dedup l ↔ x ∈ l := by
  simp [dedup, mem_dedupAux]

theorem nodup_dedup [BEq α] [LawfulBEq α] (l : List α) : (dedup l).Nodup := nodup_dedupAux [] l

/-! ### filtering a keyed flatMap -/

theorem filter_flatMap_key {α β κ} [BEq κ] [LawfulBEq κ] (l : List α) (f : α → List β) (key : β → κ) (k : α → κ)
    (hkey : ∀ a, ∀ x ∈ f a, key x = k a) (hnd : (l.map k).Nodup) (a : α) (ha : a ∈ l) :
    (l.flatMap f).filter (fun x => key x == k a) = f a := by
  induction l with
  | nil => cases ha
  | cons b bs ih =>
    simp only [List.flatMap_cons, List.filter_append]
    simp only [List.map_cons, List.nodup_cons] at hnd
    by_cases hb : k b = k a
    · -- b's block is kept entirely, the rest contributes nothing
      have h1 : (f b).filter (fun x => key x == k a) = f b := by
        apply List.filter_eq_self.mpr
        intro x hx; simp [hkey b x hx, hb]
      have h2 : (bs.flatMap f).filter (fun x => key x == k a) = [] := by
        apply List.filter_eq_nil_iff.mpr
        intro x hx
        obtain ⟨c, hc, hxc⟩ := List.mem_flatMap.mp hx
        have : key x = k c := hkey c x hxc
        intro he
        have he' : k c = k a := by rw [← this]; exact eq_of_beq he
        exact hnd.1 (List.mem_map.mpr ⟨c, hc, by rw [he', hb]⟩)
      rw [h1, h2, List.append_nil]
      cases List.mem_cons.mp ha with
      | inl e => rw [e]
      | inr hm => exact absurd (List.mem_map.mpr ⟨a, hm, hb.symm⟩) hnd.1
    · have h1 : (f b).filter (fun x => key x == k a) = [] := by
        apply List.filter_eq_nil_iff.mpr
        intro x hx he
        exact hb (by rw [← hkey b x hx]; exact eq_of_beq he)
      rw [h1, List.nil_append]
      cases List.mem_cons.mp ha with
      | inl e => exact absurd (by rw [e]) hb
      | inr hm => exact ih hnd.2 hm

theorem filter_flatMap_key_none {α β κ} [BEq κ] [LawfulBEq κ] (l : List α) (f : α → List β) (key : β → κ) (k : α → κ)
    (hkey : ∀ a, ∀ x ∈ f a, key x = k a) (t : κ) (ht : ∀ a ∈ l, k a ≠ t) :
    (l.flatMap f).filter (fun x => key x == t) = [] := by
  apply List.filter_eq_nil_iff.mpr
  intro x hx he
  obtain ⟨c, hc, hxc⟩ := List.mem_flatMap.mp hx
  exact ht c hc (by rw [← hkey c x hxc]; exact eq_of_beq he)

/-! ### the Spec, introduction rule -/

theorem validPlan_intro (subs : List (String × List String)) (n : String → Nat) (P : List Triple)
    (h1 : ∀ x ∈ P, (∃ s ∈ subs, s.1 = x.1 ∧ x.2.1 ∈ s.2) ∧ x.2.2 < n x.2.1)
    (h2 : ∀ t ∈ subs.flatMap (·.2), ((P.filter fun x => x.2.1 == t).map (·.2.2)).Perm (List.range (n t))) :
    validPlan subs n P = true := by
  simp only [validPlan, Bool.and_eq_true, List.all_eq_true, List.any_eq_true, decide_eq_true_eq, beq_iff_eq,
    List.contains_iff_mem]
  refine ⟨fun x hx => ?_, fun t ht => List.isPerm_iff.mpr (h2 t ht)⟩
  obtain ⟨⟨s, hs, e1, e2⟩, h⟩ := h1 x hx
  exact ⟨⟨s, hs, e1, e2⟩, h⟩

/-! ### quotas, splitting -/

theorem length_indexFrom (k : Nat) (l : List α) : (indexFrom k l).length = l.length := by
  induction l generalizing k with
  | nil => rfl
  | cons a as ih => simp [indexFrom, ih]

/-- Σ of the quotas of consumers k … k+len-1. -/
theorem sum_quotas (d r k : Nat) (l : List α) :
    ((indexFrom k l).map (quotaOf d r)).sum = l.length * d + (min r (k + l.length) - min r k) := by
  induction l generalizing k with
  | nil => simp [indexFrom]
  | cons a as ih =>
    simp only [indexFrom, List.map_cons, List.sum_cons, ih, List.length_cons, quotaOf]
    rw [Nat.succ_mul]
    split <;> omega

theorem sum_quotas_all (numP : Nat) (l : List α) (h : l ≠ []) :
    ((indexFrom 0 l).map (quotaOf (numP / l.length) (numP % l.length))).sum = numP := by
  have hl : 0 < l.length := List.length_pos_iff.mpr h
  rw [sum_quotas]
  have h1 := Nat.mod_lt numP hl
  have h2 := Nat.div_add_mod numP l.length
  have h3 : l.length * (numP / l.length) = l.length * (numP / l.length) := rfl
  simp only [Nat.zero_add, Nat.min_zero, Nat.sub_zero]
  rw [Nat.min_eq_left (Nat.le_of_lt h1)]
  omega

theorem flatten_splitBy (qs : List Nat) (l : List α) : (splitBy qs l).flatten = l.take qs.sum := by
  induction qs generalizing l with
  | nil => simp [splitBy]
  | cons q qs ih =>
    simp only [splitBy, List.flatten_cons, ih, List.sum_cons]
    rw [List.take_add]

theorem length_splitBy (qs : List Nat) (l : List α) : (splitBy qs l).length = qs.length := by
  induction qs generalizing l with
  | nil => rfl
  | cons q qs ih => simp [splitBy, ih]

end Proof.C25

namespace Proof.C25
open Model.C25

/-! ### range -/

theorem map_part_tag (t : String) (cs : List Member) (ls : List (List Nat)) (h : ls.length ≤ cs.length) :
    (tag t cs ls).map (·.2.2) = ls.flatten := by
  induction cs generalizing ls with
  | nil => cases ls with
    | nil => simp [tag]
    | cons l ls => simp at h
  | cons c cs ih =>
    cases ls with
    | nil => simp [tag]
    | cons l ls =>
      simp only [List.length_cons, Nat.add_le_add_iff_right] at h
      simp [tag, ih ls h, Function.comp_def]

theorem mem_tag (t : String) (cs : List Member) (ls : List (List Nat)) (x : Triple) (hx : x ∈ tag t cs ls) :
    x.2.1 = t ∧ ∃ c ∈ cs, x.1 = c.id := by
  induction cs generalizing ls with
  | nil => cases ls <;> simp [tag] at hx
  | cons c cs ih =>
    cases ls with
    | nil => simp [tag] at hx
    | cons l ls =>
      simp only [tag, List.mem_append, List.mem_map] at hx
      rcases hx with ⟨p, _, rfl⟩ | hx
      · exact ⟨rfl, c, List.mem_cons_self, rfl⟩
      · obtain ⟨h1, c', hc', h2⟩ := ih ls hx
        exact ⟨h1, c', List.mem_cons_of_mem _ hc', h2⟩

theorem phase1Take_spec (numP : Nat) (racks : List String) (q : Nat) (c : Member) (a : List Nat) :
    (phase1Take numP racks q c a).Nodup ∧ (phase1Take numP racks q c a).length ≤ q ∧
    ∀ p ∈ phase1Take numP racks q c a, p < numP ∧ p ∉ a := by
  unfold phase1Take
  split
  · split
    · simp
    · refine ⟨?_, List.length_take_le _ _, ?_⟩
      · exact List.Nodup.sublist ((List.take_sublist _ _).trans List.filter_sublist) List.nodup_range
      · intro p hp
        have := List.mem_filter.mp (List.mem_of_mem_take hp)
        refine ⟨List.mem_range.mp this.1, ?_⟩
        intro hm
        have h2 := this.2
        simp only [Bool.and_eq_true, Bool.not_eq_true', ] at h2
        have := List.contains_iff_mem.mpr hm
        rw [h2.1] at this; exact Bool.noConfusion this
  · simp

theorem length_phase1 (numP : Nat) (racks : List String) (d r : Nat) (cs : List Member) (ci : Nat) (a : List Nat) :
    (phase1 numP racks d r cs ci a).length = cs.length := by
  induction cs generalizing ci a with
  | nil => rfl
  | cons c cs ih => simp [phase1, ih]

theorem phase1_spec (numP : Nat) (racks : List String) (d r : Nat) (cs : List Member) (ci : Nat) (a : List Nat) :
    (phase1 numP racks d r cs ci a).flatten.Nodup ∧
    (∀ p ∈ (phase1 numP racks d r cs ci a).flatten, p < numP ∧ p ∉ a) ∧
    ((indexFrom ci cs).zipWith (fun i tk => quotaOf d r i - tk.length) (phase1 numP racks d r cs ci a)).sum
      + (phase1 numP racks d r cs ci a).flatten.length = ((indexFrom ci cs).map (quotaOf d r)).sum := by
  induction cs generalizing ci a with
  | nil => simp [phase1, indexFrom]
  | cons c cs ih =>
    obtain ⟨t1, t2, t3⟩ := phase1Take_spec numP racks (quotaOf d r ci) c a
    obtain ⟨i1, i2, i3⟩ := ih (ci + 1) (a ++ phase1Take numP racks (quotaOf d r ci) c a)
    simp only [phase1, List.flatten_cons, indexFrom, List.zipWith_cons_cons, List.sum_cons, List.length_append,
      List.map_cons]
    refine ⟨?_, ?_, ?_⟩
    · refine List.nodup_append.mpr ⟨t1, i1, ?_⟩
      intro x hx y hy hxy
      subst hxy
      exact (i2 x hy).2 (List.mem_append_right _ hx)
    · intro p hp
      rcases List.mem_append.mp hp with hp | hp
      · exact t3 p hp
      · exact ⟨(i2 p hp).1, fun hm => (i2 p hp).2 (List.mem_append_left _ hm)⟩
    · omega

/-- a duplicate-free list of numbers below `n` and the rest of `range n` make up `range n`. -/
theorem perm_range_of_nodup (n : Nat) (F : List Nat) (hnd : F.Nodup) (hlt : ∀ p ∈ F, p < n) :
    (F ++ (List.range n).filter fun p => !F.contains p).Perm (List.range n) := by
  have h1 : ((List.range n).filter fun p => F.contains p).Perm F := by
    apply (List.perm_ext_iff_of_nodup (List.Nodup.sublist List.filter_sublist List.nodup_range) hnd).mpr
    intro p
    simp only [List.mem_filter, List.mem_range, List.contains_iff_mem]
    exact ⟨fun h => h.2, fun h => ⟨hlt p h, h⟩⟩
  exact (List.Perm.append_right _ h1.symm).trans (List.filter_append_perm _ _)

end Proof.C25

namespace Proof.C25
open Model.C25

theorem rangeTopic_parts (ms : List Member) (topics : List (String × Nat)) (racks : List (String × List String))
    (t : String) (hne : consumersOf ms t ≠ []) :
    ((rangeTopic ms topics racks t).map (·.2.2)).Perm (List.range (cnt topics t)) := by
  unfold rangeTopic
  simp only []
  generalize hcs : consumersOf ms t = cs at hne
  generalize hn : cnt topics t = numP
  generalize htr : (racks.lookup t).getD [] = tr
  generalize hT : phase1 numP tr (numP / cs.length) (numP % cs.length) cs 0 [] = T
  have hlenT : T.length = cs.length := by rw [← hT]; exact length_phase1 ..
  obtain ⟨p1, p2, p3⟩ := phase1_spec numP tr (numP / cs.length) (numP % cs.length) cs 0 []
  rw [hT] at p1 p2 p3
  rw [sum_quotas_all numP cs hne] at p3
  have hperm := perm_range_of_nodup numP T.flatten p1 (fun p hp => (p2 p hp).1)
  have hlenU := hperm.length_eq
  simp only [List.length_append, List.length_range] at hlenU
  rw [List.map_append, map_part_tag t cs T (by omega)]
  rw [map_part_tag t cs _ (by rw [length_splitBy, List.length_zipWith, length_indexFrom]; omega)]
  rw [flatten_splitBy, List.take_of_length_le (by omega)]
  exact hperm

theorem mem_consumersOf (ms : List Member) (t : String) (c : Member) (h : c ∈ consumersOf ms t) :
    c ∈ ms ∧ t ∈ c.topics := by
  unfold consumersOf sortMembers at h
  have h := (sortBy_perm _ _).mem_iff.mp h
  obtain ⟨m, hm, hc⟩ := List.mem_flatMap.mp h
  obtain ⟨x, hx, rfl⟩ := List.mem_map.mp hc
  have := List.mem_filter.mp hx
  exact ⟨hm, by have e : x = t := eq_of_beq this.2; rw [← e]; exact this.1⟩

theorem consumersOf_ne_nil (ms : List Member) (t : String) (h : t ∈ ms.flatMap (·.topics)) : consumersOf ms t ≠ [] := by
  obtain ⟨m, hm, ht⟩ := List.mem_flatMap.mp h
  intro he
  have : m ∈ consumersOf ms t := by
    unfold consumersOf sortMembers
    apply (sortBy_perm _ _).mem_iff.mpr
    apply List.mem_flatMap.mpr
    refine ⟨m, hm, List.mem_map.mpr ⟨t, List.mem_filter.mpr ⟨ht, by simp⟩, rfl⟩⟩
  rw [he] at this; cases this

theorem mem_rangeTopic (ms : List Member) (topics : List (String × Nat)) (racks : List (String × List String))
    (t : String) (x : Triple) (hx : x ∈ rangeTopic ms topics racks t) :
    x.2.1 = t ∧ ∃ c ∈ ms, x.1 = c.id ∧ t ∈ c.topics := by
  unfold rangeTopic at hx
  simp only [] at hx
  rcases List.mem_append.mp hx with hx | hx <;>
  · obtain ⟨h1, c, hc, h2⟩ := mem_tag _ _ _ _ hx
    exact ⟨h1, c, (mem_consumersOf ms t c hc).1, h2, (mem_consumersOf ms t c hc).2⟩

theorem balanceRange_valid (ms : List Member) (topics : List (String × Nat)) (racks : List (String × List String)) :
    validPlan (subsOf ms) (cnt topics) (balanceRange ms topics racks) = true := by
  have hfilter : ∀ t ∈ ms.flatMap (·.topics),
      (balanceRange ms topics racks).filter (fun x => x.2.1 == t) = rangeTopic ms topics racks t := by
    intro t ht
    have := filter_flatMap_key (subTopics ms) (rangeTopic ms topics racks) (fun x : Triple => x.2.1) id
      (fun a x hx => (mem_rangeTopic ms topics racks a x hx).1) (by rw [List.map_id]; exact nodup_dedup _) t
      ((mem_dedup _ _).mpr ht)
    simpa [balanceRange] using this
  apply validPlan_intro
  · intro x hx
    obtain ⟨t, ht, hxt⟩ := List.mem_flatMap.mp hx
    obtain ⟨h1, c, hc, h2, h3⟩ := mem_rangeTopic ms topics racks t x hxt
    have ht' : t ∈ ms.flatMap (·.topics) := (mem_dedup _ _).mp ht
    refine ⟨⟨(c.id, c.topics), List.mem_map.mpr ⟨c, hc, rfl⟩, h2.symm, by rw [h1]; exact h3⟩, ?_⟩
    have hp := rangeTopic_parts ms topics racks t (consumersOf_ne_nil ms t ht')
    have : x.2.2 ∈ (rangeTopic ms topics racks t).map (·.2.2) := List.mem_map.mpr ⟨x, hxt, rfl⟩
    rw [h1]
    exact List.mem_range.mp (hp.mem_iff.mp this)
  · intro t ht
    have ht' : t ∈ ms.flatMap (·.topics) := by
      simpa [subsOf, List.flatMap_map] using ht
    rw [hfilter t ht']
    exact rangeTopic_parts ms topics racks t (consumersOf_ne_nil ms t ht')

end Proof.C25

namespace Proof.C25
open Model.C25

/-! ### plans that hand out a sorted list of all partitions (round robin, kfake) -/

theorem parts_of_tps_mem (ts : List String) (hnd : ts.Nodup) (n : String → Nat) (L : List TP)
    (hL : L.Perm (ts.flatMap fun t => (List.range (n t)).map fun p => (t, p))) (t : String) (ht : t ∈ ts) :
    ((L.filter (·.1 == t)).map (·.2)).Perm (List.range (n t)) := by
  have h := (hL.filter (·.1 == t)).map (·.2)
  have := filter_flatMap_key ts (fun t => (List.range (n t)).map fun p => ((t, p) : TP)) (fun x : TP => x.1) id
    (fun a x hx => by obtain ⟨p, _, rfl⟩ := List.mem_map.mp hx; rfl) (by rw [List.map_id]; exact hnd) t ht
  simp only [id] at this
  rw [this] at h
  simpa [Function.comp_def] using h

theorem parts_of_tps_not_mem (ts : List String) (n : String → Nat) (L : List TP)
    (hL : L.Perm (ts.flatMap fun t => (List.range (n t)).map fun p => (t, p))) (t : String) (ht : t ∉ ts) :
    ((L.filter (·.1 == t)).map (·.2)) = [] := by
  have h := (hL.filter (·.1 == t)).map (·.2)
  have := filter_flatMap_key_none ts (fun t => (List.range (n t)).map fun p => ((t, p) : TP)) (fun x : TP => x.1) id
    (fun a x hx => by obtain ⟨p, _, rfl⟩ := List.mem_map.mp hx; rfl) t (fun a ha e => ht (by have e' : a = t := e; rw [← e']; exact ha))
  rw [this] at h
  simpa using h.eq_nil

theorem parts_via_tp (P : List Triple) (t : String) :
    (P.filter (fun x => x.2.1 == t)).map (·.2.2) = (((P.map Triple.tp).filter (·.1 == t)).map (·.2)) := by
  induction P with
  | nil => rfl
  | cons x xs ih =>
    simp only [List.map_cons, List.filter_cons, Triple.tp]
    split <;> simp [ih]

/-! ### round robin -/

theorem rrFind_some (ms : List Member) (t : String) (start : Nat) (h : ∃ m ∈ ms, t ∈ m.topics) :
    ∃ i m, rrFind ms t start = some i ∧ ms[i]? = some m ∧ t ∈ m.topics := by
  obtain ⟨m, hm, ht⟩ := h
  obtain ⟨j, hj, hjm⟩ := List.getElem_of_mem hm
  have hn : 0 < ms.length := by omega
  -- the walk reaches index j
  have hreach : ∃ k, k < ms.length ∧ (start + k) % ms.length = j := by
    have hs := Nat.mod_lt start hn
    by_cases hc : start % ms.length ≤ j
    · refine ⟨j - start % ms.length, by omega, ?_⟩
      rw [Nat.add_mod, Nat.mod_eq_of_lt (show j - start % ms.length < ms.length by omega)]
      rw [show start % ms.length + (j - start % ms.length) = j by omega]
      exact Nat.mod_eq_of_lt hj
    · refine ⟨j + ms.length - start % ms.length, by omega, ?_⟩
      rw [Nat.add_mod, Nat.mod_eq_of_lt (show j + ms.length - start % ms.length < ms.length by omega)]
      rw [show start % ms.length + (j + ms.length - start % ms.length) = j + ms.length by omega]
      rw [Nat.add_mod_right]
      exact Nat.mod_eq_of_lt hj
  obtain ⟨k, hk, hkj⟩ := hreach
  have hsome : (rrFind ms t start).isSome = true := by
    unfold rrFind
    rw [List.find?_isSome]
    refine ⟨j, List.mem_map.mpr ⟨k, List.mem_range.mpr hk, hkj⟩, ?_⟩
    rw [List.getElem?_eq_getElem hj, hjm]
    simpa using ht
  obtain ⟨i, hi⟩ := Option.isSome_iff_exists.mp hsome
  have hp := List.find?_some (by unfold rrFind at hi; exact hi)
  cases hmi : ms[i]? with
  | none => simp [hmi] at hp
  | some m' =>
    simp only [hmi] at hp
    exact ⟨i, m', hi, hmi, by simpa using hp⟩

theorem rrGo_spec (ms : List Member) (idx : Nat) (parts : List TP)
    (h : ∀ tp ∈ parts, ∃ m ∈ ms, tp.1 ∈ m.topics) :
    ∃ P, rrGo ms idx parts = some P ∧ P.map Triple.tp = parts ∧
      ∀ x ∈ P, ∃ m ∈ ms, x.1 = m.id ∧ x.2.1 ∈ m.topics := by
  induction parts generalizing idx with
  | nil => exact ⟨[], rfl, rfl, by simp⟩
  | cons tp rest ih =>
    obtain ⟨t, p⟩ := tp
    obtain ⟨i, m, h1, h2, h3⟩ := rrFind_some ms t idx (h (t, p) List.mem_cons_self)
    obtain ⟨P, hP, hmap, hall⟩ := ih ((i + 1) % ms.length) (fun tp htp => h tp (List.mem_cons_of_mem _ htp))
    refine ⟨(m.id, t, p) :: P, ?_, ?_, ?_⟩
    · simp [rrGo, h1, h2, hP]
    · simp [Triple.tp, hmap]
    · intro x hx
      rcases List.mem_cons.mp hx with rfl | hx
      · exact ⟨m, List.mem_of_getElem? h2, rfl, h3⟩
      · exact hall x hx

theorem balanceRR_valid (ms : List Member) (topics : List (String × Nat)) :
    ∃ P, balanceRR ms topics = some P ∧ validPlan (subsOf ms) (cnt topics) P = true := by
  have hperm : (allParts ms topics).Perm
      ((subTopics ms).flatMap fun t => (List.range (cnt topics t)).map fun p => (t, p)) := sortBy_perm _ _
  have hsub : ∀ tp ∈ allParts ms topics, tp.1 ∈ ms.flatMap (·.topics) ∧ tp.2 < cnt topics tp.1 := by
    intro tp htp
    obtain ⟨t, ht, hx⟩ := List.mem_flatMap.mp (hperm.mem_iff.mp htp)
    obtain ⟨p, hp, rfl⟩ := List.mem_map.mp hx
    exact ⟨(mem_dedup _ _).mp ht, List.mem_range.mp hp⟩
  obtain ⟨P, hP, hmap, hall⟩ := rrGo_spec ms 0 (allParts ms topics) (fun tp htp => by
    obtain ⟨m, hm, ht⟩ := List.mem_flatMap.mp (hsub tp htp).1
    exact ⟨m, hm, ht⟩)
  refine ⟨P, hP, validPlan_intro _ _ _ ?_ ?_⟩
  · intro x hx
    obtain ⟨m, hm, h1, h2⟩ := hall x hx
    refine ⟨⟨(m.id, m.topics), List.mem_map.mpr ⟨m, hm, rfl⟩, h1.symm, h2⟩, ?_⟩
    have : Triple.tp x ∈ allParts ms topics := by rw [← hmap]; exact List.mem_map.mpr ⟨x, hx, rfl⟩
    exact (hsub _ this).2
  · intro t ht
    have ht' : t ∈ ms.flatMap (·.topics) := by simpa [subsOf, List.flatMap_map] using ht
    rw [parts_via_tp, hmap]
    exact parts_of_tps_mem (subTopics ms) (nodup_dedup _) (cnt topics) _ hperm t ((mem_dedup _ _).mpr ht')

end Proof.C25
