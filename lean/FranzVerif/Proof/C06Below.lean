import FranzVerif.Model.C06
/-! C06 — every returned record lies below the next offset (all inputs). Core Lean only. -/
namespace Proof.C06
open Model.C06

/-- every returned record has an offset below the next offset -/
def Below (s : St) : Prop := ∀ r ∈ s.out, r.offset < s.off

theorem below_of_same {s s' : St} (ho : s'.out = s.out) (hf : s.off ≤ s'.off) (h : Below s) : Below s' := by
  intro r hr; rw [ho] at hr; have := h r hr; omega

theorem maybeKeep_shape (o : Opts) (s : St) (r : Rec) (ab : Bool) :
    (r.offset < s.off ∧ maybeKeepRecord o s r ab = s) ∨
    (¬ r.offset < s.off ∧ ((maybeKeepRecord o s r ab).out = s.out ∨ (maybeKeepRecord o s r ab).out = s.out ++ [r]) ∧
      (maybeKeepRecord o s r ab).off = r.offset + 1) := by
  unfold maybeKeepRecord
  split
  · left; exact ⟨by assumption, rfl⟩
  · right
    refine ⟨by assumption, ?_, rfl⟩
    simp only
    repeat' split
    all_goals simp

theorem maybeKeep_below (o : Opts) (s : St) (r : Rec) (ab : Bool) (h : Below s) : Below (maybeKeepRecord o s r ab) := by
  rcases maybeKeep_shape o s r ab with ⟨_, e⟩ | ⟨hge, ho, hf⟩
  · rw [e]; exact h
  · intro x hx
    rw [hf]
    rcases ho with ho | ho
    · rw [ho] at hx; have := h x hx; omega
    · rw [ho] at hx
      rcases List.mem_append.mp hx with h1 | h1
      · have := h x h1; omega
      · simp at h1; subst h1; omega

theorem procRecords_below (o : Opts) (b : Batch) (ab : Bool) :
    ∀ (ks : List KRec) (slab : Nat) (handled : Bool) (s s' : St),
      procRecords o b ab ks slab handled s = some s' → Below s → Below s' := by
  intro ks
  induction ks with
  | nil => intro slab handled s s' h hb; simp [procRecords] at h; subst h; exact hb
  | cons k ks ih =>
    intro slab handled s s' h hb
    have hk := maybeKeep_below o s (recordToRecord b k) ab hb
    unfold procRecords at h
    simp only at h
    split at h
    · simp at h
    · split at h
      · split at h
        · simp at h
        · split at h
          · simp at h
          · exact ih _ _ _ _ h hk
        · exact ih _ _ _ _ h hk
      · exact ih _ _ _ _ h hk

theorem processRecordBatch_below (o : Opts) (s s' : St) (b : Batch) (h : processRecordBatch o s b = some s') (hb : Below s) : Below s' := by
  unfold processRecordBatch at h
  simp only at h
  split at h; · simp at h; subst h; exact hb
  split at h; · simp at h; subst h; exact hb
  split at h; · simp at h; subst h; exact hb
  split at h; · simp at h; subst h; exact hb
  split at h; · simp at h; subst h; exact hb
  split at h; · simp at h
  split at h; · simp at h
  split at h; · simp at h
  rename_i s2 hp
  have h2 := procRecords_below _ _ _ _ _ _ _ _ hp hb
  injection h with h
  subst h
  have key : ∀ (C : Prop) [Decidable C] (X : Int), (C → s2.off < X) → Below (if C then { s2 with off := X } else s2) := by
    intro C _ X hC
    split
    · rename_i hc; have := hC hc
      exact below_of_same (s := s2) rfl (by simp only; omega) h2
    · exact h2
  exact key _ _ (fun hc => hc.2)

theorem processMessage_below (o : Opts) (s : St) (m : Msg) (hb : Below s) : Below (processMessage o s m).1 := by
  unfold processMessage
  repeat' split
  all_goals first | exact hb | exact maybeKeep_below _ _ _ _ hb

theorem processInner_below (o : Opts) (base : Int) (codec : Nat) (lat : Option Int) : ∀ (ms : List Msg) (s : St), Below s → Below (processInner o base codec lat s ms) := by
  intro ms
  induction ms with
  | nil => intro s hb; simpa [processInner] using hb
  | cons m ms ih =>
    intro s hb
    unfold processInner
    simp only
    have h1 := processMessage_below o s (innerSeen base codec lat m) hb
    split
    · exact ih _ h1
    · exact h1

theorem setErr_below (s : St) (e : Option Err) (hb : Below s) : Below (setErr s e) := by
  cases e <;> exact hb

theorem processOuter_below (o : Opts) (s s' : St) (m : Msg) (inner : Inner) (h : processOuter o s m inner = some s') (hb : Below s) : Below s' := by
  unfold processOuter at h
  simp only at h
  split at h; · simp at h; subst h; exact processMessage_below _ _ _ hb
  split at h; · simp at h; subst h; exact hb
  have hs1 := setErr_below s inner.err hb
  generalize setErr s inner.err = s1 at h hs1
  split at h
  · split at h
    · simp at h
    · cases h; exact hs1
  · split at h; · simp at h
    split at h
    · split at h
      · split at h
        · simp at h
        · split at h
          · cases h; exact hs1
          · cases h; exact processInner_below _ _ _ _ _ _ hs1
      · cases h; exact processInner_below _ _ _ _ _ _ hs1
    · cases h; exact processInner_below _ _ _ _ _ _ hs1

theorem stepItem_below (o : Opts) (s s' : St) (it : Item) (h : stepItem o s it = some s') (hb : Below s) : Below s' := by
  cases it with
  | panic => simp [stepItem] at h
  | stop e => simp [stepItem] at h; subst h; exact hb
  | badMagic off =>
    simp [stepItem] at h; subst h
    exact below_of_same (s := s) rfl (by simp only; split <;> omega) hb
  | batch b =>
    simp only [stepItem] at h
    cases hp : processRecordBatch o s b with
    | none => simp [hp] at h
    | some s2 =>
      have := processRecordBatch_below o s s2 b hp hb
      simp [hp] at h; subst h; split
      · exact this
      · exact this
  | msg m i =>
    simp only [stepItem] at h
    cases hp : processOuter o s m i with
    | none => simp [hp] at h
    | some s2 =>
      have := processOuter_below o s s2 m i hp hb
      simp [hp] at h; subst h; split
      · exact this
      · exact this

theorem walk_below (o : Opts) : ∀ (items : List Item) (s s' : St), walk o s items = some s' → Below s → Below s' := by
  intro items
  induction items with
  | nil => intro s s' h hb; simp [walk] at h; subst h; exact hb
  | cons it its ih =>
    intro s s' h hb
    unfold walk at h
    split at h
    · simp at h; subst h; exact hb
    · cases hs : stepItem o s it with
      | none => simp [hs] at h
      | some s2 =>
        simp [hs] at h
        exact ih s2 s' h (stepItem_below o s s2 it hs hb)

end Proof.C06
