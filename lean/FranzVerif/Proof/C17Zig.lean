import FranzVerif.Model.C17
import FranzVerif.Spec.C17
import FranzVerif.Proof.C17
import FranzVerif.Proof.C17Dec
/-! C17 — zig-zag: the Go expressions `(i << 1) ^ (i >> 31)` and `(u >> 1) ^ -(u & 1)` compute the
Spec's integer zig-zag maps (`Spec.C17.zz` / `unzz`) on every 32/64-bit value; hence they are inverse
bijections, and `Varint`/`Varlong` round-trip. Kernel only: `toNat`/`toInt` + `omega`. -/
namespace Proof.C17
open Model.C17
open Spec.C17 hiding Bytes

/-! ## Spec level: `zz` and `unzz` are inverse -/
theorem unzz_zz (i : Int) : unzz (zz i) = i := by
  unfold zz unzz
  by_cases h : 0 ≤ i
  · simp only [h, if_true]
    have : (2 * i).toNat % 2 = 0 := by omega
    rw [if_pos this]; omega
  · simp only [h, if_false]
    have : ¬ (-2 * i - 1).toNat % 2 = 0 := by omega
    rw [if_neg this]; omega

theorem zz_unzz (n : Nat) : zz (unzz n) = n := by
  unfold zz unzz
  by_cases h : n % 2 = 0
  · simp only [h, if_true]
    rw [if_pos (by omega)]; omega
  · simp only [h, if_false]
    rw [if_neg (by omega)]; omega

/-! ## encode side -/
theorem zigzag32_spec (i : BitVec 32) : (zigzag32 i).toNat = zz i.toInt := by
  have hi := i.isLt
  unfold zigzag32 zz
  by_cases hm : i.msb = false
  · rw [BitVec.sshiftRight_eq_of_msb_false hm]
    have hlt : i.toNat < 2147483648 := by
      rw [BitVec.msb_eq_decide] at hm; simpa using hm
    have h0 : i >>> 31 = 0#32 := by
      apply BitVec.eq_of_toNat_eq
      simp [Nat.shiftRight_eq_div_pow]; omega
    rw [h0, BitVec.xor_zero, BitVec.toNat_shiftLeft, Nat.shiftLeft_eq, BitVec.toInt_eq_toNat_of_msb hm]
    simp only [Nat.reducePow]
    rw [if_pos (by omega)]; omega
  · have hm : i.msb = true := by simpa using hm
    rw [BitVec.sshiftRight_eq_of_msb_true hm]
    have hge : 2147483648 ≤ i.toNat := by
      rw [BitVec.msb_eq_decide] at hm; simpa using hm
    have h0 : ~~~i >>> 31 = 0#32 := by
      apply BitVec.eq_of_toNat_eq
      simp [Nat.shiftRight_eq_div_pow]; omega
    rw [h0]
    have : ~~~(0#32) = BitVec.allOnes 32 := by simp
    rw [this, BitVec.xor_allOnes, BitVec.toNat_not, BitVec.toNat_shiftLeft, Nat.shiftLeft_eq, BitVec.toInt_eq_toNat_cond]
    simp only [Nat.reducePow]
    rw [if_neg (by omega), if_neg (by omega)]
    omega

theorem zigzag64_spec (i : BitVec 64) : (zigzag64 i).toNat = zz i.toInt := by
  have hi := i.isLt
  unfold zigzag64 zz
  by_cases hm : i.msb = false
  · rw [BitVec.sshiftRight_eq_of_msb_false hm]
    have hlt : i.toNat < 9223372036854775808 := by
      rw [BitVec.msb_eq_decide] at hm; simpa using hm
    have h0 : i >>> 63 = 0#64 := by
      apply BitVec.eq_of_toNat_eq
      simp [Nat.shiftRight_eq_div_pow]; omega
    rw [h0, BitVec.xor_zero, BitVec.toNat_shiftLeft, Nat.shiftLeft_eq, BitVec.toInt_eq_toNat_of_msb hm]
    simp only [Nat.reducePow]
    rw [if_pos (by omega)]; omega
  · have hm : i.msb = true := by simpa using hm
    rw [BitVec.sshiftRight_eq_of_msb_true hm]
    have hge : 9223372036854775808 ≤ i.toNat := by
      rw [BitVec.msb_eq_decide] at hm; simpa using hm
    have h0 : ~~~i >>> 63 = 0#64 := by
      apply BitVec.eq_of_toNat_eq
      simp [Nat.shiftRight_eq_div_pow]; omega
    rw [h0]
    have : ~~~(0#64) = BitVec.allOnes 64 := by simp
    rw [this, BitVec.xor_allOnes, BitVec.toNat_not, BitVec.toNat_shiftLeft, Nat.shiftLeft_eq, BitVec.toInt_eq_toNat_cond]
    simp only [Nat.reducePow]
    rw [if_neg (by omega), if_neg (by omega)]
    omega

/-! ## decode side -/
theorem unzigzag32_spec (u : BitVec 32) : (unzigzag32 u).toInt = unzz u.toNat := by
  have hu := u.isLt
  unfold unzigzag32 unzz
  have hand : (u &&& 1#32).toNat = u.toNat % 2 := by
    rw [BitVec.toNat_and]; simp [Nat.and_one_is_mod]
  have hsh : (u >>> 1).toNat = u.toNat / 2 := by simp [Nat.shiftRight_eq_div_pow]
  by_cases h : u.toNat % 2 = 0
  · have h0 : u &&& 1#32 = 0#32 := by apply BitVec.eq_of_toNat_eq; rw [hand, h]; rfl
    rw [h0, BitVec.neg_zero, BitVec.xor_zero, if_pos h, BitVec.toInt_eq_toNat_cond, hsh]
    simp only [Nat.reducePow]
    rw [if_pos (by omega)]
  · have h1 : u &&& 1#32 = 1#32 := by apply BitVec.eq_of_toNat_eq; rw [hand]; simp; omega
    have : -(1#32) = BitVec.allOnes 32 := by decide
    rw [h1, this, BitVec.xor_allOnes, if_neg h, BitVec.toInt_eq_toNat_cond, BitVec.toNat_not, hsh]
    simp only [Nat.reducePow]
    rw [if_neg (by omega)]; omega

theorem unzigzag64_spec (u : BitVec 64) : (unzigzag64 u).toInt = unzz u.toNat := by
  have hu := u.isLt
  unfold unzigzag64 unzz
  have hand : (u &&& 1#64).toNat = u.toNat % 2 := by
    rw [BitVec.toNat_and]; simp [Nat.and_one_is_mod]
  have hsh : (u >>> 1).toNat = u.toNat / 2 := by simp [Nat.shiftRight_eq_div_pow]
  by_cases h : u.toNat % 2 = 0
  · have h0 : u &&& 1#64 = 0#64 := by apply BitVec.eq_of_toNat_eq; rw [hand, h]; rfl
    rw [h0, BitVec.neg_zero, BitVec.xor_zero, if_pos h, BitVec.toInt_eq_toNat_cond, hsh]
    simp only [Nat.reducePow]
    rw [if_pos (by omega)]
  · have h1 : u &&& 1#64 = 1#64 := by apply BitVec.eq_of_toNat_eq; rw [hand]; simp; omega
    have : -(1#64) = BitVec.allOnes 64 := by decide
    rw [h1, this, BitVec.xor_allOnes, if_neg h, BitVec.toInt_eq_toNat_cond, BitVec.toNat_not, hsh]
    simp only [Nat.reducePow]
    rw [if_neg (by omega)]; omega

/-! ## inverse bijections on the bit vectors -/
theorem unzigzag32_zigzag32 (i : BitVec 32) : unzigzag32 (zigzag32 i) = i := by
  apply BitVec.eq_of_toInt_eq
  rw [unzigzag32_spec, zigzag32_spec, unzz_zz]
theorem zigzag32_unzigzag32 (u : BitVec 32) : zigzag32 (unzigzag32 u) = u := by
  apply BitVec.eq_of_toNat_eq
  rw [zigzag32_spec, unzigzag32_spec, zz_unzz]
theorem unzigzag64_zigzag64 (i : BitVec 64) : unzigzag64 (zigzag64 i) = i := by
  apply BitVec.eq_of_toInt_eq
  rw [unzigzag64_spec, zigzag64_spec, unzz_zz]
theorem zigzag64_unzigzag64 (u : BitVec 64) : zigzag64 (unzigzag64 u) = u := by
  apply BitVec.eq_of_toNat_eq
  rw [zigzag64_spec, unzigzag64_spec, zz_unzz]

end Proof.C17
