import FranzVerif.Proof.C31Gate
/-! C31 — the gate at the observable level: the ghost bookkeeping `out` (polls outstanding by returns of
`waitAndAddPoller` / `unaddPoller` / `AllowRebalance`) against the rebalance section, under the hypothesis
`viol = false` (no `AllowRebalance` returned while a thread was inside its fill). -/
namespace Model.C31.Gate

/-- incremented the poller count, `waitAndAddPoller` not yet returned -/
def pu (t : Th) : Nat := match t.pc with | .pUnlock _ => 1 | _ => 0
/-- ran the decrement of `unaddPoller`, not yet returned -/
def uu (t : Th) : Nat := match t.pc with | .uUnlock _ => 1 | _ => 0
/-- reset the poller count, `AllowRebalance` not yet returned -/
def au (t : Th) : Nat := match t.pc with | .aUnlock => 1 | _ => 0
/-- inside its fill: `waitAndAddPoller` returned, `unaddPoller` not yet -/
def fl (t : Th) : Nat := match t.pc with | .uLock _ | .uUnlock _ => 1 | _ => 0
/-- inside its fill with a poll that an `AllowRebalance` already cleared -/
def stale (ep : Nat) (t : Th) : Nat := match t.pc with
  | .uLock e | .uUnlock e => if e = ep then 0 else 1 | _ => 0
/-- between the return of `waitAndAddRebalance` and the return of `unaddRebalance` -/
def insObs (t : Th) : Nat := match t.pc with | .xLock | .xUnlock => 1 | _ => 0

structure OI (s : St Sh Th) : Prop where
  st : cnt (stale s.sh.ep) s.ths = 0
  F : s.sh.fill = cnt fl s.ths
  O : cnt au s.ths = 0 → s.sh.pollers + cnt uu s.ths = s.sh.out + cnt pu s.ths
  A : cnt au s.ths > 0 → s.sh.pollers = 0
  G : s.sh.fill ≤ s.sh.out
  H : cnt ins s.ths > 0 → s.sh.out = 0 ∧ cnt fl s.ths = 0 ∧ cnt pu s.ths = 0

structure CInv (s : St Sh Th) : Prop where
  g : GInv s
  o : s.sh.viol = false → OI s

theorem start_zero' (ep : Nat) (p : List Op) : pu (start p) = 0 ∧ uu (start p) = 0 ∧ au (start p) = 0 ∧ fl (start p) = 0 ∧ stale ep (start p) = 0 := by
  match p with
  | [] => simp [start, pu, uu, au, fl, stale]
  | .P :: _ => simp [start, pu, uu, au, fl, stale]
  | .Q :: _ => simp [start, pu, uu, au, fl, stale]
  | .A :: _ => simp [start, pu, uu, au, fl, stale]
  | .R :: _ => simp [start, pu, uu, au, fl, stale]

theorem init_cinv (progs : List (List Op)) : CInv (init progs) := by
  refine ⟨init_inv progs, fun _ => ?_⟩
  have hz : ∀ f : Th → Nat, (∀ p, f (start p) = 0) → cnt f (progs.map start) = 0 := by
    intro f hf; rw [cnt_map]; exact cnt_zero hf _
  have h1 := hz pu (fun p => (start_zero' 0 p).1)
  have h2 := hz uu (fun p => (start_zero' 0 p).2.1)
  have h3 := hz au (fun p => (start_zero' 0 p).2.2.1)
  have h4 := hz fl (fun p => (start_zero' 0 p).2.2.2.1)
  have h5 := hz (stale 0) (fun p => (start_zero' 0 p).2.2.2.2)
  have h6 := hz ins (fun p => (start_zero p).2.2.1)
  constructor <;> simp [init, h1, h2, h3, h4, h5, h6]

theorem pu_wake (t : Th) : pu (wake t) = pu t := by obtain ⟨pc, p⟩ := t; cases pc <;> rfl
theorem uu_wake (t : Th) : uu (wake t) = uu t := by obtain ⟨pc, p⟩ := t; cases pc <;> rfl
theorem au_wake (t : Th) : au (wake t) = au t := by obtain ⟨pc, p⟩ := t; cases pc <;> rfl
theorem fl_wake (t : Th) : fl (wake t) = fl t := by obtain ⟨pc, p⟩ := t; cases pc <;> rfl
theorem stale_wake (ep : Nat) (t : Th) : stale ep (wake t) = stale ep t := by obtain ⟨pc, p⟩ := t; cases pc <;> rfl

theorem obs_le (l : List Th) : cnt pu l ≤ cnt hold l ∧ cnt uu l ≤ cnt hold l ∧ cnt au l ≤ cnt hold l ∧
    cnt pu l + cnt uu l + cnt au l ≤ cnt hold l ∧ cnt insObs l ≤ cnt ins l := by
  refine ⟨cnt_le ?_ l, cnt_le ?_ l, cnt_le ?_ l, ?_, cnt_le ?_ l⟩
  · intro t; obtain ⟨pc, p⟩ := t; cases pc <;> simp [pu, hold]
  · intro t; obtain ⟨pc, p⟩ := t; cases pc <;> simp [uu, hold]
  · intro t; obtain ⟨pc, p⟩ := t; cases pc <;> simp [au, hold]
  · rw [← cnt_add, ← cnt_add]; apply cnt_le; intro t; obtain ⟨pc, p⟩ := t; cases pc <;> simp [pu, uu, au, hold]
  · intro t; obtain ⟨pc, p⟩ := t; cases pc <;> simp [insObs, ins]

theorem stale_le (ep : Nat) (l : List Th) : cnt (stale ep) l ≤ cnt fl l := by
  apply cnt_le; intro t; obtain ⟨pc, p⟩ := t; cases pc <;> simp [stale, fl] <;> split <;> omega

set_option maxHeartbeats 4000000 in
theorem cinv_step (sh : Sh) (pre post : List Th) (t : Th) (sh' : Sh) (t' : Th) (b : Bool) (ev : String)
    (hI : CInv ⟨sh, pre ++ t :: post⟩) (hs : stepT sh t = some (sh', t', b, ev)) :
    CInv ⟨sh', sys.wakeAll b pre ++ t' :: sys.wakeAll b post⟩ := by
  obtain ⟨hg, ho⟩ := hI
  refine ⟨inv_step _ _ _ _ _ _ _ _ hg hs, ?_⟩
  intro hv
  obtain ⟨h1, h2, _, h4, _, _⟩ := hg
  simp only [cnt_append, cnt_cons] at h1 h2 h4
  have e1 := fun l => sys.cnt_wakeAll_eq (f := pu) (fun t => pu_wake t) b l
  have e2 := fun l => sys.cnt_wakeAll_eq (f := uu) (fun t => uu_wake t) b l
  have e3 := fun l => sys.cnt_wakeAll_eq (f := au) (fun t => au_wake t) b l
  have e4 := fun l => sys.cnt_wakeAll_eq (f := fl) (fun t => fl_wake t) b l
  have e5 := fun ep l => sys.cnt_wakeAll_eq (f := stale ep) (fun t => stale_wake ep t) b l
  have e6 := fun l => sys.cnt_wakeAll_eq (f := ins) (fun t => ins_wake t) b l
  obtain ⟨a1, a2, a3, a4, _⟩ := obs_le pre
  obtain ⟨b1, b2, b3, b4, _⟩ := obs_le post
  have il1 := ins_le pre; have il2 := ins_le post
  obtain ⟨pc, prog⟩ := t
  obtain ⟨mu, pollers, rebal, corrupt, out, fill, viol, ep⟩ := sh
  obtain ⟨z1, z2, z3, z4, z5⟩ := start_zero' ep prog
  obtain ⟨_, _, _, _, z6⟩ := start_zero' (ep + 1) prog
  obtain ⟨_, _, z7, _, _⟩ := start_zero prog
  have sl1 := stale_le (ep + 1) pre; have sl2 := stale_le (ep + 1) post
  cases mu <;> cases pc <;> simp only [stepT, pollerEnter, pollerRewake, rebalLoop] at hs
  all_goals (repeat' (split at hs))
  all_goals (try (exact absurd trivial ‹¬True›))
  all_goals (try (simp at hs; done))
  all_goals (simp only [Option.some.injEq, Prod.mk.injEq] at hs; obtain ⟨rfl, rfl, hb, _⟩ := hs)
  all_goals (try simp only [Bool.or_eq_false_iff, decide_eq_false_iff_not] at hv)
  all_goals (have hv0 : viol = false := by first | exact hv | exact hv.1)
  all_goals (obtain ⟨o1, o2, o3, o4, o5, o6⟩ := ho hv0)
  all_goals (simp only [cnt_append, cnt_cons] at o1 o2 o3 o4 o5 o6)
  all_goals (constructor <;> simp only [cnt_append, cnt_cons, e1, e2, e3, e4, e5, e6, z1, z2, z3, z4, z5, z6, z7])
  all_goals (simp [hold, rcount, ins, muN, pu, uu, au, fl, stale] at h1 h2 h4 o1 o2 o3 o4 o5 o6 hv ⊢)
  all_goals (first | omega | (refine ⟨?_, ?_⟩ <;> omega) | (refine ⟨?_, ?_, ?_⟩ <;> omega) | skip)

theorem reach_cinv {progs : List (List Op)} {s : St Sh Th} (hr : sys.Reach (init progs) s) : CInv s :=
  Sys.inv_of_local sys (init_cinv progs) cinv_step hr

end Model.C31.Gate
