import FranzVerif.Model.StartOff
/-! Helper lemmas for C40: arithmetic of `clamp`, least elements (`leastOr`, `firstAtOrAfter`), the history-level
observables of the `off` monitor and the invariant relating the monitor state to them. -/
namespace Proof.StartOff
open Model.StartOff

/-! ### clamp -/

theorem clamp_ge {lo hi : Nat} (h : lo ≤ hi) (v : Int) : lo ≤ clamp lo hi v := by
  unfold clamp; split
  · exact Nat.le_refl _
  · split
    · exact h
    · omega

theorem clamp_le {lo hi : Nat} (h : lo ≤ hi) (v : Int) : clamp lo hi v ≤ hi := by
  unfold clamp; split
  · exact h
  · split
    · exact Nat.le_refl _
    · omega

theorem clamp_id {lo hi : Nat} {v : Int} (h1 : (lo : Int) ≤ v) (h2 : v ≤ (hi : Int)) : (clamp lo hi v : Int) = v := by
  unfold clamp
  rw [if_neg (by omega), if_neg (by omega)]
  omega

theorem clamp_mono {lo hi : Nat} (h : lo ≤ hi) {v w : Int} (hvw : v ≤ w) : clamp lo hi v ≤ clamp lo hi w := by
  unfold clamp
  split <;> split <;> (try split) <;> (try split) <;> omega

/-! ### least elements -/

theorem foldl_min_le_init (l : List Nat) (d : Nat) : l.foldl min d ≤ d := by
  induction l generalizing d with
  | nil => exact Nat.le_refl _
  | cons a l ih => exact Nat.le_trans (ih (min d a)) (Nat.min_le_left _ _)

theorem foldl_min_le_mem (l : List Nat) (d : Nat) : ∀ a ∈ l, l.foldl min d ≤ a := by
  induction l generalizing d with
  | nil => intro a ha; cases ha
  | cons b l ih =>
    intro a ha
    rcases List.mem_cons.1 ha with rfl | h
    · exact Nat.le_trans (foldl_min_le_init l (min d a)) (Nat.min_le_right _ _)
    · exact ih (min d b) a h

theorem foldl_min_mem (l : List Nat) (d : Nat) : l.foldl min d = d ∨ l.foldl min d ∈ l := by
  induction l generalizing d with
  | nil => exact Or.inl rfl
  | cons b l ih =>
    rcases ih (min d b) with h | h
    · simp only [List.foldl_cons]
      rw [h]
      rcases Nat.le_total d b with hd | hd
      · exact Or.inl (Nat.min_eq_left hd)
      · exact Or.inr (by rw [Nat.min_eq_right hd]; exact List.mem_cons_self)
    · exact Or.inr (List.mem_cons_of_mem _ h)

theorem foldl_min_mono (l : List Nat) {d e : Nat} (h : d ≤ e) : l.foldl min d ≤ l.foldl min e := by
  induction l generalizing d e with
  | nil => exact h
  | cons b l ih =>
    apply ih
    omega

theorem leastOr_le (d : Nat) (l : List Nat) : leastOr d l ≤ d := foldl_min_le_init l d
theorem leastOr_le_mem (d : Nat) (l : List Nat) : ∀ a ∈ l, leastOr d l ≤ a := foldl_min_le_mem l d
theorem leastOr_mem (d : Nat) (l : List Nat) : leastOr d l = d ∨ leastOr d l ∈ l := foldl_min_mem l d

/-- a lower bound of the list and of the default is a lower bound of the least element -/
theorem le_leastOr {d : Nat} {l : List Nat} {b : Nat} (hd : b ≤ d) (hl : ∀ a ∈ l, b ≤ a) : b ≤ leastOr d l := by
  rcases leastOr_mem d l with h | h
  · rw [h]; exact hd
  · exact hl _ h

/-- the least element can only grow when the list shrinks -/
theorem leastOr_anti {d : Nat} {l l' : List Nat} (h : ∀ a ∈ l', a ∈ l) : leastOr d l ≤ leastOr d l' :=
  le_leastOr (leastOr_le d l) (fun a ha => leastOr_le_mem d l a (h a ha))

theorem firstAtOrAfter_some {ret : List Nat} {p f : Nat} (h : firstAtOrAfter ret p = some f) :
    f ∈ ret ∧ p ≤ f ∧ ∀ o ∈ ret, p ≤ o → f ≤ o := by
  unfold firstAtOrAfter at h
  split at h
  · cases h
  · rename_i a l heq
    injection h with h
    subst h
    have hmem : ∀ o, o ∈ ret.filter (fun o => decide (p ≤ o)) ↔ o ∈ a :: l := by intro o; rw [heq]
    have hin : l.foldl min a ∈ a :: l := by
      rcases foldl_min_mem l a with h | h
      · rw [h]; exact List.mem_cons_self
      · exact List.mem_cons_of_mem _ h
    have h1 := (hmem _).2 hin
    rw [List.mem_filter] at h1
    refine ⟨h1.1, by simpa using h1.2, ?_⟩
    intro o ho hpo
    have : o ∈ a :: l := (hmem o).1 (List.mem_filter.2 ⟨ho, by simpa using hpo⟩)
    rcases List.mem_cons.1 this with rfl | h
    · exact foldl_min_le_init l o
    · exact foldl_min_le_mem l a o h

theorem firstAtOrAfter_none {ret : List Nat} {p : Nat} (h : firstAtOrAfter ret p = none) : ∀ o ∈ ret, o < p := by
  unfold firstAtOrAfter at h
  split at h
  · rename_i heq
    intro o ho
    by_cases hp : p ≤ o
    · have : o ∈ ret.filter (fun o => decide (p ≤ o)) := List.mem_filter.2 ⟨ho, by simpa using hp⟩
      rw [heq] at this
      cases this
    · omega
  · cases h

/-! ### candidates of AfterMilli -/

theorem mem_milliCands {s : Shape} {hi t o : Nat} :
    o ∈ milliCands s hi t ↔ ∃ ts, (o, ts) ∈ s.recs ∧ s.start ≤ o ∧ o < hi ∧ t ≤ ts := by
  unfold milliCands
  simp only [List.mem_map, List.mem_filter, Bool.and_eq_true, decide_eq_true_eq]
  constructor
  · rintro ⟨⟨o', ts⟩, ⟨hm, ⟨h1, h2⟩, h3⟩, rfl⟩
    exact ⟨ts, hm, h1, h2, h3⟩
  · rintro ⟨ts, hm, h1, h2, h3⟩
    exact ⟨(o, ts), ⟨hm, ⟨h1, h2⟩, h3⟩, rfl⟩

/-! ### observables of a history -/

def ackedEv : Ev → Option (Nat × Nat × Nat × Nat)
  | .acked a b c d => some (a, b, c, d) | _ => none
def txnEv : Ev → Option (Nat × Bool)
  | .txnEnd k c => some (k, c) | _ => none
def logEv : Ev → Option (Nat × Nat × Bool)
  | .logRec o t c => some (o, t, c) | _ => none
def shapeEv : Ev → Option (Nat × Nat × Nat)
  | .shape a b c => some (a, b, c) | _ => none
def groupEv : Ev → Option Nat
  | .groupCommit o => some o | _ => none
def offsetEv : Ev → Option Offset
  | .offset o => some o | _ => none
def firstEv : Ev → Option (Option Nat)
  | .first f => some f | _ => none

/-- acknowledged records `(off, ts, batch, txn)` in order -/
def ackedOf (h : List Ev) := h.filterMap ackedEv
/-- transaction decisions `(txn, commit)` -/
def txnsOf (h : List Ev) := h.filterMap txnEv
/-- the final log as read back `(off, ts, ctl)` -/
def logOf (h : List Ev) := h.filterMap logEv
/-- the partition `(start, lso, hwm)` when the consumer started -/
def shapeOf (h : List Ev) := h.findSome? shapeEv
/-- the committed group offset -/
def groupOf (h : List Ev) := h.findSome? groupEv
/-- the `Offset` the consumer was given -/
def offsetOf (h : List Ev) := h.findSome? offsetEv
/-- the first record the consumer returned (`some none`: it returned nothing) -/
def firstOf (h : List Ev) := h.findSome? firstEv

theorem filterMap_snoc {α β : Type} (f : α → Option β) (h : List α) (e : α) :
    (h ++ [e]).filterMap f = h.filterMap f ++ (f e).toList := by
  simp only [List.filterMap_append]; cases hh : f e <;> simp [hh]

theorem findSome_snoc {α β : Type} (f : α → Option β) (h : List α) (e : α) :
    (h ++ [e]).findSome? f = (h.findSome? f).or (f e) := by
  simp only [List.findSome?_append]; cases hh : f e <;> simp [hh]

structure Inv (h : List Ev) (s : St) : Prop where
  acked : s.acked = ackedOf h
  txns : s.txns = txnsOf h
  log : s.log = logOf h
  shape : s.shape = shapeOf h
  group : s.group = groupOf h
  offset : s.offset = offsetOf h
  first : s.first = firstOf h

theorem Inv.init : Inv [] {} := by
  constructor <;> rfl

theorem Inv.step {c : Cfg} {h : List Ev} {s : St} (hi : Inv h s) (ev : Ev) (hchk : check c s ev = none) :
    Inv (h ++ [ev]) (apply c s ev) := by
  obtain ⟨h1, h2, h3, h4, h5, h6, h7⟩ := hi
  cases ev with
  | acked a b cc d =>
    constructor <;> simp only [ackedOf, txnsOf, logOf, shapeOf, groupOf, offsetOf, firstOf, filterMap_snoc, findSome_snoc,
      ackedEv, txnEv, logEv, shapeEv, groupEv, offsetEv, firstEv, Option.toList, List.append_nil, Option.or_none, apply] <;>
      first | assumption | (rw [h1]; rfl)
  | txnEnd k cm =>
    constructor <;> simp only [ackedOf, txnsOf, logOf, shapeOf, groupOf, offsetOf, firstOf, filterMap_snoc, findSome_snoc,
      ackedEv, txnEv, logEv, shapeEv, groupEv, offsetEv, firstEv, Option.toList, List.append_nil, Option.or_none, apply] <;>
      first | assumption | (rw [h2]; rfl)
  | logRec o t cl =>
    constructor <;> simp only [ackedOf, txnsOf, logOf, shapeOf, groupOf, offsetOf, firstOf, filterMap_snoc, findSome_snoc,
      ackedEv, txnEv, logEv, shapeEv, groupEv, offsetEv, firstEv, Option.toList, List.append_nil, Option.or_none, apply] <;>
      first | assumption | (rw [h3]; rfl)
  | deleted _ | fetchErr | nothingYet | quiesce =>
    constructor <;> simp only [ackedOf, txnsOf, logOf, shapeOf, groupOf, offsetOf, firstOf, filterMap_snoc, findSome_snoc,
      ackedEv, txnEv, logEv, shapeEv, groupEv, offsetEv, firstEv, Option.toList, List.append_nil, Option.or_none, apply] <;>
      assumption
  | shape a b cc =>
    have hn : s.shape = none := by
      simp only [check] at hchk
      cases hs : s.shape with
      | none => rfl
      | some v => simp [hs] at hchk
    constructor <;> simp only [ackedOf, txnsOf, logOf, shapeOf, groupOf, offsetOf, firstOf, filterMap_snoc, findSome_snoc,
      ackedEv, txnEv, logEv, shapeEv, groupEv, offsetEv, firstEv, Option.toList, List.append_nil, Option.or_none, apply] <;>
      first | assumption | (rw [← shapeOf, ← h4, hn]; rfl)
  | groupCommit o =>
    have hn : s.group = none := by
      simp only [check] at hchk
      cases hs : s.group with
      | none => rfl
      | some v => simp [hs] at hchk
    constructor <;> simp only [ackedOf, txnsOf, logOf, shapeOf, groupOf, offsetOf, firstOf, filterMap_snoc, findSome_snoc,
      ackedEv, txnEv, logEv, shapeEv, groupEv, offsetEv, firstEv, Option.toList, List.append_nil, Option.or_none, apply] <;>
      first | assumption | (rw [← groupOf, ← h5, hn]; rfl)
  | offset o =>
    have hn : s.offset = none := by
      simp only [check] at hchk
      cases hs : s.offset with
      | none => rfl
      | some v => simp [hs] at hchk
    constructor <;> simp only [ackedOf, txnsOf, logOf, shapeOf, groupOf, offsetOf, firstOf, filterMap_snoc, findSome_snoc,
      ackedEv, txnEv, logEv, shapeEv, groupEv, offsetEv, firstEv, Option.toList, List.append_nil, Option.or_none, apply] <;>
      first | assumption | (rw [← offsetOf, ← h6, hn]; rfl)
  | first f =>
    have hn : s.first = none := by
      simp only [check] at hchk
      cases hs : s.first with
      | none => rfl
      | some v => simp [hs] at hchk
    constructor <;> simp only [ackedOf, txnsOf, logOf, shapeOf, groupOf, offsetOf, firstOf, filterMap_snoc, findSome_snoc,
      ackedEv, txnEv, logEv, shapeEv, groupEv, offsetEv, firstEv, Option.toList, List.append_nil, Option.or_none, apply] <;>
      first | assumption | (rw [← firstOf, ← h7, hn]; rfl)

/-! ### `run` on a concatenation -/

theorem step_eq_some {c : Cfg} {s s' : St} {ev : Ev} (hs : step c s ev = some s') :
    check c s ev = none ∧ s' = apply c s ev := by
  unfold step at hs
  split at hs
  · simp at hs; exact ⟨by assumption, hs.symm⟩
  · simp at hs

theorem inv_of_run_from {c : Cfg} {h₀ h : List Ev} {s₀ s : St} (hi : Inv h₀ s₀) (hacc : run c s₀ h = some s) :
    Inv (h₀ ++ h) s := by
  induction h generalizing h₀ s₀ with
  | nil => simp only [run] at hacc; cases hacc; simpa using hi
  | cons e es ih =>
    simp only [run] at hacc
    cases hs : step c s₀ e with
    | none => simp [hs] at hacc
    | some s1 =>
      simp only [hs] at hacc
      obtain ⟨hchk, rfl⟩ := step_eq_some hs
      have := ih (hi.step e hchk) hacc
      simpa using this

theorem inv_of_run {c : Cfg} {h : List Ev} {s : St} (hacc : run c {} h = some s) : Inv h s := by
  simpa using inv_of_run_from Inv.init hacc

theorem run_append (c : Cfg) (s : St) (h₁ h₂ : List Ev) :
    run c s (h₁ ++ h₂) = (run c s h₁).bind (fun s' => run c s' h₂) := by
  induction h₁ generalizing s with
  | nil => rfl
  | cons e es ih =>
    simp only [List.cons_append, run]
    cases step c s e with
    | none => rfl
    | some s' => exact ih s'

theorem run_snoc {c : Cfg} {h : List Ev} {ev : Ev} {s : St} (hacc : run c {} (h ++ [ev]) = some s) :
    ∃ s₁, run c {} h = some s₁ ∧ check c s₁ ev = none := by
  rw [run_append] at hacc
  cases h1 : run c {} h with
  | none => simp [h1] at hacc
  | some s₁ =>
    simp only [h1, Option.bind_some, run] at hacc
    cases hs : step c s₁ ev with
    | none => simp [hs] at hacc
    | some s2 => exact ⟨s₁, rfl, (step_eq_some hs).1⟩

/-- what an accepted `quiesce` tells -/
theorem quiesce_check {c : Cfg} {s : St} (h : check c s .quiesce = none) :
    ∃ o sh f, s.offset = some o ∧ s.shape = some sh ∧ s.first = some f ∧
      (f = firstAtOrAfter (returnable c s.acked s.txns s.log) (resolve o (mkShape c sh s.group s.log)) ∨
       (ambiguous o (mkShape c sh s.group s.log) = true ∧
        f = firstAtOrAfter (returnable c s.acked s.txns s.log) (resolveLit o (mkShape c sh s.group s.log)))) := by
  simp only [check] at h
  split at h
  · rename_i o sh f ho hsh hf
    refine ⟨o, sh, f, ho, hsh, hf, ?_⟩
    split at h
    · rename_i heq
      exact Or.inl (by simpa using heq)
    · split at h
      · rename_i heq
        simp only [Bool.and_eq_true, beq_iff_eq] at heq
        exact Or.inr heq
      · cases h
  · cases h

end Proof.StartOff
