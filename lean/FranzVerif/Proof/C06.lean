import FranzVerif.Model.C06
/-! C06 — helper lemmas (core Lean only). -/
namespace Proof.C06
open Model.C06

/-! ## the aborter does not depend on the order of the aborted list -/

theorem buildAborter_perm {A A' : List (Int × Int)} (h : A.Perm A') : buildAborter A = buildAborter A' := by
  funext pid
  unfold buildAborter
  have hle_trans : ∀ a b c : Int, decide (a ≤ b) = true → decide (b ≤ c) = true → decide (a ≤ c) = true := by
    intro a b c; simp; omega
  have hle_total : ∀ a b : Int, (decide (a ≤ b) || decide (b ≤ a)) = true := by
    intro a b; simp; omega
  apply List.Perm.eq_of_pairwise (le := fun a b => decide (a ≤ b) = true)
  · intro a b _ _ h1 h2; simp at h1 h2; omega
  · exact List.pairwise_mergeSort hle_trans hle_total _
  · exact List.pairwise_mergeSort hle_trans hle_total _
  · exact ((List.mergeSort_perm _ _).trans (((h.filter _).map _))).trans (List.mergeSort_perm _ _).symm

/-! ## byte level: no slice expression panics -/

theorem uvarint_n_le (inp : Bytes) : (uvarint inp).2 ≤ 5 := by
  unfold uvarint
  repeat' split
  all_goals simp

theorem varint_n_le (inp : Bytes) : (varint inp).2 ≤ 5 := by
  unfold varint; exact uvarint_n_le inp

theorem sliceTo_isSome (s : Bytes) (hi : Int) (h0 : 0 ≤ hi) (h1 : hi ≤ s.length) : (sliceTo? s hi).isSome := by
  simp [sliceTo?, h0, h1]
theorem sliceFrom_isSome (s : Bytes) (lo : Int) (h0 : 0 ≤ lo) (h1 : lo ≤ s.length) : (sliceFrom? s lo).isSome := by
  simp [sliceFrom?, h0, h1]

/-- `readRawRecordsInto` never evaluates a panicking slice expression (with the `used <= 0` guard). -/
theorem decodeAll_tail (fuel : Nat) (inp : Bytes) : (decodeAll fuel inp).2 = .stop := by
  induction fuel generalizing inp with
  | zero => simp [decodeAll]
  | succ n ih =>
    unfold decodeAll
    simp only
    split
    · rfl
    · rename_i hg
      have hg' : 0 < (varint inp).2 ∧ 0 ≤ (varint inp).1 ∧ (varint inp).2 + (varint inp).1 ≤ inp.length := by
        simp only [not_or, Int.not_le, Int.not_lt] at hg; exact hg
      have h1 := sliceTo_isSome inp ((varint inp).2 + (varint inp).1) (by omega) hg'.2.2
      have h2 := sliceFrom_isSome inp ((varint inp).2 + (varint inp).1) (by omega) hg'.2.2
      split
      · rename_i hn; simp [hn] at h1
      · split
        · rfl
        · split
          · rename_i hn; simp [hn] at h2
          · exact ih _


theorem rdN_len {n : Nat} {s : Bytes} {v : Nat} {r : Bytes} (h : rdN n s = some (v, r)) : r.length + n = s.length := by
  unfold rdN at h
  split at h
  · simp at h
  · simp at h; obtain ⟨_, rfl⟩ := h; simp; omega

theorem rdI64_len {s : Bytes} {v : Int} {r : Bytes} (h : rdI64 s = some (v, r)) : r.length + 8 = s.length := by
  unfold rdI64 at h
  cases h' : rdN 8 s with
  | none => simp [h'] at h
  | some p => obtain ⟨a, b⟩ := p; simp [h'] at h; obtain ⟨_, rfl⟩ := h; exact rdN_len h'
theorem rdI32_len {s : Bytes} {v : Int} {r : Bytes} (h : rdI32 s = some (v, r)) : r.length + 4 = s.length := by
  unfold rdI32 at h
  cases h' : rdN 4 s with
  | none => simp [h'] at h
  | some p => obtain ⟨a, b⟩ := p; simp [h'] at h; obtain ⟨_, rfl⟩ := h; exact rdN_len h'
theorem rdI8_len {s : Bytes} {v : Int} {r : Bytes} (h : rdI8 s = some (v, r)) : r.length + 1 = s.length := by
  unfold rdI8 at h
  cases h' : rdN 1 s with
  | none => simp [h'] at h
  | some p => obtain ⟨a, b⟩ := p; simp [h'] at h; obtain ⟨_, rfl⟩ := h; exact rdN_len h'

theorem readMsg0_len {s : Bytes} {m : RawMsg} (h : readMsg0 s = some m) : 16 ≤ s.length := by
  unfold readMsg0 at h
  cases h1 : rdI64 s with
  | none => simp [h1] at h
  | some p1 =>
    obtain ⟨a1, r1⟩ := p1
    cases h2 : rdI32 r1 with
    | none => simp [h1, h2] at h
    | some p2 =>
      obtain ⟨a2, r2⟩ := p2
      cases h3 : rdI32 r2 with
      | none => simp [h1, h2, h3] at h
      | some p3 =>
        obtain ⟨a3, r3⟩ := p3
        have := rdI64_len h1; have := rdI32_len h2; have := rdI32_len h3; omega

theorem readMsg1_len {s : Bytes} {m : RawMsg} (h : readMsg1 s = some m) : 16 ≤ s.length := by
  unfold readMsg1 at h
  cases h1 : rdI64 s with
  | none => simp [h1] at h
  | some p1 =>
    obtain ⟨a1, r1⟩ := p1
    cases h2 : rdI32 r1 with
    | none => simp [h1, h2] at h
    | some p2 =>
      obtain ⟨a2, r2⟩ := p2
      cases h3 : rdI32 r2 with
      | none => simp [h1, h2, h3] at h
      | some p3 =>
        obtain ⟨a3, r3⟩ := p3
        have := rdI64_len h1; have := rdI32_len h2; have := rdI32_len h3; omega

theorem readBatch_len {s : Bytes} {m : RawBatch} (h : readBatch s = some m) : 21 ≤ s.length := by
  unfold readBatch at h
  cases h1 : rdI64 s with
  | none => simp [h1] at h
  | some p1 =>
    obtain ⟨a1, r1⟩ := p1
    cases h2 : rdI32 r1 with
    | none => simp [h1, h2] at h
    | some p2 =>
      obtain ⟨a2, r2⟩ := p2
      cases h3 : rdI32 r2 with
      | none => simp [h1, h2, h3] at h
      | some p3 =>
        obtain ⟨a3, r3⟩ := p3
        cases h4 : rdI8 r3 with
        | none => simp [h1, h2, h3, h4] at h
        | some p4 =>
          obtain ⟨a4, r4⟩ := p4
          cases h5 : rdI32 r4 with
          | none => simp [h1, h2, h3, h4, h5] at h
          | some p5 =>
            obtain ⟨a5, r5⟩ := p5
            have := rdI64_len h1; have := rdI32_len h2; have := rdI32_len h3; have := rdI8_len h4; have := rdI32_len h5; omega

theorem frameLen_isSome (inp : Bytes) (h : inp.length > 17) : ∃ l, frameLen inp = some l := by
  unfold frameLen sliceFrom?
  have : (0:Int) ≤ 8 ∧ (8:Int) ≤ inp.length := by omega
  simp [this]
  omega

theorem sliceTo_len {s : Bytes} {hi : Int} {b : Bytes} (h : sliceTo? s hi = some b) : (b.length : Int) = hi := by
  unfold sliceTo? at h
  split at h
  · simp at h; subst h; simp; omega
  · simp at h

theorem slice_isSome (s : Bytes) (lo hi : Int) (h0 : 0 ≤ lo) (h1 : lo ≤ hi) (h2 : hi ≤ s.length) : (slice? s lo hi).isSome := by
  simp [slice?, h0, h1, h2]

theorem frames_no_panic (env : Env) (fuel : Nat) (inp : Bytes) : Item.panic ∉ frames env fuel inp := by
  induction fuel generalizing inp with
  | zero => simp [frames]
  | succ n ih =>
    unfold frames
    simp only
    split
    · simp
    · rename_i hlen
      have hlen' : inp.length > 17 := by omega
      obtain ⟨l, hl⟩ := frameLen_isSome inp hlen'
      simp only [hl]
      split
      · simp
      · rename_i hg
        have hg' : 0 ≤ l ∧ l ≤ inp.length := by omega
        have hidx : ∃ m, idx? inp 16 = some m := by
          unfold idx?
          exact ⟨inp[16], by simp [List.getElem?_eq_getElem (show 16 < inp.length by omega)]⟩
        obtain ⟨m, hm⟩ := hidx
        simp only [hm]
        split
        · simp
        · cases hb : sliceTo? inp l with
          | none => have := sliceTo_isSome inp l hg'.1 hg'.2; simp [hb] at this
          | some body =>
            have hbl := sliceTo_len hb
            simp only
            generalize hp : (if m.toNat = 2 then Option.map (fun rb => (Item.batch (mkBatch env rb), rb.length, rb.crc)) (readBatch body)
              else if m.toNat = 1 then Option.map (fun rm => (Item.msg rm.m (mkInner env true rm.m), rm.size, rm.crc)) (readMsg1 body)
              else Option.map (fun rm => (Item.msg rm.m (mkInner env false rm.m), rm.size, rm.crc)) (readMsg0 body)) = parsed
            cases parsed with
            | none => simp
            | some t =>
              obtain ⟨item, lf, cf⟩ := t
              have hfacts : item ≠ Item.panic ∧ (if m.toNat = 2 then (21:Int) else 16) ≤ l := by
                by_cases h2 : m.toNat = 2
                · simp only [h2, if_true] at hp ⊢
                  cases hr : readBatch body with
                  | none => simp [hr] at hp
                  | some rb =>
                    simp [hr] at hp
                    have := readBatch_len hr
                    refine ⟨by rw [← hp.1]; simp, by omega⟩
                · by_cases h1 : m.toNat = 1
                  · simp only [h2, h1, if_true, if_false] at hp ⊢
                    cases hr : readMsg1 body with
                    | none => simp [hr] at hp
                    | some rb =>
                      simp [hr] at hp
                      have := readMsg1_len hr
                      refine ⟨by rw [← hp.1]; simp, by omega⟩
                  · simp only [h2, h1, if_false] at hp ⊢
                    cases hr : readMsg0 body with
                    | none => simp [hr] at hp
                    | some rb =>
                      simp [hr] at hp
                      have := readMsg0_len hr
                      refine ⟨by rw [← hp.1]; simp, by omega⟩
              obtain ⟨hitem, hcl⟩ := hfacts
              have h16 : (16:Int) ≤ l := by split at hcl <;> omega
              simp only
              cases h12 : slice? inp 12 l with
              | none => have := slice_isSome inp 12 l (by omega) (by omega) hg'.2; simp [h12] at this
              | some l12 =>
                simp only
                split
                · simp
                · have hcrc := slice_isSome inp (if m.toNat = 2 then 21 else 16) l (by split <;> omega) hcl hg'.2
                  cases hc : slice? inp (if m.toNat = 2 then 21 else 16) l with
                  | none => simp [hc] at hcrc
                  | some c =>
                    simp only
                    have hsf := sliceFrom_isSome inp l hg'.1 hg'.2
                    cases hr : sliceFrom? inp l with
                    | none => simp [hr] at hsf
                    | some rest =>
                      have := ih rest
                      split <;> rename_i hx
                      · exfalso
                        revert hx
                        repeat' split
                        all_goals simp
                      · simp
                      · simp [hitem.symm, this]


theorem innerWalk_no_panic (env : Env) (v1 : Bool) (fuel : Nat) (inp : Bytes) : (innerWalk env v1 fuel inp).2.2 = false := by
  induction fuel generalizing inp with
  | zero => simp [innerWalk]
  | succ n ih =>
    unfold innerWalk
    simp only
    split
    · rfl
    · rename_i hlen
      have hlen' : inp.length > 17 := by omega
      obtain ⟨l, hl⟩ := frameLen_isSome inp hlen'
      simp only [hl]
      split
      · rfl
      · rename_i hg
        have hg' : 0 ≤ l ∧ l ≤ inp.length := by omega
        have hidx : ∃ m, idx? inp 16 = some m := by
          unfold idx?
          exact ⟨inp[16], by simp [List.getElem?_eq_getElem (show 16 < inp.length by omega)]⟩
        obtain ⟨m, hm⟩ := hidx
        generalize hmg : (if v1 = true then idx? inp 16 else some 0) = mg
        cases mg with
        | none => cases v1 <;> simp [hm] at hmg
        | some magic =>
          simp only
          split
          · rfl
          · cases hb : sliceTo? inp l with
            | none => have := sliceTo_isSome inp l hg'.1 hg'.2; simp [hb] at this
            | some body =>
              have hbl := sliceTo_len hb
              simp only
              generalize hp : (if v1 = true ∧ magic.toNat = 1 then readMsg1 body else readMsg0 body) = parsed
              cases parsed with
              | none => rfl
              | some rm =>
                have h16 : (16:Int) ≤ l := by
                  split at hp
                  · have := readMsg1_len hp; omega
                  · have := readMsg0_len hp; omega
                simp only
                cases h12 : slice? inp 12 l with
                | none => have := slice_isSome inp 12 l (by omega) (by omega) hg'.2; simp [h12] at this
                | some l12 =>
                  simp only
                  split
                  · rfl
                  · have hcrc := slice_isSome inp 16 l (by omega) h16 hg'.2
                    cases hc : slice? inp 16 l with
                    | none => simp [hc] at hcrc
                    | some c =>
                      have hsf := sliceFrom_isSome inp l hg'.1 hg'.2
                      cases hr : sliceFrom? inp l with
                      | none => simp [hr] at hsf
                      | some rest =>
                        have := ih rest
                        split <;> rename_i hx
                        · exfalso
                          revert hx
                          repeat' split
                          all_goals simp
                        · rfl
                        · simp [this]

theorem mkInner_no_panic (env : Env) (v1 : Bool) (m : Msg) : (mkInner env v1 m).panic = false := by
  unfold mkInner
  simp only
  split
  · rfl
  · split
    · rfl
    · simp only; exact innerWalk_no_panic _ _ _ _


theorem abortKey_isSome (key : Option Bytes) : (abortKey key).isSome := by
  unfold abortKey
  simp only
  split
  · rename_i h
    have h2 : ∃ a, idx? (key.getD []) 2 = some a := ⟨(key.getD [])[2], by unfold idx?; simp [List.getElem?_eq_getElem (show 2 < (key.getD []).length by omega)]⟩
    have h3 : ∃ a, idx? (key.getD []) 3 = some a := ⟨(key.getD [])[3], by unfold idx?; simp [List.getElem?_eq_getElem (show 3 < (key.getD []).length by omega)]⟩
    obtain ⟨a, ha⟩ := h2; obtain ⟨b, hb⟩ := h3
    simp [ha, hb]
  · rfl

theorem trackAbortedPID_isSome (a : Aborter) (pid : Int) : (trackAbortedPID a pid).isSome := by
  unfold trackAbortedPID
  split
  · rfl
  · rename_i h
    cases hp : a pid with
    | nil => exact absurd hp h
    | cons x xs => simp

theorem shouldAbortBatch_isSome (a : Aborter) (b : Batch) : (shouldAbortBatch a b).isSome := by
  unfold shouldAbortBatch
  split
  · rfl
  · split
    · rfl
    · rename_i h
      cases hp : a b.pid with
      | nil => exact absurd hp h
      | cons x xs => simp

theorem procRecords_isSome (o : Opts) (b : Batch) (ab : Bool) :
    ∀ (ks : List KRec) (slab : Nat) (handled : Bool) (s : St),
      (ks.map (·.headers.length)).sum ≤ slab → (procRecords o b ab ks slab handled s).isSome := by
  intro ks
  induction ks with
  | nil => intros; simp [procRecords]
  | cons k ks ih =>
    intro slab handled s hsum
    simp only [List.map_cons, List.sum_cons] at hsum
    unfold procRecords
    simp only
    split
    · omega
    · split
      · have hk := abortKey_isSome (recordToRecord b k).key
        cases hak : abortKey (recordToRecord b k).key with
        | none => simp [hak] at hk
        | some v =>
          cases v with
          | true =>
            simp only
            have ht := trackAbortedPID_isSome (maybeKeepRecord o s (recordToRecord b k) ab).ab b.pid
            cases htr : trackAbortedPID (maybeKeepRecord o s (recordToRecord b k) ab).ab b.pid with
            | none => simp [htr] at ht
            | some a => simp only; exact ih _ _ _ (by omega)
          | false => simp only; exact ih _ _ _ (by omega)
      · exact ih _ _ _ (by omega)

theorem takeRecs_isSome (b : Batch) (n : Nat) (ht : b.tail = .stop) : ∃ ks, takeRecs b n = some ks := by
  unfold takeRecs
  split
  · exact ⟨_, rfl⟩
  · rw [ht]; exact ⟨_, rfl⟩

theorem processRecordBatch_isSome (o : Opts) (s : St) (b : Batch) (ht : b.tail = .stop) : (processRecordBatch o s b).isSome := by
  unfold processRecordBatch
  simp only
  split; · rfl
  split; · rfl
  split; · rfl
  split; · rfl
  split; · rfl
  obtain ⟨ks, hks⟩ := takeRecs_isSome b (if b.numRecords > b.rawLen then b.rawLen else b.numRecords.toNat) ht
  simp only [hks]
  have hab := shouldAbortBatch_isSome s.ab b
  cases hsab : shouldAbortBatch s.ab b with
  | none => simp [hsab] at hab
  | some ab =>
    simp only
    have hpr := procRecords_isSome o b ab ks ((ks.map (·.headers.length)).sum) false s (Nat.le_refl _)
    cases hp : procRecords o b ab ks ((ks.map (·.headers.length)).sum) false s with
    | none => simp [hp] at hpr
    | some s' => simp

theorem processOuter_isSome (o : Opts) (s : St) (m : Msg) (inner : Inner) (hp : inner.panic = false) : (processOuter o s m inner).isSome := by
  unfold processOuter
  simp only [hp]
  split; · rfl
  split; · rfl
  split
  · simp
  · rename_i hne
    simp only [Bool.false_eq_true, if_false]
    split
    · split
      · cases hl : inner.msgs.getLast? with
        | none => simp [List.getLast?_eq_none_iff] at hl; simp [hl] at hne
        | some last => simp only; split <;> rfl
      · rfl
    · rfl

def ItemOk : Item → Prop
  | .panic => False
  | .batch b => b.tail = .stop
  | .msg _ i => i.panic = false
  | _ => True

theorem stepItem_isSome (o : Opts) (s : St) (it : Item) (h : ItemOk it) : (stepItem o s it).isSome := by
  cases it with
  | panic => exact absurd h (by simp [ItemOk])
  | stop e => simp [stepItem]
  | badMagic off => simp [stepItem]
  | batch b =>
    have := processRecordBatch_isSome o s b h
    simp [stepItem, this]
  | msg m i =>
    have := processOuter_isSome o s m i h
    simp [stepItem, this]

theorem walk_isSome (o : Opts) : ∀ (items : List Item) (s : St), (∀ it ∈ items, ItemOk it) → (walk o s items).isSome := by
  intro items
  induction items with
  | nil => intros; simp [walk]
  | cons it its ih =>
    intro s h
    unfold walk
    split
    · rfl
    · have := stepItem_isSome o s it (h it (by simp))
      cases hs : stepItem o s it with
      | none => simp [hs] at this
      | some s' => simp only; exact ih s' (fun x hx => h x (by simp [hx]))

theorem mkBatch_tail (env : Env) (rb : RawBatch) : (mkBatch env rb).tail = .stop := by
  unfold mkBatch
  simp only
  split
  · rfl
  · simp only; exact decodeAll_tail _ _

theorem frames_itemOk (env : Env) (fuel : Nat) (inp : Bytes) : ∀ it ∈ frames env fuel inp, ItemOk it := by
  induction fuel generalizing inp with
  | zero => simp [frames]
  | succ n ih =>
    unfold frames
    simp only
    split
    · simp [ItemOk]
    · rename_i hlen
      have hlen' : inp.length > 17 := by omega
      obtain ⟨l, hl⟩ := frameLen_isSome inp hlen'
      simp only [hl]
      split
      · simp [ItemOk]
      · rename_i hg
        have hg' : 0 ≤ l ∧ l ≤ inp.length := by omega
        have hidx : ∃ m, idx? inp 16 = some m := by
          unfold idx?
          exact ⟨inp[16], by simp [List.getElem?_eq_getElem (show 16 < inp.length by omega)]⟩
        obtain ⟨m, hm⟩ := hidx
        simp only [hm]
        split
        · simp [ItemOk]
        · cases hb : sliceTo? inp l with
          | none => have := sliceTo_isSome inp l hg'.1 hg'.2; simp [hb] at this
          | some body =>
            have hbl := sliceTo_len hb
            simp only
            generalize hp : (if m.toNat = 2 then Option.map (fun rb => (Item.batch (mkBatch env rb), rb.length, rb.crc)) (readBatch body)
              else if m.toNat = 1 then Option.map (fun rm => (Item.msg rm.m (mkInner env true rm.m), rm.size, rm.crc)) (readMsg1 body)
              else Option.map (fun rm => (Item.msg rm.m (mkInner env false rm.m), rm.size, rm.crc)) (readMsg0 body)) = parsed
            cases parsed with
            | none => simp [ItemOk]
            | some t =>
              obtain ⟨item, lf, cf⟩ := t
              have hfacts : ItemOk item ∧ (if m.toNat = 2 then (21:Int) else 16) ≤ l := by
                by_cases h2 : m.toNat = 2
                · simp only [h2, if_true] at hp ⊢
                  cases hr : readBatch body with
                  | none => simp [hr] at hp
                  | some rb =>
                    simp [hr] at hp
                    have := readBatch_len hr
                    refine ⟨by rw [← hp.1]; first | exact mkBatch_tail _ _ | exact mkInner_no_panic _ _ _, by omega⟩
                · by_cases h1 : m.toNat = 1
                  · simp only [h2, h1, if_true, if_false] at hp ⊢
                    cases hr : readMsg1 body with
                    | none => simp [hr] at hp
                    | some rb =>
                      simp [hr] at hp
                      have := readMsg1_len hr
                      refine ⟨by rw [← hp.1]; first | exact mkBatch_tail _ _ | exact mkInner_no_panic _ _ _, by omega⟩
                  · simp only [h2, h1, if_false] at hp ⊢
                    cases hr : readMsg0 body with
                    | none => simp [hr] at hp
                    | some rb =>
                      simp [hr] at hp
                      have := readMsg0_len hr
                      refine ⟨by rw [← hp.1]; first | exact mkBatch_tail _ _ | exact mkInner_no_panic _ _ _, by omega⟩
              obtain ⟨hitem, hcl⟩ := hfacts
              have h16 : (16:Int) ≤ l := by split at hcl <;> omega
              simp only
              cases h12 : slice? inp 12 l with
              | none => have := slice_isSome inp 12 l (by omega) (by omega) hg'.2; simp [h12] at this
              | some l12 =>
                simp only
                split
                · simp [ItemOk]
                · have hcrc := slice_isSome inp (if m.toNat = 2 then 21 else 16) l (by split <;> omega) hcl hg'.2
                  cases hc : slice? inp (if m.toNat = 2 then 21 else 16) l with
                  | none => simp [hc] at hcrc
                  | some c =>
                    simp only
                    have hsf := sliceFrom_isSome inp l hg'.1 hg'.2
                    cases hr : sliceFrom? inp l with
                    | none => simp [hr] at hsf
                    | some rest =>
                      have := ih rest
                      split <;> rename_i hx
                      · exfalso
                        revert hx
                        repeat' split
                        all_goals simp
                      · simp [ItemOk]
                      · intro it hit; simp at hit; rcases hit with rfl | hit; exact hitem; exact this it hit



/-! ## the next offset never decreases -/

theorem maybeKeep_off_le (o : Opts) (s : St) (r : Rec) (ab : Bool) : s.off ≤ (maybeKeepRecord o s r ab).off := by
  unfold maybeKeepRecord
  split
  · exact Int.le_refl _
  · simp only; omega

theorem procRecords_off_le (o : Opts) (b : Batch) (ab : Bool) :
    ∀ (ks : List KRec) (slab : Nat) (handled : Bool) (s s' : St),
      procRecords o b ab ks slab handled s = some s' → s.off ≤ s'.off := by
  intro ks
  induction ks with
  | nil => intro slab handled s s' h; simp [procRecords] at h; subst h; exact Int.le_refl _
  | cons k ks ih =>
    intro slab handled s s' h
    have hk := maybeKeep_off_le o s (recordToRecord b k) ab
    unfold procRecords at h
    simp only at h
    split at h
    · simp at h
    · split at h
      · split at h
        · simp at h
        · split at h
          · simp at h
          · have := ih _ _ _ _ h; simp only at this; omega
        · have := ih _ _ _ _ h; omega
      · have := ih _ _ _ _ h; omega

theorem processRecordBatch_off_le (o : Opts) (s s' : St) (b : Batch) (h : processRecordBatch o s b = some s') : s.off ≤ s'.off := by
  unfold processRecordBatch at h
  simp only at h
  split at h; · simp at h; subst h; exact Int.le_refl _
  split at h; · simp at h; subst h; exact Int.le_refl _
  split at h; · simp at h; subst h; exact Int.le_refl _
  split at h; · simp at h; subst h; exact Int.le_refl _
  split at h; · simp at h; subst h; exact Int.le_refl _
  split at h; · simp at h
  split at h; · simp at h
  split at h; · simp at h
  rename_i s2 hp
  have := procRecords_off_le _ _ _ _ _ _ _ _ hp
  injection h with h
  subst h
  have key : ∀ (C : Prop) [Decidable C] (X : Int), (C → s2.off < X) → s.off ≤ (if C then { s2 with off := X } else s2).off := by
    intro C _ X hC
    split
    · rename_i hc; have := hC hc; simp only; omega
    · exact this
  exact key _ _ (fun hc => hc.2)

theorem processMessage_off_le (o : Opts) (s : St) (m : Msg) : s.off ≤ (processMessage o s m).1.off := by
  unfold processMessage
  repeat' split
  all_goals first | exact Int.le_refl _ | exact maybeKeep_off_le _ _ _ _

theorem processInner_off_le (o : Opts) (base : Int) (codec : Nat) (lat : Option Int) : ∀ (ms : List Msg) (s : St), s.off ≤ (processInner o base codec lat s ms).off := by
  intro ms
  induction ms with
  | nil => intro s; simp [processInner]
  | cons m ms ih =>
    intro s
    unfold processInner
    simp only
    have h1 := processMessage_off_le o s (innerSeen base codec lat m)
    split
    · have := ih (processMessage o s (innerSeen base codec lat m)).1; omega
    · exact h1

theorem processOuter_off_le (o : Opts) (s s' : St) (m : Msg) (inner : Inner) (h : processOuter o s m inner = some s') : s.off ≤ s'.off := by
  unfold processOuter at h
  simp only at h
  split at h; · simp at h; subst h; exact processMessage_off_le _ _ _
  split at h; · simp at h; subst h; exact Int.le_refl _
  generalize hs1 : setErr s inner.err = s1 at h
  have hoff : s1.off = s.off := by subst hs1; cases inner.err <;> rfl
  split at h
  · split at h
    · simp at h
    · cases h; omega
  · split at h; · simp at h
    split at h
    · split at h
      · split at h
        · simp at h
        · split at h
          · cases h; simp only; omega
          · cases h
            have := processInner_off_le o (m.offset - ‹Msg›.offset) (m.attrs % 4) (if m.attrs / 8 % 2 = 1 then some m.ts else none) inner.msgs s1
            omega
      · cases h
        have := processInner_off_le o 0 (m.attrs % 4) (if m.attrs / 8 % 2 = 1 then some m.ts else none) inner.msgs s1
        omega
    · cases h
      have := processInner_off_le o 0 (m.attrs % 4) none inner.msgs s1
      omega

theorem stepItem_off_le (o : Opts) (s s' : St) (it : Item) (h : stepItem o s it = some s') : s.off ≤ s'.off := by
  cases it with
  | panic => simp [stepItem] at h
  | stop e => simp [stepItem] at h; subst h; exact Int.le_refl _
  | badMagic off => simp [stepItem] at h; subst h; simp only; split <;> omega
  | batch b =>
    simp only [stepItem] at h
    cases hp : processRecordBatch o s b with
    | none => simp [hp] at h
    | some s2 =>
      have := processRecordBatch_off_le o s s2 b hp
      simp [hp] at h; subst h; split <;> simpa using this
  | msg m i =>
    simp only [stepItem] at h
    cases hp : processOuter o s m i with
    | none => simp [hp] at h
    | some s2 =>
      have := processOuter_off_le o s s2 m i hp
      simp [hp] at h; subst h; split <;> simpa using this

theorem walk_off_le (o : Opts) : ∀ (items : List Item) (s s' : St), walk o s items = some s' → s.off ≤ s'.off := by
  intro items
  induction items with
  | nil => intro s s' h; simp [walk] at h; subst h; exact Int.le_refl _
  | cons it its ih =>
    intro s s' h
    unfold walk at h
    split at h
    · simp at h; subst h; exact Int.le_refl _
    · cases hs : stepItem o s it with
      | none => simp [hs] at h
      | some s2 =>
        simp [hs] at h
        have h1 := stepItem_off_le o s s2 it hs
        have h2 := ih s2 s' h
        omega

end Proof.C06
